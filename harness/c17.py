"""C17 — every simulation terminates and fails loudly."""
import copy
import datetime
import glob
import os
import random
import shutil
import tempfile

import loopcount
import runcheck
import runoracle
import s_ctor

PID = "C17"
CHUNK = 4
RULE = ("scenarios from the grammar in harness/scen.py (15 % with infeasible trips), every strategy, one third of the "
        "runs with a fault injected into the strategy step at a random timestep, one sixth with an error in the scenario's "
        "data that is met while a later step's events are processed (arrival without soc_delta, fixed load named like a "
        "charging station); every run ends with report generation "
        "(`testing` aggregates; one run in four also writes the results JSON, the time series CSV per connector and the "
        "SoC CSV, whose row counts must equal the number of reported steps); watchdog per run; "
        "in every flex_window / schedule run the iterations of every entry of every inner `while` loop are counted "
        "(harness/loopcount.py: sys.monitoring line events on the loops found with ast in the imported module, no "
        "source edit) and compared with the loop's proved bound computed from the step's inputs; "
        "non-trivial = the run reported at least one step; distinct = distinct (seed, index, strategy)")
ASSUMPTIONS = ["'bounded time' is judged by a 90 s watchdog per run (wall-clock is not a theorem)"]
UNPROVED = ["termination of the strategies' internal while-loops is proved per loop on the strategy models (fuel theorems "
            "C17_<strategy>_*); the wall-clock sentence itself is observed by the watchdog",
            "flex_window / schedule: that the REAL loops stay within the proved iteration bounds is observed per loop entry "
            "(keys C17:loop_iterations_exceed_bound:<strategy>:<function>:<n-th while>; bisections: least n with "
            "W <= EPS*2^n plus 2 for IEEE midpoint rounding; event peeks: future events + 1; look-ahead: "
            "ceil((departure - now)/interval); end-of-window scan: 8*1440 (repair H4); collective retry queue: "
            "(n+1)((nM+1)A+nM)+n+1, astronomically large - observed maxima are in the evidence as loop_max_iterations:*); "
            "regressions of the repaired hangs H4 / PLW4 / BM3 are corpus/C17 cases",
            "report generation (report.py) is exercised, not modelled here (C18 models its content)"]
compare = runcheck.compare


def gen_cases(tier, seed):
    # constructor streams (exact): time frame / step count, legacy keys, class_from_str, Strategy.__init__ options,
    # Scenario.run's option injection, component construction - see harness/s_ctor.py
    yield from s_ctor.cases_for(CTOR_STREAMS, tier, seed, PID)
    yield from runcheck.gen_cases_for(PID, tier, seed, per_strategy_quick=250, per_strategy_thorough=2500, fault=True)


CTOR_STREAMS = ["time", "legacy", "class", "stratinit", "runopts", "components", "simopts", "sanitize", "cfg"]


def data_fault(full, rng):
    """An error that comes from the scenario's data and is raised while a step's events are processed (whoever
    replays the events - the flex report does - meets it again): an arrival without soc_delta, or a fixed load that
    carries a charging station's name, first due at a step after the first."""
    s = full["scenario"]
    start = datetime.datetime.fromisoformat(s["scenario"]["start_time"])
    iv = datetime.timedelta(minutes=s["scenario"]["interval"])
    n = s["scenario"]["n_intervals"]
    ev = s["events"]
    arrivals = [e for e in ev["vehicle_events"] if e["event_type"] == "arrival" and "soc_delta" in e["update"]
                and start + iv <= datetime.datetime.fromisoformat(e["start_time"]) <= start + (n - 1) * iv]
    kind = rng.choice(["arrival_without_soc_delta", "fixed_load_named_like_station"])
    if kind == "arrival_without_soc_delta" and arrivals:
        del rng.choice(arrivals)["update"]["soc_delta"]
        return kind
    stations = s["components"]["charging_stations"]
    if not stations or n < 3:
        return None
    cs_id = rng.choice(sorted(stations))
    k = rng.randint(1, n - 1)
    ev["fixed_load"][cs_id] = {"start_time": (start + k * iv).isoformat(), "step_duration_s": s["scenario"]["interval"] * 60,
                               "grid_connector_id": stations[cs_id]["parent"], "values": [1.0, 2.0]}
    return "fixed_load_named_like_station"


STEP_TIE = os.environ.get("VERIF_C17_NO_STEP_TIE") != "1"     # development switch: judge by the oracle clauses alone


def loop_counted(case, full):
    """which runs carry the loop-iteration counter (derived from the case only): all runs of the two strategies"""
    return full.get("strategy") in loopcount.STRATEGIES


def eval_case(case):
    if case.get("ctor"):
        return s_ctor.eval_case(case)
    full = runcheck.build_case(case)
    if "scenario" not in case and case.get("family") != "builder" and case.get("i", 0) % 6 == 4:
        full = copy.deepcopy(full)
        full["data_fault"] = data_fault(full, random.Random("C17df:%s:%s:%s" % (case["seed"], case["i"], case["strategy"])))
        full["report"] = "files" if case["i"] % 12 == 4 else "testing"
    if "report" not in full:
        full["report"] = "files" if case.get("i", 0) % 4 == 1 else "testing"
    run = copy.deepcopy(full)
    run["options"] = dict(run["options"], testing=True)
    tmp = None
    if full["report"] == "files":
        tmp = tempfile.mkdtemp(prefix="c17_")
        run["options"].update(save_results=os.path.join(tmp, "res.json"), save_timeseries=os.path.join(tmp, "ts.csv"),
                              save_soc=os.path.join(tmp, "soc.csv"))
    try:
        # loop-iteration oracle (harness/loopcount.py): every entry of every inner `while` of flex_window / schedule
        with loopcount.counting(full["strategy"], enabled=loop_counted(case, full)) as loops:
            res = runcheck.eval_run(run, [runoracle.check_c17], step_tie=STEP_TIE)
        res["violations"] += loops.violations
        res["stats"] = res.get("stats", []) + loops.stats
        res.setdefault("num", {}).update(loops.num)
        if tmp and res["sample"].get("reported_steps") is not None and not any(
                k.startswith("C17:exception_escaped") or k.startswith("C17:run_did_not_terminate")
                for _, k, _ in res["violations"]):
            si = res["sample"]["reported_steps"]
            strat = full["strategy"]
            gcs = list(full["scenario"]["components"]["grid_connectors"])
            for stem, ext, per_gc in (("res", ".json", True), ("ts", ".csv", True), ("soc", ".csv", False)):
                files = glob.glob(os.path.join(tmp, stem + "*" + ext))
                want = len(gcs) if per_gc else 1
                if len(files) != want:
                    res["violations"].append(("report", "C17:report_file_missing:%s" % stem,
                                              "%s: %d file(s) for %d expected after %d steps (aborted=%s)"
                                              % (strat, len(files), want, si, res["sample"].get("aborted"))))
                    continue
                if ext == ".csv":
                    for f in files:
                        rows = sum(1 for _ in open(f)) - 1
                        if rows != si:
                            res["violations"].append(("equal_length", "C17:report_rows_differ_from_step_count:%s" % stem,
                                                      "%s: %d rows, %d steps reported" % (strat, rows, si)))
    finally:
        if tmp:
            shutil.rmtree(tmp, ignore_errors=True)
    if full.get("data_fault") and res["sample"].get("reported_steps") is not None and not res["sample"].get("aborted") \
            and not res["violations"]:
        res["violations"].append(("loud", "C17:data_error_ignored:%s" % full["data_fault"],
                                  "%s: the run reports %s steps and is not labelled aborted"
                                  % (full["strategy"], res["sample"]["reported_steps"])))
    res["replay_case"] = full
    res["stats"] = res.get("stats", []) + ["report:" + full["report"]] + (
        ["data_fault:%s" % full["data_fault"]] if full.get("data_fault") else [])
    return res
