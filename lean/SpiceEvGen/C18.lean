/-
C18 on the GENERATED definition of `report.split_feedin` (SpiceEvGen/Src.lean, re-translated from the Python source on
every run by harness/py2lean.py).  Only `theorem C18_gen_…` + a non-vacuity example.
-/
import SpiceEvGen.Src
import SpiceEv.Properties.C18
set_option linter.unusedSectionVars false
namespace SpiceEv
open SpiceEv.Report
variable {α : Type} [Field α] [LinearOrder α] [IsStrictOrderedRing α]

/-- **The translated source is the hand model** of `split_feedin` (the one the report model uses for every row), for
every rounding function. -/
theorem C18_gen_split_feedin_is_model (rnd : α → α) (grid gen cs : α) :
    Gen.split_feedin rnd grid gen cs = splitFeedin rnd grid gen cs := by
  first
    | rfl
    | (simp only [Gen.split_feedin, splitFeedin, splitFeedinRaw, pymin, pymax]
       grind)                               -- a rewritten but equivalent source is still accepted

/-- **Feed-in split, stated about the translated source**: three non-negative parts in the priority generation, V2G,
battery, whose sum is the feed-in `max grid 0`; each part is what is left after the parts before it. -/
theorem C18_gen_split_feedin (grid gen cs : α) :
    ∃ g v b, (∀ rnd : α → α, Gen.split_feedin rnd grid gen cs = [rnd g, rnd v, rnd b]) ∧
      0 ≤ g ∧ 0 ≤ v ∧ 0 ≤ b ∧
      g = min (max (-gen) 0) (max grid 0) ∧
      v = min (max (-cs) 0) (max grid 0 - g) ∧
      b = max grid 0 - g - v ∧
      g + v + b = max grid 0 := by
  obtain ⟨g, v, b, _, g0, v0, b0, hg, hv, hb, hsum, _, _, hr⟩ := C18_split grid gen cs
  exact ⟨g, v, b, fun rnd => by rw [C18_gen_split_feedin_is_model]; exact hr rnd, g0, v0, b0, hg, hv, hb, hsum⟩

/-- Non-vacuity: 6 kW fed in with 3 kW generation and 2 kW V2G: 3 / 2 / 1. -/
example : Gen.split_feedin id (6 : ℚ) (-3) (-2) = [3, 2, 1] := by decide +kernel

end SpiceEv
