"""C04 — grid-connector power limit is never exceeded (see runcheck.py / runoracle.py)."""
import runcheck
import runoracle

PID = "C04"
CHUNK = 4
RULE = ("scenarios from the grammar in harness/scen.py (1-2 connectors, 1-6 vehicles, fixed load, generation, "
        "stationary batteries incl. unlimited, V2G, price/limit/window/schedule signals, on- and off-grid event "
        "times), every strategy; the real Scenario.run is executed with a run-time trace; non-trivial = the run "
        "reported at least one step; distinct = distinct (seed, index, strategy)")
ASSUMPTIONS = ["limit tolerance is the code's own EPS = 1e-5 kW",
               "sentence 2 is judged only at steps where fixed load and generation alone respect the limit",
               "every run also carries the step-level tie of its strategy: the world before each strategy step is rendered for the Lean model of that strategy class, and commands, connector loads, station powers and SoCs after the real step are compared bit for bit"]
UNPROVED = ["the whole-step limit theorems are about the strategy models over an ideal battery contract (BatLaw etc., see "
            "DESIGN I.3); theorems named _partial exclude: V2G-capable vehicles for balanced_market and for the feed-in "
            "side of schedule (collective, inside the core standing time); a generation surplus together with stationary "
            "batteries for peak_load_window; float rounding (needy shares of flex_window)",
            "limit = min(rating, latest signal) and the run-level sentence 2 are decided by the oracle on real runs"]
compare = runcheck.compare


def gen_cases(tier, seed):
    return runcheck.gen_cases_for(PID, tier, seed, per_strategy_quick=250, per_strategy_thorough=2500,
                                  builder_quick=60, builder_thorough=600)


def eval_case(case):
    return runcheck.eval_run(case, [runoracle.check_c04])
