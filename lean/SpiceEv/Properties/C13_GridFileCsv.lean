/-
C13 — the grid situation file, text level: the csv records of a plain file.

Property theorems only (lemmas: SpiceEv/Proofs/GridFileCsv.lean).  Complements
Properties/C13_GridFile.lean, whose theorems start at the csv records: here the records themselves
are derived from the characters of the file for the plain case (no quotes, no carriage returns).
-/
import SpiceEv.Proofs.GridFileCsv
set_option linter.unusedSectionVars false
set_option linter.unusedVariables false
namespace SpiceEv
open SpiceEv.GridFile

/-- **Plain files are split into their cells, in file order.**  If every line of the file consists of
cells without comma, quote, line feed or carriage return (`CleanField`), joined by commas and ended
by `\n`, and no line is empty (`PlainRow`: at least one cell, not a single empty cell), then the csv
reader (line splitting + the `_csv` state machine) returns exactly these cells: one record per line,
in file order, every record with its cells in order — empty cells included. -/
theorem C13_gridfile_csv_plain (rows : List (List (List Char))) (h : ∀ fs ∈ rows, PlainRow fs) :
    readRecords (rows.flatMap (fun fs => joinFields fs ++ ['\n']))
      = .ok (rows.map (fun fs => fs.map String.ofList)) :=
  readRecords_plain rows h

/-- **… and then read by name**: a plain file whose first line is the header `names` and whose further
lines are `data` gives `read_grid_file` the field names `names` and the data rows `data` — so
`C13_gridfile_wellformed` / `C13_gridfile_value_model` / `C13_gridfile_no_rows` apply to the TEXT. -/
theorem C13_gridfile_csv_plain_rows (names : List (List Char)) (data : List (List (List Char)))
    (h : ∀ fs ∈ names :: data, PlainRow fs) :
    ∃ records, readRecords ((names :: data).flatMap (fun fs => joinFields fs ++ ['\n'])) = .ok records ∧
      dictRows records = (names.map String.ofList, data.map (fun fs => fs.map String.ofList)) := by
  refine ⟨_, readRecords_plain (names :: data) h, ?_⟩
  simp only [List.map_cons, dictRows]
  congr 1
  apply List.filter_eq_self.mpr
  intro r hr
  obtain ⟨fs, hfs, rfl⟩ := List.mem_map.mp hr
  have := (h fs (List.mem_cons_of_mem _ hfs)).1
  cases fs with
  | nil => exact absurd rfl this
  | cons a b => simp

/-- non-vacuity: a header and two data lines with an empty cell -/
example :
    (∀ fs ∈ [["residual load".toList, "curtailment".toList], ["1.5".toList, [] ], [[], "2".toList]], PlainRow fs) ∧
    readRecords "residual load,curtailment\n1.5,\n,2\n".toList
      = .ok [["residual load", "curtailment"], ["1.5", ""], ["", "2"]] := by
  decide +kernel

end SpiceEv
