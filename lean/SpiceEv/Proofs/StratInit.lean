/-
Helper lemmas for the constructor theorems (Properties/C15_Init.lean, C05_Init.lean, C11_Init.lean) about
Model/StratInit.lean.
-/
import SpiceEv.Model.StratInit
import SpiceEv.Model.StratBalancedMarket
import SpiceEv.Proofs.Util
import Mathlib.Tactic.Linarith
set_option linter.unusedSimpArgs false
namespace SpiceEv.StratInit
open SpiceEv SpiceEv.PeakLoadWindow

/-! ## calendar -/

theorem month_cases {m : Int} (h1 : 1 ≤ m) (h2 : m ≤ 12) :
    m = 1 ∨ m = 2 ∨ m = 3 ∨ m = 4 ∨ m = 5 ∨ m = 6 ∨ m = 7 ∨ m = 8 ∨ m = 9 ∨ m = 10 ∨ m = 11 ∨ m = 12 := by
  omega

theorem validYmd_iff (y m d : Int) :
    validYmd y m d = true ↔ 1 ≤ y ∧ y ≤ 9999 ∧ 1 ≤ m ∧ m ≤ 12 ∧ 1 ≤ d ∧ d ≤ daysInMonth y m := by
  unfold validYmd
  simp only [Bool.and_eq_true, decide_eq_true_eq]
  tauto

/-- the length of a month depends on the year only in February -/
theorem daysInMonth_of_ne_feb (y y' m : Int) (h : m ≠ 2) : daysInMonth y m = daysInMonth y' m := by
  unfold daysInMonth
  have : (m == 2) = false := by simpa using h
  simp [this]

theorem daysInMonth_feb (y : Int) : daysInMonth y 2 = if isLeap y then 29 else 28 := by
  unfold daysInMonth daysInMonthTable
  cases isLeap y <;> simp

/-- `replaceYear` keeps month and day -/
theorem replaceYear_ok {x x' : Ymd} {y' : Int} (h : x.replaceYear y' = .ok x') :
    x'.y = y' ∧ x'.m = x.m ∧ x'.d = x.d := by
  unfold Ymd.replaceYear at h
  split at h
  · cases h; exact ⟨rfl, rfl, rfl⟩
  · cases h

/-- any valid date other than 29 February can be moved into any year 1…9999 -/
theorem replaceYear_succeeds (x : Ymd) (y' : Int) (hv : validYmd x.y x.m x.d = true)
    (hy : 1 ≤ y' ∧ y' ≤ 9999) (h29 : ¬ (x.m = 2 ∧ x.d = 29)) :
    x.replaceYear y' = .ok ⟨y', x.m, x.d⟩ := by
  unfold Ymd.replaceYear
  rw [validYmd_iff] at hv
  have : validYmd y' x.m x.d = true := by
    rw [validYmd_iff]
    refine ⟨hy.1, hy.2, hv.2.2.1, hv.2.2.2.1, hv.2.2.2.2.1, ?_⟩
    by_cases hm : x.m = 2
    · have hd := hv.2.2.2.2.2
      rw [hm, daysInMonth_feb] at hd ⊢
      have : x.d ≠ 29 := fun h => h29 ⟨hm, h⟩
      split at hd <;> split <;> omega
    · rw [daysInMonth_of_ne_feb y' x.y x.m hm]; exact hv.2.2.2.2.2
  simp [this]

/-- 29 February: `ValueError` exactly for non-leap target years -/
theorem replaceYear_feb29 (y y' : Int) (hy : 1 ≤ y' ∧ y' ≤ 9999) :
    (Ymd.mk y 2 29).replaceYear y' = (if isLeap y' then .ok ⟨y', 2, 29⟩ else .error .valueError) := by
  unfold Ymd.replaceYear
  have : validYmd y' 2 29 = isLeap y' := by
    rw [Bool.eq_iff_iff, validYmd_iff, daysInMonth_feb]
    cases isLeap y' <;> simp <;> try omega
  simp only [this]

/-- `daysBeforeYear` grows by at least 365 per year (366 after a leap year) -/
theorem daysBeforeYear_succ (y : Int) (h : 1 ≤ y) :
    daysBeforeYear (y + 1) = daysBeforeYear y + (if isLeap y then 366 else 365) := by
  unfold daysBeforeYear isLeap
  simp only [Int.add_sub_cancel]
  by_cases h4 : y % 4 = 0 <;> by_cases h100 : y % 100 = 0 <;> by_cases h400 : y % 400 = 0 <;>
    simp [h4, h100, h400] <;> omega

theorem daysBeforeYear_lt {y y' : Int} (h1 : 1 ≤ y) (h : y < y') :
    daysBeforeYear y + 366 ≤ daysBeforeYear y' + (if isLeap y then 0 else 1) := by
  unfold daysBeforeYear isLeap
  by_cases h4 : y % 4 = 0 <;> by_cases h100 : y % 100 = 0 <;> by_cases h400 : y % 400 = 0 <;>
    simp [h4, h100, h400] <;> omega

/-- a valid date lies inside its year -/
theorem ord_in_year {y m d : Int} (hv : validYmd y m d = true) :
    daysBeforeYear y + 1 ≤ ymdToOrd y m d ∧
      ymdToOrd y m d ≤ daysBeforeYear y + (if isLeap y then 366 else 365) := by
  rw [validYmd_iff] at hv
  obtain ⟨_, _, hm1, hm2, hd1, hd2⟩ := hv
  unfold ymdToOrd daysBeforeMonth
  rcases month_cases hm1 hm2 with h | h | h | h | h | h | h | h | h | h | h | h <;> subst h <;>
    (unfold daysInMonth at hd2; cases hl : isLeap y <;>
      simp [daysBeforeMonthTable, daysInMonthTable, hl] at hd2 ⊢ <;> omega)

/-- within a year the ordinal is strictly monotone in (month, day) -/
theorem ord_lt_same_year {y m d m' d' : Int} (hv : validYmd y m d = true) (hv' : validYmd y m' d' = true)
    (h : m < m' ∨ (m = m' ∧ d < d')) : ymdToOrd y m d < ymdToOrd y m' d' := by
  rw [validYmd_iff] at hv hv'
  obtain ⟨_, _, hm1, hm2, hd1, hd2⟩ := hv
  obtain ⟨_, _, hm1', hm2', hd1', hd2'⟩ := hv'
  unfold ymdToOrd daysBeforeMonth
  rcases h with h | ⟨h, hd⟩
  · rcases month_cases hm1 hm2 with e | e | e | e | e | e | e | e | e | e | e | e <;> subst e <;>
      rcases month_cases hm1' hm2' with e' | e' | e' | e' | e' | e' | e' | e' | e' | e' | e' | e' <;> subst e' <;>
      first
        | omega
        | (unfold daysInMonth at hd2; cases hl : isLeap y <;>
            simp [daysBeforeMonthTable, daysInMonthTable, hl] at hd2 ⊢ <;> omega)
  · subst h; omega

/-- **dates compare like their ordinals**: on valid dates `toordinal` is strictly monotone for the lexicographic
order on (year, month, day) — comparing the converted ordinals is comparing the dates written in the file -/
theorem ord_lt_of_lex {y m d y' m' d' : Int} (hv : validYmd y m d = true) (hv' : validYmd y' m' d' = true)
    (h : y < y' ∨ (y = y' ∧ (m < m' ∨ (m = m' ∧ d < d')))) : ymdToOrd y m d < ymdToOrd y' m' d' := by
  rcases h with h | ⟨h, h'⟩
  · have a := (ord_in_year hv).2
    have b := (ord_in_year hv').1
    have hy1 : 1 ≤ y := ((validYmd_iff y m d).1 hv).1
    have c := daysBeforeYear_lt hy1 h
    cases hl : isLeap y <;> simp [hl] at a c <;> omega
  · subst h; exact ord_lt_same_year hv hv' h'

/-! ## `mapM` in `Except` -/

theorem mapM_ok_forall₂ {β γ : Type} (f : β → Py γ) :
    ∀ (l : List β) (l' : List γ), l.mapM f = .ok l' ↔ List.Forall₂ (fun a b => f a = .ok b) l l'
  | [], l' => by
    simp only [List.mapM_nil, pure, Except.pure]
    constructor
    · intro h; cases h; exact .nil
    · intro h; cases h; rfl
  | a :: l, l' => by
    rw [List.mapM_cons]
    cases hf : f a with
    | error e =>
      simp only [bind, Except.bind]
      constructor
      · intro h; cases h
      · intro h; cases h with | cons h1 _ => rw [hf] at h1; cases h1
    | ok b =>
      simp only [bind, Except.bind]
      cases hm : l.mapM f with
      | error e =>
        simp only [pure, Except.pure]
        constructor
        · intro h; cases h
        · intro h
          cases h with
          | cons h1 h2 =>
            have := (mapM_ok_forall₂ f l _).2 h2
            rw [hm] at this; cases this
      | ok bs =>
        simp only [pure, Except.pure]
        constructor
        · intro h; cases h
          exact .cons hf ((mapM_ok_forall₂ f l bs).1 hm)
        · intro h
          cases h with
          | cons h1 h2 =>
            rw [hf] at h1; cases h1
            have := (mapM_ok_forall₂ f l _).2 h2
            rw [hm] at this; cases this; rfl

theorem forall₂_imp {β γ : Type} {R S : β → γ → Prop} (H : ∀ a b, R a b → S a b) :
    ∀ {l : List β} {l' : List γ}, List.Forall₂ R l l' → List.Forall₂ S l l'
  | _, _, .nil => .nil
  | _, _, .cons h t => .cons (H _ _ h) (forall₂_imp H t)

/-! ## conversion of one season -/

/-- the year a date of the file ends up in -/
def targetYear (replace : Option (Int × Int)) (y : Int) : Int :=
  match replace with
  | some (oldYear, newYear) => if y = oldYear then newYear else y
  | none => y

theorem convertDate_ok {replace : Option (Int × Int)} {ds : Option DateStr} {o : Int}
    (h : convertDate replace ds = .ok o) :
    ∃ y m d, ds = some (.ymd y m d) ∧ validYmd y m d = true ∧
      validYmd (targetYear replace y) m d = true ∧ o = ymdToOrd (targetYear replace y) m d := by
  unfold convertDate at h
  cases ds with
  | none => cases h
  | some s =>
    cases s with
    | bad y4 => simp [DateStr.parse, bind, Except.bind] at h
    | ymd y m d =>
      simp only [DateStr.parse, bind, Except.bind] at h
      by_cases hv : validYmd y m d = true
      · simp only [hv, if_true] at h
        refine ⟨y, m, d, rfl, hv, ?_⟩
        cases replace with
        | none =>
          simp only [pure, Except.pure] at h
          cases h
          exact ⟨by simpa [targetYear] using hv, by simp [targetYear, Ymd.ord]⟩
        | some p =>
          obtain ⟨oldY, newY⟩ := p
          simp only at h
          by_cases hy : y = oldY
          · simp only [hy, beq_self_eq_true, if_true] at h
            unfold Ymd.replaceYear at h
            by_cases hv' : validYmd newY m d = true
            · simp only [hv', if_true, pure, Except.pure] at h
              cases h
              exact ⟨by simpa [targetYear, hy] using hv', by simp [targetYear, hy, Ymd.ord]⟩
            · simp [hv'] at h
          · have : (y == oldY) = false := by simpa using hy
            simp only [this, Bool.false_eq_true, if_false, pure, Except.pure] at h
            cases h
            exact ⟨by simpa [targetYear, hy] using hv, by simp [targetYear, hy, Ymd.ord]⟩
      · simp [hv] at h

/-- the windows of a level after the conversion are the parsed windows of that level, in file order -/
theorem convertSeasonJ_ok {replace : Option (Int × Int)} {sj : SeasonJ} {s : Season}
    (h : convertSeasonJ replace sj = .ok s) :
    convertDate replace sj.start = .ok s.start ∧ convertDate replace sj.stop = .ok s.stop ∧
      ((sj.windows = none ∧ s.windows = none) ∨
        ∃ lv lv', sj.windows = some lv ∧ s.windows = some lv' ∧
          List.Forall₂ (fun (a : String × List (TimeStr × TimeStr)) (b : String × List (Int × Int)) =>
            a.1 = b.1 ∧ convertWindows a.2 = .ok b.2) lv lv') := by
  unfold convertSeasonJ at h
  cases ha : convertDate replace sj.start with
  | error e => simp [ha, bind, Except.bind] at h
  | ok a =>
    cases hb : convertDate replace sj.stop with
    | error e => simp [ha, hb, bind, Except.bind] at h
    | ok b =>
      simp only [ha, hb, bind, Except.bind] at h
      cases hw : sj.windows with
      | none =>
        simp only [hw, pure, Except.pure] at h
        cases h
        exact ⟨rfl, rfl, Or.inl ⟨rfl, rfl⟩⟩
      | some lv =>
        simp only [hw] at h
        split at h
        · cases h
        · rename_i lv' hm
          simp only [pure, Except.pure] at h
          cases h
          refine ⟨rfl, rfl, Or.inr ⟨lv, lv', rfl, rfl, ?_⟩⟩
          have := (mapM_ok_forall₂ _ lv lv').1 hm
          refine forall₂_imp ?_ this
          intro a b hab
          split at hab
          · cases hab
          · rename_i ws hc
            simp only [pure, Except.pure] at hab
            cases hab
            exact ⟨rfl, hc⟩

/-- a window pair converts iff both texts are times of day; the result is the pair of µs values -/
theorem convertWindows_ok {ws : List (TimeStr × TimeStr)} {ws' : List (Int × Int)}
    (h : convertWindows ws = .ok ws') :
    List.Forall₂ (fun (a : TimeStr × TimeStr) (b : Int × Int) => a.1.parse = .ok b.1 ∧ a.2.parse = .ok b.2) ws ws' := by
  unfold convertWindows at h
  have := (mapM_ok_forall₂ _ ws ws').1 h
  refine forall₂_imp ?_ this
  intro a b hab
  cases h1 : a.1.parse with
  | error e => simp [h1, bind, Except.bind] at hab
  | ok x =>
    cases h2 : a.2.parse with
    | error e => simp [h1, h2, bind, Except.bind] at hab
    | ok y =>
      simp only [h1, h2, bind, Except.bind, pure, Except.pure] at hab
      cases hab
      exact ⟨rfl, rfl⟩

/-- a parsed time of day is a time of day: `0 ≤ t < 24 h`, and it is the value written -/
theorem timeStr_parse_ok {ts : TimeStr} {t : Int} (h : ts.parse = .ok t) :
    ∃ hh mm ss us, ts = .hms hh mm ss us ∧ 0 ≤ hh ∧ hh < 24 ∧ 0 ≤ mm ∧ mm < 60 ∧ 0 ≤ ss ∧ ss < 60 ∧ 0 ≤ us ∧
      us < 1000000 ∧ t = hh * usPerHour + mm * usPerMinute + ss * usPerSecond + us ∧ 0 ≤ t ∧ t < usPerDay := by
  cases ts with
  | bad => cases h
  | hms hh mm ss us =>
    unfold TimeStr.parse mkTimeOfDay? at h
    simp only at h
    by_cases hr : 0 ≤ hh ∧ hh < 24 ∧ 0 ≤ mm ∧ mm < 60 ∧ 0 ≤ ss ∧ ss < 60 ∧ 0 ≤ us ∧ us < 1000000
    · simp only [hr, and_self, if_true, Except.ok.injEq] at h
      subst h
      refine ⟨hh, mm, ss, us, rfl, hr.1, hr.2.1, hr.2.2.1, hr.2.2.2.1, hr.2.2.2.2.1, hr.2.2.2.2.2.1,
        hr.2.2.2.2.2.2.1, hr.2.2.2.2.2.2.2, rfl, ?_, ?_⟩ <;>
        (simp only [usPerHour, usPerMinute, usPerSecond, usPerDay]; omega)
    · simp [hr] at h


/-- looking a level up commutes with the conversion of the level table -/
theorem lookup_forall₂ {β γ : Type} {R : β → γ → Prop} (k : String) :
    ∀ {l : List (String × β)} {l' : List (String × γ)},
      List.Forall₂ (fun a b => a.1 = b.1 ∧ R a.2 b.2) l l' →
      (l.lookup k = none ∧ l'.lookup k = none) ∨ ∃ x y, l.lookup k = some x ∧ l'.lookup k = some y ∧ R x y
  | _, _, .nil => Or.inl ⟨rfl, rfl⟩
  | _, _, .cons (a := a) (b := b) h t => by
    obtain ⟨k1, v1⟩ := a
    obtain ⟨k2, v2⟩ := b
    obtain ⟨hk, hr⟩ := h
    simp only at hk hr
    subst hk
    simp only [List.lookup_cons]
    cases hkk : (k == k1) with
    | true => exact Or.inr ⟨v1, v2, rfl, rfl, hr⟩
    | false => exact lookup_forall₂ k t

/-- the windows of a voltage level after the conversion are the parsed windows of that level of the file (none
where the file has no `windows` entry or not that level) -/
theorem levelWindows_converted {replace : Option (Int × Int)} {sj : SeasonJ} {s : Season}
    (h : convertSeasonJ replace sj = .ok s) (level : String) :
    List.Forall₂ (fun (a : TimeStr × TimeStr) (b : Int × Int) => a.1.parse = .ok b.1 ∧ a.2.parse = .ok b.2)
      (((sj.windows.getD []).lookup level).getD []) (s.levelWindows level) := by
  obtain ⟨_, _, hw⟩ := convertSeasonJ_ok h
  unfold Season.levelWindows
  rcases hw with ⟨h1, h2⟩ | ⟨lv, lv', h1, h2, hf⟩
  · rw [h1, h2]; exact .nil
  · rw [h1, h2]
    simp only [Option.getD_some]
    rcases lookup_forall₂ (R := fun a b => convertWindows a = .ok b) level hf with ⟨e1, e2⟩ | ⟨x, y, e1, e2, hr⟩
    · rw [e1, e2]; exact .nil
    · rw [e1, e2]; exact convertWindows_ok hr


/-! ## the whole season list: what the converted table denotes -/

/-- the date range the TEXT of a season denotes (with the year replacement `replace`) contains the date ordinal `d` -/
def SeasonJ.containsDate (replace : Option (Int × Int)) (sj : SeasonJ) (d : Int) : Prop :=
  ∃ y m d1 y2 m2 d2, sj.start = some (.ymd y m d1) ∧ sj.stop = some (.ymd y2 m2 d2) ∧
    ymdToOrd (targetYear replace y) m d1 ≤ d ∧ d ≤ ymdToOrd (targetYear replace y2) m2 d2

/-- the TEXT of a season has, for the level, a window that contains the time of day `t` -/
def SeasonJ.hasWindow (sj : SeasonJ) (level : String) (t : Int) : Prop :=
  ∃ w ∈ ((sj.windows.getD []).lookup level).getD [], ∃ a b, w.1.parse = .ok a ∧ w.2.parse = .ok b ∧ InWindow t (a, b)

theorem contains_converted {replace : Option (Int × Int)} {sj : SeasonJ} {s : Season}
    (h : convertSeasonJ replace sj = .ok s) (dt : DateTime) :
    s.contains dt ↔ sj.containsDate replace dt.date := by
  obtain ⟨ha, hb, _⟩ := convertSeasonJ_ok h
  obtain ⟨y, m, d, e1, _, _, e2⟩ := convertDate_ok ha
  obtain ⟨y2, m2, d2, f1, _, _, f2⟩ := convertDate_ok hb
  unfold Season.contains SeasonJ.containsDate
  constructor
  · intro hc
    exact ⟨y, m, d, y2, m2, d2, e1, f1, by rw [← e2]; exact hc.1, by rw [← f2]; exact hc.2⟩
  · rintro ⟨y', m', d', y2', m2', d2', e1', f1', h1, h2⟩
    rw [e1] at e1'; rw [f1] at f1'
    cases e1'; cases f1'
    exact ⟨by rw [e2]; exact h1, by rw [f2]; exact h2⟩

theorem forall₂_exists_iff {β γ : Type} {R : β → γ → Prop} {P : γ → Prop}
    (hfun : ∀ a b b', R a b → R a b' → b = b') :
    ∀ {l : List β} {l' : List γ}, List.Forall₂ R l l' → ((∃ b ∈ l', P b) ↔ ∃ a ∈ l, ∃ b, R a b ∧ P b)
  | _, _, .nil => by simp
  | _, _, .cons (a := a) (b := b) h t => by
    have ih := forall₂_exists_iff (P := P) hfun t
    constructor
    · rintro ⟨x, hx, hp⟩
      rcases List.mem_cons.1 hx with rfl | hx
      · exact ⟨a, List.mem_cons_self, x, h, hp⟩
      · obtain ⟨a', ha', b', hr, hp'⟩ := ih.1 ⟨x, hx, hp⟩
        exact ⟨a', List.mem_cons_of_mem _ ha', b', hr, hp'⟩
    · rintro ⟨a', ha', b', hr, hp⟩
      rcases List.mem_cons.1 ha' with rfl | ha'
      · have := hfun _ _ _ h hr
        subst this
        exact ⟨b, List.mem_cons_self, hp⟩
      · obtain ⟨x, hx, hp'⟩ := ih.2 ⟨a', ha', b', hr, hp⟩
        exact ⟨x, List.mem_cons_of_mem _ hx, hp'⟩

theorem hasWindow_converted {replace : Option (Int × Int)} {sj : SeasonJ} {s : Season}
    (h : convertSeasonJ replace sj = .ok s) (level : String) (t : Int) :
    (∃ w ∈ s.levelWindows level, InWindow t w) ↔ sj.hasWindow level t := by
  have hf := levelWindows_converted h level
  rw [forall₂_exists_iff (R := fun (a : TimeStr × TimeStr) (b : Int × Int) => a.1.parse = .ok b.1 ∧ a.2.parse = .ok b.2)
    (P := fun w => InWindow t w) ?_ hf]
  · unfold SeasonJ.hasWindow
    constructor
    · rintro ⟨a, ha, b, ⟨h1, h2⟩, hp⟩
      exact ⟨a, ha, b.1, b.2, h1, h2, hp⟩
    · rintro ⟨a, ha, x, y, h1, h2, hp⟩
      exact ⟨a, ha, (x, y), ⟨h1, h2⟩, hp⟩
  · intro a b b' ⟨h1, h2⟩ ⟨h1', h2'⟩
    rw [h1] at h1'; rw [h2] at h2'
    exact Prod.ext (Except.ok.inj h1') (Except.ok.inj h2')

/-- the conversion of a season list, as a relation between the file's seasons and the converted ones -/
theorem convertSeasons_forall₂ {replace : Option (Int × Int)} {sjs : List (String × SeasonJ)}
    {ss : List (String × Season)}
    (h : sjs.mapM (fun (s : String × SeasonJ) => do
      let s' ← convertSeasonJ replace s.2
      pure (s.1, s')) = .ok ss) :
    List.Forall₂ (fun (a : String × SeasonJ) (b : String × Season) => a.1 = b.1 ∧ convertSeasonJ replace a.2 = .ok b.2)
      sjs ss := by
  refine forall₂_imp ?_ ((mapM_ok_forall₂ _ sjs ss).1 h)
  intro a b hab
  cases hc : convertSeasonJ replace a.2 with
  | error e => simp [hc, bind, Except.bind] at hab
  | ok s' =>
    simp only [hc, bind, Except.bind, pure, Except.pure] at hab
    cases hab
    exact ⟨rfl, rfl⟩

theorem window_converted_iff {replace : Option (Int × Int)} (dt : DateTime) (level : String) :
    ∀ {sjs : List (String × SeasonJ)} {ss : List (String × Season)},
      List.Forall₂ (fun (a : String × SeasonJ) (b : String × Season) =>
        a.1 = b.1 ∧ convertSeasonJ replace a.2 = .ok b.2) sjs ss →
      (datetimeWithinTimeWindow dt (ss.map (·.2)) level = true ↔
        ∃ pre sj post, sjs = pre ++ sj :: post ∧ (∀ r ∈ pre, ¬ r.2.containsDate replace dt.date) ∧
          sj.2.containsDate replace dt.date ∧ sj.2.hasWindow level dt.time)
  | _, _, .nil => by
    simp [datetimeWithinTimeWindow]
  | _, _, .cons (a := a) (b := b) (l₁ := l) (l₂ := l') h t => by
    have ih := window_converted_iff (replace := replace) dt level t
    rw [List.map_cons, datetimeWithinTimeWindow_cons]
    have hc := contains_converted h.2 dt
    by_cases hin : b.2.contains dt
    · rw [if_pos hin, windowsLoop_iff, hasWindow_converted h.2 level dt.time]
      constructor
      · intro hw
        exact ⟨[], a, l, rfl, fun r hr => (by cases hr), hc.1 hin, hw⟩
      · rintro ⟨pre, sj, post, heq, hpre, hsj, hw⟩
        cases pre with
        | nil =>
          simp only [List.nil_append, List.cons.injEq] at heq
          rw [heq.1]; exact hw
        | cons r pre' =>
          simp only [List.cons_append, List.cons.injEq] at heq
          exact absurd (hc.1 hin) (by rw [heq.1]; exact hpre r List.mem_cons_self)
    · rw [if_neg hin, ih]
      constructor
      · rintro ⟨pre, sj, post, heq, hpre, hsj, hw⟩
        refine ⟨a :: pre, sj, post, by rw [heq]; rfl, ?_, hsj, hw⟩
        intro r hr
        rcases List.mem_cons.1 hr with rfl | hr
        · exact fun hcd => hin (hc.2 hcd)
        · exact hpre r hr
      · rintro ⟨pre, sj, post, heq, hpre, hsj, hw⟩
        cases pre with
        | nil =>
          simp only [List.nil_append, List.cons.injEq] at heq
          exact absurd (hc.2 (by rw [heq.1]; exact hsj)) hin
        | cons r pre' =>
          simp only [List.cons_append, List.cons.injEq] at heq
          exact ⟨pre', sj, post, heq.2, fun x hx => hpre x (List.mem_cons_of_mem _ hx), hsj, hw⟩

/-! ## example files (non-vacuity witnesses of Properties/C15_Init.lean) -/

def exFile2020 : List (String × List (String × SeasonJ)) := [("op", [
  ("winter", { start := some (.ymd 2020 1 1), stop := some (.ymd 2020 2 28), windows := some [("MV", [(.hms 8 15 0 0, .hms 9 30 0 0), (.hms 22 0 0 0, .hms 1 0 0 0)])] }),
  ("rest", { start := some (.ymd 2020 3 1), stop := some (.ymd 2020 12 31), windows := none })])]

def exFileFeb29 : List (String × List (String × SeasonJ)) := [("op", [
  ("winter", { start := some (.ymd 2020 1 1), stop := some (.ymd 2020 2 29), windows := none })])]

def exFileMixed : List (String × List (String × SeasonJ)) := [("op", [
  ("w", { start := some (.ymd 2019 11 1), stop := some (.ymd 2020 2 28), windows := none }),
  ("s", { start := some (.ymd 2020 3 1), stop := some (.ymd 2020 10 31), windows := none })])]

/-! ## Strategy.__init__ -/

section
variable {α : Type} [Add α] [Sub α] [Mul α] [Div α] [Neg α] [LT α] [LE α]
  [DecidableLT α] [DecidableLE α] [OfNat α 0] [OfNat α 1] [NatCast α] [IntCast α]

theorem baseInit_ok {c : BaseConsts α} {o : BaseOpts α} {start : DateTime} {interval : Int}
    {stations : List (String × α)} {b : BaseState α} (h : baseInit c o start interval stations = .ok b) :
    interval ≠ 0 ∧ b.now = start.add (-interval) ∧
      b.stations = stations.map (fun s => (s.1, (o.concurrency.getD 1) * s.2)) ∧
      b.margin = o.margin.getD c.margin ∧ b.eps = o.eps.getD c.eps ∧
      b.priceThreshold = o.priceThreshold.getD 0 ∧
      b.allowNegativeSoc = o.allowNegativeSoc.getD false ∧ b.resetNegativeSoc = o.resetNegativeSoc.getD false := by
  unfold baseInit at h
  split at h
  · cases h
  · rename_i hi
    cases h
    exact ⟨hi, rfl, rfl, rfl, rfl, rfl, rfl, rfl⟩

end


/-! ## PeakLoadWindow.__init__ as a whole: the stages and their order -/

section
variable {α : Type} [Add α] [Sub α] [Mul α] [Div α] [Neg α] [LT α] [LE α]
  [DecidableLT α] [DecidableLE α] [OfNat α 0] [OfNat α 1] [NatCast α] [IntCast α]

/-- the local events in the order the constructor collects them -/
def localEvents (inp : PlwIn α) : List (LEv α) := inp.signals ++ inp.loadLists.flatten ++ inp.genLists.flatten

/-- the start-sorted local events after the signal shift -/
def sortedEvents (inp : PlwIn α) : List (LEv α) :=
  sortByKey (fun (e : LEv α) => e.start)
    ((localEvents inp).map (fun e => { e with signal := shiftSignal inp.start.instant e.signal }))

theorem plwInit_ok {c : BaseConsts α} {o : BaseOpts α} {stations : List (String × α)} {inp : PlwIn α}
    {s : PlwState α} (h : plwInit c o stations inp = .ok s) :
    ∃ base file,
      baseInit c o inp.start inp.interval stations = .ok base ∧ inp.file = some file ∧
      s.base = { base with usesWindow := true } ∧
      convertFile (ordToYear inp.start.date) file = .ok s.windows ∧
      s.gcs = inp.gcs.map (gcDefaults ((file.getLast?).map (·.1))) ∧
      s.signalTimes = inp.signals.map (fun e => shiftSignal inp.start.instant e.signal) ∧
      s.changed = countChanged inp.start.instant (localEvents inp) ∧
      extendStop inp.stop inp.vehicleEvents = .ok s.stop ∧
      buildTable inp.interval s.stop (tableFuel inp.interval s.stop (inp.start.instant - inp.interval))
        (inp.start.instant - inp.interval) (sortedEvents inp) = .ok s.table ∧
      initPeaks ⟨s.base.eps, s.base.tsPerHour, inp.start, inp.interval, inp.start.instant, inp.stop,
          seasonsOf s.windows, [], inp.sum, 0⟩
        (s.gcs.map (fun g => { gc := ⟨g.id, 0, none, g.loads⟩, operator := g.operator.getD "~None", level := g.level,
                               window := none, peak := 0 }))
        (s.table.map (fun b => b.map (·.ev))) inp.start
        (s.gcs.map (fun g => (g.id, g.loads))) (s.gcs.map (fun g => (g.id, (0 : α)))) = .ok s.peaks := by
  unfold plwInit at h
  cases hb : baseInit c o inp.start inp.interval stations with
  | error e => simp [hb, bind, Except.bind] at h
  | ok base =>
    simp only [hb, bind, Except.bind] at h
    cases hf : inp.file with
    | none => simp [hf] at h
    | some file =>
      simp only [hf, pure, Except.pure] at h
      cases hw : convertFile (ordToYear inp.start.date) file with
      | error e => simp [hw] at h
      | ok windows =>
        simp only [hw] at h
        cases hs : extendStop inp.stop inp.vehicleEvents with
        | error e => simp [hs] at h
        | ok stop =>
          simp only [hs] at h
          split at h
          · cases h
          · rename_i table ht
            split at h
            · cases h
            · rename_i peaks hp
              cases h
              exact ⟨base, file, rfl, rfl, rfl, hw, rfl, rfl, rfl, rfl, ht, hp⟩

end

/-! ## signal shifts -/

theorem pymin_int (a b : Int) : pymin a b = min a b := by
  unfold pymin; split <;> omega

theorem pymax_int (a b : Int) : pymax a b = max a b := by
  unfold pymax; split <;> omega

theorem horizonShift_bounds (signal start horizon t0 : Int) :
    t0 ≤ horizonShift signal start horizon t0 ∧
    (0 ≤ horizon → t0 ≤ start → horizonShift signal start horizon t0 ≤ start) ∧
    horizonShift signal start horizon t0 ≤ max signal t0 := by
  unfold horizonShift
  rw [pymax_int, pymin_int]
  refine ⟨by omega, fun _ _ => by omega, by omega⟩

theorem market_shift_eq (signal start horizon t0 : Int) :
    horizonShift signal start horizon t0 = BalancedMarket.initSignalTime signal start horizon t0 := rfl

/-- the look-ahead end is at least the scenario's stop time and at least every announced departure of an arrival
event and every departure event's start time -/
theorem extendStop_ge : ∀ (ves : List VEv) (stop s : Int), extendStop stop ves = .ok s →
    stop ≤ s ∧ (∀ etd, VEv.arrival (some etd) ∈ ves → etd ≤ s) ∧ (∀ d, VEv.departure d ∈ ves → d ≤ s)
  | [], stop, s, h => by
    simp only [extendStop, List.foldlM_nil, pure, Except.pure, Except.ok.injEq] at h
    subst h
    exact ⟨le_refl _, fun _ h => (by cases h), fun _ h => (by cases h)⟩
  | ve :: rest, stop, s, h => by
    unfold extendStop at h
    rw [List.foldlM_cons] at h
    cases ve with
    | arrival etd =>
      cases etd with
      | none => simp [bind, Except.bind] at h
      | some etd =>
        simp only [bind, Except.bind] at h
        obtain ⟨h1, h2, h3⟩ := extendStop_ge rest (pymax stop etd) s h
        rw [pymax_int] at h1
        refine ⟨by omega, fun e he => ?_, fun d hd => ?_⟩
        · rcases List.mem_cons.1 he with he | he
          · cases he; omega
          · exact h2 e he
        · rcases List.mem_cons.1 hd with hd | hd
          · cases hd
          · exact h3 d hd
    | departure d0 =>
      simp only [bind, Except.bind] at h
      obtain ⟨h1, h2, h3⟩ := extendStop_ge rest (pymax stop d0) s h
      rw [pymax_int] at h1
      refine ⟨by omega, fun e he => ?_, fun d hd => ?_⟩
      · rcases List.mem_cons.1 he with he | he
        · cases he
        · exact h2 e he
      · rcases List.mem_cons.1 hd with hd | hd
        · cases hd; omega
        · exact h3 d hd
    | other =>
      simp only [bind, Except.bind] at h
      obtain ⟨h1, h2, h3⟩ := extendStop_ge rest stop s h
      refine ⟨h1, fun e he => ?_, fun d hd => ?_⟩
      · rcases List.mem_cons.1 he with he | he
        · cases he
        · exact h2 e he
      · rcases List.mem_cons.1 hd with hd | hd
        · cases hd
        · exact h3 d hd

/-! ## PeakShaving.__init__: membership through its insertion sort -/

theorem ps_insertBy_mem {β : Type} (le : β → β → Bool) (x y : β) :
    ∀ l : List β, y ∈ PeakShaving.insertBy le x l → y = x ∨ y ∈ l
  | [], h => by simp only [PeakShaving.insertBy, List.mem_singleton] at h; exact Or.inl h
  | z :: zs, h => by
    unfold PeakShaving.insertBy at h
    split at h
    · rcases List.mem_cons.1 h with h | h
      · exact Or.inl h
      · exact Or.inr h
    · rcases List.mem_cons.1 h with h | h
      · exact Or.inr (h ▸ List.mem_cons_self)
      · rcases ps_insertBy_mem le x y zs h with h | h
        · exact Or.inl h
        · exact Or.inr (List.mem_cons_of_mem _ h)

theorem ps_isort_mem {β : Type} (le : β → β → Bool) (y : β) : ∀ l : List β, y ∈ PeakShaving.isort le l → y ∈ l
  | [], h => by simp [PeakShaving.isort] at h
  | x :: xs, h => by
    unfold PeakShaving.isort at h
    rcases ps_insertBy_mem le x y _ h with h | h
    · exact h ▸ List.mem_cons_self
    · exact List.mem_cons_of_mem _ (ps_isort_mem le y xs h)

/-- every event of `self.events` of peak_shaving carries the shifted signal time of an event of the scenario -/
theorem ps_initEvents_mem {α : Type} (horizon t0 : Int) (ves sigs : List (PeakShaving.Signalled α))
    (loads gens : List (List (PeakShaving.Signalled α))) (e : PeakShaving.Signalled α)
    (h : e ∈ (PeakShaving.initEvents horizon t0 ves sigs loads gens).1) :
    ∃ e0 ∈ ves ++ sigs ++ loads.flatten ++ gens.flatten, e.ev = e0.ev ∧
      e.signal = horizonShift e0.signal e0.ev.start horizon t0 := by
  unfold PeakShaving.initEvents at h
  simp only at h
  have := ps_isort_mem _ e _ h
  simp only [List.map_map, List.mem_map, Function.comp] at this
  obtain ⟨e0, he0, rfl⟩ := this
  exact ⟨e0, he0, rfl, rfl⟩

/-! ## PeakLoadWindow.__init__: the event table -/

section
variable {α : Type}

theorem takeDue_append (cur : Int) (l : List (LEv α)) : (takeDue cur l).1 ++ (takeDue cur l).2 = l := by
  induction l with
  | nil => rfl
  | cons e rest ih =>
    unfold takeDue
    split
    · rfl
    · simp [ih]

theorem takeDue_due (cur : Int) (l : List (LEv α)) : ∀ e ∈ (takeDue cur l).1, e.start ≤ cur := by
  induction l with
  | nil => intro e h; cases h
  | cons x rest ih =>
    intro e h
    unfold takeDue at h
    split at h
    · cases h
    · rename_i hx
      simp only [List.mem_cons] at h
      rcases h with h | h
      · subst h; omega
      · exact ih e h

/-- what stays behind starts later than `cur` at its head (and, the list being sorted, everywhere) -/
theorem takeDue_rest_head (cur : Int) (l : List (LEv α)) :
    ∀ e, (takeDue cur l).2.head? = some e → cur < e.start := by
  induction l with
  | nil => intro e h; cases h
  | cons x rest ih =>
    intro e h
    unfold takeDue at h
    split at h
    · rename_i hx
      simp only [List.head?_cons, Option.some.injEq] at h
      subst h; exact hx
    · exact ih e h



/-! ### `sorted(local_events, key=lambda ev: ev.start_time)` -/

theorem insertByKey_perm {β : Type} (key : β → Int) (x : β) : ∀ l : List β, (insertByKey key x l).Perm (x :: l)
  | [] => List.Perm.refl _
  | y :: ys => by
    unfold insertByKey
    split
    · exact List.Perm.refl _
    · exact ((insertByKey_perm key x ys).cons y).trans (List.Perm.swap x y ys)

theorem insertByKey_sorted {β : Type} (key : β → Int) (x : β) :
    ∀ l : List β, l.Pairwise (fun a b => key a ≤ key b) → (insertByKey key x l).Pairwise (fun a b => key a ≤ key b)
  | [], _ => List.pairwise_singleton _ _
  | y :: ys, h => by
    have hp := List.pairwise_cons.1 h
    unfold insertByKey
    split
    · rename_i hlt
      refine List.pairwise_cons.2 ⟨fun z hz => ?_, h⟩
      rcases List.mem_cons.1 hz with rfl | hz
      · omega
      · have := hp.1 z hz; omega
    · rename_i hge
      refine List.pairwise_cons.2 ⟨fun z hz => ?_, insertByKey_sorted key x ys hp.2⟩
      rcases List.mem_cons.1 ((insertByKey_perm key x ys).mem_iff.1 hz) with rfl | hz
      · omega
      · exact hp.1 z hz

theorem foldl_insert_spec {β : Type} (key : β → Int) :
    ∀ (l acc : List β), acc.Pairwise (fun a b => key a ≤ key b) →
      (l.foldl (fun acc x => insertByKey key x acc) acc).Pairwise (fun a b => key a ≤ key b) ∧
      (l.foldl (fun acc x => insertByKey key x acc) acc).Perm (acc ++ l)
  | [], acc, h => ⟨h, by simp⟩
  | x :: xs, acc, h => by
    obtain ⟨h1, h2⟩ := foldl_insert_spec key xs (insertByKey key x acc) (insertByKey_sorted key x acc h)
    refine ⟨h1, h2.trans ?_⟩
    have : (insertByKey key x acc ++ xs).Perm ((x :: acc) ++ xs) := (insertByKey_perm key x acc).append_right xs
    refine this.trans ?_
    simp only [List.cons_append]
    exact (List.perm_middle (l₁ := acc) (a := x) (l₂ := xs)).symm

/-- Python's `sorted(..., key=…)` as modelled: the result is ordered by the key and is a rearrangement of the input -/
theorem sortByKey_spec {β : Type} (key : β → Int) (l : List β) :
    (sortByKey key l).Pairwise (fun a b => key a ≤ key b) ∧ (sortByKey key l).Perm l := by
  have := foldl_insert_spec key l [] List.Pairwise.nil
  simpa [sortByKey] using this

/-- every bucket holds events that start in the half-open step interval `(cur, cur + interval]` before its step time -/
def BucketsOK (interval : Int) : Int → List (List (LEv α)) → Prop
  | _, [] => True
  | cur, b :: t => (∀ e ∈ b, cur < e.start ∧ e.start ≤ cur + interval) ∧ BucketsOK interval (cur + interval) t

theorem takeDue_rest_sorted (cur : Int) (l : List (LEv α)) (hs : l.Pairwise (fun a b => a.start ≤ b.start)) :
    (∀ e ∈ (takeDue cur l).2, cur < e.start) ∧ (takeDue cur l).2.Pairwise (fun a b => a.start ≤ b.start) := by
  induction l with
  | nil => exact ⟨fun e h => (by cases h), List.Pairwise.nil⟩
  | cons x rest ih =>
    have hp := List.pairwise_cons.1 hs
    unfold takeDue
    split
    · rename_i hx
      refine ⟨fun e he => ?_, hs⟩
      rcases List.mem_cons.1 he with rfl | he
      · exact hx
      · have := hp.1 e he; omega
    · exact ih hp.2

/-- the table after the first bucket: all remaining events start after `cur` -/
theorem buildTable_later (interval stop : Int) :
    ∀ (fuel : Nat) (cur : Int) (evs : List (LEv α)) (t : List (List (LEv α))),
      buildTable interval stop fuel cur evs = .ok t →
      evs.Pairwise (fun a b => a.start ≤ b.start) → (∀ e ∈ evs, cur < e.start) →
      BucketsOK interval cur t ∧ ∃ rest, t.flatten ++ rest = evs ∧ ∀ e ∈ rest, stop < e.start
  | fuel, cur, evs, t, h, hs, hlo => by
    unfold buildTable at h
    by_cases hc : cur ≤ stop
    · simp only [hc, if_true] at h
      cases fuel with
      | zero => cases h
      | succ n =>
        simp only at h
        cases hr : buildTable interval stop n (cur + interval) (takeDue (cur + interval) evs).2 with
        | error e => simp [hr] at h
        | ok t' =>
          simp only [hr, Except.ok.injEq] at h
          subst h
          obtain ⟨hgt, hsorted⟩ := takeDue_rest_sorted (cur + interval) evs hs
          obtain ⟨hb, rest, hfl, hrest⟩ := buildTable_later interval stop n (cur + interval) _ t' hr hsorted hgt
          refine ⟨⟨fun e he => ⟨hlo e ?_, takeDue_due (cur + interval) evs e he⟩, hb⟩, rest, ?_, hrest⟩
          · rw [← takeDue_append (cur + interval) evs]
            exact List.mem_append_left _ he
          · rw [List.flatten_cons, List.append_assoc, hfl, takeDue_append]
    · simp only [hc, if_false, Except.ok.injEq] at h
      subst h
      exact ⟨trivial, evs, rfl, fun e he => by have := hlo e he; omega⟩

/-- **the event table**: started at `cur ≤ stop` with the start-sorted event list, the table is a first bucket with
everything that starts at or before the first step time `cur + interval`, followed by buckets that each hold exactly the
events starting in their step interval; concatenated, the buckets are a prefix of the sorted list and what is left out
starts after the end of the look-ahead -/
theorem buildTable_spec (interval stop : Int) (fuel : Nat) (cur : Int) (evs : List (LEv α))
    (t : List (List (LEv α))) (h : buildTable interval stop fuel cur evs = .ok t) (hc : cur ≤ stop)
    (hs : evs.Pairwise (fun a b => a.start ≤ b.start)) :
    ∃ b0 t', t = b0 :: t' ∧ (∀ e ∈ b0, e.start ≤ cur + interval) ∧ BucketsOK interval (cur + interval) t' ∧
      ∃ rest, t.flatten ++ rest = evs ∧ ∀ e ∈ rest, stop < e.start := by
  unfold buildTable at h
  simp only [hc, if_true] at h
  cases fuel with
  | zero => cases h
  | succ n =>
    simp only at h
    cases hr : buildTable interval stop n (cur + interval) (takeDue (cur + interval) evs).2 with
    | error e => simp [hr] at h
    | ok t' =>
      simp only [hr, Except.ok.injEq] at h
      subst h
      obtain ⟨hgt, hsorted⟩ := takeDue_rest_sorted (cur + interval) evs hs
      obtain ⟨hb, rest, hfl, hrest⟩ := buildTable_later interval stop n (cur + interval) _ t' hr hsorted hgt
      refine ⟨_, t', rfl, takeDue_due (cur + interval) evs, hb, rest, ?_, hrest⟩
      rw [List.flatten_cons, List.append_assoc, hfl, takeDue_append]

/-- the table loop ends within its fuel for a positive interval -/
theorem buildTable_fuel (interval stop : Int) (hi : 0 < interval) :
    ∀ (fuel : Nat) (cur : Int) (evs : List (LEv α)), (cur ≤ stop → ((stop - cur) / interval).toNat + 1 ≤ fuel) →
      ∃ t, buildTable interval stop fuel cur evs = .ok t
  | fuel, cur, evs, hf => by
    unfold buildTable
    by_cases hc : cur ≤ stop
    · simp only [hc, if_true]
      cases fuel with
      | zero => have := hf hc; omega
      | succ n =>
        simp only
        have hf := hf hc
        have hstep : cur + interval ≤ stop → ((stop - (cur + interval)) / interval).toNat + 1 ≤ n := by
          intro hc2
          have h1 : (stop - (cur + interval)) / interval = (stop - cur) / interval - 1 := by
            have : stop - (cur + interval) = (stop - cur) + (-1) * interval := by ring
            rw [this, Int.add_mul_ediv_right _ _ (by omega)]
            ring
          have h2 : 0 ≤ (stop - cur) / interval := Int.ediv_nonneg (by omega) (by omega)
          obtain ⟨k, hk⟩ := Int.eq_ofNat_of_zero_le h2
          rw [hk] at hf
          rw [h1, hk]
          simp only [Int.toNat_natCast] at hf
          have hk1 : (1 : Int) ≤ k := by
            rw [← hk]
            exact Int.le_ediv_of_mul_le hi (by omega)
          omega
        obtain ⟨t, ht⟩ := buildTable_fuel interval stop hi n (cur + interval) (takeDue (cur + interval) evs).2 hstep
        rw [ht]
        exact ⟨_, rfl⟩
    · simp only [hc, if_false]
      exact ⟨[], rfl⟩

end

end SpiceEv.StratInit
