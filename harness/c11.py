"""C11 — signal-driven strategies (windows, prices, schedules) follow their signal.

Real runs on dedicated scenarios without local surplus:
* peak_load_window / flex_window (balanced) / balanced_market: every standing period lies within the
  look-ahead horizon and its encouraged steps (outside peak-load windows / inside flex windows /
  cheapest price level) offer >= 1.3 x the needed charging time (computed with the real Battery at full
  power); the oracle demands no grid-sourced station power in discouraged steps and the desired SoC at
  departure.
* balanced_market vs greedy on the same scenario: with (almost) equal energy charged, the energy cost
  sum(price_t * energy_t) of balanced_market is not above greedy's.
* schedule (individual): at every step and vehicle the station power is at least what the real battery
  accepts from min(clamp(scheduled power), connector headroom at allocation time).
The Lean side proves the floor formula of charge_individually (clamp monotone, add_power >= 0 from the
bisection bracket) — Properties/C11.lean.
"""
import copy
import datetime
import math
import random

import engine
import scen
import steptie
from c09 import steps_needed

engine.use_repo()

PID = "C11"
CHUNK = 4
EPS = 1e-5
SIGNAL = ["peak_load_window", "flex_window", "balanced_market"]
RULE = ("one connector with ample power, no generation; 1-3 vehicles with one standing period inside the 24 h horizon "
        "whose encouraged steps number >= ceil(1.3 N)+1 (N = full-power charging steps, real Battery); window / price "
        "patterns random per block; balanced_market additionally paired with greedy; schedule(individual): scenarios of "
        "harness/scen.py with per-vehicle schedules and schedule-change events; non-trivial = a vehicle needed >= 1 step "
        "and had discouraged steps in its standing time; distinct = distinct (seed, index, kind)")
ASSUMPTIONS = ["station power in a discouraged step counts as charging if > 1e-5 kW (the code's EPS)",
               "desired SoC tolerance 1e-4", "equal energy = within 1e-3 kWh; cost comparison tolerance 1e-6"]
UNPROVED = ["the run-level sentences (no grid energy in discouraged periods over a whole standing period, desired SoC still "
            "reached, balanced_market never dearer than greedy) have no theorem: oracle on real runs; the C11_* theorems "
            "state the corresponding per-step / per-plan facts on the strategy models (tied bit for bit in this stream)",
            "peak_load_window: false when the headroom binds too late for evenly re-planned charging (findings P1a/P1b)"]
T0 = scen.T0


def gen_cases(tier, seed):
    n = 200 if tier == "quick" else 2000
    for i in range(n):
        for kind in SIGNAL + ["market_vs_greedy", "schedule_individual"]:
            yield {"seed": seed, "i": i, "kind": kind, "pid": PID}


def build_signal(case):
    rng = random.Random("C11:%s:%s:%s" % (case["seed"], case["i"], case["kind"]))
    kind = case["kind"]
    strat = "balanced_market" if kind == "market_vs_greedy" else kind
    interval = rng.choice([10, 15, 15, 30])
    # balanced_market with a configured look-ahead of 48 h: standing times longer than a day, price signals published
    # only a few hours ahead (the strategy makes them known HORIZON hours ahead), cheapest level late in the standing time
    long_horizon = kind == "balanced_market" and case["i"] % 8 == 5
    if long_horizon:
        interval = rng.choice([30, 60])
    # balanced_market, "tight tail": the cheapest level is exactly the last `need` steps of the standing time, the demand
    # needs half a step less than that at full power, and the announced departure lies INSIDE the last step (off the
    # grid): the plan must count the step in which the vehicle leaves (seeded change C11-h2: remaining steps rounded down)
    tight_tail = kind == "balanced_market" and case["i"] % 8 == 3
    dt = datetime.timedelta(minutes=interval)
    start = T0 + datetime.timedelta(days=rng.choice([0, 1, 3]), hours=rng.choice([5, 6, 7]))
    n_steps = int(rng.choice([10, 14, 18]) * 60 / interval)
    if long_horizon:
        n_steps = int(rng.choice([36, 40]) * 60 / interval)
    # encouraged pattern per step
    pattern, steps_price = [], []
    if strat == "peak_load_window":
        wins = []
        for _ in range(rng.randint(1, 3)):
            a = rng.randint(1, n_steps - 4)
            b = min(n_steps - 1, a + rng.randint(2, max(3, n_steps // 4)))
            wins.append((a, b))
        inside = [any(a <= t < b for a, b in wins) for t in range(n_steps + 8)]
        pattern = [not x for x in inside]
        tw = []
        for a, b in wins:
            ta, tb = (start + a * dt).time(), (start + b * dt).time()
            tw.append([ta.strftime("%H:%M"), tb.strftime("%H:%M")])
        time_windows = {"default_grid_operator": {"s1": {"start": "2020-01-01", "end": "2020-12-31",
                                                         "windows": {lvl: tw for lvl in ["HV", "MV", "LV"]}}}}
    else:
        blocks, t = [], 0
        while t < n_steps + 8:
            ln = rng.randint(2, max(3, n_steps // 5))
            val = (rng.random() < 0.5) if strat == "flex_window" else rng.choice([0.1, 0.2, 0.3])
            if blocks and blocks[-1][1] == val:
                val = (not val) if strat == "flex_window" else rng.choice([x for x in (0.1, 0.2, 0.3) if x != val])
            blocks.append((t, val))
            t += ln
        per = []
        for t in range(n_steps + 8):
            per.append([v for (a, v) in blocks if a <= t][-1])
        if strat == "flex_window":
            pattern = list(per)
        else:
            steps_price = per
            if long_horizon:
                late = int(26 * 60 / interval)
                steps_price = [(0.3 if p == 0.1 else p) if t < late else p for t, p in enumerate(per)]
                k = rng.randint(late + 1, n_steps - 8)
                for t in range(k, k + 6):
                    steps_price[t] = 0.1
    comp = {"vehicle_types": {}, "vehicles": {}, "grid_connectors": {}, "charging_stations": {}, "batteries": {}}
    ev = {"fixed_load": {}, "local_generation": {}, "grid_operator_signals": [], "vehicle_events": []}
    meta = {"vehicles": {}, "interval": interval, "n_steps": n_steps, "tight_tail": tight_tail}
    total = 0.0
    n_veh = 1 if tight_tail else rng.randint(1, 3)
    # single-vehicle scenarios may get a fixed load that makes the connector headroom bind in some steps
    # (share of the station power that is left: 1 = not binding)
    binding = n_veh == 1 and rng.random() < 0.6 and not tight_tail
    share = [rng.choice([1, 1, 1, 0.2, 0.4, 0.7]) if binding else 1 for _ in range(n_steps + 8)]
    for k in range(n_veh):
        cname, pts = rng.choice(scen.CURVES[:4])
        tn = "vt%d" % k
        vt = {"name": tn, "capacity": rng.choice([20, 40, 50]), "mileage": 20, "charging_curve": copy.deepcopy(pts),
              "min_charging_power": 0, "battery_efficiency": rng.choice([0.95, 1.0]), "v2g": False}
        comp["vehicle_types"][tn] = vt
        vmax = max(p[1] for p in pts)
        cs_power = rng.choice([vmax, vmax, vmax / 2])
        vid = "v%d" % k
        csid = "CS_%s_deps" % vid
        soc0 = rng.choice([0.3, 0.5, 0.7])
        desired = rng.choice([0.8, 0.8, 0.9])
        need, traj = steps_needed(vt, soc0, desired, cs_power, interval)
        want_enc = math.ceil(1.3 * need) + 1
        a = rng.choice([0, 0, 1, 2])
        # extend the standing period until it contains enough encouraged steps
        def capacity(enc_, a_, d_):
            # encouraged charging capacity in full-power steps (headroom share where the connector binds)
            return sum(share[t] for t in range(a_, d_) if enc_[t])
        if tight_tail:
            if need < 2 or a + need + 3 > n_steps - 1:
                continue
            desired = (traj[need - 1] + traj[need]) / 2       # reachable in need - 1/2 full-power steps
            d = min(n_steps - 1, a + need + rng.randint(3, 8))
            steps_price = [rng.choice([0.2, 0.3]) for _ in steps_price]
            for t in range(d - need, d):
                steps_price[t] = 0.1
            enc = [p == 0.1 for p in steps_price]
        elif steps_price:
            d = min(n_steps - 1, a + max(want_enc + rng.randint(2, 8), 4))
            if long_horizon:
                d = n_steps - 1
            cheapest = min(steps_price[a:d])
            enc = [steps_price[t] == cheapest for t in range(len(steps_price))]
            if capacity(enc, a, d) < want_enc:
                continue
        else:
            enc = pattern
            d = a
            while d < n_steps - 1 and (capacity(enc, a, d) < want_enc or d - a < 3):
                d += 1
            if capacity(enc, a, d) < want_enc:
                continue
            d = min(n_steps - 1, d + rng.randint(0, 3))
        comp["vehicle_types"][tn] = vt
        comp["charging_stations"][csid] = {"max_power": cs_power, "min_power": 0, "parent": "GC1"}
        total += cs_power
        dep_time = start + d * dt - datetime.timedelta(minutes=rng.choice([0, 0, 1]))
        if tight_tail:
            dep_time = start + d * dt - datetime.timedelta(minutes=rng.choice([1, interval // 2, interval - 1]))
        veh = {"vehicle_type": tn, "soc": soc0, "desired_soc": desired}
        if a == 0:
            veh["connected_charging_station"] = csid
            veh["estimated_time_of_departure"] = scen.iso(dep_time)
        else:
            at = start + a * dt
            ev["vehicle_events"].append({
                "signal_time": scen.iso(at - datetime.timedelta(hours=2)), "start_time": scen.iso(at),
                "vehicle_id": vid, "event_type": "arrival",
                "update": {"connected_charging_station": csid, "estimated_time_of_departure": scen.iso(dep_time),
                           "desired_soc": desired, "soc_delta": 0.0}})
        ev["vehicle_events"].append({
            "signal_time": scen.iso(dep_time - datetime.timedelta(hours=2)), "start_time": scen.iso(dep_time),
            "vehicle_id": vid, "event_type": "departure",
            "update": {"estimated_time_of_arrival": scen.iso(dep_time + datetime.timedelta(hours=9))}})
        comp["vehicles"][vid] = veh
        meta["vehicles"][vid] = {"a": a, "d": d, "need": need, "enc": enc[:n_steps], "cs": csid, "desired": desired,
                                 "capacity": vt["capacity"]}
    rating = total * rng.choice([1.0, 1.5, 3.0]) + 5.0
    gc = {"max_power": rating, "voltage_level": "MV", "cost": {"type": "fixed", "value": 0.3}}
    limit_mode = binding and total > 0 and strat == "peak_load_window" and rng.random() < 0.5
    if limit_mode:
        # the headroom binds through grid-operator limit signals (lowered, later raised again) instead of a fixed load
        cur = rating
        for t in range(n_steps):
            want = round(share[t] * total + 0.01, 6) if share[t] < 1 else rating
            if want != cur:
                ev["grid_operator_signals"].append({
                    "signal_time": scen.iso(start - datetime.timedelta(hours=1)),
                    "start_time": scen.iso(start + t * dt - datetime.timedelta(minutes=rng.choice([0, 0, 1]))),
                    "grid_connector_id": "GC1", "max_power": want})
                cur = want
        meta["binding_steps"] = [t for t in range(n_steps) if share[t] < 1]
        meta["headroom"] = [round(share[t] * total + 0.01, 6) if share[t] < 1 else rating for t in range(n_steps)]
    elif binding and total > 0:
        # headroom_t = rating - fixed_t = share_t * station power (+ a little) where the connector binds
        ev["fixed_load"]["building"] = {
            "start_time": scen.iso(start), "step_duration_s": interval * 60, "grid_connector_id": "GC1",
            "values": [round(rating - (share[t] * total + 0.01), 6) if share[t] < 1 else round(rating - total - 5.0, 6)
                       for t in range(n_steps)]}
        meta["binding_steps"] = [t for t in range(n_steps) if share[t] < 1]
    options = {}

    def off_grid():
        # a signal that starts inside step t-1 takes effect at step t (first step at or after its start)
        return datetime.timedelta(minutes=rng.choice([0, 0, 1, interval // 2, interval - 1]))
    if strat == "peak_load_window":
        options["time_windows"] = "@TIME_WINDOWS"
        meta["time_windows"] = time_windows
    elif strat == "flex_window" and rng.random() < 0.3:
        # the window flags come from a schedule CSV (constant or plateau targets, toggling charge flag)
        options["LOAD_STRAT"] = "balanced"
        gc["window"] = bool(pattern[0])
        target, rows = rng.choice([10.0, 20.0]), ["timestamp,schedule [kW],charge"]
        for t in range(n_steps):
            if rng.random() < 0.15:
                target = rng.choice([10.0, 20.0, 35.5])
            rows.append("%s,%s,%d" % ((start + t * dt).isoformat(), target, 1 if pattern[t] else 0))
        meta["schedule_csv"] = "\n".join(rows) + "\n"
        ev["schedule_from_csv"] = {"column": "schedule [kW]", "start_time": scen.iso(start),
                                   "step_duration_s": interval * 60, "csv_file": "@SCHEDULE_CSV",
                                   "grid_connector_id": "GC1"}
    elif strat == "flex_window":
        options["LOAD_STRAT"] = "balanced"
        gc["window"] = bool(pattern[0])
        for t in range(1, n_steps):
            if pattern[t] != pattern[t - 1]:
                ev["grid_operator_signals"].append({
                    "signal_time": scen.iso(start - datetime.timedelta(hours=1)),
                    "start_time": scen.iso(start + t * dt - off_grid()),
                    "grid_connector_id": "GC1", "window": bool(pattern[t])})
        # signals that carry no window information (price update / unchanged limit) leave the window as it is
        for _ in range(rng.choice([0, 1, 2, 3])):
            t = rng.randint(1, n_steps - 1)
            sig = {"signal_time": scen.iso(start - datetime.timedelta(hours=1)),
                   "start_time": scen.iso(start + t * dt - datetime.timedelta(minutes=rng.choice([2, 3, 4]),
                                                                           seconds=rng.randint(1, 50))),
                   "grid_connector_id": "GC1"}
            if rng.random() < 0.5:
                sig["cost"] = {"type": "fixed", "value": rng.choice([0.1, 0.3])}
            else:
                sig["max_power"] = rating
            ev["grid_operator_signals"].append(sig)
    else:
        gc["cost"] = {"type": "fixed", "value": steps_price[0]}
        meta["prices"] = steps_price[:n_steps]
        for t in range(1, n_steps):
            if steps_price[t] != steps_price[t - 1]:
                st_t = start + t * dt - off_grid()
                ev["grid_operator_signals"].append({
                    "signal_time": scen.iso(st_t - datetime.timedelta(hours=6) if long_horizon
                                            else start - datetime.timedelta(hours=1)),
                    "start_time": scen.iso(st_t),
                    "grid_connector_id": "GC1", "cost": {"type": "fixed", "value": steps_price[t]}})
        if long_horizon:
            options["HORIZON"] = 48
    comp["grid_connectors"]["GC1"] = gc
    scn = {"scenario": {"start_time": scen.iso(start), "interval": interval, "n_intervals": n_steps},
           "components": comp, "events": ev}
    return {"scenario": scn, "strategy": strat, "options": options, "meta": meta, "pid": PID, "kind": kind}


def replan_suffices(full, m):
    """independent statement of the documented mechanism 'charge evenly over the encouraged steps': in every
    encouraged step of the standing time offer remaining/(remaining encouraged steps), limited by station and
    connector headroom; True if that delivers 1.15 x the needed energy"""
    comp = full["scenario"]["components"]
    cs_power = float(comp["charging_stations"][m["cs"]]["max_power"])
    rating = float(comp["grid_connectors"]["GC1"]["max_power"])
    fixed = full["scenario"]["events"]["fixed_load"].get("building", {}).get("values")
    dt_h = full["meta"]["interval"] / 60.0
    steps = [t for t in range(m["a"], m["d"]) if m["enc"][t]]
    rem = 1.15 * m["need"] * cs_power * dt_h          # energy of `need` full-power steps, with margin
    hr = full["meta"].get("headroom")
    for i, t in enumerate(steps):
        head = hr[t] if hr and t < len(hr) else rating - (fixed[t] if fixed and t < len(fixed) else 0.0)
        cap = max(0.0, min(cs_power, head))
        p = min(rem / ((len(steps) - i) * dt_h), cap)
        rem -= p * dt_h
    return rem <= 1e-9


def station_power(r, t, cs):
    for gid, g in r["trace"][t]["post_strategy"]["gcs"].items():
        for k, x in g["loads"]:
            if k == cs:
                return x
    return 0.0


def eval_signal(full):
    strat, kind = full["strategy"], full["kind"]
    mv = full["meta"]["vehicles"]
    viol, stats = [], [kind]
    if full["meta"].get("tight_tail") and mv:
        stats.append("tight_tail_offgrid_departure")
    if not mv:
        return {"lines": [], "impl": [], "violations": [], "nontrivial": False, "stats": ["empty"], "replay_case": full}
    # the strategy's step model (where one exists) is tied to the real step on these runs
    run_full, tmp_csv = full, None
    if full["meta"].get("schedule_csv"):
        import os
        import tempfile
        fh = tempfile.NamedTemporaryFile("w", suffix=".csv", delete=False)
        fh.write(full["meta"]["schedule_csv"])
        fh.close()
        tmp_csv = fh.name
        run_full = copy.deepcopy(full)
        run_full["scenario"]["events"]["schedule_from_csv"]["csv_file"] = tmp_csv
    try:
        r, tl, ti = steptie.run_with_tie(run_full, lambda: scen.run_real(run_full, timeout_s=90))
    finally:
        if tmp_csv:
            os.unlink(tmp_csv)
    if r.get("step_i") is None or r.get("escaped") or r.get("timeout") or r.get("aborted"):
        return {"lines": tl, "impl": ti, "violations": [], "nontrivial": False, "stats": stats + ["no_full_run"],
                "replay_case": full}
    dt_h = full["meta"]["interval"] / 60.0
    nontrivial = False
    for vid, m in mv.items():
        disc = [t for t in range(m["a"], min(m["d"], r["step_i"])) if not m["enc"][t]]
        if disc and m["need"] >= 1:
            nontrivial = True
        for t in disc:
            p = station_power(r, t, m["cs"])
            if p > EPS:
                key = "C11:charged_in_discouraged_step:%s" % strat
                if not replan_suffices(full, m):
                    # plain capacity of the encouraged steps suffices (premise of the property), but evenly
                    # re-planned charging over them does not, because the connector binds late in the standing time
                    key += ":headroom_binds_too_late_for_even_replanning"
                viol.append(("follows_signal", key,
                             "%s charged %.4f kW at step %d (discouraged); encouraged steps in standing time %d, "
                             "needed %d" % (vid, p, t, sum(m["enc"][m["a"]:m["d"]]), m["need"])))
                break
        soc_dep = None
        for t in range(m["a"] + 1, r["step_i"]):
            pe = r["trace"][t]["post_events"]
            if pe and pe["vehicles"][vid]["cs"] is None:
                soc_dep = pe["vehicles"][vid]["soc"]
                break
        if soc_dep is not None and soc_dep < m["desired"] - 1e-4:
            key = "C11:desired_soc_missed_with_sufficient_encouraged_steps:%s" % strat
            if not replan_suffices(full, m):
                key += ":headroom_binds_too_late_for_even_replanning"
            viol.append(("still_reached", key,
                         "%s left with %.6f < %.4f" % (vid, soc_dep, m["desired"])))
    if kind == "market_vs_greedy":
        g = dict(full, strategy="greedy")
        rg = scen.run_real(g, timeout_s=60)
        if rg.get("step_i") == r["step_i"] and not rg.get("aborted"):
            prices = full["meta"]["prices"]

            def cost_energy(rr):
                c = e = 0.0
                for t in range(rr["step_i"]):
                    for vid, m in mv.items():
                        p = max(station_power(rr, t, m["cs"]), 0.0)
                        c += p * dt_h * prices[t]
                        e += p * dt_h
                return c, e
            cm, em = cost_energy(r)
            cg, eg = cost_energy(rg)
            stats.append("paired")
            if abs(em - eg) <= 1e-3 and cm > cg + 1e-6:
                viol.append(("market_not_dearer", "C11:balanced_market_pays_more_than_greedy",
                             "equal energy %.4f kWh: market %.6f > greedy %.6f" % (em, cm, cg)))
    return {"lines": tl, "impl": ti, "violations": viol, "nontrivial": nontrivial, "stats": stats,
            "replay_case": full}


def late_departures(full, rng):
    """vehicles stay past the announced departure time (the departure event comes 1-3 steps late where the
    next arrival allows it) or are connected from the start without an announced departure"""
    sc = full["scenario"]
    dt = datetime.timedelta(minutes=sc["scenario"]["interval"])
    evs = sc["events"]["vehicle_events"]
    parse = datetime.datetime.fromisoformat
    for vid, veh in sc["components"]["vehicles"].items():
        mine = [e for e in evs if e["vehicle_id"] == vid and e["event_type"] in ("arrival", "departure")]
        mine.sort(key=lambda e: parse(e["start_time"]))
        for i, e in enumerate(mine):
            if e["event_type"] != "departure" or rng.random() >= 0.4:
                continue
            new = parse(e["start_time"]) + rng.randint(1, 3) * dt
            nxt = parse(mine[i + 1]["start_time"]) if i + 1 < len(mine) else None
            if nxt is None or new + dt <= nxt:
                e["start_time"] = scen.iso(new)
                e["update"]["estimated_time_of_arrival"] = scen.iso(max(parse(e["update"]["estimated_time_of_arrival"]),
                                                                        new + dt))
        if veh.get("connected_charging_station") and rng.random() < 0.25:
            veh.pop("estimated_time_of_departure", None)


def eval_schedule(case):
    """schedule (individual): station power >= what the battery accepts from min(clamp(schedule), headroom)"""
    from spice_ev import components as comp_mod, util as util_mod, strategy as st_mod
    from spice_ev.strategies import schedule as sched_mod
    if "scenario" in case:
        full = case
    else:
        rng = random.Random("C11s:%s:%s" % (case["seed"], case["i"]))
        full = scen.gen_scenario(rng, strategy="schedule", feasible=True,
                                 features={"generation": False, "battery": rng.random() < 0.3}, max_steps=40)
        full["pid"], full["kind"] = PID, "schedule_individual"
        late_departures(full, rng)
    log = []
    orig = sched_mod.Schedule.charge_individually
    orig_clamp = util_mod.clamp_power

    def wrapped(self):
        # record, per vehicle in the order of allocation, what the floor would deliver, by replaying the
        # allocation order on copies just before the real call
        gc_loads = {gid: gc.get_current_load() for gid, gc in self.world_state.grid_connectors.items()}
        pre = {}
        for vid, v in self.world_state.vehicles.items():
            cs_id = v.connected_charging_station
            if cs_id is None or cs_id not in self.world_state.charging_stations:
                continue
            pre[vid] = (copy.deepcopy(v.battery), v.schedule, cs_id)
        res = orig(self)
        cmds = dict(res)
        # allocation order = dict order of vehicles; the headroom seen by a vehicle is the limit minus the
        # load before its own add_load
        running = dict(gc_loads)
        for vid, (bat, sched, cs_id) in pre.items():
            cs = self.world_state.charging_stations[cs_id]
            gc = self.world_state.grid_connectors[cs.parent]
            if sched is None:
                continue
            # a connected vehicle with a schedule that receives no command gets no power
            cmds.setdefault(cs_id, 0.0)
            headroom = gc.cur_max_power - running[cs.parent]
            import types
            cs0 = types.SimpleNamespace(current_power=0, max_power=cs.max_power, min_power=cs.min_power)
            floor_offer = min(orig_clamp(sched, self.world_state.vehicles[vid], cs0), headroom)
            floor_avg = bat.load(self.interval, target_power=floor_offer)["avg_power"]
            log.append((str(self.current_time), vid, cs_id, sched, headroom, floor_offer, floor_avg, cmds[cs_id]))
            running[cs.parent] += cmds[cs_id]
        return res
    sched_mod.Schedule.charge_individually = wrapped
    try:
        r, tl, ti = steptie.run_with_tie(full, lambda: scen.run_real(full, timeout_s=90))
    finally:
        sched_mod.Schedule.charge_individually = orig
    viol = []
    for (t, vid, cs_id, sched, headroom, offer, floor_avg, got) in log:
        if got < floor_avg - 1e-6:
            viol.append(("individual_floor", "C11:schedule_individual_below_scheduled_power",
                         "%s %s: station %.6f kW < %.6f kW (scheduled %.4f, headroom %.4f)"
                         % (t, vid, got, floor_avg, sched, headroom)))
            break
    return {"lines": tl, "impl": ti, "violations": viol, "nontrivial": any(x[6] > EPS for x in log),
            "stats": ["schedule_individual"], "replay_case": full, "num": {"floor_checks": len(log)}}


def eval_case(case):
    if case.get("kind") == "schedule_individual":
        return eval_schedule(case)
    full = case if "scenario" in case else build_signal(case)
    return eval_signal(full)


def compare(case, impl, model):
    return steptie.compare(impl, model)[1]
