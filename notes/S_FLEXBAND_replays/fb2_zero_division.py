"""FB2: ZeroDivisionError when a vehicle is (re-)registered in the step of its estimated departure"""
import sys, json, warnings
sys.path.insert(0, sys.argv[1] if len(sys.argv) > 1 else "/repo")
warnings.simplefilter("ignore")
from spice_ev import scenario
from spice_ev.generate import generate_schedule as gs
def run(sc, cst):
    s = scenario.Scenario(json.loads(json.dumps(sc)), ".")
    try:
        f = gs.generate_flex_band(s, "GC1", cst)
        return "ok, intervals %r" % [(iv["needed"], iv["time"]) for iv in f["intervals"]]
    except Exception as e:
        return "raised %s: %s" % (type(e).__name__, e)
base = {"scenario": {"start_time": "2023-01-02T04:00:00+01:00", "interval": 15, "n_intervals": 12},
      "components": {
          "vehicle_types": {"t": {"name": "t", "capacity": 50, "mileage": 40, "charging_curve": [[0, 11], [1, 11]],
                                  "battery_efficiency": 1.0}},
          "vehicles": {"v0": {"vehicle_type": "t", "soc": 0.2, "desired_soc": 1.0, "connected_charging_station": "CS0",
                              "estimated_time_of_departure": "2023-01-02T05:15:00+01:00"}},
          "grid_connectors": {"GC1": {"max_power": 50, "cost": {"type": "fixed", "value": 0.3}}},
          "charging_stations": {"CS0": {"max_power": 11, "parent": "GC1"}},
          "batteries": {}, "photovoltaics": {}},
      "events": {"grid_operator_signals": [], "fixed_load": {}, "local_generation": {},
                 # the vehicle really leaves at 06:00, 45 min after the estimate
                 "vehicle_events": [{"signal_time": "2023-01-02T06:00:00+01:00", "start_time": "2023-01-02T06:00:00+01:00",
                                     "vehicle_id": "v0", "event_type": "departure", "update": {}}]}}
print("a) core standing time 22:00-05:00, vehicle estimated to leave 05:15, leaves 06:00:")
print("   ", run(base, {"times": [{"start": [22, 0], "end": [5, 0]}]}))
print("b) same without core standing time:")
print("   ", run(base, None))
sc = json.loads(json.dumps(base)); sc["components"]["charging_stations"]["CS0"]["max_power"] = 0
print("c) no core standing time, station with 0 kW (vehicle re-registered in every step):")
print("   ", run(sc, None))
