/-
C07 — frame of the two strategy models with their own world / state types, put together: peak_load_window (`PWorld`) and
distributed (`DState`; its peak_load_window sub-strategy frame is discharged here with `Keeps.PeakLoadWindow.step_inv`).
Instance-free (plain operations only).
-/
import SpiceEv.Proofs.C07KeepsPeakLoadWindow
import SpiceEv.Proofs.C07KeepsDistributed
set_option linter.unusedSectionVars false
set_option linter.unusedVariables false
namespace SpiceEv.Keeps.Distrib
open SpiceEv SpiceEv.Distrib

variable {α B : Type} [Add α] [Sub α] [Mul α] [Div α] [Neg α] [LT α] [LE α]
  [DecidableLT α] [DecidableLE α] [OfNat α 0] [OfNat α 1] [NatCast α] [IntCast α]

/-- the names a `Distributed.step` may book under: ids of the charging stations and stationary batteries of the world, and
the virtual stations `stationary_<b>` of the batteries listed in `gc_battery` -/
def distName (s : DState α B) : String → Bool :=
  fun k => sbName s.world k || s.init.gcBattery.any (fun p => p.2.any (fun b => virtName b == k))

theorem distName_inv (s : DState α B) : Inv (distName s) s.world.gcs s.world := by
  have h0 := Inv.init s.world
  refine ⟨GcKeeps.refl _ _, fun st hst => ?_, fun b hb => ?_⟩
  · unfold distName; rw [Bool.or_eq_true]; exact Or.inl (h0.st st hst)
  · unfold distName; rw [Bool.or_eq_true]; exact Or.inl (h0.bat b hb)

theorem distName_gb (s : DState α B) : ∀ p ∈ s.init.gcBattery, ∀ b ∈ p.2, distName s (virtName b) = true := by
  intro p hp b hb
  unfold distName; rw [Bool.or_eq_true]; right
  exact List.any_eq_true.mpr ⟨p, hp, List.any_eq_true.mpr ⟨b, hb, beq_self_eq_true _⟩⟩

/-- **`Distributed.step`, all sub-strategies, no hypothesis**: relative to `distName s` -/
theorem step_keeps (dops : DOps α B) (de : DEnv α) (s s' : DState α B) (cmds : List (String × α))
    (h : Distrib.step dops de s = .ok (s', cmds)) :
    GcKeeps (distName s) s.world.gcs s'.world.gcs ∧ s'.future = s.future ∧ s'.numberCs = s.numberCs := by
  have hplw : ∀ (S : String → Bool) (gcs0 : List (GcS α)) (ol0 : List (String × String × Option String))
      (ops : BatOps α B) (env : PeakLoadWindow.PEnv α) (w w' : PeakLoadWindow.PWorld α B) (cmds : List (String × α)),
      PInv S gcs0 ol0 w → PeakLoadWindow.step ops env w = .ok (w', cmds) → PInv S gcs0 ol0 w' :=
    fun S gcs0 ol0 ops env w w' cmds hi h => Keeps.PeakLoadWindow.step_inv ops env w w' cmds hi h
  obtain ⟨h1, h2, h3⟩ := step_inv_of dops de s s' cmds (PlwFrame.of_hplw hplw dops de _)
    (PlwFrame.of_hplw hplw dops de _) (distName_gb s) (distName_inv s) h
  exact ⟨h1.keeps, h2, h3⟩

end SpiceEv.Keeps.Distrib
