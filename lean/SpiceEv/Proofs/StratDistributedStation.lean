/-
Station-side lemmas for the model of `Distributed` (Model/StratDistributed.lean): every station stays at or below
its maximum through the per-connector delegation (virtual world, write-back) and the final surplus pass; shape of
one call of the surplus pass body (sign, V2G guard, booking).
-/
import SpiceEv.Proofs.StratDistributed
import SpiceEv.Proofs.StrategiesFrame
import SpiceEv.Proofs.StrategiesLower
import SpiceEv.Properties.C05
set_option linter.unusedSectionVars false
set_option linter.unusedSimpArgs false
set_option linter.unusedVariables false
namespace SpiceEv.Distrib
open SpiceEv SpiceEv.Frame
variable {α B : Type} [Field α] [LinearOrder α] [IsStrictOrderedRing α]

/-- every station has a non-negative maximum and is at or below it -/
def StOK (ss : List (StationS α)) : Prop := ∀ s ∈ ss, 0 ≤ s.maxPower ∧ s.currentPower ≤ s.maxPower
def MaxOK (ss : List (StationS α)) : Prop := ∀ s ∈ ss, 0 ≤ s.maxPower

theorem maxOK_book (w : SWorld α B) (v' : VehicleS α B) (g' : GcS α) (cs : StationS α) (c : α)
    (hcs : cs ∈ w.stations) (h : MaxOK w.stations) :
    MaxOK (((w.setVehicle v').setGc g').setStation { cs with currentPower := c }).stations := by
  intro s hs
  rcases mem_setStation _ _ s hs with rfl | hm
  · exact h cs hcs
  · exact h s (by simpa using hm)

theorem allocVehicle_maxOK (rule : Rule) (ops : BatOps α B) (env : StratEnv α)
    (st st' : SWorld α B × List (String × α) × List (String × α)) (vid : String)
    (hinv : MaxOK st.1.stations) (h : allocVehicle rule ops env st vid = .ok st') : MaxOK st'.1.stations := by
  obtain ⟨v, hv, hc⟩ := allocVehicle_cases rule ops env st st' vid h
  rcases hc with ⟨_, he⟩ | ⟨csId, cs, gc, cheap, power, used, bat', avg, hcs, hst, hgc, _, _, _, he⟩
  · rw [he]; exact hinv
  · rw [he]; exact maxOK_book _ _ _ cs _ (station?_some' _ _ _ hst).1 hinv

theorem surplusBody_maxOK (ops : BatOps α B) (env : StratEnv α) (cheap : List (String × Bool))
    (st st' : SWorld α B × List (String × α)) (v0 : VehicleS α B) (hinv : MaxOK st.1.stations)
    (h : surplusBody ops env cheap st v0 = .ok st') : MaxOK st'.1.stations := by
  rcases surplusBody_cases ops env cheap st st' v0 h with ⟨_, he⟩ | ⟨v, hv, hc⟩
  · rw [he]; exact hinv
  · rcases hc with ⟨_, he⟩ | ⟨csId, cs, gc, r, hcs, hst, hgc, hloc, he⟩
    · rw [he]; exact hinv
    · rw [he]
      cases r with
      | none => exact hinv
      | some t =>
        obtain ⟨bat', d, cur'⟩ := t
        exact maxOK_book _ _ _ cs _ (station?_some' _ _ _ hst).1 hinv

/-- the sub-strategy's step keeps the stations' maxima non-negative -/
theorem ruleStep_maxOK (rule : Rule) (ops : BatOps α B) (env : StratEnv α) (w w' : SWorld α B)
    (cmds : List (String × α)) (hinv : MaxOK w.stations) (h : ruleStep rule ops env w = .ok (w', cmds)) :
    MaxOK w'.stations := by
  unfold ruleStep at h
  cases ha : availBatPower ops w with
  | error e => simp [ha, bind, Except.bind] at h
  | ok avail =>
    simp only [ha, bind, Except.bind] at h
    cases hf : (sortedVehicleIds (resetStations w)).foldlM (allocVehicle rule ops env)
        (resetStations w, [], avail) with
    | error e => simp [hf] at h
    | ok st1 =>
      obtain ⟨w1, c1, a1⟩ := st1
      simp only [hf] at h
      have h0 : MaxOK (resetStations w).stations := by
        intro s hs
        unfold resetStations at hs
        simp only [List.mem_map] at hs
        obtain ⟨x, hx, rfl⟩ := hs
        exact hinv x hx
      have h1 : MaxOK w1.stations :=
        foldlM_inv (allocVehicle rule ops env) (fun s => MaxOK s.1.stations)
          (fun s x s' hi hs => allocVehicle_maxOK rule ops env s s' x hi hs) _ _ (w1, c1, a1) h0 hf
      cases hd : distributeSurplus ops env w1 with
      | error e => simp [hd] at h
      | ok r2 =>
        obtain ⟨w2, c2⟩ := r2
        simp only [hd] at h
        have h2 : MaxOK w2.stations := by
          rw [distributeSurplus_unfold] at hd
          cases hc : w1.gcs.mapM (cheapEntry env) with
          | error e => simp [hc, bind, Except.bind] at hd
          | ok cheap =>
            simp only [hc, bind, Except.bind] at hd
            exact foldlM_inv (surplusBody ops env cheap) (fun s => MaxOK s.1.stations)
              (fun s x s' hi hs => surplusBody_maxOK ops env cheap s s' x hi hs)
              w1.vehicles (w1, []) (w2, c2) h1 hd
        cases hu : updateBatteries ops env w2 with
        | error e => simp [hu] at h
        | ok w3 =>
          simp only [hu, Except.ok.injEq, Prod.mk.injEq] at h
          obtain ⟨rfl, _⟩ := h
          rw [updateBatteries_stations ops env w2 w3 hu]; exact h2

/-- after the sub-strategy's step every station of its world is within its (non-negative) maximum -/
theorem ruleStep_stOK (rule : Rule) (ops : BatOps α B) (law : BatLaw ops) (env : StratEnv α) (w w' : SWorld α B)
    (cmds : List (String × α)) (hinv : MaxOK w.stations) (h : ruleStep rule ops env w = .ok (w', cmds)) :
    StOK w'.stations := fun s hs =>
  ⟨ruleStep_maxOK rule ops env w w' cmds hinv h s hs,
   C05_greedy_balanced_station rule ops law env w w' cmds hinv h s hs⟩

/-! ### write-back -/

theorem writeBack_stations_mem (w sub : SWorld α B) (a b : List String) (s : StationS α)
    (h : s ∈ (writeBack w sub a b).stations) : s ∈ w.stations ∨ s ∈ sub.stations := by
  unfold writeBack at h
  have h2 : ∀ (l : List (VehicleS α B)) (w : SWorld α B),
      (l.foldl (fun (w : SWorld α B) v => if b.contains v.id then w.setVehicle v else w) w).stations
        = w.stations := by
    intro l
    induction l with
    | nil => intro w; rfl
    | cons x xs ih => intro w; simp only [List.foldl_cons]; rw [ih]; split <;> rfl
  have h1 : ∀ (l : List (StationS α)) (w : SWorld α B), (∀ x ∈ l, x ∈ sub.stations) →
      ∀ s ∈ (l.foldl (fun (w : SWorld α B) s => if a.contains s.id then w.setStation s else w) w).stations,
        s ∈ w.stations ∨ s ∈ sub.stations := by
    intro l
    induction l with
    | nil => intro w _ s hs; exact Or.inl hs
    | cons x xs ih =>
      intro w hl s hs
      simp only [List.foldl_cons] at hs
      rcases ih _ (fun y hy => hl y (by simp [hy])) s hs with h | h
      · split at h
        · rcases mem_setStation _ _ s h with rfl | hm
          · exact Or.inr (hl _ (by simp))
          · exact Or.inl hm
        · exact Or.inl h
      · exact Or.inr h
  simp only [h2] at h
  exact h1 sub.stations w (fun x hx => hx) s h

theorem foldl_setGc_stations (l : List (GcS α)) (w : SWorld α B) :
    (l.foldl (fun (w : SWorld α B) g => w.setGc g) w).stations = w.stations := by
  induction l generalizing w with
  | nil => rfl
  | cons x xs ih => simp only [List.foldl_cons]; rw [ih]; rfl

theorem foldl_setBattery_stations (l : List (StatBatS α B)) (w : SWorld α B) :
    (l.foldl (fun (w : SWorld α B) b => w.setBattery b) w).stations = w.stations := by
  induction l generalizing w with
  | nil => rfl
  | cons x xs ih => simp only [List.foldl_cons]; rw [ih]; rfl

theorem subStations_mem (w : SWorld α B) (cvs : List (VehicleS α B)) (stations : List (StationS α))
    (h : subStations w cvs = .ok stations) : ∀ s ∈ stations, s ∈ w.stations := by
  unfold subStations at h
  refine foldlM_inv _ (fun (acc : List (StationS α)) => ∀ s ∈ acc, s ∈ w.stations) ?_ cvs [] stations
    (by intro s hs; simp at hs) h
  intro acc v acc' hi hs
  split at hs
  · simp only [Except.ok.injEq] at hs; subst hs; exact hi
  · split at hs
    · cases hs
    · rename_i cs hst
      split at hs
      · simp only [Except.ok.injEq] at hs; subst hs; exact hi
      · simp only [Except.ok.injEq] at hs; subst hs
        intro s hs'
        rcases List.mem_append.mp hs' with h' | h'
        · exact hi s h'
        · simp only [List.mem_cons, List.not_mem_nil, or_false] at h'
          subst h'; exact (station?_some' _ _ _ hst).1

/-! ### static station data through the sub-strategy's step; the repair DIST2 on a booked world -/

/-- a predicate on stations that does not read `current_power` -/
def Static (Q : StationS α → Prop) : Prop := ∀ s c, Q s → Q { s with currentPower := c }

theorem ruleStep_static (Q : StationS α → Prop) (hQ : Static Q) (rule : Rule) (ops : BatOps α B) (env : StratEnv α)
    (w w' : SWorld α B) (cmds : List (String × α)) (hinv : ∀ s ∈ w.stations, Q s)
    (h : ruleStep rule ops env w = .ok (w', cmds)) : ∀ s ∈ w'.stations, Q s := by
  have book : ∀ (w : SWorld α B) (v' : VehicleS α B) (g' : GcS α) (cs : StationS α) (c : α),
      cs ∈ w.stations → (∀ s ∈ w.stations, Q s) →
      ∀ s ∈ (((w.setVehicle v').setGc g').setStation { cs with currentPower := c }).stations, Q s := by
    intro w v' g' cs c hcs h s hs
    rcases mem_setStation _ _ s hs with rfl | hm
    · exact hQ cs c (h cs hcs)
    · exact h s (by simpa using hm)
  unfold ruleStep at h
  cases ha : availBatPower ops w with
  | error e => simp [ha, bind, Except.bind] at h
  | ok avail =>
    simp only [ha, bind, Except.bind] at h
    cases hf : (sortedVehicleIds (resetStations w)).foldlM (allocVehicle rule ops env)
        (resetStations w, [], avail) with
    | error e => simp [hf] at h
    | ok st1 =>
      obtain ⟨w1, c1, a1⟩ := st1
      simp only [hf] at h
      have h0 : ∀ s ∈ (resetStations w).stations, Q s := by
        intro s hs
        unfold resetStations at hs
        simp only [List.mem_map] at hs
        obtain ⟨x, hx, rfl⟩ := hs
        exact hQ x 0 (hinv x hx)
      have h1 : ∀ s ∈ w1.stations, Q s :=
        foldlM_inv (allocVehicle rule ops env) (fun s => ∀ x ∈ s.1.stations, Q x)
          (fun st vid st' hi hs => by
            obtain ⟨v, hv, hc⟩ := allocVehicle_cases rule ops env st st' vid hs
            rcases hc with ⟨_, he⟩ | ⟨csId, cs, gc, cheap, power, used, bat', avg, hcs, hst, hgc, _, _, _, he⟩
            · rw [he]; exact hi
            · rw [he]; exact book _ _ _ cs _ (station?_some' _ _ _ hst).1 hi) _ _ (w1, c1, a1) h0 hf
      cases hd : distributeSurplus ops env w1 with
      | error e => simp [hd] at h
      | ok r2 =>
        obtain ⟨w2, c2⟩ := r2
        simp only [hd] at h
        have h2 : ∀ s ∈ w2.stations, Q s := by
          rw [distributeSurplus_unfold] at hd
          cases hc : w1.gcs.mapM (cheapEntry env) with
          | error e => simp [hc, bind, Except.bind] at hd
          | ok cheap =>
            simp only [hc, bind, Except.bind] at hd
            exact foldlM_inv (surplusBody ops env cheap) (fun s => ∀ x ∈ s.1.stations, Q x)
              (fun st v0 st' hi hs => by
                rcases surplusBody_cases ops env cheap st st' v0 hs with ⟨_, he⟩ | ⟨v, hv, hc⟩
                · rw [he]; exact hi
                · rcases hc with ⟨_, he⟩ | ⟨csId, cs, gc, r, hcs, hst, hgc, hloc, he⟩
                  · rw [he]; exact hi
                  · rw [he]
                    cases r with
                    | none => exact hi
                    | some t =>
                      obtain ⟨bat', d, cur'⟩ := t
                      exact book _ _ _ cs _ (station?_some' _ _ _ hst).1 hi)
              w1.vehicles (w1, []) (w2, c2) h1 hd
        cases hu : updateBatteries ops env w2 with
        | error e => simp [hu] at h
        | ok w3 =>
          simp only [hu, Except.ok.injEq, Prod.mk.injEq] at h
          obtain ⟨rfl, _⟩ := h
          rw [updateBatteries_stations ops env w2 w3 hu]; exact h2

theorem distributeSurplusOn_station (ops : BatOps α B) (law : BatLaw ops) (env : StratEnv α)
    (w w' : SWorld α B) (ids : List String) (cmds' : List (String × α)) (hinv : StationInv w)
    (h : distributeSurplusOn ops env w ids = .ok (w', cmds')) : StationInv w' := by
  unfold distributeSurplusOn at h
  simp only [bind, Except.bind] at h
  split at h
  · cases h
  · rename_i cheap _
    refine foldlM_inv _ (fun (st : SWorld α B × List (String × α)) => StationInv st.1) ?_ ids (w, []) (w', cmds')
      hinv h
    intro st id st' hi hs
    split at hs
    · simp only [Except.ok.injEq] at hs; subst hs; exact hi
    · rename_i v _
      obtain ⟨w1, c1⟩ := st'
      exact surplusVehicle_station ops law env cheap st.1 w1 st.2 c1 v hi hs

/-! ### one call of the surplus pass body: shape, sign, guard -/

theorem sdGet_append_none {β : Type} (l : List (String × β)) (k : String) (v : β) (h : sdGet l k = none) :
    sdGet (l ++ [(k, v)]) k = some v := by
  induction l with
  | nil => simp [sdGet]
  | cons x xs ih =>
    obtain ⟨xk, xv⟩ := x
    by_cases hk : (xk == k) = true
    · simp [sdGet, hk] at h
    · have hk' : (xk == k) = false := by simpa using hk
      simp only [sdGet, hk', Bool.false_eq_true, if_false] at h
      simp only [List.cons_append, sdGet, hk', Bool.false_eq_true, if_false]
      exact ih h

/-- `add_load(key, v)`: the entry under `key` (0 if absent) grows by `v`; the returned value is the new entry -/
theorem addLoad_entry (g : GcS α) (k : String) (v : α) :
    (sdGet (g.addLoad k v).1.loads k).getD 0 = (sdGet g.loads k).getD 0 + v ∧
    (g.addLoad k v).2 = (sdGet g.loads k).getD 0 + v := by
  unfold GcS.addLoad
  cases h : sdGet g.loads k with
  | none => simp [sdGet_append_none _ _ _ h]
  | some old => simp [sdGet_alSet_same]

theorem pyabs_abs (a : α) : pyabs a = |a| := by
  unfold pyabs
  split
  · rename_i h; exact (abs_of_neg h).symm
  · rename_i h; exact (abs_of_nonneg (not_lt.mp h)).symm

/-- what one decision of the surplus pass can be: a charge from surplus (`load(max_power=p)`, `d = avg ≥ 0`) or a
V2G support discharge (`unload(max_power=p ≤ station maximum, target_soc)`, `d = −avg ≤ 0`) which requires a V2G
vehicle above its desired SoC, an expensive price, a drawing connector and a station entry below `eps` in absolute
value -/
theorem surplusLocal_shape (ops : BatOps α B) (law : BatLaw ops) (env : StratEnv α)
    (isCheap : Bool) (v : VehicleS α B) (csId : String) (cs : StationS α) (gc : GcS α)
    (bat' : B) (d cur' : α)
    (h : surplusLocal ops env isCheap v csId cs gc = .ok (some (bat', d, cur'))) :
    cur' = cs.currentPower + d ∧
    ((∃ p, ops.load v.bat (some p) none none = .ok (bat', d) ∧ 0 ≤ d ∧ d ≤ max p 0 ∧ env.eps < -gc.currentLoad) ∨
     (∃ p ts avg, ops.unload v.bat (some p) (some ts) none = .ok (bat', avg) ∧ d = -avg ∧ 0 ≤ avg ∧ avg ≤ max p 0 ∧
        p ≤ cs.maxPower ∧ v.v2g = true ∧ |(sdGet gc.loads csId).getD 0| < env.eps ∧ env.eps < gc.currentLoad ∧
        isCheap = false ∧ v.desiredSoc - ops.soc v.bat < -env.eps)) := by
  unfold surplusLocal at h
  simp only at h
  split at h
  · rename_i hsur
    cases hl : ops.load v.bat
      (some (clampPower (-gc.currentLoad) cs.currentPower cs.maxPower cs.minPower v.minChargingPower))
      none none with
    | error e => simp [hl] at h
    | ok r =>
      obtain ⟨b1, avg⟩ := r
      simp only [hl, Except.ok.injEq, Option.some.injEq, Prod.mk.injEq] at h
      obtain ⟨rfl, rfl, rfl⟩ := h
      obtain ⟨a0, a1⟩ := law.load_max _ _ _ _ hl
      exact ⟨rfl, Or.inl ⟨_, hl, a0, a1, hsur⟩⟩
  · split at h
    · rename_i hns hc
      simp only [pymin_eq, pymax_eq, neg_neg] at h
      cases hu : ops.unload v.bat
          (some (min (min gc.currentLoad (ops.unloadMaxPower v.bat)) cs.maxPower))
          (some (max v.desiredSoc v.dischargeLimit)) none with
      | error e => simp [hu] at h
      | ok r =>
        obtain ⟨b1, avg⟩ := r
        simp only [hu, Except.ok.injEq, Option.some.injEq, Prod.mk.injEq] at h
        obtain ⟨rfl, rfl, rfl⟩ := h
        obtain ⟨a0, a1⟩ := law.unload_max _ _ _ _ _ hu
        obtain ⟨c1, c2, c3, c4, c5⟩ := hc
        refine ⟨sub_eq_add_neg _ _, Or.inr ⟨_, _, avg, hu, rfl, a0, a1, ?_, c3, ?_, ?_, c5, c2⟩⟩
        · exact min_le_right _ _
        · rw [← pyabs_eq]; exact c4
        · linarith
    · simp at h

/-- one call of the surplus pass body: nothing happens, or exactly one booking at the station of the (connected)
vehicle — battery, connector entry, station power and command move by the same signed average power `d` -/
theorem surplusVehicle_shape (ops : BatOps α B) (law : BatLaw ops) (env : StratEnv α) (cheap : List (String × Bool))
    (w w' : SWorld α B) (cmds cmds' : List (String × α)) (v : VehicleS α B)
    (h : surplusVehicle ops env cheap w cmds v = .ok (w', cmds')) :
    (w' = w ∧ cmds' = cmds) ∨
    ∃ csId cs gc bat' d, v.cs = some csId ∧ w.station? csId = some cs ∧ w.gc? cs.parent = some gc ∧
      surplusLocal ops env ((sdGet cheap cs.parent).getD false) v csId cs gc
        = .ok (some (bat', d, cs.currentPower + d)) ∧
      w' = (((w.setVehicle { v with bat := bat' }).setGc (gc.addLoad csId d).1).setStation
              { cs with currentPower := cs.currentPower + d }) ∧
      cmds' = sdSet cmds csId (gc.addLoad csId d).2 := by
  rw [surplusVehicle_eq] at h
  cases hcs : v.cs with
  | none => simp only [hcs, Except.ok.injEq, Prod.mk.injEq] at h; exact Or.inl ⟨h.1.symm, h.2.symm⟩
  | some csId =>
    simp only [hcs] at h
    cases hst : w.station? csId with
    | none => simp [hst] at h
    | some cs =>
      simp only [hst] at h
      cases hgc : w.gc? cs.parent with
      | none => simp [hgc] at h
      | some gc =>
        simp only [hgc] at h
        cases hloc : surplusLocal ops env ((sdGet cheap cs.parent).getD false) v csId cs gc with
        | error e => simp [hloc] at h
        | ok r =>
          simp only [hloc, Except.ok.injEq] at h
          cases r with
          | none =>
            simp only [surplusWrite, Prod.mk.injEq] at h
            exact Or.inl ⟨h.1.symm, h.2.symm⟩
          | some t =>
            obtain ⟨bat', d, cur'⟩ := t
            obtain ⟨hcur, _⟩ := surplusLocal_shape ops law env _ v csId cs gc bat' d cur' hloc
            subst hcur
            simp only [surplusWrite, Prod.mk.injEq] at h
            have h1 := h.1.symm
            rw [hcs] at h1
            exact Or.inr ⟨csId, cs, gc, bat', d, rfl, hst, hgc, hloc, h1, h.2.symm⟩

/-- what the battery loop after the sub-strategy does with one battery of an opportunity station -/
theorem oppsAfter_shape (dops : DOps α B) (saved : α) (avail : List (String × α)) (vveh : List (VehicleS α B))
    (st st' : OppsPost α B) (bId : String) (h : oppsAfter dops saved avail vveh st bId = .ok st') :
    ∃ b, st.bats.find? (·.id == bId) = some b ∧
      ((∃ p bat' avg, sdGet avail bId = some p ∧
          dops.bat.unload b.bat none none (some (max (st.gc.currentLoad - saved) 0)) = .ok (bat', avg) ∧
          st'.gc = (GcS.addLoad { st.gc with curMax := saved } bId (-avg)).1 ∧ st'.cmds = st.cmds ∧
          st'.bats = st.bats.map (fun x => if x.id == bId then { b with bat := bat' } else x)) ∨
       (sdGet avail bId = none ∧ sdGet st.cmds (virtName bId) = none ∧ st' = st) ∨
       (∃ val vv, sdGet avail bId = none ∧ sdGet st.gc.loads (virtName bId) = some val ∧
          vveh.find? (·.id == bId) = some vv ∧
          st'.gc = (GcS.addLoad { st.gc with loads := sdErase st.gc.loads (virtName bId) } bId val).1 ∧
          st'.cmds = sdErase st.cmds (virtName bId) ∧
          st'.bats = st.bats.map (fun x => if x.id == bId then
            { b with bat := dops.setSoc b.bat (dops.bat.soc vv.bat) } else x))) := by
  unfold oppsAfter at h
  split at h
  · cases h
  · rename_i b hb
    refine ⟨b, hb, ?_⟩
    split at h
    · rename_i p hp
      simp only [bind, Except.bind] at h
      split at h
      · cases h
      · rename_i r hr
        obtain ⟨bat', avg⟩ := r
        simp only [Except.ok.injEq] at h
        subst h
        have hcl : GcS.currentLoad { st.gc with curMax := saved } = st.gc.currentLoad := rfl
        rw [hcl, pymax_eq] at hr
        exact Or.inl ⟨p, bat', avg, hp, hr, rfl, rfl, rfl⟩
    · rename_i hp
      dsimp only at h
      split at h
      · rename_i hc
        simp only [Except.ok.injEq] at h
        exact Or.inr (Or.inl ⟨hp, hc, h.symm⟩)
      · split at h
        · cases h
        · rename_i val hval
          split at h
          · cases h
          · rename_i vv hvv
            simp only [Except.ok.injEq] at h
            subst h
            exact Or.inr (Or.inr ⟨val, vv, hp, hval, hvv, rfl, rfl, rfl⟩)

end SpiceEv.Distrib
