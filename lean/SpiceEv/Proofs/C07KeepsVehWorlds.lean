/-
C07 — vehicle frame of `Distributed.step` with the three sub-strategy frames discharged
(`ruleStep_vinv`, `KeepsVeh.PeakShaving.step_vinv`, `KeepsVeh.PeakLoadWindow.step_vinv`).  Instance-free.
-/
import SpiceEv.Proofs.C07KeepsVehRule
import SpiceEv.Proofs.C07KeepsVehPeakShaving
import SpiceEv.Proofs.C07KeepsVehPeakLoadWindow
import SpiceEv.Proofs.C07KeepsVehDistributed
set_option linter.unusedSectionVars false
set_option linter.unusedVariables false
namespace SpiceEv.KeepsVeh.Distrib
open SpiceEv SpiceEv.Distrib

variable {α B : Type} [Add α] [Sub α] [Mul α] [Div α] [Neg α] [LT α] [LE α]
  [DecidableLT α] [DecidableLE α] [OfNat α 0] [OfNat α 1] [NatCast α] [IntCast α]

/-- **`Distributed.step` changes a vehicle only through its battery** — every sub-strategy, no hypothesis -/
theorem step_vkeeps_all (dops : DOps α B) (de : DEnv α) (s s' : DState α B) (cmds : List (String × α))
    (h : Distrib.step dops de s = .ok (s', cmds)) :
    VehKeeps (s.world.vehicles.map vehKey) (s.world.vehicles.map (·.id)) s'.world.vehicles :=
  step_vkeeps
    (fun K ids0 rule ops env w w' cmds => ruleStep_vinv rule ops env w w' cmds)
    (fun K ids0 ops env events w w' cmds sched => KeepsVeh.PeakShaving.step_vinv ops env events w w' cmds sched)
    (fun K ids0 C ops env w w' cmds => KeepsVeh.PeakLoadWindow.step_vinv ops env w w' cmds)
    dops de s s' cmds h

end SpiceEv.KeepsVeh.Distrib
