#!/usr/bin/env python3
"""tools/retrial_all.py [id ...] — re-run the registered quick check against every seeded change on the CURRENT /repo HEAD.
Each change is applied in a scratch worktree (outside /repo and /verif, removed afterwards) and the check runs with
VERIF_REPO pointing at it (no evidence written). Result goes to seeded/<id>/meta.json under "retrial"."""
import concurrent.futures as cf
import json
import os
import subprocess
import sys
import time

VERIF = os.path.dirname(os.path.dirname(os.path.abspath(__file__)))


def sh(cmd, cwd=None, timeout=3600, env=None):
    p = subprocess.run(cmd, shell=True, cwd=cwd, capture_output=True, text=True, timeout=timeout, env=env)
    return p.returncode, p.stdout + p.stderr


def one_pid(args):
    pid, ids, head = args
    out = []
    for sid in ids:
        d = os.path.join(VERIF, "seeded", sid)
        wt = "/tmp/rt_%s" % sid
        sh("git -C /repo worktree remove --force %s" % wt)
        rc, o = sh("git -C /repo worktree add --detach %s HEAD" % wt)
        res = {"head": head}
        try:
            rca, oa = sh("git apply %s" % os.path.join(d, "patch.diff"), cwd=wt)
            if rca != 0:
                rca, oa = sh("git apply -C1 %s" % os.path.join(d, "patch.diff"), cwd=wt)
            res["applies"] = rca == 0
            if rca == 0:
                t0 = time.time()
                env = dict(os.environ, VERIF_REPO=wt, VERIF_NPROC="5", VERIF_NO_EVIDENCE="1", VERIF_SEED="0")
                rcc, oc = sh("./check %s --tier quick" % pid, cwd=VERIF, env=env, timeout=3000)
                lines = [l for l in oc.split("\n") if l.startswith("VIOLATION") or l.startswith("HARNESS")]
                res.update(exit=rcc, violation_lines=[l[:200] for l in lines[:5]], wall_s=round(time.time() - t0, 1),
                           detected=(rcc == 1 and bool(lines)),
                           with_failing_input=any("no-failing-input-found" not in l for l in lines if l.startswith("VIOL")))
            else:
                res["note"] = "patch no longer applies (the code it changed was repaired since): " + oa[-160:]
        finally:
            sh("git -C /repo worktree remove --force %s" % wt)
        meta = json.load(open(os.path.join(d, "meta.json")))
        meta["retrial"] = res
        json.dump(meta, open(os.path.join(d, "meta.json"), "w"), indent=1)
        out.append((sid, res))
        print(sid, res.get("applies"), res.get("detected"), res.get("with_failing_input"), res.get("wall_s"), flush=True)
    return out


if __name__ == "__main__":
    ids = sys.argv[1:] or sorted(os.listdir(os.path.join(VERIF, "seeded")))
    head = subprocess.run("git -C /repo log --format=%h -1", shell=True, capture_output=True, text=True).stdout.strip()
    by = {}
    for sid in ids:
        by.setdefault(sid.split("-")[0], []).append(sid)
    with cf.ThreadPoolExecutor(2) as ex:
        list(ex.map(one_pid, [(pid, v, head) for pid, v in sorted(by.items())]))
