/-
C05 — station limits: the state `Strategy.__init__` derives (model: Model/StratInit.lean `baseInit`, and the subclass
constructors built on it; tied to the real constructors by the `init_*` line of harness/s_init.py in every real run of
every run-level check).

The station maximum every C05 theorem and oracle speaks about is the "(concurrency-scaled) maximum": these theorems say
that after construction it is CONCURRENCY · rating for every station, for every strategy, that nothing else of a station
is touched, that the clock starts one interval early and that a zero interval is rejected.
-/
import SpiceEv.Proofs.StratInit
set_option linter.unusedSectionVars false
namespace SpiceEv
open SpiceEv.StratInit
variable {α : Type} [Field α] [LinearOrder α] [IsStrictOrderedRing α]

/-- **Every station maximum = CONCURRENCY · rating**, in the order of the components, with the same ids; without the
option the factor is 1 and the rating is unchanged. -/
theorem C05_init_station_maximum (c : BaseConsts α) (o : BaseOpts α) (start : DateTime) (interval : Int)
    (stations : List (String × α)) (b : BaseState α) (h : baseInit c o start interval stations = .ok b) :
    b.stations.map (·.1) = stations.map (·.1) ∧
    (∀ i (hi : i < stations.length), ∃ hi' : i < b.stations.length,
        b.stations[i].2 = (o.concurrency.getD 1) * stations[i].2) ∧
    (o.concurrency = none → b.stations = stations) := by
  obtain ⟨_, _, hs, _⟩ := baseInit_ok h
  rw [hs]
  refine ⟨by simp [List.map_map, Function.comp_def], fun i hi => ⟨by simpa using hi, by simp⟩, fun hn => ?_⟩
  rw [hn]
  simp only [Option.getD_none, one_mul]
  exact List.map_id' _

/-- **Clock and interval**: the constructor raises `ZeroDivisionError` exactly for a zero interval
(`timedelta(hours=1) / interval`); otherwise the clock starts one interval before the scenario start (the first
`Strategy.step` advances it to the start), and the number of steps per hour is 1 h / interval. -/
theorem C05_init_clock (c : BaseConsts α) (o : BaseOpts α) (start : DateTime) (interval : Int)
    (stations : List (String × α)) :
    (interval = 0 → baseInit c o start interval stations = .error .zeroDivision) ∧
    (interval ≠ 0 → ∃ b, baseInit c o start interval stations = .ok b ∧ b.now = start.add (-interval) ∧
      b.now.instant + interval = start.instant ∧
      b.tsPerHour = ((3600000000 : Int) : α) / ((interval : Int) : α)) := by
  refine ⟨fun h => by simp [baseInit, h], fun h => ⟨_, by simp only [baseInit, h, if_false]; rfl, rfl, ?_, rfl⟩⟩
  simp only [DateTime.instant, DateTime.add]
  omega

/-- **Option defaults**: margin, EPS, PRICE_THRESHOLD, ALLOW_NEGATIVE_SOC, RESET_NEGATIVE_SOC are the given option or
the constructor's literal (the literals themselves are compared with the Python source by the constants stream). -/
theorem C05_init_option_defaults (c : BaseConsts α) (o : BaseOpts α) (start : DateTime) (interval : Int)
    (stations : List (String × α)) (b : BaseState α) (h : baseInit c o start interval stations = .ok b) :
    b.margin = o.margin.getD c.margin ∧ b.eps = o.eps.getD c.eps ∧ b.priceThreshold = o.priceThreshold.getD 0 ∧
    b.allowNegativeSoc = o.allowNegativeSoc.getD false ∧ b.resetNegativeSoc = o.resetNegativeSoc.getD false := by
  obtain ⟨_, _, _, h1, h2, h3, h4, h5⟩ := baseInit_ok h
  exact ⟨h1, h2, h3, h4, h5⟩

/-- **The subclass constructors keep the base state**: whatever `Schedule.__init__` / `FlexWindow.__init__` add, the
station maxima, clock and options are those of `Strategy.__init__` (only the plotting flags `uses_schedule` /
`uses_window` are set). -/
theorem C05_init_subclasses_keep_base (c : BaseConsts α) (o : BaseOpts α) (start : DateTime) (interval : Int)
    (stations : List (String × α)) (b : BaseState α) (hb : baseInit c o start interval stations = .ok b) :
    (∀ ls it wc n core s, scheduleInit c o start interval stations ls it wc n core = .ok s →
        s.base = { b with usesSchedule := true }) ∧
    (∀ ls hz n s, flexWindowInit c o start interval stations ls hz n = .ok s →
        s.base = { b with usesWindow := true }) := by
  constructor
  · intro ls it wc n core s hs
    unfold scheduleInit at hs
    simp only [hb, bind, Except.bind, pure, Except.pure] at hs
    repeat' (split at hs)
    all_goals (first | (cases hs; rfl) | cases hs)
  · intro ls hz n s hs
    unfold flexWindowInit at hs
    simp only [hb, bind, Except.bind, pure, Except.pure] at hs
    repeat' (split at hs)
    all_goals (first | (cases hs; rfl) | cases hs)

/-! ### non-vacuity -/

example :
    let r := baseInit (α := Rat) ⟨1/10, 1/100000⟩ { concurrency := some (1/2) } (DateTime.ofParts 737425 0 (some 0))
      900000000 [("cs1", 11), ("cs2", 22)]
    (r.toOption.map (·.stations)) = some [("cs1", 11/2), ("cs2", 11)] ∧
    (r.toOption.map (·.now)) = some (DateTime.ofParts 737424 85500000000 (some 0)) ∧
    (r.toOption.map (·.tsPerHour)) = some 4 ∧ (r.toOption.map (·.margin)) = some (1/10) := by
  decide +kernel

example : (baseInit (α := Rat) ⟨1/10, 1/100000⟩ {} (DateTime.ofParts 737425 0 (some 0)) 0 []).toOption.isNone = true := by
  decide +kernel

example :
    ((scheduleInit (α := Rat) ⟨1/10, 1/100000⟩ {} (DateTime.ofParts 737425 0 (some 0)) 900000000 [("cs", 11)]
      (some "individual") none none 2 false).toOption.map (·.base.stations)) = some [("cs", 11)] := by
  decide +kernel

end SpiceEv
