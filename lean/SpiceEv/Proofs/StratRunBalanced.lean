/-
Balanced over a standing period when the available power may bind: with a constant lower bound `P`
(in SoC per step) of what station, curve and connector allow in every step, balanced ends at
`min(desired − EPS, s0 + N·P)` or better — it reaches the desired SoC whenever constant full-power
charging at `P` would.  For the vehicle served first (any headroom profile) and for any vehicle when the
connector headroom never binds.  Helper lemmas for Properties/C09_Run.lean.
-/
import SpiceEv.Proofs.StratRun
import SpiceEv.Proofs.StratRunAmple
set_option linter.unusedSectionVars false
set_option linter.unusedSimpArgs false
set_option linter.unusedVariables false
namespace SpiceEv.StratRun
open SpiceEv SpiceEv.Frame
variable {α B : Type} [Field α] [LinearOrder α] [IsStrictOrderedRing α]

/-- balanced's call for a vehicle at an idle station without minimum powers, price above the threshold,
`m ≥ 1` steps remaining: with an unavoidable deficit `D ≥ 0` and a per-step gain `P ≥ 0` that the
step allows, `gap ≤ max(EPS, D + P·m)` becomes `gap ≤ max(EPS, D + P·(m − 1))` -/
theorem balanced_call_reached (ops : BatOps α B) (env : StratEnv α) (top : α) (cap : B → α)
    (lin : LinearLoad ops env.tsPerHour top cap) (heps : 0 ≤ env.eps) (ht : 0 < env.tsPerHour)
    (v0 : VehicleS α B) (hv : VehOk ops top v0) (hvm : v0.minChargingPower = 0)
    (etd : Int) (hetd : v0.etd = some etd) (hm : 0 < ceilDiv (etd - env.now) env.interval)
    (cs : StationS α) (mx : α) (hmx : cs.maxPower = mx) (hmn : cs.minPower = 0)
    (hcur : cs.currentPower = 0) (left a D P : α) (hD : 0 ≤ D) (hP : 0 ≤ P)
    (hfull : P ≤ max (min (min left mx) (cap v0.bat)) 0 * gain ops env.tsPerHour v0.bat)
    (b : B) (power : α) (used : Bool) (b' : B) (avg : α)
    (hr : Reached ops cap v0 (min (v0.desiredSoc - env.eps)
      (v0.desiredSoc - (D + P * ((ceilDiv (etd - env.now) env.interval : Int) : α)))) b)
    (hpl : planPower .balanced ops env false left a cs { v0 with bat := b } = .ok (power, used))
    (hcc : chargeCall .balanced ops env false { v0 with bat := b } power = .ok (b', avg)) :
    Reached ops cap v0 (min (v0.desiredSoc - env.eps)
      (v0.desiredSoc - (D + P * (((ceilDiv (etd - env.now) env.interval : Int) : α) - 1)))) b' := by
  obtain ⟨hu, hlo⟩ := hr
  have hcb : 0 < ops.capacity b := by rw [hu.2.1]; exact hv.cap_pos
  have heb : 0 < ops.efficiency b := by rw [hu.2.2.1]; exact hv.eff_pos
  obtain ⟨hl, hcase⟩ := balanced_dear_call ops env left a cs { v0 with bat := b } power used b' avg hpl hcc
  simp only at hl hcase
  obtain ⟨h1, h2, h3, h4⟩ := lin.up _ _ _ _ _ _ hl
  refine ⟨Up.trans hu ⟨h1, h2, h3, h4⟩, ?_⟩
  set m : α := ((ceilDiv (etd - env.now) env.interval : Int) : α) with hmdef
  have hm1 : (1 : α) ≤ m := by rw [hmdef]; exact_mod_cast hm
  have hmpos : 0 < m := lt_of_lt_of_le one_pos hm1
  rcases hcase with ⟨hd, _⟩ | ⟨hd, etd', he', hp⟩
  · exact le_trans (min_le_left _ _) (by linarith [not_lt.mp hd])
  · have hee : etd' = etd := by rw [hetd] at he'; exact (Option.some.inj he').symm
    subst hee
    have hp2 := hp hm
    rw [hmx, hmn, hvm, hcur, clampPower_free] at hp2
    have hg := gain_pos ops env.tsPerHour b hcb heb ht
    have hgain : gain ops env.tsPerHour b = gain ops env.tsPerHour v0.bat := by
      unfold gain; rw [hu.2.1, hu.2.2.1]
    have hng := need_gain ops env.tsPerHour { v0 with bat := b } hcb heb ht
    simp only at hng
    set nd := need ops env.tsPerHour { v0 with bat := b } with hnd
    have hgap : v0.desiredSoc - ops.soc b ≤ D + P * m := by
      rcases le_total (v0.desiredSoc - env.eps) (v0.desiredSoc - (D + P * m)) with h5 | h5
      · rw [min_eq_left h5] at hlo; linarith
      · rw [min_eq_right h5] at hlo; linarith
    have hq : nd / m * gain ops env.tsPerHour b = (v0.desiredSoc - ops.soc b) / m := by
      rw [div_mul_eq_mul_div, hng]
    have hgappos : 0 < (v0.desiredSoc - ops.soc b) / m := div_pos (by linarith) hmpos
    have hndpos : 0 < nd / m := by
      rw [← hq] at hgappos
      by_contra hneg
      have := mul_nonpos_of_nonpos_of_nonneg (not_lt.mp hneg) hg.le
      linarith
    have hp3 : power = max (min (min (nd / m) left) mx) 0 := hp2
    have hp0 : 0 ≤ power := by rw [hp3]; exact le_max_right _ _
    have hmle : (v0.desiredSoc - ops.soc b) / m ≤ v0.desiredSoc - ops.soc b := by
      rw [div_le_iff₀ hmpos]
      have : 0 ≤ v0.desiredSoc - ops.soc b := by linarith
      nlinarith
    have hpn : power ≤ nd / m := by
      rw [hp3]; exact max_le (le_trans (min_le_left _ _) (min_le_left _ _)) hndpos.le
    have hpg : power * gain ops env.tsPerHour b ≤ v0.desiredSoc - ops.soc b := by
      have := mul_le_mul_of_nonneg_right hpn hg.le
      rw [hq] at this
      linarith
    obtain ⟨ha, hs⟩ := lin.target _ _ _ _ hl hp0 (by have := hv.desired_le; linarith)
    have key := greedy_gain_arith (nd / m) left mx (cap b) (gain ops env.tsPerHour b) (ops.soc b)
      (ops.soc b + (v0.desiredSoc - ops.soc b) / m) hndpos (lin.cap_nonneg b) hg.le (by rw [hq])
    rw [hs, ha, hp3]
    refine le_trans ?_ key
    refine le_trans (min_le_right _ _) ?_
    rw [hu.2.2.2, hgain]
    apply le_min
    · -- the even share
      have e : (v0.desiredSoc - ops.soc b) - (v0.desiredSoc - ops.soc b) / m
          = (v0.desiredSoc - ops.soc b) / m * (m - 1) := by
        field_simp
      have h6 : (v0.desiredSoc - ops.soc b) / m * (m - 1) ≤ (D + P * m) / m * (m - 1) :=
        mul_le_mul_of_nonneg_right (div_le_div_of_nonneg_right hgap hmpos.le) (by linarith)
      have h7 : (D + P * m) / m * (m - 1) ≤ D + P * (m - 1) := by
        have e2 : (D + P * m) / m * (m - 1) = D * ((m - 1) / m) + P * (m - 1) := by
          field_simp
        rw [e2]
        have : (m - 1) / m ≤ 1 := by rw [div_le_one hmpos]; linarith
        have := mul_le_mul_of_nonneg_left this hD
        linarith
      linarith
    · -- the binding power
      have : D + P * (m - 1) = D + P * m - P := by ring
      linarith

/-- **balanced, one step, the vehicle served first** (general form of `ruleStep_balanced_first`: the
power may bind) -/
theorem ruleStep_balanced_first_gen (ops : BatOps α B) (law : BatLaw ops) (env : StratEnv α) (top : α)
    (cap : B → α)
    (lin : LinearLoad ops env.tsPerHour top cap) (heps : 0 ≤ env.eps) (ht : 0 < env.tsPerHour)
    (v0 : VehicleS α B) (hv : VehOk ops top v0) (hvm : v0.minChargingPower = 0)
    (csId gid : String) (mx : α) (hcs : v0.cs = some csId) (etd : Int) (hetd : v0.etd = some etd)
    (w : SWorld α B) (d : StepGcs α) (w' : SWorld α B) (cmds : List (String × α))
    (hst : StationIs w csId gid mx) (rest : List String)
    (hsort : sortedVehicleIds w = v0.id :: rest) (hdear : Dear env d)
    (D P : α) (hD : 0 ≤ D) (hP : 0 ≤ P)
    (hfull : P ≤ fullPower mx (cap v0.bat) d gid * gain ops env.tsPerHour v0.bat)
    (hm : 0 < ceilDiv (etd - env.now) env.interval)
    (hat : At (Reached ops cap v0 (min (v0.desiredSoc - env.eps)
      (v0.desiredSoc - (D + P * ((ceilDiv (etd - env.now) env.interval : Int) : α))))) v0 w)
    (h : ruleStep .balanced ops env (enter w d) = .ok (w', cmds)) :
    At (Reached ops cap v0 (min (v0.desiredSoc - env.eps)
      (v0.desiredSoc - (D + P * (((ceilDiv (etd - env.now) env.interval : Int) : α) - 1))))) v0 w' := by
  refine ruleStep_first .balanced ops law env (fun w1 => True) _ _ v0 csId hcs (fun _ _ => trivial)
    (fun _ _ _ _ _ => trivial) (fun _ _ _ _ _ _ => trivial) ?_ ?_ (enter w d) w' cmds ?_ rest hsort
    trivial hat h
  · intro w1 b cs gc cheap a power used b' avg _ _ hr _ _ hcc
    exact reached_up ops cap v0 _ b b' hr
      (chargeCall_up .balanced ops env top cap lin cheap { v0 with bat := b } power b' avg hcc)
  · intro w1 b csId' cs gc isCheap r _ _ hr hloc
    exact reached_up ops cap v0 _ b r.1 hr
      (surplusLocal_up ops env top cap lin isCheap { v0 with bat := b } hv.v2g csId' cs gc r hloc)
  · intro b cs0 gc cheap a power used b' avg hr hcs0 hid hgm hgid hch ha0 hpl hcc
    obtain ⟨hmx, hmn, hpar⟩ := hst cs0 hcs0 hid
    have hcf : cheap = false := by
      have := hdear gc hgm
      rw [this] at hch
      exact (Except.ok.inj hch).symm
    subst hcf
    have hhead : headroom d gid = gc.curMax - gc.currentLoad := by
      unfold headroom
      have : (enter w d).gc? cs0.parent = some gc := hgid
      unfold SWorld.gc? enter at this
      simp only at this
      rw [← hpar, this]
    refine balanced_call_reached ops env top cap lin heps ht v0 hv hvm etd hetd hm
      { cs0 with currentPower := 0 } mx hmx hmn rfl (gc.curMax - gc.currentLoad) a D P hD hP ?_ b power used
      b' avg hr hpl hcc
    unfold fullPower at hfull
    rw [hhead] at hfull
    exact hfull

/-- **balanced over (a prefix of) the standing period, the vehicle served first, power may bind** -/
theorem runLast_balanced_first_gen (ops : BatOps α B) (law : BatLaw ops) (top : α) (cap : B → α)
    (v0 : VehicleS α B) (hv : VehOk ops top v0) (hvm : v0.minChargingPower = 0)
    (csId gid : String) (mx : α) (hcs : v0.cs = some csId) (etd : Int) (hetd : v0.etd = some etd)
    (w0 : SWorld α B) (hst : StationIs w0 csId gid mx) (rest : List String)
    (hsort : sortedVehicleIds w0 = v0.id :: rest) (D P : α) (hD : 0 ≤ D) (hP : 0 ≤ P)
    (ds : List (StepGcs α)) :
    ∀ (env : StratEnv α) (w : SWorld α B) (wl : SWorld α B),
      LinearLoad ops env.tsPerHour top cap → 0 ≤ env.eps → 0 < env.tsPerHour → 0 < env.interval →
      (∀ d ∈ ds, Dear env d ∧ P ≤ fullPower mx (cap v0.bat) d gid * gain ops env.tsPerHour v0.bat) →
      (ds.length : Int) ≤ ceilDiv (etd - env.now) env.interval → Keep w0 w →
      At (Reached ops cap v0 (min (v0.desiredSoc - env.eps)
        (v0.desiredSoc - (D + P * ((ceilDiv (etd - env.now) env.interval : Int) : α))))) v0 w →
      runLast .balanced ops env w ds = .ok wl →
      At (Reached ops cap v0 (min (v0.desiredSoc - env.eps)
        (v0.desiredSoc - (D + P * (((ceilDiv (etd - env.now) env.interval : Int) : α) - (ds.length : α))))))
        v0 wl := by
  induction ds with
  | nil =>
    intro env w wl _ _ _ _ _ _ _ hat h
    unfold runLast at h
    simp only [Except.ok.injEq] at h
    subst h
    simpa using hat
  | cons d ds ih =>
    intro env w wl lin heps ht hI hd hlen hk hat h
    obtain ⟨w', cmds, hs, hr⟩ := runLast_cons .balanced ops env w d ds wl h
    have hm : 0 < ceilDiv (etd - env.now) env.interval := by
      simp only [List.length_cons] at hlen
      omega
    have hat' := ruleStep_balanced_first_gen ops law env top cap lin heps ht v0 hv hvm csId gid mx hcs etd hetd
      w d w' cmds (stationIs_keep w0 w csId gid mx hk hst) rest
      (by rw [keep_sorted w0 w hk]; exact hsort) (hd d (by simp)).1 D P hD hP (hd d (by simp)).2 hm hat hs
    have hk' : Keep w0 w' := ruleStep_keep .balanced ops env w0 (enter w d) w' cmds (keep_enter w0 w d hk) hs
    have htick : ceilDiv (etd - (tick env).now) (tick env).interval
        = ceilDiv (etd - env.now) env.interval - 1 := by
      have : etd - (tick env).now = (etd - env.now) - env.interval := by
        show etd - (env.now + env.interval) = _
        ring
      rw [this]
      exact ceilDiv_tick _ _ hI
    have hcast : ((ceilDiv (etd - (tick env).now) (tick env).interval : Int) : α)
        = ((ceilDiv (etd - env.now) env.interval : Int) : α) - 1 := by
      rw [htick]; push_cast; ring
    have hat'' : At (Reached ops cap v0 (min (v0.desiredSoc - (tick env).eps)
        (v0.desiredSoc - (D + P * ((ceilDiv (etd - (tick env).now) (tick env).interval : Int) : α))))) v0 w' := by
      rw [hcast]; exact hat'
    have hlen' : (ds.length : Int) ≤ ceilDiv (etd - (tick env).now) (tick env).interval := by
      rw [htick]
      simp only [List.length_cons] at hlen
      omega
    have := ih (tick env) w' wl lin heps ht hI
      (fun d' hd' => hd d' (List.mem_cons_of_mem _ hd')) hlen' hk' hat'' hr
    rw [hcast] at this
    have e1 : (tick env).eps = env.eps := rfl
    rw [e1] at this
    have e2 : ((ceilDiv (etd - env.now) env.interval : Int) : α) - 1 - (ds.length : α)
        = ((ceilDiv (etd - env.now) env.interval : Int) : α) - ((d :: ds).length : α) := by
      simp only [List.length_cons]; push_cast; ring
    rw [e2] at this
    exact this

/-! ### any vehicle, the connector headroom never binds -/

/-- **one step, ANY vehicle, the headroom never binds** (`vehicles × M ≤ headroom`, `M` bounds every
station), generic in the rule: our vehicle's own call is made at an idle station, at a price above the
threshold, with a headroom of at least the station's maximum (`hOwn`); all later calls keep `R`. -/
theorem ruleStep_ample (rule : Rule) (ops : BatOps α B) (law : BatLaw ops) (env : StratEnv α) (top : α)
    (cap : B → α) (lin : LinearLoad ops env.tsPerHour top cap)
    (v0 : VehicleS α B) (hv : VehOk ops top v0) (R0 R : B → Prop)
    (hRup : ∀ b b', R b → Up ops cap b b' → R b')
    (csId gid : String) (mx M : α) (hcs : v0.cs = some csId)
    (hOwn : ∀ b cs left a power used b' avg, R0 b → cs.maxPower = mx → cs.minPower = 0 →
      cs.currentPower = 0 → 0 ≤ a → mx ≤ left →
      planPower rule ops env false left a cs { v0 with bat := b } = .ok (power, used) →
      chargeCall rule ops env false { v0 with bat := b } power = .ok (b', avg) → R b')
    (w : SWorld α B) (d : StepGcs α) (w' : SWorld α B) (cmds : List (String × α))
    (hst : StationIs w csId gid mx)
    (hstn : ∀ s ∈ w.stations, 0 ≤ s.maxPower ∧ s.maxPower ≤ M) (hM : 0 ≤ M)
    (hsolo : Solo csId v0.id w) (hdear : Dear env d)
    (hroom : (w.vehicles.length : α) * M ≤ headroom d gid)
    (hat : At R0 v0 w) (h : ruleStep rule ops env (enter w d) = .ok (w', cmds)) : At R v0 w' := by
  obtain ⟨avail, st1, w2, c2, ha, hf, hd, hu⟩ := ruleStep_split rule ops env (enter w d) w' cmds h
  have hav := availBatPower_nonneg ops law (enter w d) avail ha
  have hmem : v0.id ∈ sortedVehicleIds (resetStations (enter w d)) := by
    obtain ⟨b, hb0, _⟩ := hat
    obtain ⟨hm, hid⟩ := vehicle?_some _ _ _ hb0
    unfold sortedVehicleIds
    rw [List.mem_mergeSort]
    exact List.mem_map.mpr ⟨_, hm, hid⟩
  have hlen : (sortedVehicleIds (resetStations (enter w d))).length = w.vehicles.length := by
    unfold sortedVehicleIds
    rw [List.length_mergeSort, List.length_map]; rfl
  obtain ⟨pre, post, hids, hnot⟩ := List.eq_append_cons_of_mem hmem
  rw [hids] at hf hlen
  obtain ⟨stp, hfp, hfx⟩ := foldlM_append_ok (allocVehicle rule ops env) pre (v0.id :: post) _ _ hf
  simp only [List.foldlM_cons, bind, Except.bind] at hfx
  cases hs : allocVehicle rule ops env stp v0.id with
  | error e => simp [hs] at hfx
  | ok sta =>
    simp only [hs] at hfx
    have ht0 : Turn R0 v0 csId gid mx M (headroom d gid) 0 (resetStations (enter w d), [], avail) := by
      refine ⟨at_of_vehicles_eq _ v0 w _ rfl hat, ?_, ?_, ?_, hsolo, ?_, ?_⟩
      · intro s hs
        unfold resetStations enter at hs
        simp only [List.mem_map] at hs
        obtain ⟨s0, hs0, rfl⟩ := hs
        obtain ⟨h0, h1⟩ := hstn s0 hs0
        exact ⟨le_refl _, h0, h1⟩
      · intro s hs _
        unfold resetStations at hs
        simp only [List.mem_map] at hs
        obtain ⟨s0, _, rfl⟩ := hs
        rfl
      · intro g hg
        have hg' : d.find? (·.id == gid) = some g := hg
        unfold headroom
        rw [hg']
        simp
      · exact hav
      · intro s hs hid
        unfold resetStations enter at hs
        simp only [List.mem_map] at hs
        obtain ⟨s0, hs0, rfl⟩ := hs
        exact hst s0 hs0 hid
    have htp := turn_fold rule ops law env _ v0 csId gid mx M (headroom d gid) hM pre 0 _ stp hnot ht0 hfp
    have hmeta : SameMeta (enter w d) stp.1 := allocFold_sameMeta rule ops env pre _ stp hfp
    have hdear' : Dear env stp.1.gcs := dear_of_sameMeta env (enter w d) stp.1 hmeta hdear
    have hata : At R v0 sta.1 := by
      obtain ⟨v, hvv, hc⟩ := allocVehicle_cases rule ops env stp sta v0.id hs
      rcases hc with ⟨hn, _⟩ | ⟨csId', cs, gc, cheap, power, used, bat', avg, hcs', hstt, hgc, hch, hpl, hcc, rfl⟩
      · obtain ⟨b, hb0, hr0⟩ := htp.veh
        rw [hb0] at hvv
        have hvb : v = { v0 with bat := b } := (Option.some.inj hvv).symm
        rw [hvb] at hn; simp only at hn; rw [hcs] at hn; cases hn
      · apply at_write2 _ _ v0 v stp.1 v0.id bat' _ _ hvv _ (fun hx => absurd rfl hx) htp.veh
        intro b _ hvb hr0
        have hcid : csId' = csId := by
          rw [hvb] at hcs'; simp only at hcs'; rw [hcs] at hcs'; exact (Option.some.inj hcs').symm
        subst hcid
        obtain ⟨hcsm, hcsid⟩ := station?_some' _ _ _ hstt
        obtain ⟨hgm, hgid⟩ := gc?_some' _ _ _ hgc
        obtain ⟨hmx, hmn, hpar⟩ := htp.stat cs hcsm hcsid
        have hcur := htp.idle cs hcsm hcsid
        obtain ⟨_, _, hcsM⟩ := htp.stn cs hcsm
        have hcf : cheap = false := by
          have := hdear' gc hgm
          rw [this] at hch
          exact (Except.ok.inj hch).symm
        subst hcf
        have hroom' := htp.room gc (by rw [← hpar]; exact hgc)
        have ha0 : 0 ≤ (sdGet stp.2.2 cs.parent).getD 0 := sdGet_getD_nonneg _ htp.avail _
        rw [hvb] at hpl hcc
        have hpre : ((0 + pre.length : ℕ) : α) + 1 ≤ (w.vehicles.length : α) := by
          have : pre.length + 1 ≤ w.vehicles.length := by
            rw [← hlen]; simp only [List.length_append, List.length_cons]; omega
          have : ((pre.length + 1 : ℕ) : α) ≤ (w.vehicles.length : α) := by exact_mod_cast this
          push_cast at this ⊢
          linarith
        have hbig : mx ≤ gc.curMax - gc.currentLoad := by
          have h1 : ((0 + pre.length : ℕ) : α) * M + M ≤ (w.vehicles.length : α) * M := by
            have := mul_le_mul_of_nonneg_right hpre hM
            linarith
          rw [← hmx]
          linarith
        exact hOwn b cs _ _ power used bat' avg hr0 hmx hmn hcur ha0 hbig hpl hcc
    have hat1 := (allocFold_at rule ops env (fun _ => True) _ v0 (fun _ _ _ _ _ => trivial)
      (fun w1 b cs gc cheap a power used b' avg _ _ hr _ _ hcc =>
        hRup b b' hr (chargeCall_up rule ops env top cap lin cheap { v0 with bat := b } power b' avg hcc))
      post sta st1 trivial hata hfx).2
    have hat2 := distributeSurplus_at ops env (fun _ => True) _ v0 (fun _ _ _ _ _ _ => trivial)
      (fun w1 b csId' cs gc isCheap r _ _ hr hloc =>
        hRup b r.1 hr
          (surplusLocal_up ops env top cap lin isCheap { v0 with bat := b } hv.v2g csId' cs gc r hloc))
      st1.1 w2 c2 trivial hat1 hd
    exact at_of_vehicles_eq _ v0 w2 w' (updateBatteries_vehicles ops env w2 w' hu) hat2

/-- **balanced, one step, any vehicle, the connector headroom never binds** (station and curve may) -/
theorem ruleStep_balanced_ample (ops : BatOps α B) (law : BatLaw ops) (env : StratEnv α) (top : α)
    (cap : B → α) (lin : LinearLoad ops env.tsPerHour top cap) (heps : 0 ≤ env.eps)
    (ht : 0 < env.tsPerHour) (v0 : VehicleS α B) (hv : VehOk ops top v0) (hvm : v0.minChargingPower = 0)
    (csId gid : String) (mx M : α) (hcs : v0.cs = some csId) (etd : Int) (hetd : v0.etd = some etd)
    (w : SWorld α B) (d : StepGcs α) (w' : SWorld α B) (cmds : List (String × α))
    (hst : StationIs w csId gid mx)
    (hstn : ∀ s ∈ w.stations, 0 ≤ s.maxPower ∧ s.maxPower ≤ M) (hM : 0 ≤ M)
    (hsolo : Solo csId v0.id w) (hdear : Dear env d)
    (hroom : (w.vehicles.length : α) * M ≤ headroom d gid)
    (D P : α) (hD : 0 ≤ D) (hP : 0 ≤ P)
    (hfull : P ≤ max (min mx (cap v0.bat)) 0 * gain ops env.tsPerHour v0.bat)
    (hm : 0 < ceilDiv (etd - env.now) env.interval)
    (hat : At (Reached ops cap v0 (min (v0.desiredSoc - env.eps)
      (v0.desiredSoc - (D + P * ((ceilDiv (etd - env.now) env.interval : Int) : α))))) v0 w)
    (h : ruleStep .balanced ops env (enter w d) = .ok (w', cmds)) :
    At (Reached ops cap v0 (min (v0.desiredSoc - env.eps)
      (v0.desiredSoc - (D + P * (((ceilDiv (etd - env.now) env.interval : Int) : α) - 1))))) v0 w' := by
  refine ruleStep_ample .balanced ops law env top cap lin v0 hv _ _
    (fun b b' hr hu => reached_up ops cap v0 _ b b' hr hu) csId gid mx M hcs ?_ w d w' cmds hst hstn hM
    hsolo hdear hroom hat h
  intro b cs left a power used b' avg hr hmx hmn hcur _ hbig hpl hcc
  refine balanced_call_reached ops env top cap lin heps ht v0 hv hvm etd hetd hm cs mx hmx hmn hcur left a
    D P hD hP ?_ b power used b' avg hr hpl hcc
  rw [min_eq_right hbig]
  exact hfull

/-- **balanced over (a prefix of) the standing period, any vehicle, the connector headroom never binds** -/
theorem runLast_balanced_ample (ops : BatOps α B) (law : BatLaw ops) (top : α) (cap : B → α)
    (v0 : VehicleS α B) (hv : VehOk ops top v0) (hvm : v0.minChargingPower = 0)
    (csId gid : String) (mx M : α) (hM : 0 ≤ M) (hcs : v0.cs = some csId)
    (etd : Int) (hetd : v0.etd = some etd) (w0 : SWorld α B)
    (hst : StationIs w0 csId gid mx) (hstn : ∀ s ∈ w0.stations, 0 ≤ s.maxPower ∧ s.maxPower ≤ M)
    (D P : α) (hD : 0 ≤ D) (hP : 0 ≤ P) (ds : List (StepGcs α)) :
    ∀ (env : StratEnv α) (w : SWorld α B) (wl : SWorld α B),
      LinearLoad ops env.tsPerHour top cap → 0 ≤ env.eps → 0 < env.tsPerHour → 0 < env.interval →
      P ≤ max (min mx (cap v0.bat)) 0 * gain ops env.tsPerHour v0.bat →
      (∀ d ∈ ds, Dear env d ∧ (w0.vehicles.length : α) * M ≤ headroom d gid) →
      (ds.length : Int) ≤ ceilDiv (etd - env.now) env.interval → Keep w0 w → Solo csId v0.id w →
      At (Reached ops cap v0 (min (v0.desiredSoc - env.eps)
        (v0.desiredSoc - (D + P * ((ceilDiv (etd - env.now) env.interval : Int) : α))))) v0 w →
      runLast .balanced ops env w ds = .ok wl →
      At (Reached ops cap v0 (min (v0.desiredSoc - env.eps)
        (v0.desiredSoc - (D + P * (((ceilDiv (etd - env.now) env.interval : Int) : α) - (ds.length : α))))))
        v0 wl := by
  induction ds with
  | nil =>
    intro env w wl _ _ _ _ _ _ _ _ _ hat h
    unfold runLast at h
    simp only [Except.ok.injEq] at h
    subst h
    simpa using hat
  | cons d ds ih =>
    intro env w wl lin heps ht hI hfull hd hlen hk hsolo hat h
    obtain ⟨w', cmds, hs, hr⟩ := runLast_cons .balanced ops env w d ds wl h
    have hm : 0 < ceilDiv (etd - env.now) env.interval := by
      simp only [List.length_cons] at hlen
      omega
    have hlenv : w.vehicles.length = w0.vehicles.length := by
      have := congrArg List.length hk.ids
      simpa using this
    have hstn' : ∀ s ∈ w.stations, 0 ≤ s.maxPower ∧ s.maxPower ≤ M := by
      intro s hs
      obtain ⟨s0, hs0, _, e2, _, _⟩ := hk.stations s hs
      rw [e2]; exact hstn s0 hs0
    have hat' := ruleStep_balanced_ample ops law env top cap lin heps ht v0 hv hvm csId gid mx M hcs etd hetd
      w d w' cmds (stationIs_keep w0 w csId gid mx hk hst) hstn' hM hsolo (hd d (by simp)).1
      (by rw [hlenv]; exact (hd d (by simp)).2) D P hD hP hfull hm hat hs
    have hk' : Keep w0 w' := ruleStep_keep .balanced ops env w0 (enter w d) w' cmds (keep_enter w0 w d hk) hs
    have hsolo' : Solo csId v0.id w' := ruleStep_solo .balanced ops env csId v0.id (enter w d) w' cmds hsolo hs
    have htick : ceilDiv (etd - (tick env).now) (tick env).interval
        = ceilDiv (etd - env.now) env.interval - 1 := by
      have : etd - (tick env).now = (etd - env.now) - env.interval := by
        show etd - (env.now + env.interval) = _
        ring
      rw [this]
      exact ceilDiv_tick _ _ hI
    have hcast : ((ceilDiv (etd - (tick env).now) (tick env).interval : Int) : α)
        = ((ceilDiv (etd - env.now) env.interval : Int) : α) - 1 := by
      rw [htick]; push_cast; ring
    have hat'' : At (Reached ops cap v0 (min (v0.desiredSoc - (tick env).eps)
        (v0.desiredSoc - (D + P * ((ceilDiv (etd - (tick env).now) (tick env).interval : Int) : α))))) v0 w' := by
      rw [hcast]; exact hat'
    have hlen' : (ds.length : Int) ≤ ceilDiv (etd - (tick env).now) (tick env).interval := by
      rw [htick]
      simp only [List.length_cons] at hlen
      omega
    have := ih (tick env) w' wl lin heps ht hI hfull
      (fun d' hd' => hd d' (List.mem_cons_of_mem _ hd')) hlen' hk' hsolo' hat'' hr
    rw [hcast] at this
    have e1 : (tick env).eps = env.eps := rfl
    rw [e1] at this
    have e2 : ((ceilDiv (etd - env.now) env.interval : Int) : α) - 1 - (ds.length : α)
        = ((ceilDiv (etd - env.now) env.interval : Int) : α) - ((d :: ds).length : α) := by
      simp only [List.length_cons]; push_cast; ring
    rw [e2] at this
    exact this

end SpiceEv.StratRun
