/-
C04 (grid-connector power limit) for the charging strategy `schedule`
(spice_ev/strategies/schedule.py, model: Model/StratSchedule.lean).
-/
import SpiceEv.Proofs.StratSchedule
set_option linter.unusedSectionVars false
namespace SpiceEv
open SpiceEv.Sched
variable {α B : Type} [Field α] [LinearOrder α] [IsStrictOrderedRing α]

/-- **schedule (individual) never breaks the connector limit, in either direction.**
For any battery obeying `Sched.Law` (0 ≤ average power ≤ requested power — C01/C02), any number of
connectors, stations, vehicles and stationary batteries, any future events, schedules and targets:
if before the strategy step every connector's load (fixed load − generation) is within
`± cur_max_power`, then after the whole `Schedule.step` in the `individual` sub-strategy
(`charge_individually` with its look-ahead and additional power, then
`utilize_stationary_batteries`) it still is.  No well-formedness hypothesis is needed. -/
theorem C04_schedule_individual_limit (ops : Ops α B) (law : Law ops) (env : Env α)
    (heps : 0 ≤ env.eps) (hc : env.collective = false) (w w' : SWorld α B) (st st' : CState α)
    (cmds : List (String × α))
    (h0 : ∀ g ∈ w.gcs, -g.curMax ≤ g.currentLoad ∧ g.currentLoad ≤ g.curMax)
    (h : step ops env w st = .ok (w', st', cmds)) :
    ∀ g ∈ w'.gcs, -g.curMax ≤ g.currentLoad ∧ g.currentLoad ≤ g.curMax := by
  obtain ⟨w1, h1, h2, _⟩ := step_individual_ok ops env hc w w' st st' cmds h
  have hw0 : Within (resetStations w) := by intro g hg; exact h0 g (by simpa using hg)
  have hw1 := chargeIndividually_within ops law env _ w1 cmds hw0 h1
  exact utilizeBatteries_within ops law env heps w1 w' hw1 h2

/-- Non-vacuity: the example world satisfies the hypothesis, the step succeeds, the vehicle gets
3 kW schedule + 3 kW additional power found by the bisection (the connector is driven to its limit
of 10 kW up to the bisection's tolerance) and the stationary battery then brings the connector back to its 6 kW target. -/
example :
    (∀ g ∈ exWorld.gcs, -g.curMax ≤ g.currentLoad ∧ g.currentLoad ≤ g.curMax) ∧
    (match step toyOps exEnv exWorld exState with
     | .ok r => r.2.2.map (·.1) == ["CS1"] && r.2.2.all (fun kv => decide (kv.2 ≤ 6 ∧ 6 - 1/1000 ≤ kv.2)) &&
         r.1.gcs.all (fun g => decide (g.currentLoad ≤ 6 + 1/1000 ∧ 6 - 1/1000 ≤ g.currentLoad))
     | .error _ => false) = true := by
  refine ⟨?_, by decide +kernel⟩
  intro g hg
  simp only [exWorld, List.mem_singleton] at hg
  subst hg
  simp only [GcS.currentLoad, List.foldl]
  norm_num

/-- **schedule (collective) never breaks the connector limit outside the core standing time.**
For any battery obeying `Sched.Law`, any world: when the current time is outside the core standing
time, `Schedule.step` in the `collective` sub-strategy — `charge_vehicles` (surplus from local
generation only), `charge_vehicles_after_core_standing_time` if `overcharge_necessary` is set
(balanced charging off schedule; every vehicle is offered at most `cur_max_power − current load`),
then `utilize_stationary_batteries` — keeps every connector within `± cur_max_power`. -/
theorem C04_schedule_collective_outside_core (ops : Ops α B) (law : Law ops) (env : Env α)
    (heps : 0 ≤ env.eps) (hc : env.collective = true)
    (hout : dtWithinCoreStandingTime env.now env.cst = .ok false)
    (w w' : SWorld α B) (st st' : CState α) (cmds : List (String × α))
    (h0 : ∀ g ∈ w.gcs, -g.curMax ≤ g.currentLoad ∧ g.currentLoad ≤ g.curMax)
    (h : step ops env w st = .ok (w', st', cmds)) :
    ∀ g ∈ w'.gcs, -g.curMax ≤ g.currentLoad ∧ g.currentLoad ≤ g.curMax :=
  step_collective_outside_within ops law env heps hc hout w w' st st' cmds h0 h

/-- **schedule (collective) inside the core standing time — partial (repaired code: fixes/SCH2.diff,
fixes/SCH3.diff).**  For any battery obeying `Sched.Law`, a world with one connector (asserted by the
class for this sub-strategy) in which no vehicle is V2G-capable: `Schedule.step` inside the core
standing time — with or without the evaluation at its first step, excess branch or on-schedule branch
with its retry loop, whatever target, schedule and battery reserve — keeps the connector within
`± cur_max_power`.  The hypotheses of the earlier version that the repairs make unnecessary are gone:
"(1) the on-schedule branch is taken" (SCH2: the excess branch now searches below the connector
headroom) and "(2) target + battery reserve ≤ limit" (SCH3: the power handed out on schedule is
`min(target − load + battery support, cur_max_power − load)`).
Still excluded, exactly: V2G-capable vehicles — in a discharge window the V2G pass lets a vehicle feed
in up to `|target − load|`, which is not compared with `−cur_max_power` (feed-in direction only, see
`C04_schedule_collective_core_draw_partial` for the draw direction). -/
theorem C04_schedule_collective_core_partial (ops : Ops α B) (law : Law ops) (env : Env α)
    (heps : 0 ≤ env.eps) (hc : env.collective = true)
    (hin : dtWithinCoreStandingTime env.now env.cst = .ok true)
    (w w' : SWorld α B) (st st' : CState α) (cmds : List (String × α)) (g0 : GcS α)
    (hg : w.gcs = [g0]) (hn : ∀ v ∈ w.vehicles, v.v2g = false)
    (h0 : ∀ g ∈ w.gcs, -g.curMax ≤ g.currentLoad ∧ g.currentLoad ≤ g.curMax)
    (h : step ops env w st = .ok (w', st', cmds)) :
    ∀ g ∈ w'.gcs, -g.curMax ≤ g.currentLoad ∧ g.currentLoad ≤ g.curMax :=
  (step_collective_core ops law env heps hc hin true w w' st st' cmds g0 hg (fun _ => hn) h0 h).2 rfl

/-- **schedule (collective) inside the core standing time, draw direction, V2G allowed — partial
(repaired code).**  One connector, nothing else assumed: with any vehicles (V2G-capable or not), any
branch, any target and battery reserve, the connector's load does not exceed `cur_max_power` after the
step (the V2G pass charges at most `min(target, cur_max_power) − load` and its discharge only lowers
the load).  Together with `C04_schedule_individual_limit` and `C04_schedule_collective_outside_core`:
on the repaired code `schedule` never exceeds the connector limit in the draw direction.
Still excluded, exactly: the feed-in bound `−cur_max_power ≤ load` inside the core standing time when a
V2G-capable vehicle is present. -/
theorem C04_schedule_collective_core_draw_partial (ops : Ops α B) (law : Law ops) (env : Env α)
    (heps : 0 ≤ env.eps) (hc : env.collective = true)
    (hin : dtWithinCoreStandingTime env.now env.cst = .ok true)
    (w w' : SWorld α B) (st st' : CState α) (cmds : List (String × α)) (g0 : GcS α)
    (hg : w.gcs = [g0])
    (h0 : ∀ g ∈ w.gcs, -g.curMax ≤ g.currentLoad ∧ g.currentLoad ≤ g.curMax)
    (h : step ops env w st = .ok (w', st', cmds)) :
    ∀ g ∈ w'.gcs, g.currentLoad ≤ g.curMax :=
  (step_collective_core ops law env heps hc hin false w w' st st' cmds g0 hg (fun hb => by cases hb) h0 h).1

/-- Non-vacuity with a V2G vehicle: target 6 kW, a V2G-capable vehicle above its desired SoC in a
charge window; the V2G pass runs (the vehicle is charged towards the target) and the connector ends
at most at its 10 kW limit, above its 4 kW fixed load. -/
example :
    (match step toyOps (exEnvC 6) exWorldV2G ⟨true, false, [2, 2], [true, true], 4, [("v1", 0)], [("v1", 0)], 0⟩ with
     | .ok r => r.1.gcs.all (fun g => decide (g.currentLoad ≤ g.curMax ∧ 4 < g.currentLoad)) &&
                r.1.vehicles.any (·.v2g)
     | .error _ => false) = true := by decide +kernel

/-- Non-vacuity, on-schedule branch: target 6 kW ≤ limit 10 kW, 2 kW allotted (6 − 4 kW fixed load);
the step succeeds and the connector ends at its 6 kW target. -/
example :
    (match step toyOps (exEnvC 6) exWorldC ⟨true, false, [2, 2], [true, true], 4, [("v1", 12)], [("v1", 0)], 0⟩ with
     | .ok r => r.1.gcs.all (fun g => decide (g.currentLoad ≤ 6 ∧ 6 - 1/1000 ≤ g.currentLoad))
     | .error _ => false) = true := by decide +kernel

/-- **Former witness, excess branch (mechanism A), now within the limit.**  Fixed load 4 kW on a 10 kW
connector, target 4 kW, nothing allotted to the first hour, the vehicle is expected to fall short by
0.3 SoC: before SCH2 the step ended at about 15 kW; the repaired excess branch charges the vehicle with
the connector headroom of 6 kW and the connector ends at its 10 kW limit (above its 4 kW base load, so
the branch did charge). -/
example :
    (∀ g ∈ exWorldC.gcs, -g.curMax ≤ g.currentLoad ∧ g.currentLoad ≤ g.curMax) ∧
    (match step toyOps (exEnvC 4) exWorldC exStateExcess with
     | .ok r => r.1.gcs.all (fun g => decide (g.currentLoad ≤ g.curMax ∧ g.curMax - 1/100 < g.currentLoad))
     | .error _ => false) = true := by
  refine ⟨?_, by decide +kernel⟩
  intro g hg
  simp only [exWorldC, exWorld, List.mem_singleton] at hg
  subst hg
  simp only [GcS.currentLoad, List.foldl]
  norm_num

/-- **Former witness, target above the limit (mechanism B), now within the limit.**  Same world with a
scheduled target of 12 kW on the 10 kW connector: before SCH3 the vehicle was given the 8 kW up to the
target (12 kW on the connector); now it is given the 6 kW headroom and the connector ends at 10 kW. -/
example :
    (match step toyOps (exEnvC 12) exWorldC exStateTarget with
     | .ok r => r.1.gcs.all (fun g => decide (g.currentLoad ≤ g.curMax ∧ g.curMax - 1/100 < g.currentLoad))
     | .error _ => false) = true := by decide +kernel

end SpiceEv
