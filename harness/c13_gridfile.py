"""C13, grid situation file: TEXT handling of `util.read_grid_file` and `util.sanitize` (exact stream).

Cases of kind "gridtext" carry the text of a file.  `eval_case` writes it (newline='' so that the bytes are
the text), calls the REAL `util.read_grid_file`, renders `residual_load`, `curtailment`, `grid_start_time`
(or the exception kind) in the driver's format and evaluates an independent oracle on the real outputs; the
model line is `gridfile <hex of the text>` (lean/SpiceEv/Model/GridFile.lean: line splitting, the `_csv`
character state machine, DictReader, `float()`, `strptime`, the row loop).  Kinds "gridfloat" / "gridtime" tie
the two text parsers alone on many more strings, kind "sanitize" ties `util.sanitize`.

Comparison: a numeric entry of the model is an exact rational `q n/d`; the implementation's double must be the
correctly rounded value of it (`float(Fraction)`), `nan` / `inf` / `-inf` as tokens, times as microseconds
since ordinal 0, exceptions by kind.
"""
import datetime as dt
import math
import os
import random
import tempfile
import warnings
from fractions import Fraction

import sys

import engine

engine.use_repo()
if hasattr(sys, "set_int_max_str_digits"):
    # "9e99999" is a valid float text (inf in CPython); the model answers with the exact integer 9·10^99999
    sys.set_int_max_str_digits(0)

US_DAY = 86400 * 1000000
KINDS = ("gridtext", "gridfloat", "gridtime", "sanitize")


def hexs(s):
    return "-" if s == "" else "".join("%02x" % ord(c) for c in s)


def r_float(x):
    if isinstance(x, int) and not isinstance(x, bool):
        return "q%d" % x
    if math.isnan(x):
        return "nan"
    if math.isinf(x):
        return "inf" if x > 0 else "-inf"
    fr = Fraction(x)
    return "q%d" % fr.numerator if fr.denominator == 1 else "q%d/%d" % (fr.numerator, fr.denominator)


def r_time(t):
    if t is None:
        return "N"
    return "S %d" % (t.toordinal() * US_DAY + ((t.hour * 60 + t.minute) * 60 + t.second) * 1000000 + t.microsecond)


def lst(xs, fn):
    xs = list(xs)
    return " ".join([str(len(xs))] + [fn(x) for x in xs])


# ------------------------------------------------------------------------------------------ generator

NUM_OK = ["0", "1", "-1", "+2.5", "3.", ".5", "-.25", "1e3", "1E-2", "+1.5e+2", "1_000", "1_0.2_5", "1e1_0",
          " 7", "7 ", "\t8.25\t", "0.1", "0.30000000000000004", "123456789.123456789", "1e-320", "2.5e300",
          "-0", "-0.0", "00012", "9007199254740993", "1e22", "1e23", "4.35", "0.0005", "\x1f5", "5\x0c"]
NUM_SPECIAL = ["nan", "NaN", "-nan", "inf", "-inf", "+Infinity", "INFINITY", " inf "]
NUM_BAD = ["", " ", "abc", "1,5", "1.2.3", "0x10", "1_", "_1", "1__0", "1_.5", "1._5", "1e", "1e+", "e5", ".",
           "+", "-", "1 2", "--1", "1e1.5", "infinit", "na", "1f", "None", "1e_1", "1_e1", "12a", "+-1"]
TIME_OK = ["2020-01-01 00:00", "2021-12-31 23:59", "2020-1-5 7:3", "2020-02-29 12:30", "0999-06-15 01:05",
           "2020-10-10  10:10", "2020-01-01\t05:00", "2020-1-15 15:5", "2020-01- 5 00:00", "9999-12-31 23:59",
           "2000-02-29 0:00", "0001-01-01 00:00", "2020-11-30 9:09", "2020-01-01\x1f05:00", "2020-01-01 \n\x1c 05:00"]
TIME_BAD = ["", "2020-01-01", "2020-01-01 00:00:00", "2020.01.01 00:00", "20-01-01 00:00", "2020-13-01 00:00",
            "2020-00-10 00:00", "2020-02-30 00:00", "2021-02-29 00:00", "1900-02-29 00:00", "0000-01-01 00:00",
            "2020-01-32 00:00", "2020-01-01 24:00", "2020-01-01 12:60", "2020-01-01T00:00", " 2020-01-01 00:00",
            "2020-01-01 00:00 ", "2020-01-0100:00", "2020-01-01 7:305", "2020-04-31 10:00", "abcd-01-01 00:00",
            "2020-1-1 1", "2020-06-31 00:00", "2020-01-00 00:00", "12020-01-01 00:00"]


def rand_num(rnd):
    c = rnd.random()
    if c < 0.35:
        return rnd.choice(NUM_OK)
    if c < 0.45:
        return rnd.choice(NUM_SPECIAL)
    if c < 0.65:
        return rnd.choice(NUM_BAD)
    if c < 0.8:
        return repr(round(rnd.uniform(-500, 500), rnd.randint(0, 6)))
    if c < 0.9:
        return "%s%de%d" % (rnd.choice(["", "-", "+"]), rnd.randint(0, 99999), rnd.randint(-30, 30))
    # random soup from the float alphabet
    return "".join(rnd.choice("0123456789.eE+-_ ") for _ in range(rnd.randint(1, 7)))


def rand_time(rnd):
    c = rnd.random()
    if c < 0.3:
        return rnd.choice(TIME_OK)
    if c < 0.6:
        return rnd.choice(TIME_BAD)
    if c < 0.85:
        y, m, d = rnd.choice([1999, 2000, 2020, 2023, 2100, 1, 400]), rnd.randint(1, 12), rnd.randint(1, 31)
        h, mi = rnd.randint(0, 24), rnd.randint(0, 60)
        fmt = rnd.choice(["%04d-%02d-%02d %02d:%02d", "%04d-%d-%d %d:%d", "%04d-%02d-%2d %02d:%02d",
                          "%d-%02d-%02d %02d:%02d"])
        return fmt % (y, m, d, h, mi)
    return "".join(rnd.choice("0123456789-: ") for _ in range(rnd.randint(8, 17)))


def quote(rnd, cell, force=False):
    """csv-quote a cell the way a spreadsheet would (only sometimes when not needed)"""
    if force or any(ch in cell for ch in ',"\n\r') or rnd.random() < 0.08:
        return '"' + cell.replace('"', '""') + '"'
    return cell


def gen_file(rnd):
    """(text, tags) — structured, mostly valid, boundary constructs on purpose"""
    tags = []
    cols = ["residual load", "curtailment"]
    if rnd.random() < 0.6:
        cols.insert(rnd.randint(0, 2), "timestamp")
        tags.append("timestamp")
    if rnd.random() < 0.25:
        cols.insert(rnd.randint(0, len(cols)), rnd.choice(["extra", "note", "Residual load", " residual load", ""]))
        tags.append("extra_column")
    rnd.shuffle(cols) if rnd.random() < 0.3 else None
    n = rnd.choice([0, 1, 1, 2, 3, 5, 8, 13])
    sign = rnd.choice([1, 1, -1, 0])          # consistent curtailment sign (0: both -> assertion possible)
    nl = rnd.choice(["\n", "\n", "\r\n", "\r"])
    bad = rnd.random()
    header = list(cols)
    if bad < 0.04:
        header = [c for c in header if c != "residual load"]
        tags.append("no_residual")
    elif bad < 0.08:
        header = [c for c in header if c != "curtailment"]
        tags.append("no_curtailment")
    elif bad < 0.11:
        header.append(rnd.choice(["curtailment", "residual load", "timestamp"]))
        tags.append("duplicate_header")
    elif bad < 0.13:
        header = [" " + c for c in header]
        tags.append("padded_header")
    t0 = dt.datetime(2020, rnd.randint(1, 12), rnd.randint(1, 28), rnd.randint(0, 23), rnd.choice([0, 15, 30, 45]))
    rows = []
    for i in range(n):
        cells = []
        for c in header:
            if c.strip() == "timestamp":
                if i == 0 and rnd.random() < 0.35:
                    cells.append(rand_time(rnd))
                else:
                    cells.append((t0 + dt.timedelta(minutes=15 * i)).strftime(
                        rnd.choice(["%Y-%m-%d %H:%M", "%Y-%m-%d %H:%M", "%Y-%m-%d %H:%M:%S"])))
            elif c.strip().lower() == "residual load":
                cells.append(rand_num(rnd) if rnd.random() < 0.3 else repr(round(rnd.uniform(-300, 300), 3)))
            elif c.strip() == "curtailment":
                if rnd.random() < 0.25:
                    cells.append(rand_num(rnd))
                else:
                    v = round(rnd.uniform(0, 50), 2) * (sign if sign else rnd.choice([1, -1]))
                    cells.append(repr(v) if rnd.random() < 0.8 else "0")
            else:
                cells.append(rnd.choice(["", "x", "a,b", 'say "hi"', "line\nbreak", "1"]))
        r = rnd.random()
        if r < 0.04 and cells:
            cells = cells[:rnd.randint(0, len(cells) - 1)]
            tags.append("short_row")
        elif r < 0.08:
            cells = cells + [rnd.choice(["", "9", "z"])]
            tags.append("long_row")
        rows.append(cells)
        if rnd.random() < 0.05:
            rows.append(None)                 # empty line in between
            tags.append("empty_line")
    lines = [",".join(quote(rnd, c) for c in header)]
    for r in rows:
        lines.append("" if r is None else ",".join(quote(rnd, c) for c in r))
    text = nl.join(lines)
    e = rnd.random()
    if e < 0.6:
        text += nl
    elif e < 0.65:
        text += nl + nl
    if rnd.random() < 0.03:
        text = text.rstrip("\r\n") + ',"unterminated'
        tags.append("open_quote_at_eof")
    if rnd.random() < 0.02:
        text = nl + text
        tags.append("leading_empty_line")
    if rnd.random() < 0.02:
        text = ""
        tags.append("empty_file")
    if n == 0:
        tags.append("no_data_rows")
    return text, tags


DIRECTED = [
    "", "\n", "residual load,curtailment", "residual load,curtailment\n", "residual load,curtailment\n\n\n",
    "residual load,curtailment\n1,2\n", "curtailment,residual load\n1,2\n", "residual load,curtailment\n1,2",
    "residual load,curtailment\r\n1,2\r\n3,4\r\n", "residual load,curtailment\r1,2\r3,4",
    "residual load,curtailment\nx,y\n1,2\nz,w\n", "residual load,curtailment\n1,-2\n3,4\n",
    "residual load,curtailment\n1,-2\n3,0\n5,-0.0\n", "residual load,curtailment\n1,nan\n2,-1\n3,1\n",
    "residual load,curtailment\n1,inf\n2,-inf\n", "residual load,curtailment\n1\n", "residual load,curtailment\n1,2,3\n",
    "timestamp,residual load,curtailment\n2020-01-01 00:00,1,2\n", "timestamp,residual load,curtailment\nxx,1,2\n",
    "timestamp,residual load,curtailment\n2020-01-01 00:00\n", "timestamp,residual load\n2020-01-01 00:00,1\n",
    "residual load,curtailment,timestamp\n1,2\n", "residual load,curtailment,residual load\n1,2,x\n4,5,6\n",
    'residual load,curtailment\n"1","2"\n"3,5",4\n', 'residual load,curtailment\n"1""2",3\n',
    'residual load,curtailment\n"1\n2",3\n4,5\n', 'residual load,curtailment\n1"2,3\n', 'residual load,curtailment\n"1"2,3\n',
    '"residual load","curtailment"\n1,2\n', 'residual load,curtailment\n1,"2', 'residual load,curtailment\n1,"',
    " residual load,curtailment\n1,2\n", "residual load ,curtailment\n1,2\n", "Residual Load,curtailment\n1,2\n",
    "\nresidual load,curtailment\n1,2\n", "residual load,curtailment\n,\n1,2\n", "residual load,curtailment\n ,1\n",
    "residual load,curtailment\n1_0,1e2\n", "timestamp,residual load,curtailment\n2020-02-30 00:00,1,2\n",
    "timestamp,residual load,curtailment\n2020-1-5 7:3,1,2\n2020-99-99 00:00,3,4\n",
    "residual load,curtailment\n\r\n1,2\n", "residual load,curtailment\n1,2\n\n\n3,4\n",
]


def gen_cases(tier, seed):
    rnd = random.Random(seed * 104729 + 31)
    quick = tier == "quick"
    for t in DIRECTED:
        yield {"k": "gridtext", "text": t, "tags": ["directed"]}
    for _ in range(700 if quick else 12000):
        text, tags = gen_file(rnd)
        yield {"k": "gridtext", "text": text, "tags": tags}
    for i in range(6 if quick else 60):
        yield {"k": "gridfloat", "texts": (NUM_OK + NUM_SPECIAL + NUM_BAD if i == 0 else
                                           [rand_num(rnd) for _ in range(80)])}
        yield {"k": "gridtime", "texts": (TIME_OK + TIME_BAD if i == 0 else [rand_time(rnd) for _ in range(80)])}
    alphabet = 'ab GC_1</|\\>:"?*.-'
    for i in range(4 if quick else 40):
        items = []
        for _ in range(40):
            s = "".join(rnd.choice(alphabet) for _ in range(rnd.randint(0, 12)))
            chars = "" if rnd.random() < 0.6 else "".join(rnd.choice(alphabet) for _ in range(rnd.randint(1, 4)))
            items.append([s, chars])
        yield {"k": "sanitize", "items": items}


# ------------------------------------------------------------------------------------------ evaluation

def err_name(e):
    return "!" + type(e).__name__


def ascii_ok(s):
    return all(ord(c) < 128 and c != "\x00" for c in s)


def real_read(text):
    from spice_ev import util
    with tempfile.TemporaryDirectory(prefix="c13g_") as d:
        p = os.path.join(d, "grid.csv")
        with open(p, "w", newline="") as f:
            f.write(text)
        with warnings.catch_warnings():
            warnings.simplefilter("ignore")
            return util.read_grid_file(p)


def oracle_rows(text):
    """independent reading of the file: Python's own csv module on the text, no DictReader"""
    import csv
    import io
    recs = list(csv.reader(io.StringIO(text, newline="")))
    if not recs:
        return None, []
    return recs[0], [r for r in recs[1:] if r]


def eval_gridtext(case):
    text = case["text"]
    viol, stats = [], ["tag_" + t for t in set(case.get("tags", []))]
    if not ascii_ok(text):
        return {"lines": [], "impl": [], "violations": [], "nontrivial": False, "stats": ["non_ascii_skipped"]}
    try:
        res, cur, t0 = real_read(text)
        out = "R %s | C %s | T %s" % (lst(res, r_float), lst(cur, r_float), r_time(t0))
        stats.append("ok")
    except Exception as e:
        out = err_name(e)
        res = cur = None
        stats.append("raises_" + type(e).__name__)
    # oracle on the real outputs (property: the generator reads the grid file row by row)
    if res is not None:
        names, rows = oracle_rows(text)
        if len(res) != len(rows) or len(cur) != len(rows):
            viol.append(("grid_rows", "C13:gridfile_row_count", "%d/%d values for %d data rows" % (
                len(res), len(cur), len(rows))))
        else:
            def cell(row, name):
                idx = [i for i, n in enumerate(names) if n == name]
                return row[idx[-1]] if idx and idx[-1] < len(row) else None

            def num(tx):
                try:
                    return float(tx)
                except (ValueError, TypeError):
                    return None
            for i, row in enumerate(rows):
                a, b = num(cell(row, "residual load")), num(cell(row, "curtailment"))
                want_r = a if a is not None else (res[i - 1] if i else 0)
                want_c = abs(b) if b is not None else (cur[i - 1] if i else 0)
                for nm, got, want in (("residual", res[i], want_r), ("curtailment", cur[i], want_c)):
                    same = (got == want) or (isinstance(got, float) and isinstance(want, float)
                                             and math.isnan(got) and math.isnan(want))
                    if not same:
                        viol.append(("grid_values", "C13:gridfile_value:" + nm,
                                     "row %d: %r returned for cell %r" % (i, got, cell(row, nm))))
            if any(c < 0 for c in cur if not (isinstance(c, float) and math.isnan(c))):
                viol.append(("grid_values", "C13:gridfile_negative_curtailment", "abs() missing"))
            signs = [num(cell(row, "curtailment")) for row in rows]
            if any(b is not None and b < 0 for b in signs) and any(b is not None and b > 0 for b in signs):
                viol.append(("grid_values", "C13:gridfile_mixed_signs_accepted",
                             "curtailment column has both signs and the file was accepted"))
            ts = cell(rows[0], "timestamp") if rows else None
            want_t = None
            if ts is not None:
                try:
                    want_t = dt.datetime.strptime(ts, "%Y-%m-%d %H:%M")
                except ValueError:
                    want_t = None
            if want_t != t0:
                viol.append(("grid_time", "C13:gridfile_start_time", "%r for first timestamp %r" % (t0, ts)))
    return {"lines": ["gridfile " + hexs(text)], "impl": [out], "violations": viol,
            "nontrivial": res is not None and len(res) > 0, "stats": stats}


def eval_texts(case):
    lines, impl, stats = [], [], []
    for t in case["texts"]:
        if not ascii_ok(t):
            continue
        if case["k"] == "gridfloat":
            try:
                out = r_float(float(t))
                stats.append("float_ok")
            except ValueError:
                out = "!ValueError"
                stats.append("float_ValueError")
            lines.append("gridfloat " + hexs(t))
        else:
            try:
                out = r_time(dt.datetime.strptime(t, "%Y-%m-%d %H:%M")).split(" ")[1]
                stats.append("time_ok")
            except ValueError:
                out = "!ValueError"
                stats.append("time_ValueError")
            lines.append("gridtime " + hexs(t))
        impl.append(out)
    return {"lines": lines, "impl": impl, "violations": [], "nontrivial": True, "stats": sorted(set(stats))}


def eval_sanitize(case):
    from spice_ev import util
    lines, impl, viol = [], [], []
    for s, chars in case["items"]:
        out = util.sanitize(s, chars) if chars else util.sanitize(s)
        lines.append("grid_sanitize %s %s" % (hexs(s), hexs(chars)))
        impl.append(hexs(out))
        banned = chars or '</|\\>:"?*'
        if any(c in banned for c in out) or [c for c in s if c not in banned] != list(out):
            viol.append(("sanitize", "C13:sanitize_characters", "sanitize(%r, %r) = %r" % (s, chars, out)))
    return {"lines": lines, "impl": impl, "violations": viol, "nontrivial": True, "stats": ["sanitize"]}


def eval_case(case):
    k = case["k"]
    if k == "gridtext":
        return eval_gridtext(case)
    if k == "sanitize":
        return eval_sanitize(case)
    return eval_texts(case)


def cmp_val(a, b):
    """a: implementation token, b: model token"""
    if a == b:
        return True
    def dbl(tok):
        # the double CPython's float() returns for the exact decimal value: correctly rounded, +-inf on overflow
        if tok in ("inf", "-inf"):
            return float(tok)
        fr = Fraction(tok[1:])
        try:
            return float(fr)
        except OverflowError:
            return math.inf if fr > 0 else -math.inf
    if (a.startswith("q") or a in ("inf", "-inf")) and b.startswith("q"):
        return dbl(a) == dbl(b)
    return False


def compare(case, impl, model):
    if impl == model:
        return None
    if impl.startswith("!") or model.startswith("!"):
        return "impl %s model %s" % (impl[:60], model[:60])
    a, b = impl.split(" "), model.split(" ")
    if len(a) != len(b):
        return "token count differs (%d vs %d): impl %s model %s" % (len(a), len(b), impl[:80], model[:80])
    for i, (x, y) in enumerate(zip(a, b)):
        if not cmp_val(x, y):
            return "token %d: impl %s model %s" % (i, x, y)
    return None
