/-
Lemmas about the model of `peak_load_window` (Model/StratPeakLoadWindow.lean) under the abstract battery
law `BatLaw` of Proofs/Strategies.lean: fuel sufficiency of the three loops, invariants of the passes over
`connected_ts` (levels non-negative, schedule within the station's headroom, window steps untouched by the
outside-window plan), the commands of `step_gc`.
-/
import SpiceEv.Proofs.Basic
import SpiceEv.Proofs.Strategies
import SpiceEv.Model.StratPeakLoadWindow
import Mathlib.Tactic.Linarith
import Mathlib.Tactic.Ring
import Mathlib.Tactic.Positivity
import Mathlib.Algebra.Order.Ring.Cast
set_option linter.unusedSectionVars false
set_option linter.unusedSimpArgs false
set_option linter.unusedVariables false
namespace SpiceEv.PeakLoadWindow
open SpiceEv
variable {α B : Type} [Field α] [LinearOrder α] [IsStrictOrderedRing α]

/-- the result is not the model's own "out of fuel" marker -/
def NoFuel {β : Type} (r : Py β) : Prop := r ≠ .error .fuel

/-- the battery operations never report the model's fuel marker (the battery's own loops are covered by
C01/C17) -/
structure OpsNoFuel (ops : BatOps α B) : Prop where
  load : ∀ b mp ts tp, NoFuel (ops.load b mp ts tp)
  unload : ∀ b mp ts tp, NoFuel (ops.unload b mp ts tp)

theorem noFuel_ok {β : Type} (x : β) : NoFuel (.ok x : Py β) := by
  intro h; cases h

theorem noFuel_bind {β γ : Type} (r : Py β) (f : β → Py γ) (hr : NoFuel r) (hf : ∀ x, r = .ok x → NoFuel (f x)) :
    NoFuel (r >>= f) := by
  cases r with
  | error e =>
    intro h
    apply hr
    simpa [bind, Except.bind] using h
  | ok x => simpa [bind, Except.bind] using hf x rfl

/-! ### the window-change scan -/

theorem instant_add (d : DateTime) (k : Int) : (d.add k).instant = d.instant + k := by
  unfold DateTime.add DateTime.instant; simp only; omega

theorem windowScan_ok (env : PEnv α) (seasons : List Season) (level : String) (win : Bool)
    (hi : 0 < env.interval) :
    ∀ (fuel : Nat) (cur : DateTime) (n : Int), env.stop - cur.instant < (fuel : Int) * env.interval →
      ∃ m, windowScan env seasons level win (fuel + 1) cur n = .ok m := by
  intro fuel
  induction fuel with
  | zero =>
    intro cur n h
    have hc : ¬ cur.instant ≤ env.stop := by
      simp only [Nat.cast_zero, Int.zero_mul] at h; omega
    exact ⟨n, by simp [windowScan, hc]⟩
  | succ f ih =>
    intro cur n h
    unfold windowScan
    split
    · apply ih
      rw [instant_add]
      push_cast at h
      linarith
    · exact ⟨n, rfl⟩

/-- the fuel of the window-change scan suffices (the scan ends at `stop_time` at the latest) -/
theorem scan_fuel_suffices (env : PEnv α) (seasons : List Season) (level : String) (win : Bool)
    (hi : 0 < env.interval) :
    ∃ m, windowScan env seasons level win (scanFuel env) (env.now.add env.interval) 1 = .ok m := by
  unfold scanFuel
  apply windowScan_ok env seasons level win hi
  rw [instant_add]
  unfold floorDiv
  rw [Int.fdiv_eq_ediv_of_nonneg _ hi.le]
  set d := env.stop - env.now.instant with hd
  have h1 : d < (d / env.interval + 1) * env.interval := by
    have := Int.lt_ediv_add_one_mul_self d hi
    linarith
  have h2 : d / env.interval ≤ ((d / env.interval).toNat : Int) := Int.self_le_toNat _
  push_cast
  nlinarith

/-! ### the passes never run out of fuel themselves -/

theorem chargeVehicle_noFuel (ops : BatOps α B) (hf : OpsNoFuel ops) (cs : StationS α) (vmin : α) (b : B)
    (power : α) (ts : Ts α) : NoFuel (chargeVehicle ops cs vmin b power ts) := by
  unfold chargeVehicle
  apply noFuel_bind _ _ (hf.load _ _ _ _)
  intro x _
  exact noFuel_ok _

theorem searchPass_noFuel (ops : BatOps α B) (hf : OpsNoFuel ops) (cs : StationS α) (vmin bp maxCv : α) :
    ∀ (l : List (Ts α)) (i : Nat) (st : Plan α B × Bool), NoFuel (searchPass ops cs vmin bp maxCv l i st) := by
  intro l
  induction l with
  | nil => intro i st; exact noFuel_ok _
  | cons ts rest ih =>
    intro i st
    unfold searchPass
    split
    · exact ih _ _
    · apply noFuel_bind _ _ (chargeVehicle_noFuel ops hf _ _ _ _ _)
      intro x _
      exact ih _ _

theorem bisectPass_noFuel (ops : BatOps α B) (hf : OpsNoFuel ops) (cs : StationS α) (vmin target : α)
    (copy : List α) :
    ∀ (l : List (Ts α)) (i : Nat) (st : Plan α B), NoFuel (bisectPass ops cs vmin target copy l i st) := by
  intro l
  induction l with
  | nil => intro i st; exact noFuel_ok _
  | cons ts rest ih =>
    intro i st
    unfold bisectPass
    split
    · apply noFuel_bind
      · unfold getAt; split
        · exact noFuel_ok _
        · intro h; cases h
      · intro lvl _
        apply noFuel_bind _ _ (hf.load _ _ _ _)
        intro x _
        exact ih _ _
    · apply noFuel_bind _ _ (chargeVehicle_noFuel ops hf _ _ _ _ _)
      intro x _
      exact ih _ _

/-! ### the search for the balanced power -/

theorem searchLoop_noFuel_pos (ops : BatOps α B) (hf : OpsNoFuel ops) (eps : α) (cs : StationS α)
    (vmin desired maxCv step bp0 : α) (bat0 : B) (connected : List (Ts α))
    (hstep : 0 < step) (hmax : maxCv = bp0 + 3 * step) :
    ∀ (fuel k : Nat) (first : Bool) (pl : Plan α B), (first = true → k = 0) → 4 ≤ k + fuel →
      NoFuel (searchLoop ops eps cs vmin desired maxCv step bat0 connected (fuel + 1)
        (bp0 + (k : α) * step) first pl) := by
  intro fuel
  induction fuel with
  | zero =>
    intro k first pl hfirst hk
    have hk4 : 4 ≤ k := by omega
    have hf' : first = false := by
      cases first with
      | false => rfl
      | true => have := hfirst rfl; omega
    subst hf'
    unfold searchLoop
    have hk' : (4 : α) ≤ (k : α) := by exact_mod_cast hk4
    have : ¬ (bp0 + (k : α) * step < maxCv + step) := by
      rw [hmax]; nlinarith
    simp only [this, Bool.false_eq_true, or_self, if_false]
    exact noFuel_ok _
  | succ f ih =>
    intro k first pl hfirst hk
    unfold searchLoop
    split
    · apply noFuel_bind _ _ (searchPass_noFuel ops hf _ _ _ _ _ _ _)
      intro x _
      obtain ⟨pl', pot⟩ := x
      simp only
      split
      · exact noFuel_ok _
      · have : bp0 + (k : α) * step + step = bp0 + ((k + 1 : Nat) : α) * step := by push_cast; ring
        rw [this]
        apply ih (k + 1) false pl' (by simp) (by omega)
    · exact noFuel_ok _

theorem searchLoop_noFuel_nonpos (ops : BatOps α B) (hf : OpsNoFuel ops) (eps : α) (cs : StationS α)
    (vmin desired maxCv step : α) (bat0 : B) (connected : List (Ts α)) (hstep : step ≤ 0)
    (fuel : Nat) (bp : α) (first : Bool) (pl : Plan α B) :
    NoFuel (searchLoop ops eps cs vmin desired maxCv step bat0 connected (fuel + 1) bp first pl) := by
  unfold searchLoop
  split
  · apply noFuel_bind _ _ (searchPass_noFuel ops hf _ _ _ _ _ _ _)
    intro x _
    obtain ⟨pl', pot⟩ := x
    have hs : bp + step ≤ bp := by linarith
    simp only [hs, decide_true, Bool.or_true, if_true]
    exact noFuel_ok _
  · exact noFuel_ok _

/-- the fuel of the search for the balanced power suffices: with `step = (max − balanced) / 3` the loop makes
at most four passes before `balanced_power < max + step` fails -/
theorem search_fuel_suffices (ops : BatOps α B) (hf : OpsNoFuel ops) (eps : α) (cs : StationS α)
    (vmin desired maxCv balanced : α) (bat0 : B) (connected : List (Ts α)) (pl : Plan α B) :
    NoFuel (searchLoop ops eps cs vmin desired maxCv ((maxCv - balanced) / ((3 : Nat) : α)) bat0 connected
      searchFuel balanced true pl) := by
  have h3 : ((3 : Nat) : α) = 3 := by norm_num
  rw [h3]
  by_cases hstep : 0 < (maxCv - balanced) / 3
  · have := searchLoop_noFuel_pos ops hf eps cs vmin desired maxCv ((maxCv - balanced) / 3) balanced bat0
      connected hstep (by ring) 7 0 true pl (fun _ => rfl) (by omega)
    simpa [searchFuel] using this
  · exact searchLoop_noFuel_nonpos ops hf eps cs vmin desired maxCv _ bat0 connected (not_lt.mp hstep) 7 _ _ _

/-! ### the bisection -/

/-- the bisection halves the bracket in every pass: `fuel` passes suffice when `hi − lo ≤ 2^fuel · EPS` -/
theorem bisect_fuel_suffices (ops : BatOps α B) (hf : OpsNoFuel ops) (eps : α) (heps : 0 < eps)
    (cs : StationS α) (vmin desired : α) (bat0 : B) (copy : List α) (connected : List (Ts α)) :
    ∀ (fuel : Nat) (lo hi : α) (pl : Plan α B), hi - lo ≤ (2 : α) ^ fuel * eps →
      NoFuel (bisectLoop ops eps cs vmin desired bat0 copy connected fuel lo hi pl) := by
  intro fuel
  induction fuel with
  | zero =>
    intro lo hi pl h
    unfold bisectLoop
    have : ¬ eps < hi - lo := by simp only [pow_zero, one_mul] at h; exact not_lt.mpr h
    simp only [this, if_false]
    exact noFuel_ok _
  | succ f ih =>
    intro lo hi pl h
    unfold bisectLoop
    have h2 : ((2 : Nat) : α) = 2 := by norm_num
    split
    · apply noFuel_bind _ _ (bisectPass_noFuel ops hf _ _ _ _ _ _ _)
      intro pl' _
      rw [pow_succ] at h
      split
      · apply ih; rw [h2]; linarith
      · apply ih; rw [h2]; linarith
    · exact noFuel_ok _

/-! ### monadic plumbing -/

theorem bind_ok {β γ : Type} {r : Py β} {f : β → Py γ} {y : γ} (h : (r >>= f) = .ok y) :
    ∃ x, r = .ok x ∧ f x = .ok y := by
  cases r with
  | error e => simp [bind, Except.bind] at h
  | ok x => exact ⟨x, rfl, by simpa [bind, Except.bind] using h⟩

theorem getAt_mem {β : Type} {l : List β} {i : Nat} {x : β} (h : getAt l i = .ok x) : x ∈ l := by
  unfold getAt at h
  split at h
  · rename_i v hv
    cases h
    exact List.mem_of_getElem? hv
  · cases h

theorem mem_setAt {β : Type} {l : List β} {i : Nat} {v x : β} (h : x ∈ setAt l i v) : x ∈ l ∨ x = v :=
  List.mem_or_eq_of_mem_set h

/-! ### one simulated charge -/

/-- what the station can still give: `max(0, cs.max_power - cs.current_power)` -/
def bound (cs : StationS α) : α := max 0 (cs.maxPower - cs.currentPower)

theorem clampPower_le_bound (p vm : α) (cs : StationS α) :
    clampPower p cs.currentPower cs.maxPower cs.minPower vm ≤ bound cs := by
  unfold clampPower bound
  simp only [pymin_eq, pymax_eq]
  split
  · exact le_max_left _ _
  · exact max_le (le_trans (min_le_right _ _) (le_max_right _ _)) (le_max_left _ _)

theorem chargeVehicle_spec (ops : BatOps α B) (law : BatLaw ops) (cs : StationS α) (vmin : α) (b : B)
    (power : α) (ts : Ts α) (b' : B) (p avg : α)
    (h : chargeVehicle ops cs vmin b power ts = .ok (b', p, avg)) :
    0 ≤ avg ∧ avg ≤ max p 0 ∧ p ≤ bound cs ∧ p ≤ ts.maxPower - ts.power ∧
      ops.load b none none (some p) = .ok (b', avg) := by
  unfold chargeVehicle at h
  obtain ⟨x, hx, h⟩ := bind_ok h
  obtain ⟨b1, a1⟩ := x
  simp only [Except.ok.injEq, Prod.mk.injEq] at h
  obtain ⟨rfl, rfl, rfl⟩ := h
  have hl := law.load_target _ _ _ _ hx
  refine ⟨hl.1, hl.2, ?_, ?_, hx⟩
  · rw [pymin_eq]; exact le_trans (min_le_left _ _) (clampPower_le_bound _ _ _)
  · rw [pymin_eq]; exact min_le_right _ _

/-! ### invariants of the plan -/

/-- every planned level is non-negative and the planned power of the current step is within what the station
can still give -/
structure PlanOK (cs : StationS α) (pl : Plan α B) : Prop where
  levels : ∀ x ∈ pl.levels, 0 ≤ x
  sched : pl.schedule ≤ bound cs

theorem PlanOK.charge {cs : StationS α} {pl : Plan α B} (h : PlanOK cs pl) (b' : B) (i : Nat) (p avg : α)
    (havg : 0 ≤ avg) (hp : p ≤ bound cs) :
    PlanOK cs { bat := b', levels := setAt pl.levels i avg, schedule := if i == 0 then p else pl.schedule } := by
  constructor
  · intro x hx
    rcases mem_setAt hx with hx | rfl
    · exact h.levels x hx
    · exact havg
  · simp only
    split
    · exact hp
    · exact h.sched

theorem PlanOK.level {cs : StationS α} {pl : Plan α B} (h : PlanOK cs pl) (b' : B) (i : Nat) (avg : α)
    (havg : 0 ≤ avg) : PlanOK cs { pl with bat := b', levels := setAt pl.levels i avg } := by
  constructor
  · intro x hx
    rcases mem_setAt hx with hx | rfl
    · exact h.levels x hx
    · exact havg
  · exact h.sched

theorem PlanOK.bat {cs : StationS α} {pl : Plan α B} (h : PlanOK cs pl) (b' : B) :
    PlanOK cs { pl with bat := b' } := ⟨h.levels, h.sched⟩

theorem searchPass_inv (ops : BatOps α B) (law : BatLaw ops) (cs : StationS α) (vmin bp maxCv : α) :
    ∀ (l : List (Ts α)) (i : Nat) (st st' : Plan α B × Bool), PlanOK cs st.1 →
      searchPass ops cs vmin bp maxCv l i st = .ok st' → PlanOK cs st'.1 := by
  intro l
  induction l with
  | nil => intro i st st' hst h; simp only [searchPass, Except.ok.injEq] at h; subst h; exact hst
  | cons ts rest ih =>
    intro i st st' hst h
    unfold searchPass at h
    split at h
    · exact ih _ _ _ hst h
    · obtain ⟨x, hx, h⟩ := bind_ok h
      obtain ⟨b', p, avg⟩ := x
      obtain ⟨h1, _, h3, _, _⟩ := chargeVehicle_spec ops law _ _ _ _ _ _ _ _ hx
      exact ih _ _ _ (hst.charge b' i p avg h1 h3) h

theorem constPass_inv (ops : BatOps α B) (law : BatLaw ops) (tsPerHour : α) (cs : StationS α)
    (vmin desired : α) :
    ∀ (l : List (Ts α)) (i : Nat) (st st' : Plan α B × Int), PlanOK cs st.1 →
      constPass ops tsPerHour cs vmin desired l i st = .ok st' → PlanOK cs st'.1 := by
  intro l
  induction l with
  | nil => intro i st st' hst h; simp only [constPass, Except.ok.injEq] at h; subst h; exact hst
  | cons ts rest ih =>
    intro i st st' hst h
    unfold constPass at h
    split at h
    · exact ih _ _ _ hst h
    · obtain ⟨power, _, h⟩ := bind_ok h
      obtain ⟨pe, _, h⟩ := bind_ok h
      obtain ⟨x, hx, h⟩ := bind_ok h
      obtain ⟨b', p, avg⟩ := x
      obtain ⟨h1, _, h3, _, _⟩ := chargeVehicle_spec ops law _ _ _ _ _ _ _ _ hx
      exact ih _ _ _ (hst.charge b' i p avg h1 h3) h

theorem shavePass_inv (ops : BatOps α B) (law : BatLaw ops) (tsPerHour : α) (cs : StationS α)
    (vmin desired peak : α) :
    ∀ (l : List (Ts α)) (i : Nat) (st st' : Plan α B), PlanOK cs st →
      shavePass ops tsPerHour cs vmin desired peak l i st = .ok st' → PlanOK cs st' := by
  intro l
  induction l with
  | nil => intro i st st' hst h; simp only [shavePass, Except.ok.injEq] at h; subst h; exact hst
  | cons ts rest ih =>
    intro i st st' hst h
    unfold shavePass at h
    split at h
    · obtain ⟨lvl, _, h⟩ := bind_ok h
      obtain ⟨x, hx, h⟩ := bind_ok h
      obtain ⟨b', avg⟩ := x
      have hl := law.load_target _ _ _ _ hx
      exact ih _ _ _ (hst.level b' i avg hl.1) h
    · obtain ⟨need, _, h⟩ := bind_ok h
      obtain ⟨x, hx, h⟩ := bind_ok h
      obtain ⟨b', p, avg⟩ := x
      obtain ⟨h1, _, h3, _, _⟩ := chargeVehicle_spec ops law _ _ _ _ _ _ _ _ hx
      exact ih _ _ _ (hst.charge b' i p avg h1 h3) h

theorem bisectPass_inv (ops : BatOps α B) (law : BatLaw ops) (cs : StationS α) (vmin target : α)
    (copy : List α) :
    ∀ (l : List (Ts α)) (i : Nat) (st st' : Plan α B), PlanOK cs st →
      bisectPass ops cs vmin target copy l i st = .ok st' → PlanOK cs st' := by
  intro l
  induction l with
  | nil => intro i st st' hst h; simp only [bisectPass, Except.ok.injEq] at h; subst h; exact hst
  | cons ts rest ih =>
    intro i st st' hst h
    unfold bisectPass at h
    split at h
    · obtain ⟨lvl, _, h⟩ := bind_ok h
      obtain ⟨x, hx, h⟩ := bind_ok h
      obtain ⟨b', avg⟩ := x
      have hl := law.load_target _ _ _ _ hx
      exact ih _ _ _ (hst.level b' i avg hl.1) h
    · obtain ⟨x, hx, h⟩ := bind_ok h
      obtain ⟨b', p, avg⟩ := x
      obtain ⟨h1, _, h3, _, _⟩ := chargeVehicle_spec ops law _ _ _ _ _ _ _ _ hx
      exact ih _ _ _ (hst.charge b' i p avg h1 h3) h

theorem searchLoop_inv (ops : BatOps α B) (law : BatLaw ops) (eps : α) (cs : StationS α)
    (vmin desired maxCv step : α) (bat0 : B) (connected : List (Ts α)) :
    ∀ (fuel : Nat) (bp : α) (first : Bool) (pl pl' : Plan α B), PlanOK cs pl →
      searchLoop ops eps cs vmin desired maxCv step bat0 connected fuel bp first pl = .ok pl' →
      PlanOK cs pl' := by
  intro fuel
  induction fuel with
  | zero => intro bp first pl pl' hpl h; simp [searchLoop] at h
  | succ f ih =>
    intro bp first pl pl' hpl h
    unfold searchLoop at h
    split at h
    · obtain ⟨x, hx, h⟩ := bind_ok h
      obtain ⟨pl1, pot⟩ := x
      have h1 := searchPass_inv ops law cs vmin bp maxCv connected 0 _ _ (hpl.bat bat0) hx
      simp only at h
      split at h
      · simp only [Except.ok.injEq] at h; subst h; exact h1
      · exact ih _ _ _ _ h1 h
    · simp only [Except.ok.injEq] at h; subst h; exact hpl

theorem bisectLoop_inv (ops : BatOps α B) (law : BatLaw ops) (eps : α) (cs : StationS α)
    (vmin desired : α) (bat0 : B) (copy : List α) (connected : List (Ts α)) :
    ∀ (fuel : Nat) (lo hi : α) (pl pl' : Plan α B), PlanOK cs pl →
      bisectLoop ops eps cs vmin desired bat0 copy connected fuel lo hi pl = .ok pl' → PlanOK cs pl' := by
  intro fuel
  induction fuel with
  | zero =>
    intro lo hi pl pl' hpl h
    unfold bisectLoop at h
    split at h
    · cases h
    · simp only [Except.ok.injEq] at h; subst h; exact hpl
  | succ f ih =>
    intro lo hi pl pl' hpl h
    unfold bisectLoop at h
    split at h
    · obtain ⟨pl1, hx, h⟩ := bind_ok h
      have h1 := bisectPass_inv ops law cs vmin _ copy connected 0 _ _ (hpl.bat bat0) hx
      split at h
      · exact ih _ _ _ _ h1 h
      · exact ih _ _ _ _ h1 h
    · simp only [Except.ok.injEq] at h; subst h; exact hpl

theorem bound_nonneg (cs : StationS α) : 0 ≤ bound cs := le_max_left _ _

theorem planOutside_inv (ops : BatOps α B) (law : BatLaw ops) (env : PEnv α) (cs : StationS α)
    (pv : PVeh α B) (connected : List (Ts α)) (n : Nat) (pl1 : Plan α B)
    (h : planOutside ops env cs pv connected n = .ok pl1) : PlanOK cs pl1 := by
  have h0 : PlanOK cs ({ bat := pv.v.bat, levels := List.replicate n 0, schedule := 0 } : Plan α B) := by
    constructor
    · intro x hx
      rw [List.mem_replicate] at hx
      exact le_of_eq hx.2.symm
    · exact bound_nonneg cs
  unfold planOutside at h
  obtain ⟨balanced, _, h⟩ := bind_ok h
  split at h
  · split at h
    · obtain ⟨mx, _, h⟩ := bind_ok h
      exact searchLoop_inv ops law _ cs _ _ _ _ _ connected _ _ _ _ _ h0 h
    · obtain ⟨r, hr, h⟩ := bind_ok h
      simp only [Except.ok.injEq] at h
      subst h
      exact constPass_inv ops law _ cs _ _ connected 0 _ _ h0 hr
  · simp only [Except.ok.injEq] at h
    subst h
    exact h0

theorem planInside_inv (ops : BatOps α B) (law : BatLaw ops) (env : PEnv α) (cs : StationS α)
    (pv : PVeh α B) (connected : List (Ts α)) (peak : α) (pl1 pl3 : Plan α B) (h1 : PlanOK cs pl1)
    (h : planInside ops env cs pv connected peak pl1 = .ok pl3) : PlanOK cs pl3 := by
  unfold planInside at h
  simp only at h
  split at h
  · obtain ⟨pl2, h2, h⟩ := bind_ok h
    have hp2 := shavePass_inv ops law _ cs _ _ _ connected 0 _ _ (h1.bat pv.v.bat) h2
    split at h
    · obtain ⟨lo, _, h⟩ := bind_ok h
      obtain ⟨hi, _, h⟩ := bind_ok h
      exact bisectLoop_inv ops law _ cs _ _ _ _ connected _ _ _ _ _ hp2 h
    · simp only [Except.ok.injEq] at h; subst h; exact hp2
  · simp only [Except.ok.injEq] at h; subst h; exact h1

/-! ### the prognosis only grows -/

/-- `x` is a lower bound of the prognosis of the current step (the head of `timesteps`) -/
def HeadGe (x : α) (l : List (Ts α)) : Prop := ∀ t, l.head? = some t → x ≤ t.power

theorem addLevels_head (eps : α) (levels : List α) (hl : ∀ x ∈ levels, 0 ≤ x) (ts : Ts α)
    (rest : List (Ts α)) (i : Nat) (peak : α) (conn' : List (Ts α)) (peak' : α)
    (h : addLevels eps levels (ts :: rest) i peak = .ok (conn', peak')) :
    ∃ t' rest', conn' = t' :: rest' ∧ ts.power ≤ t'.power := by
  unfold addLevels at h
  obtain ⟨lvl, hlvl, h⟩ := bind_ok h
  obtain ⟨x, _, h⟩ := bind_ok h
  obtain ⟨rest', pk⟩ := x
  simp only [Except.ok.injEq, Prod.mk.injEq] at h
  obtain ⟨rfl, _⟩ := h
  refine ⟨_, rest', rfl, ?_⟩
  have := hl lvl (getAt_mem hlvl)
  simp only
  linarith

theorem addLevels_nil (eps : α) (levels : List α) (i : Nat) (peak : α) (conn' : List (Ts α)) (peak' : α)
    (h : addLevels eps levels [] i peak = .ok (conn', peak')) : conn' = [] := by
  simp only [addLevels, Except.ok.injEq, Prod.mk.injEq] at h
  exact h.1.symm

theorem planVehicle_spec (ops : BatOps α B) (law : BatLaw ops) (env : PEnv α) (cs : StationS α)
    (pv : PVeh α B) (timesteps : List (Ts α)) (peak x : α) (sched : α) (ts' : List (Ts α)) (peak' : α)
    (hx : HeadGe x timesteps) (h : planVehicle ops env cs pv timesteps peak = .ok (sched, ts', peak')) :
    sched ≤ bound cs ∧ HeadGe x ts' := by
  unfold planVehicle at h
  simp only at h
  obtain ⟨pl1, h1, h⟩ := bind_ok h
  obtain ⟨pl3, h3, h⟩ := bind_ok h
  obtain ⟨r, hr, h⟩ := bind_ok h
  obtain ⟨conn', pk⟩ := r
  simp only [Except.ok.injEq, Prod.mk.injEq] at h
  obtain ⟨rfl, rfl, rfl⟩ := h
  have hp1 := planOutside_inv ops law env cs pv _ _ pl1 h1
  have hp3 := planInside_inv ops law env cs pv _ peak pl1 pl3 hp1 h3
  refine ⟨hp3.sched, ?_⟩
  cases timesteps with
  | nil =>
    simp only [List.take_nil] at hr
    have := addLevels_nil _ _ _ _ _ _ hr
    subst this
    intro t ht
    simp at ht
  | cons t r =>
    cases hn : departIdx env pv.v with
    | zero =>
      rw [hn] at hr
      simp only [List.take_zero] at hr
      have := addLevels_nil _ _ _ _ _ _ hr
      subst this
      simpa using hx
    | succ m =>
      rw [hn] at hr
      simp only [List.take_succ_cons] at hr
      obtain ⟨t', rest', rfl, hle⟩ := addLevels_head _ _ hp3.levels _ _ _ _ _ _ hr
      intro t'' ht''
      simp only [List.cons_append, List.head?_cons, Option.some.injEq] at ht''
      subst ht''
      exact le_trans (hx t (by simp)) hle

/-- what `planVehicles` returns: every plan belongs to a vehicle of the list whose station exists, and the
planned power is within what that station can still give; the prognosis of the current step only grows -/
theorem planVehicles_spec (ops : BatOps α B) (law : BatLaw ops) (env : PEnv α) (w : PWorld α B) (x : α) :
    ∀ (l : List (PVeh α B)) (ts : List (Ts α)) (peak : α) (plans : List (PVeh α B × α))
      (ts' : List (Ts α)) (peak' : α), HeadGe x ts →
      planVehicles ops env w l ts peak = .ok (plans, ts', peak') →
      HeadGe x ts' ∧ ∀ q ∈ plans, q.1 ∈ l ∧ ∃ csId cs, q.1.v.cs = some csId ∧ w.station? csId = some cs ∧
        q.2 ≤ bound cs := by
  intro l
  induction l with
  | nil =>
    intro ts peak plans ts' peak' hx h
    simp only [planVehicles, Except.ok.injEq, Prod.mk.injEq] at h
    obtain ⟨rfl, rfl, rfl⟩ := h
    exact ⟨hx, by simp⟩
  | cons pv rest ih =>
    intro ts peak plans ts' peak' hx h
    unfold planVehicles at h
    split at h
    · cases h
    · rename_i csId hcs
      split at h
      · cases h
      · rename_i cs hst
        obtain ⟨r, hr, h⟩ := bind_ok h
        obtain ⟨sched, ts1, peak1⟩ := r
        obtain ⟨r2, hr2, h⟩ := bind_ok h
        obtain ⟨more, ts2, peak2⟩ := r2
        simp only [Except.ok.injEq, Prod.mk.injEq] at h
        obtain ⟨rfl, rfl, rfl⟩ := h
        obtain ⟨hs, hx1⟩ := planVehicle_spec ops law env cs pv ts peak x sched ts1 peak1 hx hr
        obtain ⟨hx2, hm⟩ := ih ts1 peak1 more ts2 peak2 hx1 hr2
        refine ⟨hx2, ?_⟩
        intro q hq
        rcases List.mem_cons.mp hq with rfl | hq
        · exact ⟨by simp, csId, cs, hcs, hst, hs⟩
        · obtain ⟨h1, h2⟩ := hm q hq
          exact ⟨List.mem_cons_of_mem _ h1, h2⟩

/-! ### the commands -/

theorem mem_sdSet {β : Type} (l : List (String × β)) (k : String) (v : β) (kv : String × β)
    (h : kv ∈ sdSet l k v) : kv ∈ l ∨ kv = (k, v) := by
  induction l with
  | nil => simp only [sdSet, List.mem_singleton] at h; exact Or.inr h
  | cons x xs ih =>
    obtain ⟨xk, xv⟩ := x
    unfold sdSet at h
    split at h
    · rename_i hk
      have : xk = k := by simpa using hk
      subst this
      rcases List.mem_cons.mp h with h | h
      · exact Or.inr h
      · exact Or.inl (List.mem_cons_of_mem _ h)
    · rcases List.mem_cons.mp h with h | h
      · exact Or.inl (by rw [h]; simp)
      · rcases ih h with h | h
        · exact Or.inl (List.mem_cons_of_mem _ h)
        · exact Or.inr h

/-- the power a vehicle is finally asked to take (repaired final loop): its plan, or — while surplus is left — the
plan plus the surplus through `clamp_power`, never less than the plan -/
def SchedOf (w : PWorld α B) (csId : String) (pv : PVeh α B) (planned surplus sched : α) : Prop :=
  (¬ 0 < surplus ∧ sched = planned) ∨
  (0 < surplus ∧ ∃ cs, w.station? csId = some cs ∧
    sched = max (clampPower (planned + surplus) cs.currentPower cs.maxPower cs.minPower pv.v.minChargingPower) planned)

/-- one pass of the final loop -/
theorem chargeVehicles_cons (ops : BatOps α B) (pv : PVeh α B) (planned : α) (rest : List (PVeh α B × α))
    (surplus : α) (w : PWorld α B) (gc : GcS α) (cmds : List (String × α))
    (st' : PWorld α B × GcS α × List (String × α))
    (h : chargeVehicles ops ((pv, planned) :: rest) surplus (w, gc, cmds) = .ok st') :
    ∃ csId sched, pv.v.cs = some csId ∧ SchedOf w csId pv planned surplus sched ∧
      ((0 < sched ∧ ∃ bat' p, ops.load pv.v.bat none none (some sched) = .ok (bat', p) ∧
          chargeVehicles ops rest (surplus - max (p - max planned 0) 0)
            (w.setVehicle { pv with v := { pv.v with bat := bat' }, schedule := some sched },
             (gc.addLoad csId p).1, sdSet cmds csId p) = .ok st') ∨
       (¬ 0 < sched ∧
          chargeVehicles ops rest surplus (w.setVehicle { pv with schedule := some sched }, gc, cmds) = .ok st')) := by
  unfold chargeVehicles at h
  simp only [pymax_eq] at h
  split at h
  · cases h
  · rename_i csId hcs
    obtain ⟨sched, hsched, h⟩ := bind_ok h
    have hso : SchedOf w csId pv planned surplus sched := by
      split at hsched
      · rename_i hpos
        split at hsched
        · cases hsched
        · rename_i cs hst
          simp only [Except.ok.injEq] at hsched
          exact Or.inr ⟨hpos, cs, hst, hsched.symm⟩
      · rename_i hpos
        simp only [Except.ok.injEq] at hsched
        exact Or.inl ⟨hpos, hsched.symm⟩
    refine ⟨csId, sched, hcs, hso, ?_⟩
    split at h
    · rename_i hp
      obtain ⟨x, hx, h⟩ := bind_ok h
      obtain ⟨bat', p⟩ := x
      exact Or.inl ⟨hp, bat', p, hx, h⟩
    · rename_i hp
      exact Or.inr ⟨hp, h⟩

/-- a command is the average power of ONE `Battery.load` call on the battery of a planned vehicle, asked for its
planned power or (with surplus) for `max(clamp_power(…), planned)` at its station -/
def CmdOK (ops : BatOps α B) (S : List (StationS α)) (plans : List (PVeh α B × α)) (kv : String × α) : Prop :=
  ∃ q ∈ plans, q.1.v.cs = some kv.1 ∧ ∃ sched bat', ops.load q.1.v.bat none none (some sched) = .ok (bat', kv.2) ∧
    (sched = q.2 ∨ ∃ cs x, S.find? (·.id == kv.1) = some cs ∧
      sched = max (clampPower x cs.currentPower cs.maxPower cs.minPower q.1.v.minChargingPower) q.2)

theorem chargeVehicles_spec (ops : BatOps α B) (S : List (StationS α)) (all : List (PVeh α B × α)) :
    ∀ (plans : List (PVeh α B × α)) (surplus : α) (st st' : PWorld α B × GcS α × List (String × α)),
      st.1.stations = S → (∀ q ∈ plans, q ∈ all) → (∀ kv ∈ st.2.2, CmdOK ops S all kv) →
      chargeVehicles ops plans surplus st = .ok st' → ∀ kv ∈ st'.2.2, CmdOK ops S all kv := by
  intro plans
  induction plans with
  | nil =>
    intro surplus st st' _ _ hc h
    simp only [chargeVehicles, Except.ok.injEq] at h
    subst h; exact hc
  | cons q rest ih =>
    intro surplus st st' hS hall hc h
    obtain ⟨pv, planned⟩ := q
    obtain ⟨w, gc, cmds⟩ := st
    obtain ⟨csId, sched, hcs, hso, hcase⟩ := chargeVehicles_cons ops pv planned rest surplus w gc cmds st' h
    rcases hcase with ⟨_, bat', p, hload, hrec⟩ | ⟨_, hrec⟩
    · refine ih _ _ _ (by simpa [PWorld.setVehicle] using hS) (fun q hq => hall q (List.mem_cons_of_mem _ hq)) ?_ hrec
      intro kv hkv
      rcases mem_sdSet _ _ _ _ hkv with hkv | rfl
      · exact hc kv hkv
      · refine ⟨(pv, planned), hall _ (by simp), hcs, sched, bat', hload, ?_⟩
        rcases hso with ⟨_, e⟩ | ⟨_, cs, hst, e⟩
        · exact Or.inl e
        · refine Or.inr ⟨cs, planned + surplus, ?_, e⟩
          simp only at hS
          rw [← hS]; exact hst
    · exact ih _ _ _ (by simpa [PWorld.setVehicle] using hS) (fun q hq => hall q (List.mem_cons_of_mem _ hq))
        (by exact hc) hrec

theorem mem_insertByKey {β : Type} (key : β → Int) (x y : β) (l : List β) :
    y ∈ insertByKey key x l → y = x ∨ y ∈ l := by
  induction l with
  | nil => intro h; simp only [insertByKey, List.mem_singleton] at h; exact Or.inl h
  | cons z zs ih =>
    intro h
    unfold insertByKey at h
    split at h
    · rcases List.mem_cons.mp h with h | h
      · exact Or.inl h
      · exact Or.inr h
    · rcases List.mem_cons.mp h with h | h
      · exact Or.inr (by rw [h]; simp)
      · rcases ih h with h | h
        · exact Or.inl h
        · exact Or.inr (List.mem_cons_of_mem _ h)

theorem mem_sortByKey {β : Type} (key : β → Int) (l : List β) (y : β) (h : y ∈ sortByKey key l) : y ∈ l := by
  unfold sortByKey at h
  have : ∀ (l acc : List β), y ∈ l.foldl (fun acc x => insertByKey key x acc) acc → y ∈ acc ∨ y ∈ l := by
    intro l
    induction l with
    | nil => intro acc h; exact Or.inl h
    | cons x xs ih =>
      intro acc h
      simp only [List.foldl_cons] at h
      rcases ih _ h with h | h
      · rcases mem_insertByKey key x y acc h with h | h
        · exact Or.inr (by rw [h]; simp)
        · exact Or.inl h
      · exact Or.inr (List.mem_cons_of_mem _ h)
  rcases this l [] h with h | h
  · simp at h
  · exact h

/-- the gathered vehicles are vehicles of the world, connected to a station of this connector -/
theorem gatherVehicles_spec (ops : BatOps α B) (env : PEnv α) (w : PWorld α B) (gcId : String)
    (vs : List (PVeh α B)) (ms : Int) (h : gatherVehicles ops env w gcId = .ok (vs, ms)) :
    ∀ pv ∈ vs, pv ∈ w.vehicles ∧ ∃ csId cs, pv.v.cs = some csId ∧ w.station? csId = some cs ∧
      cs.parent = gcId := by
  unfold gatherVehicles at h
  have key : ∀ (l : List (PVeh α B)) (acc acc' : List (PVeh α B) × Int),
      (∀ pv ∈ l, pv ∈ w.vehicles) →
      (∀ pv ∈ acc.1, pv ∈ w.vehicles ∧ ∃ csId cs, pv.v.cs = some csId ∧ w.station? csId = some cs ∧
        cs.parent = gcId) →
      l.foldlM (fun (acc : List (PVeh α B) × Int) pv =>
        match pv.v.cs with
        | none => (.ok acc : Py (List (PVeh α B) × Int))
        | some csId =>
          match w.station? csId with
          | none => .error .keyError
          | some cs =>
            let vs := if cs.parent == gcId then acc.1 ++ [pv] else acc.1
            match pv.v.etd with
            | none => .ok (vs, acc.2)
            | some etd =>
              if etd ≤ env.now.instant then .ok (vs, acc.2)
              else if pv.v.desiredSoc - ops.soc pv.v.bat < env.eps then .ok (vs, acc.2)
              else .ok (vs, if acc.2 < etd then etd else acc.2)) acc = .ok acc' →
      (∀ pv ∈ acc'.1, pv ∈ w.vehicles ∧ ∃ csId cs, pv.v.cs = some csId ∧ w.station? csId = some cs ∧
        cs.parent = gcId) := by
    intro l
    induction l with
    | nil =>
      intro acc acc' _ hacc h
      simp only [List.foldlM_nil, pure, Except.pure, Except.ok.injEq] at h
      subst h; exact hacc
    | cons pv rest ih =>
      intro acc acc' hl hacc h
      simp only [List.foldlM_cons] at h
      obtain ⟨a1, h1, h⟩ := bind_ok h
      refine ih a1 acc' (fun q hq => hl q (List.mem_cons_of_mem _ hq)) ?_ h
      have hpv : pv ∈ w.vehicles := hl pv (by simp)
      split at h1
      · simp only [Except.ok.injEq] at h1; subst h1; exact hacc
      · rename_i csId hcs
        split at h1
        · cases h1
        · rename_i cs hst
          have hvs : ∀ q ∈ (if cs.parent == gcId then acc.1 ++ [pv] else acc.1),
              q ∈ w.vehicles ∧ ∃ csId cs, q.v.cs = some csId ∧ w.station? csId = some cs ∧
                cs.parent = gcId := by
            intro q hq
            split at hq
            · rename_i hp
              rcases List.mem_append.mp hq with hq | hq
              · exact hacc q hq
              · simp only [List.mem_singleton] at hq
                subst hq
                exact ⟨hpv, csId, cs, hcs, hst, by simpa using hp⟩
            · exact hacc q hq
          split at h1
          · simp only [Except.ok.injEq] at h1; subst h1; exact hvs
          · split at h1
            · simp only [Except.ok.injEq] at h1; subst h1; exact hvs
            · split at h1
              · simp only [Except.ok.injEq] at h1; subst h1; exact hvs
              · simp only [Except.ok.injEq] at h1; subst h1; exact hvs
  exact key w.vehicles ([], env.now.instant) (vs, ms) (fun _ h => h) (by simp) h

theorem getAt_zero_head {β : Type} {l : List β} {x : β} (h : getAt l 0 = .ok x) : l.head? = some x := by
  unfold getAt at h
  split at h
  · rename_i v hv
    cases h
    rw [List.head?_eq_getElem?]; exact hv
  · cases h

theorem headGe_buildTimesteps (env : PEnv α) (seasons : List Season) (level gcId : String)
    (rest : List (List (Ev α))) (cur : DateTime) (st : List (String × α) × α) :
    HeadGe (sumLoads env st.1) (buildTimesteps env seasons level gcId ([] :: rest) cur st) := by
  intro t ht
  simp only [buildTimesteps, List.foldl_nil, List.head?_cons, Option.some.injEq] at ht
  subst ht
  exact le_refl _

/-- the commands of one `step_gc` call -/
theorem stepGc_commands (ops : BatOps α B) (law : BatLaw ops) (env : PEnv α) (w : PWorld α B) (g : PGc α)
    (level : String) (w' : PWorld α B) (cmds : List (String × α))
    (h : stepGc ops env w g level = .ok (w', cmds)) :
    ∀ kv ∈ cmds, ∃ pv ∈ w.vehicles, ∃ cs, pv.v.cs = some kv.1 ∧ w.station? kv.1 = some cs ∧
      cs.parent = g.gc.id ∧ 0 ≤ kv.2 ∧
      (∃ sched bat', ops.load pv.v.bat none none (some sched) = .ok (bat', kv.2)) ∧
      kv.2 ≤ bound cs := by
  unfold stepGc at h
  simp only at h
  obtain ⟨r1, hg, h⟩ := bind_ok h
  obtain ⟨vehicles, maxStanding⟩ := r1
  obtain ⟨seasons, _, h⟩ := bind_ok h
  obtain ⟨r2, _, h⟩ := bind_ok h
  obtain ⟨ahead, untilChange⟩ := r2
  obtain ⟨r3, hp, h⟩ := bind_ok h
  obtain ⟨plans, timesteps, pk⟩ := r3
  obtain ⟨ts0, ht0, h⟩ := bind_ok h
  obtain ⟨r4, hc, h⟩ := bind_ok h
  obtain ⟨w1, gc1, cmds1⟩ := r4
  obtain ⟨r5, _, h⟩ := bind_ok h
  obtain ⟨gcLoads, info⟩ := r5
  obtain ⟨r6, _, h⟩ := bind_ok h
  obtain ⟨gc2, gl2, done⟩ := r6
  simp only [Except.ok.injEq, Prod.mk.injEq] at h
  obtain ⟨_, rfl⟩ := h
  have hgs := gatherVehicles_spec ops env w g.gc.id vehicles maxStanding hg
  obtain ⟨hhead, hplans⟩ := planVehicles_spec ops law env w (sumLoads env g.gc.loads) _ _ _ _ _ _
    (headGe_buildTimesteps env seasons level g.gc.id _ _ (g.gc.loads, g.gc.curMax)) hp
  have hcm := chargeVehicles_spec ops w.stations plans plans _ (w, g.gc, []) (w1, gc1, cmds1) rfl
    (fun _ hq => hq) (by simp) hc
  intro kv hkv
  obtain ⟨q, hq, hqcs, sched, bat', hload, hsched⟩ := hcm kv hkv
  obtain ⟨hqs, csId, cs, hcs, hst, hsb⟩ := hplans q hq
  obtain ⟨hqw, csId2, cs2, hcs2, hst2, hpar⟩ := hgs q.1 (mem_sortByKey _ _ _ hqs)
  have e1 : csId = kv.1 := by rw [hcs] at hqcs; exact Option.some.inj hqcs
  have e2 : csId2 = kv.1 := by rw [hcs2] at hqcs; exact Option.some.inj hqcs
  subst e1
  subst e2
  rw [hst] at hst2
  have e3 : cs = cs2 := Option.some.inj hst2
  subst e3
  have hl := law.load_target _ _ _ _ hload
  refine ⟨q.1, hqw, cs, hqcs, hst, hpar, hl.1, ⟨_, bat', hload⟩, ?_⟩
  have hsle : sched ≤ bound cs := by
    rcases hsched with e | ⟨cs', x, hst', e⟩
    · rw [e]; exact hsb
    · have : cs' = cs := by
        unfold PWorld.station? at hst
        rw [hst] at hst'; exact (Option.some.inj hst').symm
      subst this
      rw [e]
      exact max_le (clampPower_le_bound _ _ _) hsb
  exact le_trans hl.2 (max_le hsle (bound_nonneg cs))

/-! ### the outside-window plan does not touch window steps -/

/-- index `k` is not a non-window position of the suffix `l` that starts at index `i` -/
def Free (l : List (Ts α)) (i k : Nat) : Prop := ∀ t, i ≤ k → l[k - i]? = some t → t.window = true

theorem Free.tail {ts : Ts α} {rest : List (Ts α)} {i k : Nat} (h : Free (ts :: rest) i k) :
    Free rest (i + 1) k := by
  intro t hik ht
  apply h t (by omega)
  have : k - i = (k - (i + 1)) + 1 := by omega
  rw [this, List.getElem?_cons_succ]; exact ht

theorem Free.ne {ts : Ts α} {rest : List (Ts α)} {i k : Nat} (h : Free (ts :: rest) i k)
    (hw : ¬ ts.window = true) : i ≠ k := by
  intro e
  subst e
  exact hw (h ts (le_refl _) (by simp))

theorem getElem?_setAt_ne {β : Type} (l : List β) {i k : Nat} (v : β) (h : i ≠ k) :
    (setAt l i v)[k]? = l[k]? := by
  unfold setAt; exact List.getElem?_set_ne h

theorem searchPass_untouched (ops : BatOps α B) (cs : StationS α) (vmin bp maxCv : α) :
    ∀ (l : List (Ts α)) (i : Nat) (st st' : Plan α B × Bool),
      searchPass ops cs vmin bp maxCv l i st = .ok st' →
      (∀ k, Free l i k → st'.1.levels[k]? = st.1.levels[k]?) ∧
      ((i ≠ 0 ∨ ∀ t, l.head? = some t → t.window = true) → st'.1.schedule = st.1.schedule) := by
  intro l
  induction l with
  | nil => intro i st st' h; simp only [searchPass, Except.ok.injEq] at h; subst h; exact ⟨fun _ _ => rfl, fun _ => rfl⟩
  | cons ts rest ih =>
    intro i st st' h
    unfold searchPass at h
    split at h
    · obtain ⟨h1, h2⟩ := ih _ _ _ h
      exact ⟨fun k hk => h1 k hk.tail, fun _ => h2 (Or.inl (by omega))⟩
    · rename_i hw
      obtain ⟨x, hx, h⟩ := bind_ok h
      obtain ⟨b', p, avg⟩ := x
      obtain ⟨h1, h2⟩ := ih _ _ _ h
      constructor
      · intro k hk
        rw [h1 k hk.tail]
        exact getElem?_setAt_ne _ _ (hk.ne hw)
      · intro hc
        rw [h2 (Or.inl (by omega))]
        rcases hc with hc | hc
        · simp only
          have : (i == 0) = false := by simpa using hc
          simp [this]
        · exact absurd (hc ts (by simp)) hw

theorem constPass_untouched (ops : BatOps α B) (tsPerHour : α) (cs : StationS α) (vmin desired : α) :
    ∀ (l : List (Ts α)) (i : Nat) (st st' : Plan α B × Int),
      constPass ops tsPerHour cs vmin desired l i st = .ok st' →
      (∀ k, Free l i k → st'.1.levels[k]? = st.1.levels[k]?) ∧
      ((i ≠ 0 ∨ ∀ t, l.head? = some t → t.window = true) → st'.1.schedule = st.1.schedule) := by
  intro l
  induction l with
  | nil => intro i st st' h; simp only [constPass, Except.ok.injEq] at h; subst h; exact ⟨fun _ _ => rfl, fun _ => rfl⟩
  | cons ts rest ih =>
    intro i st st' h
    unfold constPass at h
    split at h
    · obtain ⟨h1, h2⟩ := ih _ _ _ h
      exact ⟨fun k hk => h1 k hk.tail, fun _ => h2 (Or.inl (by omega))⟩
    · rename_i hw
      obtain ⟨power, _, h⟩ := bind_ok h
      obtain ⟨pe, _, h⟩ := bind_ok h
      obtain ⟨x, hx, h⟩ := bind_ok h
      obtain ⟨b', p, avg⟩ := x
      obtain ⟨h1, h2⟩ := ih _ _ _ h
      constructor
      · intro k hk
        rw [h1 k hk.tail]
        exact getElem?_setAt_ne _ _ (hk.ne hw)
      · intro hc
        rw [h2 (Or.inl (by omega))]
        rcases hc with hc | hc
        · simp only
          have : (i == 0) = false := by simpa using hc
          simp [this]
        · exact absurd (hc ts (by simp)) hw

theorem searchLoop_untouched (ops : BatOps α B) (eps : α) (cs : StationS α)
    (vmin desired maxCv step : α) (bat0 : B) (connected : List (Ts α)) :
    ∀ (fuel : Nat) (bp : α) (first : Bool) (pl pl' : Plan α B),
      searchLoop ops eps cs vmin desired maxCv step bat0 connected fuel bp first pl = .ok pl' →
      (∀ k, Free connected 0 k → pl'.levels[k]? = pl.levels[k]?) ∧
      ((∀ t, connected.head? = some t → t.window = true) → pl'.schedule = pl.schedule) := by
  intro fuel
  induction fuel with
  | zero => intro bp first pl pl' h; simp [searchLoop] at h
  | succ f ih =>
    intro bp first pl pl' h
    unfold searchLoop at h
    split at h
    · obtain ⟨x, hx, h⟩ := bind_ok h
      obtain ⟨pl1, pot⟩ := x
      obtain ⟨h1, h2⟩ := searchPass_untouched ops cs vmin bp maxCv connected 0 _ _ hx
      simp only at h
      split at h
      · simp only [Except.ok.injEq] at h; subst h
        exact ⟨fun k hk => h1 k hk, fun hc => h2 (Or.inr hc)⟩
      · obtain ⟨h3, h4⟩ := ih _ _ _ _ h
        exact ⟨fun k hk => (h3 k hk).trans (h1 k hk), fun hc => (h4 hc).trans (h2 (Or.inr hc))⟩
    · simp only [Except.ok.injEq] at h; subst h; exact ⟨fun _ _ => rfl, fun _ => rfl⟩

/-- the plan after the outside-window stage: all levels at window steps (and beyond the connected steps) are
still 0, and nothing is planned for the current step if it lies inside a window -/
theorem planOutside_untouched (ops : BatOps α B) (env : PEnv α) (cs : StationS α)
    (pv : PVeh α B) (connected : List (Ts α)) (n : Nat) (pl1 : Plan α B)
    (h : planOutside ops env cs pv connected n = .ok pl1) :
    (∀ k, Free connected 0 k → pl1.levels[k]? = (List.replicate n (0 : α))[k]?) ∧
    ((∀ t, connected.head? = some t → t.window = true) → pl1.schedule = 0) := by
  unfold planOutside at h
  obtain ⟨balanced, _, h⟩ := bind_ok h
  split at h
  · split at h
    · obtain ⟨mx, _, h⟩ := bind_ok h
      exact searchLoop_untouched ops _ cs _ _ _ _ _ connected _ _ _ _ _ h
    · obtain ⟨r, hr, h⟩ := bind_ok h
      simp only [Except.ok.injEq] at h
      subst h
      obtain ⟨h1, h2⟩ := constPass_untouched ops _ cs _ _ connected 0 _ _ hr
      exact ⟨h1, fun hc => h2 (Or.inr hc)⟩
  · simp only [Except.ok.injEq] at h
    subst h
    exact ⟨fun _ _ => rfl, fun _ => rfl⟩

theorem addLevels_get (eps : α) (levels : List α) :
    ∀ (l : List (Ts α)) (i : Nat) (peak : α) (c' : List (Ts α)) (pk : α),
      addLevels eps levels l i peak = .ok (c', pk) →
      c'.length = l.length ∧ ∀ j t, l[j]? = some t → ∃ lvl, levels[i + j]? = some lvl ∧
        c'[j]? = some { t with power := t.power + lvl } := by
  intro l
  induction l with
  | nil =>
    intro i peak c' pk h
    simp only [addLevels, Except.ok.injEq, Prod.mk.injEq] at h
    obtain ⟨rfl, _⟩ := h
    exact ⟨rfl, by simp⟩
  | cons ts rest ih =>
    intro i peak c' pk h
    unfold addLevels at h
    obtain ⟨lvl, hlvl, h⟩ := bind_ok h
    obtain ⟨x, hx, h⟩ := bind_ok h
    obtain ⟨rest', pk'⟩ := x
    simp only [Except.ok.injEq, Prod.mk.injEq] at h
    obtain ⟨rfl, _⟩ := h
    obtain ⟨hlen, hget⟩ := ih _ _ _ _ hx
    refine ⟨by simp [hlen], ?_⟩
    intro j t hj
    cases j with
    | zero =>
      simp only [List.getElem?_cons_zero, Option.some.injEq] at hj
      subst hj
      refine ⟨lvl, ?_, by simp⟩
      unfold getAt at hlvl
      split at hlvl
      · rename_i v hv; cases hlvl; simpa using hv
      · cases hlvl
    | succ j =>
      simp only [List.getElem?_cons_succ] at hj
      obtain ⟨lv, h1, h2⟩ := hget j t hj
      refine ⟨lv, ?_, by simpa using h2⟩
      have : i + (j + 1) = i + 1 + j := by omega
      rw [this]; exact h1

/-- when the outside-window plan reaches the desired SoC, nothing is planned inside windows -/
theorem planVehicle_follows_windows (ops : BatOps α B) (env : PEnv α) (cs : StationS α) (pv : PVeh α B)
    (timesteps : List (Ts α)) (peak sched : α) (ts' : List (Ts α)) (peak' : α) (pl1 : Plan α B)
    (h1 : planOutside ops env cs pv (timesteps.take (departIdx env pv.v)) (departIdx env pv.v) = .ok pl1)
    (hsuff : ¬ env.eps < pv.v.desiredSoc - ops.soc pl1.bat)
    (h : planVehicle ops env cs pv timesteps peak = .ok (sched, ts', peak')) :
    (∀ (k : Nat) (t : Ts α), timesteps[k]? = some t → t.window = true →
      ∃ t' : Ts α, ts'[k]? = some t' ∧ t'.power = t.power) ∧
    (∀ t : Ts α, timesteps.head? = some t → t.window = true → sched = 0) := by
  unfold planVehicle at h
  simp only at h
  obtain ⟨pl1', h1', ha⟩ := bind_ok h
  rw [h1] at h1'
  have e1 : pl1 = pl1' := Except.ok.inj h1'
  subst e1
  obtain ⟨pl3, h3, hb⟩ := bind_ok ha
  have e3 : pl3 = pl1 := by
    unfold planInside at h3
    simp only [hsuff, if_false, Except.ok.injEq] at h3
    exact h3.symm
  rw [e3] at hb
  obtain ⟨r, hr, hc⟩ := bind_ok hb
  obtain ⟨conn', pk⟩ := r
  simp only [Except.ok.injEq, Prod.mk.injEq] at hc
  obtain ⟨rfl, rfl, rfl⟩ := hc
  clear h ha hb
  set n := departIdx env pv.v with hn
  obtain ⟨hu1, hu2⟩ := planOutside_untouched ops env cs pv _ n pl1 h1
  obtain ⟨hlen, hget⟩ := addLevels_get _ _ _ _ _ _ _ hr
  constructor
  · intro k t hk hw
    by_cases hkn : k < n
    · have hck : (timesteps.take n)[k]? = some t := by
        rw [List.getElem?_take]; simp [hkn, hk]
      obtain ⟨lvl, hl1, hl2⟩ := hget k t hck
      have hfree : Free (timesteps.take n) 0 k := by
        intro t' _ ht'
        simp only [Nat.sub_zero] at ht'
        rw [hck] at ht'
        cases ht'
        exact hw
      have hz := hu1 k hfree
      rw [Nat.zero_add] at hl1
      rw [hl1] at hz
      have hrep : (List.replicate n (0 : α))[k]? = some 0 := by
        rw [List.getElem?_replicate]; simp [hkn]
      rw [hrep] at hz
      cases hz
      refine ⟨{ t with power := t.power + 0 }, ?_, ?_⟩
      · have hlt : k < conn'.length := by
          rw [hlen]
          have := (List.getElem?_eq_some_iff.mp hck).1
          exact this
        rw [List.getElem?_append_left hlt]; exact hl2
      · simp
    · have hkl : k < timesteps.length := (List.getElem?_eq_some_iff.mp hk).1
      have hcl : conn'.length = n := by
        rw [hlen, List.length_take]; omega
      refine ⟨t, ?_, rfl⟩
      rw [List.getElem?_append_right (by omega), hcl, List.getElem?_drop]
      have : n + (k - n) = k := by omega
      rw [this]; exact hk
  · intro t ht hw
    apply hu2
    intro t' ht'
    rw [List.head?_take] at ht'
    split at ht'
    · cases ht'
    · rw [ht] at ht'; cases ht'; exact hw

/-- vehicles whose planned power is not positive get no command when the current step has no surplus -/
theorem chargeVehicles_no_cmd (ops : BatOps α B) (surplus : α) (hs : ¬ 0 < surplus) :
    ∀ (plans : List (PVeh α B × α)) (st st' : PWorld α B × GcS α × List (String × α)),
      (∀ q ∈ plans, q.2 ≤ 0) → chargeVehicles ops plans surplus st = .ok st' →
      st'.2.1 = st.2.1 ∧ st'.2.2 = st.2.2 := by
  intro plans
  induction plans with
  | nil => intro st st' _ h; simp only [chargeVehicles, Except.ok.injEq] at h; subst h; exact ⟨rfl, rfl⟩
  | cons q rest ih =>
    intro st st' hq h
    obtain ⟨pv, planned⟩ := q
    obtain ⟨w, gc, cmds⟩ := st
    obtain ⟨csId, sched, hcs, hso, hcase⟩ := chargeVehicles_cons ops pv planned rest surplus w gc cmds st' h
    have hsp : sched = planned := by
      rcases hso with ⟨_, e⟩ | ⟨hp, _⟩
      · exact e
      · exact absurd hp hs
    have hle : ¬ 0 < sched := by rw [hsp]; exact not_lt.mpr (hq (pv, planned) (by simp))
    rcases hcase with ⟨hp, _⟩ | ⟨_, hrec⟩
    · exact absurd hp hle
    · have := ih _ _ (fun q' hq' => hq q' (List.mem_cons_of_mem _ hq')) hrec
      exact this

/-! ### `step`: the fold over the connectors -/

theorem chargeVehicles_stations (ops : BatOps α B) :
    ∀ (plans : List (PVeh α B × α)) (surplus : α) (st st' : PWorld α B × GcS α × List (String × α)),
      chargeVehicles ops plans surplus st = .ok st' → st'.1.stations = st.1.stations := by
  intro plans
  induction plans with
  | nil => intro surplus st st' h; simp only [chargeVehicles, Except.ok.injEq] at h; subst h; rfl
  | cons q rest ih =>
    intro surplus st st' h
    obtain ⟨pv, planned⟩ := q
    obtain ⟨w, gc, cmds⟩ := st
    obtain ⟨csId, sched, hcs, hso, hcase⟩ := chargeVehicles_cons ops pv planned rest surplus w gc cmds st' h
    rcases hcase with ⟨_, bat', p, _, hrec⟩ | ⟨_, hrec⟩
    · have := ih _ _ _ hrec
      exact this
    · have := ih _ _ _ hrec
      exact this

theorem foldl_setBattery_stations (done : List (StatBatS α B)) :
    ∀ w : PWorld α B, (done.foldl (fun w b => w.setBattery b) w).stations = w.stations := by
  induction done with
  | nil => intro w; rfl
  | cons b rest ih => intro w; simp only [List.foldl_cons]; rw [ih]; rfl

/-- `step_gc` does not touch the charging stations -/
theorem stepGc_stations (ops : BatOps α B) (env : PEnv α) (w : PWorld α B) (g : PGc α) (level : String)
    (w' : PWorld α B) (cmds : List (String × α)) (h : stepGc ops env w g level = .ok (w', cmds)) :
    w'.stations = w.stations := by
  unfold stepGc at h
  simp only at h
  obtain ⟨r1, _, h⟩ := bind_ok h
  obtain ⟨seasons, _, h⟩ := bind_ok h
  obtain ⟨r2, _, h⟩ := bind_ok h
  obtain ⟨r3, _, h⟩ := bind_ok h
  obtain ⟨ts0, _, h⟩ := bind_ok h
  obtain ⟨r4, hc, h⟩ := bind_ok h
  obtain ⟨w1, gc1, cmds1⟩ := r4
  obtain ⟨r5, _, h⟩ := bind_ok h
  obtain ⟨r6, _, h⟩ := bind_ok h
  simp only [Except.ok.injEq, Prod.mk.injEq] at h
  obtain ⟨rfl, _⟩ := h
  have := chargeVehicles_stations ops _ _ _ _ hc
  simp only [PWorld.setGc]
  rw [foldl_setBattery_stations]
  exact this

theorem mem_sdUpdate {β : Type} (other : List (String × β)) :
    ∀ (l : List (String × β)) (kv : String × β), kv ∈ sdUpdate l other → kv ∈ l ∨ kv ∈ other := by
  induction other with
  | nil => intro l kv h; exact Or.inl h
  | cons x xs ih =>
    intro l kv h
    simp only [sdUpdate, List.foldl_cons] at h
    rcases ih (sdSet l x.1 x.2) kv h with h | h
    · rcases mem_sdSet _ _ _ _ h with h | h
      · exact Or.inl h
      · exact Or.inr (by rw [h]; simp)
    · exact Or.inr (List.mem_cons_of_mem _ h)

/-- the commands of a whole `step`: non-negative, and for stations of the world -/
theorem step_commands (ops : BatOps α B) (law : BatLaw ops) (env : PEnv α) (w w' : PWorld α B)
    (cmds : List (String × α)) (h : step ops env w = .ok (w', cmds)) :
    ∀ kv ∈ cmds, 0 ≤ kv.2 ∧ ∃ cs, w.station? kv.1 = some cs := by
  unfold step at h
  have key : ∀ (gs : List (PGc α)) (st st' : PWorld α B × List (String × α)),
      st.1.stations = w.stations → (∀ kv ∈ st.2, 0 ≤ kv.2 ∧ ∃ cs, w.station? kv.1 = some cs) →
      gs.foldlM (fun (st : PWorld α B × List (String × α)) g0 =>
        match st.1.gcs.find? (·.gc.id == g0.gc.id) with
        | none => (.error .keyError : Py (PWorld α B × List (String × α)))
        | some g =>
          match g.level with
          | none => .error .assertion
          | some level => do
            let (w', cmds) ← stepGc ops env st.1 g level
            .ok (w', sdUpdate st.2 cmds)) st = .ok st' →
      (∀ kv ∈ st'.2, 0 ≤ kv.2 ∧ ∃ cs, w.station? kv.1 = some cs) := by
    intro gs
    induction gs with
    | nil =>
      intro st st' _ hc h
      simp only [List.foldlM_nil, pure, Except.pure, Except.ok.injEq] at h
      subst h; exact hc
    | cons g0 rest ih =>
      intro st st' hst hc h
      simp only [List.foldlM_cons] at h
      obtain ⟨st1, h1, h⟩ := bind_ok h
      split at h1
      · cases h1
      · rename_i g hg
        split at h1
        · cases h1
        · rename_i level hl
          obtain ⟨r, hr, h1⟩ := bind_ok h1
          obtain ⟨w1, c1⟩ := r
          simp only [Except.ok.injEq] at h1
          subst h1
          have hs1 := stepGc_stations ops env st.1 g level w1 c1 hr
          refine ih _ _ (by simp only; rw [hs1, hst]) ?_ h
          intro kv hkv
          rcases mem_sdUpdate _ _ _ hkv with hkv | hkv
          · exact hc kv hkv
          · obtain ⟨pv, _, cs, _, h2, _, h4, _, _⟩ := stepGc_commands ops law env st.1 g level w1 c1 hr kv hkv
            refine ⟨h4, cs, ?_⟩
            unfold PWorld.station? at h2 ⊢
            rw [← hst]; exact h2
  exact key w.gcs (w, []) (w', cmds) rfl (by simp) h

/-! ### a concrete battery for the non-vacuity examples -/

/-- ideal battery on ℚ (state = SoC, one-hour steps, efficiency 1, constant maximum power `pmax`): takes
`min(request, pmax, room)` -/
def toyOps (cap pmax : ℚ) : BatOps ℚ ℚ where
  soc b := b
  capacity _ := cap
  efficiency _ := 1
  unloadMaxPower _ := pmax
  load b mp _ tp :=
    let p := max 0 (min (min (tp.getD pmax) (mp.getD pmax)) (min pmax ((1 - b) * cap)))
    .ok (b + p / cap, p)
  unload b mp _ tp :=
    let p := max 0 (min (min (tp.getD pmax) (mp.getD pmax)) (min pmax (b * cap)))
    .ok (b - p / cap, p)
  available b := .ok (max 0 (min pmax (b * cap)))

theorem toyOps_law (cap pmax : ℚ) : BatLaw (toyOps cap pmax) := by
  constructor
  · intro b p b' avg h
    simp only [toyOps, Option.getD_some, Option.getD_none, Except.ok.injEq, Prod.mk.injEq] at h
    obtain ⟨_, rfl⟩ := h
    exact ⟨le_max_left _ _, max_le (le_max_right _ _)
      (le_trans (min_le_left _ _) (le_trans (min_le_right _ _) (le_max_left _ _)))⟩
  · intro b p b' avg h
    simp only [toyOps, Option.getD_some, Option.getD_none, Except.ok.injEq, Prod.mk.injEq] at h
    obtain ⟨_, rfl⟩ := h
    exact ⟨le_max_left _ _, max_le (le_max_right _ _)
      (le_trans (min_le_left _ _) (le_trans (min_le_left _ _) (le_max_left _ _)))⟩
  · intro b p ts b' avg h
    simp only [toyOps, Option.getD_some, Option.getD_none, Except.ok.injEq, Prod.mk.injEq] at h
    obtain ⟨_, rfl⟩ := h
    exact ⟨le_max_left _ _, max_le (le_max_right _ _)
      (le_trans (min_le_left _ _) (le_trans (min_le_right _ _) (le_max_left _ _)))⟩
  · intro b x b' avg h
    simp only [toyOps, Option.getD_some, Option.getD_none, Except.ok.injEq, Prod.mk.injEq] at h
    obtain ⟨_, rfl⟩ := h
    exact ⟨le_max_left _ _, max_le (le_max_right _ _)
      (le_trans (min_le_left _ _) (le_trans (min_le_left _ _) (le_max_left _ _)))⟩
  · intro b a h
    simp only [toyOps, Except.ok.injEq] at h
    subst h
    exact le_max_left _ _

theorem toyOps_noFuel (cap pmax : ℚ) : OpsNoFuel (toyOps cap pmax) :=
  ⟨fun _ _ _ _ => noFuel_ok _, fun _ _ _ _ => noFuel_ok _⟩

/-- one hour in µs -/
def exHour : Int := 3600000000

/-- example clock: hourly steps from midnight (UTC) of day 0, a peak-load window 02:00–04:00 for level MV,
an empty event table, exact sums -/
def exEnv : PEnv ℚ :=
  { eps := 1/100000, tsPerHour := 1, now := ⟨0, some 0⟩, interval := exHour, start := 0, stop := 10 * exHour,
    windows := [("op", [{ start := -5, stop := 5, windows := some [("MV", [(2 * exHour, 4 * exHour)])] }])],
    events := [[], [], [], [], [], [], []], sum := List.sum, bisectFuel := 40 }

/-- the example clock at `h` o'clock -/
def exEnvAt (h : Int) : PEnv ℚ := { exEnv with now := ⟨h * exHour, some 0⟩ }

/-- example connector: 20 kW limit, the given loads, no stationary battery -/
def exGc (loads : List (String × ℚ)) : PGc ℚ := ⟨⟨"G", 20, none, loads⟩, "op", some "MV", none, 0⟩

/-- example world: one connector, one station `cs1` (maximum `csMax`), one vehicle `v1` (10 kWh, constant
11 kW curve, SoC `soc`, desired SoC `desired`, leaving after `hours` hours) -/
def exWorld (loads : List (String × ℚ)) (csMax soc desired : ℚ) (hours : Int) : PWorld ℚ ℚ :=
  { gcs := [exGc loads], stations := [⟨"cs1", "G", csMax, 0, 0⟩],
    vehicles := [⟨⟨"v1", some "cs1", desired, some (hours * exHour), 0, false, 0, soc⟩, [11, 11], none⟩],
    batteries := [] }

/-- the commands of a `step_gc` result (empty on error) -/
def cmdsOf {γ : Type} (r : Py (γ × List (String × ℚ))) : List (String × ℚ) :=
  match r with
  | .ok (_, c) => c
  | .error _ => []

/-- (simulated SoC, levels, schedule) of a plan result -/
def planOf (r : Py (Plan ℚ ℚ)) : Option (ℚ × List ℚ × ℚ) :=
  match r with
  | .ok pl => some (pl.bat, pl.levels, pl.schedule)
  | .error _ => none

/-- (schedule, prognosis powers) of a `planVehicle` result -/
def vehOf (r : Py (ℚ × List (Ts ℚ) × ℚ)) : Option (ℚ × List ℚ) :=
  match r with
  | .ok (s, ts, _) => some (s, ts.map (·.power))
  | .error _ => none

end SpiceEv.PeakLoadWindow
