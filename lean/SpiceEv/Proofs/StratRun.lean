/-
Helper lemmas for Properties/C09_Run.lean: one vehicle followed through the passes of `ruleStep`
(Model/Strategies.lean) and through the iterated step `StratRun.runSteps` (Model/StratRun.lean).
-/
import SpiceEv.Proofs.Strategies
import SpiceEv.Proofs.StrategiesBat
import SpiceEv.Proofs.StrategiesFrame
import SpiceEv.Proofs.StrategiesLower
import SpiceEv.Model.StratRun
import Mathlib.Tactic.Linarith
import Mathlib.Tactic.FieldSimp
import Mathlib.Tactic.Ring
set_option linter.unusedSectionVars false
set_option linter.unusedSimpArgs false
set_option linter.unusedVariables false
namespace SpiceEv.StratRun
open SpiceEv SpiceEv.Frame
variable {α B : Type} [Field α] [LinearOrder α] [IsStrictOrderedRing α]

/-! ### looking a vehicle up after a write -/

theorem vehicle?_setVehicle_ne (w : SWorld α B) (v' : VehicleS α B) (id : String) (h : id ≠ v'.id) :
    (w.setVehicle v').vehicle? id = w.vehicle? id := by
  unfold SWorld.vehicle? SWorld.setVehicle
  simp only
  induction w.vehicles with
  | nil => rfl
  | cons x xs ih =>
    simp only [List.map_cons, List.find?_cons]
    by_cases hx : x.id = v'.id
    · have h0 : (x.id == v'.id) = true := by simpa using hx
      have h1 : (v'.id == id) = false := by simpa using (Ne.symm h)
      have h2 : (x.id == id) = false := by rw [hx]; exact h1
      simp only [h0, if_true, h1, h2]
      exact ih
    · have h0 : (x.id == v'.id) = false := by simpa using hx
      simp only [h0, Bool.false_eq_true, if_false]
      cases hxi : (x.id == id) with
      | true => rfl
      | false => exact ih

theorem vehicle?_setVehicle_eq (w : SWorld α B) (v v' : VehicleS α B) (hv : w.vehicle? v'.id = some v) :
    (w.setVehicle v').vehicle? v'.id = some v' := by
  unfold SWorld.vehicle? SWorld.setVehicle at *
  simp only
  revert hv
  induction w.vehicles with
  | nil => intro hv; simp at hv
  | cons x xs ih =>
    intro hv
    simp only [List.map_cons, List.find?_cons] at hv ⊢
    by_cases hx : x.id = v'.id
    · have h0 : (x.id == v'.id) = true := by simpa using hx
      simp [h0]
    · have h0 : (x.id == v'.id) = false := by simpa using hx
      simp only [h0, Bool.false_eq_true, if_false] at hv ⊢
      exact ih hv

/-- the vehicle `v0` (looked up by its id) is in `w` with a battery satisfying `R`, all other
attributes unchanged -/
def At (R : B → Prop) (v0 : VehicleS α B) (w : SWorld α B) : Prop :=
  ∃ b, w.vehicle? v0.id = some { v0 with bat := b } ∧ R b

theorem at_of_vehicles_eq (R : B → Prop) (v0 : VehicleS α B) (w w' : SWorld α B)
    (h : w'.vehicles = w.vehicles) (hat : At R v0 w) : At R v0 w' := by
  obtain ⟨b, hb, hr⟩ := hat
  exact ⟨b, by unfold SWorld.vehicle? at *; rw [h]; exact hb, hr⟩

/-- the common shape of the writes of the vehicle pass and the surplus pass -/
theorem at_write2 (R0 R : B → Prop) (v0 v : VehicleS α B) (w : SWorld α B) (vid : String)
    (b' : B) (g' : GcS α) (s' : StationS α)
    (hv : w.vehicle? vid = some v)
    (hR : ∀ b, vid = v0.id → v = { v0 with bat := b } → R0 b → R b')
    (hne : vid ≠ v0.id → ∀ b, R0 b → R b)
    (hat : At R0 v0 w) :
    At R v0 (((w.setVehicle { v with bat := b' }).setGc g').setStation s') := by
  obtain ⟨b, hb, hr⟩ := hat
  have hvid : v.id = vid := (vehicle?_some _ _ _ hv).2
  by_cases hx : vid = v0.id
  · subst hx
    rw [hb] at hv
    have hv' : v = { v0 with bat := b } := (Option.some.inj hv).symm
    refine ⟨b', ?_, hR b rfl hv' hr⟩
    have h1 : (w.setVehicle { v with bat := b' }).vehicle? v0.id = some { v with bat := b' } := by
      have := vehicle?_setVehicle_eq w { v0 with bat := b } { v with bat := b' }
        (by simpa [hv'] using hb)
      simpa [hv'] using this
    have h2 : ({ v with bat := b' } : VehicleS α B) = { v0 with bat := b' } := by rw [hv']
    rw [← h2]
    exact h1
  · refine ⟨b, ?_, hne hx b hr⟩
    have h1 := vehicle?_setVehicle_ne w { v with bat := b' } v0.id (by
      intro h; apply hx; simp only at h; rw [h, hvid])
    show (w.setVehicle { v with bat := b' }).vehicle? v0.id = _
    rw [h1]; exact hb

theorem at_write (R : B → Prop) (v0 v : VehicleS α B) (w : SWorld α B) (vid : String)
    (b' : B) (g' : GcS α) (s' : StationS α)
    (hv : w.vehicle? vid = some v)
    (hR : ∀ b, vid = v0.id → v = { v0 with bat := b } → R b → R b')
    (hat : At R v0 w) :
    At R v0 (((w.setVehicle { v with bat := b' }).setGc g').setStation s') :=
  at_write2 R R v0 v w vid b' g' s' hv hR (fun _ _ h => h) hat

/-! ### following the vehicle through the passes

`J` is any invariant of the world that the caller can maintain (connector meta data, load
bounds); `hA` / `hS` say that every battery call the passes can make on OUR vehicle keeps `R`. -/

/-- one vehicle of the allocation pass -/
theorem allocVehicle_at (rule : Rule) (ops : BatOps α B) (env : StratEnv α)
    (J : SWorld α B → Prop) (R : B → Prop) (v0 : VehicleS α B)
    (hA : ∀ w1 b cs gc cheap a power used b' avg, J w1 → gc ∈ w1.gcs → R b → gcCheap env gc = .ok cheap →
        planPower rule ops env cheap (gc.curMax - gc.currentLoad) a cs { v0 with bat := b } = .ok (power, used) →
        chargeCall rule ops env cheap { v0 with bat := b } power = .ok (b', avg) → R b')
    (st st' : SWorld α B × List (String × α) × List (String × α)) (vid : String)
    (hJ : J st.1) (hat : At R v0 st.1) (h : allocVehicle rule ops env st vid = .ok st') :
    At R v0 st'.1 := by
  obtain ⟨v, hv, hc⟩ := allocVehicle_cases rule ops env st st' vid h
  rcases hc with ⟨_, rfl⟩ | ⟨csId, cs, gc, cheap, power, used, bat', avg, hcs, hst, hgc, hch, hpl, hcc, rfl⟩
  · exact hat
  · apply at_write R v0 v st.1 vid bat' _ _ hv _ hat
    intro b hx hvb hr
    subst hvb
    exact hA st.1 b cs gc cheap _ power used bat' avg hJ (gc?_some' _ _ _ hgc).1 hr hch hpl hcc

theorem allocFold_at (rule : Rule) (ops : BatOps α B) (env : StratEnv α)
    (J : SWorld α B → Prop) (R : B → Prop) (v0 : VehicleS α B)
    (hJA : ∀ st st' vid, J st.1 → allocVehicle rule ops env st vid = .ok st' → J st'.1)
    (hA : ∀ w1 b cs gc cheap a power used b' avg, J w1 → gc ∈ w1.gcs → R b → gcCheap env gc = .ok cheap →
        planPower rule ops env cheap (gc.curMax - gc.currentLoad) a cs { v0 with bat := b } = .ok (power, used) →
        chargeCall rule ops env cheap { v0 with bat := b } power = .ok (b', avg) → R b')
    (ids : List String) (st st' : SWorld α B × List (String × α) × List (String × α))
    (hJ : J st.1) (hat : At R v0 st.1) (h : ids.foldlM (allocVehicle rule ops env) st = .ok st') :
    J st'.1 ∧ At R v0 st'.1 :=
  foldlM_inv (allocVehicle rule ops env) (fun s => J s.1 ∧ At R v0 s.1)
    (fun s x s' hi hs => ⟨hJA s s' x hi.1 hs, allocVehicle_at rule ops env J R v0 hA s s' x hi.1 hi.2 hs⟩)
    ids st st' ⟨hJ, hat⟩ h

/-- one vehicle of the surplus pass -/
theorem surplusBody_at (ops : BatOps α B) (env : StratEnv α)
    (J : SWorld α B → Prop) (R : B → Prop) (v0 : VehicleS α B)
    (hS : ∀ w1 b csId cs gc isCheap r, J w1 → gc ∈ w1.gcs → R b →
        surplusLocal ops env isCheap { v0 with bat := b } csId cs gc = .ok (some r) → R r.1)
    (cheap : List (String × Bool)) (st st' : SWorld α B × List (String × α)) (u : VehicleS α B)
    (hJ : J st.1) (hat : At R v0 st.1) (h : surplusBody ops env cheap st u = .ok st') :
    At R v0 st'.1 := by
  rcases surplusBody_cases ops env cheap st st' u h with ⟨_, rfl⟩ | ⟨v, hv, hc⟩
  · exact hat
  · rcases hc with ⟨_, rfl⟩ | ⟨csId, cs, gc, r, hcs, hst, hgc, hloc, rfl⟩
    · exact hat
    · cases r with
      | none => exact hat
      | some t =>
        obtain ⟨bat', d, cur'⟩ := t
        unfold surplusWrite
        apply at_write R v0 v st.1 u.id bat' _ _ hv _ hat
        intro b hx hvb hr
        subst hvb
        exact hS st.1 b csId cs gc _ (bat', d, cur') hJ (gc?_some' _ _ _ hgc).1 hr hloc

theorem distributeSurplus_at (ops : BatOps α B) (env : StratEnv α)
    (J : SWorld α B → Prop) (R : B → Prop) (v0 : VehicleS α B)
    (hJS : ∀ cheap st st' u, J st.1 → surplusBody ops env cheap st u = .ok st' → J st'.1)
    (hS : ∀ w1 b csId cs gc isCheap r, J w1 → gc ∈ w1.gcs → R b →
        surplusLocal ops env isCheap { v0 with bat := b } csId cs gc = .ok (some r) → R r.1)
    (w w' : SWorld α B) (cmds : List (String × α))
    (hJ : J w) (hat : At R v0 w) (h : distributeSurplus ops env w = .ok (w', cmds)) :
    At R v0 w' := by
  rw [distributeSurplus_unfold] at h
  cases hc : w.gcs.mapM (cheapEntry env) with
  | error e => simp [hc, bind, Except.bind] at h
  | ok cheap =>
    simp only [hc, bind, Except.bind] at h
    exact (foldlM_inv (surplusBody ops env cheap) (fun s => J s.1 ∧ At R v0 s.1)
      (fun s x s' hi hs => ⟨hJS cheap s s' x hi.1 hs,
        surplusBody_at ops env J R v0 hS cheap s s' x hi.1 hi.2 hs⟩)
      w.vehicles (w, []) (w', cmds) ⟨hJ, hat⟩ h).2

/-- the battery pass does not touch vehicles -/
theorem updateBatteries_vehicles (ops : BatOps α B) (env : StratEnv α) (w w' : SWorld α B)
    (h : updateBatteries ops env w = .ok w') : w'.vehicles = w.vehicles := by
  rw [updateBatteries_unfold] at h
  cases hc : w.gcs.mapM (cheapEntry env) with
  | error e => simp [hc, bind, Except.bind] at h
  | ok cheap =>
    simp only [hc, bind, Except.bind] at h
    refine foldlM_inv (batBody ops env cheap) (fun s => s.vehicles = w.vehicles) ?_ w.batteries w w' rfl h
    intro s b0 s' hi hs
    rcases batBody_cases ops env cheap s s' b0 hs with ⟨_, rfl⟩ | ⟨b, _, hc⟩
    · exact hi
    · rcases hc with ⟨_, rfl⟩ | ⟨gc, isCheap, r, _, _, _, rfl⟩
      · exact hi
      · exact hi

/-- **the whole step, followed for one vehicle** -/
theorem ruleStep_at (rule : Rule) (ops : BatOps α B) (env : StratEnv α)
    (J : SWorld α B → Prop) (R : B → Prop) (v0 : VehicleS α B)
    (hJr : ∀ w, J w → J (resetStations w))
    (hJA : ∀ st st' vid, J st.1 → allocVehicle rule ops env st vid = .ok st' → J st'.1)
    (hJS : ∀ cheap st st' u, J st.1 → surplusBody ops env cheap st u = .ok st' → J st'.1)
    (hA : ∀ w1 b cs gc cheap a power used b' avg, J w1 → gc ∈ w1.gcs → R b → gcCheap env gc = .ok cheap →
        planPower rule ops env cheap (gc.curMax - gc.currentLoad) a cs { v0 with bat := b } = .ok (power, used) →
        chargeCall rule ops env cheap { v0 with bat := b } power = .ok (b', avg) → R b')
    (hS : ∀ w1 b csId cs gc isCheap r, J w1 → gc ∈ w1.gcs → R b →
        surplusLocal ops env isCheap { v0 with bat := b } csId cs gc = .ok (some r) → R r.1)
    (w w' : SWorld α B) (cmds : List (String × α))
    (hJ : J w) (hat : At R v0 w) (h : ruleStep rule ops env w = .ok (w', cmds)) : At R v0 w' := by
  unfold ruleStep at h
  cases ha : availBatPower ops w with
  | error e => simp [ha, bind, Except.bind] at h
  | ok avail =>
    simp only [ha, bind, Except.bind] at h
    cases hf : (sortedVehicleIds (resetStations w)).foldlM (allocVehicle rule ops env)
        (resetStations w, [], avail) with
    | error e => simp [hf] at h
    | ok st1 =>
      obtain ⟨w1, c1, a1⟩ := st1
      simp only [hf] at h
      obtain ⟨hJ1, hat1⟩ := allocFold_at rule ops env J R v0 hJA hA _ _ _ (hJr w hJ)
        (at_of_vehicles_eq R v0 w (resetStations w) rfl hat) hf
      cases hd : distributeSurplus ops env w1 with
      | error e => simp [hd] at h
      | ok r2 =>
        obtain ⟨w2, c2⟩ := r2
        simp only [hd] at h
        have hat2 := distributeSurplus_at ops env J R v0 hJS hS w1 w2 c2 hJ1 hat1 hd
        cases hu : updateBatteries ops env w2 with
        | error e => simp [hu] at h
        | ok w3 =>
          simp only [hu, Except.ok.injEq, Prod.mk.injEq] at h
          obtain ⟨rfl, _⟩ := h
          exact at_of_vehicles_eq R v0 w2 w3 (updateBatteries_vehicles ops env w2 w3 hu) hat2

/-! ### battery contracts for the run-level theorems -/

/-- SoC gained per kW of average power over one step: `η / (c · ts_per_hour)` -/
def gain (ops : BatOps α B) (tsph : α) (b : B) : α := ops.efficiency b / (ops.capacity b * tsph)

/-- charging never lowers the SoC -/
def LoadUp (ops : BatOps α B) : Prop :=
  ∀ b mp ts tp b' avg, ops.load b mp ts tp = .ok (b', avg) → ops.soc b ≤ ops.soc b'

/-- **Ideal-linear battery below `top`** (constant charging curve `cap`, no taper below `top`):
every `load` call keeps capacity, efficiency and the curve cap and does not lower the SoC; a
target-power request `p ≥ 0` that does not lead above `top` is delivered as `min(p, cap)` and raises
the SoC by `avg · η/(c·ts_per_hour)`. -/
structure LinearLoad (ops : BatOps α B) (tsph top : α) (cap : B → α) : Prop where
  up : ∀ b mp ts tp b' avg, ops.load b mp ts tp = .ok (b', avg) →
    ops.soc b ≤ ops.soc b' ∧ ops.capacity b' = ops.capacity b ∧ ops.efficiency b' = ops.efficiency b ∧
      cap b' = cap b
  target : ∀ b p b' avg, ops.load b none none (some p) = .ok (b', avg) → 0 ≤ p →
    ops.soc b + p * gain ops tsph b ≤ top →
    avg = min p (cap b) ∧ ops.soc b' = ops.soc b + avg * gain ops tsph b
  cap_nonneg : ∀ b, 0 ≤ cap b

theorem LinearLoad.loadUp {ops : BatOps α B} {tsph top : α} {cap : B → α}
    (h : LinearLoad ops tsph top cap) : LoadUp ops :=
  fun b mp ts tp b' avg hl => (h.up b mp ts tp b' avg hl).1

/-- same battery parameters, SoC not lower -/
def Up (ops : BatOps α B) (cap : B → α) (b0 b : B) : Prop :=
  ops.soc b0 ≤ ops.soc b ∧ ops.capacity b = ops.capacity b0 ∧ ops.efficiency b = ops.efficiency b0 ∧
    cap b = cap b0

theorem Up.refl (ops : BatOps α B) (cap : B → α) (b : B) : Up ops cap b b := ⟨le_refl _, rfl, rfl, rfl⟩

theorem Up.trans {ops : BatOps α B} {cap : B → α} {a b c : B} (h1 : Up ops cap a b) (h2 : Up ops cap b c) :
    Up ops cap a c :=
  ⟨le_trans h1.1 h2.1, h2.2.1.trans h1.2.1, h2.2.2.1.trans h1.2.2.1, h2.2.2.2.trans h1.2.2.2⟩

/-- every battery call of the vehicle pass is a `load` call or none -/
theorem chargeCall_load (rule : Rule) (ops : BatOps α B) (env : StratEnv α) (cheap : Bool)
    (v : VehicleS α B) (power : α) (b' : B) (avg : α)
    (h : chargeCall rule ops env cheap v power = .ok (b', avg)) :
    b' = v.bat ∨ ∃ mp ts tp, ops.load v.bat mp ts tp = .ok (b', avg) := by
  unfold chargeCall at h
  cases rule with
  | greedy =>
    simp only at h
    split at h
    · exact Or.inr ⟨_, _, _, h⟩
    · split at h
      · exact Or.inr ⟨_, _, _, h⟩
      · simp only [Except.ok.injEq, Prod.mk.injEq] at h
        exact Or.inl h.1.symm
  | balanced => exact Or.inr ⟨_, _, _, h⟩

/-- the surplus pass on a vehicle without V2G is a `load` call -/
theorem surplusLocal_load (ops : BatOps α B) (env : StratEnv α) (isCheap : Bool) (v : VehicleS α B)
    (csId : String) (cs : StationS α) (gc : GcS α) (r : B × α × α) (hv : v.v2g = false)
    (h : surplusLocal ops env isCheap v csId cs gc = .ok (some r)) :
    env.eps < -gc.currentLoad ∧ ∃ mp ts tp avg, ops.load v.bat mp ts tp = .ok (r.1, avg) := by
  unfold surplusLocal at h
  simp only at h
  split at h
  · rename_i hs
    refine ⟨hs, ?_⟩
    cases hl : ops.load v.bat
      (some (clampPower (-gc.currentLoad) cs.currentPower cs.maxPower cs.minPower v.minChargingPower))
      none none with
    | error e => simp [hl] at h
    | ok x =>
      obtain ⟨b1, avg⟩ := x
      simp only [hl, Except.ok.injEq, Option.some.injEq] at h
      subst h
      exact ⟨_, _, _, avg, hl⟩
  · split at h
    · rename_i hc
      rw [hv] at hc
      simp at hc
    · simp at h

/-- **one step never lowers a non-V2G vehicle's SoC** -/
theorem ruleStep_soc_up (rule : Rule) (ops : BatOps α B) (hup : LoadUp ops) (env : StratEnv α)
    (v0 : VehicleS α B) (hv2g : v0.v2g = false) (s : α) (w w' : SWorld α B) (cmds : List (String × α))
    (hat : At (fun b => s ≤ ops.soc b) v0 w) (h : ruleStep rule ops env w = .ok (w', cmds)) :
    At (fun b => s ≤ ops.soc b) v0 w' := by
  refine ruleStep_at rule ops env (fun _ => True) _ v0 (fun _ _ => trivial) (fun _ _ _ _ _ => trivial)
    (fun _ _ _ _ _ _ => trivial) ?_ ?_ w w' cmds trivial hat h
  · intro w1 b cs gc cheap a power used b' avg _ _ hr _ _ hcc
    rcases chargeCall_load rule ops env cheap { v0 with bat := b } power b' avg hcc with h1 | ⟨mp, ts, tp, hl⟩
    · rw [h1]; exact hr
    · exact le_trans hr (hup _ mp ts tp b' avg hl)
  · intro w1 b csId cs gc isCheap r _ _ hr hloc
    obtain ⟨_, mp, ts, tp, avg, hl⟩ := surplusLocal_load ops env isCheap { v0 with bat := b } csId cs gc r hv2g hloc
    exact le_trans hr (hup _ mp ts tp r.1 avg hl)

/-! ### greedy at a price above the threshold -/

/-- the power that reaches the desired SoC within one step (`power_needed` of greedy.py) -/
def need (ops : BatOps α B) (tsph : α) (v : VehicleS α B) : α :=
  (v.desiredSoc - ops.soc v.bat) * ops.capacity v.bat / ops.efficiency v.bat * tsph

theorem need_gain (ops : BatOps α B) (tsph : α) (v : VehicleS α B)
    (hc : 0 < ops.capacity v.bat) (he : 0 < ops.efficiency v.bat) (ht : 0 < tsph) :
    need ops tsph v * gain ops tsph v.bat = v.desiredSoc - ops.soc v.bat := by
  unfold need gain
  field_simp

theorem gain_pos (ops : BatOps α B) (tsph : α) (b : B)
    (hc : 0 < ops.capacity b) (he : 0 < ops.efficiency b) (ht : 0 < tsph) : 0 < gain ops tsph b := by
  unfold gain
  positivity

/-- what greedy does with a vehicle when the price is above the threshold -/
theorem greedy_dear_call (ops : BatOps α B) (env : StratEnv α) (left a : α) (cs : StationS α)
    (v : VehicleS α B) (power : α) (used : Bool) (b' : B) (avg : α)
    (hpl : planPower .greedy ops env false left a cs v = .ok (power, used))
    (hcc : chargeCall .greedy ops env false v power = .ok (b', avg)) :
    (¬ env.eps < v.desiredSoc - ops.soc v.bat ∧ b' = v.bat) ∨
    (env.eps < v.desiredSoc - ops.soc v.bat ∧
      power = clampPower (min (need ops env.tsPerHour v) (left + a)) cs.currentPower cs.maxPower cs.minPower
        v.minChargingPower ∧
      ops.load v.bat none none (some power) = .ok (b', avg)) := by
  unfold planPower at hpl
  unfold chargeCall at hcc
  simp only [Bool.false_eq_true, if_false] at hpl hcc
  by_cases hd : env.eps < v.desiredSoc - ops.soc v.bat
  · right
    simp only [hd, if_true, Except.ok.injEq, Prod.mk.injEq, pymin_eq] at hpl hcc
    exact ⟨hd, hpl.1.symm, hcc⟩
  · left
    simp only [hd, if_false, Except.ok.injEq, Prod.mk.injEq] at hcc
    exact ⟨hd, hcc.1.symm⟩

/-- greedy's request never exceeds the power that reaches the desired SoC in this step -/
theorem greedy_request_le_need (ops : BatOps α B) (tsph : α) (v : VehicleS α B) (x cur mx mn vm : α)
    (hn : 0 ≤ need ops tsph v) :
    clampPower (min (need ops tsph v) x) cur mx mn vm ≤ need ops tsph v := by
  refine le_trans (clampPower_bounds _ _ _ _ _).2 ?_
  exact max_le hn (min_le_left _ _)

/-- **greedy above the price threshold: the call keeps the parameters, does not lower the SoC and
does not pass `max(soc, desired)`** -/
theorem greedy_dear_bound (ops : BatOps α B) (env : StratEnv α) (top : α) (cap : B → α)
    (lin : LinearLoad ops env.tsPerHour top cap) (heps : 0 ≤ env.eps) (left a : α) (cs : StationS α)
    (v : VehicleS α B) (hc : 0 < ops.capacity v.bat) (he : 0 < ops.efficiency v.bat)
    (ht : 0 < env.tsPerHour) (htop : v.desiredSoc ≤ top)
    (power : α) (used : Bool) (b' : B) (avg : α)
    (hpl : planPower .greedy ops env false left a cs v = .ok (power, used))
    (hcc : chargeCall .greedy ops env false v power = .ok (b', avg)) :
    Up ops cap v.bat b' ∧ ops.soc b' ≤ max (ops.soc v.bat) v.desiredSoc := by
  rcases greedy_dear_call ops env left a cs v power used b' avg hpl hcc with ⟨_, rfl⟩ | ⟨hd, hp, hl⟩
  · exact ⟨Up.refl _ _ _, le_max_left _ _⟩
  · obtain ⟨h1, h2, h3, h4⟩ := lin.up _ _ _ _ _ _ hl
    refine ⟨⟨h1, h2, h3, h4⟩, ?_⟩
    have hg := gain_pos ops env.tsPerHour v.bat hc he ht
    have hng := need_gain ops env.tsPerHour v hc he ht
    have hn : 0 ≤ need ops env.tsPerHour v := by
      by_contra hneg
      have : need ops env.tsPerHour v * gain ops env.tsPerHour v.bat < 0 :=
        mul_neg_of_neg_of_pos (not_le.mp hneg) hg
      linarith
    have hp0 : 0 ≤ power := by rw [hp]; exact (clampPower_bounds _ _ _ _ _).1
    have hpn : power ≤ need ops env.tsPerHour v := by
      rw [hp]; exact greedy_request_le_need ops env.tsPerHour v _ _ _ _ _ hn
    have hpg : power * gain ops env.tsPerHour v.bat ≤ v.desiredSoc - ops.soc v.bat := by
      rw [← hng]; exact mul_le_mul_of_nonneg_right hpn hg.le
    obtain ⟨ha, hs⟩ := lin.target _ _ _ _ hl hp0 (by linarith)
    have hav : avg ≤ power := by rw [ha]; exact min_le_left _ _
    have : avg * gain ops env.tsPerHour v.bat ≤ power * gain ops env.tsPerHour v.bat :=
      mul_le_mul_of_nonneg_right hav hg.le
    apply le_trans _ (le_max_right _ _)
    linarith

/-! ### world invariant: price above the threshold at every connector, no surplus -/

/-- every connector's price is above the threshold (`get_cost(1, gc.cost) > PRICE_THRESHOLD`) -/
def Dear (env : StratEnv α) (gcs : List (GcS α)) : Prop := ∀ g ∈ gcs, gcCheap env g = .ok false

/-- no connector has a surplus beyond the tolerance: `-load ≤ EPS` -/
def NoSurplus (env : StratEnv α) (gcs : List (GcS α)) : Prop := ∀ g ∈ gcs, -env.eps ≤ g.currentLoad

def DearNoSurplus (env : StratEnv α) (w : SWorld α B) : Prop := Dear env w.gcs ∧ NoSurplus env w.gcs

theorem dear_of_sameMeta (env : StratEnv α) (w w' : SWorld α B) (h : SameMeta w w') (hd : Dear env w.gcs) :
    Dear env w'.gcs := by
  intro g' hg'
  obtain ⟨g, hg, _, hc, _⟩ := h g' hg'
  rw [gcCheap_congr env g g' hc]
  exact hd g hg

theorem surplusBody_sameMeta (ops : BatOps α B) (env : StratEnv α) (cheap : List (String × Bool))
    (st st' : SWorld α B × List (String × α)) (u : VehicleS α B)
    (h : surplusBody ops env cheap st u = .ok st') : SameMeta st.1 st'.1 := by
  unfold surplusBody at h
  split at h
  · simp only [Except.ok.injEq] at h; subst h; exact SameMeta.refl _
  · obtain ⟨w', c'⟩ := st'
    exact surplusVehicle_sameMeta ops env cheap st.1 w' st.2 c' _ h

theorem dearNoSurplus_reset (env : StratEnv α) (w : SWorld α B) (h : DearNoSurplus env w) :
    DearNoSurplus env (resetStations w) := h

theorem dearNoSurplus_alloc (rule : Rule) (ops : BatOps α B) (law : BatLaw ops) (env : StratEnv α)
    (heps : 0 ≤ env.eps) (st st' : SWorld α B × List (String × α) × List (String × α)) (vid : String)
    (hJ : DearNoSurplus env st.1) (h : allocVehicle rule ops env st vid = .ok st') :
    DearNoSurplus env st'.1 :=
  ⟨dear_of_sameMeta env _ _ (allocVehicle_sameMeta rule ops env st st' vid h) hJ.1,
   allocVehicle_above rule ops law env (fun _ => env.eps) (fun _ => heps) st st' vid hJ.2 h⟩

theorem dearNoSurplus_surplus (ops : BatOps α B) (law : BatLaw ops) (env : StratEnv α)
    (heps : 0 ≤ env.eps) (cheap : List (String × Bool)) (st st' : SWorld α B × List (String × α))
    (u : VehicleS α B) (hJ : DearNoSurplus env st.1) (h : surplusBody ops env cheap st u = .ok st') :
    DearNoSurplus env st'.1 :=
  ⟨dear_of_sameMeta env _ _ (surplusBody_sameMeta ops env cheap st st' u h) hJ.1,
   surplusBody_above ops law env heps (fun _ => env.eps) (fun _ => heps) cheap st st' u hJ.2 h⟩

/-- what the run-level theorems assume about the vehicle that is followed -/
structure VehOk (ops : BatOps α B) (top : α) (v0 : VehicleS α B) : Prop where
  v2g : v0.v2g = false
  cap_pos : 0 < ops.capacity v0.bat
  eff_pos : 0 < ops.efficiency v0.bat
  desired_le : v0.desiredSoc ≤ top

/-- the battery predicate of the upper bound -/
def Bounded (ops : BatOps α B) (cap : B → α) (v0 : VehicleS α B) (b : B) : Prop :=
  Up ops cap v0.bat b ∧ ops.soc b ≤ max (ops.soc v0.bat) v0.desiredSoc

/-- **greedy, price above the threshold, no surplus: one step keeps the SoC of a non-V2G vehicle
between its value before and `max(initial SoC, desired SoC)`** -/
theorem ruleStep_greedy_bounded (ops : BatOps α B) (law : BatLaw ops) (env : StratEnv α) (top : α)
    (cap : B → α) (lin : LinearLoad ops env.tsPerHour top cap) (heps : 0 ≤ env.eps)
    (ht : 0 < env.tsPerHour) (v0 : VehicleS α B) (hv : VehOk ops top v0)
    (w w' : SWorld α B) (cmds : List (String × α)) (hJ : DearNoSurplus env w)
    (hat : At (Bounded ops cap v0) v0 w) (h : ruleStep .greedy ops env w = .ok (w', cmds)) :
    At (Bounded ops cap v0) v0 w' := by
  refine ruleStep_at .greedy ops env (DearNoSurplus env) _ v0 (dearNoSurplus_reset env)
    (fun st st' vid => dearNoSurplus_alloc .greedy ops law env heps st st' vid)
    (fun cheap st st' u => dearNoSurplus_surplus ops law env heps cheap st st' u) ?_ ?_ w w' cmds hJ hat h
  · intro w1 b cs gc cheap a power used b' avg hJ1 hg hr hch hpl hcc
    have hcf : cheap = false := by
      have := hJ1.1 gc hg
      rw [this] at hch
      exact (Except.ok.inj hch).symm
    subst hcf
    obtain ⟨hu, hb⟩ := hr
    obtain ⟨h1, h2⟩ := greedy_dear_bound ops env top cap lin heps _ a cs { v0 with bat := b }
      (by show 0 < ops.capacity b; rw [hu.2.1]; exact hv.cap_pos)
      (by show 0 < ops.efficiency b; rw [hu.2.2.1]; exact hv.eff_pos) ht hv.desired_le
      power used b' avg hpl hcc
    refine ⟨Up.trans hu h1, le_trans h2 ?_⟩
    exact max_le hb (le_max_right _ _)
  · intro w1 b csId cs gc isCheap r hJ1 hg hr hloc
    obtain ⟨hs, _⟩ := surplusLocal_load ops env isCheap { v0 with bat := b } csId cs gc r hv.v2g hloc
    have := hJ1.2 gc hg
    exfalso; linarith

/-! ### the first vehicle in id order -/

theorem ruleStep_split (rule : Rule) (ops : BatOps α B) (env : StratEnv α) (w w' : SWorld α B)
    (cmds : List (String × α)) (h : ruleStep rule ops env w = .ok (w', cmds)) :
    ∃ avail st1 w2 c2, availBatPower ops w = .ok avail ∧
      (sortedVehicleIds (resetStations w)).foldlM (allocVehicle rule ops env) (resetStations w, [], avail)
        = .ok st1 ∧
      distributeSurplus ops env st1.1 = .ok (w2, c2) ∧ updateBatteries ops env w2 = .ok w' := by
  unfold ruleStep at h
  cases ha : availBatPower ops w with
  | error e => simp [ha, bind, Except.bind] at h
  | ok avail =>
    simp only [ha, bind, Except.bind] at h
    cases hf : (sortedVehicleIds (resetStations w)).foldlM (allocVehicle rule ops env)
        (resetStations w, [], avail) with
    | error e => simp [hf] at h
    | ok st1 =>
      obtain ⟨w1, c1, a1⟩ := st1
      simp only [hf] at h
      cases hd : distributeSurplus ops env w1 with
      | error e => simp [hd] at h
      | ok r2 =>
        obtain ⟨w2, c2⟩ := r2
        simp only [hd] at h
        cases hu : updateBatteries ops env w2 with
        | error e => simp [hu] at h
        | ok w3 =>
          simp only [hu, Except.ok.injEq, Prod.mk.injEq] at h
          obtain ⟨rfl, _⟩ := h
          exact ⟨avail, (w1, c1, a1), w2, c2, rfl, hf, hd, hu⟩

theorem station?_reset (w : SWorld α B) (csId : String) (cs : StationS α)
    (h : (resetStations w).station? csId = some cs) :
    ∃ cs0 ∈ w.stations, cs = { cs0 with currentPower := 0 } ∧ cs0.id = csId := by
  obtain ⟨hm, hid⟩ := station?_some' _ _ _ h
  unfold resetStations at hm
  simp only [List.mem_map] at hm
  obtain ⟨cs0, h0, rfl⟩ := hm
  exact ⟨cs0, h0, rfl, hid⟩

theorem sdGet_getD_nonneg (l : List (String × α)) (h : ∀ kv ∈ l, 0 ≤ kv.2) (k : String) :
    0 ≤ (sdGet l k).getD 0 := by
  induction l with
  | nil => simp [sdGet]
  | cons x xs ih =>
    obtain ⟨xk, xv⟩ := x
    simp only [sdGet]
    split
    · exact h (xk, xv) List.mem_cons_self
    · exact ih (fun kv hkv => h kv (List.mem_cons_of_mem _ hkv))

/-- the battery support the vehicle loop starts with is not negative -/
theorem availBatPower_nonneg (ops : BatOps α B) (law : BatLaw ops) (w : SWorld α B)
    (avail : List (String × α)) (h : availBatPower ops w = .ok avail) : ∀ kv ∈ avail, 0 ≤ kv.2 := by
  unfold availBatPower at h
  have inner : ∀ (gid : String) (bs : List (StatBatS α B)) (acc p : α), 0 ≤ acc →
      bs.foldlM (fun (acc : α) b =>
        if b.parent == gid then do let a ← ops.available b.bat; pure (acc + a) else pure acc) acc = .ok p →
      0 ≤ p := by
    intro gid bs
    induction bs with
    | nil =>
      intro acc p hacc hp
      simp only [List.foldlM_nil, pure, Except.pure, Except.ok.injEq] at hp
      rw [← hp]; exact hacc
    | cons b bs ih =>
      intro acc p hacc hp
      simp only [List.foldlM_cons, bind, Except.bind] at hp
      split at hp
      · cases hp
      · rename_i acc1 h1
        refine ih acc1 p ?_ hp
        split at h1
        · cases ha : ops.available b.bat with
          | error e => simp [ha, bind, Except.bind] at h1
          | ok a =>
            simp only [ha, bind, Except.bind, pure, Except.pure, Except.ok.injEq] at h1
            have := law.available_nonneg _ _ ha
            rw [← h1]; linarith
        · simp only [pure, Except.pure, Except.ok.injEq] at h1
          rw [← h1]; exact hacc
  revert avail
  induction w.gcs with
  | nil =>
    intro avail h
    simp only [List.mapM_nil, pure, Except.pure, Except.ok.injEq] at h
    subst h
    intro kv hkv; cases hkv
  | cons g gs ih =>
    intro avail h
    simp only [List.mapM_cons, bind, Except.bind] at h
    split at h
    · cases h
    · rename_i y hy
      split at h
      · cases h
      · rename_i ys hys
        simp only [pure, Except.pure, Except.ok.injEq] at h
        subst h
        intro kv hkv
        rcases List.mem_cons.mp hkv with rfl | hm
        · split at hy
          · cases hy
          · rename_i p hp
            simp only [pure, Except.pure, Except.ok.injEq] at hy
            subst hy
            exact inner g.id w.batteries 0 p (le_refl _) hp
        · exact ih ys hys kv hm

/-- **the step, followed for the vehicle that is served first**: the first call is made from the world
as the step finds it — headroom `cur_max − fixed load`, station power 0, battery support `a ≥ 0` —,
every later call keeps `R`. -/
theorem ruleStep_first (rule : Rule) (ops : BatOps α B) (law : BatLaw ops) (env : StratEnv α)
    (J : SWorld α B → Prop) (R0 R : B → Prop) (v0 : VehicleS α B) (csId : String)
    (hcs : v0.cs = some csId)
    (hJr : ∀ w, J w → J (resetStations w))
    (hJA : ∀ st st' vid, J st.1 → allocVehicle rule ops env st vid = .ok st' → J st'.1)
    (hJS : ∀ cheap st st' u, J st.1 → surplusBody ops env cheap st u = .ok st' → J st'.1)
    (hA : ∀ w1 b cs gc cheap a power used b' avg, J w1 → gc ∈ w1.gcs → R b → gcCheap env gc = .ok cheap →
        planPower rule ops env cheap (gc.curMax - gc.currentLoad) a cs { v0 with bat := b } = .ok (power, used) →
        chargeCall rule ops env cheap { v0 with bat := b } power = .ok (b', avg) → R b')
    (hS : ∀ w1 b csId cs gc isCheap r, J w1 → gc ∈ w1.gcs → R b →
        surplusLocal ops env isCheap { v0 with bat := b } csId cs gc = .ok (some r) → R r.1)
    (w w' : SWorld α B) (cmds : List (String × α))
    (hF : ∀ b cs0 gc cheap a power used b' avg, R0 b → cs0 ∈ w.stations → cs0.id = csId → gc ∈ w.gcs →
        w.gc? cs0.parent = some gc → gcCheap env gc = .ok cheap → 0 ≤ a →
        planPower rule ops env cheap (gc.curMax - gc.currentLoad) a { cs0 with currentPower := 0 }
          { v0 with bat := b } = .ok (power, used) →
        chargeCall rule ops env cheap { v0 with bat := b } power = .ok (b', avg) → R b')
    (rest : List String) (hsort : sortedVehicleIds w = v0.id :: rest)
    (hJ : J w) (hat : At R0 v0 w) (h : ruleStep rule ops env w = .ok (w', cmds)) : At R v0 w' := by
  obtain ⟨avail, st1, w2, c2, ha, hf, hd, hu⟩ := ruleStep_split rule ops env w w' cmds h
  have hav := availBatPower_nonneg ops law w avail ha
  have hsort' : sortedVehicleIds (resetStations w) = v0.id :: rest := hsort
  rw [hsort'] at hf
  simp only [List.foldlM_cons, bind, Except.bind] at hf
  cases hs : allocVehicle rule ops env (resetStations w, [], avail) v0.id with
  | error e => simp [hs] at hf
  | ok sta =>
    simp only [hs] at hf
    -- the first call
    have hat0 : At R0 v0 (resetStations w) := at_of_vehicles_eq R0 v0 w (resetStations w) rfl hat
    have hJ0 : J (resetStations w) := hJr w hJ
    have hJa : J sta.1 := hJA _ _ _ hJ0 hs
    have hata : At R v0 sta.1 := by
      obtain ⟨v, hv, hc⟩ := allocVehicle_cases rule ops env _ sta v0.id hs
      rcases hc with ⟨hn, _⟩ | ⟨csId', cs, gc, cheap, power, used, bat', avg, hcs', hst, hgc, hch, hpl, hcc, rfl⟩
      · obtain ⟨b, hb0, hr0⟩ := hat0
        simp only at hv
        rw [hb0] at hv
        have hvb : v = { v0 with bat := b } := (Option.some.inj hv).symm
        rw [hvb] at hn; simp only at hn; rw [hcs] at hn; cases hn
      · apply at_write2 R0 R v0 v (resetStations w) v0.id bat' _ _ hv _ (fun hx => absurd rfl hx) hat0
        intro b _ hvb hr0
        have hcid : csId' = csId := by
          rw [hvb] at hcs'; simp only at hcs'; rw [hcs] at hcs'; exact (Option.some.inj hcs').symm
        subst hcid
        obtain ⟨cs0, hcs0, rfl, hid0⟩ := station?_reset w _ cs hst
        obtain ⟨hgm, hgid⟩ := gc?_some' _ _ _ hgc
        have hz : 0 ≤ (sdGet avail cs0.parent).getD 0 := sdGet_getD_nonneg avail hav cs0.parent
        simp only at hpl
        rw [hvb] at hpl hcc
        exact hF b cs0 gc cheap _ power used bat' avg hr0 hcs0 hid0 hgm hgc hch hz hpl hcc
    obtain ⟨hJ1, hat1⟩ := allocFold_at rule ops env J R v0 hJA hA rest sta st1 hJa hata hf
    have hat2 := distributeSurplus_at ops env J R v0 hJS hS st1.1 w2 c2 hJ1 hat1 hd
    exact at_of_vehicles_eq R v0 w2 w' (updateBatteries_vehicles ops env w2 w' hu) hat2

/-! ### what a step keeps of the world (stations' static data, vehicle ids) -/

def StationsMeta (w w' : SWorld α B) : Prop :=
  ∀ s' ∈ w'.stations, ∃ s ∈ w.stations, s'.id = s.id ∧ s'.maxPower = s.maxPower ∧
    s'.minPower = s.minPower ∧ s'.parent = s.parent

structure Keep (w0 w1 : SWorld α B) : Prop where
  stations : StationsMeta w0 w1
  ids : w1.vehicles.map (·.id) = w0.vehicles.map (·.id)

theorem setVehicle_ids (w : SWorld α B) (v' : VehicleS α B) :
    (w.setVehicle v').vehicles.map (·.id) = w.vehicles.map (·.id) := by
  unfold SWorld.setVehicle
  simp only [List.map_map]
  apply List.map_congr_left
  intro x _
  simp only [Function.comp]
  by_cases hx : x.id = v'.id
  · have : (x.id == v'.id) = true := by simpa using hx
    simp [this, hx]
  · have : (x.id == v'.id) = false := by simpa using hx
    simp [this]

theorem keep_write (w0 w : SWorld α B) (v : VehicleS α B) (b' : B) (g' : GcS α) (cs : StationS α)
    (cur' : α) (hcs : cs ∈ w.stations) (hk : Keep w0 w) :
    Keep w0 (((w.setVehicle { v with bat := b' }).setGc g').setStation { cs with currentPower := cur' }) := by
  refine ⟨?_, ?_⟩
  · intro s' hs'
    rcases mem_setStation _ _ s' hs' with he | hm
    · rw [he]; exact hk.stations cs hcs
    · exact hk.stations s' hm
  · show (w.setVehicle { v with bat := b' }).vehicles.map (·.id) = _
    rw [setVehicle_ids]; exact hk.ids

theorem keep_reset (w0 w : SWorld α B) (hk : Keep w0 w) : Keep w0 (resetStations w) := by
  refine ⟨?_, hk.ids⟩
  intro s' hs'
  unfold resetStations at hs'
  simp only [List.mem_map] at hs'
  obtain ⟨s, hs, rfl⟩ := hs'
  exact hk.stations s hs

theorem keep_alloc (rule : Rule) (ops : BatOps α B) (env : StratEnv α) (w0 : SWorld α B)
    (st st' : SWorld α B × List (String × α) × List (String × α)) (vid : String)
    (hk : Keep w0 st.1) (h : allocVehicle rule ops env st vid = .ok st') : Keep w0 st'.1 := by
  obtain ⟨v, hv, hc⟩ := allocVehicle_cases rule ops env st st' vid h
  rcases hc with ⟨_, rfl⟩ | ⟨csId, cs, gc, cheap, power, used, bat', avg, hcs, hst, hgc, hch, hpl, hcc, rfl⟩
  · exact hk
  · exact keep_write w0 st.1 v bat' _ cs _ (station?_some' _ _ _ hst).1 hk

theorem keep_surplus (ops : BatOps α B) (env : StratEnv α) (w0 : SWorld α B)
    (cheap : List (String × Bool)) (st st' : SWorld α B × List (String × α)) (u : VehicleS α B)
    (hk : Keep w0 st.1) (h : surplusBody ops env cheap st u = .ok st') : Keep w0 st'.1 := by
  rcases surplusBody_cases ops env cheap st st' u h with ⟨_, rfl⟩ | ⟨v, hv, hc⟩
  · exact hk
  · rcases hc with ⟨_, rfl⟩ | ⟨csId, cs, gc, r, hcs, hst, hgc, hloc, rfl⟩
    · exact hk
    · cases r with
      | none => exact hk
      | some t =>
        obtain ⟨bat', d, cur'⟩ := t
        exact keep_write w0 st.1 v bat' _ cs _ (station?_some' _ _ _ hst).1 hk

/-- **a step keeps the stations' static data and the vehicle ids** -/
theorem ruleStep_keep (rule : Rule) (ops : BatOps α B) (env : StratEnv α) (w0 w w' : SWorld α B)
    (cmds : List (String × α)) (hk : Keep w0 w) (h : ruleStep rule ops env w = .ok (w', cmds)) :
    Keep w0 w' := by
  obtain ⟨avail, st1, w2, c2, ha, hf, hd, hu⟩ := ruleStep_split rule ops env w w' cmds h
  have h1 : Keep w0 st1.1 :=
    foldlM_inv (allocVehicle rule ops env) (fun s => Keep w0 s.1)
      (fun s x s' hi hs => keep_alloc rule ops env w0 s s' x hi hs) _ _ _ (keep_reset w0 w hk) hf
  have h2 : Keep w0 w2 := by
    rw [distributeSurplus_unfold] at hd
    cases hc : st1.1.gcs.mapM (cheapEntry env) with
    | error e => simp [hc, bind, Except.bind] at hd
    | ok cheap =>
      simp only [hc, bind, Except.bind] at hd
      exact foldlM_inv (surplusBody ops env cheap) (fun s => Keep w0 s.1)
        (fun s x s' hi hs => keep_surplus ops env w0 cheap s s' x hi hs) _ (st1.1, []) (w2, c2) h1 hd
  refine ⟨?_, ?_⟩
  · intro s' hs'
    rw [updateBatteries_stations ops env w2 w' hu] at hs'
    exact h2.stations s' hs'
  · rw [updateBatteries_vehicles ops env w2 w' hu]; exact h2.ids

theorem keep_refl (w : SWorld α B) : Keep w w :=
  ⟨fun s hs => ⟨s, hs, rfl, rfl, rfl, rfl⟩, rfl⟩

theorem keep_enter (w0 w : SWorld α B) (d : StepGcs α) (hk : Keep w0 w) : Keep w0 (enter w d) :=
  ⟨hk.stations, hk.ids⟩

theorem keep_sorted (w0 w : SWorld α B) (hk : Keep w0 w) : sortedVehicleIds w = sortedVehicleIds w0 := by
  unfold sortedVehicleIds; rw [hk.ids]

/-- static data of the station `csId`: maximum `mx`, no minimum power, at connector `gid` -/
def StationIs (w : SWorld α B) (csId gid : String) (mx : α) : Prop :=
  ∀ s ∈ w.stations, s.id = csId → s.maxPower = mx ∧ s.minPower = 0 ∧ s.parent = gid

theorem stationIs_keep (w0 w : SWorld α B) (csId gid : String) (mx : α) (hk : Keep w0 w)
    (h : StationIs w0 csId gid mx) : StationIs w csId gid mx := by
  intro s hs hid
  obtain ⟨s0, hs0, e1, e2, e3, e4⟩ := hk.stations s hs
  obtain ⟨a, b, c⟩ := h s0 hs0 (e1 ▸ hid)
  exact ⟨e2 ▸ a, e3 ▸ b, e4 ▸ c⟩

/-! ### greedy: lower bound for the vehicle served first -/

/-- without minimum powers and with an idle station `clamp_power` is `max(min(p, max_power), 0)` -/
theorem clampPower_free (p mx : α) : clampPower p 0 mx 0 0 = max (min p mx) 0 := by
  unfold clampPower
  simp only [pymin_eq, pymax_eq, zero_add, sub_zero, or_self]
  split
  · rename_i h; exact (max_eq_right h.le).symm
  · rfl

/-- the connector headroom `cur_max_power − current load` the step finds at connector `gid` -/
def headroom (d : StepGcs α) (gid : String) : α :=
  match d.find? (·.id == gid) with
  | some g => g.curMax - g.currentLoad
  | none => 0

/-- full available power in one step: `min(station maximum, curve cap, connector headroom)`, not negative -/
def fullPower (mx capv : α) (d : StepGcs α) (gid : String) : α :=
  max (min (min (headroom d gid) mx) capv) 0

theorem greedy_gain_arith (nd left mx capv g s d : α) (hn : 0 < nd) (hcap : 0 ≤ capv) (hg : 0 ≤ g)
    (hd : s + nd * g = d) :
    min d (s + max (min (min left mx) capv) 0 * g) ≤ s + min (max (min (min nd left) mx) 0) capv * g := by
  rcases le_total nd (min left mx) with h | h
  · have e1 : min (min nd left) mx = nd := by
      rw [min_assoc]; exact min_eq_left h
    rw [e1, max_eq_left hn.le]
    rcases le_total nd capv with h2 | h2
    · rw [min_eq_left h2, hd]; exact min_le_left _ _
    · rw [min_eq_right h2]
      refine le_trans (min_le_right _ _) ?_
      have : max (min (min left mx) capv) 0 ≤ capv := max_le (min_le_right _ _) hcap
      have := mul_le_mul_of_nonneg_right this hg
      linarith
  · have e1 : min (min nd left) mx = min left mx := by
      rw [min_assoc]; exact min_eq_right h
    rw [e1]
    refine le_trans (min_le_right _ _) ?_
    have : max (min (min left mx) capv) 0 ≤ min (max (min left mx) 0) capv := by
      apply le_min
      · exact max_le_max (min_le_left _ _) (le_refl _)
      · exact max_le (min_le_right _ _) hcap
    have := mul_le_mul_of_nonneg_right this hg
    linarith

/-- the battery predicate of the lower bound -/
def Reached (ops : BatOps α B) (cap : B → α) (v0 : VehicleS α B) (lo : α) (b : B) : Prop :=
  Up ops cap v0.bat b ∧ lo ≤ ops.soc b

theorem reached_up (ops : BatOps α B) (cap : B → α) (v0 : VehicleS α B) (lo : α) (b b' : B)
    (h : Reached ops cap v0 lo b) (hu : Up ops cap b b') : Reached ops cap v0 lo b' :=
  ⟨Up.trans h.1 hu, le_trans h.2 hu.1⟩

theorem chargeCall_up (rule : Rule) (ops : BatOps α B) (env : StratEnv α) (top : α) (cap : B → α)
    (lin : LinearLoad ops env.tsPerHour top cap) (cheap : Bool) (v : VehicleS α B) (power : α) (b' : B)
    (avg : α) (h : chargeCall rule ops env cheap v power = .ok (b', avg)) : Up ops cap v.bat b' := by
  rcases chargeCall_load rule ops env cheap v power b' avg h with h1 | ⟨mp, ts, tp, hl⟩
  · rw [h1]; exact Up.refl _ _ _
  · exact lin.up _ _ _ _ _ _ hl

theorem surplusLocal_up (ops : BatOps α B) (env : StratEnv α) (top : α) (cap : B → α)
    (lin : LinearLoad ops env.tsPerHour top cap) (isCheap : Bool) (v : VehicleS α B) (hv : v.v2g = false)
    (csId : String) (cs : StationS α) (gc : GcS α) (r : B × α × α)
    (h : surplusLocal ops env isCheap v csId cs gc = .ok (some r)) : Up ops cap v.bat r.1 := by
  obtain ⟨_, mp, ts, tp, avg, hl⟩ := surplusLocal_load ops env isCheap v csId cs gc r hv h
  exact lin.up _ _ _ _ _ _ hl

theorem reached_mono (ops : BatOps α B) (cap : B → α) (v0 : VehicleS α B) (lo lo' : α) (b : B)
    (h : Reached ops cap v0 lo' b) (hle : lo ≤ lo') : Reached ops cap v0 lo b := ⟨h.1, le_trans hle h.2⟩

/-- greedy's call for a vehicle at an idle station without minimum powers, price above the threshold:
from `soc ≥ min(desired − EPS, lo)` to `soc ≥ min(desired − EPS, lo + max(min(left, mx, cap), 0)·gain)` -/
theorem greedy_call_reached (ops : BatOps α B) (env : StratEnv α) (top : α) (cap : B → α)
    (lin : LinearLoad ops env.tsPerHour top cap) (heps : 0 ≤ env.eps) (ht : 0 < env.tsPerHour)
    (v0 : VehicleS α B) (hv : VehOk ops top v0) (hvm : v0.minChargingPower = 0)
    (cs : StationS α) (mx : α) (hmx : cs.maxPower = mx) (hmn : cs.minPower = 0)
    (hcur : cs.currentPower = 0) (left a lo : α) (b : B) (power : α) (used : Bool) (b' : B) (avg : α)
    (hr : Reached ops cap v0 (min (v0.desiredSoc - env.eps) lo) b)
    (hpl : planPower .greedy ops env false left a cs { v0 with bat := b } = .ok (power, used))
    (hcc : chargeCall .greedy ops env false { v0 with bat := b } power = .ok (b', avg)) :
    Reached ops cap v0 (min (v0.desiredSoc - env.eps)
      (lo + max (min (min (left + a) mx) (cap v0.bat)) 0 * gain ops env.tsPerHour v0.bat)) b' := by
  obtain ⟨hu, hlo⟩ := hr
  have hcb : 0 < ops.capacity b := by rw [hu.2.1]; exact hv.cap_pos
  have heb : 0 < ops.efficiency b := by rw [hu.2.2.1]; exact hv.eff_pos
  rcases greedy_dear_call ops env left a cs { v0 with bat := b } power used b' avg hpl hcc with
    ⟨hd, rfl⟩ | ⟨hd, hp, hl⟩
  · refine ⟨hu, ?_⟩
    simp only at hd
    exact le_trans (min_le_left _ _) (by linarith [not_lt.mp hd])
  · simp only at hd hp hl
    rw [hmx, hmn, hvm, hcur, clampPower_free] at hp
    obtain ⟨h1, h2, h3, h4⟩ := lin.up _ _ _ _ _ _ hl
    have hg := gain_pos ops env.tsPerHour b hcb heb ht
    have hng := need_gain ops env.tsPerHour { v0 with bat := b } hcb heb ht
    simp only at hng
    have hn : 0 < need ops env.tsPerHour { v0 with bat := b } := by
      by_contra hneg
      have : need ops env.tsPerHour { v0 with bat := b } * gain ops env.tsPerHour b ≤ 0 :=
        mul_nonpos_of_nonpos_of_nonneg (not_lt.mp hneg) hg.le
      linarith
    have hp' : power = max (min (min (need ops env.tsPerHour { v0 with bat := b }) (left + a)) mx) 0 := hp
    have hp0 : 0 ≤ power := by rw [hp']; exact le_max_right _ _
    have hpn : power ≤ need ops env.tsPerHour { v0 with bat := b } := by
      rw [hp']; exact max_le (le_trans (min_le_left _ _) (min_le_left _ _)) hn.le
    have hpg : power * gain ops env.tsPerHour b ≤ v0.desiredSoc - ops.soc b := by
      rw [← hng]; exact mul_le_mul_of_nonneg_right hpn hg.le
    obtain ⟨ha, hs⟩ := lin.target _ _ _ _ hl hp0 (by have := hv.desired_le; linarith)
    refine ⟨Up.trans hu ⟨h1, h2, h3, h4⟩, ?_⟩
    have hgain : gain ops env.tsPerHour b = gain ops env.tsPerHour v0.bat := by
      unfold gain; rw [hu.2.1, hu.2.2.1]
    have hlo' : lo ≤ ops.soc b := by
      rcases le_total (v0.desiredSoc - env.eps) lo with h5 | h5
      · rw [min_eq_left h5] at hlo; linarith
      · rw [min_eq_right h5] at hlo; exact hlo
    have key := greedy_gain_arith (need ops env.tsPerHour { v0 with bat := b })
      (left + a) mx (cap b) (gain ops env.tsPerHour b) (ops.soc b) v0.desiredSoc
      hn (lin.cap_nonneg b) hg.le (by linarith)
    rw [hs, ha, hp']
    rw [← hgain, ← hu.2.2.2]
    refine le_trans ?_ key
    apply min_le_min
    · linarith
    · linarith

/-- **greedy, one step, the vehicle served first**: from `soc ≥ min(desired − EPS, lo)` to
`soc ≥ min(desired − EPS, lo + full power · gain)` -/
theorem ruleStep_greedy_first (ops : BatOps α B) (law : BatLaw ops) (env : StratEnv α) (top : α) (cap : B → α)
    (lin : LinearLoad ops env.tsPerHour top cap) (heps : 0 ≤ env.eps) (ht : 0 < env.tsPerHour)
    (v0 : VehicleS α B) (hv : VehOk ops top v0) (hvm : v0.minChargingPower = 0)
    (csId gid : String) (mx : α) (hcs : v0.cs = some csId)
    (w : SWorld α B) (d : StepGcs α) (w' : SWorld α B) (cmds : List (String × α))
    (hst : StationIs w csId gid mx) (rest : List String)
    (hsort : sortedVehicleIds w = v0.id :: rest) (hdear : Dear env d) (lo : α)
    (hat : At (Reached ops cap v0 (min (v0.desiredSoc - env.eps) lo)) v0 w)
    (h : ruleStep .greedy ops env (enter w d) = .ok (w', cmds)) :
    At (Reached ops cap v0 (min (v0.desiredSoc - env.eps)
      (lo + fullPower mx (cap v0.bat) d gid * gain ops env.tsPerHour v0.bat))) v0 w' := by
  refine ruleStep_first .greedy ops law env (fun w1 => True) _ _ v0 csId hcs (fun _ _ => trivial)
    (fun _ _ _ _ _ => trivial) (fun _ _ _ _ _ _ => trivial) ?_ ?_ (enter w d) w' cmds ?_ rest hsort
    trivial hat h
  · intro w1 b cs gc cheap a power used b' avg _ _ hr _ _ hcc
    exact reached_up ops cap v0 _ b b' hr
      (chargeCall_up .greedy ops env top cap lin cheap { v0 with bat := b } power b' avg hcc)
  · intro w1 b csId' cs gc isCheap r _ _ hr hloc
    exact reached_up ops cap v0 _ b r.1 hr
      (surplusLocal_up ops env top cap lin isCheap { v0 with bat := b } hv.v2g csId' cs gc r hloc)
  · intro b cs0 gc cheap a power used b' avg hr hcs0 hid hgm hgid hch ha0 hpl hcc
    obtain ⟨hmx, hmn, hpar⟩ := hst cs0 hcs0 hid
    have hcf : cheap = false := by
      have := hdear gc hgm
      rw [this] at hch
      exact (Except.ok.inj hch).symm
    subst hcf
    have hhead : headroom d gid = gc.curMax - gc.currentLoad := by
      unfold headroom
      have : (enter w d).gc? cs0.parent = some gc := hgid
      unfold SWorld.gc? enter at this
      simp only at this
      rw [← hpar, this]
    have hres := greedy_call_reached ops env top cap lin heps ht v0 hv hvm { cs0 with currentPower := 0 } mx
      hmx hmn rfl (gc.curMax - gc.currentLoad) a lo b power used b' avg hr hpl hcc
    refine reached_mono ops cap v0 _ _ b' hres ?_
    apply min_le_min (le_refl _)
    have hg : 0 ≤ gain ops env.tsPerHour v0.bat :=
      (gain_pos ops env.tsPerHour v0.bat hv.cap_pos hv.eff_pos ht).le
    have hle : fullPower mx (cap v0.bat) d gid
        ≤ max (min (min (gc.curMax - gc.currentLoad + a) mx) (cap v0.bat)) 0 := by
      unfold fullPower
      rw [hhead]
      apply max_le_max _ (le_refl _)
      apply min_le_min _ (le_refl _)
      apply min_le_min _ (le_refl _)
      linarith
    have := mul_le_mul_of_nonneg_right hle hg
    linarith

/-! ### the iterated step -/

theorem runSteps_cons (rule : Rule) (ops : BatOps α B) (env : StratEnv α) (w : SWorld α B)
    (d : StepGcs α) (ds : List (StepGcs α)) (ws : List (SWorld α B))
    (h : runSteps rule ops env w (d :: ds) = .ok ws) :
    ∃ w' cmds rest, ruleStep rule ops env (enter w d) = .ok (w', cmds) ∧
      runSteps rule ops (tick env) w' ds = .ok rest ∧ ws = w' :: rest := by
  unfold runSteps at h
  simp only [bind, Except.bind] at h
  cases hs : ruleStep rule ops env (enter w d) with
  | error e => simp [hs] at h
  | ok r =>
    obtain ⟨w', cmds⟩ := r
    simp only [hs] at h
    cases hr : runSteps rule ops (tick env) w' ds with
    | error e => simp [hr] at h
    | ok rest =>
      simp only [hr, Except.ok.injEq] at h
      exact ⟨w', cmds, rest, rfl, hr, h.symm⟩

theorem runLast_cons (rule : Rule) (ops : BatOps α B) (env : StratEnv α) (w : SWorld α B)
    (d : StepGcs α) (ds : List (StepGcs α)) (wl : SWorld α B)
    (h : runLast rule ops env w (d :: ds) = .ok wl) :
    ∃ w' cmds, ruleStep rule ops env (enter w d) = .ok (w', cmds) ∧
      runLast rule ops (tick env) w' ds = .ok wl := by
  unfold runLast at h
  simp only [bind, Except.bind] at h
  cases hs : ruleStep rule ops env (enter w d) with
  | error e => simp [hs] at h
  | ok r =>
    obtain ⟨w', cmds⟩ := r
    simp only [hs] at h
    exact ⟨w', cmds, rfl, h⟩

/-- the driver's `runTrace` is `runSteps` when no step raises -/
theorem runTrace_of_runSteps (rule : Rule) (ops : BatOps α B) (ds : List (StepGcs α)) :
    ∀ (env : StratEnv α) (w : SWorld α B) (ws : List (SWorld α B)),
      runSteps rule ops env w ds = .ok ws → runTrace rule ops env w ds = (ws, none) := by
  induction ds with
  | nil =>
    intro env w ws h
    unfold runSteps at h
    simp only [Except.ok.injEq] at h
    subst h; rfl
  | cons d ds ih =>
    intro env w ws h
    obtain ⟨w', cmds, rest, hs, hr, rfl⟩ := runSteps_cons rule ops env w d ds ws h
    unfold runTrace
    simp only [hs, ih (tick env) w' rest hr]

/-- `runLast` is the last world of `runSteps` -/
theorem runLast_of_runSteps (rule : Rule) (ops : BatOps α B) (ds : List (StepGcs α)) :
    ∀ (env : StratEnv α) (w : SWorld α B) (ws : List (SWorld α B)),
      runSteps rule ops env w ds = .ok ws → runLast rule ops env w ds = .ok (ws.getLastD w) := by
  induction ds with
  | nil =>
    intro env w ws h
    unfold runSteps at h
    simp only [Except.ok.injEq] at h
    subst h; rfl
  | cons d ds ih =>
    intro env w ws h
    obtain ⟨w', cmds, rest, hs, hr, rfl⟩ := runSteps_cons rule ops env w d ds ws h
    unfold runLast
    simp only [hs, bind, Except.bind, ih (tick env) w' rest hr]
    cases rest with
    | nil => rfl
    | cons x xs => simp [List.getLastD]

/-- SoC of the vehicle `id` in a world -/
def socOf (ops : BatOps α B) (w : SWorld α B) (id : String) : Option α :=
  (w.vehicle? id).map (fun v => ops.soc v.bat)

/-- the vehicle's SoC in the successive worlds never falls (starting from `s`) -/
def Rising (ops : BatOps α B) (id : String) : α → List (SWorld α B) → Prop
  | _, [] => True
  | s, w :: ws => ∃ s', socOf ops w id = some s' ∧ s ≤ s' ∧ Rising ops id s' ws

/-- the vehicle's SoC is at most `hi` in every world of the list -/
def AllBelow (ops : BatOps α B) (id : String) (hi : α) (ws : List (SWorld α B)) : Prop :=
  ∀ w ∈ ws, ∃ s', socOf ops w id = some s' ∧ s' ≤ hi

theorem at_enter (R : B → Prop) (v0 : VehicleS α B) (w : SWorld α B) (d : StepGcs α) (h : At R v0 w) :
    At R v0 (enter w d) := at_of_vehicles_eq R v0 w (enter w d) rfl h

/-- **no step of the standing period lowers the SoC of a vehicle without V2G** -/
theorem runSteps_rising (rule : Rule) (ops : BatOps α B) (hup : LoadUp ops) (v0 : VehicleS α B)
    (hv2g : v0.v2g = false) (ds : List (StepGcs α)) :
    ∀ (env : StratEnv α) (w : SWorld α B) (b : B) (ws : List (SWorld α B)),
      w.vehicle? v0.id = some { v0 with bat := b } → runSteps rule ops env w ds = .ok ws →
      Rising ops v0.id (ops.soc b) ws := by
  induction ds with
  | nil =>
    intro env w b ws _ h
    unfold runSteps at h
    simp only [Except.ok.injEq] at h
    subst h; trivial
  | cons d ds ih =>
    intro env w b ws hb h
    obtain ⟨w', cmds, rest, hs, hr, rfl⟩ := runSteps_cons rule ops env w d ds ws h
    obtain ⟨b', hb', hle⟩ := ruleStep_soc_up rule ops hup env v0 hv2g (ops.soc b) (enter w d) w' cmds
      (at_enter _ v0 w d ⟨b, hb, le_refl _⟩) hs
    refine ⟨ops.soc b', ?_, hle, ih (tick env) w' b' rest hb' hr⟩
    unfold socOf; rw [hb']; rfl

/-- **greedy, price above the threshold and no surplus in every step: the SoC never passes
`max(initial SoC, desired SoC)`** -/
theorem runSteps_greedy_bounded (ops : BatOps α B) (law : BatLaw ops) (top : α) (cap : B → α)
    (v0 : VehicleS α B) (hv : VehOk ops top v0) (ds : List (StepGcs α)) :
    ∀ (env : StratEnv α) (w : SWorld α B) (ws : List (SWorld α B)),
      LinearLoad ops env.tsPerHour top cap → 0 ≤ env.eps → 0 < env.tsPerHour →
      (∀ d ∈ ds, Dear env d ∧ NoSurplus env d) →
      At (Bounded ops cap v0) v0 w → runSteps .greedy ops env w ds = .ok ws →
      AllBelow ops v0.id (max (ops.soc v0.bat) v0.desiredSoc) ws := by
  induction ds with
  | nil =>
    intro env w ws _ _ _ _ _ h
    unfold runSteps at h
    simp only [Except.ok.injEq] at h
    subst h
    intro w hw; cases hw
  | cons d ds ih =>
    intro env w ws lin heps ht hd hat h
    obtain ⟨w', cmds, rest, hs, hr, rfl⟩ := runSteps_cons .greedy ops env w d ds ws h
    have hat' := ruleStep_greedy_bounded ops law env top cap lin heps ht v0 hv (enter w d) w' cmds
      (hd d (by simp)) (at_enter _ v0 w d hat) hs
    have hrest := ih (tick env) w' rest lin heps ht (fun d' hd' => hd d' (List.mem_cons_of_mem _ hd')) hat' hr
    intro x hx
    rcases List.mem_cons.mp hx with rfl | hx
    · obtain ⟨b', hb', _, hle⟩ := hat'
      exact ⟨ops.soc b', by unfold socOf; rw [hb']; rfl, hle⟩
    · exact hrest x hx

/-- SoC gained in the steps `ds` at full available power -/
def fullGain (ops : BatOps α B) (tsph : α) (b0 : B) (mx capv : α) (gid : String) : List (StepGcs α) → α
  | [] => 0
  | d :: ds => fullPower mx capv d gid * gain ops tsph b0 + fullGain ops tsph b0 mx capv gid ds

/-- **greedy over a standing period, the vehicle served first** -/
theorem runLast_greedy_first (ops : BatOps α B) (law : BatLaw ops) (top : α) (cap : B → α)
    (v0 : VehicleS α B) (hv : VehOk ops top v0) (hvm : v0.minChargingPower = 0)
    (csId gid : String) (mx : α) (hcs : v0.cs = some csId) (w0 : SWorld α B)
    (hst : StationIs w0 csId gid mx) (rest : List String)
    (hsort : sortedVehicleIds w0 = v0.id :: rest) (ds : List (StepGcs α)) :
    ∀ (env : StratEnv α) (w : SWorld α B) (lo : α) (wl : SWorld α B),
      LinearLoad ops env.tsPerHour top cap → 0 ≤ env.eps → 0 < env.tsPerHour →
      (∀ d ∈ ds, Dear env d) → Keep w0 w →
      At (Reached ops cap v0 (min (v0.desiredSoc - env.eps) lo)) v0 w →
      runLast .greedy ops env w ds = .ok wl →
      At (Reached ops cap v0 (min (v0.desiredSoc - env.eps)
        (lo + fullGain ops env.tsPerHour v0.bat mx (cap v0.bat) gid ds))) v0 wl := by
  induction ds with
  | nil =>
    intro env w lo wl _ _ _ _ _ hat h
    unfold runLast at h
    simp only [Except.ok.injEq] at h
    subst h
    simpa [fullGain] using hat
  | cons d ds ih =>
    intro env w lo wl lin heps ht hd hk hat h
    obtain ⟨w', cmds, hs, hr⟩ := runLast_cons .greedy ops env w d ds wl h
    have hat' := ruleStep_greedy_first ops law env top cap lin heps ht v0 hv hvm csId gid mx hcs w d w' cmds
      (stationIs_keep w0 w csId gid mx hk hst) rest
      (by rw [keep_sorted w0 w hk]; exact hsort) (hd d (by simp)) lo hat hs
    have hk' : Keep w0 w' := ruleStep_keep .greedy ops env w0 (enter w d) w' cmds (keep_enter w0 w d hk) hs
    have := ih (tick env) w' _ wl lin heps ht (fun d' hd' => hd d' (List.mem_cons_of_mem _ hd')) hk' hat' hr
    have e1 : (tick env).eps = env.eps := rfl
    have e2 : (tick env).tsPerHour = env.tsPerHour := rfl
    rw [e1, e2] at this
    simpa [fullGain, add_assoc] using this

/-! ### balanced: the vehicle served first, ample power -/

/-- `-(a // -b)` is the ceiling of `a / b` (same statement as `C10_remaining_steps`) -/
theorem ceilDiv_spec (a b : Int) (hb : 0 < b) : a ≤ ceilDiv a b * b ∧ (ceilDiv a b - 1) * b < a := by
  unfold ceilDiv
  rw [Int.fdiv_neg (ne_of_gt hb), Int.fdiv_eq_ediv_of_nonneg a hb.le]
  have h1 := Int.emod_add_mul_ediv a b
  have h2 := Int.emod_nonneg a (ne_of_gt hb)
  have h3 := Int.emod_lt_of_pos a hb
  by_cases hd : b ∣ a
  · have h4 : a % b = 0 := Int.emod_eq_zero_of_dvd hd
    simp only [hd, if_true]
    constructor <;> nlinarith
  · have h4 : a % b ≠ 0 := fun h => hd (Int.dvd_of_emod_eq_zero h)
    have h5 : 0 < a % b := lt_of_le_of_ne h2 (Ne.symm h4)
    simp only [hd, if_false]
    constructor <;> nlinarith

/-- one interval later one step less remains -/
theorem ceilDiv_tick (a b : Int) (hb : 0 < b) : ceilDiv (a - b) b = ceilDiv a b - 1 := by
  obtain ⟨h1, h2⟩ := ceilDiv_spec a b hb
  obtain ⟨h3, h4⟩ := ceilDiv_spec (a - b) b hb
  by_contra hne
  rcases lt_or_gt_of_ne hne with h | h
  · have : ceilDiv (a - b) b + 1 ≤ ceilDiv a b - 1 := by omega
    nlinarith
  · have : ceilDiv a b ≤ ceilDiv (a - b) b := by omega
    nlinarith

/-- what balanced does with a vehicle when the price is above the threshold -/
theorem balanced_dear_call (ops : BatOps α B) (env : StratEnv α) (left a : α) (cs : StationS α)
    (v : VehicleS α B) (power : α) (used : Bool) (b' : B) (avg : α)
    (hpl : planPower .balanced ops env false left a cs v = .ok (power, used))
    (hcc : chargeCall .balanced ops env false v power = .ok (b', avg)) :
    ops.load v.bat none none (some power) = .ok (b', avg) ∧
    ((¬ env.eps < v.desiredSoc - ops.soc v.bat ∧ power = 0) ∨
     (env.eps < v.desiredSoc - ops.soc v.bat ∧ ∃ etd, v.etd = some etd ∧
        (0 < ceilDiv (etd - env.now) env.interval →
          power = clampPower (min (need ops env.tsPerHour v /
              ((ceilDiv (etd - env.now) env.interval : Int) : α)) left)
            cs.currentPower cs.maxPower cs.minPower v.minChargingPower))) := by
  refine ⟨hcc, ?_⟩
  unfold planPower at hpl
  simp only [Bool.false_eq_true, if_false] at hpl
  by_cases hd : env.eps < v.desiredSoc - ops.soc v.bat
  · right
    refine ⟨hd, ?_⟩
    simp only [hd, if_true] at hpl
    cases he : v.etd with
    | none => simp [he] at hpl
    | some etd =>
      refine ⟨etd, rfl, fun hpos => ?_⟩
      simp only [he, hpos, if_true, Except.ok.injEq, Prod.mk.injEq, pymin_eq] at hpl
      exact hpl.1.symm
  · left
    simp only [hd, if_false, Except.ok.injEq, Prod.mk.injEq] at hpl
    exact ⟨hd, hpl.1.symm⟩


end SpiceEv.StratRun
