/-
Model of spice_ev/generate/generate_from_csv.py: `generate_from_csv` for a trip table that
already carries a `vehicle_id` column (`assign_vehicle_id` is modelled in Model/GenCsv.lean for
C20), transliterated statement by statement.

Modelled: scenario start (earliest departure) and stop, vehicle loop, first-row vehicle type,
per-vehicle stable ordering by departure, next-row look-ahead and the last-trip rule
(`max(arrival + 8 h, stop)`), the three consumption columns (`delta_soc`, `soc`, `distance`),
consumption accumulated until the next connection (`connect_cs`), the initial-SoC adjustment, the
desired-SoC back-patch of the previous arrival, the emitted events, the charging-station table and
the three warning sites (counted).
REPAIRED behaviour (fixes/G1.diff): vehicles are visited in sorted id order (the pinned code
iterated over a `set`, so the order of `components.vehicles` and of the event list depended on
PYTHONHASHSEED).
Departure/arrival times are integers: the code sorts the *strings* and parses them with
`strptime("%Y-%m-%d %H:%M:%S")`; for zero-padded strings (the documented format) string order and
time order coincide — the harness only produces such strings (stated assumption).
The mutable reference `last_arrival_event` is modelled by the index of that event in the list of
this vehicle's events (the vehicle's events are a contiguous block of the global list).
Not modelled: price signals, external csv options, low-SoC warnings (`verbose > 0` only).
-/
import SpiceEv.Model.GenEvent
namespace SpiceEv.Gen

inductive CsvMode where
  | deltaSoc   -- column `delta_soc` present
  | soc        -- no `delta_soc`, column `soc` present
  | distance   -- neither: `distance * mileage / capacity`
  deriving DecidableEq, Repr

structure CsvRow (α : Type) where
  dep : Int
  arr : Int
  vtype : String
  vid : String
  /-- `float(row[col])` of the consumption column selected by the mode -/
  val : α
  /-- `int(row["connect_cs"])`, `1` when the column is absent -/
  connect : Int
  deriving Repr

structure CsvType (α : Type) where
  name : String
  capacity : α
  mileage : α
  curvePowers : List α
  deriving Repr

structure CsvParams (α : Type) where
  mode : CsvMode
  days : Int
  minSoc : α
  predefined : List (CsvType α)
  deriving Repr

/-- per-vehicle loop state -/
structure CsvState (α : Type) where
  /-- events of this vehicle appended so far -/
  events : List (VEvent α)
  /-- index (in `events`) of `last_arrival_event`, `none` = None -/
  last : Option Nat
  sum : α
  /-- `vehicles[v_id]["soc"]` -/
  soc0 : α
  /-- warnings: departing before arrival / departing after next arrival / more than 100 % -/
  w1 : Nat
  w2 : Nat
  w3 : Nat
  deriving Repr

section
variable {α : Type} [Add α] [Sub α] [Mul α] [Div α] [Neg α] [LT α] [LE α]
  [DecidableLT α] [DecidableLE α] [OfNat α 0] [OfNat α 1] [OfNat α 100]

/-- consumption of one row as a share of the capacity -/
def csvDelta (P : CsvParams α) (ty : CsvType α) (r : CsvRow α) : Py α :=
  match P.mode with
  | .deltaSoc => .ok r.val
  | .soc => .ok (1 - r.val)
  | .distance => pydiv (r.val * (ty.mileage / 100)) ty.capacity

/-- `departure` of the loop body: the next trip's departure, or — `except IndexError` — stand for
8 h or until the end of the scenario, whichever comes later (`max(arrival + 8 h, stop)`) -/
def csvDeparture (stop : Int) (row : CsvRow α) (next : Option (CsvRow α)) : Int :=
  match next with
  | some n => n.dep
  | none => if row.arr + 8 * HOUR < stop then stop else row.arr + 8 * HOUR

/-- `last_arrival_event["update"]["desired_soc"] = sum_delta_soc` -/
def setDesired (x : α) (e : VEvent α) : VEvent α := { e with desired := x }

def csvArrEvent (minSoc : α) (vid : String) (arrival departure : Int) (sum : α) : VEvent α := {
  kind := .arrival, time := arrival, vehicle := vid, eta := none,
  cs := some ("CS_" ++ vid), etd := some departure, desired := minSoc, socDelta := -sum }

def csvDepEvent (vid : String) (departure : Int) (n : CsvRow α) : VEvent α := {
  kind := .departure, time := departure, vehicle := vid,
  eta := some n.arr, cs := none, etd := none, desired := 0, socDelta := 0 }

/-- `if args.min_soc < sum_delta_soc:` adjust the initial SoC (no arrival yet) or back-patch the
desired SoC of the previous arrival -/
def csvAdjust (P : CsvParams α) (st : CsvState α) (sum : α) : CsvState α :=
  if P.minSoc < sum then
    match st.last with
    | none => { st with soc0 := sum }
    | some i => { st with events := patchAt (setDesired sum) i st.events }
  else st

/-- the `if connect_cs is not None:` block (without the warning counters): adjust, append the
arrival, reset the sum, append the departure of the next trip if there is one -/
def csvConnect (P : CsvParams α) (stop : Int) (vid : String) (st : CsvState α) (row : CsvRow α)
    (next : Option (CsvRow α)) (sum : α) : CsvState α :=
  let departure := csvDeparture stop row next
  let st1 : CsvState α := csvAdjust P st sum
  let st2 : CsvState α := {
    st1 with last := some st1.events.length,
             events := st1.events ++ [csvArrEvent P.minSoc vid row.arr departure sum], sum := 0 }
  match next with
  | none => st2
  | some n => { st2 with events := st2.events ++ [csvDepEvent vid departure n] }

/-- one iteration of `for idx, row in enumerate(v_id_list)`; `next` = `v_id_list[idx + 1]`.
The three warning sites only count. -/
def csvRowStep (P : CsvParams α) (ty : CsvType α) (stop : Int) (vid : String)
    (st : CsvState α) (row : CsvRow α) (next : Option (CsvRow α)) : Py (CsvState α) := do
  let delta ← csvDelta P ty row
  let sum := st.sum + delta
  let departure := csvDeparture stop row next
  let w1 := if departure < row.arr then st.w1 + 1 else st.w1
  if row.connect == 1 then
    let core := csvConnect P stop vid st row next sum
    let w3 := if 1 < sum then st.w3 + 1 else st.w3
    let w2 := match next with
      | some n => if n.arr < departure then st.w2 + 1 else st.w2
      | none => st.w2
    .ok { core with w1 := w1, w2 := w2, w3 := w3 }
  else .ok { st with sum := sum, w1 := w1 }

/-- the row loop of one vehicle -/
def csvRows (P : CsvParams α) (ty : CsvType α) (stop : Int) (vid : String) :
    CsvState α → List (CsvRow α) → Py (CsvState α)
  | st, [] => .ok st
  | st, row :: rest => do
    let st' ← csvRowStep P ty stop vid st row rest.head?
    csvRows P ty stop vid st' rest

/-- `sorted(v_id_list, key=departure_time)` (stable) -/
def sortByDeparture (rows : List (CsvRow α)) : List (CsvRow α) :=
  stableSort (fun a b => decide (a.dep ≤ b.dep)) rows

structure CsvVehicleOut (α : Type) where
  init : VInit α
  station : Station α
  events : List (VEvent α)
  w1 : Nat
  w2 : Nat
  w3 : Nat

/-- body of `for v_id in …` -/
def csvVehicle (P : CsvParams α) (stop : Int) (rows : List (CsvRow α)) (vid : String) :
    Py (CsvVehicleOut α) := do
  let mine := rows.filter (fun r => r.vid == vid)
  match mine.head? with
  | none => .error .indexError
  | some first =>
    -- vehicle_types[v_type]: only types found in the predefined file were copied
    match P.predefined.find? (fun t => t.name == first.vtype) with
    | none => .error .keyError
    | some ty =>
      let csPower ← pyMaxList ty.curvePowers
      let st0 : CsvState α := {
          events := [], last := none, sum := 0, soc0 := P.minSoc,
          w1 := 0, w2 := 0, w3 := 0 }
      let st ← csvRows P ty stop vid st0 (sortByDeparture mine)
      let init : VInit α := {
        id := vid, cs := none, etd := none, desired := none, soc := st.soc0, vtype := first.vtype }
      .ok {
        init := init,
        station := { id := "CS_" ++ vid, maxPower := csPower },
        events := st.events, w1 := st.w1, w2 := st.w2, w3 := st.w3 }

/-- the distinct elements of a list (the last occurrence of each is kept; the order is irrelevant
because the result is sorted) -/
def distinctIds : List String → List String
  | [] => []
  | x :: xs => if xs.contains x then distinctIds xs else x :: distinctIds xs

/-- Python `sorted(set(ids))`: distinct ids in increasing (code point) order -/
def sortedIds (rows : List (CsvRow α)) : List String :=
  stableSort (fun a b => decide (a ≤ b)) (distinctIds (rows.map (·.vid)))

structure CsvOut (α : Type) where
  start : Int
  stop : Int
  vehicles : List (VInit α)
  events : List (VEvent α)
  stations : List (Station α)
  w1 : Nat
  w2 : Nat
  w3 : Nat

/-- Python `times.sort(); times[0]` -/
def minDeparture : List Int → Option Int
  | [] => none
  | t :: ts => some (ts.foldl (fun m x => if x < m then x else m) t)

/-- `generate_from_csv` (vehicle part of the returned scenario) -/
def generateFromCsv (P : CsvParams α) (rows : List (CsvRow α)) : Py (CsvOut α) :=
  match minDeparture (rows.map (·.dep)) with
  | none => .error .indexError
  | some start => do
    let stop := start + P.days * DAY
    let outs ← (sortedIds rows).mapM (csvVehicle P stop rows)
    .ok {
        start := start, stop := stop,
        vehicles := outs.map (·.init),
        events := outs.flatMap (·.events),
        stations := outs.map (·.station),
        w1 := (outs.map (·.w1)).sum, w2 := (outs.map (·.w2)).sum, w3 := (outs.map (·.w3)).sum }

end
end SpiceEv.Gen
