/-
C18 — the results JSON: which entries the file has and in which order (the numbers of the entries
are `C18_aggregates`, `C18_agg_*`).

Property theorems only (lemmas: SpiceEv/Proofs/ReportJson.lean).  `jsonKeys` (Model/ReportJson.lean)
is the list of entries of the dict `aggregate_local_results` returns, in insertion order, each with
its keys in insertion order; `json.dump` writes exactly that order.  The driver prints it
(`report_keys`) and check C18 compares it with the ordered keys of the file the real
`generate_reports` wrote.
-/
import SpiceEv.Proofs.ReportJson
set_option linter.unusedSectionVars false
set_option linter.unusedSimpArgs false
set_option linter.unusedVariables false
namespace SpiceEv
open SpiceEv.Report SpiceEv.ReportAgg SpiceEv.ReportJson
variable {α : Type} [Field α] [LinearOrder α] [IsStrictOrderedRing α]

/-- **One fixed order.**  Whatever the run, the entry names of the results file form a subsequence of
the one list `allEntryNames` (so two entries never swap places), no name occurs twice, and the twelve
unconditional entries are always there. -/
theorem C18_json_order (hasCst : Bool) (res : LocalResults α) :
    ((jsonKeys hasCst res).map (·.1)).Sublist allEntryNames ∧
    ((jsonKeys hasCst res).map (·.1)).Nodup ∧
    (∀ n ∈ ["temporal_parameters", "grid_connector", "photovoltaics", "charging_strategy", "sum of energy",
        "sum of energy per window", "avg standing time", "standing per window", "avg drawn power",
        "local energy generation", "all vehicle battery cycles", "times below desired soc"],
      n ∈ (jsonKeys hasCst res).map (·.1)) :=
  ⟨jsonKeys_order hasCst res, jsonKeys_nodup hasCst res, (jsonKeys_mem hasCst res).2.2.2.2.2.2.2.2⟩

/-- **Which optional entries exist**, in terms of the run record: `core_standing_time` iff the
scenario has one; `avg flex per window` iff the flex report was not skipped; `avg needed energy` iff a
band exists with at least one standing interval and a vehicle present in every interval;
`peak load time windows` iff the strategy is peak_load_window; `power peaks` iff some connector power
is non-zero; `feed-in energy` iff the time series was aggregated before (cost calculation or
time-series file); `max. stored energy in batteries` iff some recorded battery level is non-zero;
`stationary battery cycles` iff the connector's batteries have capacity. -/
theorem C18_json_presence (R : RunData α) (hasCst : Bool)
    (ts : Option (List String × List (List (Cell α)))) (res : LocalResults α)
    (hs : SocsShaped R) (hfin : ∀ b ∈ myBatteries R, b.2.2 ≤ ((2 ^ 63 : Nat) : α))
    (h : aggregateLocal R ts = .ok res) :
    ("core_standing_time" ∈ (jsonKeys hasCst res).map (·.1) ↔ hasCst = true) ∧
    ("avg flex per window" ∈ (jsonKeys hasCst res).map (·.1) ↔ R.flex ≠ .skipped) ∧
    ("avg needed energy" ∈ (jsonKeys hasCst res).map (·.1) ↔
      ∃ mn base mx ivs, R.flex = .band mn base mx ivs ∧ ivs ≠ [] ∧ ∀ i ∈ ivs, i.2 ≠ 0) ∧
    ("peak load time windows" ∈ (jsonKeys hasCst res).map (·.1) ↔ R.isPlw = true) ∧
    ("power peaks" ∈ (jsonKeys hasCst res).map (·.1) ↔ ∃ x ∈ loadsOf R, x ≠ 0) ∧
    ("feed-in energy" ∈ (jsonKeys hasCst res).map (·.1) ↔ ts.isSome = true) ∧
    ("max. stored energy in batteries" ∈ (jsonKeys hasCst res).map (·.1) ↔
      ∃ bl ∈ R.batteryLevels, ∃ x ∈ bl.2, x ≠ 0) ∧
    ("stationary battery cycles" ∈ (jsonKeys hasCst res).map (·.1) ↔
      ((myBatteries R).map (·.2.2)).sum ≠ 0) := by
  obtain ⟨m1, m2, m3, m4, m5, m6, m7, m8, _⟩ := jsonKeys_mem hasCst res
  obtain ⟨st, hst, h2, _, _, _, _, _, h8, hplw, hpk, _, _, hF, hM, hB, _⟩ := aggregateLocal_ok h
  refine ⟨m1, ?_, ?_, ?_, ?_, ?_, ?_, ?_⟩
  · rw [m2]
    rcases fAvgFlex_ok (aggLoop_facts hs hst) h2 with ⟨hf, hr⟩ | ⟨hf, l, hr, _⟩
    · simp [hf, hr]
    · simp [hf, hr]
  · rw [m3, h8]
    cases hf : R.flex with
    | skipped => simp [fNeeded_noband (Or.inl hf)]
    | failed => simp [fNeeded_noband (Or.inr hf)]
    | band mn base mx ivs =>
      rw [fNeeded_band hf]
      by_cases hc : ivs ≠ [] ∧ ∀ i ∈ ivs, i.2 ≠ 0
      · rw [if_pos hc]; simp only [Option.isSome_some, true_iff]
        exact ⟨mn, base, mx, ivs, rfl, hc.1, hc.2⟩
      · rw [if_neg hc]; simp only [Option.isSome_none, Bool.false_eq_true, false_iff]
        rintro ⟨mn', base', mx', ivs', he, h1, h2'⟩
        cases he
        exact hc ⟨h1, h2'⟩
  · rw [m4]
    rcases fPlw_ok hplw with ⟨hp, hr⟩ | ⟨hp, m, _, _, hr⟩
    · simp [hp, hr]
    · simp [hp, hr]
  · rw [m5]
    rcases fPeaks_ok hpk with ⟨hr, hz⟩ | ⟨m, hr, hm, hmax⟩
    · rw [hr]; simp only [Option.isSome_none, Bool.false_eq_true, false_iff]
      rintro ⟨x, hx, hne⟩; exact hne (hz x hx)
    · rw [hr]; simp only [Option.isSome_some, true_iff]
      unfold fPeaks at hpk
      by_cases ha : (loadsOf R).any truthy = true
      · obtain ⟨x, hx, ht⟩ := List.any_eq_true.mp ha
        exact ⟨x, hx, (truthy_iff x).mp ht⟩
      · simp only [ha] at hpk
        simp [pure, Except.pure] at hpk
        rw [← hpk] at hr; cases hr
  · rw [m6]
    unfold fFeedIn at hF
    cases ts with
    | none => simp [pure, Except.pure] at hF; simp [← hF]
    | some t =>
      obtain ⟨hd, rows⟩ := t
      simp only at hF
      obtain ⟨g, _, hF⟩ := bind_ok hF
      obtain ⟨v, _, hF⟩ := bind_ok hF
      obtain ⟨b, _, hF⟩ := bind_ok hF
      simp [pure, Except.pure] at hF
      simp [← hF]
  · rw [m7]
    rcases fMaxStored_ok hM with ⟨hr, hz⟩ | ⟨l, hr, hex, _⟩
    · rw [hr]; simp only [Option.isSome_none, Bool.false_eq_true, false_iff]
      rintro ⟨bl, hbl, x, hx, hne⟩; exact hne (hz bl hbl x hx)
    · rw [hr]; simp only [Option.isSome_some, true_iff]; exact hex
  · rw [m8, fBatCycles_ok hfin hB]
    by_cases hz : ((myBatteries R).map (·.2.2)).sum = 0
    · simp [hz]
    · simp [hz]

/-! ## non-vacuity -/

/-- on the two-step example run (peak_load_window, battery with capacity and non-zero levels, load,
no flex report, no time series attribute): 16 entries in the fixed order; with the example band and a
core standing time: 19 entries, `avg flex per window` and `avg needed energy` in their places. -/
example :
    okAnd (aggregateLocal exRun none) (fun r => decide ((jsonKeys false r).map (·.1) =
      ["temporal_parameters", "grid_connector", "photovoltaics", "charging_strategy", "sum of energy",
       "sum of energy per window", "avg standing time", "standing per window", "peak load time windows",
       "power peaks", "avg drawn power", "local energy generation", "max. stored energy in batteries",
       "stationary battery cycles", "all vehicle battery cycles", "times below desired soc"] ∧
      (jsonKeys false r).lookup "max. stored energy in batteries" = some ["BAT", "unit", "info"])) = true ∧
    okAnd (aggregateLocal exRunFlex none) (fun r => decide (((jsonKeys true r).map (·.1)).length = 19 ∧
      ((jsonKeys true r).map (·.1)).take 6 = ["temporal_parameters", "core_standing_time", "grid_connector",
        "photovoltaics", "charging_strategy", "avg flex per window"] ∧
      "avg needed energy" ∈ (jsonKeys true r).map (·.1))) = true := by
  decide +kernel

/-- a battery called `unit` keeps its place in `max. stored energy in batteries` (the `update` only
overwrites its value) -/
example : batKeys ["B1", "unit"] = ["B1", "unit", "info"] := by decide

end SpiceEv
