/-
C17 for the `flex_window` model (Model/StratFlexWindow.lean): the model's own "out of fuel" marker
`.error (.py .fuel)` is never the answer of a pass / of the step when the brackets of the nine bisections
are at most `EPS · 2^fuel` wide and the battery operations do not report it themselves.

Method: a small weakest-precondition calculus `Safe r Q` ("`r` is not the fuel error, and when it is
`.ok v` then `Q v`") with rules for `bind`, `foldlM`, `bisectM`; the post-condition carried through the
passes is `WB M w`: every connector has `2·cur_max ≤ M`, every station `max_power ≤ M`, every vehicle
`1 − discharge_limit ≤ M`  (`M = EPS · 2^fuel`).
-/
import SpiceEv.Proofs.StratFlexWindow
import Mathlib.Tactic.Ring
import Mathlib.Tactic.Linarith
set_option linter.unusedSectionVars false
set_option linter.unusedSimpArgs false
set_option linter.unusedVariables false
namespace SpiceEv.FlexWindow
open SpiceEv
variable {α B : Type} [Field α] [LinearOrder α] [IsStrictOrderedRing α]

/-- the battery operations never report the model's fuel marker (the battery's own loops: C01 / C17) -/
structure OpsNoFuel (ops : BatOps α B) : Prop where
  load : ∀ b mp ts tp, ops.load b mp ts tp ≠ .error .fuel
  unload : ∀ b mp ts tp, ops.unload b mp ts tp ≠ .error .fuel

/-! ### the calculus -/

/-- `r` is not the fuel error; a value satisfies `Q` -/
def Safe {β : Type} (r : FPy β) (Q : β → Prop) : Prop :=
  match r with
  | .ok v => Q v
  | .error e => e ≠ .py .fuel

theorem Safe.ne {β : Type} {r : FPy β} {Q : β → Prop} (h : Safe r Q) : r ≠ .error (.py .fuel) := by
  intro hc; subst hc; exact h rfl

theorem Safe.post {β : Type} {r : FPy β} {Q : β → Prop} (h : Safe r Q) (v : β) (hv : r = .ok v) : Q v := by
  subst hv; exact h

theorem Safe.ok {β : Type} {Q : β → Prop} (v : β) (h : Q v) : Safe (.ok v : FPy β) Q := h

theorem Safe.pure {β : Type} {Q : β → Prop} (v : β) (h : Q v) : Safe (pure v : FPy β) Q := h

theorem Safe.err {β : Type} {Q : β → Prop} (e : FErr) (h : e ≠ .py .fuel) : Safe (.error e : FPy β) Q := h

theorem Safe.mono {β : Type} {r : FPy β} {P Q : β → Prop} (h : Safe r P) (hpq : ∀ v, r = .ok v → P v → Q v) :
    Safe r Q := by
  cases r with
  | ok v => exact hpq v rfl h
  | error e => exact h

theorem Safe.triv {β : Type} {r : FPy β} (h : r ≠ .error (.py .fuel)) : Safe r (fun _ => True) := by
  cases r with
  | ok v => trivial
  | error e => intro hc; subst hc; exact h rfl

theorem Safe.bind {β γ : Type} {r : FPy β} {f : β → FPy γ} {P : β → Prop} {Q : γ → Prop}
    (hr : Safe r P) (hf : ∀ x, r = .ok x → P x → Safe (f x) Q) : Safe (r >>= f) Q := by
  cases r with
  | ok v => exact hf v rfl hr
  | error e => exact hr

theorem Safe.ite {β : Type} {c : Prop} [Decidable c] {a b : FPy β} {Q : β → Prop}
    (ha : c → Safe a Q) (hb : ¬ c → Safe b Q) : Safe (if c then a else b) Q := by
  split
  · exact ha ‹_›
  · exact hb ‹_›

/-- a battery operation lifted into `FPy` -/
theorem Safe.lift {β : Type} {x : Py β} (h : x ≠ .error .fuel) : Safe (liftM x : FPy β) (fun _ => True) := by
  cases x with
  | ok v => trivial
  | error e =>
    show FErr.py e ≠ FErr.py PyErr.fuel
    intro hc
    apply h
    cases hc
    rfl

theorem Safe.foldlM {σ β : Type} (f : σ → β → FPy σ) (I : σ → Prop) :
    ∀ (l : List β), (∀ s x, x ∈ l → I s → Safe (f s x) I) → ∀ s, I s → Safe (l.foldlM f s) I := by
  intro l
  induction l with
  | nil => intro _ s hs; exact hs
  | cons x xs ih =>
    intro hf s hs
    rw [List.foldlM_cons]
    exact Safe.bind (hf s x (List.mem_cons_self ..) hs)
      (fun s1 _ h1 => ih (fun s x hx => hf s x (List.mem_cons_of_mem _ hx)) s1 h1)

/-- **the bisection loop**: with `hi − lo ≤ eps · 2^fuel` the loop itself never runs out of fuel -/
theorem Safe.bisectM {σ : Type} (eps : α) (body : α → σ → FPy (Bool × σ)) (I : σ → Prop)
    (hbody : ∀ mid s, I s → Safe (body mid s) (fun r => I r.2)) :
    ∀ (fuel : Nat) (lo hi : α) (st : σ), hi - lo ≤ eps * 2 ^ fuel → I st →
      Safe (FlexWindow.bisectM eps body fuel lo hi st) I := by
  intro fuel
  induction fuel with
  | zero =>
    intro lo hi st hgap hI
    unfold FlexWindow.bisectM
    simp only [pow_zero, mul_one] at hgap
    rw [if_neg (not_lt.mpr hgap)]
    exact hI
  | succ f ih =>
    intro lo hi st hgap hI
    unfold FlexWindow.bisectM
    split
    · have h2 : (two : α) = 2 := by simp [two]
      have hhalf : eps * 2 ^ (f + 1) = 2 * (eps * 2 ^ f) := by rw [pow_succ]; ring
      rw [hhalf] at hgap
      refine Safe.bind (hbody _ st hI) (fun r _ hr => ?_)
      split
      · refine ih lo _ r.2 ?_ hr
        rw [h2]
        have : (lo + hi) / 2 - lo = (hi - lo) / 2 := by ring
        rw [this, div_le_iff₀ (by norm_num : (0 : α) < 2)]; linarith
      · refine ih _ hi r.2 ?_ hr
        rw [h2]
        have : hi - (lo + hi) / 2 = (hi - lo) / 2 := by ring
        rw [this, div_le_iff₀ (by norm_num : (0 : α) < 2)]; linarith
    · exact hI

/-! ### battery operations, lookups -/

theorem Safe.load {ops : BatOps α B} (hnf : OpsNoFuel ops) (b : B) (mp ts tp : Option α) :
    Safe (liftM (ops.load b mp ts tp) : FPy (B × α)) (fun _ => True) := Safe.lift (hnf.load b mp ts tp)

theorem Safe.unload {ops : BatOps α B} (hnf : OpsNoFuel ops) (b : B) (mp ts tp : Option α) :
    Safe (liftM (ops.unload b mp ts tp) : FPy (B × α)) (fun _ => True) := Safe.lift (hnf.unload b mp ts tp)

theorem Safe.getStation (w : SWorld α B) (id : String) : Safe (getStation w id) (fun cs => cs ∈ w.stations) := by
  cases h : FlexWindow.getStation w id with
  | ok cs => exact getStation_mem w id cs h
  | error e =>
    unfold FlexWindow.getStation at h
    split at h
    · cases h; exact fun hc => by cases hc
    · cases h

theorem Safe.theGc (w : SWorld α B) : Safe (theGc w) (fun g => g ∈ w.gcs) := by
  unfold FlexWindow.theGc
  split
  · exact fun hc => by cases hc
  · rename_i g rest hw
    show g ∈ w.gcs
    rw [hw]; exact List.mem_cons_self ..

/-! ### the frame carried through the passes -/

/-- `EPS · 2^fuel`: the widest bracket the fuel of the model covers -/
def width (env : FEnv α) : α := env.base.eps * 2 ^ env.fuel

theorem width_nonneg (env : FEnv α) (heps : 0 < env.base.eps) : 0 ≤ width env :=
  mul_nonneg heps.le (pow_nonneg (by norm_num) _)

/-- every connector limit satisfies `Pg`, every station rating `Ps`, every vehicle's discharge limit `Pv`.
The passes only replace connectors / stations / vehicles by ones with the same limit / rating / discharge
limit, so `WB` is kept by every pass. -/
structure WB (Pg Ps Pv : α → Prop) (w : SWorld α B) : Prop where
  gcs : ∀ g ∈ w.gcs, Pg g.curMax
  stations : ∀ s ∈ w.stations, Ps s.maxPower
  vehicles : ∀ v ∈ w.vehicles, Pv v.dischargeLimit

section frame
variable {Pg Ps Pv : α → Prop}

theorem WB.setGc {w : SWorld α B} (h : WB Pg Ps Pv w) (g : GcS α) (hg : Pg g.curMax) : WB Pg Ps Pv (w.setGc g) := by
  refine ⟨?_, h.stations, h.vehicles⟩
  intro x hx
  unfold SWorld.setGc at hx
  simp only [List.mem_map] at hx
  obtain ⟨y, hy, rfl⟩ := hx
  split
  · exact hg
  · exact h.gcs y hy

theorem WB.setStation {w : SWorld α B} (h : WB Pg Ps Pv w) (s : StationS α) (hs : Ps s.maxPower) :
    WB Pg Ps Pv (w.setStation s) := by
  refine ⟨h.gcs, ?_, h.vehicles⟩
  intro x hx
  unfold SWorld.setStation at hx
  simp only [List.mem_map] at hx
  obtain ⟨y, hy, rfl⟩ := hx
  split
  · exact hs
  · exact h.stations y hy

theorem WB.setVehicle {w : SWorld α B} (h : WB Pg Ps Pv w) (v : VehicleS α B) (hv : Pv v.dischargeLimit) :
    WB Pg Ps Pv (w.setVehicle v) := by
  refine ⟨h.gcs, h.stations, ?_⟩
  intro x hx
  unfold SWorld.setVehicle at hx
  simp only [List.mem_map] at hx
  obtain ⟨y, hy, rfl⟩ := hx
  split
  · exact hv
  · exact h.vehicles y hy

theorem WB.setBattery {w : SWorld α B} (h : WB Pg Ps Pv w) (b : StatBatS α B) : WB Pg Ps Pv (w.setBattery b) :=
  ⟨h.gcs, h.stations, h.vehicles⟩

theorem WB.resetStations {w : SWorld α B} (h : WB Pg Ps Pv w) : WB Pg Ps Pv (resetStations w) := by
  refine ⟨h.gcs, ?_, h.vehicles⟩
  intro x hx
  unfold SpiceEv.resetStations at hx
  simp only [List.mem_map] at hx
  obtain ⟨y, hy, rfl⟩ := hx
  exact h.stations y hy

/-- the vehicle object the loop body reads -/
theorem WB.vehicleGetD {w : SWorld α B} (h : WB Pg Ps Pv w) (v0 : VehicleS α B) (hv0 : Pv v0.dischargeLimit)
    (id : String) : Pv ((w.vehicle? id).getD v0).dischargeLimit := by
  cases hf : w.vehicle? id with
  | none => simpa using hv0
  | some v =>
    simp only [Option.getD_some]
    unfold SWorld.vehicle? at hf
    exact h.vehicles v (List.mem_of_find?_eq_some hf)

end frame


/-! ### LOAD_STRAT balanced: vehicles -/

theorem windowPass_safe (ops : BatOps α B) (hnf : OpsNoFuel ops) (env : FEnv α) (cs : StationS α)
    (v : VehicleS α B) : ∀ (l : List (TS α)) (bat : B) (t : Int),
    Safe (windowPass ops env cs v bat t l) (fun _ => True) := by
  intro l
  induction l with
  | nil => intro bat t; unfold windowPass; trivial
  | cons ts rest ih =>
    intro bat t
    unfold windowPass
    dsimp only
    split
    · exact fun hc => by cases hc
    · split
      · trivial
      · split
        · exact Safe.bind (Safe.load hnf _ _ _ _) (fun r _ _ => ih _ _)
        · exact ih _ _

theorem balSim_safe (ops : BatOps α B) (hnf : OpsNoFuel ops) (env : FEnv α) (cs : StationS α)
    (v : VehicleS α B) (ciw : Bool) (power : α) (n : Nat) : ∀ (l : List (TS α)) (bat : B) (t : Int) (i : Nat)
    (pv : List α) (safe : Bool), Safe (balSim ops env cs v ciw power n bat t i l pv safe) (fun _ => True) := by
  intro l
  induction l with
  | nil => intro bat t i pv safe; unfold balSim; trivial
  | cons ts rest ih =>
    intro bat t i pv safe
    unfold balSim
    dsimp only
    split
    · exact fun hc => by cases hc
    · split
      · trivial
      · refine Safe.bind (P := fun _ => True) ?_ (fun r _ _ => ?_)
        · split
          · exact Safe.load hnf _ _ _ _
          · split
            · exact Safe.load hnf _ _ _ _
            · exact Safe.lift (fun hc => by cases hc)
        · split
          · trivial
          · exact ih _ _ _ _ _

theorem clampV_width (env : FEnv α) (heps : 0 < env.base.eps) (p : α) (cs : StationS α) (v : VehicleS α B)
    (hp : p ≤ width env) : clampV p cs v - 0 ≤ env.base.eps * 2 ^ env.fuel := by
  rw [sub_zero]
  exact le_trans (clampV_le p cs v).2 (max_le (width_nonneg env heps) hp)

theorem balVehicle_safe (ops : BatOps α B) (hnf : OpsNoFuel ops) (env : FEnv α) (heps : 0 < env.base.eps)
    (Pg Ps Pv : α → Prop) (hs : ∀ x, Ps x → x ≤ width env)
    (acc : FState α B × List (String × α) × Option α) (v0 : VehicleS α B)
    (hw : WB Pg Ps Pv acc.1.w) (hv0 : Pv v0.dischargeLimit) :
    Safe (balVehicle ops env acc v0) (fun a => WB Pg Ps Pv a.1.w) := by
  unfold balVehicle
  dsimp only
  split
  · exact hw
  · rename_i csId hcs
    refine Safe.bind (Safe.getStation _ _) (fun cs _ hcsm => ?_)
    refine Safe.bind (windowPass_safe ops hnf env cs _ _ _ _) (fun simBat _ _ => ?_)
    refine Safe.bind (P := fun _ => True) ?_ (fun fin _ _ => ?_)
    · refine Safe.bisectM _ _ _ ?_ _ _ _ _ ?_ trivial
      · intro mid s _
        exact Safe.bind (balSim_safe ops hnf env cs _ _ _ _ _ _ _ _ _ _) (fun r _ _ => trivial)
      · exact clampV_width env heps _ _ _ (hs _ (hw.stations cs hcsm))
    · refine Safe.bind (Safe.theGc _) (fun gc _ hgc => ?_)
      split
      · exact fun hc => by cases hc
      · refine Safe.bind (Safe.load hnf _ _ _ _) (fun r _ _ => ?_)
        refine WB.setStation (WB.setGc (WB.setVehicle hw _ ?_) _ ?_) _ ?_
        · exact hw.vehicleGetD v0 hv0 _
        · simp only [addLoad_curMax]; exact hw.gcs gc hgc
        · exact hw.stations cs hcsm

theorem sortedVehicles_safe (ops : BatOps α B) (strat : LoadStrat) (l : List (VehicleS α B))
    (p : VehicleS α B → Bool) :
    Safe (sortedVehicles ops strat (l.filter p)) (fun vs => ∀ v ∈ vs, v ∈ l ∧ p v = true) := by
  cases h : sortedVehicles ops strat (l.filter p) with
  | ok vs => exact fun v hv => (sortedSub ops strat _ vs _ h).1 v hv
  | error e =>
    unfold sortedVehicles at h
    simp only at h
    repeat' split at h
    all_goals first
      | (cases h; done)
      | (cases h; exact fun hc => by cases hc)

theorem distributeBalancedVehicles_safe (ops : BatOps α B) (hnf : OpsNoFuel ops) (env : FEnv α)
    (heps : 0 < env.base.eps) (Pg Ps Pv : α → Prop) (hs : ∀ x, Ps x → x ≤ width env)
    (st : FState α B) (hw : WB Pg Ps Pv st.w) :
    Safe (distributeBalancedVehicles ops env st) (fun a => WB Pg Ps Pv a.1.w) := by
  unfold distributeBalancedVehicles
  refine Safe.bind (sortedVehicles_safe ops env.strat _ _) (fun vs _ hvs => ?_)
  refine Safe.bind (P := fun a => WB Pg Ps Pv a.1.w) ?_ (fun r _ hr => ?_)
  · exact Safe.foldlM _ (fun a => WB Pg Ps Pv a.1.w) vs
      (fun s x hx hI => balVehicle_safe ops hnf env heps Pg Ps Pv hs s x hI (hw.vehicles x (hvs x hx).1))
      (st, [], none) hw
  · exact hr

/-! ### surplus passes -/

theorem surplusToVehicles_safe (ops : BatOps α B) (hnf : OpsNoFuel ops) (env : FEnv α)
    (Pg Ps Pv : α → Prop) (w : SWorld α B) (hw : WB Pg Ps Pv w) :
    Safe (surplusToVehicles ops env w) (fun a => WB Pg Ps Pv a.1) := by
  unfold surplusToVehicles
  refine Safe.foldlM _ (fun (a : SWorld α B × List (String × α)) => WB Pg Ps Pv a.1) w.vehicles
    (fun acc v0 hv0 hI => ?_) (w, []) hw
  dsimp only
  split
  · exact hI
  · rename_i csId hcs
    refine Safe.bind (Safe.getStation _ _) (fun cs _ hcsm => ?_)
    split
    · exact fun hc => by cases hc
    · rename_i gc hgc
      refine Safe.bind (Safe.load hnf _ _ _ _) (fun r _ _ => ?_)
      refine WB.setStation (WB.setGc (WB.setVehicle hI _ ?_) _ ?_) _ ?_
      · exact hI.vehicleGetD v0 (hw.vehicles v0 hv0) _
      · simp only [addLoad_curMax]; exact hI.gcs gc (gc?_some _ _ _ hgc).1
      · exact hI.stations cs hcsm

theorem surplusToBatteries_safe (ops : BatOps α B) (hnf : OpsNoFuel ops) (env : FEnv α)
    (Pg Ps Pv : α → Prop) (w : SWorld α B) (hw : WB Pg Ps Pv w) :
    Safe (surplusToBatteries ops env w) (fun a => WB Pg Ps Pv a) := by
  unfold surplusToBatteries
  refine Safe.foldlM _ (fun a => WB Pg Ps Pv a) w.batteries (fun acc b0 _ hI => ?_) w hw
  dsimp only
  split
  · exact fun hc => by cases hc
  · rename_i gc hgc
    refine Safe.bind (Safe.load hnf _ _ _ _) (fun r _ _ => ?_)
    refine WB.setGc (WB.setBattery hI _) _ ?_
    simp only [addLoad_curMax]; exact hI.gcs gc (gc?_some _ _ _ hgc).1

/-! ### LOAD_STRAT balanced: stationary batteries -/

theorem balBatInner_safe (ops : BatOps α B) (hnf : OpsNoFuel ops) (env : FEnv α) (cw : Bool) (total : α)
    (nb : Nat) : ∀ (bs done : List (StatBatS α B)),
    Safe (balBatInner ops env cw total nb done bs) (fun _ => True) := by
  intro bs
  induction bs with
  | nil => intro done; unfold balBatInner; trivial
  | cons b rest ih =>
    intro done
    unfold balBatInner
    dsimp only
    generalize (if cw = true then decide (1 - env.base.eps < ops.soc b.bat)
      else decide (ops.soc b.bat < 0 + env.base.eps)) = stop
    cases stop with
    | true => trivial
    | false =>
      simp only [Bool.false_eq_true, if_false]
      generalize (if total < b.minChargingPower then (0 : α) else total) = bp
      split
      · refine Safe.bind (P := fun _ => True) ?_ (fun r _ _ => ih _)
        split
        · exact Safe.load hnf _ _ _ _
        · exact Safe.unload hnf _ _ _ _
      · exact ih _

/-- the bracket of the battery bisection of `distribute_balanced_batteries` -/
def balBatHi (st : FState α B) (gc : GcS α) : α :=
  if truthy st.window then gc.curMax - gc.currentLoad
  else pymin (gc.curMax - gc.currentLoad) (gc.curMax + gc.currentLoad)

theorem distributeBalancedBatteries_safe (ops : BatOps α B) (hnf : OpsNoFuel ops) (env : FEnv α)
    (Pg Ps Pv : α → Prop) (st : FState α B) (hw : WB Pg Ps Pv st.w)
    (hbr : ∀ gc, theGc st.w = .ok gc → balBatHi st gc - -gc.curMax ≤ width env) :
    Safe (distributeBalancedBatteries ops env st) (fun a => WB Pg Ps Pv a.w) := by
  unfold distributeBalancedBatteries
  refine Safe.bind (Safe.theGc _) (fun gc hgceq hgc => ?_)
  refine Safe.bind (P := fun _ => True) ?_ (fun total _ _ => ?_)
  · refine Safe.bisectM _ _ _ ?_ _ _ _ _ (hbr gc hgceq) trivial
    intro mid s _
    refine Safe.bind (P := fun _ => True) ?_ (fun r _ _ => trivial)
    exact Safe.foldlM _ (fun _ => True) _ (fun sim _ _ _ => balBatInner_safe ops hnf env _ _ _ _ _) _ trivial
  · refine Safe.foldlM _ (fun a => WB Pg Ps Pv a.w) st.w.batteries (fun s b0 _ hI => ?_) st hw
    dsimp only
    refine Safe.bind (Safe.theGc _) (fun gc1 _ hgc1 => ?_)
    refine Safe.ite (fun _ => ?_) (fun _ => ?_)
    · refine Safe.ite (fun _ => ?_) (fun _ => ?_)
      · refine Safe.bind (Safe.load hnf _ _ _ _) (fun r _ _ => ?_)
        refine WB.setGc (WB.setBattery hI _) _ ?_
        simp only [addLoad_curMax]; exact hI.gcs gc1 hgc1
      · exact hI
    · refine Safe.bind (P := fun _ => True) ?_ (fun r _ _ => ?_)
      · split
        · exact Safe.lift (fun hc => by cases hc)
        · exact Safe.unload hnf _ _ _ _
      · refine WB.setGc (WB.setBattery hI _) _ ?_
        simp only [addLoad_curMax]; exact hI.gcs gc1 hgc1

/-! ### V2G passes: shared pieces -/

theorem connectedLoop_safe (env : FEnv α) (etd : Option Int) : ∀ (l : List (TS α)) (t : Int)
    (win : Option Bool) (wc : Nat) (acc : List (TS α)),
    Safe (connectedLoop env etd t win wc acc l) (fun _ => True) := by
  intro l
  induction l with
  | nil => intro t win wc acc; unfold connectedLoop; trivial
  | cons ts rest ih =>
    intro t win wc acc
    unfold connectedLoop
    dsimp only
    split
    · exact fun hc => by cases hc
    · refine Safe.ite (fun _ => trivial) (fun _ => ?_)
      exact Safe.ite (fun _ => ih _ _ _ _) (fun _ => ih _ _ _ _)

theorem dlBisect_safe (ops : BatOps α B) (hnf : OpsNoFuel ops) (env : FEnv α) (cs : StationS α)
    (v : VehicleS α B) (chargeP : TS α → α) (connected : List (TS α)) (dl0 : Option α)
    (hbr : 1 - v.dischargeLimit ≤ env.base.eps * 2 ^ env.fuel) :
    Safe (dlBisect ops env cs v chargeP connected dl0) (fun _ => True) := by
  unfold dlBisect
  dsimp only
  refine Safe.bisectM _ _ _ ?_ _ _ _ _ hbr trivial
  intro mid s _
  refine Safe.bind (P := fun _ => True) ?_ (fun r _ _ => trivial)
  refine Safe.foldlM _ (fun _ => True) _ (fun bat ts _ _ => ?_) _ trivial
  refine Safe.ite (fun _ => ?_) (fun _ => ?_)
  · exact Safe.bind (Safe.load hnf _ _ _ _) (fun r _ _ => trivial)
  · exact Safe.bind (Safe.unload hnf _ _ _ _) (fun r _ _ => trivial)

theorem dischargeLimit_safe (ops : BatOps α B) (hnf : OpsNoFuel ops) (env : FEnv α) (cs : StationS α)
    (v : VehicleS α B) (chargeP : TS α → α) (cw : Bool) (connected : List (TS α)) (wc : Nat) (dl : Option α)
    (hbr : 1 - v.dischargeLimit ≤ env.base.eps * 2 ^ env.fuel) :
    Safe (dischargeLimit ops env cs v chargeP cw connected wc dl) (fun _ => True) := by
  unfold dischargeLimit
  refine Safe.bind (P := fun _ => True) ?_ (fun d _ _ => ?_)
  · refine Safe.ite (fun _ => dlBisect_safe ops hnf env cs v chargeP connected dl hbr) (fun _ => ?_)
    exact Safe.ite (fun _ => trivial) (fun _ => trivial)
  · refine Safe.ite (fun _ => ?_) (fun _ => trivial)
    split
    · exact fun hc => by cases hc
    · trivial

/-! ### LOAD_STRAT balanced: V2G -/

theorem balV2gSim_safe (ops : BatOps α B) (hnf : OpsNoFuel ops) (env : FEnv α) (cs : StationS α)
    (v : VehicleS α B) (cw : Bool) (dl : Option α) (total : α) : ∀ (l : List (TS α)) (bat : B),
    Safe (balV2gSim ops env cs v cw dl total bat l) (fun _ => True) := by
  intro l
  induction l with
  | nil => intro bat; unfold balV2gSim; trivial
  | cons ts rest ih =>
    intro bat
    unfold balV2gSim
    dsimp only
    refine Safe.ite (fun _ => ?_) (fun _ => ?_)
    · refine Safe.ite (fun _ => trivial) (fun _ => ?_)
      refine Safe.ite (fun _ => ?_) (fun _ => ih _)
      exact Safe.bind (Safe.load hnf _ _ _ _) (fun r _ _ => ih _)
    · split
      · exact fun hc => by cases hc
      · refine Safe.ite (fun _ => trivial) (fun _ => ?_)
        refine Safe.ite (fun _ => ?_) (fun _ => ih _)
        exact Safe.bind (Safe.unload hnf _ _ _ _) (fun r _ _ => ih _)

theorem balV2gVehicle_safe (ops : BatOps α B) (hnf : OpsNoFuel ops) (env : FEnv α) (heps : 0 < env.base.eps)
    (Pg Ps Pv : α → Prop) (hs : ∀ x, Ps x → x ≤ width env) (hv : ∀ x, Pv x → 1 - x ≤ width env)
    (curWindow : Option Bool) (acc : V2gAcc α B) (v0 : VehicleS α B)
    (hw : WB Pg Ps Pv acc.st.w) (hv0 : Pv v0.dischargeLimit) :
    Safe (balV2gVehicle ops env curWindow acc v0) (fun a => WB Pg Ps Pv a.st.w) := by
  unfold balV2gVehicle
  refine Safe.ite (fun _ => hw) (fun _ => ?_)
  have hvd := hw.vehicleGetD v0 hv0 v0.id
  dsimp only
  split
  · exact hw
  · rename_i csId hcs
    refine Safe.bind (Safe.getStation _ _) (fun cs _ hcsm => ?_)
    refine Safe.bind (connectedLoop_safe env _ _ _ _ _ _) (fun x _ _ => ?_)
    obtain ⟨connected, win, wc, ct⟩ := x
    dsimp only
    refine Safe.bind (dischargeLimit_safe ops hnf env cs _ _ _ _ _ _ (hv _ hvd)) (fun y _ _ => ?_)
    obtain ⟨dl, brk⟩ := y
    dsimp only
    refine Safe.ite (fun _ => hw) (fun _ => ?_)
    refine Safe.bind (Safe.theGc _) (fun gc _ hgc => ?_)
    refine Safe.bind (P := fun _ => True) ?_ (fun total _ _ => ?_)
    · refine Safe.bisectM _ _ _ ?_ _ _ _ _ ?_ trivial
      · intro mid s _
        exact Safe.bind (balV2gSim_safe ops hnf env cs _ _ _ _ _ _) (fun r _ _ => trivial)
      · rw [sub_zero]
        refine le_trans ?_ (hs _ (hw.stations cs hcsm))
        split <;> (rw [pymin_eq]; exact min_le_left _ _)
    · have hfin : ∀ (b : B) (x : α), WB Pg Ps Pv
          (((acc.st.w.setVehicle { (acc.st.w.vehicle? v0.id).getD v0 with bat := b }).setGc
            (gc.addLoad csId x).1).setStation { cs with currentPower := cs.currentPower + x }) ∧
          WB Pg Ps Pv
          (((acc.st.w.setVehicle { (acc.st.w.vehicle? v0.id).getD v0 with bat := b }).setGc
            (gc.addLoad csId (-x)).1).setStation { cs with currentPower := cs.currentPower - x }) := by
        intro b x
        constructor
        · refine WB.setStation (WB.setGc (WB.setVehicle hw _ ?_) _ ?_) _ ?_
          · exact hvd
          · simp only [addLoad_curMax]; exact hw.gcs gc hgc
          · exact hw.stations cs hcsm
        · refine WB.setStation (WB.setGc (WB.setVehicle hw _ ?_) _ ?_) _ ?_
          · exact hvd
          · simp only [addLoad_curMax]; exact hw.gcs gc hgc
          · exact hw.stations cs hcsm
      refine Safe.ite (fun _ => ?_) (fun _ => ?_)
      · refine Safe.bind (P := fun _ => True) ?_ (fun r _ _ => (hfin r.1 r.2).1)
        exact Safe.ite (fun _ => Safe.lift (fun hc => by cases hc)) (fun _ => Safe.load hnf _ _ _ _)
      · split
        · exact fun hc => by cases hc
        · refine Safe.bind (P := fun _ => True) ?_ (fun r _ _ => (hfin r.1 r.2).2)
          exact Safe.ite (fun _ => Safe.lift (fun hc => by cases hc)) (fun _ => Safe.unload hnf _ _ _ _)

theorem distributeBalancedV2g_safe (ops : BatOps α B) (hnf : OpsNoFuel ops) (env : FEnv α)
    (heps : 0 < env.base.eps) (Pg Ps Pv : α → Prop) (hs : ∀ x, Ps x → x ≤ width env)
    (hv : ∀ x, Pv x → 1 - x ≤ width env) (st : FState α B) (hw : WB Pg Ps Pv st.w) :
    Safe (distributeBalancedV2g ops env st) (fun a => WB Pg Ps Pv a.1.w) := by
  unfold distributeBalancedV2g
  refine Safe.bind (sortedVehicles_safe ops env.strat _ _) (fun vs _ hvs => ?_)
  split
  · exact fun hc => by cases hc
  · rename_i t0 rest hts
    refine Safe.bind (P := fun a => WB Pg Ps Pv a.st.w) ?_ (fun r _ hr => by exact hr)
    exact Safe.foldlM _ (fun (a : V2gAcc α B) => WB Pg Ps Pv a.st.w) vs
      (fun s x hx hI => balV2gVehicle_safe ops hnf env heps Pg Ps Pv hs hv _ s x hI (hw.vehicles x (hvs x hx).1))
      _ hw

/-! ### LOAD_STRAT greedy / needy: vehicles -/

theorem Safe.filterAuxM {β : Type} (f : β → FPy Bool) (hf : ∀ x, Safe (f x) (fun _ => True)) :
    ∀ (l acc : List β), Safe (List.filterAuxM f l acc) (fun _ => True) := by
  intro l
  induction l with
  | nil => intro acc; unfold List.filterAuxM; trivial
  | cons x xs ih =>
    intro acc
    unfold List.filterAuxM
    exact Safe.bind (hf x) (fun b _ _ => ih _)

theorem Safe.filterM {β : Type} (f : β → FPy Bool) (hf : ∀ x, Safe (f x) (fun _ => True)) (l : List β) :
    Safe (l.filterM f) (fun _ => True) := by
  unfold List.filterM
  exact Safe.bind (Safe.filterAuxM f hf l []) (fun r _ _ => trivial)

theorem distributePower_safe (ops : BatOps α B) (hnf : OpsNoFuel ops) (env : FEnv α) (w : SWorld α B)
    (Pv : α → Prop) (vs : List (VehicleS α B)) (totalPower totalNeeded : α)
    (hvs : ∀ v ∈ vs, Pv v.dischargeLimit) :
    Safe (distributePower ops env w vs totalPower totalNeeded) (fun r => ∀ u ∈ r.1, Pv u.dischargeLimit) := by
  unfold distributePower
  refine Safe.ite (fun _ => hvs) (fun _ => ?_)
  refine Safe.bind (P := fun (a : List (VehicleS α B) × List (String × α) × α) => ∀ u ∈ a.1, Pv u.dischargeLimit)
    ?_ (fun r _ hr => by exact hr)
  refine Safe.foldlM _ (fun (a : List (VehicleS α B) × List (String × α) × α) => ∀ u ∈ a.1, Pv u.dischargeLimit)
    vs (fun acc v hv hI => ?_) _ (by intro u hu; cases hu)
  split
  · exact fun hc => by cases hc
  · refine Safe.bind (Safe.getStation _ _) (fun cs _ _ => ?_)
    refine Safe.bind (P := fun _ => True) ?_ (fun power _ _ => ?_)
    · split
      · trivial
      · trivial
      · exact fun hc => by cases hc
    · refine Safe.bind (Safe.load hnf _ _ _ _) (fun r _ _ => ?_)
      intro u hu
      simp only [List.mem_append, List.mem_singleton] at hu
      rcases hu with hu | rfl
      · exact hI u hu
      · exact hvs v hv

theorem distributePower_nf (ops : BatOps α B) (hnf : OpsNoFuel ops) (env : FEnv α) (w : SWorld α B)
    (vs : List (VehicleS α B)) (totalPower totalNeeded : α) :
    Safe (distributePower ops env w vs totalPower totalNeeded) (fun _ => True) :=
  (distributePower_safe ops hnf env w (fun _ => True) vs totalPower totalNeeded (fun _ _ => trivial)).mono
    (fun _ _ _ => trivial)

theorem psWindowPass_safe (ops : BatOps α B) (hnf : OpsNoFuel ops) (env : FEnv α) (w : SWorld α B) :
    ∀ (l : List (TS α)) (sim : List (VehicleS α B)) (cur : List String) (t : Int),
    Safe (psWindowPass ops env w sim cur t l) (fun _ => True) := by
  intro l
  induction l with
  | nil => intro sim cur t; unfold psWindowPass; trivial
  | cons ts rest ih =>
    intro sim cur t
    unfold psWindowPass
    dsimp only
    refine Safe.bind (P := fun _ => True) ?_ (fun curVs _ _ => ?_)
    · refine Safe.filterM _ (fun v => ?_) _
      split
      · exact fun hc => by cases hc
      · trivial
    · refine Safe.ite (fun _ => trivial) (fun _ => ?_)
      refine Safe.ite (fun _ => ?_) (fun _ => ih _ _ _)
      exact Safe.bind (distributePower_nf ops hnf env w _ _ _) (fun r _ _ => ih _ _ _)

theorem psSelect_safe (ops : BatOps α B) (env : FEnv α) (t : Int) :
    ∀ (l acc : List (VehicleS α B)), Safe (psSelect ops env t acc l) (fun _ => True) := by
  intro l
  induction l with
  | nil => intro acc; unfold psSelect; trivial
  | cons v rest ih =>
    intro acc
    unfold psSelect
    split
    · exact fun hc => by cases hc
    · refine Safe.ite (fun _ => ih _) (fun _ => ?_)
      exact Safe.ite (fun _ => trivial) (fun _ => ih _)

theorem psSim_safe (ops : BatOps α B) (hnf : OpsNoFuel ops) (env : FEnv α) (w : SWorld α B) (total : α) :
    ∀ (l : List (TS α)) (sim : List (VehicleS α B)) (cur : List String) (t : Int),
    Safe (psSim ops env w total sim cur t l) (fun _ => True) := by
  intro l
  induction l with
  | nil => intro sim cur t; unfold psSim; trivial
  | cons ts rest ih =>
    intro sim cur t
    unfold psSim
    dsimp only
    refine Safe.bind (psSelect_safe ops env _ _ _) (fun curVs _ _ => ?_)
    refine Safe.ite (fun _ => trivial) (fun _ => ?_)
    exact Safe.bind (distributePower_nf ops hnf env w _ _ _) (fun r _ _ => ih _ _ _)

theorem WB.mergeById {Pg Ps Pv : α → Prop} {w : SWorld α B} (h : WB Pg Ps Pv w) (upd : List (VehicleS α B))
    (hupd : ∀ u ∈ upd, Pv u.dischargeLimit) :
    WB Pg Ps Pv { w with vehicles := mergeById w.vehicles upd } := by
  refine ⟨h.gcs, h.stations, ?_⟩
  intro x hx
  dsimp only at hx
  unfold FlexWindow.mergeById at hx
  simp only [List.mem_map] at hx
  obtain ⟨y, hy, rfl⟩ := hx
  cases hf : upd.find? (·.id == y.id) with
  | none => simpa using h.vehicles y hy
  | some u =>
    simp only [Option.getD_some]
    exact hupd u (List.mem_of_find?_eq_some hf)

theorem two_curMax (g : GcS α) : g.curMax - -g.curMax = 2 * g.curMax := by ring

theorem distributePeakShavingVehicles_safe (ops : BatOps α B) (hnf : OpsNoFuel ops) (env : FEnv α)
    (Pg Ps Pv : α → Prop) (hg : ∀ x, Pg x → 2 * x ≤ width env)
    (st : FState α B) (hw : WB Pg Ps Pv st.w) :
    Safe (distributePeakShavingVehicles ops env st) (fun a => WB Pg Ps Pv a.1.w) := by
  unfold distributePeakShavingVehicles
  refine Safe.bind (Safe.theGc _) (fun gc _ hgc => ?_)
  refine Safe.bind (sortedVehicles_safe ops env.strat _ _) (fun vehicles _ hvs => ?_)
  have hvd : ∀ v ∈ vehicles, Pv v.dischargeLimit := fun v hv => hw.vehicles v (hvs v hv).1
  dsimp only
  refine Safe.bind (psWindowPass_safe ops hnf env _ _ _ _ _) (fun sim _ _ => ?_)
  refine Safe.bind (P := fun _ => True) ?_ (fun total _ _ => ?_)
  · refine Safe.bisectM _ _ _ ?_ _ _ _ _ ?_ trivial
    · intro mid s _
      exact Safe.bind (psSim_safe ops hnf env _ _ _ _ _ _) (fun r _ _ => trivial)
    · rw [two_curMax]; exact hg _ (hw.gcs gc hgc)
  · refine Safe.bind (P := fun (r : List (VehicleS α B) × List (String × α)) => ∀ u ∈ r.1, Pv u.dischargeLimit)
      ?_ (fun x _ hx => ?_)
    · refine Safe.ite (fun _ => ?_) (fun _ => ?_)
      · split
        · exact fun hc => by cases hc
        · exact distributePower_safe ops hnf env _ Pv _ _ _ hvd
      · refine Safe.ite (fun _ => ?_) (fun _ => hvd)
        exact distributePower_safe ops hnf env _ Pv _ _ _ hvd
    · obtain ⟨vs', cmds⟩ := x
      dsimp only
      refine Safe.foldlM _ (fun (a : FState α B × List (String × α)) => WB Pg Ps Pv a.1.w) cmds
        (fun acc kv _ hI => ?_) _ (hw.mergeById vs' hx)
      refine Safe.bind (Safe.getStation _ _) (fun cs _ hcsm => ?_)
      refine Safe.bind (Safe.theGc _) (fun gc1 _ hgc1 => ?_)
      refine Safe.ite (fun _ => fun hc => by cases hc) (fun _ => ?_)
      refine WB.setStation (WB.setGc hI _ ?_) _ ?_
      · simp only [addLoad_curMax]; exact hI.gcs gc1 hgc1
      · exact hI.stations cs hcsm

/-! ### LOAD_STRAT greedy / needy: V2G -/

theorem psV2gChargeSim_safe (ops : BatOps α B) (hnf : OpsNoFuel ops) (env : FEnv α) (cs : StationS α)
    (v : VehicleS α B) (total : α) : ∀ (l : List (TS α)) (bat : B) (t : Int),
    Safe (psV2gChargeSim ops env cs v total bat t l) (fun _ => True) := by
  intro l
  induction l with
  | nil => intro bat t; unfold psV2gChargeSim; trivial
  | cons ts rest ih =>
    intro bat t
    unfold psV2gChargeSim
    dsimp only
    refine Safe.ite (fun _ => trivial) (fun _ => ?_)
    refine Safe.ite (fun _ => ?_) (fun _ => ih _ _)
    exact Safe.bind (Safe.load hnf _ _ _ _) (fun r _ _ => ih _ _)

theorem psV2gDischargeSim_safe (ops : BatOps α B) (hnf : OpsNoFuel ops) (env : FEnv α) (cs : StationS α)
    (v : VehicleS α B) (d total : α) : ∀ (l : List (TS α)) (bat : B) (t : Int),
    Safe (psV2gDischargeSim ops env cs v d total bat t l) (fun _ => True) := by
  intro l
  induction l with
  | nil => intro bat t; unfold psV2gDischargeSim; trivial
  | cons ts rest ih =>
    intro bat t
    unfold psV2gDischargeSim
    dsimp only
    refine Safe.ite (fun _ => trivial) (fun _ => ?_)
    refine Safe.ite (fun _ => ?_) (fun _ => ih _ _)
    exact Safe.bind (Safe.unload hnf _ _ _ _) (fun r _ _ => ih _ _)

theorem psV2gVehicle_safe (ops : BatOps α B) (hnf : OpsNoFuel ops) (env : FEnv α)
    (Pg Ps Pv : α → Prop) (hg : ∀ x, Pg x → 2 * x ≤ width env) (hv : ∀ x, Pv x → 1 - x ≤ width env)
    (curWindow : Option Bool) (acc : V2gAcc α B) (v0 : VehicleS α B)
    (hw : WB Pg Ps Pv acc.st.w) (hv0 : Pv v0.dischargeLimit) :
    Safe (psV2gVehicle ops env curWindow acc v0) (fun a => WB Pg Ps Pv a.st.w) := by
  unfold psV2gVehicle
  refine Safe.ite (fun _ => hw) (fun _ => ?_)
  have hvd := hw.vehicleGetD v0 hv0 v0.id
  dsimp only
  split
  · exact fun hc => by cases hc
  · rename_i csId hcs
    refine Safe.bind (Safe.getStation _ _) (fun cs _ hcsm => ?_)
    refine Safe.bind (connectedLoop_safe env _ _ _ _ _ _) (fun x _ _ => ?_)
    obtain ⟨connected, win, wc, ct⟩ := x
    dsimp only
    refine Safe.bind (dischargeLimit_safe ops hnf env cs _ _ _ _ _ _ (hv _ hvd)) (fun y _ _ => ?_)
    obtain ⟨dl, brk⟩ := y
    dsimp only
    refine Safe.ite (fun _ => hw) (fun _ => ?_)
    refine Safe.bind (Safe.theGc _) (fun gc _ hgc => ?_)
    have hbr : gc.curMax - -gc.curMax ≤ env.base.eps * 2 ^ env.fuel := by
      rw [two_curMax]; exact hg _ (hw.gcs gc hgc)
    have hfin : ∀ (b : B) (x : α), WB Pg Ps Pv
        (((acc.st.w.setVehicle { (acc.st.w.vehicle? v0.id).getD v0 with bat := b }).setGc
          (gc.addLoad csId x).1).setStation { cs with currentPower := cs.currentPower + x }) ∧
        WB Pg Ps Pv
        (((acc.st.w.setVehicle { (acc.st.w.vehicle? v0.id).getD v0 with bat := b }).setGc
          (gc.addLoad csId (-x)).1).setStation { cs with currentPower := cs.currentPower - x }) := by
      intro b x
      constructor
      · refine WB.setStation (WB.setGc (WB.setVehicle hw _ ?_) _ ?_) _ ?_
        · exact hvd
        · simp only [addLoad_curMax]; exact hw.gcs gc hgc
        · exact hw.stations cs hcsm
      · refine WB.setStation (WB.setGc (WB.setVehicle hw _ ?_) _ ?_) _ ?_
        · exact hvd
        · simp only [addLoad_curMax]; exact hw.gcs gc hgc
        · exact hw.stations cs hcsm
    refine Safe.ite (fun _ => ?_) (fun _ => ?_)
    · refine Safe.bind (P := fun _ => True) ?_ (fun z _ _ => ?_)
      · refine Safe.bisectM _ _ _ ?_ _ _ _ _ hbr trivial
        intro mid s _
        exact Safe.bind (psV2gChargeSim_safe ops hnf env cs _ _ _ _ _) (fun r _ _ => trivial)
      · obtain ⟨total, curTime⟩ := z
        dsimp only
        split
        · exact fun hc => by cases hc
        · split
          · exact fun hc => by cases hc
          · exact Safe.bind (Safe.load hnf _ _ _ _) (fun r _ _ => (hfin r.1 r.2).1)
    · split
      · exact fun hc => by cases hc
      · refine Safe.bind (P := fun _ => True) ?_ (fun z _ _ => ?_)
        · refine Safe.bisectM _ _ _ ?_ _ _ _ _ hbr trivial
          intro mid s _
          exact Safe.bind (psV2gDischargeSim_safe ops hnf env cs _ _ _ _ _ _) (fun r _ _ => trivial)
        · obtain ⟨total, curTime⟩ := z
          dsimp only
          split
          · exact fun hc => by cases hc
          · split
            · exact fun hc => by cases hc
            · refine Safe.bind (P := fun _ => True) ?_ (fun r _ _ => (hfin r.1 r.2).2)
              exact Safe.ite (fun _ => Safe.lift (fun hc => by cases hc)) (fun _ => Safe.unload hnf _ _ _ _)

theorem distributePeakShavingV2g_safe (ops : BatOps α B) (hnf : OpsNoFuel ops) (env : FEnv α)
    (Pg Ps Pv : α → Prop) (hg : ∀ x, Pg x → 2 * x ≤ width env)
    (hv : ∀ x, Pv x → 1 - x ≤ width env) (st : FState α B) (hw : WB Pg Ps Pv st.w) :
    Safe (distributePeakShavingV2g ops env st) (fun a => WB Pg Ps Pv a.1.w) := by
  unfold distributePeakShavingV2g
  refine Safe.bind (sortedVehicles_safe ops env.strat _ _) (fun vs _ hvs => ?_)
  split
  · exact fun hc => by cases hc
  · rename_i t0 rest hts
    refine Safe.bind (P := fun a => WB Pg Ps Pv a.st.w) ?_ (fun r _ hr => by exact hr)
    exact Safe.foldlM _ (fun (a : V2gAcc α B) => WB Pg Ps Pv a.st.w) vs
      (fun s x hx hI => psV2gVehicle_safe ops hnf env Pg Ps Pv hg hv _ s x hI (hw.vehicles x (hvs x hx).1))
      _ hw

/-! ### LOAD_STRAT greedy / needy: stationary batteries -/

theorem psBatChargeInner_safe (ops : BatOps α B) (hnf : OpsNoFuel ops) (env : FEnv α) (nb : Nat) :
    ∀ (bs done : List (StatBatS α B)) (avail : α),
    Safe (psBatChargeInner ops env nb avail done bs) (fun _ => True) := by
  intro bs
  induction bs with
  | nil => intro done avail; unfold psBatChargeInner; trivial
  | cons b rest ih =>
    intro done avail
    unfold psBatChargeInner
    dsimp only
    refine Safe.ite (fun _ => trivial) (fun _ => ?_)
    refine Safe.ite (fun _ => ?_) (fun _ => ih _ _)
    exact Safe.bind (Safe.load hnf _ _ _ _) (fun r _ _ => ih _ _)

theorem psBatDischargeInner_safe (ops : BatOps α B) (hnf : OpsNoFuel ops) (env : FEnv α) (nb : Nat)
    (needed : α) : ∀ (bs done : List (StatBatS α B)),
    Safe (psBatDischargeInner ops env nb needed done bs) (fun _ => True) := by
  intro bs
  induction bs with
  | nil => intro done; unfold psBatDischargeInner; trivial
  | cons b rest ih =>
    intro done
    unfold psBatDischargeInner
    refine Safe.ite (fun _ => trivial) (fun _ => ?_)
    refine Safe.ite (fun _ => ?_) (fun _ => ih _)
    exact Safe.bind (Safe.unload hnf _ _ _ _) (fun r _ _ => ih _)

theorem distributePeakShavingBatteries_safe (ops : BatOps α B) (hnf : OpsNoFuel ops) (env : FEnv α)
    (Pg Ps Pv : α → Prop) (hg : ∀ x, Pg x → 2 * x ≤ width env)
    (st : FState α B) (hw : WB Pg Ps Pv st.w) :
    Safe (distributePeakShavingBatteries ops env st) (fun a => WB Pg Ps Pv a.w) := by
  unfold distributePeakShavingBatteries
  refine Safe.bind (Safe.theGc _) (fun gc _ hgc => ?_)
  have hbr : gc.curMax - -gc.curMax ≤ env.base.eps * 2 ^ env.fuel := by
    rw [two_curMax]; exact hg _ (hw.gcs gc hgc)
  dsimp only
  refine Safe.ite (fun _ => ?_) (fun _ => ?_)
  · refine Safe.bind (P := fun _ => True) ?_ (fun total _ _ => ?_)
    · refine Safe.bisectM _ _ _ ?_ _ _ _ _ hbr trivial
      intro mid s _
      refine Safe.bind (P := fun _ => True) ?_ (fun r _ _ => trivial)
      exact Safe.foldlM _ (fun _ => True) _ (fun sim _ _ _ => psBatChargeInner_safe ops hnf env _ _ _ _) _ trivial
    · split
      · exact fun hc => by cases hc
      · exact fun hc => by cases hc
      · refine Safe.bind (P := fun (a : FState α B × α) => WB Pg Ps Pv a.1.w) ?_ (fun r _ hr => by exact hr)
        refine Safe.foldlM _ (fun (a : FState α B × α) => WB Pg Ps Pv a.1.w) st.w.batteries
          (fun s b0 _ hI => ?_) _ hw
        refine Safe.ite (fun _ => ?_) (fun _ => hI)
        refine Safe.bind (Safe.theGc _) (fun gc1 _ hgc1 => ?_)
        refine Safe.bind (Safe.load hnf _ _ _ _) (fun r _ _ => ?_)
        refine WB.setGc (WB.setBattery hI _) _ ?_
        simp only [addLoad_curMax]; exact hI.gcs gc1 hgc1
  · refine Safe.bind (P := fun _ => True) ?_ (fun total _ _ => ?_)
    · refine Safe.bisectM _ _ _ ?_ _ _ _ _ hbr trivial
      intro mid s _
      refine Safe.bind (P := fun _ => True) ?_ (fun r _ _ => trivial)
      exact Safe.foldlM _ (fun _ => True) _ (fun sim _ _ _ => psBatDischargeInner_safe ops hnf env _ _ _ _) _ trivial
    · split
      · exact fun hc => by cases hc
      · exact fun hc => by cases hc
      · refine Safe.foldlM _ (fun (a : FState α B) => WB Pg Ps Pv a.w) st.w.batteries
          (fun s b0 _ hI => ?_) _ hw
        refine Safe.bind (Safe.theGc _) (fun gc1 _ hgc1 => ?_)
        refine Safe.bind (P := fun _ => True) ?_ (fun r _ _ => ?_)
        · exact Safe.ite (fun _ => Safe.lift (fun hc => by cases hc)) (fun _ => Safe.unload hnf _ _ _ _)
        · refine WB.setGc (WB.setBattery hI _) _ ?_
          simp only [addLoad_curMax]; exact hI.gcs gc1 hgc1

/-! ### `Strategy.distribute_surplus_power` (a `Py` computation of Model/Strategies.lean) -/

/-- `Safe` for the plain `Py` monad -/
def SafePy {β : Type} (r : Py β) (Q : β → Prop) : Prop :=
  match r with
  | .ok v => Q v
  | .error e => e ≠ .fuel

theorem SafePy.bind {β γ : Type} {r : Py β} {f : β → Py γ} {P : β → Prop} {Q : γ → Prop}
    (hr : SafePy r P) (hf : ∀ x, r = .ok x → P x → SafePy (f x) Q) : SafePy (r >>= f) Q := by
  cases r with
  | ok v => exact hf v rfl hr
  | error e => exact hr

theorem SafePy.foldlM {σ β : Type} (f : σ → β → Py σ) (I : σ → Prop) :
    ∀ (l : List β), (∀ s x, x ∈ l → I s → SafePy (f s x) I) → ∀ s, I s → SafePy (l.foldlM f s) I := by
  intro l
  induction l with
  | nil => intro _ s hs; exact hs
  | cons x xs ih =>
    intro hf s hs
    rw [List.foldlM_cons]
    exact SafePy.bind (hf s x (List.mem_cons_self ..) hs)
      (fun s1 _ h1 => ih (fun s x hx => hf s x (List.mem_cons_of_mem _ hx)) s1 h1)

theorem SafePy.mapM {β γ : Type} (f : β → Py γ) (hf : ∀ x, SafePy (f x) (fun _ => True)) :
    ∀ (l : List β), SafePy (l.mapM f) (fun _ => True) := by
  intro l
  induction l with
  | nil => rw [List.mapM_nil]; trivial
  | cons x xs ih =>
    rw [List.mapM_cons]
    exact SafePy.bind (hf x) (fun y _ _ => SafePy.bind ih (fun ys _ _ => trivial))

theorem Safe.ofPy {β : Type} {x : Py β} {Q : β → Prop} (h : SafePy x Q) : Safe (FlexWindow.liftPy x : FPy β) Q := by
  cases x with
  | ok v => exact h
  | error e =>
    show FErr.py e ≠ FErr.py PyErr.fuel
    intro hc
    apply h
    cases hc
    rfl

theorem SafePy.op {β : Type} {x : Py β} (h : x ≠ .error .fuel) : SafePy x (fun _ => True) := by
  cases x with
  | ok v => trivial
  | error e => intro hc; subst hc; exact h rfl

theorem surplusVehicle_safe (ops : BatOps α B) (hnf : OpsNoFuel ops) (env : StratEnv α)
    (Pg Ps Pv : α → Prop) (cheap : List (String × Bool)) (w : SWorld α B) (cmds : List (String × α))
    (v : VehicleS α B) (hw : WB Pg Ps Pv w) (hv : Pv v.dischargeLimit) :
    SafePy (surplusVehicle ops env cheap w cmds v) (fun a => WB Pg Ps Pv a.1) := by
  unfold surplusVehicle
  split
  · exact hw
  · rename_i csId hcs
    split
    · exact fun hc => by cases hc
    · rename_i cs hcs
      have hcsm : cs ∈ w.stations := (station?_some w csId cs hcs).1
      split
      · exact fun hc => by cases hc
      · rename_i gc hgc
        have hgcm : gc ∈ w.gcs := (gc?_some _ _ _ hgc).1
        dsimp only
        split
        · refine SafePy.bind (SafePy.op (hnf.load _ _ _ _)) (fun r _ _ => ?_)
          obtain ⟨bat', avg⟩ := r
          refine WB.setStation (WB.setGc (WB.setVehicle hw _ ?_) _ ?_) _ ?_
          · exact hv
          · simp only [addLoad_curMax]; exact hw.gcs gc hgcm
          · exact hw.stations cs hcsm
        · split
          · refine SafePy.bind (SafePy.op (hnf.unload _ _ _ _)) (fun r _ _ => ?_)
            obtain ⟨bat', avg⟩ := r
            refine WB.setStation (WB.setGc (WB.setVehicle hw _ ?_) _ ?_) _ ?_
            · exact hv
            · simp only [addLoad_curMax]; exact hw.gcs gc hgcm
            · exact hw.stations cs hcsm
          · exact hw

theorem distributeSurplus_safe (ops : BatOps α B) (hnf : OpsNoFuel ops) (env : StratEnv α)
    (Pg Ps Pv : α → Prop) (w : SWorld α B) (hw : WB Pg Ps Pv w) :
    SafePy (distributeSurplus ops env w) (fun a => WB Pg Ps Pv a.1) := by
  unfold distributeSurplus
  refine SafePy.bind (P := fun _ => True) ?_ (fun cheap _ _ => ?_)
  · refine SafePy.mapM _ (fun g => ?_) _
    refine SafePy.bind (P := fun _ => True) ?_ (fun c _ _ => trivial)
    unfold gcCheap
    split
    · exact fun hc => by cases hc
    · trivial
  · refine SafePy.foldlM _ (fun (a : SWorld α B × List (String × α)) => WB Pg Ps Pv a.1) w.vehicles
      (fun st v0 _ hI => ?_) _ hw
    split
    · exact hI
    · rename_i v hv
      unfold SWorld.vehicle? at hv
      exact surplusVehicle_safe ops hnf env Pg Ps Pv cheap st.1 st.2 v hI
        (hI.vehicles v (List.mem_of_find?_eq_some hv))

/-! ### forecast -/

theorem avgFixedLoad_safe (env : FEnv α) (t : Int) : Safe (avgFixedLoad env t) (fun _ => True) := by
  unfold avgFixedLoad
  split
  · trivial
  · dsimp only
    refine Safe.ite (fun _ => ?_) (fun _ => fun hc => by cases hc)
    split <;> trivial

theorem forecast_safe (env : FEnv α) (gc : GcS α) (window : Option Bool) (events : List (FEvent α)) :
    Safe (forecast env gc window events) (fun _ => True) := by
  unfold forecast
  dsimp only
  refine Safe.bind (P := fun _ => True) ?_ (fun r _ _ => trivial)
  refine Safe.foldlM _ (fun _ => True) _ (fun acc i _ _ => ?_) _ trivial
  unfold forecastStep
  dsimp only
  exact Safe.bind (avgFixedLoad_safe env _) (fun a _ _ => trivial)

/-! ### `step` -/

theorem step_ps_safe (ops : BatOps α B) (hnf : OpsNoFuel ops) (env : FEnv α)
    (hstrat : env.strat ≠ .balanced)
    (Pg Ps Pv : α → Prop) (hg : ∀ x, Pg x → 2 * x ≤ width env) (hv : ∀ x, Pv x → 1 - x ≤ width env)
    (w : SWorld α B) (window : Option Bool) (events : List (FEvent α)) (hw : WB Pg Ps Pv w) :
    Safe (step ops env w window events) (fun _ => True) := by
  unfold step
  refine Safe.bind (Safe.theGc _) (fun gc _ _ => ?_)
  dsimp only
  refine Safe.bind (forecast_safe env gc window events) (fun ts _ _ => ?_)
  split
  · exact fun hc => by cases hc
  · rename_i t0 rest
    have hne : (env.strat == LoadStrat.balanced) = false := by simpa using hstrat
    simp only [hne, Bool.false_eq_true, if_false]
    refine Safe.bind (distributePeakShavingVehicles_safe ops hnf env Pg Ps Pv hg _ hw.resetStations)
      (fun x _ hx => ?_)
    obtain ⟨st1, c1⟩ := x
    dsimp only at hx ⊢
    refine Safe.bind (Safe.theGc _) (fun g1 _ _ => ?_)
    refine Safe.bind (P := fun (a : FState α B × List (String × α) × Bool) => WB Pg Ps Pv a.1.w)
      ?_ (fun y _ hy => ?_)
    · refine Safe.ite (fun _ => ?_) (fun _ => ?_)
      · refine Safe.bind (Safe.ofPy (distributeSurplus_safe ops hnf env.base Pg Ps Pv st1.w hx)) (fun z _ hz => ?_)
        obtain ⟨w2, c2⟩ := z
        exact hz
      · refine Safe.bind (distributePeakShavingV2g_safe ops hnf env Pg Ps Pv hg hv st1 hx) (fun z _ hz => ?_)
        obtain ⟨st2, c2⟩ := z
        exact hz
    · obtain ⟨st2, c2, lv⟩ := y
      dsimp only at hy ⊢
      refine Safe.bind (Safe.theGc _) (fun g2 _ _ => ?_)
      refine Safe.bind (P := fun _ => True) ?_ (fun st3 _ _ => trivial)
      refine Safe.ite (fun _ => ?_) (fun _ => ?_)
      · exact Safe.bind (surplusToBatteries_safe ops hnf env Pg Ps Pv st2.w hy) (fun _ _ _ => trivial)
      · exact (distributePeakShavingBatteries_safe ops hnf env Pg Ps Pv hg st2 hy).mono (fun _ _ _ => trivial)

/-- the bracket `[−cur_max, hi]` of the battery bisection of `distribute_balanced_batteries` is at most
`2·cur_max + EPS` wide when — in a window step — the connector's load is at least `−EPS` -/
theorem balBat_bracket (env : FEnv α) (heps : 0 < env.base.eps) (st : FState α B) (gc : GcS α)
    (hP : 2 * gc.curMax + env.base.eps ≤ width env)
    (hL : truthy st.window = true → -env.base.eps ≤ gc.currentLoad) :
    balBatHi st gc - -gc.curMax ≤ width env := by
  unfold balBatHi
  split
  · rename_i hcw
    have := hL hcw
    linarith
  · rw [pymin_eq]
    rcases le_total gc.currentLoad 0 with h | h
    · have := min_le_right (gc.curMax - gc.currentLoad) (gc.curMax + gc.currentLoad)
      linarith
    · have := min_le_left (gc.curMax - gc.currentLoad) (gc.curMax + gc.currentLoad)
      linarith

theorem step_balanced_safe (ops : BatOps α B) (hnf : OpsNoFuel ops) (law : BatLaw ops) (env : FEnv α)
    (heps : 0 < env.base.eps) (hstrat : env.strat = .balanced)
    (Pg Ps Pv : α → Prop) (hg : ∀ x, Pg x → 2 * x + env.base.eps ≤ width env)
    (hs : ∀ x, Ps x → x ≤ width env) (hv : ∀ x, Pv x → 1 - x ≤ width env)
    (w : SWorld α B) (window : Option Bool) (events : List (FEvent α)) (hw : WB Pg Ps Pv w)
    (g : GcS α) (hgc : w.gcs = [g]) :
    Safe (step ops env w window events) (fun _ => True) := by
  unfold step
  refine Safe.bind (Safe.theGc _) (fun gc _ _ => ?_)
  dsimp only
  refine Safe.bind (forecast_safe env gc window events) (fun ts _ _ => ?_)
  split
  · exact fun hc => by cases hc
  · rename_i t0 rest hts
    simp only [hstrat, beq_self_eq_true, if_true]
    have hinv0 : Inv (truthy t0.window) true g (⟨resetStations w, t0.window, t0 :: rest⟩ : FState α B) :=
      ⟨⟨g, by simpa using hgc, Rel.refl _ _ g⟩, rfl, by
        intro t r ht
        simp only [List.cons.injEq] at ht
        rw [ht.1]⟩
    refine Safe.bind (distributeBalancedVehicles_safe ops hnf env heps Pg Ps Pv hs _ hw.resetStations)
      (fun x hxeq hx => ?_)
    obtain ⟨st1, c1⟩ := x
    have hinv1 := distributeBalancedVehicles_inv ops law env _ true g _ st1 c1 hinv0 hxeq
    obtain ⟨⟨g1, hg1, hrel1⟩, hcw1, hh1⟩ := hinv1
    dsimp only at hx ⊢
    refine Safe.bind (Safe.theGc _) (fun g1' hg1' _ => ?_)
    rw [theGc_single _ g1 hg1] at hg1'
    simp only [Except.ok.injEq] at hg1'
    subst hg1'
    -- after the second pass: the frame, and — in a window step after the V2G pass — a load of at least −EPS
    refine Safe.bind (P := fun (a : FState α B × List (String × α) × Bool) => WB Pg Ps Pv a.1.w ∧
        (a.2.2 = true → truthy a.1.window = true → ∀ g2, theGc a.1.w = .ok g2 → -env.base.eps ≤ g2.currentLoad))
      ?_ (fun y _ hy => ?_)
    · refine Safe.ite (fun _ => ?_) (fun hload => ?_)
      · refine Safe.bind (surplusToVehicles_safe ops hnf env Pg Ps Pv st1.w hx) (fun z _ hz => ?_)
        obtain ⟨w2, c2⟩ := z
        exact ⟨hz, fun hc => by cases hc⟩
      · refine Safe.bind (distributeBalancedV2g_safe ops hnf env heps Pg Ps Pv hs hv st1 hx) (fun z hzeq hz => ?_)
        obtain ⟨st2, c2⟩ := z
        refine ⟨hz, fun _ hcw2 g2 hg2 => ?_⟩
        have hinv2 := distributeBalancedV2g_inv ops law env heps.le _ true g1 st1 st2 c2
          ⟨⟨g1, hg1, Rel.refl _ _ g1⟩, hcw1, hh1⟩ hzeq
        obtain ⟨⟨g2', hg2', hrel2⟩, hcw2', _⟩ := hinv2
        dsimp only at hg2 hcw2
        rw [theGc_single _ g2' hg2'] at hg2
        simp only [Except.ok.injEq] at hg2
        subst hg2
        have := hrel2.2.2.2.1 (by rw [← hcw2']; exact hcw2)
        have h1 := not_lt.mp hload
        linarith
    · obtain ⟨st2, c2, lv⟩ := y
      obtain ⟨hy, hyl⟩ := hy
      dsimp only at hy hyl ⊢
      refine Safe.bind (Safe.theGc _) (fun g2 hg2eq hg2 => ?_)
      refine Safe.bind (P := fun _ => True) ?_ (fun st3 _ _ => trivial)
      refine Safe.ite (fun _ => ?_) (fun hcond => ?_)
      · exact Safe.bind (surplusToBatteries_safe ops hnf env Pg Ps Pv st2.w hy) (fun _ _ _ => trivial)
      · refine (distributeBalancedBatteries_safe ops hnf env Pg Ps Pv st2 hy ?_).mono (fun _ _ _ => trivial)
        intro gc2 hgc2
        rw [hg2eq] at hgc2
        simp only [Except.ok.injEq] at hgc2
        subst hgc2
        refine balBat_bracket env heps st2 g2 (hg _ (hy.gcs g2 hg2)) (fun hcw => ?_)
        rcases le_or_gt 0 g2.currentLoad with h0 | h0
        · linarith
        · cases lv with
          | false => exact absurd ⟨h0, rfl⟩ hcond
          | true => exact hyl rfl hcw g2 hg2eq

/-! ### final forms (explicit hypotheses) -/

theorem two_le_of_eps {env : FEnv α} (heps : 0 < env.base.eps) {x : α}
    (h : 2 * x + env.base.eps ≤ width env) : 2 * x ≤ width env := by linarith

/-- whole step, LOAD_STRAT ≠ balanced -/
theorem step_ps_noFuel (ops : BatOps α B) (hnf : OpsNoFuel ops) (env : FEnv α)
    (hstrat : env.strat ≠ .balanced) (w : SWorld α B) (window : Option Bool) (events : List (FEvent α))
    (hgcs : ∀ g ∈ w.gcs, 2 * g.curMax ≤ env.base.eps * 2 ^ env.fuel)
    (hveh : ∀ v ∈ w.vehicles, 1 - v.dischargeLimit ≤ env.base.eps * 2 ^ env.fuel) :
    step ops env w window events ≠ .error (.py .fuel) :=
  (step_ps_safe ops hnf env hstrat (fun x => 2 * x ≤ width env) (fun _ => True) (fun x => 1 - x ≤ width env)
    (fun _ h => h) (fun _ h => h) w window events ⟨hgcs, fun _ _ => trivial, hveh⟩).ne

/-- whole step, LOAD_STRAT = balanced -/
theorem step_balanced_noFuel (ops : BatOps α B) (hnf : OpsNoFuel ops) (law : BatLaw ops) (env : FEnv α)
    (heps : 0 < env.base.eps) (hstrat : env.strat = .balanced)
    (w : SWorld α B) (window : Option Bool) (events : List (FEvent α)) (g : GcS α) (hg : w.gcs = [g])
    (hgc : 2 * g.curMax + env.base.eps ≤ env.base.eps * 2 ^ env.fuel)
    (hst : ∀ s ∈ w.stations, s.maxPower ≤ env.base.eps * 2 ^ env.fuel)
    (hveh : ∀ v ∈ w.vehicles, 1 - v.dischargeLimit ≤ env.base.eps * 2 ^ env.fuel) :
    step ops env w window events ≠ .error (.py .fuel) :=
  (step_balanced_safe ops hnf law env heps hstrat (fun x => 2 * x + env.base.eps ≤ width env)
    (fun x => x ≤ width env) (fun x => 1 - x ≤ width env)
    (fun _ h => h) (fun _ h => h) (fun _ h => h) w window events
    ⟨by intro g' hg'; rw [hg] at hg'; simp only [List.mem_singleton] at hg'; subst hg'; exact hgc, hst, hveh⟩
    g hg).ne

/-- whole step, every LOAD_STRAT -/
theorem step_noFuel (ops : BatOps α B) (hnf : OpsNoFuel ops) (env : FEnv α) (heps : 0 < env.base.eps)
    (w : SWorld α B) (window : Option Bool) (events : List (FEvent α))
    (hbal : env.strat = .balanced → BatLaw ops ∧ ∃ g, w.gcs = [g])
    (hgcs : ∀ g ∈ w.gcs, 2 * g.curMax + env.base.eps ≤ env.base.eps * 2 ^ env.fuel)
    (hst : ∀ s ∈ w.stations, s.maxPower ≤ env.base.eps * 2 ^ env.fuel)
    (hveh : ∀ v ∈ w.vehicles, 1 - v.dischargeLimit ≤ env.base.eps * 2 ^ env.fuel) :
    step ops env w window events ≠ .error (.py .fuel) := by
  by_cases hstrat : env.strat = .balanced
  · obtain ⟨law, g, hg⟩ := hbal hstrat
    exact step_balanced_noFuel ops hnf law env heps hstrat w window events g hg
      (hgcs g (by rw [hg]; exact List.mem_singleton_self g)) hst hveh
  · exact step_ps_noFuel ops hnf env hstrat w window events
      (fun g hg => by have := hgcs g hg; linarith) hveh

theorem distributeBalancedBatteries_noFuel (ops : BatOps α B) (hnf : OpsNoFuel ops) (env : FEnv α)
    (st : FState α B)
    (hbr : ∀ g ∈ st.w.gcs, 2 * g.curMax - g.currentLoad ≤ env.base.eps * 2 ^ env.fuel) :
    distributeBalancedBatteries ops env st ≠ .error (.py .fuel) := by
  refine (distributeBalancedBatteries_safe ops hnf env (fun _ => True) (fun _ => True) (fun _ => True) st
    ⟨fun _ _ => trivial, fun _ _ => trivial, fun _ _ => trivial⟩ ?_).ne
  intro gc hgc
  have hmem : gc ∈ st.w.gcs := (Safe.theGc st.w).post gc hgc
  have := hbr gc hmem
  unfold balBatHi width
  split
  · linarith
  · rw [pymin_eq]
    have := min_le_left (gc.curMax - gc.currentLoad) (gc.curMax + gc.currentLoad)
    linarith

theorem bisectM_noFuel {σ : Type} (eps : α) (body : α → σ → FPy (Bool × σ))
    (hbody : ∀ mid s, body mid s ≠ .error (.py .fuel)) (fuel : Nat) (lo hi : α) (st : σ)
    (h : hi - lo ≤ eps * 2 ^ fuel) : bisectM eps body fuel lo hi st ≠ .error (.py .fuel) := by
  intro hc
  obtain ⟨mid, s, hb⟩ := bisectM_fuel eps body fuel lo hi st h hc
  exact hbody mid s hb

/-! ### instances for the non-vacuity examples -/

theorem idealOps_noFuel : OpsNoFuel idealOps :=
  ⟨fun _ _ _ _ h => by simp [idealOps] at h, fun _ _ _ _ h => by simp [idealOps] at h⟩

/-- a battery that answers every call with the fuel marker: the hypothesis `OpsNoFuel` is needed -/
def fuelOps : BatOps ℚ ℚ :=
  { idealOps with load := fun _ _ _ _ => .error .fuel, unload := fun _ _ _ _ => .error .fuel }

/-- ideal battery, except that `load` with an offered power ≥ 1 kW answers an average power of −10⁹ kW: it never
answers FUEL but breaks `BatLaw.load_max` — witness that the balanced step needs the law -/
def badOps : BatOps ℚ ℚ :=
  { idealOps with load := fun b mp ts tp =>
      match mp with
      | some p => if 1 ≤ p then .ok (b, -1000000000) else idealOps.load b mp ts tp
      | none => idealOps.load b mp ts tp }

theorem badOps_noFuel : OpsNoFuel badOps := by
  refine ⟨fun b mp ts tp h => ?_, fun _ _ _ _ h => by simp [badOps, idealOps] at h⟩
  simp only [badOps] at h
  split at h
  · split at h
    · cases h
    · simp [idealOps] at h
  · simp [idealOps] at h

/-- a V2G vehicle at its desired SoC 0.5 on a 4 kW connector with 1 kW load -/
def exWorldBad : SWorld ℚ ℚ :=
  ⟨[⟨"GC", 4, some (.fixed (3/10)), [("load", 1)]⟩], [⟨"CS1", "GC", 11, 0, 0⟩],
   [⟨"v1", some "CS1", 1/2, some (3 * hourUs), 0, true, 1/5, 1/2⟩], []⟩

end SpiceEv.FlexWindow
