/-
Datetime model.  Import-free (core Lean only).

* a `timedelta` is an `Int` number of microseconds;
* a `datetime.time` (time of day, tz-less) is an `Int` number of microseconds since midnight,
  `0 ≤ t < usPerDay`; Python orders `time` objects lexicographically by (h, m, s, µs), which is the
  order of that integer;
* a `datetime.date` is its proleptic-Gregorian ordinal (`date.toordinal()`, 0001-01-01 = 1);
* a `datetime.datetime` is the local wall-clock reading in microseconds since midnight of ordinal 0
  (so `local = ordinal * usPerDay + µs-of-day`) plus the fixed UTC offset of its tzinfo
  (`none` = naive).  Python's `datetime + timedelta` is wall-clock arithmetic (the offset is kept),
  ordering of two aware datetimes is by UTC instant, of two naive ones by wall clock, and mixing
  them raises `TypeError` (`lt? = none`).

Only fixed-offset tzinfos (what `datetime.fromisoformat` produces) are modelled; year-range
overflow (`OverflowError` outside years 1..9999) is not.
-/
namespace SpiceEv

def usPerSecond : Int := 1000000
def usPerMinute : Int := 60000000
def usPerHour : Int := 3600000000
def usPerDay : Int := 86400000000
/-- minutes per week: the period of everything that depends on weekday and time of day only -/
def minutesPerWeek : Nat := 10080

theorem usPerDay_pos : 0 < usPerDay := by decide
theorem usPerMinute_pos : 0 < usPerMinute := by decide
theorem usPerDay_eq : usPerDay = 1440 * usPerMinute := by decide

structure DateTime where
  /-- wall-clock microseconds since midnight of date ordinal 0 -/
  «local» : Int
  /-- `tzinfo.utcoffset()` in microseconds; `none` for a naive datetime -/
  offset : Option Int := none
  deriving Repr, DecidableEq, Inhabited

namespace DateTime

/-- field-copy constructor used by the wire format: `date().toordinal()`, µs since midnight, offset -/
def ofParts (ordinal us : Int) (offset : Option Int := none) : DateTime :=
  ⟨ordinal * usPerDay + us, offset⟩

/-- `dt.date().toordinal()` (floor division; `Int./` is Euclidean and the divisor is positive) -/
def date (d : DateTime) : Int := d.local / usPerDay
/-- `dt.time()` as microseconds since midnight (tzinfo dropped, as `datetime.time()` does) -/
def time (d : DateTime) : Int := d.local % usPerDay
/-- `dt.weekday()`: Monday = 0 … Sunday = 6 (ordinal 1 is a Monday) -/
def weekday (d : DateTime) : Int := (d.date + 6) % 7
/-- `dt + timedelta` -/
def add (d : DateTime) (td : Int) : DateTime := { d with «local» := d.local + td }
/-- `dt.replace(hour, minute, second, microsecond)` given as µs since midnight -/
def replaceTime (d : DateTime) (tod : Int) : DateTime := { d with «local» := d.date * usPerDay + tod }

/-- the quantity Python compares: UTC instant for aware, wall clock for naive datetimes -/
def instant (d : DateTime) : Int := d.local - d.offset.getD 0

/-- `a < b`; `none` = `TypeError: can't compare offset-naive and offset-aware datetimes` -/
def lt? (a b : DateTime) : Option Bool :=
  match a.offset, b.offset with
  | none, none => some (decide (a.local < b.local))
  | some oa, some ob => some (decide (a.local - oa < b.local - ob))
  | _, _ => none

/-- `a <= b` -/
def le? (a b : DateTime) : Option Bool :=
  match a.offset, b.offset with
  | none, none => some (decide (a.local ≤ b.local))
  | some oa, some ob => some (decide (a.local - oa ≤ b.local - ob))
  | _, _ => none

/-- `a - b` (timedelta); `none` = `TypeError` for naive/aware mixes -/
def sub? (a b : DateTime) : Option Int :=
  match a.offset, b.offset with
  | none, none => some (a.local - b.local)
  | some oa, some ob => some ((a.local - oa) - (b.local - ob))
  | _, _ => none

/-- both naive or both aware -/
def comparable (a b : DateTime) : Prop := a.offset.isSome = b.offset.isSome

end DateTime

/-- `datetime.time(h, m, s, µs)` range check (`ValueError` = `none`) and value in µs since midnight -/
def mkTimeOfDay? (h m s us : Int) : Option Int :=
  if 0 ≤ h ∧ h < 24 ∧ 0 ≤ m ∧ m < 60 ∧ 0 ≤ s ∧ s < 60 ∧ 0 ≤ us ∧ us < 1000000 then
    some (h * usPerHour + m * usPerMinute + s * usPerSecond + us)
  else none

/-- Python `a // b` on integers / timedeltas (floor; caller guards `b = 0`) -/
def floorDiv (a b : Int) : Int := Int.fdiv a b
/-- Python `-(a // -b)`: ceiling division -/
def ceilDiv (a b : Int) : Int := -(Int.fdiv a (-b))

/-! Basic facts (core tactics only). -/

theorem DateTime.date_ofParts (o us : Int) (off : Option Int) (h0 : 0 ≤ us) (h1 : us < usPerDay) :
    (DateTime.ofParts o us off).date = o := by
  unfold DateTime.ofParts DateTime.date usPerDay at *
  simp only
  omega

theorem DateTime.time_ofParts (o us : Int) (off : Option Int) (h0 : 0 ≤ us) (h1 : us < usPerDay) :
    (DateTime.ofParts o us off).time = us := by
  unfold DateTime.ofParts DateTime.time usPerDay at *
  simp only
  omega

theorem DateTime.time_nonneg (d : DateTime) : 0 ≤ d.time := by
  unfold DateTime.time usPerDay; omega
theorem DateTime.time_lt (d : DateTime) : d.time < usPerDay := by
  unfold DateTime.time usPerDay; omega
theorem DateTime.weekday_range (d : DateTime) : 0 ≤ d.weekday ∧ d.weekday < 7 := by
  unfold DateTime.weekday; omega

/-- shifting by whole days moves the date and keeps the time of day -/
theorem DateTime.date_add_days (d : DateTime) (k : Int) :
    (d.add (k * usPerDay)).date = d.date + k := by
  unfold DateTime.add DateTime.date usPerDay; simp only; omega
theorem DateTime.time_add_days (d : DateTime) (k : Int) :
    (d.add (k * usPerDay)).time = d.time := by
  unfold DateTime.add DateTime.time usPerDay; simp only; omega
/-- shifting by whole weeks keeps the weekday -/
theorem DateTime.weekday_add_weeks (d : DateTime) (k : Int) :
    (d.add (7 * k * usPerDay)).weekday = d.weekday := by
  unfold DateTime.weekday
  rw [DateTime.date_add_days]; omega

end SpiceEv
