/- driver command for Model/ReportJson.lean: entry names and keys of the results JSON of one connector -/
import SpiceEv.Wire
import SpiceEv.Model.ReportJson
import SpiceEv.Cmd.Report
namespace SpiceEv.Cmd.ReportJson
open SpiceEv SpiceEv.Report SpiceEv.ReportJson

def rKeys (l : List (String × List String)) : String :=
  "|".intercalate (l.map (fun e => e.1 ++ "=" ++ ",".intercalate e.2))

/-- `report_keys q <places> <hasTs> <hasCst> <RunData>` → `entry=key,key,…|entry=…` (names may contain
blanks; the response is one line) or the exception of `aggregate_timeseries` / `aggregate_local_results` -/
def cmdKeys : P String := do
  let places ← P.nat
  let hasTs ← P.bool
  let hasCst ← P.bool
  let R ← Cmd.Report.pRun
  let ts := aggregateTimeseries (pyRoundRat places) R
  let tsOpt : Py (Option (List String × List (List (Cell Rat)))) :=
    if hasTs then ts.map some else .ok none
  let loc := tsOpt.bind (fun t => aggregateLocal R t)
  pure (renderPy (fun r => rKeys (jsonKeys hasCst r)) loc)

def handlers : List (String × Handler) := [("report_keys", Cmd.Report.qOnly cmdKeys)]

end SpiceEv.Cmd.ReportJson
