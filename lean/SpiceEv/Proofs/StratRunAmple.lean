/-
Greedy over a standing period for a vehicle at ANY position of the id order, when the connector
headroom never binds: headroom ≥ (number of vehicles) × (largest station maximum) in every step.
Helper lemmas for `C09_greedy_run_lower_ample` (Properties/C09_Run.lean).
-/
import SpiceEv.Proofs.StratRun
set_option linter.unusedSectionVars false
set_option linter.unusedSimpArgs false
set_option linter.unusedVariables false
namespace SpiceEv.StratRun
open SpiceEv SpiceEv.Frame
variable {α B : Type} [Field α] [LinearOrder α] [IsStrictOrderedRing α]

theorem foldlM_append_ok {σ ι ε : Type} (f : σ → ι → Except ε σ) (l l' : List ι) :
    ∀ (s s' : σ), (l ++ l').foldlM f s = .ok s' → ∃ s1, l.foldlM f s = .ok s1 ∧ l'.foldlM f s1 = .ok s' := by
  induction l with
  | nil => intro s s' h; exact ⟨s, rfl, h⟩
  | cons x xs ih =>
    intro s s' h
    simp only [List.cons_append, List.foldlM_cons, bind, Except.bind] at h ⊢
    cases hs : f s x with
    | error e => simp [hs] at h
    | ok s1 =>
      simp only [hs] at h ⊢
      exact ih s1 s' h

theorem gc?_setGc_ne (w : SWorld α B) (g' : GcS α) (id : String) (h : id ≠ g'.id) :
    (w.setGc g').gc? id = w.gc? id := by
  unfold SWorld.gc? SWorld.setGc
  simp only
  induction w.gcs with
  | nil => rfl
  | cons x xs ih =>
    simp only [List.map_cons, List.find?_cons]
    by_cases hx : x.id = g'.id
    · have h0 : (x.id == g'.id) = true := by simpa using hx
      have h1 : (g'.id == id) = false := by simpa using (Ne.symm h)
      have h2 : (x.id == id) = false := by rw [hx]; exact h1
      simp only [h0, if_true, h1, h2]
      exact ih
    · have h0 : (x.id == g'.id) = false := by simpa using hx
      simp only [h0, Bool.false_eq_true, if_false]
      cases hxi : (x.id == id) with
      | true => rfl
      | false => exact ih

theorem gc?_setGc_eq (w : SWorld α B) (g g' : GcS α) (hg : w.gc? g'.id = some g) :
    (w.setGc g').gc? g'.id = some g' := by
  unfold SWorld.gc? SWorld.setGc at *
  simp only
  revert hg
  induction w.gcs with
  | nil => intro hg; simp at hg
  | cons x xs ih =>
    intro hg
    simp only [List.map_cons, List.find?_cons] at hg ⊢
    by_cases hx : x.id = g'.id
    · have h0 : (x.id == g'.id) = true := by simpa using hx
      simp [h0]
    · have h0 : (x.id == g'.id) = false := by simpa using hx
      simp only [h0, Bool.false_eq_true, if_false] at hg ⊢
      exact ih hg

theorem mem_setVehicle (w : SWorld α B) (v' u : VehicleS α B) (h : u ∈ (w.setVehicle v').vehicles) :
    u = v' ∨ u ∈ w.vehicles := by
  unfold SWorld.setVehicle at h
  simp only [List.mem_map] at h
  obtain ⟨x, hx, rfl⟩ := h
  by_cases hid : (x.id == v'.id) = true
  · left; simp [hid]
  · right; simp [hid, hx]

theorem mem_sdSet' {β : Type} (l : List (String × β)) (k : String) (v : β) (kv : String × β)
    (h : kv ∈ sdSet l k v) : kv.2 = v ∨ kv ∈ l := by
  induction l with
  | nil =>
    simp only [sdSet, List.mem_cons, List.mem_nil_iff, or_false] at h
    left; rw [h]
  | cons x xs ih =>
    obtain ⟨xk, xv⟩ := x
    simp only [sdSet] at h
    split at h
    · rcases List.mem_cons.mp h with rfl | h'
      · left; rfl
      · right; exact List.mem_cons_of_mem _ h'
    · rcases List.mem_cons.mp h with rfl | h'
      · right; exact List.mem_cons_self
      · rcases ih h' with h1 | h1
        · left; exact h1
        · right; exact List.mem_cons_of_mem _ h1

/-- the station `csId` serves only the vehicle `xid` -/
def Solo (csId xid : String) (w : SWorld α B) : Prop :=
  ∀ u ∈ w.vehicles, u.cs = some csId → u.id = xid

/-- the state of the vehicle loop before our vehicle's turn, after `j` other vehicles -/
structure Turn (R0 : B → Prop) (v0 : VehicleS α B) (csId gid : String) (mx M H : α) (j : ℕ)
    (st : SWorld α B × List (String × α) × List (String × α)) : Prop where
  veh : At R0 v0 st.1
  stn : ∀ s ∈ st.1.stations, 0 ≤ s.currentPower ∧ s.currentPower ≤ s.maxPower ∧ s.maxPower ≤ M
  idle : ∀ s ∈ st.1.stations, s.id = csId → s.currentPower = 0
  room : ∀ g, st.1.gc? gid = some g → H - (j : α) * M ≤ g.curMax - g.currentLoad
  solo : Solo csId v0.id st.1
  avail : ∀ kv ∈ st.2.2, 0 ≤ kv.2
  stat : ∀ s ∈ st.1.stations, s.id = csId → s.maxPower = mx ∧ s.minPower = 0 ∧ s.parent = gid

/-- another vehicle's turn: it takes at most `M` from the connector and leaves our vehicle and its
station alone -/
theorem turn_alloc (rule : Rule) (ops : BatOps α B) (law : BatLaw ops) (env : StratEnv α)
    (R0 : B → Prop) (v0 : VehicleS α B) (csId gid : String) (mx M H : α) (hM : 0 ≤ M) (j : ℕ)
    (st st' : SWorld α B × List (String × α) × List (String × α)) (vid : String) (hne : vid ≠ v0.id)
    (ht : Turn R0 v0 csId gid mx M H j st) (h : allocVehicle rule ops env st vid = .ok st') :
    Turn R0 v0 csId gid mx M H (j + 1) st' := by
  obtain ⟨v, hv, hc⟩ := allocVehicle_cases rule ops env st st' vid h
  have hweak : ∀ g, st.1.gc? gid = some g → H - ((j + 1 : ℕ) : α) * M ≤ g.curMax - g.currentLoad := by
    intro g hg
    have := ht.room g hg
    push_cast
    nlinarith
  rcases hc with ⟨_, rfl⟩ | ⟨csId', cs, gc, cheap, power, used, bat', avg, hcs, hst, hgc, hch, hpl, hcc, rfl⟩
  · exact ⟨ht.veh, ht.stn, ht.idle, hweak, ht.solo, ht.avail, ht.stat⟩
  · obtain ⟨hvm, hvid⟩ := vehicle?_some _ _ _ hv
    obtain ⟨hcsm, hcsid⟩ := station?_some' _ _ _ hst
    obtain ⟨hgm, hgid⟩ := gc?_some' _ _ _ hgc
    obtain ⟨hc0, hc1, hc2⟩ := ht.stn cs hcsm
    obtain ⟨hp0, _⟩ := planPower_bound rule ops env cheap _ _ cs v power used hpl
    obtain ⟨ha0, hap⟩ := chargeCall_bound rule ops law env cheap v power hp0 bat' avg hcc
    have hps := planPower_station rule ops env cheap _ _ cs v power used hc1 hpl
    have havM : avg ≤ M := by linarith
    have hcne : csId' ≠ csId := by
      intro he
      subst he
      exact hne ((ht.solo v hvm hcs) ▸ hvid.symm)
    refine ⟨?_, ?_, ?_, ?_, ?_, ?_, ?_⟩
    · exact at_write2 R0 R0 v0 v st.1 vid bat' _ _ hv (fun b hx => absurd hx hne) (fun _ _ hr => hr) ht.veh
    · intro s hs
      rcases mem_setStation _ _ s hs with rfl | hm
      · exact ⟨by simp only; linarith, by simp only; linarith, hc2⟩
      · exact ht.stn s hm
    · intro s hs hid
      rcases mem_setStation _ _ s hs with rfl | hm
      · simp only at hid; exact absurd (hcsid ▸ hid) hcne
      · exact ht.idle s hm hid
    · intro g hg
      obtain ⟨hL, hCM, hI, _⟩ := addLoad_currentLoad gc csId' avg
      have hg' : (st.1.setGc (gc.addLoad csId' avg).1).gc? gid = some g := hg
      by_cases hpar : gid = (gc.addLoad csId' avg).1.id
      · have hfound : st.1.gc? (gc.addLoad csId' avg).1.id = some gc := by rw [hI, hgid]; exact hgc
        rw [hpar, gc?_setGc_eq st.1 gc _ hfound] at hg'
        have hgeq : g = (gc.addLoad csId' avg).1 := (Option.some.inj hg').symm
        have hold := ht.room gc (by rw [hpar, hI, hgid]; exact hgc)
        rw [hgeq, hL, hCM]
        push_cast
        linarith
      · rw [gc?_setGc_ne st.1 _ gid hpar] at hg'
        exact hweak g hg'
    · intro u hu hucs
      have hu' : u ∈ (st.1.setVehicle { v with bat := bat' }).vehicles := hu
      rcases mem_setVehicle _ _ u hu' with rfl | hm
      · exact absurd (Option.some.inj (hcs ▸ hucs)) hcne
      · exact ht.solo u hm hucs
    · intro kv hkv
      simp only at hkv
      split at hkv
      · rcases mem_sdSet' _ _ _ kv hkv with h1 | h1
        · rw [h1, pymax_eq]; exact le_max_right _ _
        · exact ht.avail kv h1
      · exact ht.avail kv hkv
    · intro s hs hid
      rcases mem_setStation _ _ s hs with rfl | hm
      · simp only at hid; exact absurd (hcsid ▸ hid) hcne
      · exact ht.stat s hm hid

theorem turn_fold (rule : Rule) (ops : BatOps α B) (law : BatLaw ops) (env : StratEnv α)
    (R0 : B → Prop) (v0 : VehicleS α B) (csId gid : String) (mx M H : α) (hM : 0 ≤ M) (pre : List String) :
    ∀ (j : ℕ) (st st' : SWorld α B × List (String × α) × List (String × α)), v0.id ∉ pre →
      Turn R0 v0 csId gid mx M H j st → pre.foldlM (allocVehicle rule ops env) st = .ok st' →
      Turn R0 v0 csId gid mx M H (j + pre.length) st' := by
  induction pre with
  | nil =>
    intro j st st' _ ht h
    simp only [List.foldlM_nil, pure, Except.pure, Except.ok.injEq] at h
    subst h; simpa using ht
  | cons u us ih =>
    intro j st st' hn ht h
    simp only [List.foldlM_cons, bind, Except.bind] at h
    cases hs : allocVehicle rule ops env st u with
    | error e => simp [hs] at h
    | ok s1 =>
      simp only [hs] at h
      have hu : u ≠ v0.id := fun he => hn (he ▸ List.mem_cons_self)
      have h1 := turn_alloc rule ops law env R0 v0 csId gid mx M H hM j st s1 u hu ht hs
      have := ih (j + 1) s1 st' (fun hm => hn (List.mem_cons_of_mem _ hm)) h1 h
      have e : j + 1 + us.length = j + (u :: us).length := by simp only [List.length_cons]; omega
      rw [e] at this; exact this

/-- **greedy, one step, ANY vehicle, the headroom never binds** (`vehicles × M ≤ headroom`, `M` bounds
every station): from `soc ≥ min(desired − EPS, lo)` to
`soc ≥ min(desired − EPS, lo + max(min(station maximum, curve cap), 0) · gain)` -/
theorem ruleStep_greedy_ample (ops : BatOps α B) (law : BatLaw ops) (env : StratEnv α) (top : α)
    (cap : B → α) (lin : LinearLoad ops env.tsPerHour top cap) (heps : 0 ≤ env.eps)
    (ht : 0 < env.tsPerHour) (v0 : VehicleS α B) (hv : VehOk ops top v0) (hvm : v0.minChargingPower = 0)
    (csId gid : String) (mx M : α) (hcs : v0.cs = some csId)
    (w : SWorld α B) (d : StepGcs α) (w' : SWorld α B) (cmds : List (String × α))
    (hst : StationIs w csId gid mx)
    (hstn : ∀ s ∈ w.stations, 0 ≤ s.maxPower ∧ s.maxPower ≤ M) (hM : 0 ≤ M)
    (hsolo : Solo csId v0.id w) (hdear : Dear env d)
    (hroom : (w.vehicles.length : α) * M ≤ headroom d gid) (lo : α)
    (hat : At (Reached ops cap v0 (min (v0.desiredSoc - env.eps) lo)) v0 w)
    (h : ruleStep .greedy ops env (enter w d) = .ok (w', cmds)) :
    At (Reached ops cap v0 (min (v0.desiredSoc - env.eps)
      (lo + max (min mx (cap v0.bat)) 0 * gain ops env.tsPerHour v0.bat))) v0 w' := by
  obtain ⟨avail, st1, w2, c2, ha, hf, hd, hu⟩ := ruleStep_split .greedy ops env (enter w d) w' cmds h
  have hav := availBatPower_nonneg ops law (enter w d) avail ha
  -- our vehicle is somewhere in the id order
  have hmem : v0.id ∈ sortedVehicleIds (resetStations (enter w d)) := by
    obtain ⟨b, hb0, _⟩ := hat
    obtain ⟨hm, hid⟩ := vehicle?_some _ _ _ hb0
    unfold sortedVehicleIds
    rw [List.mem_mergeSort]
    exact List.mem_map.mpr ⟨_, hm, hid⟩
  have hlen : (sortedVehicleIds (resetStations (enter w d))).length = w.vehicles.length := by
    unfold sortedVehicleIds
    rw [List.length_mergeSort, List.length_map]; rfl
  obtain ⟨pre, post, hids, hnot⟩ := List.eq_append_cons_of_mem hmem
  rw [hids] at hf hlen
  obtain ⟨stp, hfp, hfx⟩ := foldlM_append_ok (allocVehicle .greedy ops env) pre (v0.id :: post) _ _ hf
  simp only [List.foldlM_cons, bind, Except.bind] at hfx
  cases hs : allocVehicle .greedy ops env stp v0.id with
  | error e => simp [hs] at hfx
  | ok sta =>
    simp only [hs] at hfx
    -- the state before our turn
    have ht0 : Turn (Reached ops cap v0 (min (v0.desiredSoc - env.eps) lo)) v0 csId gid mx M
        (headroom d gid) 0 (resetStations (enter w d), [], avail) := by
      refine ⟨at_of_vehicles_eq _ v0 w _ rfl hat, ?_, ?_, ?_, hsolo, ?_, ?_⟩
      · intro s hs
        unfold resetStations enter at hs
        simp only [List.mem_map] at hs
        obtain ⟨s0, hs0, rfl⟩ := hs
        obtain ⟨h0, h1⟩ := hstn s0 hs0
        exact ⟨le_refl _, h0, h1⟩
      · intro s hs _
        unfold resetStations at hs
        simp only [List.mem_map] at hs
        obtain ⟨s0, _, rfl⟩ := hs
        rfl
      · intro g hg
        have hg' : d.find? (·.id == gid) = some g := hg
        unfold headroom
        rw [hg']
        simp
      · exact hav
      · intro s hs hid
        unfold resetStations enter at hs
        simp only [List.mem_map] at hs
        obtain ⟨s0, hs0, rfl⟩ := hs
        exact hst s0 hs0 hid
    have htp := turn_fold .greedy ops law env _ v0 csId gid mx M (headroom d gid) hM pre 0 _ stp hnot ht0 hfp
    have hmeta : SameMeta (enter w d) stp.1 := allocFold_sameMeta .greedy ops env pre _ stp hfp
    have hdear' : Dear env stp.1.gcs := dear_of_sameMeta env (enter w d) stp.1 hmeta hdear
    -- our turn
    have hata : At (Reached ops cap v0 (min (v0.desiredSoc - env.eps)
        (lo + max (min mx (cap v0.bat)) 0 * gain ops env.tsPerHour v0.bat))) v0 sta.1 := by
      obtain ⟨v, hvv, hc⟩ := allocVehicle_cases .greedy ops env stp sta v0.id hs
      rcases hc with ⟨hn, _⟩ | ⟨csId', cs, gc, cheap, power, used, bat', avg, hcs', hstt, hgc, hch, hpl, hcc, rfl⟩
      · obtain ⟨b, hb0, hr0⟩ := htp.veh
        rw [hb0] at hvv
        have hvb : v = { v0 with bat := b } := (Option.some.inj hvv).symm
        rw [hvb] at hn; simp only at hn; rw [hcs] at hn; cases hn
      · apply at_write2 _ _ v0 v stp.1 v0.id bat' _ _ hvv _ (fun hx => absurd rfl hx) htp.veh
        intro b _ hvb hr0
        have hcid : csId' = csId := by
          rw [hvb] at hcs'; simp only at hcs'; rw [hcs] at hcs'; exact (Option.some.inj hcs').symm
        subst hcid
        obtain ⟨hcsm, hcsid⟩ := station?_some' _ _ _ hstt
        obtain ⟨hgm, hgid⟩ := gc?_some' _ _ _ hgc
        obtain ⟨hmx, hmn, hpar⟩ := htp.stat cs hcsm hcsid
        have hcur := htp.idle cs hcsm hcsid
        obtain ⟨_, _, hcsM⟩ := htp.stn cs hcsm
        have hcf : cheap = false := by
          have := hdear' gc hgm
          rw [this] at hch
          exact (Except.ok.inj hch).symm
        subst hcf
        have hroom' := htp.room gc (by rw [← hpar]; exact hgc)
        have ha0 : 0 ≤ (sdGet stp.2.2 cs.parent).getD 0 := sdGet_getD_nonneg _ htp.avail _
        rw [hvb] at hpl hcc
        have hres := greedy_call_reached ops env top cap lin heps ht v0 hv hvm cs mx hmx hmn hcur _ _ lo b
          power used bat' avg hr0 hpl hcc
        -- the headroom does not bind
        have hpre : ((0 + pre.length : ℕ) : α) + 1 ≤ (w.vehicles.length : α) := by
          have : pre.length + 1 ≤ w.vehicles.length := by
            rw [← hlen]; simp only [List.length_append, List.length_cons]; omega
          have : ((pre.length + 1 : ℕ) : α) ≤ (w.vehicles.length : α) := by exact_mod_cast this
          push_cast at this ⊢
          linarith
        have hbig : mx ≤ gc.curMax - gc.currentLoad + (sdGet stp.2.2 cs.parent).getD 0 := by
          have h1 : ((0 + pre.length : ℕ) : α) * M + M ≤ (w.vehicles.length : α) * M := by
            have := mul_le_mul_of_nonneg_right hpre hM
            linarith
          rw [← hmx]
          linarith
        rw [min_eq_right hbig] at hres
        exact hres
    have hat1 := (allocFold_at .greedy ops env (fun _ => True) _ v0 (fun _ _ _ _ _ => trivial)
      (fun w1 b cs gc cheap a power used b' avg _ _ hr _ _ hcc =>
        reached_up ops cap v0 _ b b' hr
          (chargeCall_up .greedy ops env top cap lin cheap { v0 with bat := b } power b' avg hcc))
      post sta st1 trivial hata hfx).2
    have hat2 := distributeSurplus_at ops env (fun _ => True) _ v0 (fun _ _ _ _ _ _ => trivial)
      (fun w1 b csId' cs gc isCheap r _ _ hr hloc =>
        reached_up ops cap v0 _ b r.1 hr
          (surplusLocal_up ops env top cap lin isCheap { v0 with bat := b } hv.v2g csId' cs gc r hloc))
      st1.1 w2 c2 trivial hat1 hd
    exact at_of_vehicles_eq _ v0 w2 w' (updateBatteries_vehicles ops env w2 w' hu) hat2

/-! ### across steps -/

theorem solo_write (csId xid : String) (w : SWorld α B) (v : VehicleS α B) (b' : B) (g' : GcS α)
    (s' : StationS α) (hv : v ∈ w.vehicles) (h : Solo csId xid w) :
    Solo csId xid (((w.setVehicle { v with bat := b' }).setGc g').setStation s') := by
  intro u hu hucs
  have hu' : u ∈ (w.setVehicle { v with bat := b' }).vehicles := hu
  rcases mem_setVehicle _ _ u hu' with rfl | hm
  · exact h v hv hucs
  · exact h u hm hucs

theorem solo_alloc (rule : Rule) (ops : BatOps α B) (env : StratEnv α) (csId xid : String)
    (st st' : SWorld α B × List (String × α) × List (String × α)) (vid : String)
    (hk : Solo csId xid st.1) (h : allocVehicle rule ops env st vid = .ok st') : Solo csId xid st'.1 := by
  obtain ⟨v, hv, hc⟩ := allocVehicle_cases rule ops env st st' vid h
  rcases hc with ⟨_, rfl⟩ | ⟨csId', cs, gc, cheap, power, used, bat', avg, hcs, hst, hgc, hch, hpl, hcc, rfl⟩
  · exact hk
  · exact solo_write csId xid st.1 v bat' _ _ (vehicle?_some _ _ _ hv).1 hk

theorem solo_surplus (ops : BatOps α B) (env : StratEnv α) (csId xid : String)
    (cheap : List (String × Bool)) (st st' : SWorld α B × List (String × α)) (u : VehicleS α B)
    (hk : Solo csId xid st.1) (h : surplusBody ops env cheap st u = .ok st') : Solo csId xid st'.1 := by
  rcases surplusBody_cases ops env cheap st st' u h with ⟨_, rfl⟩ | ⟨v, hv, hc⟩
  · exact hk
  · rcases hc with ⟨_, rfl⟩ | ⟨csId', cs, gc, r, hcs, hst, hgc, hloc, rfl⟩
    · exact hk
    · cases r with
      | none => exact hk
      | some t =>
        obtain ⟨bat', d, cur'⟩ := t
        exact solo_write csId xid st.1 v bat' _ _ (vehicle?_some _ _ _ hv).1 hk

theorem ruleStep_solo (rule : Rule) (ops : BatOps α B) (env : StratEnv α) (csId xid : String)
    (w w' : SWorld α B) (cmds : List (String × α)) (hk : Solo csId xid w)
    (h : ruleStep rule ops env w = .ok (w', cmds)) : Solo csId xid w' := by
  obtain ⟨avail, st1, w2, c2, ha, hf, hd, hu⟩ := ruleStep_split rule ops env w w' cmds h
  have h1 : Solo csId xid st1.1 :=
    foldlM_inv (allocVehicle rule ops env) (fun s => Solo csId xid s.1)
      (fun s x s' hi hs => solo_alloc rule ops env csId xid s s' x hi hs) _ _ _ hk hf
  have h2 : Solo csId xid w2 := by
    rw [distributeSurplus_unfold] at hd
    cases hc : st1.1.gcs.mapM (cheapEntry env) with
    | error e => simp [hc, bind, Except.bind] at hd
    | ok cheap =>
      simp only [hc, bind, Except.bind] at hd
      exact foldlM_inv (surplusBody ops env cheap) (fun s => Solo csId xid s.1)
        (fun s x s' hi hs => solo_surplus ops env csId xid cheap s s' x hi hs) _ (st1.1, []) (w2, c2) h1 hd
  intro u hu' hucs
  rw [updateBatteries_vehicles ops env w2 w' hu] at hu'
  exact h2 u hu' hucs

/-- SoC gained in `n` steps at `min(station maximum, curve cap)` -/
def ampleGain (ops : BatOps α B) (tsph : α) (b0 : B) (mx capv : α) (n : ℕ) : α :=
  (n : α) * (max (min mx capv) 0 * gain ops tsph b0)

/-- **greedy over a standing period, any vehicle, the headroom never binds** -/
theorem runLast_greedy_ample (ops : BatOps α B) (law : BatLaw ops) (top : α) (cap : B → α)
    (v0 : VehicleS α B) (hv : VehOk ops top v0) (hvm : v0.minChargingPower = 0)
    (csId gid : String) (mx M : α) (hM : 0 ≤ M) (hcs : v0.cs = some csId) (w0 : SWorld α B)
    (hst : StationIs w0 csId gid mx) (hstn : ∀ s ∈ w0.stations, 0 ≤ s.maxPower ∧ s.maxPower ≤ M)
    (ds : List (StepGcs α)) :
    ∀ (env : StratEnv α) (w : SWorld α B) (lo : α) (wl : SWorld α B),
      LinearLoad ops env.tsPerHour top cap → 0 ≤ env.eps → 0 < env.tsPerHour →
      (∀ d ∈ ds, Dear env d ∧ (w0.vehicles.length : α) * M ≤ headroom d gid) → Keep w0 w →
      Solo csId v0.id w →
      At (Reached ops cap v0 (min (v0.desiredSoc - env.eps) lo)) v0 w →
      runLast .greedy ops env w ds = .ok wl →
      At (Reached ops cap v0 (min (v0.desiredSoc - env.eps)
        (lo + ampleGain ops env.tsPerHour v0.bat mx (cap v0.bat) ds.length))) v0 wl := by
  induction ds with
  | nil =>
    intro env w lo wl _ _ _ _ _ _ hat h
    unfold runLast at h
    simp only [Except.ok.injEq] at h
    subst h
    simpa [ampleGain] using hat
  | cons d ds ih =>
    intro env w lo wl lin heps ht hd hk hsolo hat h
    obtain ⟨w', cmds, hs, hr⟩ := runLast_cons .greedy ops env w d ds wl h
    have hlen : w.vehicles.length = w0.vehicles.length := by
      have := congrArg List.length hk.ids
      simpa using this
    have hstn' : ∀ s ∈ w.stations, 0 ≤ s.maxPower ∧ s.maxPower ≤ M := by
      intro s hs
      obtain ⟨s0, hs0, _, e2, _, _⟩ := hk.stations s hs
      rw [e2]; exact hstn s0 hs0
    have hat' := ruleStep_greedy_ample ops law env top cap lin heps ht v0 hv hvm csId gid mx M hcs w d w' cmds
      (stationIs_keep w0 w csId gid mx hk hst) hstn' hM hsolo (hd d (by simp)).1
      (by rw [hlen]; exact (hd d (by simp)).2) lo hat hs
    have hk' : Keep w0 w' := ruleStep_keep .greedy ops env w0 (enter w d) w' cmds (keep_enter w0 w d hk) hs
    have hsolo' : Solo csId v0.id w' := ruleStep_solo .greedy ops env csId v0.id (enter w d) w' cmds hsolo hs
    have := ih (tick env) w' _ wl lin heps ht (fun d' hd' => hd d' (List.mem_cons_of_mem _ hd')) hk' hsolo'
      hat' hr
    have e1 : (tick env).eps = env.eps := rfl
    have e2 : (tick env).tsPerHour = env.tsPerHour := rfl
    rw [e1, e2] at this
    have e3 : lo + max (min mx (cap v0.bat)) 0 * gain ops env.tsPerHour v0.bat
        + ampleGain ops env.tsPerHour v0.bat mx (cap v0.bat) ds.length
        = lo + ampleGain ops env.tsPerHour v0.bat mx (cap v0.bat) (d :: ds).length := by
      unfold ampleGain
      simp only [List.length_cons]
      push_cast
      ring
    rw [e3] at this
    exact this

end SpiceEv.StratRun
