/-
C07 — vehicle frame of the greedy / balanced step (`ruleStep`, `Model/Strategies.lean`): the step changes a vehicle only
through its battery.  Same control flow as section `rule` of `Proofs/C07Keeps.lean`; invariant `KeepsVeh.VInv K ids0`.
Purely structural, instance-free (only the plain operations of the model's section).

Covered (all world-updating functions of the model): `surplusVehicle`, `distributeSurplus`, `updateBattery`,
`updateBatteries`, `allocVehicle`, `ruleStep`.  Nothing missing.
-/
import SpiceEv.Proofs.C07KeepsVeh
set_option linter.unusedSectionVars false
set_option linter.unusedSimpArgs false
set_option linter.unusedVariables false
namespace SpiceEv
namespace KeepsVeh

variable {α B : Type}
variable {K : List (String × Option String × α × Option Int × α × Bool × α)} {ids0 : List String}
variable [Add α] [Sub α] [Mul α] [Div α] [Neg α] [LT α] [LE α]
  [DecidableLT α] [DecidableLE α] [OfNat α 0] [OfNat α 1] [NatCast α] [IntCast α]

theorem surplusVehicle_vkeeps (ops : BatOps α B) (env : StratEnv α) (cheap : List (String × Bool))
    (w w' : SWorld α B) (cmds cmds' : List (String × α)) (v : VehicleS α B) (hv : vehKey v ∈ K)
    (hi : VInv K ids0 w) (h : surplusVehicle ops env cheap w cmds v = .ok (w', cmds')) : VInv K ids0 w' := by
  unfold surplusVehicle at h
  split at h
  · cases h; exact hi
  · rename_i csId _
    split at h
    · cases h
    · rename_i cs hcs
      split at h
      · cases h
      · rename_i gc hgc
        dsimp only at h
        split at h
        · simp only [bind, Except.bind] at h
          split at h
          · cases h
          · rename_i r _
            obtain ⟨bat', avg⟩ := r
            simp only [Except.ok.injEq, Prod.mk.injEq] at h
            obtain ⟨rfl, -⟩ := h
            exact ((hi.setBat hv bat').setGc _).setStation _
        · split at h
          · simp only [bind, Except.bind] at h
            split at h
            · cases h
            · rename_i r _
              obtain ⟨bat', avg⟩ := r
              simp only [Except.ok.injEq, Prod.mk.injEq] at h
              obtain ⟨rfl, -⟩ := h
              exact ((hi.setBat hv bat').setGc _).setStation _
          · cases h; exact hi

theorem distributeSurplus_vkeeps (ops : BatOps α B) (env : StratEnv α) (w w' : SWorld α B)
    (cmds' : List (String × α)) (hi : VInv K ids0 w) (h : distributeSurplus ops env w = .ok (w', cmds')) :
    VInv K ids0 w' := by
  unfold distributeSurplus at h
  simp only [bind, Except.bind] at h
  split at h
  · cases h
  · rename_i cheap _
    refine foldlM_inv _ (fun (st : SWorld α B × List (String × α)) => VInv K ids0 st.1) ?_ w.vehicles (w, []) (w', cmds') hi h
    intro st v0 st' hst hf
    split at hf
    · cases hf; exact hst
    · rename_i v hv
      exact surplusVehicle_vkeeps ops env cheap st.1 st'.1 st.2 st'.2 v (hst.key_of_vehicle? hv) hst hf

theorem updateBattery_vkeeps (ops : BatOps α B) (env : StratEnv α) (cheap : List (String × Bool))
    (w w' : SWorld α B) (b : StatBatS α B)
    (hi : VInv K ids0 w) (h : updateBattery ops env cheap w b = .ok w') : VInv K ids0 w' := by
  unfold updateBattery at h
  split at h
  · cases h; exact hi
  · rename_i gc hgc
    simp only [bind, Except.bind] at h
    split at h
    · cases h
    · split at h
      · split at h
        · cases h
        · cases h
          exact VInv.setGc (VInv.setBattery hi _) _
      · split at h
        · split at h
          · cases h
          · cases h
            exact VInv.setGc (VInv.setBattery hi _) _
        · split at h
          · cases h
          · cases h
            exact VInv.setGc (VInv.setBattery hi _) _

theorem updateBatteries_vkeeps (ops : BatOps α B) (env : StratEnv α) (w w' : SWorld α B)
    (hi : VInv K ids0 w) (h : updateBatteries ops env w = .ok w') : VInv K ids0 w' := by
  unfold updateBatteries at h
  simp only [bind, Except.bind] at h
  split at h
  · cases h
  · rename_i cheap _
    refine foldlM_inv _ (fun (st : SWorld α B) => VInv K ids0 st) ?_ w.batteries w w' hi h
    intro st b0 st' hst hf
    split at hf
    · cases hf; exact hst
    · rename_i b hb
      exact updateBattery_vkeeps ops env cheap st st' b hst hf

theorem allocVehicle_vkeeps (rule : Rule) (ops : BatOps α B) (env : StratEnv α)
    (st st' : SWorld α B × List (String × α) × List (String × α)) (vid : String)
    (hi : VInv K ids0 st.1) (h : allocVehicle rule ops env st vid = .ok st') : VInv K ids0 st'.1 := by
  unfold allocVehicle at h
  split at h
  · cases h
  · rename_i v hv
    have hk : vehKey v ∈ K := hi.key_of_vehicle? hv
    split at h
    · cases h; exact hi
    · rename_i csId _
      split at h
      · cases h
      · rename_i cs hcs
        split at h
        · cases h
        · rename_i gc hgc
          simp only [bind, Except.bind] at h
          split at h
          · cases h
          · split at h
            · cases h
            · split at h
              · cases h
              · cases h
                exact ((hi.setBat hk _).setGc _).setStation _

/-- **greedy / balanced.**  The step keeps the vehicle invariant: vehicle ids in order, and every vehicle record carries
the non-battery data (id, `cs`, `desired_soc`, `etd`, type data) of a vehicle before the step. -/
theorem ruleStep_vinv (rule : Rule) (ops : BatOps α B) (env : StratEnv α) (w w' : SWorld α B)
    (cmds : List (String × α)) (hi : VInv K ids0 w) (h : ruleStep rule ops env w = .ok (w', cmds)) :
    VInv K ids0 w' := by
  unfold ruleStep at h
  simp only [bind, Except.bind] at h
  split at h
  · cases h
  · rename_i avail _
    split at h
    · cases h
    · rename_i r1 h1
      obtain ⟨w1, cmds1, av1⟩ := r1
      have i1 : VInv K ids0 w1 :=
        foldlM_inv _ (fun (st : SWorld α B × List (String × α) × List (String × α)) => VInv K ids0 st.1)
          (fun st vid st' hst hf => allocVehicle_vkeeps rule ops env st st' vid hst hf)
          _ _ _ hi.resetStations h1
      dsimp only at h
      split at h
      · cases h
      · rename_i r2 h2
        obtain ⟨w2, cmds2⟩ := r2
        have i2 := distributeSurplus_vkeeps ops env w1 w2 cmds2 i1 h2
        dsimp only at h
        split at h
        · cases h
        · rename_i w3 h3
          simp only [Except.ok.injEq, Prod.mk.injEq] at h
          obtain ⟨rfl, -⟩ := h
          exact updateBatteries_vkeeps ops env w2 _ i2 h3

theorem ruleStep_vkeeps (rule : Rule) (ops : BatOps α B) (env : StratEnv α) (w w' : SWorld α B)
    (cmds : List (String × α)) (h : ruleStep rule ops env w = .ok (w', cmds)) :
    VehKeeps (w.vehicles.map vehKey) (w.vehicles.map (·.id)) w'.vehicles :=
  ruleStep_vinv rule ops env w w' cmds (VInv.init w) h

end KeepsVeh
end SpiceEv
