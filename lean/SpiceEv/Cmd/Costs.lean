/- driver commands for Model/Costs.lean (exact stream only: `Rat`) -/
import SpiceEv.Wire
import SpiceEv.Model.Costs
namespace SpiceEv.Cmd.Costs
open SpiceEv SpiceEv.Costs

def rNum (x : Rat) : String := Wire.render x

def pScheme : P Scheme := do
  let t ← P.tok
  match t with
  | "fixed_wo_plw" => pure .fixedWoPlw
  | "fixed_w_plw" => pure .fixedWPlw
  | "variable_wo_plw" => pure .variableWoPlw
  | "variable_w_plw" => pure .variableWPlw
  | "balanced_market" => pure .balancedMarket
  | "flex_window" => pure .flexWindow
  | "schedule" => pure .schedule
  | "other" => pure .other
  | _ => failure

def pFee : P (Option FeeType) := do
  let t ← P.tok
  match t with
  | "N" => pure none
  | "SLP" => pure (some .slp)
  | "RLM" => pure (some .rlm)
  | "X" => pure (some .other)
  | _ => failure

def rFee : FeeType → String
  | .slp => "SLP" | .rlm => "RLM" | .other => "X"

def pNums : P (List Rat) := P.list (P.num Rat)

def pPrices : P (PriceArg Rat) := do
  let t ← P.tok
  match t with
  | "N" => pure .none
  | "L" => do let l ← pNums; pure (.list l)
  | "D" => do
    let p ← P.opt pNums
    let c ← P.opt pNums
    pure (.dict p c)
  | _ => failure

def pSheet : P (PriceSheet Rat) := do
  let slpBasic ← P.num Rat
  let slpCommodity ← P.num Rat
  let lowCom ← pNums
  let lowCap ← pNums
  let highCom ← pNums
  let highCap ← pNums
  let additional ← P.num Rat
  let procurement ← P.num Rat
  let eeg ← P.num Rat
  let chp ← P.num Rat
  let ind ← P.num Rat
  let off ← P.num Rat
  let intr ← P.num Rat
  let concession ← P.num Rat
  let vat ← P.num Rat
  let tax ← P.num Rat
  let pvKwp ← pNums
  let pvRem ← pNums
  let v2g ← P.num Rat
  let bat ← P.num Rat
  let sig ← pNums
  let red ← P.num Rat
  let devCharge ← P.num Rat
  let devTol ← P.num Rat
  pure ⟨slpBasic, slpCommodity, lowCom, lowCap, highCom, highCap, additional, procurement, eeg, chp,
    ind, off, intr, concession, vat, tax, pvKwp, pvRem, v2g, bat, sig, red, devCharge, devTol⟩

def pInput : P (Input Rat) := do
  let scheme ← pScheme
  let vl ← P.nat
  let fee ← pFee
  let sec ← P.num Rat
  let n ← P.nat
  let supply ← pNums
  let prices ← pPrices
  let fix ← pNums
  let gen ← P.opt pNums
  let v2g ← P.opt pNums
  let bat ← P.opt pNums
  let window ← P.opt (P.list P.bool)
  let pv ← P.num Rat
  let sched ← P.opt pNums
  let sheet ← P.opt pSheet
  pure ⟨scheme, vl, sec, n, supply, prices, fix, gen, v2g, bat, window, sheet, fee, pv, sched⟩

def rResult (r : Result Rat) : String :=
  " ".intercalate [rNum r.totalCostsPerYear, rNum r.commodityCostsPerYear, rNum r.capacityCosts,
    rNum r.procurementPerYear, rNum r.leviesFeesTaxesPerYear, rNum r.feedInPerYear,
    renderOpt rNum r.peakPowerInWindows]

def rLeaf : Leaf Rat → String
  | .num x => rNum x
  | .info => "info"
  | .key s => s

def rRaw (d : Detail Rat) : String :=
  " ".intercalate [
    "fee=" ++ rFee d.feeType, "fy=" ++ rNum d.fractionYear, "energySim=" ++ rNum d.energySim,
    "energyPa=" ++ rNum d.energyPa, "util=" ++ rNum d.utilization,
    "commoditySim=" ++ rNum d.commoditySim, "commodityYear=" ++ rNum d.commodityYear,
    "capacity=" ++ rNum d.capacity, "procurementSim=" ++ rNum d.procurementSim,
    "procurementYear=" ++ rNum d.procurementYear,
    "eegYear=" ++ rNum d.eegYear, "chpYear=" ++ rNum d.chpYear, "indYear=" ++ rNum d.indYear,
    "offYear=" ++ rNum d.offYear, "intYear=" ++ rNum d.intYear,
    "concessionYear=" ++ rNum d.concessionYear, "taxYear=" ++ rNum d.taxYear,
    "vatYear=" ++ rNum d.vatYear, "netSim=" ++ rNum d.netSim, "netYear=" ++ rNum d.netYear,
    "pvYear=" ++ rNum d.pvYear, "v2gYear=" ++ rNum d.v2gYear, "batYear=" ++ rNum d.batYear,
    "totalSim=" ++ rNum d.totalSim, "totalYear=" ++ rNum d.totalYear]

/-- `costs q <mode> <input>`; mode 0: returned dict; 1: returned dict | JSON
section; 2: rounded dict | rounded JSON leaves | unrounded dict | unrounded leaves | detail (float stream:
tolerance and boundary detection) -/
def cmdCosts : P String := do
  let mode ← P.nat
  let inp ← pInput
  match calculateCostsRaw inp with
  | .error e => pure (renderErr e)
  | .ok d =>
    let res := roundResult pyRound2 d
    if mode == 0 then pure (rResult res)
    else if mode == 1 then
      pure (rResult res ++ " | "
        ++ " ".intercalate ((jsonSection pyRound2 inp.scheme d).map rLeaf))
    else
      let idr : Rat → Rat := fun x => x
      pure (rResult res ++ " | "
        ++ " ".intercalate ((jsonSection pyRound2 inp.scheme d).map rLeaf) ++ " | "
        ++ rResult (roundResult idr d) ++ " | "
        ++ " ".intercalate ((jsonSection idr inp.scheme d).map rLeaf) ++ " | " ++ rRaw d)

/-- `fixload q <fixed> <generation> <battery> <cs_sum>` (four lists) -/
def cmdFixLoad : P String := do
  let f ← pNums
  let g ← pNums
  let b ← pNums
  let c ← pNums
  pure (renderList rNum (fixedLoadSupply f g b c))

/-- `findprices q <fee> <vl> <util> <energy> S <sheet>` -/
def cmdFindPrices : P String := do
  let fee ← pFee
  let vl ← P.nat
  let util ← P.num Rat
  let energy ← P.num Rat
  let sheet ← pSheet
  pure (renderPy (fun (r : Rat × Rat × FeeType) => s!"{rNum r.1} {rNum r.2.1} {rFee r.2.2}")
    (findPrices sheet fee vl util energy))

/-- `round2 q <k> x…` → `round(x, 2)` for each x -/
def cmdRound2 : P String := do
  let xs ← pNums
  pure (" ".intercalate (xs.map (fun x => rNum (pyRound2 x))))

/-- `costconst q` → the constants of the model that mirror module-level constants of costs.py -/
def cmdConst : P String :=
  pure s!"{utilizationTimePerYearEC} {maxEnergySupplyPerYearSLP} {secondsPerYear} {plwPeakDiffKW}"

def onlyQ (p : P String) : Handler
  | "q" :: rest => runP p rest
  | _ => none

def handlers : List (String × Handler) :=
  [("costs", onlyQ cmdCosts), ("findprices", onlyQ cmdFindPrices), ("round2", onlyQ cmdRound2),
   ("costconst", onlyQ cmdConst), ("fixload", onlyQ cmdFixLoad)]

end SpiceEv.Cmd.Costs
