/- driver command for Model/ReportFlex.lean: the report of one connector with the flex band computed
by the flex-band model (Float, as command `flexband`) from the scenario state handed to the real
`generate_flex_band`, every band value converted to the exact rational of the double. -/
import SpiceEv.Wire
import SpiceEv.Model.ReportFlex
import SpiceEv.Cmd.Report
import SpiceEv.Cmd.FlexBand
namespace SpiceEv.Cmd.ReportFlex
open SpiceEv SpiceEv.Report SpiceEv.ReportFlex

/-- exact rational of a finite double (0 for inf/nan: such a band value would print as `inf`/`nan`
in the real file and is reported by the comparison) -/
def ratOfFloat (x : Float) : Rat := (Cmd.Report.floatBitsToRat x.toBits.toNat).getD 0

def rBand (r : Py (FlexBand.Flex Float)) : String :=
  match r with
  | .error e => renderErr e
  | .ok f => " | ".intercalate [Cmd.FlexBand.rNums f.min, Cmd.FlexBand.rNums f.base,
      Cmd.FlexBand.rNums f.max,
      renderList (fun (iv : FlexBand.Interval Float) => s!"{Cmd.FlexBand.rNum iv.needed} {iv.numPresent}")
        f.intervals]

/-- `report_fb q <places> <hasTs> <RunData (flex token ignored unless K)> <flexband scenario tokens>` →
the five sections of `report` computed with the MODEL's band, then ` || ` the band itself
(`min | base | max | intervals` as doubles, or the exception) -/
def cmdReportFb : P String := do
  let places ← P.nat
  let hasTs ← P.bool
  let R0 ← Cmd.Report.pRun
  let (sc, gcId, cst, eps) ← Cmd.FlexBand.pScen
  let ops := Cmd.FlexBand.floatOps (Cmd.Battery.hoursOfMicros sc.interval)
  let band := FlexBand.generateFlexBand ops eps Cmd.FlexBand.stratEps (Cmd.FlexBand.tsPerHour sc.interval)
    sc gcId cst
  let skip := match R0.flex with | .skipped => true | _ => false
  let R := withBand ratOfFloat R0 skip band
  let rnd := pyRoundRat places
  let ts := aggregateTimeseries rnd R
  let soc := socSeries R
  let tsOpt : Py (Option (List String × List (List (Cell Rat)))) :=
    if hasTs then ts.map some else .ok none
  let loc := tsOpt.bind (fun t => aggregateLocal R t)
  let rd := ts.bind (fun t => readSimulation t.1 t.2)
  let win := " ".intercalate ((List.range R.steps.length).map
    (fun i => toString (windowIndex R.startLocal R.interval i)))
  pure (renderPy Cmd.Report.rTimeseries ts ++ " || " ++ renderPy Cmd.Report.rSoc soc ++ " || "
        ++ renderPy Cmd.Report.rLocal loc ++ " || " ++ renderPy Cmd.Report.rRead rd ++ " || " ++ win
        ++ " || " ++ rBand band)

def handlers : List (String × Handler) :=
  [("report_fb", Cmd.Report.qOnly cmdReportFb)]

end SpiceEv.Cmd.ReportFlex
