"""Shared adapter of the C07 / C08 checks: runs the REAL spice_ev event machinery on a JSON case
and renders (a) the request line for the Lean driver from the case *input* (never from objects built
by the code under test) and (b) the implementation's observable state in exactly the format
lean/SpiceEv/Cmd/Events.lean prints.

Case (kind "run"):
  {"k": "run", "start": iso, "interval_s": number, "n": int,
   "opts": {"EPS": "p/q"|None, "margin": "p/q"|None, "ALLOW_NEGATIVE_SOC": bool|None,
            "RESET_NEGATIVE_SOC": bool|None, "CONCURRENCY": number|None},
   "components": <spice_ev components JSON>, "events": <spice_ev events JSON>,
   "inj": [[step, gc, load name, number], ...]}        # GridConnector.add_load after base step `step`
Numbers in components/events are JSON numbers that are exactly representable as doubles on a small
dyadic lattice, so every float operation of the event loop is exact and the comparison with the
`Rat` model is equality.  `EPS`/`margin` are handed to the strategy as exact `Q` values (the
constructor `setattr`s every keyword); `None` leaves the code's float default (1e-5 / 0.1), the model
then receives the exact rational value of that double (on the lattice no comparison comes within
rounding distance of its threshold).

Wire formats (tokens separated by blanks):
  opt X      N | S X
  cost       E | F v | P n c1..cn
  update     opt(opt eta) opt(opt etd) opt desired opt soc_delta opt(opt station) opt schedule
  event      F sig start name gc v | L sig start name gc v
             | G sig start gc opt(max_power) opt(cost) opt(target) opt(window)
             | V sig start vid a|d|o update
  list X     n X1..Xn
  connector  name max_power opt(cur_max_power) cost opt(target) opt(window) list(name v)
  vehicle    id opt(station) opt(eta) opt(etd) desired soc opt(soc_delta) opt(schedule)
  step       # ok|!Err now ; P list(event) ; Q list(event) ; C list(connector) ; V list(vehicle)
             ; K desired_counter margin_counter ; T list(id list(time))
  evrun out  S list(station max_power) | B moved ignored list(list(event)) | step… | R ok|!Err step_i
"""
import datetime
import warnings
from fractions import Fraction

import engine
from exact import Q

engine.use_repo()

US = datetime.timedelta(microseconds=1)
EPOCH_AWARE = datetime.datetime(1970, 1, 1, tzinfo=datetime.timezone.utc)
EPOCH_NAIVE = datetime.datetime(1970, 1, 1)


def us(dt):
    """datetime -> integer µs (UTC instant for aware, wall clock for naive); exact"""
    if dt.tzinfo is not None:
        return (dt - EPOCH_AWARE) // US
    return (dt - EPOCH_NAIVE) // US


def td_us(td):
    return td // US


def iso_us(s):
    return us(datetime.datetime.fromisoformat(s))


def num(x):
    """exact token of a number held by the implementation or given in the case"""
    if isinstance(x, Q):
        return str(x.v)
    if isinstance(x, bool):
        raise TypeError("bool where a number is expected")
    if isinstance(x, (int, float, Fraction)):
        return str(Fraction(x))
    if isinstance(x, str):
        return str(Fraction(x))
    raise TypeError("not a number: %r" % (x,))


def opt(x, f):
    return "N" if x is None else "S " + f(x)


def lst(xs, f):
    xs = list(xs)
    return " ".join([str(len(xs))] + [f(x) for x in xs])


def boolean(b):
    return "1" if b else "0"


def name(s):
    return str(s)


def cost(d):
    if not d:
        return "E"
    if d.get("type") == "fixed":
        return "F " + num(d["value"])
    if d.get("type") == "polynomial":
        return "P " + lst(d["value"], num)
    raise ValueError("cost shape not modelled: %r" % (d,))


def t_any(x):
    """time token from an ISO string (case) or a datetime (implementation)"""
    return str(iso_us(x) if isinstance(x, str) else us(x))


_MISSING = object()


def update(u):
    def o(key, f):
        v = u.get(key, _MISSING)
        return "N" if v is _MISSING else "S " + f(v)
    return " ".join([
        o("estimated_time_of_arrival", lambda v: opt(v, t_any)),
        o("estimated_time_of_departure", lambda v: opt(v, t_any)),
        o("desired_soc", num), o("soc_delta", num),
        o("connected_charging_station", lambda v: opt(v, name)),
        o("schedule", num)])


KIND = {"arrival": "a", "departure": "d"}


# ---- request line from the case input -------------------------------------------------------

def ev_vehicle_json(e):
    return "V %s %s %s %s %s" % (t_any(e["signal_time"]), t_any(e["start_time"]), e["vehicle_id"],
                                 KIND.get(e["event_type"], "o"), update(e["update"]))


def ev_signal_json(e):
    return "G %s %s %s %s %s %s %s" % (
        t_any(e["signal_time"]), t_any(e["start_time"]), e["grid_connector_id"],
        opt(e.get("max_power"), num), opt(e.get("cost"), cost), opt(e.get("target"), num),
        opt(e.get("window"), boolean))


def values_list_json(item):
    nm, o = item
    step = datetime.timedelta(seconds=float(o["step_duration_s"]))
    return "%s %s %d %s %s %s" % (nm, t_any(o["start_time"]), td_us(step), o["grid_connector_id"],
                                  num(float(o.get("factor", 1))), lst(o.get("values", []), lambda v: num(float(v))))


def connector_json(item):
    nm, o = item
    return "%s %s %s %s %s %s" % (
        nm, num(float(o["max_power"])), cost(o.get("cost") or {}), opt(o.get("target"), lambda v: num(float(v))),
        opt(o.get("window"), boolean),
        lst((o.get("current_loads") or {}).items(), lambda kv: "%s %s" % (kv[0], num(kv[1]))))


def vehicle_json(item):
    nm, o = item
    return "%s %s %s %s %s %s %s" % (
        nm, opt(o.get("connected_charging_station"), name),
        opt(o.get("estimated_time_of_arrival"), t_any), opt(o.get("estimated_time_of_departure"), t_any),
        num(float(o.get("desired_soc") or 0.0)), num(float(o.get("soc") or 0.0)),
        opt(o.get("schedule"), lambda v: num(float(v))))


DEFAULT_EPS = 1e-5
DEFAULT_MARGIN = 0.1


def run_line(case, extra_signals=()):
    """`evrun q …` request for a run case; `extra_signals` = already rendered CSV-derived signals"""
    c, e, o = case["components"], case["events"], case.get("opts", {})
    interval = datetime.timedelta(seconds=case["interval_s"])
    eps = o.get("EPS")
    margin = o.get("margin")
    conc = o.get("CONCURRENCY")
    sig = [ev_signal_json(x) for x in e.get("grid_operator_signals", [])] + list(extra_signals)
    parts = [
        "evrun q", str(td_us(interval)),
        num(DEFAULT_EPS if eps is None else eps), num(DEFAULT_MARGIN if margin is None else margin),
        boolean(o.get("ALLOW_NEGATIVE_SOC")), boolean(o.get("RESET_NEGATIVE_SOC")),
        num(1.0 if conc is None else conc),
        t_any(case["start"]), str(case["n"]),
        lst(c.get("grid_connectors", {}).items(), connector_json),
        lst(c.get("charging_stations", {}).items(),
            lambda kv: "%s %s %s" % (kv[0], num(float(kv[1]["max_power"])), kv[1]["parent"])),
        lst(c.get("batteries", {}).keys(), name),
        lst(c.get("vehicles", {}).items(), vehicle_json),
        lst(e.get("vehicle_events", []), ev_vehicle_json),
        " ".join([str(len(sig))] + sig),
        lst(e.get("fixed_load", {}).items(), values_list_json),
        lst(e.get("local_generation", {}).items(), values_list_json),
        lst(case.get("inj", []), lambda j: "%d %s %s %s" % (j[0], j[1], j[2], num(j[3]))),
    ]
    return " ".join(parts)


# ---- rendering of the implementation's objects ----------------------------------------------

def ev_impl(ev):
    from spice_ev import events
    t = type(ev)
    if t is events.FixedLoad or t is events.LocalEnergyGeneration:
        return "%s %d %d %s %s %s" % ("F" if t is events.FixedLoad else "L", us(ev.signal_time),
                                      us(ev.start_time), ev.name, ev.grid_connector_id, num(ev.value))
    if t is events.GridOperatorSignal:
        return "G %d %d %s %s %s %s %s" % (
            us(ev.signal_time), us(ev.start_time), ev.grid_connector_id, opt(ev.max_power, num),
            opt(ev.cost, cost), opt(ev.target, num), opt(ev.window, boolean))
    if t is events.VehicleEvent:
        return "V %d %d %s %s %s" % (us(ev.signal_time), us(ev.start_time), ev.vehicle_id,
                                     KIND.get(ev.event_type, "o"), update(ev.update))
    raise TypeError(t)


def connector_impl(item):
    nm, c = item
    return "%s %s %s %s %s %s %s" % (
        nm, num(c.max_power), opt(c.cur_max_power, num), cost(c.cost), opt(c.target, num),
        opt(c.window, boolean), lst(c.current_loads.items(), lambda kv: "%s %s" % (kv[0], num(kv[1]))))


def vehicle_impl(item):
    nm, v = item
    return "%s %s %s %s %s %s %s %s" % (
        nm, opt(v.connected_charging_station, name), opt(v.estimated_time_of_arrival, t_any),
        opt(v.estimated_time_of_departure, t_any), num(v.desired_soc), num(v.battery.soc),
        opt(getattr(v, "soc_delta", None), num), opt(v.schedule, num))


def err_name(e):
    return "ok" if e is None else "!" + type(e).__name__


class LogList(list):
    """`future_events` replacement that records the order in which events are popped (run-time
    wrapper, DESIGN §2.6: the code under test is not edited)"""

    def __init__(self, *a):
        super().__init__(*a)
        self.log = []

    def pop(self, *a):
        x = super().pop(*a)
        self.log.append(x)
        return x

    def __deepcopy__(self, memo):
        return LogList(self)


class Obs:
    """what the oracles look at: one record per executed base step"""

    def __init__(self):
        self.init_error = None
        self.bucket_error = None
        self.steps_impl = None          # result of get_event_steps
        self.all_events = None
        self.records = []               # dicts: err, now, popped, queue, strat snapshot accessors
        self.error = None
        self.step_i = 0
        self.strat = None
        self.moved = self.ignored = None


def snapshot(strat):
    ws = strat.world_state
    return {
        "now": strat.current_time,
        "connectors": {k: {"max_power": c.max_power, "cur_max_power": c.cur_max_power, "cost": dict(c.cost) if c.cost is not None else None,
                           "target": c.target, "window": c.window, "loads": dict(c.current_loads)}
                       for k, c in ws.grid_connectors.items()},
        "vehicles": {k: {"station": v.connected_charging_station, "eta": v.estimated_time_of_arrival,
                         "etd": v.estimated_time_of_departure, "desired": v.desired_soc,
                         "soc": v.battery.soc, "has_delta": hasattr(v, "soc_delta"),
                         "soc_delta": getattr(v, "soc_delta", None), "schedule": v.schedule}
                     for k, v in ws.vehicles.items()},
        "desired_counter": strat.desired_counter, "margin_counter": strat.margin_counter,
        "tracker": {k: list(v) for k, v in strat.negative_soc_tracker.items()},
    }


def run_impl(case, dir_path="."):
    """run the real code on a run case -> (rendered output string, Obs)"""
    from spice_ev import components, events, strategy
    obs = Obs()
    o = case.get("opts", {})
    start = datetime.datetime.fromisoformat(case["start"])
    interval = datetime.timedelta(seconds=case["interval_s"])
    n = case["n"]
    with warnings.catch_warnings():
        warnings.simplefilter("ignore")
        comps = components.Components(case["components"])
        evs = events.Events(case["events"], dir_path)
        obs.events_obj = evs
        kw = {}
        for k in ("EPS", "margin"):
            if o.get(k) is not None:
                kw[k] = Q(o[k])
        for k in ("ALLOW_NEGATIVE_SOC", "RESET_NEGATIVE_SOC", "CONCURRENCY"):
            if o.get(k) is not None:
                kw[k] = o[k]
        try:
            strat = strategy.Strategy(comps, start, interval=interval, **kw)
        except Exception as e:
            obs.init_error = e
            return err_name(e), obs
        obs.strat = strat
        head = "S " + lst(strat.world_state.charging_stations.items(),
                          lambda kv: "%s %s" % (kv[0], num(kv[1].max_power)))
        with warnings.catch_warnings(record=True) as wlist:
            warnings.simplefilter("always")
            try:
                steps = evs.get_event_steps(start, n, interval)
            except Exception as e:
                obs.bucket_error = e
                return head + " | " + err_name(e), obs
        moved = ignored = 0
        for w in wlist:
            m = str(w.message)
            if "before start of scenario" in m:
                moved = int(m.split()[0])
            elif "ignored after end" in m:
                ignored = int(m.split()[0])
        obs.steps_impl, obs.moved, obs.ignored = steps, moved, ignored
        b = "B %d %d %s" % (moved, ignored, lst(steps, lambda s: lst(s, ev_impl)))
        out = []
        error = None
        step_i = -1
        inj = case.get("inj", [])
        for step_i in range(n):
            q0 = list(strat.world_state.future_events)
            if not isinstance(strat.world_state.future_events, LogList):
                strat.world_state.future_events = LogList(q0)
            logged = strat.world_state.future_events
            logged.log = []
            try:
                strat.step(steps[step_i])
            except Exception as e:
                error = e
            q1 = strat.world_state.future_events
            left = set(id(x) for x in q1)
            if q1 is logged:
                # events removed in any other way than pop() are appended in start order
                seen = set(id(x) for x in logged.log)
                popped = list(logged.log) + [x for x in sorted(q0 + list(steps[step_i]), key=lambda ev: ev.start_time)
                                             if id(x) not in left and id(x) not in seen]
            else:
                cand = sorted(q0 + list(steps[step_i]), key=lambda ev: ev.start_time)
                popped = [x for x in cand if id(x) not in left]
            ws = strat.world_state
            out.append("# %s %d ; P %s ; Q %s ; C %s ; V %s ; K %d %d ; T %s" % (
                err_name(error), us(strat.current_time), lst(popped, ev_impl), lst(q1, ev_impl),
                lst(ws.grid_connectors.items(), connector_impl), lst(ws.vehicles.items(), vehicle_impl),
                strat.desired_counter, strat.margin_counter,
                lst(strat.negative_soc_tracker.items(),
                    lambda kv: "%s %s" % (kv[0], lst(kv[1], lambda s: str(iso_us(s)))))))
            rec = snapshot(strat)
            rec.update(err=error, popped=popped, queue=list(q1), index=step_i)
            obs.records.append(rec)
            if error is None:
                for (st, gc, nm, v) in inj:
                    if st == step_i and gc in ws.grid_connectors:
                        ws.grid_connectors[gc].add_load(nm, float(v))
            if error is not None:
                break
        step_i += 1
        obs.error, obs.step_i = error, step_i
        return "%s | %s | %s | R %s %d" % (head, b, " ".join(out), err_name(error), step_i), obs


# ---- property-level helpers shared by the oracles -------------------------------------------

def sim_times(case):
    start = datetime.datetime.fromisoformat(case["start"])
    interval = datetime.timedelta(seconds=case["interval_s"])
    return [start + i * interval for i in range(case["n"])]


def effect_step(times, signal, start):
    """the property's sentence: first simulation step at or after the start time and not before the
    event was signalled; None if there is no such step inside the horizon"""
    for i, t in enumerate(times):
        if t >= start and t >= signal:
            return i
    return None
