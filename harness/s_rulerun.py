"""S_RULERUN — development check of the run (composition) tie alone: the step model of Greedy / Balanced iterated
over a standing period (`rulerun`, Model/StratRun.lean) against real `Scenario.run` (harness/tie_rulerun.py).

Two families: (a) scenarios of the grammar in harness/scen.py (as C10 generates them: fixed load, generation, price
signals around the threshold, limit signals, stationary batteries incl. unlimited, V2G, CONCURRENCY, minimum powers,
one or two connectors; battery loss rates are removed because the run model is the loss-free one), (b) the
scenarios of C09 for greedy / balanced.  Only the run tie is active (the step tie is C10's / C09's).
No oracle: the registered check that carries this stream is C09.
"""
import random

import engine
import scen
import tie_rulerun

engine.use_repo()

PID = "S_RULERUN"
THEOREM_MODULES = ["C09_Run"] if (engine.LEAN / "SpiceEv" / "Properties" / "C09_Run.lean").exists() else []
CHUNK = 4
RULE = ("(a) scenarios from the grammar in harness/scen.py, strategies greedy and balanced, loss rates removed; "
        "(b) C09's scenarios for greedy / balanced; one model evaluation per standing period (maximal run of >= 2 "
        "steps without arrival / departure / exception, at least one connected vehicle); non-trivial = at least one "
        "such period; distinct = distinct (seed, index, strategy, family)")
ASSUMPTIONS = ["model vs implementation: SoCs after every step of the period compared by value (+0.0 == -0.0), no tolerance",
               "loss-free batteries only (apply_battery_losses is the identity on them)"]
UNPROVED = ["no oracle in this development check"]


def gen_cases(tier, seed):
    n = 120 if tier == "quick" else 2000
    for i in range(n):
        for st in ("greedy", "balanced"):
            yield {"seed": seed, "i": i, "strategy": st, "pid": PID, "family": "grammar"}
            yield {"seed": seed, "i": i, "strategy": st, "pid": PID, "family": "c09"}
            if i % 2:
                yield {"seed": seed, "i": i, "strategy": st, "pid": PID, "family": "c09", "shared": True}
            elif st == "greedy":
                yield {"seed": seed, "i": i, "strategy": st, "pid": PID, "family": "c09", "profile": True}


def build(case):
    if "scenario" in case:
        return case
    if case["family"] == "c09":
        import c09
        c = {k: v for k, v in case.items() if k not in ("family", "pid")}
        c["pid"] = "C09"
        return c09.build(c)
    rng = random.Random("S_RULERUN:%s:%s:%s" % (case["seed"], case["i"], case["strategy"]))
    full = scen.gen_scenario(rng, strategy=case["strategy"], feasible=True, max_steps=36,
                             features={"window": False, "window_signal": False})
    for b in full["scenario"]["components"]["batteries"].values():
        b.pop("loss_rate", None)
    full["pid"] = PID
    return full


def eval_case(case):
    full = build(case)
    if full.get("scenario") is None:
        return {"lines": [], "impl": [], "violations": [], "nontrivial": False, "stats": ["empty"]}
    run, collect = tie_rulerun.hook(full, lambda: scen.run_real(full, timeout_s=120, collect_ops=False))
    r = run()
    lines, impl, stats, num = collect(r)
    steps = sum(x.count(";") + 1 for x in impl if x.startswith("@tie_rulerun "))
    num = dict(num, runtie_steps_in_one_run=steps)
    return {"lines": lines, "impl": impl, "violations": [], "nontrivial": bool(lines),
            "stats": [full["strategy"], case.get("family", "replay")] + stats, "replay_case": full, "num": num}


def compare(case, impl, model):
    import steptie
    return steptie.compare(impl, model)[1]
