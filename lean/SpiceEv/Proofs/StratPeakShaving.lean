/-
Lemmas about the model of `peak_shaving` (Model/StratPeakShaving.lean) under the abstract battery law
`BatLaw` of Proofs/Strategies.lean: fuel of the three data-dependent loops, the bounds of the two
battery bisections, the schedule of a vehicle lies within its station's headroom, and the step is a
sequence of booked battery operations.
-/
import SpiceEv.Proofs.Strategies
import SpiceEv.Model.StratPeakShaving
import Mathlib.Logic.Relation
import Mathlib.Tactic.Positivity
set_option linter.unusedSectionVars false
set_option linter.unusedSimpArgs false
set_option linter.unusedVariables false
namespace SpiceEv.PeakShaving
open SpiceEv
variable {α B : Type} [Field α] [LinearOrder α] [IsStrictOrderedRing α]

theorem pdiv_err (a b : α) (e : PyErr) (h : pdiv a b = .error e) : e = .zeroDivision := by
  unfold pdiv at h
  split at h
  · simp only [Except.error.injEq] at h; exact h.symm
  · cases h

theorem pdiv_ok (a b c : α) (h : pdiv a b = .ok c) : c = a / b := by
  unfold pdiv at h
  split at h
  · cases h
  · simp only [Except.ok.injEq] at h; exact h.symm

/-! ### fuel of the `while` loop of `fast_charge` -/

/-- the loop's measure: two passes per remaining level, one less once the level has been filled up -/
def fcMeasure (eps : α) (pls : List (α × Int)) (s : FcState α) : Nat :=
  match pls[s.idx]? with
  | none => 0
  | some pl => 2 * (pls.length - s.idx) + (if pl.1 - s.prevPower < eps then 0 else 1)

theorem fcLoop_fuel (eps energyNeeded tsph eff lcMax csMax : α) (heps : 0 < eps) (pls : List (α × Int))
    (window : List (TS α)) (fuel : Nat) (s : FcState α) (hf : fcMeasure eps pls s + 1 ≤ fuel) :
    fcLoop eps energyNeeded tsph eff lcMax csMax pls window fuel s ≠ .error .fuel := by
  induction fuel generalizing s with
  | zero => omega
  | succ f ih =>
    unfold fcLoop
    unfold fcMeasure at hf
    cases hpl : pls[s.idx]? with
    | none => simp
    | some pl =>
      rw [hpl] at hf
      simp only
      have hlt : s.idx < pls.length := by
        rcases Nat.lt_or_ge s.idx pls.length with h | h
        · exact h
        · rw [List.getElem?_eq_none h] at hpl; cases hpl
      split
      · split
        · rename_i hc
          simp only [hc, if_true] at hf
          apply ih
          unfold fcMeasure
          simp only
          cases hpl2 : pls[s.idx + 1]? with
          | none => simp only; omega
          | some pl2 =>
            simp only
            split <;> omega
        · rename_i hc
          simp only [hc, if_false] at hf
          simp only [bind, Except.bind]
          split
          · rename_i e he
            intro h
            simp only [Except.error.injEq] at h
            subst h
            cases pdiv_err _ _ _ he
          · split
            · rename_i e he
              intro h
              simp only [Except.error.injEq] at h
              subst h
              cases pdiv_err _ _ _ he
            · split
              · split
                · rename_i e he
                  intro h
                  simp only [Except.error.injEq] at h
                  subst h
                  cases pdiv_err _ _ _ he
                · simp
              · apply ih
                unfold fcMeasure
                simp only [hpl]
                have : pl.1 - pl.1 < eps := by simpa using heps
                simp only [this, if_true]
                omega
      · simp

/-- **`fast_charge` terminates:** with `EPS > 0` the `while` loop over the sorted power levels ends
within `2·len + 2` passes (the fuel `fastCharge` gives it), whatever the inputs. -/
theorem fcLoop_terminates (eps energyNeeded tsph eff lcMax csMax : α) (heps : 0 < eps) (pls : List (α × Int))
    (window : List (TS α)) (first : α × Int) (hfirst : pls[0]? = some first) :
    fcLoop eps energyNeeded tsph eff lcMax csMax pls window (2 * pls.length + 2) ⟨0, first.1, 0, 0⟩
      ≠ .error .fuel := by
  apply fcLoop_fuel _ _ _ _ _ _ heps
  unfold fcMeasure
  simp only [hfirst]
  have : first.1 - first.1 < eps := by simpa using heps
  simp only [this, if_true]
  omega

/-! ### fuel of the two bisections -/

/-- the battery operations never report exhausted fuel themselves (C01: the battery's loops terminate) -/
def NoFuelErr (ops : Ops α B) : Prop :=
  ∀ b a1 a2 a3, ops.bat.load b a1 a2 a3 ≠ .error .fuel ∧ ops.bat.unload b a1 a2 a3 ≠ .error .fuel

theorem act1_noFuel (ops : Ops α B) (hn : NoFuelErr ops) (minCh target pl : α) (i : Nat) (b : B) (cur : α) :
    act1 ops minCh target pl i b cur ≠ .error .fuel := by
  unfold act1
  simp only
  split
  · split
    · rename_i e he
      intro h
      simp only [Except.error.injEq] at h
      subst h
      exact (hn _ _ _ _).1 he
    · simp
  · split
    · split
      · rename_i e he
        intro h
        simp only [Except.error.injEq] at h
        subst h
        exact (hn _ _ _ _).2 he
      · simp
    · simp

theorem pyIndex_err {β : Type} (l : List β) (i : Int) (e : PyErr) (h : pyIndex l i = .error e) :
    e = .indexError := by
  unfold pyIndex at h
  generalize (if i < 0 then i + (l.length : Int) else i) = j at h
  simp only at h
  split at h
  · simp only [Except.error.injEq] at h; exact h.symm
  · split at h
    · cases h
    · simp only [Except.error.injEq] at h; exact h.symm

theorem pyIndex_noFuel {β : Type} (l : List β) (i : Int) : pyIndex l i ≠ .error .fuel := by
  intro h
  cases pyIndex_err _ _ _ h

theorem act2_noFuel (ops : Ops α B) (hn : NoFuelErr ops) (minCh limit pl : α) (power : List α) (i : Nat) (b : B)
    (cur : α) : act2 ops minCh limit pl power i b cur ≠ .error .fuel := by
  unfold act2
  simp only
  split
  · split
    · rename_i e he
      intro h
      simp only [Except.error.injEq] at h
      subst h
      exact (hn _ _ _ _).1 he
    · simp
  · split
    · rename_i e he
      intro h
      simp only [Except.error.injEq] at h
      subst h
      exact pyIndex_noFuel _ _ he
    · split
      · split
        · rename_i e he
          intro h
          simp only [Except.error.injEq] at h
          subst h
          exact (hn _ _ _ _).2 he
        · simp
      · simp

theorem scan1_noFuel (ops : Ops α B) (hn : NoFuelErr ops) (eps minCh target : α) (levels : List α) (i : Nat)
    (b : B) (power : List α) (cur : α) :
    scan1 ops eps minCh target levels i b power cur ≠ .error .fuel := by
  induction levels generalizing i b power cur with
  | nil => simp [scan1]
  | cons pl rest ih =>
    unfold scan1
    split
    · rename_i e he
      intro h
      simp only [Except.error.injEq] at h
      subst h
      exact act1_noFuel ops hn _ _ _ _ _ _ he
    · split
      · simp
      · exact ih _ _ _ _

theorem scan2_noFuel (ops : Ops α B) (hn : NoFuelErr ops) (eps minCh target limit : α) (power levels : List α)
    (i : Nat) (b : B) (cur : α) :
    scan2 ops eps minCh target limit power levels i b cur ≠ .error .fuel := by
  induction levels generalizing i b cur with
  | nil => simp [scan2]
  | cons pl rest ih =>
    unfold scan2
    split
    · rename_i e he
      intro h
      simp only [Except.error.injEq] at h
      subst h
      exact act2_noFuel ops hn _ _ _ _ _ _ _ he
    · split
      · simp
      · exact ih _ _ _

/-- **The first bisection terminates** within `fuel` passes whenever the initial bracket is at most
`EPS · 2^fuel` wide (each pass halves it exactly). -/
theorem bisect1_fuel (ops : Ops α B) (hn : NoFuelErr ops) (eps minCh : α) (heps : 0 ≤ eps) (levels : List α) (b : B)
    (fuel : Nat) (s : Bis1 α) (hw : s.maxP - s.minP ≤ eps * 2 ^ fuel) :
    bisect1 ops eps minCh levels b fuel s ≠ .error .fuel := by
  induction fuel generalizing s with
  | zero =>
    unfold bisect1
    have : ¬ eps < s.maxP - s.minP := by simpa using hw
    simp [this]
  | succ f ih =>
    unfold bisect1
    split
    · simp only
      split
      · rename_i e he
        intro h
        simp only [Except.error.injEq] at h
        subst h
        exact scan1_noFuel ops hn _ _ _ _ _ _ _ _ he
      · rename_i broke power cur hr
        have h2 : ((2 : Nat) : α) = 2 := by norm_num
        split
        · apply ih
          simp only [h2]
          have : eps * 2 ^ (f + 1) = 2 * (eps * 2 ^ f) := by ring
          rw [this] at hw
          linarith
        · apply ih
          simp only [h2]
          have : eps * 2 ^ (f + 1) = 2 * (eps * 2 ^ f) := by ring
          rw [this] at hw
          linarith
    · simp

theorem bisect2_fuel (ops : Ops α B) (hn : NoFuelErr ops) (eps minCh target : α) (heps : 0 ≤ eps)
    (power prefix_ : List α) (b : B) (fuel : Nat) (s : α × α × α) (hw : s.2.1 - s.1 ≤ eps * 2 ^ fuel) :
    bisect2 ops eps minCh target power prefix_ b fuel s ≠ .error .fuel := by
  induction fuel generalizing s with
  | zero =>
    unfold bisect2
    have : ¬ eps < s.2.1 - s.1 := by simpa using hw
    simp [this]
  | succ f ih =>
    unfold bisect2
    split
    · simp only
      split
      · rename_i e he
        intro h
        simp only [Except.error.injEq] at h
        subst h
        exact scan2_noFuel ops hn _ _ _ _ _ _ _ _ _ he
      · rename_i broke cur hr
        have h2 : ((2 : Nat) : α) = 2 := by norm_num
        split
        · apply ih
          simp only [h2]
          have : eps * 2 ^ (f + 1) = 2 * (eps * 2 ^ f) := by ring
          rw [this] at hw
          linarith
        · apply ih
          simp only [h2]
          have : eps * 2 ^ (f + 1) = 2 * (eps * 2 ^ f) := by ring
          rw [this] at hw
          linarith
    · simp

/-! ### bounds of the battery plan (both bisections) -/

theorem pyIndex_zero {β : Type} (l : List β) (x : β) (h : pyIndex l 0 = .ok x) : ∃ rest, l = x :: rest := by
  unfold pyIndex at h
  simp only [lt_self_iff_false, if_false, Int.toNat_zero] at h
  cases l with
  | nil => simp at h
  | cons y rest =>
    simp only [List.getElem?_cons_zero, Except.ok.injEq] at h
    exact ⟨rest, by rw [h]⟩

theorem act1_spec (ops : Ops α B) (law : BatLaw ops.bat) (minCh target pl : α) (i : Nat) (b b' : B)
    (cur p cur' : α) (h : act1 ops minCh target pl i b cur = .ok (b', p, cur')) :
    -(max (pl - target) 0) ≤ p ∧ p ≤ max (target - pl) 0 ∧ (i ≠ 0 → cur' = cur) ∧
      (cur' = cur ∨ cur' = target - pl) := by
  unfold act1 at h
  simp only at h
  split at h
  · split at h
    · cases h
    · rename_i b1 avg hl
      simp only [Except.ok.injEq, Prod.mk.injEq] at h
      obtain ⟨_, rfl, rfl⟩ := h
      obtain ⟨h0, h1⟩ := law.load_target _ _ _ _ hl
      refine ⟨?_, h1, ?_, ?_⟩
      · have : 0 ≤ max (pl - target) 0 := le_max_right _ _
        linarith
      · intro hi; simp [hi]
      · by_cases hi : i = 0 <;> simp [hi]
  · split at h
    · split at h
      · cases h
      · rename_i b1 avg hl
        simp only [Except.ok.injEq, Prod.mk.injEq] at h
        obtain ⟨_, rfl, rfl⟩ := h
        obtain ⟨h0, h1⟩ := law.unload_target _ _ _ _ hl
        refine ⟨?_, ?_, ?_, ?_⟩
        · have : -(target - pl) = pl - target := by ring
          rw [this] at h1
          linarith
        · have : 0 ≤ max (target - pl) 0 := le_max_right _ _
          linarith
        · intro hi; simp [hi]
        · by_cases hi : i = 0 <;> simp [hi]
    · simp only [Except.ok.injEq, Prod.mk.injEq] at h
      obtain ⟨_, rfl, rfl⟩ := h
      refine ⟨?_, le_max_right _ _, fun _ => rfl, Or.inl rfl⟩
      have : 0 ≤ max (pl - target) 0 := le_max_right _ _
      linarith

/-- from index ≥ 1 on, the scan touches neither `cur_power` nor `power[0]` -/
theorem scan1_tail (ops : Ops α B) (law : BatLaw ops.bat) (eps minCh target : α) (levels : List α) (i : Nat)
    (hi : i ≠ 0) (b : B) (power : List α) (cur : α) (broke : Bool) (power' : List α) (cur' : α)
    (h : scan1 ops eps minCh target levels i b power cur = .ok (broke, power', cur')) :
    cur' = cur ∧ power'[0]? = power[0]? := by
  induction levels generalizing i b power cur with
  | nil =>
    simp only [scan1, Except.ok.injEq, Prod.mk.injEq] at h
    obtain ⟨_, rfl, rfl⟩ := h
    exact ⟨rfl, rfl⟩
  | cons pl rest ih =>
    unfold scan1 at h
    split at h
    · cases h
    · rename_i b1 p c1 ha
      obtain ⟨_, _, hc, _⟩ := act1_spec ops law _ _ _ _ _ _ _ _ _ ha
      have hc1 : c1 = cur := hc hi
      have hset : (power.set i p)[0]? = power[0]? := by
        rw [List.getElem?_set_ne hi]
      split at h
      · simp only [Except.ok.injEq, Prod.mk.injEq] at h
        obtain ⟨_, rfl, rfl⟩ := h
        exact ⟨hc1, hset⟩
      · obtain ⟨h1, h2⟩ := ih (i + 1) (by omega) _ _ _ h
        exact ⟨h1.trans hc1, h2.trans hset⟩

/-- what a scan from index 0 leaves in `cur_power` and `power[0]` -/
theorem scan1_head (ops : Ops α B) (law : BatLaw ops.bat) (eps minCh target L : α) (rest : List α)
    (b : B) (power : List α) (cur : α) (broke : Bool) (power' : List α) (cur' : α)
    (h : scan1 ops eps minCh target (L :: rest) 0 b power cur = .ok (broke, power', cur')) :
    (cur' = cur ∨ cur' = target - L) ∧
    (power'[0]? = power[0]? ∨ ∃ p, power'[0]? = some p ∧ -(max (L - target) 0) ≤ p) := by
  unfold scan1 at h
  split at h
  · cases h
  · rename_i b1 p c1 ha
    obtain ⟨hp, _, _, hc⟩ := act1_spec ops law _ _ _ _ _ _ _ _ _ ha
    have hset : (power.set 0 p)[0]? = power[0]? ∨ ∃ q, (power.set 0 p)[0]? = some q ∧ -(max (L - target) 0) ≤ q := by
      cases power with
      | nil => left; rfl
      | cons x xs => right; exact ⟨p, by simp, hp⟩
    split at h
    · simp only [Except.ok.injEq, Prod.mk.injEq] at h
      obtain ⟨_, rfl, rfl⟩ := h
      exact ⟨hc, hset⟩
    · obtain ⟨h1, h2⟩ := scan1_tail ops law _ _ _ _ 1 (by omega) _ _ _ _ _ _ h
      rw [h2]
      exact ⟨by rw [h1]; exact hc, hset⟩

/-- invariant of the first bisection: the bracket stays inside `[0, M]`, the planned power of this step stays
inside `[lo, M - L]`, the simulated battery power of this step is at least `lo` -/
structure Inv1 (L M lo : α) (s : Bis1 α) : Prop where
  min_nonneg : 0 ≤ s.minP
  max_le : s.maxP ≤ M
  target_nonneg : 0 ≤ s.target
  target_le : s.target ≤ M
  cur_lo : lo ≤ s.cur
  cur_hi : s.cur ≤ M - L
  power0 : ∀ pw, s.power[0]? = some pw → lo ≤ pw

theorem bisect1_inv (ops : Ops α B) (law : BatLaw ops.bat) (eps minCh : α) (heps : 0 ≤ eps) (L M : α)
    (rest : List α) (b : B) (fuel : Nat) (s s' : Bis1 α) (hinv : Inv1 L M (-(max L 0)) s)
    (h : bisect1 ops eps minCh (L :: rest) b fuel s = .ok s') : Inv1 L M (-(max L 0)) s' := by
  induction fuel generalizing s with
  | zero =>
    unfold bisect1 at h
    split at h
    · cases h
    · simp only [Except.ok.injEq] at h; subst h; exact hinv
  | succ f ih =>
    unfold bisect1 at h
    split at h
    · rename_i hgt
      simp only at h
      have h2 : ((2 : Nat) : α) = 2 := by norm_num
      rw [h2] at h
      have hlt : s.minP < s.maxP := by linarith
      have ht0 : 0 ≤ (s.minP + s.maxP) / 2 := by
        have := hinv.min_nonneg
        apply div_nonneg <;> linarith
      have htM : (s.minP + s.maxP) / 2 ≤ M := by
        have := hinv.max_le
        rw [div_le_iff₀ (by norm_num : (0 : α) < 2)]
        linarith
      have htmax : (s.minP + s.maxP) / 2 ≤ s.maxP := by
        rw [div_le_iff₀ (by norm_num : (0 : α) < 2)]
        linarith
      split at h
      · cases h
      · rename_i broke power cur hs
        obtain ⟨hc, hp⟩ := scan1_head ops law _ _ _ _ _ _ _ _ _ _ _ hs
        have hcl : -(max L 0) ≤ cur := by
          rcases hc with rfl | rfl
          · exact hinv.cur_lo
          · have : L ≤ max L 0 := le_max_left _ _
            linarith
        have hch : cur ≤ M - L := by
          rcases hc with rfl | rfl
          · exact hinv.cur_hi
          · linarith
        have hpw : ∀ pw, power[0]? = some pw → -(max L 0) ≤ pw := by
          intro pw hpw
          rcases hp with hp | ⟨q, hq, hql⟩
          · rw [hp] at hpw; exact hinv.power0 pw hpw
          · rw [hq] at hpw
            simp only [Option.some.injEq] at hpw
            subst hpw
            have : max (L - (s.minP + s.maxP) / 2) 0 ≤ max L 0 := by
              apply max_le_max _ (le_refl _)
              linarith
            linarith
        split at h
        · exact ih ⟨(s.minP + s.maxP) / 2, s.maxP, power, cur, (s.minP + s.maxP) / 2⟩
            ⟨ht0, hinv.max_le, ht0, htM, hcl, hch, hpw⟩ h
        · exact ih ⟨s.minP, (s.minP + s.maxP) / 2, power, cur, (s.minP + s.maxP) / 2⟩
            ⟨hinv.min_nonneg, htM, ht0, htM, hcl, hch, hpw⟩ h
    · simp only [Except.ok.injEq] at h; subst h; exact hinv

theorem act2_spec (ops : Ops α B) (law : BatLaw ops.bat) (minCh limit pl : α) (power : List α) (i : Nat)
    (b b' : B) (cur p cur' : α) (h : act2 ops minCh limit pl power i b cur = .ok (b', p, cur')) :
    (i ≠ 0 → cur' = cur) ∧
      (cur' = cur ∨ cur' = limit - pl ∨
        ∃ pw avg, pyIndex power (i : Int) = .ok pw ∧ pw < 0 ∧ 0 ≤ avg ∧ avg ≤ -pw ∧ cur' = -avg) := by
  unfold act2 at h
  simp only at h
  split at h
  · split at h
    · cases h
    · simp only [Except.ok.injEq, Prod.mk.injEq] at h
      obtain ⟨_, _, rfl⟩ := h
      refine ⟨fun hi => by simp [hi], ?_⟩
      by_cases hi : i = 0 <;> simp [hi]
  · split at h
    · cases h
    · rename_i pw hpw
      split at h
      · rename_i hneg
        split at h
        · cases h
        · rename_i b1 avg hl
          simp only [Except.ok.injEq, Prod.mk.injEq] at h
          obtain ⟨_, _, rfl⟩ := h
          obtain ⟨h0, h1⟩ := law.unload_target _ _ _ _ hl
          have h1' : avg ≤ -pw := by
            rw [max_eq_left (by linarith)] at h1; exact h1
          refine ⟨fun hi => by simp [hi], ?_⟩
          by_cases hi : i = 0
          · right; right
            exact ⟨pw, avg, hpw, hneg, h0, h1', by simp [hi]⟩
          · left; simp [hi]
      · simp only [Except.ok.injEq, Prod.mk.injEq] at h
        obtain ⟨_, _, rfl⟩ := h
        exact ⟨fun _ => rfl, Or.inl rfl⟩

theorem scan2_tail (ops : Ops α B) (law : BatLaw ops.bat) (eps minCh target limit : α) (power levels : List α)
    (i : Nat) (hi : i ≠ 0) (b : B) (cur : α) (broke : Bool) (cur' : α)
    (h : scan2 ops eps minCh target limit power levels i b cur = .ok (broke, cur')) : cur' = cur := by
  induction levels generalizing i b cur with
  | nil =>
    simp only [scan2, Except.ok.injEq, Prod.mk.injEq] at h
    exact h.2.symm
  | cons pl rest ih =>
    unfold scan2 at h
    split at h
    · cases h
    · rename_i b1 p c1 ha
      have hc1 : c1 = cur := (act2_spec ops law _ _ _ _ _ _ _ _ _ _ ha).1 hi
      split at h
      · simp only [Except.ok.injEq, Prod.mk.injEq] at h
        exact h.2.symm.trans hc1
      · exact (ih (i + 1) (by omega) _ _ h).trans hc1

theorem scan2_head (ops : Ops α B) (law : BatLaw ops.bat) (eps minCh target limit L : α) (power rest : List α)
    (b : B) (cur : α) (broke : Bool) (cur' : α)
    (h : scan2 ops eps minCh target limit power (L :: rest) 0 b cur = .ok (broke, cur')) :
    cur' = cur ∨ cur' = limit - L ∨
      ∃ pw avg, power[0]? = some pw ∧ pw < 0 ∧ 0 ≤ avg ∧ avg ≤ -pw ∧ cur' = -avg := by
  unfold scan2 at h
  split at h
  · cases h
  · rename_i b1 p c1 ha
    have hc := (act2_spec ops law _ _ _ _ _ _ _ _ _ _ ha).2
    have hc' : c1 = cur ∨ c1 = limit - L ∨
        ∃ pw avg, power[0]? = some pw ∧ pw < 0 ∧ 0 ≤ avg ∧ avg ≤ -pw ∧ c1 = -avg := by
      rcases hc with h1 | h1 | ⟨pw, avg, hi, h2, h3, h4, h5⟩
      · exact Or.inl h1
      · exact Or.inr (Or.inl h1)
      · right; right
        obtain ⟨r, hr⟩ := pyIndex_zero power pw (by simpa using hi)
        exact ⟨pw, avg, by rw [hr]; rfl, h2, h3, h4, h5⟩
    split at h
    · simp only [Except.ok.injEq, Prod.mk.injEq] at h
      rw [← h.2]; exact hc'
    · have := scan2_tail ops law _ _ _ _ _ _ 1 (by omega) _ _ _ _ h
      rw [this]; exact hc'

theorem bisect2_inv (ops : Ops α B) (law : BatLaw ops.bat) (eps minCh target : α) (heps : 0 ≤ eps) (L M : α)
    (hLM : L ≤ M) (power prefix_ : List α) (hpre : prefix_ = [] ∨ ∃ rest, prefix_ = L :: rest)
    (hpower : ∀ pw, power[0]? = some pw → -(max L 0) ≤ pw)
    (b : B) (fuel : Nat) (s s' : α × α × α)
    (hinv : 0 ≤ s.1 ∧ s.2.1 ≤ M ∧ -(max L 0) ≤ s.2.2 ∧ s.2.2 ≤ M - L)
    (h : bisect2 ops eps minCh target power prefix_ b fuel s = .ok s') :
    -(max L 0) ≤ s'.2.2 ∧ s'.2.2 ≤ M - L := by
  induction fuel generalizing s with
  | zero =>
    unfold bisect2 at h
    split at h
    · cases h
    · simp only [Except.ok.injEq] at h; subst h; exact ⟨hinv.2.2.1, hinv.2.2.2⟩
  | succ f ih =>
    unfold bisect2 at h
    split at h
    · rename_i hgt
      simp only at h
      have h2 : ((2 : Nat) : α) = 2 := by norm_num
      rw [h2] at h
      obtain ⟨hmin, hmax, _, _⟩ := hinv
      have hlt : s.1 < s.2.1 := by linarith
      have ht0 : 0 ≤ (s.1 + s.2.1) / 2 := by apply div_nonneg <;> linarith
      have htM : (s.1 + s.2.1) / 2 ≤ M := by
        rw [div_le_iff₀ (by norm_num : (0 : α) < 2)]
        linarith
      split at h
      · cases h
      · rename_i broke cur hs
        have hlo0 : -(max L 0) ≤ (0 : α) := by
          have : (0 : α) ≤ max L 0 := le_max_right _ _
          linarith
        have hc : -(max L 0) ≤ cur ∧ cur ≤ M - L := by
          rcases hpre with rfl | ⟨rest, rfl⟩
          · simp only [scan2, Except.ok.injEq, Prod.mk.injEq] at hs
            rw [← hs.2]
            exact ⟨hlo0, by linarith⟩
          · rcases scan2_head ops law _ _ _ _ _ _ _ _ _ _ _ hs with rfl | rfl | ⟨pw, avg, hpw, hneg, ha0, ha1, rfl⟩
            · exact ⟨hlo0, by linarith⟩
            · have : L ≤ max L 0 := le_max_left _ _
              constructor <;> linarith
            · have := hpower pw hpw
              constructor <;> linarith
        split at h
        · exact ih ((s.1 + s.2.1) / 2, s.2.1, cur) ⟨ht0, hmax, hc.1, hc.2⟩ h
        · exact ih (s.1, (s.1 + s.2.1) / 2, cur) ⟨hmin, htM, hc.1, hc.2⟩ h
    · simp only [Except.ok.injEq] at h; subst h; exact ⟨hinv.2.2.1, hinv.2.2.2⟩

theorem pyMaxList_spec (x : α) (l : List α) :
    x ≤ pyMaxList x l ∧ (∀ y ∈ l, y ≤ pyMaxList x l) ∧
      ∀ bound, x ≤ bound → (∀ y ∈ l, y ≤ bound) → pyMaxList x l ≤ bound := by
  unfold pyMaxList
  induction l generalizing x with
  | nil => exact ⟨le_refl _, by simp, fun _ h _ => h⟩
  | cons y ys ih =>
    simp only [List.foldl_cons, pymax_eq]
    obtain ⟨h1, h2, h3⟩ := ih (max x y)
    refine ⟨le_trans (le_max_left _ _) h1, ?_, ?_⟩
    · intro z hz
      rcases List.mem_cons.mp hz with rfl | hz
      · exact le_trans (le_max_right _ _) h1
      · exact h2 z hz
    · intro bound hx hl
      exact h3 bound (max_le hx (hl y (List.mem_cons_self ..))) (fun z hz => hl z (List.mem_cons_of_mem _ hz))

/-- **What the battery is asked for.**  With `L` the connector's present load (= the first predicted level),
the power found by the two bisections lies between `-max(L, 0)` (never discharge below a zero connector
load) and `bound - L` for every `bound ≥ 0` that dominates all predicted levels of the horizon. -/
theorem batteryPlan_bounds (ops : Ops α B) (law : BatLaw ops.bat) (env : Env α) (heps : 0 ≤ env.eps)
    (nAhead : Int) (ts : List (TS α)) (b : StatBatS α B) (L : α) (rest : List α)
    (hlev : powerLevels nAhead ts = L :: rest) (cur : α)
    (h : batteryPlan ops env nAhead ts b = .ok cur) :
    -(max L 0) ≤ cur ∧ ∀ bound, 0 ≤ bound → (∀ pl ∈ powerLevels nAhead ts, pl ≤ bound) → cur ≤ bound - L := by
  unfold batteryPlan at h
  rw [hlev] at h
  simp only [bind, Except.bind, List.cons_append] at h
  obtain ⟨hM1, hM2, hM3⟩ := pyMaxList_spec L (rest ++ [0])
  generalize hMdef : pyMaxList L (rest ++ [0]) = M at h hM1 hM2 hM3
  have hM0 : 0 ≤ M := hM2 0 (by simp)
  split at h
  · cases h
  · rename_i l0 hl0
    obtain ⟨r0, hr0⟩ := pyIndex_zero _ _ hl0
    simp only [List.cons.injEq] at hr0
    obtain ⟨rfl, _⟩ := hr0
    split at h
    · cases h
    · rename_i s1 hs1
      have hinv0 : Inv1 L M (-(max L 0))
          ⟨pymax (M - ops.bat.unloadMaxPower b.bat * ops.bat.efficiency b.bat) 0, M,
            List.replicate nAhead.toNat 0, pymax (-L) 0, 0⟩ := by
        have hmx : (0 : α) ≤ max L 0 := le_max_right _ _
        refine ⟨by simp, le_refl _, le_refl _, hM0, ?_, ?_, ?_⟩
        · simp only [pymax_eq]
          have : (0 : α) ≤ max (-L) 0 := le_max_right _ _
          linarith
        · simp only [pymax_eq]
          apply max_le <;> linarith
        · intro pw hpw
          rw [List.getElem?_replicate] at hpw
          split at hpw
          · simp only [Option.some.injEq] at hpw; subst hpw; linarith
          · cases hpw
      have hinv1 := bisect1_inv ops law _ _ heps L M rest _ _ _ _ hinv0 hs1
      split at h
      · cases h
      · rename_i s2 hs2
        simp only [Except.ok.injEq] at h
        subst h
        have hpre : (L :: rest).take ((L :: rest).length - List.findIdx (fun pl => decide (s1.target < pl))
            (L :: rest).reverse + 1) = [] ∨ ∃ r, (L :: rest).take ((L :: rest).length -
            List.findIdx (fun pl => decide (s1.target < pl)) (L :: rest).reverse + 1) = L :: r := by
          right
          exact ⟨_, List.take_succ_cons⟩
        have hb := bisect2_inv ops law _ _ _ heps L M hM1 _ _ hpre hinv1.power0 _ _ _ _
          ⟨by simp, hinv1.max_le, hinv1.cur_lo, hinv1.cur_hi⟩ hs2
        refine ⟨hb.1, fun bound hb0 hall => ?_⟩
        rw [hlev] at hall
        have : M ≤ bound := by
          apply hM3 bound (hall L (List.mem_cons_self ..))
          intro y hy
          rcases List.mem_append.mp hy with hy | hy
          · exact hall y (List.mem_cons_of_mem _ hy)
          · simp only [List.mem_singleton] at hy; subst hy; exact hb0
        linarith [hb.2]

/-- the first predicted level is the present load itself (`f = min(1, 3·(1 − 0/n)) = 1`) -/
theorem powerLevels_head (nAhead : Int) (t0 t0' : TS α) (r : List (TS α)) :
    ∃ rest, powerLevels nAhead ((t0 :: r).set 0 t0') = t0'.curPower :: rest := by
  unfold powerLevels
  simp only [List.set_cons_zero, List.zipIdx_cons, List.map_cons]
  refine ⟨List.map
          (fun (x : TS α × Nat) =>
            pymin 1 (((3 : Nat) : α) * (1 - (x.2 : α) / (nAhead : α))) * x.1.curPower +
              (1 - pymin 1 (((3 : Nat) : α) * (1 - (x.2 : α) / (nAhead : α)))) * x.1.fixedLoad)
          (r.zipIdx (0 + 1)), ?_⟩
  congr 1
  simp only [pymin_eq, Nat.cast_zero, zero_div, sub_zero, mul_one, Nat.cast_ofNat]
  have : min (1 : α) 3 = 1 := min_eq_left (by norm_num)
  rw [this]
  ring

theorem applyBattery_bounds (ops : Ops α B) (law : BatLaw ops.bat) (b b' : B) (cur p : α)
    (h : applyBattery ops b cur = .ok (b', p)) : min cur 0 ≤ p ∧ p ≤ max cur 0 := by
  unfold applyBattery at h
  split at h
  · rename_i hneg
    split at h
    · cases h
    · rename_i b1 avg hu
      simp only [Except.ok.injEq, Prod.mk.injEq] at h
      obtain ⟨_, rfl⟩ := h
      obtain ⟨h0, h1⟩ := law.unload_target _ _ _ _ hu
      rw [max_eq_left (by linarith)] at h1
      rw [min_eq_left hneg.le, max_eq_right hneg.le]
      constructor <;> linarith
  · rename_i hpos
    obtain ⟨h0, h1⟩ := law.load_target _ _ _ _ h
    have hc : 0 ≤ cur := not_lt.mp hpos
    rw [min_eq_right hc]
    exact ⟨h0, h1⟩

/-- **One stationary battery, one step** (repaired code, fixes/PS2.diff).  The battery never pushes the connector
load above `max(load before, limit valid now)` — unconditionally —, nor above a bound that dominates the present load
and every predicted level of the horizon, and never discharges it below `min(load, 0)`; limit, id and price of the
connector are untouched. -/
theorem batteryStep_bounds (ops : Ops α B) (law : BatLaw ops.bat) (env : Env α) (heps : 0 ≤ env.eps)
    (nAhead : Int) (gcId : String) (acc acc' : Acc α B) (ts ts' : List (TS α)) (b0 : StatBatS α B)
    (h : batteryStep ops env nAhead gcId (acc, ts) b0 = .ok (acc', ts')) :
    min acc.gc.currentLoad 0 ≤ acc'.gc.currentLoad ∧
    (∀ bound, 0 ≤ bound → acc.gc.currentLoad ≤ bound → (∀ pl ∈ powerLevels nAhead ts', pl ≤ bound) →
      acc'.gc.currentLoad ≤ bound) ∧
    acc'.gc.curMax = acc.gc.curMax ∧ acc'.gc.id = acc.gc.id ∧ acc'.cmds = acc.cmds ∧
    acc'.gc.currentLoad ≤ max acc.gc.currentLoad acc.gc.curMax := by
  unfold batteryStep at h
  have hskip : ∀ (a : Acc α B) (t : List (TS α)), (acc, ts) = (a, t) →
      min acc.gc.currentLoad 0 ≤ a.gc.currentLoad ∧
      (∀ bound, 0 ≤ bound → acc.gc.currentLoad ≤ bound → (∀ pl ∈ powerLevels nAhead t, pl ≤ bound) →
        a.gc.currentLoad ≤ bound) ∧
      a.gc.curMax = acc.gc.curMax ∧ a.gc.id = acc.gc.id ∧ a.cmds = acc.cmds ∧
      a.gc.currentLoad ≤ max acc.gc.currentLoad acc.gc.curMax := by
    intro a t hat
    simp only [Prod.mk.injEq] at hat
    obtain ⟨rfl, rfl⟩ := hat
    exact ⟨min_le_left _ _, fun _ _ hb _ => hb, rfl, rfl, rfl, le_max_left _ _⟩
  split at h
  · simp only [Except.ok.injEq] at h
    exact hskip _ _ h
  · split at h
    · simp only [Except.ok.injEq] at h
      exact hskip _ _ h
    · rename_i b hb
      simp only at h
      split at h
      · cases h
      · rename_i t0 ht0
        obtain ⟨r, hr⟩ := pyIndex_zero _ _ ht0
        split at h
        · cases h
        · rename_i cur hplan
          split at h
          · cases h
          · rename_i bat' p hap
            simp only [Except.ok.injEq, Prod.mk.injEq] at h
            obtain ⟨rfl, rfl⟩ := h
            simp only
            rw [hr] at hplan ⊢
            obtain ⟨rest, hlev⟩ := powerLevels_head nAhead t0 { t0 with curPower := acc.gc.currentLoad } r
            simp only at hlev
            obtain ⟨hlo0, hhi0⟩ := batteryPlan_bounds ops law env heps nAhead _ b _ rest hlev cur hplan
            rw [pymin_eq, pymax_eq] at hap
            generalize hc2 : min cur (max (acc.gc.curMax - acc.gc.currentLoad) 0) = c2 at hap
            have hc2le : c2 ≤ cur := by rw [← hc2]; exact min_le_left _ _
            have hc2lim : c2 ≤ max (acc.gc.curMax - acc.gc.currentLoad) 0 := by rw [← hc2]; exact min_le_right _ _
            have hlo : -(max acc.gc.currentLoad 0) ≤ c2 := by
              rw [← hc2]
              apply le_min hlo0
              have h1 : (0 : α) ≤ max acc.gc.currentLoad 0 := le_max_right _ _
              have h2 : (0 : α) ≤ max (acc.gc.curMax - acc.gc.currentLoad) 0 := le_max_right _ _
              linarith
            obtain ⟨hp1, hp2⟩ := applyBattery_bounds ops law _ _ _ _ hap
            obtain ⟨hl, hcm, hid, _⟩ := addLoad_currentLoad acc.gc b.id p
            refine ⟨?_, ?_, hcm, hid, trivial, ?_⟩
            · rw [hl]
              rcases le_total c2 0 with hc | hc
              · rw [min_eq_left hc] at hp1
                rcases le_total acc.gc.currentLoad 0 with hL | hL
                · rw [max_eq_right hL] at hlo
                  rw [min_eq_left hL]
                  linarith
                · rw [max_eq_left hL] at hlo
                  rw [min_eq_right hL]
                  linarith
              · rw [min_eq_right hc] at hp1
                have := min_le_left acc.gc.currentLoad 0
                linarith
            · intro bound hb0 hLb hall
              rw [hl]
              rcases le_total c2 0 with hc | hc
              · rw [max_eq_right hc] at hp2
                linarith
              · rw [max_eq_left hc] at hp2
                have := hhi0 bound hb0 hall
                linarith
            · rw [hl]
              rcases le_total c2 0 with hc | hc
              · rw [max_eq_right hc] at hp2
                have := le_max_left acc.gc.currentLoad acc.gc.curMax
                linarith
              · rw [max_eq_left hc] at hp2
                rcases le_total (acc.gc.curMax - acc.gc.currentLoad) 0 with hm | hm
                · rw [max_eq_right hm] at hc2lim
                  have := le_max_left acc.gc.currentLoad acc.gc.curMax
                  linarith
                · rw [max_eq_left hm] at hc2lim
                  have := le_max_right acc.gc.currentLoad acc.gc.curMax
                  linarith

/-! ### planning never lowers a predicted power; schedules lie within the station's headroom -/

/-- `timesteps` after a planning call: same limits and fixed loads, predicted powers not lower -/
def TsMono : List (TS α) → List (TS α) → Prop :=
  List.Forall₂ (fun t t' => t.curPower ≤ t'.curPower ∧ t'.maxPower = t.maxPower ∧ t'.fixedLoad = t.fixedLoad)

theorem TsMono.refl (ts : List (TS α)) : TsMono ts ts := by
  induction ts with
  | nil => exact List.Forall₂.nil
  | cons t r ih => exact List.Forall₂.cons ⟨le_refl _, rfl, rfl⟩ ih

theorem TsMono.trans {a b c : List (TS α)} (h1 : TsMono a b) (h2 : TsMono b c) : TsMono a c := by
  induction h1 generalizing c with
  | nil => cases h2; exact List.Forall₂.nil
  | cons hab _ ih =>
    cases h2 with
    | cons hbc hrest =>
      exact List.Forall₂.cons ⟨le_trans hab.1 hbc.1, hbc.2.1.trans hab.2.1, hbc.2.2.trans hab.2.2⟩ (ih hrest)

theorem tsAddCur_mono (ts : List (TS α)) (i : Nat) (x : α) (hx : 0 ≤ x) : TsMono ts (tsAddCur ts i x) := by
  unfold tsAddCur
  induction ts generalizing i with
  | nil => simp only [List.modify_nil]; exact List.Forall₂.nil
  | cons t r ih =>
    cases i with
    | zero =>
      simp only [List.modify_zero_cons]
      exact List.Forall₂.cons ⟨by simp only; linarith, rfl, rfl⟩ (TsMono.refl r)
    | succ j =>
      simp only [List.modify_succ_cons]
      exact List.Forall₂.cons ⟨le_refl _, rfl, rfl⟩ (ih j)

theorem TsMono.head {ts ts' : List (TS α)} (h : TsMono ts ts') (t : TS α) (ht : ts[0]? = some t) :
    ∃ t', ts'[0]? = some t' ∧ t.curPower ≤ t'.curPower ∧ t'.maxPower = t.maxPower ∧ t'.fixedLoad = t.fixedLoad := by
  cases h with
  | nil => simp at ht
  | cons hab _ =>
    simp only [List.getElem?_cons_zero, Option.some.injEq] at ht
    subst ht
    exact ⟨_, by simp, hab⟩

/-- the station's headroom for a clamped power -/
def InHeadroom (cs : StationS α) (vMin x : α) : Prop :=
  x = 0 ∨ ∃ p, x = clampPower p cs.currentPower cs.maxPower cs.minPower vMin

theorem fcCharge_spec (ops : Ops α B) (law : BatLaw ops.bat) (cs : StationS α) (vMin optPower : α)
    (chosen : List (α × Int)) (b : B) (ts : List (TS α)) (delta command : α) (ts' : List (TS α))
    (command' : α) (b' : B)
    (h : fcCharge ops cs vMin optPower chosen b ts delta command = .ok (ts', command', b')) :
    TsMono ts ts' ∧ (command' = command ∨ InHeadroom cs vMin command') := by
  induction chosen generalizing b ts delta command with
  | nil =>
    simp only [fcCharge, Except.ok.injEq, Prod.mk.injEq] at h
    obtain ⟨rfl, rfl, _⟩ := h
    exact ⟨TsMono.refl _, Or.inl rfl⟩
  | cons pl rest ih =>
    unfold fcCharge at h
    split at h
    · cases h
    · rename_i info hinfo
      simp only at h
      split at h
      · cases h
      · rename_i b1 avg hl
        obtain ⟨h0, _⟩ := law.load_target _ _ _ _ hl
        obtain ⟨hm, hc⟩ := ih _ _ _ _ h
        refine ⟨TsMono.trans (tsAddCur_mono ts _ avg h0) hm, ?_⟩
        rcases hc with hc | hc
        · by_cases hz : pl.2 = 0
          · right; right
            refine ⟨pymin (optPower + delta) info.maxPower - pl.1, ?_⟩
            rw [hc]; simp [hz]
          · left; rw [hc]; simp [hz]
        · exact Or.inr hc

theorem fastCharge_spec (ops : Ops α B) (law : BatLaw ops.bat) (env : Env α) (w : SWorld α B) (vi : VInfo α B)
    (a d : Int) (ts ts' : List (TS α)) (command : α)
    (h : fastCharge ops env w vi a d ts = .ok (ts', command)) :
    TsMono ts ts' ∧ (command = 0 ∨ ∃ cs, vi.veh.cs.bind w.station? = some cs ∧
      InHeadroom cs vi.veh.minChargingPower command) := by
  unfold fastCharge at h
  split at h
  · simp only [Except.ok.injEq, Prod.mk.injEq] at h
    obtain ⟨rfl, rfl⟩ := h
    exact ⟨TsMono.refl _, Or.inl rfl⟩
  · split at h
    · cases h
    · rename_i cs hcs
      split at h
      · cases h
      · simp only at h
        split at h
        · cases h
        · split at h
          · cases h
          · split at h
            · cases h
            · split at h
              · cases h
              · rename_i ts1 cmd b1 hfc
                simp only [Except.ok.injEq, Prod.mk.injEq] at h
                obtain ⟨rfl, rfl⟩ := h
                obtain ⟨hm, hc⟩ := fcCharge_spec ops law _ _ _ _ _ _ _ _ _ _ _ hfc
                refine ⟨hm, ?_⟩
                rcases hc with hc | hc
                · exact Or.inl hc
                · exact Or.inr ⟨cs, hcs, hc⟩

theorem inHeadroom_bounds (cs : StationS α) (vMin x : α) (h : InHeadroom cs vMin x) :
    0 ≤ x ∧ x ≤ max 0 (cs.maxPower - cs.currentPower) := by
  rcases h with rfl | ⟨p, rfl⟩
  · exact ⟨le_refl _, le_max_left _ _⟩
  · refine ⟨(clampPower_bounds ..).1, ?_⟩
    unfold clampPower
    simp only [pymin_eq, pymax_eq]
    split
    · exact le_max_left _ _
    · apply max_le
      · exact le_trans (min_le_right _ _) (le_max_right _ _)
      · exact le_max_left _ _

/-- **Every schedule lies within the station's headroom** (both branches of the adjustment loop): it is `0` or
a value of `clamp_power` for the station the simulated vehicle is connected to; planning never lowers a
predicted power. -/
theorem adjustVehicle_spec (ops : Ops α B) (law : BatLaw ops.bat) (env : Env α) (w : SWorld α B) (gcCurMax : α)
    (nAhead : Int) (ts ts' : List (TS α)) (vi vi' : VInfo α B) (d : Int)
    (h : adjustVehicle ops env w gcCurMax nAhead ts vi d = .ok (ts', vi')) :
    TsMono ts ts' ∧ vi'.vid = vi.vid ∧ vi'.arrivalIdx = vi.arrivalIdx ∧ vi'.veh.cs = vi.veh.cs ∧
      vi'.veh.bat = vi.veh.bat ∧ vi'.veh.minChargingPower = vi.veh.minChargingPower ∧
      (vi'.schedule = 0 ∨ ∃ cs, vi.veh.cs.bind w.station? = some cs ∧
        InHeadroom cs vi.veh.minChargingPower vi'.schedule) := by
  unfold adjustVehicle at h
  simp only at h
  split at h
  · split at h
    · cases h
    · rename_i cs hcs
      split at h
      · cases h
      · split at h
        · cases h
        · simp only [Except.ok.injEq, Prod.mk.injEq] at h
          obtain ⟨rfl, rfl⟩ := h
          refine ⟨tsAddCur_mono _ _ _ (clampPower_bounds ..).1, rfl, rfl, rfl, rfl, rfl, ?_⟩
          exact Or.inr ⟨cs, hcs, Or.inr ⟨_, rfl⟩⟩
  · split at h
    · cases h
    · rename_i vi1 d1 hsc
      have hvi1 : vi1.vid = vi.vid ∧ vi1.arrivalIdx = vi.arrivalIdx ∧ vi1.veh.cs = vi.veh.cs ∧
          vi1.veh.bat = vi.veh.bat ∧ vi1.veh.minChargingPower = vi.veh.minChargingPower := by
        unfold scaleVehicle at hsc
        split at hsc
        · split at hsc
          · cases hsc
          · simp only [Except.ok.injEq, Prod.mk.injEq] at hsc
            obtain ⟨rfl, _⟩ := hsc
            exact ⟨rfl, rfl, rfl, rfl, rfl⟩
        · simp only [Except.ok.injEq, Prod.mk.injEq] at hsc
          obtain ⟨rfl, _⟩ := hsc
          exact ⟨rfl, rfl, rfl, rfl, rfl⟩
      split at h
      · cases h
      · rename_i ts1 cmd hfc
        simp only [Except.ok.injEq, Prod.mk.injEq] at h
        obtain ⟨rfl, rfl⟩ := h
        obtain ⟨hm, hc⟩ := fastCharge_spec ops law env w _ _ _ _ _ _ hfc
        obtain ⟨h1, h2, h3, h4, h5⟩ := hvi1
        refine ⟨hm, h1, h2, h3, h4, h5, ?_⟩
        rcases hc with hc | ⟨cs, hcs, hc⟩
        · exact Or.inl hc
        · right
          refine ⟨cs, by rw [← h3]; exact hcs, ?_⟩
          rw [← h5]; exact hc

/-- the schedule of a planned vehicle is `0` or a `clamp_power` value for its own station -/
def SchedOK (w : SWorld α B) (vi : VInfo α B) : Prop :=
  vi.schedule = 0 ∨ ∃ cs, vi.veh.cs.bind w.station? = some cs ∧ InHeadroom cs vi.veh.minChargingPower vi.schedule

theorem adjustAll_spec (ops : Ops α B) (law : BatLaw ops.bat) (env : Env α) (w : SWorld α B) (gcCurMax : α)
    (nAhead : Int) (vs : List (VInfo α B)) (ts ts' : List (TS α)) (done done' : List (VInfo α B))
    (hdone : ∀ v ∈ done, SchedOK w v)
    (h : adjustAll ops env w gcCurMax nAhead vs ts done = .ok (ts', done')) :
    TsMono ts ts' ∧ ∀ v ∈ done', SchedOK w v := by
  induction vs generalizing ts done with
  | nil =>
    simp only [adjustAll, Except.ok.injEq, Prod.mk.injEq] at h
    obtain ⟨rfl, rfl⟩ := h
    exact ⟨TsMono.refl _, hdone⟩
  | cons vi rest ih =>
    unfold adjustAll at h
    split at h
    · exact ih _ _ hdone h
    · rename_i d hd
      split at h
      · cases h
      · rename_i ts1 vi1 hadj
        obtain ⟨hm, _, _, h3, _, h5, hs⟩ := adjustVehicle_spec ops law env w gcCurMax nAhead _ _ _ _ _ hadj
        have hdone1 : ∀ v ∈ done ++ [vi1], SchedOK w v := by
          intro v hv
          rcases List.mem_append.mp hv with hv | hv
          · exact hdone v hv
          · simp only [List.mem_singleton] at hv
            subst hv
            unfold SchedOK
            rw [h3, h5]
            exact hs
        obtain ⟨hm2, hall⟩ := ih _ _ hdone1 h
        exact ⟨TsMono.trans hm hm2, hall⟩

/-! ### the first forecast entry is the present state of the connector -/

theorem peek_future (ops : Ops α B) (env : Env α) (w : SWorld α B) (gcId : String) (tIdx curTime : Int)
    (evs : List (Ev α)) (st : Look α B) (hf : ∀ e ∈ evs, curTime < e.start) :
    peek ops env w gcId tIdx curTime evs st = .ok (evs, st) := by
  cases evs with
  | nil => rfl
  | cons e rest =>
    unfold peek
    simp [hf e (List.mem_cons_self ..)]

theorem lookAhead_prefix (ops : Ops α B) (env : Env α) (w : SWorld α B) (gcId : String) (k : Nat) (tIdx : Int)
    (evs : List (Ev α)) (st st' : Look α B) (acc ts : List (TS α))
    (h : lookAhead ops env w gcId k tIdx evs st acc = .ok (st', ts)) : ∃ more, ts = acc ++ more := by
  induction k generalizing tIdx evs st acc with
  | zero =>
    simp only [lookAhead, Except.ok.injEq, Prod.mk.injEq] at h
    exact ⟨[], by simp [h.2]⟩
  | succ k ih =>
    unfold lookAhead at h
    split at h
    · cases h
    · obtain ⟨more, hm⟩ := ih _ _ _ _ h
      exact ⟨_, by rw [hm, List.append_assoc]⟩

/-- builtin `sum` adds up (true for exact numbers; the compensated float `sum` is tied by the correspondence) -/
def SumExact (ops : Ops α B) : Prop := ∀ l : List α, ops.sum l = l.foldl (· + ·) 0

/-- no visible event starts at or before the present step (past events have been popped / processed) -/
def EventsAhead (env : Env α) (events : List (Ev α)) : Prop :=
  ∀ e ∈ visibleEvents env events, env.now < e.start

theorem forecast_head (ops : Ops α B) (hsum : SumExact ops) (env : Env α) (w : SWorld α B)
    (events : List (Ev α)) (hev : EventsAhead env events) (gc : GcS α) (nAhead : Int)
    (arr : List (VInfo α B)) (ts : List (TS α))
    (h : forecast ops env w events gc nAhead = .ok (arr, ts)) :
    ts = [] ∨ ∃ more, ts = ⟨gc.curMax, gc.currentLoad, gc.currentLoad⟩ :: more := by
  unfold forecast at h
  split at h
  · cases h
  · rename_i present arr0 hia
    split at h
    · cases h
    · rename_i st ts1 hla
      simp only [Except.ok.injEq, Prod.mk.injEq] at h
      obtain ⟨_, rfl⟩ := h
      cases hk : nAhead.toNat with
      | zero =>
        rw [hk] at hla
        simp only [lookAhead, Except.ok.injEq, Prod.mk.injEq] at hla
        exact Or.inl hla.2.symm
      | succ k =>
        rw [hk] at hla
        unfold lookAhead at hla
        rw [peek_future ops env w gc.id 0 _ _ _ (by intro e he; simpa using hev e he)] at hla
        simp only [List.nil_append] at hla
        obtain ⟨more, hm⟩ := lookAhead_prefix ops env w gc.id _ _ _ _ _ _ _ hla
        right
        refine ⟨more, ?_⟩
        rw [hm]
        have : ops.sum (List.map (fun x => x.2) gc.loads) = gc.currentLoad := by
          rw [hsum, List.foldl_map]
          rfl
        simp only [this, List.cons_append, List.nil_append]

/-! ### the step is a sequence of booked battery operations -/

/-- one booked vehicle charge: one `battery.load(target_power=p)` on the world's vehicle, its average power is
added to the connector's loads under the station's key and reported as the station's command -/
def VehBooked (ops : Ops α B) (a a' : Acc α B) (csId : String) (p avg : α) : Prop :=
  ∃ vid v bat', a.world.vehicle? vid = some v ∧
    ops.bat.load v.bat none none (some p) = .ok (bat', avg) ∧
    a' = ⟨a.world.setVehicle { v with bat := bat' }, (a.gc.addLoad csId avg).1,
          sdSet a.cmds csId (a.gc.addLoad csId avg).2⟩

/-- a booking made by the surplus/apply pass for a planned vehicle satisfying `P`: the vehicle stands now, the
requested power `p` is positive and is the planned schedule or (surplus offer) the larger of the plan and a
`clamp_power` value for the vehicle's station -/
def VehStep (ops : Ops α B) (P : VInfo α B → Prop) (a a' : Acc α B) : Prop :=
  ∃ vi avg p, P vi ∧ vi.arrivalIdx ≤ 0 ∧ 0 < p ∧
    (p = vi.schedule ∨ ∃ cs y, vi.veh.cs.bind a.world.station? = some cs ∧
      p = max (clampPower y cs.currentPower cs.maxPower cs.minPower vi.veh.minChargingPower) vi.schedule) ∧
    VehBooked ops a a' (vi.veh.cs.getD "None") p avg

theorem offerSurplus_spec (w : SWorld α B) (vi : VInfo α B) (surplus p : α)
    (h : offerSurplus w vi surplus = .ok p) :
    (p = vi.schedule ∨ ∃ cs y, vi.veh.cs.bind w.station? = some cs ∧
      p = max (clampPower y cs.currentPower cs.maxPower cs.minPower vi.veh.minChargingPower) vi.schedule) ∧
    vi.schedule ≤ p ∧ (surplus ≤ 0 → p = vi.schedule) ∧ (0 < surplus → 0 ≤ vi.schedule → p ≤ vi.schedule + surplus) := by
  unfold offerSurplus at h
  split at h
  · rename_i hpos
    split at h
    · cases h
    · rename_i cs hcs
      simp only [Except.ok.injEq, pymax_eq] at h
      subst h
      refine ⟨Or.inr ⟨cs, _, hcs, rfl⟩, le_max_right _ _, fun hle => absurd hpos (not_lt.mpr hle), fun _ hs => ?_⟩
      apply max_le
      · have := (clampPower_bounds (vi.schedule + surplus) cs.currentPower cs.maxPower cs.minPower
          vi.veh.minChargingPower).2
        rw [max_eq_right (by linarith)] at this
        exact this
      · linarith
  · rename_i hnp
    simp only [Except.ok.injEq] at h
    subst h
    exact ⟨Or.inl rfl, le_refl _, fun _ => rfl, fun hp _ => absurd hp hnp⟩

theorem applyVehicles_trace (ops : Ops α B) (s0 : α) (vs : List (VInfo α B)) (used : α) (acc acc' : Acc α B)
    (h : applyVehicles ops s0 vs used acc = .ok acc') :
    Relation.ReflTransGen (VehStep ops (· ∈ vs)) acc acc' := by
  induction vs generalizing used acc with
  | nil =>
    simp only [applyVehicles, Except.ok.injEq] at h
    subst h
    exact Relation.ReflTransGen.refl
  | cons vi rest ih =>
    have lift : ∀ a a', Relation.ReflTransGen (VehStep ops (· ∈ rest)) a a' →
        Relation.ReflTransGen (VehStep ops (· ∈ vi :: rest)) a a' := by
      intro a a' hr
      induction hr with
      | refl => exact Relation.ReflTransGen.refl
      | tail _ hstep ih2 =>
        obtain ⟨v, avg, p, hv, rest'⟩ := hstep
        exact Relation.ReflTransGen.tail ih2 ⟨v, avg, p, List.mem_cons_of_mem _ hv, rest'⟩
    unfold applyVehicles at h
    split at h
    · exact lift _ _ (ih _ _ h)
    · rename_i harr
      split at h
      · cases h
      · rename_i p hoff
        split at h
        · rename_i hpos
          split at h
          · cases h
          · rename_i v hv
            split at h
            · cases h
            · rename_i bat' avg hl
              simp only at h
              refine Relation.ReflTransGen.head ?_ (lift _ _ (ih _ _ h))
              exact ⟨vi, avg, p, List.mem_cons_self .., not_lt.mp harr, hpos,
                (offerSurplus_spec _ _ _ _ hoff).1, vi.vid, v, bat', hv, hl, rfl⟩
        · exact lift _ _ (ih _ _ h)

/-- one booked stationary-battery operation: one `load`/`unload` call on the world's battery (`applyBattery`),
its signed average power is added to the connector's loads under the battery's id -/
def BatBooked (ops : Ops α B) (w : SWorld α B) (gcId : String) (a a' : Acc α B) : Prop :=
  ∃ b0 b bat' cur p, b0 ∈ w.batteries ∧ b0.parent = gcId ∧
    a.world.batteries.find? (·.id == b0.id) = some b ∧
    applyBattery ops b.bat cur = .ok (bat', p) ∧
    a' = ⟨a.world.setBattery { b with bat := bat' }, (a.gc.addLoad b.id p).1, a.cmds⟩

theorem batteryStep_trace (ops : Ops α B) (env : Env α) (nAhead : Int) (w : SWorld α B) (gcId : String)
    (st st' : Acc α B × List (TS α)) (b0 : StatBatS α B) (hb0 : b0 ∈ w.batteries)
    (h : batteryStep ops env nAhead gcId st b0 = .ok st') :
    st'.1 = st.1 ∨ BatBooked ops w gcId st.1 st'.1 := by
  unfold batteryStep at h
  split at h
  · simp only [Except.ok.injEq] at h; subst h; exact Or.inl rfl
  · rename_i hpar
    split at h
    · simp only [Except.ok.injEq] at h; subst h; exact Or.inl rfl
    · rename_i b hb
      split at h
      · cases h
      · simp only at h
        split at h
        · cases h
        · rename_i cur _
          split at h
          · cases h
          · rename_i bat' p hap
            simp only [Except.ok.injEq] at h
            subst h
            right
            refine ⟨b0, b, bat', _, p, hb0, ?_, hb, hap, rfl⟩
            simpa using hpar

theorem batteryFold_trace (ops : Ops α B) (env : Env α) (nAhead : Int) (w : SWorld α B) (gcId : String)
    (bs : List (StatBatS α B)) (hbs : ∀ b ∈ bs, b ∈ w.batteries) (st st' : Acc α B × List (TS α))
    (h : bs.foldlM (batteryStep ops env nAhead gcId) st = .ok st') :
    Relation.ReflTransGen (BatBooked ops w gcId) st.1 st'.1 := by
  induction bs generalizing st with
  | nil =>
    simp only [List.foldlM_nil, pure, Except.pure, Except.ok.injEq] at h
    subst h
    exact Relation.ReflTransGen.refl
  | cons b rest ih =>
    simp only [List.foldlM_cons, bind, Except.bind] at h
    split at h
    · cases h
    · rename_i st1 hst1
      have hrest := ih (fun x hx => hbs x (List.mem_cons_of_mem _ hx)) _ h
      rcases batteryStep_trace ops env nAhead w gcId _ _ b (hbs b (List.mem_cons_self ..)) hst1 with heq | hb
      · rw [← heq]; exact hrest
      · exact Relation.ReflTransGen.head hb hrest

theorem batteryBooked_cmds (ops : Ops α B) (w : SWorld α B) (gcId : String) (a a' : Acc α B)
    (h : Relation.ReflTransGen (BatBooked ops w gcId) a a') : a'.cmds = a.cmds := by
  induction h with
  | refl => rfl
  | tail _ hstep ih =>
    obtain ⟨_, _, _, _, _, _, _, _, _, rfl⟩ := hstep
    exact ih

/-- the shape of `step_gc`: forecast, planning, then booked vehicle charges, then booked battery operations -/
theorem stepGc_shape (ops : Ops α B) (env : Env α) (events : List (Ev α)) (w w' : SWorld α B) (gc : GcS α)
    (cmds : List (String × α)) (fc : List α) (h : stepGc ops env events w gc = .ok (w', cmds, fc)) :
    ∃ nAhead arr ts0 ts vehicles acc1 acc2,
      timestepsAhead env = .ok nAhead ∧
      forecast ops env w events gc nAhead = .ok (arr, ts0) ∧
      adjustAll ops env w gc.curMax nAhead (orderVehicles nAhead arr) ts0 [] = .ok (ts, vehicles) ∧
      applyPass ops w gc ts vehicles = .ok acc1 ∧
      Relation.ReflTransGen (BatBooked ops w gc.id) acc1 acc2 ∧
      w' = acc2.world.setGc acc2.gc ∧ cmds = acc2.cmds := by
  unfold stepGc at h
  split at h
  · cases h
  · rename_i nAhead hn
    split at h
    · cases h
    · rename_i arr ts0 hfc
      split at h
      · cases h
      · rename_i ts vehicles hadj
        split at h
        · cases h
        · rename_i acc1 hap
          split at h
          · cases h
          · rename_i acc2 ts2 hfold
            simp only [Except.ok.injEq, Prod.mk.injEq] at h
            obtain ⟨rfl, rfl, _⟩ := h
            exact ⟨nAhead, arr, ts0, ts, vehicles, acc1, acc2, hn, hfc, hadj, hap,
              batteryFold_trace ops env nAhead w gc.id _ (fun _ hb => hb) _ _ hfold, rfl, rfl⟩

theorem applyPass_trace (ops : Ops α B) (w : SWorld α B) (gc : GcS α) (ts : List (TS α))
    (vehicles : List (VInfo α B)) (acc : Acc α B) (h : applyPass ops w gc ts vehicles = .ok acc) :
    (ts = [] ∧ acc = ⟨w, gc, []⟩) ∨
    ∃ t0, ts[0]? = some t0 ∧
      Relation.ReflTransGen (VehStep ops (· ∈ vehicles)) ⟨w, gc, []⟩ acc := by
  unfold applyPass at h
  split at h
  · split at h
    · cases h
    · rename_i t0 ht0
      obtain ⟨r, hr⟩ := pyIndex_zero _ _ ht0
      right
      exact ⟨t0, by rw [hr]; rfl, applyVehicles_trace ops _ _ _ _ _ h⟩
  · simp only [Except.ok.injEq] at h
    subst h
    cases ts with
    | nil => exact Or.inl ⟨rfl, rfl⟩
    | cons t r => exact Or.inr ⟨t, rfl, Relation.ReflTransGen.refl⟩

theorem vehTrace_weaken (ops : Ops α B) (P Q : VInfo α B → Prop) (hPQ : ∀ v, P v → Q v)
    (a a' : Acc α B) (h : Relation.ReflTransGen (VehStep ops P) a a') :
    Relation.ReflTransGen (VehStep ops Q) a a' := by
  induction h with
  | refl => exact Relation.ReflTransGen.refl
  | tail _ hstep ih =>
    obtain ⟨v, avg, p, hv, rest⟩ := hstep
    exact Relation.ReflTransGen.tail ih ⟨v, avg, p, hPQ v hv, rest⟩

/-! ### all batteries of a connector -/

theorem powerLevels_set_tail (nAhead : Int) (ts : List (TS α)) (t : TS α) :
    (powerLevels nAhead (ts.set 0 t)).tail = (powerLevels nAhead ts).tail := by
  cases ts with
  | nil => rfl
  | cons t0 r =>
    unfold powerLevels
    simp only [List.set_cons_zero, List.zipIdx_cons, List.map_cons, List.tail_cons]

theorem batteryStep_ts (ops : Ops α B) (env : Env α) (nAhead : Int) (gcId : String)
    (st st' : Acc α B × List (TS α)) (b0 : StatBatS α B)
    (h : batteryStep ops env nAhead gcId st b0 = .ok st') :
    (powerLevels nAhead st'.2).tail = (powerLevels nAhead st.2).tail ∧
    (st'.1 = st.1 ∨ ∃ rest, powerLevels nAhead st'.2 = st.1.gc.currentLoad :: rest) := by
  unfold batteryStep at h
  split at h
  · simp only [Except.ok.injEq] at h; subst h; exact ⟨rfl, Or.inl rfl⟩
  · split at h
    · simp only [Except.ok.injEq] at h; subst h; exact ⟨rfl, Or.inl rfl⟩
    · split at h
      · cases h
      · rename_i t0 ht0
        obtain ⟨r, hr⟩ := pyIndex_zero _ _ ht0
        simp only at h
        split at h
        · cases h
        · split at h
          · cases h
          · simp only [Except.ok.injEq] at h
            subst h
            simp only
            refine ⟨powerLevels_set_tail _ _ _, Or.inr ?_⟩
            rw [hr]
            exact powerLevels_head nAhead t0 { t0 with curPower := st.1.gc.currentLoad } r

/-- **All stationary batteries of a connector, one step.**  If `bound ≥ 0` dominates the connector's load before
the battery pass and every predicted level of the later timesteps of the horizon, the load after the pass is at most
`bound`; it is never below `min(load before, 0)`. -/
theorem batteryFold_bounds (ops : Ops α B) (law : BatLaw ops.bat) (env : Env α) (heps : 0 ≤ env.eps)
    (nAhead : Int) (gcId : String) (bs : List (StatBatS α B)) (st st' : Acc α B × List (TS α)) (bound : α)
    (hb0 : 0 ≤ bound) (hL : st.1.gc.currentLoad ≤ bound)
    (htail : ∀ pl ∈ (powerLevels nAhead st.2).tail, pl ≤ bound)
    (h : bs.foldlM (batteryStep ops env nAhead gcId) st = .ok st') :
    min st.1.gc.currentLoad 0 ≤ st'.1.gc.currentLoad ∧ st'.1.gc.currentLoad ≤ bound ∧
      st'.1.gc.curMax = st.1.gc.curMax ∧ st'.1.gc.id = st.1.gc.id := by
  induction bs generalizing st with
  | nil =>
    simp only [List.foldlM_nil, pure, Except.pure, Except.ok.injEq] at h
    subst h
    exact ⟨min_le_left _ _, hL, rfl, rfl⟩
  | cons b rest ih =>
    simp only [List.foldlM_cons, bind, Except.bind] at h
    split at h
    · cases h
    · rename_i st1 hst1
      obtain ⟨acc, ts⟩ := st
      obtain ⟨acc1, ts1⟩ := st1
      obtain ⟨hlo, hhi, hcm, hid, _⟩ := batteryStep_bounds ops law env heps nAhead gcId acc acc1 ts ts1 b hst1
      obtain ⟨htl, hhead⟩ := batteryStep_ts ops env nAhead gcId _ _ b hst1
      simp only at htl hhead hL htail
      have hL1 : acc1.gc.currentLoad ≤ bound := by
        rcases hhead with heq | ⟨r, hr⟩
        · rw [heq]; exact hL
        · apply hhi bound hb0 hL
          intro pl hpl
          rw [hr] at hpl
          rcases List.mem_cons.mp hpl with rfl | hpl
          · exact hL
          · apply htail
            rw [← htl, hr]
            exact hpl
      have htail1 : ∀ pl ∈ (powerLevels nAhead ts1).tail, pl ≤ bound := by
        intro pl hpl; rw [htl] at hpl; exact htail pl hpl
      obtain ⟨h1, h2, h3, h4⟩ := ih (acc1, ts1) hL1 htail1 h
      simp only at h1 h2 h3 h4
      refine ⟨?_, h2, h3.trans hcm, h4.trans hid⟩
      simp only
      have : min acc.gc.currentLoad 0 ≤ min acc1.gc.currentLoad 0 := le_min hlo (min_le_right _ _)
      exact le_trans this h1

/-- `stepGc_shape` with the battery pass as the fold it is -/
theorem stepGc_fold (ops : Ops α B) (env : Env α) (events : List (Ev α)) (w w' : SWorld α B) (gc : GcS α)
    (cmds : List (String × α)) (fc : List α) (h : stepGc ops env events w gc = .ok (w', cmds, fc)) :
    ∃ nAhead arr ts0 ts vehicles acc1 acc2 ts2,
      timestepsAhead env = .ok nAhead ∧
      forecast ops env w events gc nAhead = .ok (arr, ts0) ∧
      adjustAll ops env w gc.curMax nAhead (orderVehicles nAhead arr) ts0 [] = .ok (ts, vehicles) ∧
      applyPass ops w gc ts vehicles = .ok acc1 ∧
      w.batteries.foldlM (batteryStep ops env nAhead gc.id) (acc1, ts) = .ok (acc2, ts2) ∧
      w' = acc2.world.setGc acc2.gc ∧ cmds = acc2.cmds := by
  unfold stepGc at h
  split at h
  · cases h
  · rename_i nAhead hn
    split at h
    · cases h
    · rename_i arr ts0 hfc
      split at h
      · cases h
      · rename_i ts vehicles hadj
        split at h
        · cases h
        · rename_i acc1 hap
          split at h
          · cases h
          · rename_i acc2 ts2 hfold
            simp only [Except.ok.injEq, Prod.mk.injEq] at h
            obtain ⟨rfl, rfl, _⟩ := h
            exact ⟨nAhead, arr, ts0, ts, vehicles, acc1, acc2, ts2, hn, hfc, hadj, hap, hfold, rfl, rfl⟩

/-- a connector without a stationary battery: the battery pass does nothing -/
theorem batteryFold_none (ops : Ops α B) (env : Env α) (nAhead : Int) (gcId : String)
    (bs : List (StatBatS α B)) (hbs : ∀ b ∈ bs, b.parent ≠ gcId) (st st' : Acc α B × List (TS α))
    (h : bs.foldlM (batteryStep ops env nAhead gcId) st = .ok st') : st' = st := by
  induction bs generalizing st with
  | nil =>
    simp only [List.foldlM_nil, pure, Except.pure, Except.ok.injEq] at h
    exact h.symm
  | cons b rest ih =>
    simp only [List.foldlM_cons, bind, Except.bind] at h
    split at h
    · cases h
    · rename_i st1 hst1
      unfold batteryStep at hst1
      have : (b.parent != gcId) = true := by simpa using hbs b (List.mem_cons_self ..)
      simp only [this, if_true, Except.ok.injEq] at hst1
      subst hst1
      exact ih (fun x hx => hbs x (List.mem_cons_of_mem _ hx)) _ h

/-- **Both bisections of a battery terminate** within `fuel` passes each whenever every predicted level is at most
`EPS · 2^fuel` (with `EPS = 1e-5` and the driver's `fuel = 1200` that is every double). -/
theorem batteryPlan_noFuel (ops : Ops α B) (law : BatLaw ops.bat) (hn : NoFuelErr ops) (env : Env α)
    (heps : 0 ≤ env.eps) (nAhead : Int) (ts : List (TS α)) (b : StatBatS α B)
    (hlev : ∀ pl ∈ powerLevels nAhead ts, pl ≤ env.eps * 2 ^ env.fuel) :
    batteryPlan ops env nAhead ts b ≠ .error .fuel := by
  unfold batteryPlan
  simp only [bind, Except.bind]
  split
  · rename_i e he
    intro h
    simp only [Except.error.injEq] at h
    subst h
    exact pyIndex_noFuel _ _ he
  · rename_i l0 hl0
    obtain ⟨rest, hr⟩ := pyIndex_zero _ _ hl0
    rw [hr] at hlev ⊢
    simp only [List.cons_append]
    obtain ⟨hM1, hM2, hM3⟩ := pyMaxList_spec l0 (rest ++ [0])
    have hbound0 : (0 : α) ≤ env.eps * 2 ^ env.fuel := by positivity
    have hMle : pyMaxList l0 (rest ++ [0]) ≤ env.eps * 2 ^ env.fuel := by
      apply hM3 _ (hlev l0 (List.mem_cons_self ..))
      intro y hy
      rcases List.mem_append.mp hy with hy | hy
      · exact hlev y (List.mem_cons_of_mem _ hy)
      · simp only [List.mem_singleton] at hy; subst hy; exact hbound0
    generalize pyMaxList l0 (rest ++ [0]) = M at hM1 hM2 hM3 hMle
    have hM0 : 0 ≤ M := hM2 0 (by simp)
    split
    · rename_i e he
      intro h
      simp only [Except.error.injEq] at h
      subst h
      refine bisect1_fuel ops hn _ _ heps _ _ _ _ ?_ he
      simp only [pymax_eq]
      have : (0 : α) ≤ max (M - ops.bat.unloadMaxPower b.bat * ops.bat.efficiency b.bat) 0 := le_max_right _ _
      linarith
    · rename_i s1 hs1
      have hinv0 : Inv1 l0 M (-(max l0 0))
          ⟨pymax (M - ops.bat.unloadMaxPower b.bat * ops.bat.efficiency b.bat) 0, M,
            List.replicate nAhead.toNat 0, pymax (-l0) 0, 0⟩ := by
        have hmx : (0 : α) ≤ max l0 0 := le_max_right _ _
        refine ⟨by simp, le_refl _, le_refl _, hM0, ?_, ?_, ?_⟩
        · simp only [pymax_eq]
          have : (0 : α) ≤ max (-l0) 0 := le_max_right _ _
          linarith
        · simp only [pymax_eq]
          apply max_le <;> linarith
        · intro pw hpw
          rw [List.getElem?_replicate] at hpw
          split at hpw
          · simp only [Option.some.injEq] at hpw; subst hpw; linarith
          · cases hpw
      have hinv1 := bisect1_inv ops law _ _ heps l0 M rest _ _ _ _ hinv0 hs1
      split
      · rename_i e he
        intro h
        simp only [Except.error.injEq] at h
        subst h
        refine bisect2_fuel ops hn _ _ _ heps _ _ _ _ _ ?_ he
        simp only [pymax_eq]
        have h1 := hinv1.max_le
        have key : ∀ z : α, s1.maxP - max z 0 ≤ env.eps * 2 ^ env.fuel := by
          intro z
          have := le_max_right z 0
          linarith
        exact key _
      · simp

/-! ### the feed-in side: nothing the step does lowers the connector load below `min(load, 0)` -/

theorem vehTrace_load_mono (ops : Ops α B) (law : BatLaw ops.bat) (P : VInfo α B → Prop)
    (a a' : Acc α B) (h : Relation.ReflTransGen (VehStep ops P) a a') :
    a.gc.currentLoad ≤ a'.gc.currentLoad ∧ a'.gc.curMax = a.gc.curMax ∧ a'.gc.id = a.gc.id := by
  induction h with
  | refl => exact ⟨le_refl _, rfl, rfl⟩
  | tail _ hstep ih =>
    obtain ⟨vi, avg, p, _, _, _, _, vid, v, bat', _, hl, rfl⟩ := hstep
    obtain ⟨h0, _⟩ := law.load_target _ _ _ _ hl
    obtain ⟨hcl, hcm, hid, _⟩ := addLoad_currentLoad _ (vi.veh.cs.getD "None") avg
    simp only
    rw [hcl, hcm, hid]
    exact ⟨by linarith [ih.1], ih.2.1, ih.2.2⟩

theorem batteryFold_lower (ops : Ops α B) (law : BatLaw ops.bat) (env : Env α) (heps : 0 ≤ env.eps)
    (nAhead : Int) (gcId : String) (bs : List (StatBatS α B)) (st st' : Acc α B × List (TS α))
    (h : bs.foldlM (batteryStep ops env nAhead gcId) st = .ok st') :
    min st.1.gc.currentLoad 0 ≤ st'.1.gc.currentLoad ∧ st'.1.gc.curMax = st.1.gc.curMax ∧
      st'.1.gc.id = st.1.gc.id := by
  induction bs generalizing st with
  | nil =>
    simp only [List.foldlM_nil, pure, Except.pure, Except.ok.injEq] at h
    subst h
    exact ⟨min_le_left _ _, rfl, rfl⟩
  | cons b rest ih =>
    simp only [List.foldlM_cons, bind, Except.bind] at h
    split at h
    · cases h
    · rename_i st1 hst1
      obtain ⟨acc, ts⟩ := st
      obtain ⟨acc1, ts1⟩ := st1
      obtain ⟨hlo, _, hcm, hid, _⟩ := batteryStep_bounds ops law env heps nAhead gcId acc acc1 ts ts1 b hst1
      obtain ⟨h1, h2, h3⟩ := ih (acc1, ts1) h
      simp only at h1 h2 h3 ⊢
      refine ⟨?_, h2.trans hcm, h3.trans hid⟩
      have : min acc.gc.currentLoad 0 ≤ min acc1.gc.currentLoad 0 := le_min hlo (min_le_right _ _)
      exact le_trans this h1

/-- all batteries of a connector (repaired code): the load never rises above `max(load before, limit)` -/
theorem batteryFold_limit (ops : Ops α B) (law : BatLaw ops.bat) (env : Env α) (heps : 0 ≤ env.eps)
    (nAhead : Int) (gcId : String) (bs : List (StatBatS α B)) (st st' : Acc α B × List (TS α))
    (h : bs.foldlM (batteryStep ops env nAhead gcId) st = .ok st') :
    st'.1.gc.currentLoad ≤ max st.1.gc.currentLoad st.1.gc.curMax := by
  induction bs generalizing st with
  | nil =>
    simp only [List.foldlM_nil, pure, Except.pure, Except.ok.injEq] at h
    subst h
    exact le_max_left _ _
  | cons b rest ih =>
    simp only [List.foldlM_cons, bind, Except.bind] at h
    split at h
    · cases h
    · rename_i st1 hst1
      obtain ⟨acc, ts⟩ := st
      obtain ⟨acc1, ts1⟩ := st1
      obtain ⟨_, _, hcm, _, _, hlim⟩ := batteryStep_bounds ops law env heps nAhead gcId acc acc1 ts ts1 b hst1
      have h1 := ih (acc1, ts1) h
      simp only at h1 ⊢
      rw [hcm] at h1
      exact le_trans h1 (max_le hlim (le_max_right _ _))

/-! ### a concrete exact-number battery for the non-vacuity examples -/

/-- 10 kWh, efficiency 1, 15-minute steps: a target-power request is delivered exactly as far as the SoC allows
(charge up to SoC 1, discharge at most 5 kW and down to SoC 0); the state is the SoC -/
def toyOps : Ops ℚ ℚ where
  bat := { soc := id, capacity := fun _ => 10, efficiency := fun _ => 1, unloadMaxPower := fun _ => 5,
           load := fun b _ _ tp =>
             .ok (b + (min (max (tp.getD 0) 0) (max ((1 - b) * 40) 0)) / 40,
                  min (max (tp.getD 0) 0) (max ((1 - b) * 40) 0)),
           unload := fun b _ _ tp =>
             .ok (b - (min (min (max (tp.getD 0) 0) 5) (max (b * 40) 0)) / 40,
                  min (min (max (tp.getD 0) 0) 5) (max (b * 40) 0)),
           available := fun _ => .ok 0 }
  loadMaxPower := fun _ => 11
  setSoc := fun _ s => s
  sum := fun l => l.foldl (· + ·) 0

theorem toyLaw : BatLaw toyOps.bat where
  load_max := by
    intro b p b' avg h
    simp only [toyOps, Option.getD_none, max_self, Except.ok.injEq, Prod.mk.injEq] at h
    obtain ⟨_, rfl⟩ := h
    exact ⟨le_min (le_refl _) (le_max_right _ _), le_trans (min_le_left _ _) (le_max_right _ _)⟩
  load_target := by
    intro b p b' avg h
    simp only [toyOps, Option.getD_some, Except.ok.injEq, Prod.mk.injEq] at h
    obtain ⟨_, rfl⟩ := h
    exact ⟨le_min (le_max_right _ _) (le_max_right _ _), min_le_left _ _⟩
  unload_max := by
    intro b p ts b' avg h
    simp only [toyOps, Option.getD_none, max_self, Except.ok.injEq, Prod.mk.injEq] at h
    obtain ⟨_, rfl⟩ := h
    exact ⟨le_min (le_min (le_refl _) (by norm_num)) (le_max_right _ _),
      le_trans (min_le_left _ _) (le_trans (min_le_left _ _) (le_max_right _ _))⟩
  unload_target := by
    intro b x b' avg h
    simp only [toyOps, Option.getD_some, Except.ok.injEq, Prod.mk.injEq] at h
    obtain ⟨_, rfl⟩ := h
    exact ⟨le_min (le_min (le_max_right _ _) (by norm_num)) (le_max_right _ _),
      le_trans (min_le_left _ _) (min_le_left _ _)⟩
  available_nonneg := by
    intro b a h
    simp only [toyOps, Except.ok.injEq] at h
    subst h
    exact le_refl _

theorem toySum : SumExact toyOps := fun _ => rfl

theorem toyNoFuel : NoFuelErr toyOps := by
  intro b a1 a2 a3
  constructor <;> simp [toyOps]

end SpiceEv.PeakShaving
