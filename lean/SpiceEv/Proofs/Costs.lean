/-
Helper definitions and lemmas for C12.

`SpiceEv.Costs.Spec` is a short reference specification of the documented cost composition written
with list aggregates (`List.sum`, a fold of `max`, `zipWith`, `filter`) instead of the loops,
accumulators and index accesses of the transliterated model; the lemmas below show that every loop of
the model computes the corresponding aggregate (and never raises) on inputs of matching lengths.
-/
import SpiceEv.Proofs.Basic
import SpiceEv.Model.Costs
import Mathlib.Tactic.Positivity
import Mathlib.Tactic.NormNum
import Mathlib.Algebra.BigOperators.Group.List.Basic
import Mathlib.Algebra.Order.Ring.Abs
import Mathlib.Data.List.Fold
set_option linter.unusedSectionVars false
set_option linter.unusedSimpArgs false
set_option linter.unusedVariables false
namespace SpiceEv.Costs
open SpiceEv
variable {α : Type} [Field α] [LinearOrder α] [IsStrictOrderedRing α]

/-! ### Reference specification -/
namespace Spec

/-- energy [kWh] of a power series [kW] whose steps last `sec` seconds -/
def energy (l : List α) (sec : α) : α := l.sum * sec / 3600

/-- peak of a series, but at least 0 (`max(l + [0])`) -/
def peak (l : List α) : α := l.foldr max 0

/-- maximum of a list (0 for the empty list, where Python raises) -/
def listMax : List α → α
  | [] => 0
  | x :: xs => xs.foldr max x

/-- the elements of `l` whose flag is set -/
def select : List α → List Bool → List α
  | x :: xs, w :: ws => if w then x :: select xs ws else select xs ws
  | _, _ => []

/-- the elements of `l` whose flag is not set -/
def selectNot : List α → List Bool → List α
  | x :: xs, w :: ws => if w then selectNot xs ws else x :: selectNot xs ws
  | _, _ => []

/-- the elements of `l` at the positions where `c` equals `top` -/
def selectEq (top : α) : List α → List α → List α
  | x :: xs, c :: cs => if c = top then x :: selectEq top xs cs else selectEq top xs cs
  | _, _ => []

/-- price-weighted energy [EUR]: `Σ power_i · sec/3600 · price_i / 100` -/
def priced (powers prices : List α) (sec : α) : α :=
  (List.zipWith (fun p c => p * sec / 3600 * c / 100) powers prices).sum

/-- flexible load: `max(supply - fixed, 0)` per step -/
def flexLoad (g f : List α) : List α := List.zipWith (fun s x => max (s - x) 0) g f

/-- tariff class: SLP up to 100 000 kWh/a, otherwise RLM; a requested RLM stays RLM, a requested SLP
is overridden above the limit -/
def tariffClass (fee : Option FeeType) (energyPa : α) : FeeType :=
  match fee with
  | some .rlm => .rlm
  | some .other => .other
  | _ => if |energyPa| ≤ 100000 then .slp else .rlm

/-- (commodity charge [ct/kWh], capacity charge [EUR/kW/a] or basic charge [EUR/a]) by tariff class,
utilisation-time bracket (2500 h/a) and voltage level -/
def rates (ps : PriceSheet α) (cls : FeeType) (vl : Nat) (util : α) : α × α :=
  match cls with
  | .slp => (ps.slpCommodity, ps.slpBasic)
  | _ =>
    if util < 2500 then (ps.rlmLowCommodity.getD vl 0, ps.rlmLowCapacity.getD vl 0)
    else (ps.rlmHighCommodity.getD vl 0, ps.rlmHighCapacity.getD vl 0)

/-- peak used for the capacity charge by the `…_w_plw` schemes: the peak inside the windows if the
reduction is significant (relative reduction above the price-sheet threshold AND more than 100 kW),
else the overall peak -/
def plwPeak (threshold P pw : α) : α :=
  if 0 < P ∧ threshold < (P - pw) / P * 100 ∧ 100 < P - pw then pw else P

/-- capacity costs: flat basic charge for SLP, charge × peak for RLM -/
def capacityCosts (cls : FeeType) (charge pk : α) : α :=
  if cls = .slp then charge else charge * pk

/-- costs of the fixed load in the three schemes that separate fixed and flexible load →
(commodity per year, commodity in the period, capacity, tariff class afterwards) -/
def fixPart (ps : PriceSheet α) (cls : FeeType) (vl : Nat) (f : List α) (sec fy reduction : α) :
    α × α × α × FeeType :=
  if peak f = 0 then (0, 0, 0, cls)
  else
    let ef := energy f sec
    let cls' := tariffClass (some cls) (ef / fy)
    let r := rates ps cls' vl |ef / fy / peak f|
    ((r.1 - reduction) * ef / 100 / fy, (r.1 - reduction) * ef / 100, r.2 * peak f, cls')

/-- feed-in charge for PV by nominal power; `none` above the last bracket -/
def pvCharge (ps : PriceSheet α) (pv : α) : Option α :=
  if pv = 0 then some 0
  else if pv ≤ ps.pvKwp.getD 0 0 then some (ps.pvRemuneration.getD 0 0)
  else if pv ≤ ps.pvKwp.getD 1 0 then some (ps.pvRemuneration.getD 1 0)
  else if pv ≤ ps.pvKwp.getD 2 0 then some (ps.pvRemuneration.getD 2 0)
  else none

/-- feed-in remuneration (per year, in the period) for a charge [ct/kWh] -/
def feedIn (charge : α) (l : Option (List α)) (sec fy : α) : α × α :=
  (energy (l.getD []) sec / fy * charge / 100, energy (l.getD []) sec * charge / 100)

/-- the price series of the variable schemes -/
def varPrices (inp : Input α) (comRate procRate : α) : List α × List α :=
  match inp.prices with
  | .dict proc com =>
    (com.getD (List.replicate inp.nTimestamps comRate),
     proc.getD (List.replicate inp.nTimestamps procRate))
  | _ => ([], [])

/-- the price series [ct/kWh] of `balanced_market` -/
def marketPrices (inp : Input α) (comRate : α) : List α :=
  match inp.prices with
  | .dict _ (some l) => l.map (· * 100)
  | .list l => l.map (· * 100)
  | _ => List.replicate inp.nTimestamps comRate

/-- simulated fraction of a year -/
def fy (inp : Input α) : α := inp.nTimestamps * inp.sec / 31536000
/-- power drawn from the grid (sign changed, feed-in cut off) -/
def g (inp : Input α) : List α := inp.supply.map (fun v => max (-v) 0)
/-- grid supply of the fixed load (negative values cut off) -/
def f (inp : Input α) : List α := inp.fixLoad.map (fun v => max v 0)
/-- energy drawn in the simulated period [kWh] -/
def e (inp : Input α) : α := energy (g inp) inp.sec
/-- energy drawn per year [kWh/a] -/
def epa (inp : Input α) : α := e inp / fy inp
/-- overall peak [kW] -/
def P (inp : Input α) : α := peak (g inp)
/-- utilisation time [h/a] used for the bracket of the total load; the `…_w_plw` schemes always use
the upper bracket -/
def util (inp : Input α) : α :=
  if P inp = 0 then 0 else if inp.scheme.isWPlw then 2500 else |epa inp / P inp|
/-- tariff class of the total load -/
def cls (inp : Input α) : FeeType := tariffClass inp.feeType (epa inp)
/-- charges of the total load -/
def r (inp : Input α) (ps : PriceSheet α) : α × α := rates ps (cls inp) inp.voltageLevel (util inp)
/-- peak inside the time windows (if a window signal exists) -/
def peakWin (inp : Input α) : Option α := inp.window.map (fun w => peak (select (g inp) w))
/-- flexible load -/
def flex (inp : Input α) : List α := flexLoad (g inp) (f inp)

/-- the schemes that separate fixed and flexible load: fixed part as usual (optionally with a
reduced commodity charge), flexible part always with the charges of the upper bracket -/
def special (inp : Input α) (ps : PriceSheet α) (reduction : α) (comFlex capFlex : FeeType → α) :
    Core α :=
  let fp := fixPart ps (cls inp) inp.voltageLevel (f inp) inp.sec (fy inp) reduction
  let cls3 := tariffClass (some fp.2.2.2) (epa inp)
  let cf := comFlex cls3
  let kf := capFlex cls3
  ⟨cls3, fp.2.1 + cf, fp.1 + cf / fy inp, fp.2.2.1 + kf, none,
    some ⟨fp.1, fp.2.1, fp.2.2.1, cf / fy inp, cf, kf⟩, peakWin inp, none⟩

/-- deviation costs of the `schedule` scheme -/
def deviationCosts (inp : Input α) (ps : PriceSheet α) : α :=
  match inp.scheduleList with
  | none => 0
  | some s =>
    let sp := s.map (fun v => max v 0)
    ps.schedDeviationCharge *
      max (peak (List.zipWith (fun a b => max (a - b) 0) (g inp) sp)
        - peak sp * ps.schedDeviationTolerance) 0

/-- scheme-dependent part of the documented composition -/
def core (inp : Input α) (ps : PriceSheet α) : Core α :=
  let vl := inp.voltageLevel
  let thr := ps.significance.getD vl 0
  let pw := (peakWin inp).getD 0
  let vp := varPrices inp (r inp ps).1 ps.procurement
  match inp.scheme with
  | .fixedWoPlw =>
    ⟨cls inp, (r inp ps).1 * e inp / 100, (r inp ps).1 * e inp / 100 / fy inp,
      capacityCosts (cls inp) (r inp ps).2 (P inp), none, none, peakWin inp, none⟩
  | .fixedWPlw =>
    ⟨cls inp, (r inp ps).1 * e inp / 100, (r inp ps).1 * e inp / 100 / fy inp,
      capacityCosts (cls inp) (r inp ps).2 (plwPeak thr (P inp) pw), none, none, some pw, some thr⟩
  | .variableWoPlw =>
    ⟨cls inp, priced (g inp) vp.1 inp.sec, priced (g inp) vp.1 inp.sec / fy inp,
      capacityCosts (cls inp) (r inp ps).2 (P inp), some (priced (g inp) vp.2 inp.sec), none,
      peakWin inp, none⟩
  | .variableWPlw =>
    ⟨cls inp, priced (g inp) vp.1 inp.sec, priced (g inp) vp.1 inp.sec / fy inp,
      capacityCosts (cls inp) (r inp ps).2 (plwPeak thr (P inp) pw),
      some (priced (g inp) vp.2 inp.sec), none, some pw, some thr⟩
  | .balancedMarket =>
    let pl := marketPrices inp (r inp ps).1
    special inp ps 0 (fun _ => priced (flex inp) pl inp.sec)
      (fun c => (rates ps c vl 2500).2 * peak (selectEq (listMax pl) (flex inp) pl))
  | .flexWindow =>
    special inp ps 0 (fun c => (rates ps c vl 2500).1 * energy (flex inp) inp.sec / 100)
      (fun c => (rates ps c vl 2500).2 * peak (selectNot (flex inp) (inp.window.getD [])))
  | .schedule =>
    special inp ps ps.schedReduction
      (fun c => (rates ps c vl 2500).1 * energy (flex inp) inp.sec / 100)
      (fun _ => deviationCosts inp ps)
  | .other => ⟨cls inp, 0, 0, 0, none, none, peakWin inp, none⟩

/-- the documented composition (every quantity before rounding) -/
def costs (inp : Input α) (ps : PriceSheet α) : Detail α :=
  assemble ps (fy inp) (e inp) (epa inp) (util inp) (core inp ps)
    (feedIn ((pvCharge ps inp.pvNominal).getD 0) inp.genFeedIn inp.sec (fy inp))
    (feedIn ps.v2g inp.v2gFeedIn inp.sec (fy inp))
    (feedIn ps.battery inp.batFeedIn inp.sec (fy inp))

end Spec

/-! ### Bridging lemmas: Python helpers of the model vs. ordered-field vocabulary -/

@[simp] theorem lit_eq (n : ℕ) : (lit n : α) = (n : α) := rfl

@[simp] theorem nEq_iff (a b : α) : nEq a b = true ↔ a = b := by
  unfold nEq
  simp only [Bool.and_eq_true, Bool.not_eq_true', decide_eq_false_iff_not, not_lt]
  constructor
  · rintro ⟨h1, h2⟩; exact le_antisymm h2 h1
  · rintro rfl; exact ⟨le_refl _, le_refl _⟩

theorem nEq_false_iff (a b : α) : nEq a b = false ↔ a ≠ b := by
  constructor
  · intro h hab
    rw [(nEq_iff a b).mpr hab] at h
    exact Bool.noConfusion h
  · intro h
    cases hn : nEq a b with
    | false => rfl
    | true => exact absurd ((nEq_iff a b).mp hn) h

theorem pymax_fun : (pymax : α → α → α) = max := by
  funext a b; exact pymax_eq a b

theorem foldl_add (l : List α) (a : α) : l.foldl (· + ·) a = a + l.sum := by
  induction l generalizing a with
  | nil => simp
  | cons x xs ih => simp [List.foldl_cons, ih, add_assoc]

@[simp] theorem pySum_eq (l : List α) : pySum l = l.sum := by
  unfold pySum; rw [foldl_add]; simp

theorem foldl_max_append_zero (l : List α) (a : α) :
    (l ++ [0]).foldl max a = max a (Spec.peak l) := by
  induction l generalizing a with
  | nil => simp [Spec.peak]
  | cons x xs ih =>
    simp only [List.cons_append, List.foldl_cons, ih]
    simp [Spec.peak, max_assoc]

@[simp] theorem maxWith0_eq (l : List α) : maxWith0 l = Spec.peak l := by
  unfold maxWith0
  cases l with
  | nil => simp [Spec.peak]
  | cons x xs =>
    simp only [List.cons_append, pymax_fun]
    rw [foldl_max_append_zero]
    simp [Spec.peak]

theorem peak_nonneg (l : List α) : 0 ≤ Spec.peak l := by
  induction l with
  | nil => simp [Spec.peak]
  | cons x xs ih => exact le_trans ih (le_max_right _ _)

theorem le_peak (l : List α) : ∀ x ∈ l, x ≤ Spec.peak l := by
  induction l with
  | nil => simp
  | cons y ys ih =>
    intro x hx
    simp only [List.mem_cons] at hx
    rcases hx with rfl | hx
    · simp [Spec.peak]
    · exact le_trans (ih x hx) (by simp [Spec.peak])

theorem peak_mem (l : List α) : Spec.peak l = 0 ∨ Spec.peak l ∈ l := by
  induction l with
  | nil => simp [Spec.peak]
  | cons y ys ih =>
    have h : Spec.peak (y :: ys) = max y (Spec.peak ys) := rfl
    rcases max_cases y (Spec.peak ys) with ⟨h1, _⟩ | ⟨h1, _⟩
    · right; rw [h, h1]; simp
    · rcases ih with h0 | hm
      · left; rw [h, h1, h0]
      · right; rw [h, h1]; exact List.mem_cons_of_mem _ hm

theorem foldl_max_eq (l : List α) (a : α) : l.foldl max a = l.foldr max a :=
  List.foldl_eq_foldr (f := max)

theorem pyMax_cons (x : α) (xs : List α) : pyMax (x :: xs) = .ok (Spec.listMax (x :: xs)) := by
  simp [pyMax, Spec.listMax, pymax_fun, foldl_max_eq]

/-! ### The loops of the model compute the aggregates of the specification -/

theorem windowLoads_eq (l : List α) (w : List Bool) : windowLoads l w = Spec.select l w := by
  induction l generalizing w with
  | nil => cases w <;> simp [windowLoads, Spec.select]
  | cons x xs ih =>
    cases w with
    | nil => simp [windowLoads, Spec.select]
    | cons b bs => simp [windowLoads, Spec.select, ih]

theorem getFlexibleLoad_eq (g f : List α) (h : g.length ≤ f.length) :
    getFlexibleLoad g f = .ok (Spec.flexLoad g f) := by
  induction g generalizing f with
  | nil => simp [getFlexibleLoad, Spec.flexLoad]
  | cons s ss ih =>
    cases f with
    | nil => simp at h
    | cons x xs =>
      simp only [List.length_cons, Nat.add_le_add_iff_right] at h
      simp [getFlexibleLoad, ih xs h, Spec.flexLoad, bind, Except.bind]

theorem commodityLoop_eq (sec : α) (p c : List α) (acc : α) (h : p.length ≤ c.length) :
    commodityLoop sec p c acc = .ok (acc + Spec.priced p c sec) := by
  induction p generalizing c acc with
  | nil => simp [commodityLoop, Spec.priced]
  | cons x xs ih =>
    cases c with
    | nil => simp at h
    | cons y ys =>
      simp only [List.length_cons, Nat.add_le_add_iff_right] at h
      simp only [commodityLoop, ih ys _ h]
      simp [Spec.priced, add_assoc]

theorem priced_replicate (p : List α) (c sec : α) :
    Spec.priced p (List.replicate p.length c) sec = c * Spec.energy p sec / 100 := by
  induction p with
  | nil => simp [Spec.priced, Spec.energy]
  | cons x xs ih =>
    simp only [List.length_cons, List.replicate_succ, Spec.priced, List.zipWith_cons_cons,
      List.sum_cons] at ih ⊢
    rw [ih]
    simp only [Spec.energy, List.sum_cons]
    ring

theorem variableLoop_eq (t : α) (pw cps pps : List α) (c p : α)
    (h1 : pw.length ≤ cps.length) (h2 : pw.length ≤ pps.length) :
    variableLoop t pw cps pps c p
      = .ok (c + (List.zipWith (fun x y => x * t * y / 100) pw cps).sum,
             p + (List.zipWith (fun x y => x * t * y / 100) pw pps).sum) := by
  induction pw generalizing cps pps c p with
  | nil => simp [variableLoop]
  | cons x xs ih =>
    cases cps with
    | nil => simp at h1
    | cons y ys =>
      cases pps with
      | nil => simp at h2
      | cons z zs =>
        simp only [List.length_cons, Nat.add_le_add_iff_right] at h1 h2
        simp only [variableLoop, ih ys zs _ _ h1 h2]
        simp [add_assoc]

theorem zipWith_tsPerHour (sec : α) (pw cs : List α) :
    (List.zipWith (fun x y => x * (sec / 3600) * y / 100) pw cs).sum = Spec.priced pw cs sec := by
  unfold Spec.priced
  have : (fun x y : α => x * (sec / 3600) * y / 100) = (fun p c => p * sec / 3600 * c / 100) := by
    funext x y; ring
  rw [this]

theorem highTariffPeak_eq (top : α) (flex prices : List α) (m : α) (hm0 : 0 ≤ m)
    (h : flex.length ≤ prices.length) :
    highTariffPeak top flex prices m = .ok (max m (Spec.peak (Spec.selectEq top flex prices))) := by
  induction flex generalizing prices m with
  | nil => simp [highTariffPeak, Spec.selectEq, Spec.peak, hm0]
  | cons x xs ih =>
    cases prices with
    | nil => simp at h
    | cons c cs =>
      simp only [List.length_cons, Nat.add_le_add_iff_right] at h
      rw [highTariffPeak]
      by_cases hc : c = top
      · have hn : nEq c top = true := (nEq_iff c top).mpr hc
        have hm' : (if (nEq c top && decide (m < x)) = true then x else m) = max m x := by
          simp only [hn, Bool.true_and, decide_eq_true_eq]
          by_cases hm : m < x
          · simp [hm, max_eq_right hm.le]
          · simp [hm, max_eq_left (not_lt.mp hm)]
        rw [hm', ih cs _ (le_trans hm0 (le_max_left _ _)) h]
        simp [Spec.selectEq, hc, Spec.peak, max_assoc]
      · have hn : nEq c top = false := (nEq_false_iff c top).mpr hc
        simp only [hn, Bool.false_and, Bool.false_eq_true, if_false]
        rw [ih cs _ hm0 h]
        simp [Spec.selectEq, hc]

theorem offWindowLoads_eq (flex : List α) (w : List Bool) (h : flex.length ≤ w.length) :
    offWindowLoads flex w = .ok (Spec.selectNot flex w) := by
  induction flex generalizing w with
  | nil => simp [offWindowLoads, Spec.selectNot]
  | cons x xs ih =>
    cases w with
    | nil => simp at h
    | cons b bs =>
      simp only [List.length_cons, Nat.add_le_add_iff_right] at h
      cases b <;> simp [offWindowLoads, ih bs h, Spec.selectNot, bind, Except.bind]

theorem posDeviation_eq (g s : List α) (h : s.length ≤ g.length) :
    posDeviation g s = .ok (List.zipWith (fun a b => max (a - b) 0) g s) := by
  induction s generalizing g with
  | nil => cases g <;> simp [posDeviation]
  | cons x xs ih =>
    cases g with
    | nil => simp at h
    | cons y ys =>
      simp only [List.length_cons, Nat.add_le_add_iff_right] at h
      simp [posDeviation, ih ys h, bind, Except.bind]

theorem lookupLevel_eq (tbl : List α) (vl : Nat) (h : vl < tbl.length) :
    lookupLevel tbl vl = .ok (tbl.getD vl 0) := by
  simp [lookupLevel, List.getD_eq_getElem?_getD, List.getElem?_eq_getElem h]

theorem listIndex_eq (l : List α) (i : Nat) (h : i < l.length) :
    listIndex l i = .ok (l.getD i 0) := by
  simp [listIndex, List.getD_eq_getElem?_getD, List.getElem?_eq_getElem h]

/-- the four RLM tables of the sheet cover voltage level `vl` -/
def SheetCovers (ps : PriceSheet α) (vl : Nat) : Prop :=
  vl < ps.rlmLowCommodity.length ∧ vl < ps.rlmLowCapacity.length ∧
  vl < ps.rlmHighCommodity.length ∧ vl < ps.rlmHighCapacity.length

theorem findPrices_eq (ps : PriceSheet α) (fee : Option FeeType) (vl : Nat) (util e : α)
    (hfee : fee ≠ some .other) (hc : SheetCovers ps vl) :
    findPrices ps fee vl util e
      = .ok ((Spec.rates ps (Spec.tariffClass fee e) vl util).1,
             (Spec.rates ps (Spec.tariffClass fee e) vl util).2, Spec.tariffClass fee e) := by
  obtain ⟨h1, h2, h3, h4⟩ := hc
  unfold findPrices
  simp only [pyabs_eq, lit_eq, maxEnergySupplyPerYearSLP, utilizationTimePerYearEC, Nat.cast_ofNat]
  by_cases hb : |e| ≤ 100000
  · rcases fee with _ | (_ | _ | _)
    · simp [hb, Spec.tariffClass, Spec.rates]
    · simp [hb, Spec.tariffClass, Spec.rates]
    · by_cases hu : util < 2500 <;>
        simp [hb, hu, Spec.tariffClass, Spec.rates, lookupLevel_eq _ _ h1, lookupLevel_eq _ _ h2,
          lookupLevel_eq _ _ h3, lookupLevel_eq _ _ h4, bind, Except.bind]
    · exact absurd rfl hfee
  · rcases fee with _ | (_ | _ | _)
    · by_cases hu : util < 2500 <;>
        simp [hb, hu, Spec.tariffClass, Spec.rates, lookupLevel_eq _ _ h1, lookupLevel_eq _ _ h2,
          lookupLevel_eq _ _ h3, lookupLevel_eq _ _ h4, bind, Except.bind]
    · by_cases hu : util < 2500 <;>
        simp [hb, hu, Spec.tariffClass, Spec.rates, lookupLevel_eq _ _ h1, lookupLevel_eq _ _ h2,
          lookupLevel_eq _ _ h3, lookupLevel_eq _ _ h4, bind, Except.bind]
    · by_cases hu : util < 2500 <;>
        simp [hb, hu, Spec.tariffClass, Spec.rates, lookupLevel_eq _ _ h1, lookupLevel_eq _ _ h2,
          lookupLevel_eq _ _ h3, lookupLevel_eq _ _ h4, bind, Except.bind]
    · exact absurd rfl hfee

theorem tariffClass_ne_other (fee : Option FeeType) (e : α) (h : fee ≠ some .other) :
    Spec.tariffClass fee e ≠ .other := by
  rcases fee with _ | (_ | _ | _)
  · simp only [Spec.tariffClass]; split_ifs <;> simp
  · simp only [Spec.tariffClass]; split_ifs <;> simp
  · simp [Spec.tariffClass]
  · exact absurd rfl h

theorem calculateCommodityCosts_eq (prices powers : List α) (sec fy : α) (hfy : fy ≠ 0)
    (h : powers.length ≤ prices.length) :
    calculateCommodityCosts prices powers sec fy
      = .ok (Spec.priced powers prices sec / fy, Spec.priced powers prices sec) := by
  simp [calculateCommodityCosts, commodityLoop_eq sec powers prices 0 h, pydiv_ok _ hfy, bind,
    Except.bind]

theorem sum_replicate_zero (n : Nat) : (List.replicate n (0 : α)).sum = 0 := by
  induction n with
  | zero => rfl
  | succ k ih => simp [List.replicate_succ, ih]

theorem calculateFeedInRemuneration_eq (charge : α) (l : Option (List α)) (n : Nat) (sec fy : α)
    (hfy : fy ≠ 0) :
    calculateFeedInRemuneration charge l n sec fy = .ok (Spec.feedIn charge l sec fy) := by
  cases l with
  | none =>
    simp [calculateFeedInRemuneration, Spec.feedIn, Spec.energy, pydiv_ok _ hfy, bind, Except.bind,
      sum_replicate_zero]
  | some l =>
    simp [calculateFeedInRemuneration, Spec.feedIn, Spec.energy, pydiv_ok _ hfy, bind, Except.bind]

/-! ### Well-formed inputs and the refinement of the stages -/

/-- Well-formed input (the property's quantifier): the grid operator section exists, at least one
step of positive length, every series has one entry per timestamp, known fee type and scheme, the
price sheet covers the voltage level, the schemes get the signals they need. -/
structure WF (inp : Input α) (ps : PriceSheet α) : Prop where
  sheet : inp.sheet = some ps
  npos : 0 < inp.nTimestamps
  secpos : 0 < inp.sec
  supplyLen : inp.supply.length = inp.nTimestamps
  fixLen : inp.fixLoad.length = inp.nTimestamps
  windowLen : ∀ w, inp.window = some w → w.length = inp.nTimestamps
  schedLen : ∀ s, inp.scheduleList = some s → s.length = inp.nTimestamps
  pricesLen : ∀ l, (inp.prices = .list l ∨ (∃ c, inp.prices = .dict (some l) c)
      ∨ (∃ p, inp.prices = .dict p (some l))) → l.length = inp.nTimestamps
  fee : inp.feeType ≠ some .other
  covers : SheetCovers ps inp.voltageLevel
  sig : inp.scheme.isWPlw = true → inp.voltageLevel < ps.significance.length
  flexWindow : inp.scheme = .flexWindow → inp.window ≠ none
  variablePrices : inp.scheme.isVariable = true →
    ∃ p c, inp.prices = .dict p c ∧ ¬ (p = none ∧ c = none)
  scheme : inp.scheme ≠ .other

theorem WF.fy_pos {inp : Input α} {ps : PriceSheet α} (h : WF inp ps) : 0 < Spec.fy inp := by
  unfold Spec.fy
  have h1 : (0 : α) < inp.nTimestamps := Nat.cast_pos.mpr h.npos
  have := h.secpos
  positivity

theorem WF.fy_ne {inp : Input α} {ps : PriceSheet α} (h : WF inp ps) : Spec.fy inp ≠ 0 :=
  ne_of_gt h.fy_pos

/-- the prelude of the model computes the named quantities of the specification -/
theorem prelude_eq (inp : Input α) (ps : PriceSheet α) (h : WF inp ps) :
    prelude inp = .ok ⟨ps, Spec.fy inp, Spec.g inp, Spec.f inp, Spec.peakWin inp, Spec.e inp,
      Spec.epa inp, Spec.P inp, Spec.util inp, (Spec.r inp ps).1, (Spec.r inp ps).2,
      Spec.cls inp⟩ := by
  have hfy : (inp.nTimestamps : α) * inp.sec / 31536000 ≠ 0 := h.fy_ne
  unfold prelude
  simp only [h.sheet, lit_eq, secondsPerYear, utilizationTimePerYearEC, Nat.cast_ofNat, pymax_eq,
    pySum_eq, maxWith0_eq, windowLoads_eq, pyabs_eq, bind, Except.bind, pure, Except.pure]
  rw [pydiv_ok _ hfy]
  simp only []
  rw [findPrices_eq ps inp.feeType inp.voltageLevel _ _ h.fee h.covers]
  simp only [Spec.fy, Spec.g, Spec.f, Spec.peakWin, Spec.e, Spec.epa, Spec.P, Spec.util, Spec.r,
    Spec.cls, Spec.energy, nEq_iff]
  rfl

theorem fixedLoadCosts_eq (ps : PriceSheet α) (c : FeeType) (vl : Nat) (f : List α)
    (sec fy : α) (red : Option α) (hc : c ≠ .other) (hcov : SheetCovers ps vl) (hfy : fy ≠ 0) :
    fixedLoadCosts ps c vl f sec fy red = .ok (Spec.fixPart ps c vl f sec fy (red.getD 0)) := by
  unfold fixedLoadCosts Spec.fixPart
  simp only [maxWith0_eq, nEq_iff, pySum_eq, lit_eq, Nat.cast_ofNat, pyabs_eq]
  by_cases hp : Spec.peak f = 0
  · simp [hp]
  · simp only [hp, if_false]
    rw [pydiv_ok _ hfy]
    simp only [bind, Except.bind]
    rw [findPrices_eq ps (some c) vl _ _ (by simpa using hc) hcov]
    simp only []
    rw [calculateCommodityCosts_eq _ _ _ _ hfy (by simp)]
    simp only [priced_replicate, calculateCapacityCostsRlm, Spec.energy]
    cases red <;> simp

theorem pvFeedInCharge_eq (ps : PriceSheet α) (pv : α) (h1 : 3 ≤ ps.pvKwp.length)
    (h2 : 3 ≤ ps.pvRemuneration.length) :
    pvFeedInCharge ps pv = match Spec.pvCharge ps pv with
      | some c => .ok c
      | none => .error .valueError := by
  unfold pvFeedInCharge Spec.pvCharge
  simp only [nEq_iff]
  by_cases h0 : pv = 0
  · simp [h0]
  · simp only [h0, if_false]
    rw [listIndex_eq ps.pvKwp 0 (by omega), listIndex_eq ps.pvKwp 1 (by omega),
      listIndex_eq ps.pvKwp 2 (by omega)]
    simp only [bind, Except.bind]
    rw [listIndex_eq ps.pvRemuneration 0 (by omega), listIndex_eq ps.pvRemuneration 1 (by omega),
      listIndex_eq ps.pvRemuneration 2 (by omega)]
    split_ifs <;> rfl

@[simp] theorem g_length (inp : Input α) : (Spec.g inp).length = inp.supply.length := by
  simp [Spec.g]
@[simp] theorem f_length (inp : Input α) : (Spec.f inp).length = inp.fixLoad.length := by
  simp [Spec.f]

/-- the model's prelude record, written with the named quantities of the specification -/
def specPrelude (inp : Input α) (ps : PriceSheet α) : Prelude α :=
  ⟨ps, Spec.fy inp, Spec.g inp, Spec.f inp, Spec.peakWin inp, Spec.e inp, Spec.epa inp, Spec.P inp,
    Spec.util inp, (Spec.r inp ps).1, (Spec.r inp ps).2, Spec.cls inp⟩

theorem match_getD {β : Type} (o : Option β) (d : β) :
    (match o with | none => d | some l => l) = o.getD d := by cases o <;> rfl

theorem commodityBlock_fixed (inp : Input α) (ps : PriceSheet α) (h : WF inp ps)
    (hs : inp.scheme.isFixed = true) :
    commodityBlock inp (specPrelude inp ps)
      = .ok (some ((Spec.r inp ps).1 * Spec.e inp / 100 / Spec.fy inp,
                   (Spec.r inp ps).1 * Spec.e inp / 100), none) := by
  have hfy := h.fy_ne
  unfold commodityBlock specPrelude
  simp only [hs, if_true]
  rw [calculateCommodityCosts_eq _ _ _ _ hfy (by simp)]
  simp only [priced_replicate, bind, Except.bind, Spec.e]

theorem commodityBlock_variable (inp : Input α) (ps : PriceSheet α) (h : WF inp ps)
    (hf : inp.scheme.isFixed = false) (hs : inp.scheme.isVariable = true) :
    commodityBlock inp (specPrelude inp ps)
      = .ok (some (Spec.priced (Spec.g inp) (Spec.varPrices inp (Spec.r inp ps).1 ps.procurement).1
                     inp.sec / Spec.fy inp,
                   Spec.priced (Spec.g inp) (Spec.varPrices inp (Spec.r inp ps).1 ps.procurement).1
                     inp.sec),
             some (Spec.priced (Spec.g inp) (Spec.varPrices inp (Spec.r inp ps).1 ps.procurement).2
                     inp.sec)) := by
  have hfy := h.fy_ne
  obtain ⟨p, c, hp, hpc⟩ := h.variablePrices hs
  have hlp : ∀ l, p = some l → l.length = inp.nTimestamps := fun l hl =>
    h.pricesLen l (Or.inr (Or.inl ⟨c, by rw [hp, hl]⟩))
  have hlc : ∀ l, c = some l → l.length = inp.nTimestamps := fun l hl =>
    h.pricesLen l (Or.inr (Or.inr ⟨p, by rw [hp, hl]⟩))
  unfold commodityBlock specPrelude
  simp only [hf, hs, hp, if_true, Bool.false_eq_true, if_false, Spec.varPrices]
  have hnone : (p.isNone && c.isNone) = false := by
    cases p <;> cases c <;> simp at hpc ⊢
  simp only [hnone, Bool.false_eq_true, if_false]
  have l1 : (Spec.g inp).length ≤ (c.getD (List.replicate inp.nTimestamps (Spec.r inp ps).1)).length := by
    cases c with
    | none => simp [h.supplyLen]
    | some l => simp [h.supplyLen, hlc l rfl]
  have l2 : (Spec.g inp).length ≤ (p.getD (List.replicate inp.nTimestamps ps.procurement)).length := by
    cases p with
    | none => simp [h.supplyLen]
    | some l => simp [h.supplyLen, hlp l rfl]
  rw [variableLoop_eq _ _ _ _ _ _ l1 l2]
  simp only [lit_eq, Nat.cast_ofNat, zipWith_tsPerHour, zero_add, bind, Except.bind]
  rw [pydiv_ok _ hfy]

theorem commodityBlock_special (inp : Input α) (pre : Prelude α)
    (hf : inp.scheme.isFixed = false) (hs : inp.scheme.isVariable = false) :
    commodityBlock inp pre = .ok (none, none) := by
  unfold commodityBlock
  simp [hf, hs]

theorem peakWin_getD_nonneg (inp : Input α) : 0 ≤ (Spec.peakWin inp).getD 0 := by
  unfold Spec.peakWin
  cases inp.window with
  | none => simp
  | some w => simp [peak_nonneg]

theorem plwBlock_w (inp : Input α) (ps : PriceSheet α) (h : WF inp ps)
    (hs : inp.scheme.isWPlw = true) :
    plwBlock inp (specPrelude inp ps)
      = .ok (Spec.plwPeak (ps.significance.getD inp.voltageLevel 0) (Spec.P inp)
               ((Spec.peakWin inp).getD 0),
             some ((Spec.peakWin inp).getD 0), some (ps.significance.getD inp.voltageLevel 0)) := by
  unfold plwBlock specPrelude
  simp only [hs, if_true]
  rw [lookupLevel_eq _ _ (h.sig hs)]
  simp only [match_getD, bind, Except.bind, lit_eq, plwPeakDiffKW, Nat.cast_ofNat, Spec.plwPeak]
  have hpw := peakWin_getD_nonneg inp
  have hP : 0 ≤ Spec.P inp := peak_nonneg _
  by_cases hpos : 0 < Spec.P inp
  · simp [hpos]
  · have hP0 : Spec.P inp = 0 := le_antisymm (not_lt.mp hpos) hP
    have : ¬ ((100 : α) < Spec.P inp - (Spec.peakWin inp).getD 0) := by
      rw [hP0]; intro hh; linarith
    simp [hpos, this]

theorem plwBlock_wo (inp : Input α) (ps : PriceSheet α) (hs : inp.scheme.isWPlw = false) :
    plwBlock inp (specPrelude inp ps) = .ok (Spec.P inp, Spec.peakWin inp, none) := by
  unfold plwBlock specPrelude
  simp [hs]

theorem schemeCosts_fixedWoPlw (inp : Input α) (ps : PriceSheet α) (h : WF inp ps)
    (hs : inp.scheme = .fixedWoPlw) :
    schemeCosts inp (specPrelude inp ps) = .ok (Spec.core inp ps) := by
  unfold schemeCosts
  rw [commodityBlock_fixed inp ps h (by rw [hs]; rfl), plwBlock_wo inp ps (by rw [hs]; rfl)]
  simp [hs, specPrelude, Spec.core, Spec.capacityCosts, calculateCapacityCostsRlm, bind,
    Except.bind]
  by_cases hc : Spec.cls inp = .slp <;> simp [hc]

theorem schemeCosts_fixedWPlw (inp : Input α) (ps : PriceSheet α) (h : WF inp ps)
    (hs : inp.scheme = .fixedWPlw) :
    schemeCosts inp (specPrelude inp ps) = .ok (Spec.core inp ps) := by
  unfold schemeCosts
  rw [commodityBlock_fixed inp ps h (by rw [hs]; rfl), plwBlock_w inp ps h (by rw [hs]; rfl)]
  simp [hs, specPrelude, Spec.core, Spec.capacityCosts, calculateCapacityCostsRlm, bind,
    Except.bind]

theorem schemeCosts_variableWoPlw (inp : Input α) (ps : PriceSheet α) (h : WF inp ps)
    (hs : inp.scheme = .variableWoPlw) :
    schemeCosts inp (specPrelude inp ps) = .ok (Spec.core inp ps) := by
  unfold schemeCosts
  rw [commodityBlock_variable inp ps h (by rw [hs]; rfl) (by rw [hs]; rfl),
    plwBlock_wo inp ps (by rw [hs]; rfl)]
  simp [hs, specPrelude, Spec.core, Spec.capacityCosts, calculateCapacityCostsRlm, bind,
    Except.bind]
  by_cases hc : Spec.cls inp = .slp <;> simp [hc]

theorem schemeCosts_variableWPlw (inp : Input α) (ps : PriceSheet α) (h : WF inp ps)
    (hs : inp.scheme = .variableWPlw) :
    schemeCosts inp (specPrelude inp ps) = .ok (Spec.core inp ps) := by
  unfold schemeCosts
  rw [commodityBlock_variable inp ps h (by rw [hs]; rfl) (by rw [hs]; rfl),
    plwBlock_w inp ps h (by rw [hs]; rfl)]
  simp [hs, specPrelude, Spec.core, Spec.capacityCosts, calculateCapacityCostsRlm, bind,
    Except.bind]

theorem cls_ne_other (inp : Input α) (ps : PriceSheet α) (h : WF inp ps) :
    Spec.cls inp ≠ .other := tariffClass_ne_other _ _ h.fee

theorem fixPart_cls_ne_other (ps : PriceSheet α) (c : FeeType) (vl : Nat) (f : List α)
    (sec fy red : α) (hc : c ≠ .other) : (Spec.fixPart ps c vl f sec fy red).2.2.2 ≠ .other := by
  unfold Spec.fixPart
  split_ifs
  · exact hc
  · exact tariffClass_ne_other _ _ (by simpa using hc)

theorem flex_length (inp : Input α) (ps : PriceSheet α) (h : WF inp ps) :
    (Spec.flex inp).length = inp.nTimestamps := by
  simp [Spec.flex, Spec.flexLoad, h.supplyLen, h.fixLen]

theorem foldr_max_head (x : α) (xs : List α) (hx : 0 ≤ x) :
    xs.foldr max x = max x (xs.foldr max 0) := by
  induction xs with
  | nil => simp [hx]
  | cons y ys ih => simp only [List.foldr_cons, ih, max_left_comm]

theorem pyMax_nonneg_list (l : List α) (h0 : ∀ x ∈ l, 0 ≤ x) (hne : l ≠ []) :
    pyMax l = .ok (Spec.peak l) := by
  cases l with
  | nil => exact absurd rfl hne
  | cons x xs =>
    rw [pyMax_cons]
    simp only [Spec.listMax, Spec.peak, List.foldr_cons]
    rw [foldr_max_head x xs (h0 x (by simp))]

theorem zipWith_max_nonneg (a b : List α) :
    ∀ x ∈ List.zipWith (fun s y => max (s - y) 0) a b, 0 ≤ x := by
  induction a generalizing b with
  | nil => simp
  | cons s ss ih =>
    cases b with
    | nil => simp
    | cons y ys =>
      intro x hx
      simp only [List.zipWith_cons_cons, List.mem_cons] at hx
      rcases hx with rfl | hx
      · exact le_max_right _ _
      · exact ih ys x hx

theorem selectNot_subset (l : List α) (w : List Bool) : ∀ x ∈ Spec.selectNot l w, x ∈ l := by
  induction l generalizing w with
  | nil => cases w <;> simp [Spec.selectNot]
  | cons y ys ih =>
    cases w with
    | nil => simp [Spec.selectNot]
    | cons b bs =>
      intro x hx
      cases b
      · simp only [Spec.selectNot, Bool.false_eq_true, if_false, List.mem_cons] at hx
        rcases hx with rfl | hx
        · simp
        · exact List.mem_cons_of_mem _ (ih bs x hx)
      · simp only [Spec.selectNot, if_true] at hx
        exact List.mem_cons_of_mem _ (ih bs x hx)

theorem map_max0_nonneg (l : List α) : ∀ x ∈ l.map (fun v => max v 0), 0 ≤ x := by
  intro x hx
  obtain ⟨y, _, rfl⟩ := List.mem_map.mp hx
  exact le_max_right _ _

theorem schemeCosts_flexWindow (inp : Input α) (ps : PriceSheet α) (h : WF inp ps)
    (hs : inp.scheme = .flexWindow) :
    schemeCosts inp (specPrelude inp ps) = .ok (Spec.core inp ps) := by
  have hfy := h.fy_ne
  obtain ⟨w, hw⟩ : ∃ w, inp.window = some w := by
    have := h.flexWindow hs
    cases hw : inp.window with
    | none => exact absurd hw this
    | some w => exact ⟨w, rfl⟩
  have hwl := h.windowLen w hw
  unfold schemeCosts
  rw [commodityBlock_special inp _ (by rw [hs]; rfl) (by rw [hs]; rfl),
    plwBlock_wo inp ps (by rw [hs]; rfl)]
  simp only [hs, specPrelude, bind, Except.bind]
  rw [fixedLoadCosts_eq ps _ _ _ _ _ none (cls_ne_other inp ps h) h.covers hfy]
  simp only []
  rw [getFlexibleLoad_eq _ _ (by simp [h.supplyLen, h.fixLen])]
  simp only [lit_eq, utilizationTimePerYearEC, Nat.cast_ofNat]
  rw [findPrices_eq ps _ _ _ _
    (by simpa using fixPart_cls_ne_other ps _ _ _ _ _ _ (cls_ne_other inp ps h)) h.covers]
  simp only []
  rw [calculateCommodityCosts_eq _ _ _ _ hfy (by simp)]
  simp only [hw]
  have hfl : (Spec.flexLoad (Spec.g inp) (Spec.f inp)).length ≤ w.length := by
    have := flex_length inp ps h
    simp only [Spec.flex] at this
    omega
  rw [offWindowLoads_eq _ _ hfl]
  simp only [priced_replicate]
  have hnn : ∀ x ∈ Spec.selectNot (Spec.flexLoad (Spec.g inp) (Spec.f inp)) w, 0 ≤ x := fun x hx =>
    zipWith_max_nonneg _ _ x (selectNot_subset _ _ x hx)
  by_cases hemp : Spec.selectNot (Spec.flexLoad (Spec.g inp) (Spec.f inp)) w = []
  · simp [hemp, Spec.core, hs, Spec.special, Spec.flex, hw, Spec.peak]
  · have hne : (Spec.selectNot (Spec.flexLoad (Spec.g inp) (Spec.f inp)) w).isEmpty = false := by
      simpa [List.isEmpty_iff] using hemp
    rw [pyMax_nonneg_list _ hnn hemp]
    simp [hne, Spec.core, hs, Spec.special, Spec.flex, hw, calculateCapacityCostsRlm]

theorem schemeCosts_schedule (inp : Input α) (ps : PriceSheet α) (h : WF inp ps)
    (hs : inp.scheme = .schedule) :
    schemeCosts inp (specPrelude inp ps) = .ok (Spec.core inp ps) := by
  have hfy := h.fy_ne
  unfold schemeCosts
  rw [commodityBlock_special inp _ (by rw [hs]; rfl) (by rw [hs]; rfl),
    plwBlock_wo inp ps (by rw [hs]; rfl)]
  simp only [hs, specPrelude, bind, Except.bind]
  rw [fixedLoadCosts_eq ps _ _ _ _ _ (some ps.schedReduction) (cls_ne_other inp ps h) h.covers hfy]
  simp only []
  rw [getFlexibleLoad_eq _ _ (by simp [h.supplyLen, h.fixLen])]
  simp only [lit_eq, utilizationTimePerYearEC, Nat.cast_ofNat]
  rw [findPrices_eq ps _ _ _ _
    (by simpa using fixPart_cls_ne_other ps _ _ _ _ _ _ (cls_ne_other inp ps h)) h.covers]
  simp only []
  rw [calculateCommodityCosts_eq _ _ _ _ hfy (by simp)]
  simp only [priced_replicate]
  cases hsch : inp.scheduleList with
  | none =>
    simp [Spec.core, hs, Spec.special, Spec.flex, Spec.deviationCosts, hsch]
  | some sched =>
    have hl := h.schedLen sched hsch
    have hnpos := h.npos
    simp only [pymax_eq]
    rw [posDeviation_eq _ _ (by simp [h.supplyLen, hl])]
    simp only []
    have hne1 : List.zipWith (fun a b => max (a - b) 0) (Spec.g inp)
        (sched.map (fun v => max v 0)) ≠ [] := by
      intro hcon
      have := congrArg List.length hcon
      simp [h.supplyLen, hl] at this
      omega
    have hne2 : sched.map (fun v => max v 0) ≠ [] := by
      intro hcon
      have := congrArg List.length hcon
      simp [hl] at this
      omega
    rw [pyMax_nonneg_list _ (zipWith_max_nonneg _ _) hne1]
    simp only []
    rw [pyMax_nonneg_list _ (map_max0_nonneg _) hne2]
    simp [Spec.core, hs, Spec.special, Spec.flex, Spec.deviationCosts, hsch,
      calculateCapacityCostsRlm]

theorem marketPrices_length (inp : Input α) (ps : PriceSheet α) (h : WF inp ps) (c : α) :
    (Spec.marketPrices inp c).length = inp.nTimestamps := by
  unfold Spec.marketPrices
  cases hp : inp.prices with
  | none => simp
  | list l => simp [h.pricesLen l (Or.inl hp)]
  | dict p c =>
    cases c with
    | none => simp
    | some l => simp [h.pricesLen l (Or.inr (Or.inr ⟨p, hp⟩))]

theorem schemeCosts_balancedMarket (inp : Input α) (ps : PriceSheet α) (h : WF inp ps)
    (hs : inp.scheme = .balancedMarket) :
    schemeCosts inp (specPrelude inp ps) = .ok (Spec.core inp ps) := by
  have hfy := h.fy_ne
  have hnpos := h.npos
  unfold schemeCosts
  rw [commodityBlock_special inp _ (by rw [hs]; rfl) (by rw [hs]; rfl),
    plwBlock_wo inp ps (by rw [hs]; rfl)]
  simp only [hs, specPrelude, bind, Except.bind]
  rw [fixedLoadCosts_eq ps _ _ _ _ _ none (cls_ne_other inp ps h) h.covers hfy]
  simp only []
  rw [getFlexibleLoad_eq _ _ (by simp [h.supplyLen, h.fixLen])]
  simp only [lit_eq, utilizationTimePerYearEC, Nat.cast_ofNat]
  have hpl : marketPriceList inp (Spec.r inp ps).1 = Spec.marketPrices inp (Spec.r inp ps).1 := by
    unfold Spec.marketPrices marketPriceList
    cases inp.prices with
    | none => rfl
    | list l => simp
    | dict p c => cases c <;> simp
  rw [hpl]
  have hlen := marketPrices_length inp ps h (Spec.r inp ps).1
  have hflen := flex_length inp ps h
  simp only [Spec.flex] at hflen
  obtain ⟨x, xs, hx⟩ : ∃ x xs, Spec.marketPrices inp (Spec.r inp ps).1 = x :: xs := by
    cases hm : Spec.marketPrices inp (Spec.r inp ps).1 with
    | nil => rw [hm] at hlen; simp at hlen; omega
    | cons x xs => exact ⟨x, xs, rfl⟩
  have hmax : pyMax (Spec.marketPrices inp (Spec.r inp ps).1)
      = .ok (Spec.listMax (Spec.marketPrices inp (Spec.r inp ps).1)) := by
    rw [hx]; exact pyMax_cons x xs
  rw [hmax]
  simp only []
  rw [highTariffPeak_eq _ _ _ 0 (le_refl 0) (by omega)]
  simp only []
  rw [findPrices_eq ps _ _ _ _
    (by simpa using fixPart_cls_ne_other ps _ _ _ _ _ _ (cls_ne_other inp ps h)) h.covers]
  simp only []
  rw [calculateCommodityCosts_eq _ _ _ _ hfy (by omega)]
  simp [Spec.core, hs, Spec.special, Spec.flex, calculateCapacityCostsRlm,
    max_eq_right (peak_nonneg _)]

/-- **Stage refinement**: lines 245-616 of the code compute the scheme-dependent part of the
documented composition, for every scheme. -/
theorem schemeCosts_eq (inp : Input α) (ps : PriceSheet α) (h : WF inp ps) :
    schemeCosts inp (specPrelude inp ps) = .ok (Spec.core inp ps) := by
  cases hs : inp.scheme with
  | fixedWoPlw => exact schemeCosts_fixedWoPlw inp ps h hs
  | fixedWPlw => exact schemeCosts_fixedWPlw inp ps h hs
  | variableWoPlw => exact schemeCosts_variableWoPlw inp ps h hs
  | variableWPlw => exact schemeCosts_variableWPlw inp ps h hs
  | balancedMarket => exact schemeCosts_balancedMarket inp ps h hs
  | flexWindow => exact schemeCosts_flexWindow inp ps h hs
  | schedule => exact schemeCosts_schedule inp ps h hs
  | other => exact absurd hs h.scheme

/-- **Refinement**: on a well-formed input whose PV size is inside the brackets the model of
`calculate_costs` returns (never raises) exactly the documented composition. -/
theorem calculateCostsRaw_eq (inp : Input α) (ps : PriceSheet α) (h : WF inp ps)
    (hpv1 : 3 ≤ ps.pvKwp.length) (hpv2 : 3 ≤ ps.pvRemuneration.length)
    (hpv : (Spec.pvCharge ps inp.pvNominal).isSome) :
    calculateCostsRaw inp = .ok (Spec.costs inp ps) := by
  have hfy := h.fy_ne
  unfold calculateCostsRaw
  rw [prelude_eq inp ps h]
  simp only [bind, Except.bind]
  rw [show (⟨ps, Spec.fy inp, Spec.g inp, Spec.f inp, Spec.peakWin inp, Spec.e inp, Spec.epa inp,
    Spec.P inp, Spec.util inp, (Spec.r inp ps).1, (Spec.r inp ps).2, Spec.cls inp⟩ : Prelude α)
    = specPrelude inp ps from rfl]
  rw [schemeCosts_eq inp ps h]
  simp only [specPrelude]
  rw [pvFeedInCharge_eq ps _ hpv1 hpv2]
  obtain ⟨c, hc⟩ := Option.isSome_iff_exists.mp hpv
  simp only [hc]
  rw [calculateFeedInRemuneration_eq _ _ _ _ _ hfy, calculateFeedInRemuneration_eq _ _ _ _ _ hfy,
    calculateFeedInRemuneration_eq _ _ _ _ _ hfy]
  simp [Spec.costs, hc]

/-- PV size above the last bracket: `ValueError` (documented), for every well-formed input. -/
theorem calculateCostsRaw_pv_error (inp : Input α) (ps : PriceSheet α) (h : WF inp ps)
    (hpv1 : 3 ≤ ps.pvKwp.length) (hpv2 : 3 ≤ ps.pvRemuneration.length)
    (hpv : Spec.pvCharge ps inp.pvNominal = none) :
    calculateCostsRaw inp = .error .valueError := by
  unfold calculateCostsRaw
  rw [prelude_eq inp ps h]
  simp only [bind, Except.bind]
  rw [show (⟨ps, Spec.fy inp, Spec.g inp, Spec.f inp, Spec.peakWin inp, Spec.e inp, Spec.epa inp,
    Spec.P inp, Spec.util inp, (Spec.r inp ps).1, (Spec.r inp ps).2, Spec.cls inp⟩ : Prelude α)
    = specPrelude inp ps from rfl]
  rw [schemeCosts_eq inp ps h]
  simp only [specPrelude]
  rw [pvFeedInCharge_eq ps _ hpv1 hpv2, hpv]

/-! ### Shape of every successful result (no well-formedness needed) -/

theorem bind_eq_ok {β γ : Type} (x : Py β) (fn : β → Py γ) (c : γ) (h : x >>= fn = .ok c) :
    ∃ a, x = .ok a ∧ fn a = .ok c := by
  cases x with
  | error e => simp [bind, Except.bind] at h
  | ok a => exact ⟨a, rfl, h⟩

theorem pydiv_eq_ok (a b c : α) (h : pydiv a b = .ok c) : b ≠ 0 ∧ c = a / b := by
  by_cases hb : b = 0
  · subst hb; rw [pydiv_zero] at h; cases h
  · rw [pydiv_ok _ hb] at h
    injection h with h
    exact ⟨hb, h.symm⟩

/-- whenever the prelude succeeds the fraction of the year is non-zero and energy, fraction and
yearly energy are the documented expressions -/
theorem prelude_ok (inp : Input α) (pre : Prelude α) (h : prelude inp = .ok pre) :
    inp.sheet = some pre.ps ∧ pre.fy ≠ 0 ∧
    pre.fy = inp.nTimestamps * inp.sec / 31536000 ∧
    pre.energySim = Spec.energy (inp.supply.map (fun v => max (-v) 0)) inp.sec ∧
    pre.energyPa = pre.energySim / pre.fy := by
  unfold prelude at h
  cases hs : inp.sheet with
  | none => rw [hs] at h; simp [bind, Except.bind] at h
  | some ps =>
    rw [hs] at h
    simp only [bind, Except.bind] at h
    cases hd : pydiv (pySum (List.map (fun v => pymax (-v) 0) inp.supply) * inp.sec / lit 3600)
        (lit inp.nTimestamps * inp.sec / lit secondsPerYear) with
    | error e => rw [hd] at h; simp at h
    | ok epa =>
      rw [hd] at h
      simp only at h
      obtain ⟨hne, hepa⟩ := pydiv_eq_ok _ _ _ hd
      split at h
      · cases h
      · rename_i v hv
        injection h with h
        subst h
        simp only [lit_eq, secondsPerYear, Nat.cast_ofNat, pymax_eq, pySum_eq] at hne hepa ⊢
        exact ⟨trivial, hne, trivial, rfl, hepa⟩

/-- every successful result is the pure assembly (lines 618-751) of a successful prelude, some
scheme-dependent part and three feed-in remunerations -/
theorem calculateCostsRaw_ok_form (inp : Input α) (d : Detail α)
    (h : calculateCostsRaw inp = .ok d) :
    ∃ pre core pv v2g bat, prelude inp = .ok pre ∧ schemeCosts inp pre = .ok core ∧
      d = assemble pre.ps pre.fy pre.energySim pre.energyPa pre.util core pv v2g bat := by
  unfold calculateCostsRaw at h
  obtain ⟨pre, h1, h⟩ := bind_eq_ok _ _ _ h
  obtain ⟨core, h2, h⟩ := bind_eq_ok _ _ _ h
  obtain ⟨pvc, h3, h⟩ := bind_eq_ok _ _ _ h
  obtain ⟨pv, h4, h⟩ := bind_eq_ok _ _ _ h
  obtain ⟨v2g, h5, h⟩ := bind_eq_ok _ _ _ h
  obtain ⟨bat, h6, h⟩ := bind_eq_ok _ _ _ h
  injection h with h
  exact ⟨pre, core, pv, v2g, bat, h1, h2, h.symm⟩

end SpiceEv.Costs
