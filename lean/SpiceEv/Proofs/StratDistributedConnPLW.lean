/-
A peak_load_window sub-strategy meets the "connected" half of the contract `SubConn` (`SubConn false`): its step returns
the vehicles of the virtual world with their ids, connected stations and V2G flags — the only writes to a vehicle are
`{ pv with v := { pv.v with bat := … }, schedule := … }` / `{ pv with schedule := … }` in `chargeVehicles`, for the
vehicles gathered from the world; the wrapper `plwStep` only shifts `etd`.  With `psRun_subConn` this makes
`SideConn false` a theorem for every sub-strategy class.
-/
import SpiceEv.Proofs.StratDistributedConnPS
import SpiceEv.Proofs.StratPeakLoadWindow
set_option linter.unusedSectionVars false
set_option linter.unusedSimpArgs false
set_option linter.unusedVariables false
namespace SpiceEv.Distrib.Conn
open SpiceEv SpiceEv.Frame SpiceEv.Distrib
variable {α B : Type} [Field α] [LinearOrder α] [IsStrictOrderedRing α]

def pkey (pv : PeakLoadWindow.PVeh α B) : String × Option String × Bool := vkey pv.v

def PK (w : PeakLoadWindow.PWorld α B) : List (String × Option String × Bool) := w.vehicles.map pkey

theorem plw_setVehicle_pk (w : PeakLoadWindow.PWorld α B) (x pv : PeakLoadWindow.PVeh α B) (hc : KeyCons (PK w))
    (hpv : pkey pv ∈ PK w) (hx : pkey x = pkey pv) : PK (w.setVehicle x) = PK w := by
  unfold PK PeakLoadWindow.PWorld.setVehicle
  simp only [List.map_map]
  apply List.map_congr_left
  intro y hy
  simp only [Function.comp]
  split
  · rename_i hid
    have hid' : y.v.id = x.v.id := by simpa using hid
    have h1 : (pkey y).1 = (pkey pv).1 := by
      rw [← hx]; exact hid'
    rw [hx]
    exact (hc (pkey y) (List.mem_map.mpr ⟨y, hy, rfl⟩) (pkey pv) hpv h1).symm
  · rfl

theorem plw_chargeVehicles_pk (ops : BatOps α B) :
    ∀ (plans : List (PeakLoadWindow.PVeh α B × α)) (surplus : α)
      (st st' : PeakLoadWindow.PWorld α B × GcS α × List (String × α)),
      KeyCons (PK st.1) → (∀ q ∈ plans, pkey q.1 ∈ PK st.1) →
      PeakLoadWindow.chargeVehicles ops plans surplus st = .ok st' → PK st'.1 = PK st.1 := by
  intro plans
  induction plans with
  | nil =>
    intro surplus st st' _ _ h
    simp only [PeakLoadWindow.chargeVehicles, Except.ok.injEq] at h
    subst h; rfl
  | cons q rest ih =>
    intro surplus st st' hc hall h
    obtain ⟨pv, planned⟩ := q
    obtain ⟨w, gc, cmds⟩ := st
    obtain ⟨csId, sched, hcs, hso, hcase⟩ :=
      PeakLoadWindow.chargeVehicles_cons ops pv planned rest surplus w gc cmds st' h
    have hpv : pkey pv ∈ PK w := hall (pv, planned) (by simp)
    rcases hcase with ⟨_, bat', p, _, hrec⟩ | ⟨_, hrec⟩
    · have e : PK (w.setVehicle { pv with v := { pv.v with bat := bat' }, schedule := some sched }) = PK w :=
        plw_setVehicle_pk w _ pv hc hpv rfl
      have := ih _ _ st' (by simp only; rw [e]; exact hc)
        (fun q hq => by simp only; rw [e]; exact hall q (List.mem_cons_of_mem _ hq)) hrec
      rw [this]; exact e
    · have e : PK (w.setVehicle { pv with schedule := some sched }) = PK w :=
        plw_setVehicle_pk w _ pv hc hpv rfl
      have := ih _ _ st' (by simp only; rw [e]; exact hc)
        (fun q hq => by simp only; rw [e]; exact hall q (List.mem_cons_of_mem _ hq)) hrec
      rw [this]; exact e

theorem plw_foldl_setBattery_vehicles (l : List (StatBatS α B)) (w : PeakLoadWindow.PWorld α B) :
    (l.foldl (fun (w : PeakLoadWindow.PWorld α B) b => w.setBattery b) w).vehicles = w.vehicles := by
  induction l generalizing w with
  | nil => rfl
  | cons x xs ih => simp only [List.foldl_cons]; rw [ih]; rfl

theorem plw_stepGc_pk (ops : BatOps α B) (law : BatLaw ops) (env : PeakLoadWindow.PEnv α)
    (w : PeakLoadWindow.PWorld α B) (g : PeakLoadWindow.PGc α) (level : String) (w' : PeakLoadWindow.PWorld α B)
    (cmds : List (String × α)) (hc : KeyCons (PK w))
    (h : PeakLoadWindow.stepGc ops env w g level = .ok (w', cmds)) : PK w' = PK w := by
  unfold PeakLoadWindow.stepGc at h
  simp only at h
  obtain ⟨r1, hg, h⟩ := PeakLoadWindow.bind_ok h
  obtain ⟨vehicles, maxStanding⟩ := r1
  obtain ⟨seasons, _, h⟩ := PeakLoadWindow.bind_ok h
  obtain ⟨r2, _, h⟩ := PeakLoadWindow.bind_ok h
  obtain ⟨ahead, untilChange⟩ := r2
  obtain ⟨r3, hp, h⟩ := PeakLoadWindow.bind_ok h
  obtain ⟨plans, timesteps, pk⟩ := r3
  obtain ⟨ts0, ht0, h⟩ := PeakLoadWindow.bind_ok h
  obtain ⟨r4, hch, h⟩ := PeakLoadWindow.bind_ok h
  obtain ⟨w1, gc1, cmds1⟩ := r4
  obtain ⟨r5, _, h⟩ := PeakLoadWindow.bind_ok h
  obtain ⟨r6, _, h⟩ := PeakLoadWindow.bind_ok h
  simp only [Except.ok.injEq, Prod.mk.injEq] at h
  obtain ⟨rfl, _⟩ := h
  have hgs := PeakLoadWindow.gatherVehicles_spec ops env w g.gc.id vehicles maxStanding hg
  obtain ⟨_, hplans⟩ := PeakLoadWindow.planVehicles_spec ops law env w (PeakLoadWindow.sumLoads env g.gc.loads)
    _ _ _ _ _ _
    (PeakLoadWindow.headGe_buildTimesteps env seasons level g.gc.id _ _ (g.gc.loads, g.gc.curMax)) hp
  have h1 : PK w1 = PK w :=
    plw_chargeVehicles_pk ops plans _ (w, g.gc, []) (w1, gc1, cmds1) hc
      (fun q hq => by
        obtain ⟨hqs, _⟩ := hplans q hq
        obtain ⟨hqw, _⟩ := hgs q.1 (PeakLoadWindow.mem_sortByKey _ _ _ hqs)
        exact List.mem_map.mpr ⟨q.1, hqw, rfl⟩) hch
  rw [← h1]
  unfold PK
  simp only [PeakLoadWindow.PWorld.setGc]
  rw [plw_foldl_setBattery_vehicles]

theorem plw_step_pk (ops : BatOps α B) (law : BatLaw ops) (env : PeakLoadWindow.PEnv α)
    (w w' : PeakLoadWindow.PWorld α B) (cmds : List (String × α)) (hc : KeyCons (PK w))
    (h : PeakLoadWindow.step ops env w = .ok (w', cmds)) : PK w' = PK w := by
  unfold PeakLoadWindow.step at h
  have key : ∀ (gs : List (PeakLoadWindow.PGc α)) (st st' : PeakLoadWindow.PWorld α B × List (String × α)),
      PK st.1 = PK w →
      gs.foldlM (fun (st : PeakLoadWindow.PWorld α B × List (String × α)) g0 =>
        match st.1.gcs.find? (·.gc.id == g0.gc.id) with
        | none => (.error .keyError : Py (PeakLoadWindow.PWorld α B × List (String × α)))
        | some g =>
          match g.level with
          | none => .error .assertion
          | some level => do
            let (w', cmds) ← PeakLoadWindow.stepGc ops env st.1 g level
            .ok (w', sdUpdate st.2 cmds)) st = .ok st' →
      PK st'.1 = PK w := by
    intro gs
    induction gs with
    | nil =>
      intro st st' hi h
      simp only [List.foldlM_nil, pure, Except.pure, Except.ok.injEq] at h
      subst h; exact hi
    | cons g0 rest ih =>
      intro st st' hi h
      simp only [List.foldlM_cons] at h
      obtain ⟨st1, h1, h⟩ := PeakLoadWindow.bind_ok h
      split at h1
      · cases h1
      · rename_i g hg
        split at h1
        · cases h1
        · rename_i level hl
          obtain ⟨r, hr, h1⟩ := PeakLoadWindow.bind_ok h1
          obtain ⟨w1, c1⟩ := r
          simp only [Except.ok.injEq] at h1
          subst h1
          have hs1 := plw_stepGc_pk ops law env st.1 g level w1 c1 (by rw [hi]; exact hc) hr
          exact ih _ _ (by simp only; rw [hs1, hi]) h
  exact key w.gcs (w, []) (w', cmds) rfl h

/-- **a peak_load_window sub-strategy returns the vehicles with their keys** -/
theorem plwRun_subConn (dops : DOps α B) (law : BatLaw dops.bat) (sub : SubStrat α) (cfg : PLWCfg α) (de : DEnv α)
    (peaks : List (String × α)) (extra : List (String × List α × Option α)) :
    SubConn false (plwRun dops sub cfg de peaks extra) := by
  intro g ss vs bs vw' cmds h hkc
  refine ⟨?_, fun hn => by cases hn⟩
  unfold plwRun plwStep at h
  simp only [bind, Except.bind, Except.map] at h
  split at h
  · cases h
  · rename_i r hr
    split at hr
    · cases hr
    · rename_i r2 hr2
      obtain ⟨pw', c2⟩ := r2
      simp only [Except.ok.injEq] at hr
      subst hr
      simp only [Except.ok.injEq, Prod.mk.injEq] at h
      obtain ⟨rfl, _⟩ := h
      have e0 : ∀ (pw : PeakLoadWindow.PWorld α B), PK pw = pw.vehicles.map (fun pv => vkey pv.v) := fun _ => rfl
      have hpk := plw_step_pk dops.bat law _ _ pw' c2 (by
        rw [e0]
        simp only [List.map_map]
        exact hkc) hr2
      rw [e0, e0] at hpk
      simp only [List.map_map] at hpk ⊢
      exact hpk

/-- **the "connected" half of the contract holds for every class of sub-strategy object** (greedy, balanced,
peak_shaving, peak_load_window) -/
theorem sideConn_false (dops : DOps α B) (law : BatLaw dops.bat) (sub : SubStrat α) (de : DEnv α) :
    SideConn false dops sub de := by
  unfold SideConn
  split
  · intro events future
    exact psRun_subConn dops sub _ de.env.now events future
  · split
    · intro peaks extra
      exact plwRun_subConn dops law sub _ de peaks extra
    · trivial

/-! ### what remains a premise for "no discharge without V2G": the booking half of the contract -/

/-- after `strat.step()` on `⟨[g], ss, vs, bs⟩` (vehicles with one key per id, premises of `SubOK`) followed by DIST2, a
station with negative power has a V2G-capable vehicle of `vs` connected to it -/
def SubNeg (run : SWorld α B → Py (SWorld α B × List (String × α))) : Prop :=
  ∀ (g : GcS α) (ss : List (StationS α)) (vs : List (VehicleS α B)) (bs : List (StatBatS α B))
    (vw' : SWorld α B) (cmds : List (String × α)), run ⟨[g], ss, vs, bs⟩ = .ok (vw', cmds) →
    KeyCons (vs.map vkey) →
    MaxOK ss → (∀ s ∈ ss, s.parent = g.id) → (∀ s ∈ ss, (sdGet g.loads s.id).getD 0 = 0) →
      (∀ s ∈ ss, ∀ b ∈ bs, s.id ≠ b.id) → NegK (vs.map vkey) (syncStations vw').stations

def SideNeg (dops : DOps α B) (sub : SubStrat α) (de : DEnv α) : Prop :=
  match sub.ps with
  | some cfg => ∀ events future, SubNeg (psRun dops sub cfg de.env.now events future)
  | none =>
    match sub.plw with
    | some cfg => ∀ peaks extra, SubNeg (plwRun dops sub cfg de peaks extra)
    | none => True

/-- the full contract from its booking half (the key half is a theorem) -/
theorem sideConn_true (dops : DOps α B) (law : BatLaw dops.bat) (sub : SubStrat α) (de : DEnv α)
    (h : SideNeg dops sub de) : SideConn true dops sub de := by
  rcases subClass sub with ⟨hps, hpl⟩ | ⟨cfg, hps⟩ | ⟨hps, cfg, hpl⟩
  · simp only [SideConn, hps, hpl]
  · simp only [SideConn, SideNeg, hps] at h ⊢
    intro events future g ss vs bs vw' cmds hrun hkc
    exact ⟨(psRun_subConn dops sub cfg de.env.now events future g ss vs bs vw' cmds hrun hkc).1,
      fun _ => h events future g ss vs bs vw' cmds hrun hkc⟩
  · simp only [SideConn, SideNeg, hps, hpl] at h ⊢
    intro peaks extra g ss vs bs vw' cmds hrun hkc
    exact ⟨(plwRun_subConn dops law sub cfg de peaks extra g ss vs bs vw' cmds hrun hkc).1,
      fun _ => h peaks extra g ss vs bs vw' cmds hrun hkc⟩

end SpiceEv.Distrib.Conn
