/-
C17 (termination) for the model of `schedule.py` (Model/StratSchedule.lean): every fuel-guarded loop ends within
an explicit bound computed from its inputs, and the whole step never answers with the model's own `FUEL` marker
when the environment's fuel parameters reach those bounds.

Main result: the variant argument for the collective retry loop `while len(vehicles) > 0`
(`charge_vehicles_during_core_standing_time`, model `csLoop`): the ranking

  rank = ((n·(R+1)/ε + 1)/ε) · max(remaining, 0)  +  Σ_{id ∈ ids} (R − last_offer.get(id, −1)) / ε  +  len(queue)

(`R` = an upper bound of `remaining_power_on_schedule` at loop entry, `n` = number of queue entries at loop entry)
falls by at least 1 in every pass: a re-queue needs `avg_power ≥ ε` (then `remaining` falls by ε; the offers may be
reset) or an offer that exceeds the vehicle's last one by more than ε (offers are bounded by `remaining ≤ R`);
every other pass shortens the queue.
-/
import SpiceEv.Proofs.StratSchedule
set_option linter.unusedSectionVars false
set_option linter.unusedSimpArgs false
set_option linter.unusedVariables false
namespace SpiceEv.Sched
open SpiceEv
variable {α B : Type} [Field α] [LinearOrder α] [IsStrictOrderedRing α]

/-- the battery's own loops terminate (C01: `C01_load_ok` / `C01_unload_ok`): no battery call answers `FUEL` -/
structure NoFuel (ops : Ops α B) : Prop where
  load : ∀ b T mp ts tp, ops.load b T mp ts tp ≠ .error .fuel
  unload : ∀ b T mp ts tp, ops.unload b T mp ts tp ≠ .error .fuel
  available : ∀ b T, ops.available b T ≠ .error .fuel

/-! ### generic: `FUEL` does not come out of a bind / fold / map whose pieces do not produce it -/

theorem bind_ne_fuel {β γ : Type} (x : Py β) (f : β → Py γ) (hx : x ≠ .error .fuel)
    (hf : ∀ a, x = .ok a → f a ≠ .error .fuel) : (x >>= f) ≠ .error .fuel := by
  cases x with
  | error e =>
    simp only [bind, Except.bind]
    intro hc; cases hc; exact hx rfl
  | ok a => exact hf a rfl

theorem foldlM_ne_fuel {β σ : Type} (f : σ → β → Py σ) (hf : ∀ s a, f s a ≠ .error .fuel) (l : List β) (s : σ) :
    l.foldlM f s ≠ .error .fuel := by
  induction l generalizing s with
  | nil => simp [List.foldlM, pure, Except.pure]
  | cons a rest ih =>
    rw [List.foldlM_cons]
    exact bind_ne_fuel _ _ (hf s a) (fun s' _ => ih s')

theorem foldlM_ne_fuel_mem {β σ : Type} (f : σ → β → Py σ) (l : List β)
    (hf : ∀ s, ∀ a ∈ l, f s a ≠ .error .fuel) (s : σ) :
    l.foldlM f s ≠ .error .fuel := by
  induction l generalizing s with
  | nil => simp [List.foldlM, pure, Except.pure]
  | cons a rest ih =>
    rw [List.foldlM_cons]
    exact bind_ne_fuel _ _ (hf s a (List.mem_cons_self ..))
      (fun s' _ => ih (fun s b hb => hf s b (List.mem_cons_of_mem _ hb)) s')

theorem mapM_ne_fuel {β γ : Type} (f : β → Py γ) (hf : ∀ a, f a ≠ .error .fuel) (l : List β) :
    l.mapM f ≠ .error .fuel := by
  induction l with
  | nil => simp [List.mapM_nil, pure, Except.pure]
  | cons a rest ih =>
    rw [List.mapM_cons]
    refine bind_ne_fuel _ _ (hf a) (fun b _ => bind_ne_fuel _ _ ih (fun bs _ => ?_))
    simp [pure, Except.pure]

/-! ### lookups never answer `FUEL` -/

theorem getGc_ne_fuel (w : SWorld α B) (id : String) : getGc w id ≠ .error .fuel := by
  unfold getGc; split <;> simp
theorem getStation_ne_fuel (w : SWorld α B) (id : String) : getStation w id ≠ .error .fuel := by
  unfold getStation; split <;> simp
theorem getVehicle_ne_fuel (w : SWorld α B) (id : String) : getVehicle w id ≠ .error .fuel := by
  unfold getVehicle; split <;> simp
theorem getGx_ne_fuel (env : Env α) (id : String) : getGx env id ≠ .error .fuel := by
  unfold getGx; split <;> simp
theorem getVx_ne_fuel (env : Env α) (id : String) : getVx env id ≠ .error .fuel := by
  unfold getVx; split <;> simp
theorem firstGcId_ne_fuel (w : SWorld α B) : firstGcId w ≠ .error .fuel := by
  unfold firstGcId; split <;> simp

/-! ### the collective retry loop -/

/-- `last_offer.get(vehicle_id, -1)` -/
def loGet (lo : List (String × α)) (id : String) : α :=
  match sdGet lo id with | some x => x | none => -1

theorem loGet_sdSet (lo : List (String × α)) (k id : String) (x : α) :
    loGet (sdSet lo k x) id = if id = k then x else loGet lo id := by
  unfold loGet
  induction lo with
  | nil =>
    simp only [sdSet, sdGet]
    by_cases h : id = k
    · subst h; simp
    · have : (k == id) = false := by simpa using (Ne.symm h)
      simp [this, h, sdGet]
  | cons kv rest ih =>
    obtain ⟨k', v'⟩ := kv
    simp only [sdSet]
    by_cases hk : (k' == k) = true
    · have hkk : k' = k := by simpa using hk
      simp only [hk, if_true, sdGet]
      by_cases h : id = k
      · subst h; subst hkk; simp
      · have : (k' == id) = false := by rw [hkk]; simpa using (Ne.symm h)
        simp only [this, h, if_false]
        rfl
    · simp only [hk, if_false, sdGet, Bool.false_eq_true]
      by_cases hid : (k' == id) = true
      · have hki : k' = id := by simpa using hid
        have : id ≠ k := by rintro rfl; exact hk (by simp [hki])
        simp [hid, this]
      · simp only [hid, if_false, Bool.false_eq_true]
        exact ih

/-- Σ_{id ∈ ids} (R − last_offer.get(id, −1)) -/
def offerRoom (R : α) (lo : List (String × α)) (ids : List String) : α :=
  (ids.map (fun id => R - loGet lo id)).sum

theorem offerRoom_nonneg (R : α) (lo : List (String × α)) (ids : List String)
    (h : ∀ id, loGet lo id ≤ R) : 0 ≤ offerRoom R lo ids := by
  unfold offerRoom
  induction ids with
  | nil => simp
  | cons a rest ih =>
    simp only [List.map_cons, List.sum_cons]
    have := h a
    linarith

/-- resetting one vehicle's last offer raises the room by at most `D` per listed id -/
theorem offerRoom_reset (R D : α) (lo lo' : List (String × α)) (ids : List String) (hD : 0 ≤ D)
    (h : ∀ id, loGet lo id - D ≤ loGet lo' id) :
    offerRoom R lo' ids ≤ offerRoom R lo ids + (ids.length : α) * D := by
  unfold offerRoom
  induction ids with
  | nil => simp
  | cons a rest ih =>
    simp only [List.map_cons, List.sum_cons, List.length_cons, Nat.cast_add, Nat.cast_one]
    have := h a
    nlinarith [ih]

/-- a strictly larger offer for a listed vehicle lowers the room by at least `d` -/
theorem offerRoom_raise (R d : α) (lo lo' : List (String × α)) (ids : List String) (k : String)
    (hk : k ∈ ids) (hd : 0 ≤ d) (hmono : ∀ id, loGet lo id ≤ loGet lo' id)
    (hstrict : loGet lo k + d ≤ loGet lo' k) :
    offerRoom R lo' ids + d ≤ offerRoom R lo ids := by
  unfold offerRoom
  induction ids with
  | nil => cases hk
  | cons a rest ih =>
    simp only [List.map_cons, List.sum_cons]
    have hrest : (rest.map (fun id => R - loGet lo' id)).sum ≤ (rest.map (fun id => R - loGet lo id)).sum := by
      clear ih hk
      induction rest with
      | nil => simp
      | cons b r ihr =>
        simp only [List.map_cons, List.sum_cons]
        have := hmono b
        linarith
    rcases List.mem_cons.mp hk with rfl | hk'
    · linarith
    · have := ih hk'
      have := hmono a
      linarith

/-- the ranking function of the retry loop -/
def csRank (eps R : α) (ids : List String) (rem : α) (lo : List (String × α)) (qlen : Nat) : α :=
  (((ids.length : α) * (R + 1) / eps + 1) / eps) * max rem 0 + offerRoom R lo ids / eps + (qlen : α)

/-- **The retry loop ends**: `fuel ≥ rank` passes suffice. Invariants: every queued id is listed in `ids`,
`remaining ≤ R`, every recorded offer lies in `[−1, R]`. -/
theorem csLoop_ne_fuel (ops : Ops α B) (law : Law ops) (hnf : NoFuel ops) (env : Env α) (heps : 0 < env.eps)
    (fraction : α) (nVeh : Nat) (gid : String) (ids : List String) (R : α) (hR : 0 ≤ R) :
    ∀ (fuel i : Nat) (q lo : List (String × α)) (extra rem : α) (w : SWorld α B) (cmds : List (String × α)),
      (∀ e ∈ q, e.1 ∈ ids) → rem ≤ R → (∀ id, -1 ≤ loGet lo id ∧ loGet lo id ≤ R) →
      csRank env.eps R ids rem lo q.length ≤ (fuel : α) →
      csLoop ops env fraction nVeh gid fuel i q lo extra rem w cmds ≠ .error .fuel := by
  intro fuel
  induction fuel with
  | zero =>
    intro i q lo extra rem w cmds hq hrem hlo hrank
    cases q with
    | nil => simp [csLoop]
    | cons e q =>
      exfalso
      have h1 : 0 ≤ offerRoom R lo ids / env.eps :=
        div_nonneg (offerRoom_nonneg R lo ids (fun id => (hlo id).2)) heps.le
      have hK : 0 ≤ ((ids.length : α) * (R + 1) / env.eps + 1) / env.eps := by positivity
      have h2 : 0 ≤ (((ids.length : α) * (R + 1) / env.eps + 1) / env.eps) * max rem 0 :=
        mul_nonneg hK (le_max_right _ _)
      unfold csRank at hrank
      simp only [List.length_cons, Nat.cast_add, Nat.cast_one, Nat.cast_zero] at hrank
      have : (0 : α) ≤ (q.length : α) := Nat.cast_nonneg _
      linarith
  | succ f ih =>
    intro i q lo extra rem w cmds hq hrem hlo hrank
    cases q with
    | nil => simp [csLoop]
    | cons e q =>
      obtain ⟨vid, en⟩ := e
      have hvid : vid ∈ ids := hq (vid, en) (List.mem_cons_self ..)
      have hq' : ∀ e ∈ q, e.1 ∈ ids := fun e he => hq e (List.mem_cons_of_mem _ he)
      -- constants of the ranking
      set N : α := (ids.length : α) with hN
      have hN0 : 0 ≤ N := Nat.cast_nonneg _
      set K : α := N * (R + 1) / env.eps with hKdef
      have hK0 : 0 ≤ K := by positivity
      have hroom0 : ∀ lo' : List (String × α), (∀ id, loGet lo' id ≤ R) → 0 ≤ offerRoom R lo' ids :=
        fun lo' h => offerRoom_nonneg R lo' ids h
      have hrank' : (K + 1) / env.eps * max rem 0 + offerRoom R lo ids / env.eps + ((q.length : α) + 1)
          ≤ (f : α) + 1 := by
        have := hrank
        unfold csRank at this
        simpa only [List.length_cons, Nat.cast_add, Nat.cast_one] using this
      -- a pass that keeps `lo` and does not raise `rem` and shortens the queue
      have hshort : ∀ (rem' : α), rem' ≤ rem →
          csRank env.eps R ids rem' lo q.length ≤ (f : α) := by
        intro rem' hr
        unfold csRank
        have hc : 0 ≤ (K + 1) / env.eps := by positivity
        have : max rem' 0 ≤ max rem 0 := max_le_max hr (le_refl _)
        have := mul_le_mul_of_nonneg_left this hc
        linarith
      rw [csLoop]
      split
      · rename_i e he; intro hc; cases hc; exact getVehicle_ne_fuel w vid he
      · rename_i v hv
        split
        · exact ih (i + 1) q lo extra rem w cmds hq' hrem hlo (hshort rem (le_refl _))
        · rename_i csId hcs
          split
          · rename_i e he; intro hc; cases hc; exact getStation_ne_fuel w csId he
          · rename_i cs hst
            split
            · rename_i e he; intro hc; cases hc; exact getGc_ne_fuel w gid he
            · rename_i gc hgc
              dsimp only
              split
              · rename_i e he; intro hc; cases hc; exact hnf.load _ _ _ _ _ he
              · rename_i r hl
                obtain ⟨bat', avg, sd⟩ := r
                simp only
                obtain ⟨havg0, havgle⟩ := law.load_target _ _ _ _ _ _ hl
                set alloc : α := fraction * en * env.tsPerHour + extra with halloc
                set offered : α := pymin rem alloc with hoff
                have hoffrem : offered ≤ rem := by rw [hoff, pymin_eq]; exact min_le_left _ _
                have hclamp : clampV cs v offered ≤ max 0 offered := (clampPower_bounds _ _ _ _ _).2
                split
                · simp
                · rename_i hcont
                  have hcont' : env.eps ≤ rem - avg := not_lt.mp hcont
                  have hrempos : 0 < rem := by linarith
                  have hrem'pos : 0 < rem - avg := by linarith
                  split
                  · simp
                  · split
                    · -- re-queue
                      rename_i hretry
                      unfold csRetry at hretry
                      simp only [decide_eq_true_eq] at hretry
                      obtain ⟨-, -, -, -, hAB⟩ := hretry
                      have hmem : ∀ e ∈ q ++ [(vid, en)], e.1 ∈ ids := by
                        intro e he
                        rcases List.mem_append.mp he with h | h
                        · exact hq' e h
                        · simp only [List.mem_singleton] at h; subst h; exact hvid
                      have hlen : (q ++ [(vid, en)]).length = q.length + 1 := by simp
                      have hlo'val : ∀ id, loGet (sdSet lo vid offered) id = if id = vid then offered else loGet lo id :=
                        fun id => loGet_sdSet lo vid id offered
                      have hmaxrem : max rem 0 = rem := max_eq_left hrempos.le
                      have hmaxrem' : max (rem - avg) 0 = rem - avg := max_eq_left hrem'pos.le
                      by_cases hA : env.eps ≤ avg
                      · -- type A: at least EPS was charged
                        have hoffpos : avg ≤ offered := by
                          have h1 : avg ≤ max (clampV cs v offered) 0 := havgle
                          have h2 : max (clampV cs v offered) 0 ≤ max 0 offered :=
                            max_le hclamp (le_max_left _ _)
                          have h3 : avg ≤ max 0 offered := le_trans h1 h2
                          rcases le_total offered 0 with h0 | h0
                          · rw [max_eq_left h0] at h3; linarith
                          · rw [max_eq_right h0] at h3; exact h3
                        have hinv : ∀ id, -1 ≤ loGet (sdSet lo vid offered) id ∧
                            loGet (sdSet lo vid offered) id ≤ R := by
                          intro id
                          rw [hlo'val]
                          split
                          · exact ⟨by linarith, by linarith⟩
                          · exact hlo id
                        have hreset : offerRoom R (sdSet lo vid offered) ids ≤
                            offerRoom R lo ids + N * (R + 1) := by
                          apply offerRoom_reset R (R + 1) lo _ ids (by linarith)
                          intro id
                          rw [hlo'val]
                          split
                          · have := (hlo id).2; linarith
                          · linarith
                        apply ih (i + 1) _ _ _ _ _ _ hmem (by linarith) hinv
                        unfold csRank
                        rw [hlen, hmaxrem']
                        rw [hmaxrem] at hrank'
                        have hdiv : offerRoom R (sdSet lo vid offered) ids / env.eps ≤
                            offerRoom R lo ids / env.eps + K := by
                          rw [hKdef, ← add_div]
                          exact div_le_div_of_nonneg_right hreset heps.le
                        have hmul : (K + 1) / env.eps * (rem - avg) ≤ (K + 1) / env.eps * rem - (K + 1) := by
                          have hc : 0 ≤ (K + 1) / env.eps := by positivity
                          have h1 : (K + 1) / env.eps * (rem - avg) ≤ (K + 1) / env.eps * (rem - env.eps) :=
                            mul_le_mul_of_nonneg_left (by linarith) hc
                          have h2 : (K + 1) / env.eps * (rem - env.eps) = (K + 1) / env.eps * rem - (K + 1) := by
                            field_simp
                          linarith
                        push_cast
                        linarith
                      · -- type B: nothing charged, but the offer grew by more than EPS
                        have hB : loGet lo vid + env.eps < offered := by
                          rcases hAB with h | h
                          · exact absurd h hA
                          · exact h
                        have hinv : ∀ id, -1 ≤ loGet (sdSet lo vid offered) id ∧
                            loGet (sdSet lo vid offered) id ≤ R := by
                          intro id
                          rw [hlo'val]
                          split
                          · have := (hlo vid).1
                            exact ⟨by linarith, by linarith⟩
                          · exact hlo id
                        have hraise : offerRoom R (sdSet lo vid offered) ids + env.eps ≤ offerRoom R lo ids := by
                          apply offerRoom_raise R env.eps lo _ ids vid hvid heps.le
                          · intro id
                            rw [hlo'val]
                            split
                            · rename_i h; subst h; linarith
                            · exact le_refl _
                          · rw [hlo'val]; simp only [if_true]; linarith
                        apply ih (i + 1) _ _ _ _ _ _ hmem (by linarith) hinv
                        unfold csRank
                        rw [hlen, hmaxrem']
                        rw [hmaxrem] at hrank'
                        have hdiv : offerRoom R (sdSet lo vid offered) ids / env.eps + 1 ≤
                            offerRoom R lo ids / env.eps := by
                          have : (offerRoom R (sdSet lo vid offered) ids + env.eps) / env.eps ≤
                              offerRoom R lo ids / env.eps := div_le_div_of_nonneg_right hraise heps.le
                          rw [add_div, div_self heps.ne'] at this
                          exact this
                        have hmul : (K + 1) / env.eps * (rem - avg) ≤ (K + 1) / env.eps * rem := by
                          have hc : 0 ≤ (K + 1) / env.eps := by positivity
                          exact mul_le_mul_of_nonneg_left (by linarith) hc
                        push_cast
                        linarith
                    · exact ih (i + 1) q lo _ _ _ _ hq' (by linarith) hlo (hshort _ (by linarith))

/-! ### "never `FUEL`, and the result keeps an invariant" -/

/-- `x` is not the model's `FUEL` marker, and an `.ok` result satisfies `P` -/
def NFI {σ : Type} (P : σ → Prop) (x : Py σ) : Prop := x ≠ .error .fuel ∧ ∀ r, x = .ok r → P r

theorem nfi_ok {σ : Type} {P : σ → Prop} {r : σ} (h : P r) : NFI P (.ok r) :=
  ⟨by simp, fun r' h' => by cases h'; exact h⟩

theorem nfi_error {σ : Type} {P : σ → Prop} {e : PyErr} (h : e ≠ .fuel) : NFI P (.error e : Py σ) :=
  ⟨fun hc => by cases hc; exact h rfl, fun r h' => by cases h'⟩

theorem nfi_err {σ β : Type} {P : σ → Prop} {x : Py β} {e : PyErr} (hx : x ≠ .error .fuel)
    (he : x = .error e) : NFI P (.error e : Py σ) :=
  nfi_error (fun h => hx (by rw [he, h]))

theorem NFI.bind {β γ : Type} {P : β → Prop} {Q : γ → Prop} {x : Py β} {f : β → Py γ} (hx : NFI P x)
    (hf : ∀ a, P a → NFI Q (f a)) : NFI Q (x >>= f) := by
  cases x with
  | error e => exact nfi_error (fun h => hx.1 (by rw [h]))
  | ok a => exact hf a (hx.2 a rfl)

theorem NFI.mono {σ : Type} {P Q : σ → Prop} {x : Py σ} (h : NFI P x) (hpq : ∀ r, P r → Q r) : NFI Q x :=
  ⟨h.1, fun r hr => hpq r (h.2 r hr)⟩

theorem nfi_of_ne {σ : Type} {x : Py σ} (h : x ≠ .error .fuel) : NFI (fun _ => True) x := ⟨h, fun _ _ => trivial⟩

theorem nfi_foldlM {β σ : Type} (P : σ → Prop) (f : σ → β → Py σ) (l : List β)
    (hf : ∀ s, ∀ a ∈ l, P s → NFI P (f s a)) (s : σ) (hs : P s) : NFI P (l.foldlM f s) := by
  induction l generalizing s with
  | nil => exact nfi_ok hs
  | cons a rest ih =>
    rw [List.foldlM_cons]
    exact NFI.bind (hf s a (List.mem_cons_self ..) hs)
      (fun s' hs' => ih (fun s b hb => hf s b (List.mem_cons_of_mem _ hb)) s' hs')

/-! ### the part of the world the step never changes -/

/-- station maxima, vehicle minimum powers and discharge limits are within what the bisection fuel covers
(`E = ε·2^fuel` in the theorems) -/
def Static (E : α) (w : SWorld α B) : Prop :=
  (∀ s ∈ w.stations, s.maxPower ≤ E) ∧ (∀ v ∈ w.vehicles, 0 ≤ v.minChargingPower ∧ 1 - v.dischargeLimit ≤ E)

theorem static_reset (E : α) (w : SWorld α B) (h : Static E w) : Static E (resetStations w) := by
  refine ⟨fun s hs => ?_, h.2⟩
  unfold resetStations at hs
  simp only [List.mem_map] at hs
  obtain ⟨x, hx, rfl⟩ := hs
  exact h.1 x hx

theorem static_setGc (E : α) (w : SWorld α B) (g : GcS α) (h : Static E w) : Static E (w.setGc g) := h
theorem static_setBattery (E : α) (w : SWorld α B) (b : StatBatS α B) (h : Static E w) :
    Static E (w.setBattery b) := h

theorem static_setVehicle (E : α) (w : SWorld α B) (v : VehicleS α B) (h : Static E w)
    (hv : 0 ≤ v.minChargingPower ∧ 1 - v.dischargeLimit ≤ E) : Static E (w.setVehicle v) := by
  refine ⟨h.1, fun u hu => ?_⟩
  unfold SWorld.setVehicle at hu
  simp only [List.mem_map] at hu
  obtain ⟨x, hx, rfl⟩ := hu
  split
  · exact hv
  · exact h.2 x hx

theorem static_setStation (E : α) (w : SWorld α B) (s : StationS α) (h : Static E w)
    (hs : s.maxPower ≤ E) : Static E (w.setStation s) := by
  refine ⟨fun u hu => ?_, h.2⟩
  unfold SWorld.setStation at hu
  simp only [List.mem_map] at hu
  obtain ⟨x, hx, rfl⟩ := hu
  split
  · exact hs
  · exact h.1 x hx

theorem static_commit (E : α) (w : SWorld α B) (cmds : List (String × α)) (v : VehicleS α B) (bat' : B)
    (cs : StationS α) (gc : GcS α) (csId : String) (avg : α) (hv : v ∈ w.vehicles) (hcs : cs ∈ w.stations)
    (h : Static E w) : Static E (commit w cmds v bat' cs gc csId avg).1 := by
  unfold commit
  exact static_setStation E _ _ (static_setGc E _ _ (static_setVehicle E w _ h (h.2 v hv))) (h.1 cs hcs)

/-! ### individual mode -/

theorem simSchedule_ne_fuel (ops : Ops α B) (hnf : NoFuel ops) (env : Env α) (cs : StationS α)
    (v : VehicleS α B) (add : Option α) (schedule : List α) (bat : B) :
    simSchedule ops env cs v add schedule bat ≠ .error .fuel := by
  unfold simSchedule
  apply foldlM_ne_fuel
  intro b s
  exact bind_ne_fuel _ _ (hnf.load _ _ _ _ _) (fun _ _ => by simp [pure, Except.pure])

theorem indAddDecide_ne_fuel (ops : Ops α B) (hnf : NoFuel ops) (env : Env α) (heps : 0 < env.eps)
    (prev : Option α) (cs : StationS α) (gc : GcS α) (v : VehicleS α B) (schedule : List α) (bat1 : B)
    (hw : cs.maxPower ≤ env.eps * 2 ^ env.fuel) :
    indAddDecide ops env prev cs gc v schedule bat1 ≠ .error .fuel := by
  unfold indAddDecide
  split
  · simp
  · split
    · simp
    · split
      · simp
      · split
        · simp
        · split
          · rename_i e he
            intro hc; cases hc
            rcases bisectM_no_fuel_error _ env.eps heps env.fuel 0 cs.maxPower none (by simpa using hw) with h | ⟨a, ha⟩
            · exact h he
            · split at ha
              · rename_i e' he'
                cases ha
                exact simSchedule_ne_fuel ops hnf env cs v (some a) schedule v.bat he'
              · cases ha
          · simp
          · simp

theorem indAdd_ne_fuel (ops : Ops α B) (hnf : NoFuel ops) (env : Env α) (heps : 0 < env.eps)
    (hint : 0 < env.interval) (prev : Option α) (cs : StationS α) (gc : GcS α) (v : VehicleS α B) (sched : α)
    (hw : cs.maxPower ≤ env.eps * 2 ^ env.fuel) :
    indAdd ops env prev cs gc v sched ≠ .error .fuel := by
  unfold indAdd
  split
  · rename_i e he; intro hc; cases hc; exact indSchedule_no_fuel env hint v sched he
  · split
    · rename_i e he; intro hc; cases hc; exact simSchedule_ne_fuel ops hnf env cs v none _ v.bat he
    · exact indAddDecide_ne_fuel ops hnf env heps prev cs gc v _ _ hw

theorem indVehicle_nfi (ops : Ops α B) (hnf : NoFuel ops) (env : Env α) (heps : 0 < env.eps)
    (hint : 0 < env.interval) (st : SWorld α B × List (String × α) × Option α) (v0 : VehicleS α B)
    (hs : Static (env.eps * 2 ^ env.fuel) st.1) :
    NFI (fun r => Static (env.eps * 2 ^ env.fuel) r.1) (indVehicle ops env st v0) := by
  unfold indVehicle
  split
  · exact nfi_ok hs
  · rename_i v hv
    have hvm : v ∈ st.1.vehicles := List.mem_of_find?_eq_some hv
    split
    · exact nfi_ok hs
    · rename_i csId hcs
      split
      · rename_i e he; exact nfi_err (getStation_ne_fuel _ _) he
      · rename_i cs hst
        have hcm := (getStation_ok _ _ _ hst).1
        split
        · rename_i e he; exact nfi_err (getGc_ne_fuel _ _) he
        · rename_i gc hgc
          split
          · rename_i e he; exact nfi_err (getVx_ne_fuel _ _) he
          · split
            · exact nfi_error (by simp)
            · rename_i sched hsched
              split
              · rename_i e he
                exact nfi_err (indAdd_ne_fuel ops hnf env heps hint st.2.2 cs gc v sched (hs.1 cs hcm)) he
              · exact nfi_error (by simp)
              · dsimp only
                split
                · rename_i e he; exact nfi_err (hnf.load _ _ _ _ _) he
                · exact nfi_ok (static_commit _ st.1 st.2.1 v _ cs gc csId _ hvm hcm hs)

theorem chargeIndividually_nfi (ops : Ops α B) (hnf : NoFuel ops) (env : Env α) (heps : 0 < env.eps)
    (hint : 0 < env.interval) (w : SWorld α B) (hs : Static (env.eps * 2 ^ env.fuel) w) :
    NFI (fun r => Static (env.eps * 2 ^ env.fuel) r.1) (chargeIndividually ops env w) := by
  unfold chargeIndividually
  refine NFI.bind (P := fun r => Static (env.eps * 2 ^ env.fuel) r.1) ?_ (fun r hr => nfi_ok hr)
  exact nfi_foldlM _ _ _ (fun s a _ hs' => indVehicle_nfi ops hnf env heps hint s a hs') _ hs

/-! ### stationary batteries -/

theorem utilBattery_ne_fuel (ops : Ops α B) (hnf : NoFuel ops) (env : Env α) (w : SWorld α B)
    (b0 : StatBatS α B) : utilBattery ops env w b0 ≠ .error .fuel := by
  unfold utilBattery
  split
  · simp
  · split
    · rename_i e he; intro hc; cases hc; exact getGc_ne_fuel _ _ he
    · split
      · rename_i e he; intro hc; cases hc; exact getGx_ne_fuel _ _ he
      · split
        · simp
        · dsimp only
          split
          · split
            · rename_i e he; intro hc; cases hc; exact hnf.unload _ _ _ _ _ he
            · simp
          · split
            · split
              · rename_i e he; intro hc; cases hc; exact hnf.load _ _ _ _ _ he
              · simp
            · simp

theorem utilizeBatteries_ne_fuel (ops : Ops α B) (hnf : NoFuel ops) (env : Env α) (w : SWorld α B) :
    utilizeBatteries ops env w ≠ .error .fuel := by
  unfold utilizeBatteries
  exact foldlM_ne_fuel _ (fun s a => utilBattery_ne_fuel ops hnf env s a) _ _

/-! ### collective mode: forecast -/

theorem pyIndex_ne_fuel {β : Type} (l : List β) (i : Int) : pyIndex l i ≠ .error .fuel := by
  unfold pyIndex
  dsimp only
  repeat' split
  all_goals simp

theorem fdiv_ne_fuel (a b : α) : fdiv a b ≠ .error .fuel := by
  unfold fdiv; split <;> simp

theorem avgFixedLoad_ne_fuel (tbl : Option (List (List α))) (t : DateTime) (interval : Int) :
    avgFixedLoad tbl t interval ≠ .error .fuel := by
  unfold avgFixedLoad
  split
  · simp
  · exact bind_ne_fuel _ _ (pyIndex_ne_fuel _ _) (fun _ _ => pyIndex_ne_fuel _ _)

theorem cfLoop_ne_fuel (tbl : Option (List (List α))) (interval : Int) (n : Nat) (t : DateTime)
    (evs : List (FutureEvent α)) (prev : GcInfo α) : cfLoop tbl interval n t evs prev ≠ .error .fuel := by
  induction n generalizing t evs prev with
  | zero => simp [cfLoop]
  | succ n ih =>
    rw [cfLoop]
    refine bind_ne_fuel _ _ (avgFixedLoad_ne_fuel _ _ _) (fun fl _ => ?_)
    dsimp only
    exact bind_ne_fuel _ _ (ih _ _ _) (fun _ _ => by simp)

theorem collectFuture_ne_fuel (env : Env α) (x : GcX α) (dt : Int) : collectFuture env x dt ≠ .error .fuel := by
  unfold collectFuture
  dsimp only
  split
  · simp
  · exact cfLoop_ne_fuel _ _ _ _ _ _

/-- `sim_balanced_charging`: the bracket `[max(v_min, cs_min), clamp(min(max_power, curve_max))]` is at most
`max(curve_max, 0)` wide when the vehicle's minimum power is not negative -/
theorem simBalanced_aux (ops : Ops α B) (hnf : NoFuel ops) (env : Env α) (heps : 0 < env.eps)
    (cs : StationS α) (v : VehicleS α B) (x : VehX α) (dt : Int) (maxPower delta : α)
    (hv : 0 ≤ v.minChargingPower) (hx : x.curveMax ≤ env.eps * 2 ^ env.fuel) :
    (if env.eps < delta then
      sbLoop ops env v.bat dt delta env.fuel 0 false (pymax v.minChargingPower cs.minPower)
        (clampV cs v (pymin maxPower x.curveMax)) 0
     else .ok 0) ≠ .error .fuel := by
  split
  · have hE : 0 ≤ env.eps * 2 ^ env.fuel := by positivity
    have hw : clampV cs v (pymin maxPower x.curveMax) - pymax v.minChargingPower cs.minPower ≤
        env.eps * 2 ^ env.fuel := by
      have h1 := (clampV_le cs v (pymin maxPower x.curveMax)).2
      have h2 : pymin maxPower x.curveMax ≤ x.curveMax := by rw [pymin_eq]; exact min_le_right _ _
      have h3 : v.minChargingPower ≤ pymax v.minChargingPower cs.minPower := by rw [pymax_eq]; exact le_max_left _ _
      have h4 : max (pymin maxPower x.curveMax) 0 ≤ env.eps * 2 ^ env.fuel := max_le (by linarith) hE
      linarith
    rcases sbLoop_no_fuel ops env heps v.bat dt delta
      env.fuel 0 false (pymax v.minChargingPower cs.minPower) (clampV cs v (pymin maxPower x.curveMax)) 0 hw with h | ⟨p, hp⟩
    · exact h
    · exact absurd hp (hnf.load _ _ _ _ _)
  · simp

theorem simBalanced_ne_fuel (ops : Ops α B) (hnf : NoFuel ops) (env : Env α) (heps : 0 < env.eps)
    (cs : StationS α) (v : VehicleS α B) (x : VehX α) (dt : Int) (maxPower : α) (deltaSoc : Option α)
    (hv : 0 ≤ v.minChargingPower) (hx : x.curveMax ≤ env.eps * 2 ^ env.fuel) :
    simBalanced ops env cs v x dt maxPower deltaSoc ≠ .error .fuel := by
  unfold simBalanced
  exact simBalanced_aux ops hnf env heps cs v x dt maxPower _ hv hx

theorem sdSet_length_le {β : Type} (l : List (String × β)) (k : String) (x : β) :
    (sdSet l k x).length ≤ l.length + 1 := by
  induction l with
  | nil => simp [sdSet]
  | cons kv rest ih =>
    obtain ⟨k', v'⟩ := kv
    simp only [sdSet]
    split
    · simp
    · simp only [List.length_cons]; omega

/-- the `energy_needed_per_vehicle` dict built by the evaluation has at most one entry per vehicle -/
theorem needFold_length (ops : Ops α B) (env : Env α) (vs : List (VehicleS α B)) (acc r : List (String × α) × α)
    (h : vs.foldlM (fun (acc : List (String × α) × α) v => do
      let delta := v.desiredSoc - ops.soc v.bat
      let e ← if env.eps < delta then fdiv (delta * ops.capacity v.bat) (ops.efficiency v.bat)
              else pure 0
      pure (sdSet acc.1 v.id e, acc.2 + e)) acc = .ok r) :
    r.1.length ≤ acc.1.length + vs.length := by
  induction vs generalizing acc with
  | nil =>
    simp only [List.foldlM_nil, pure, Except.pure, Except.ok.injEq] at h
    subst h; simp
  | cons v rest ih =>
    rw [List.foldlM_cons] at h
    simp only [bind, Except.bind] at h
    split at h
    · cases h
    · rename_i acc' hacc
      have := ih acc' h
      have hl : acc'.1.length ≤ acc.1.length + 1 := by
        split at hacc
        all_goals (try split at hacc)
        all_goals first
          | (simp only [pure, Except.pure, Except.ok.injEq] at hacc; subst hacc; exact sdSet_length_le _ _ _)
          | cases hacc
      simp only [List.length_cons]
      omega

theorem evaluate_nfi (ops : Ops α B) (hnf : NoFuel ops) (env : Env α) (w : SWorld α B) (st : CState α)
    (hdt : dtToEnd env ≠ .error .fuel) :
    NFI (fun st' => st'.energyNeeded.length ≤ w.vehicles.length) (evaluate ops env w st) := by
  unfold evaluate
  refine NFI.bind (nfi_of_ne hdt) (fun dtEnd _ => ?_)
  dsimp only
  refine NFI.bind (nfi_of_ne (firstGcId_ne_fuel _)) (fun gid _ => ?_)
  refine NFI.bind (nfi_of_ne (getGx_ne_fuel _ _)) (fun x _ => ?_)
  refine NFI.bind (nfi_of_ne (collectFuture_ne_fuel _ _ _)) (fun infos _ => ?_)
  refine NFI.bind (nfi_of_ne (mapM_ne_fuel _ (fun a => by split <;> simp) _)) (fun ppt _ => ?_)
  try dsimp only
  refine NFI.bind (P := fun nt => nt.1.length ≤ w.vehicles.length) ⟨?_, fun nt hnt => ?_⟩ (fun nt hnt => ?_)
  · apply foldlM_ne_fuel
    intro acc v
    split
    · exact bind_ne_fuel _ _ (fdiv_ne_fuel _ _) (fun _ _ => by simp [pure, Except.pure])
    · simp [pure, Except.pure, bind, Except.bind]
  · have := needFold_length ops env w.vehicles ([], 0) nt hnt
    simpa using this
  · refine NFI.bind (P := fun _ => True) (nfi_of_ne ?_) (fun extra _ => ?_)
    · apply foldlM_ne_fuel
      intro ex v
      split
      · split <;> simp
      · refine bind_ne_fuel _ _ (getStation_ne_fuel _ _) (fun cs _ => ?_)
        refine bind_ne_fuel _ _ (getVx_ne_fuel _ _) (fun vx _ => ?_)
        try dsimp only
        exact bind_ne_fuel _ _ (hnf.load _ _ _ _ _) (fun _ _ => by simp [pure, Except.pure])
    · try dsimp only
      split
      · exact nfi_error (by simp)
      · exact nfi_ok hnt

/-! ### collective mode: the excess branch -/

theorem excessVehicle_nfi (ops : Ops α B) (hnf : NoFuel ops) (env : Env α) (heps : 0 < env.eps) (dt : Int)
    (hvx : ∀ id x, getVx env id = .ok x → x.curveMax ≤ env.eps * 2 ^ env.fuel)
    (st : SWorld α B × List (String × α) × List (String × α)) (kv : String × α)
    (hs : Static (env.eps * 2 ^ env.fuel) st.1) :
    NFI (fun r => Static (env.eps * 2 ^ env.fuel) r.1) (excessVehicle ops env dt st kv) := by
  unfold excessVehicle
  refine NFI.bind (P := fun v => v ∈ st.1.vehicles)
    ⟨getVehicle_ne_fuel _ _, fun v hv => getVehicle_ok _ _ _ hv⟩ (fun v hvm => ?_)
  split
  · exact nfi_ok hs
  · rename_i csId hcs
    refine NFI.bind (P := fun cs => cs ∈ st.1.stations)
      ⟨getStation_ne_fuel _ _, fun cs hc => (getStation_ok _ _ _ hc).1⟩ (fun cs hcm => ?_)
    refine NFI.bind (nfi_of_ne (getGc_ne_fuel _ _)) (fun gc _ => ?_)
    refine NFI.bind (P := fun x => x.curveMax ≤ env.eps * 2 ^ env.fuel)
      ⟨getVx_ne_fuel _ _, fun x hx => hvx _ x hx⟩ (fun x hx => ?_)
    refine NFI.bind (nfi_of_ne (simBalanced_ne_fuel ops hnf env heps cs v x dt _ _ (hs.2 v hvm).1 hx)) (fun power _ => ?_)
    refine NFI.bind (nfi_of_ne (hnf.load _ _ _ _ _)) (fun r _ => ?_)
    dsimp only
    exact nfi_ok (static_commit _ st.1 st.2.2 v _ cs gc csId _ hvm hcm hs)

theorem dcExcess_nfi (ops : Ops α B) (hnf : NoFuel ops) (env : Env α) (heps : 0 < env.eps)
    (hvx : ∀ id x, getVx env id = .ok x → x.curveMax ≤ env.eps * 2 ^ env.fuel)
    (w : SWorld α B) (st : CState α) (dtEnd : Int) (tsCharge : Nat)
    (hs : Static (env.eps * 2 ^ env.fuel) w) :
    NFI (fun r => Static (env.eps * 2 ^ env.fuel) r.1) (dcExcess ops env w st dtEnd tsCharge) := by
  unfold dcExcess
  dsimp only
  have := nfi_foldlM (fun (r : SWorld α B × List (String × α) × List (String × α)) =>
      Static (env.eps * 2 ^ env.fuel) r.1)
    (excessVehicle ops env (dtEnd - (tsCharge : Int) * env.interval)) st.extraEnergy
    (fun s a _ hs' => excessVehicle_nfi ops hnf env heps _ hvx s a hs') (w, st.extraEnergy, []) hs
  split
  · rename_i e he; exact nfi_err this.1 he
  · rename_i r hr; exact nfi_ok (this.2 r hr)

/-! ### collective mode: the on-schedule branch -/

theorem csLoop_static (ops : Ops α B) (env : Env α) (fraction : α) (nVeh : Nat) (gid : String) (E : α) :
    ∀ (fuel i : Nat) (q lo : List (String × α)) (extra rem : α) (w : SWorld α B) (cmds : List (String × α))
      (r : SWorld α B × List (String × α)), Static E w →
      csLoop ops env fraction nVeh gid fuel i q lo extra rem w cmds = .ok r → Static E r.1 := by
  intro fuel
  induction fuel with
  | zero =>
    intro i q lo extra rem w cmds r hs h
    cases q with
    | nil => simp only [csLoop, Except.ok.injEq] at h; subst h; exact hs
    | cons e q => simp [csLoop] at h
  | succ f ih =>
    intro i q lo extra rem w cmds r hs h
    cases q with
    | nil => simp only [csLoop, Except.ok.injEq] at h; subst h; exact hs
    | cons e q =>
      obtain ⟨vid, en⟩ := e
      rw [csLoop] at h
      split at h
      · cases h
      · rename_i v hv
        have hvm := getVehicle_ok _ _ _ hv
        split at h
        · exact ih _ _ _ _ _ _ _ _ hs h
        · rename_i csId hcsid
          split at h
          · cases h
          · rename_i cs hst
            have hcm := (getStation_ok _ _ _ hst).1
            split at h
            · cases h
            · rename_i gc hgc
              dsimp only at h
              split at h
              · cases h
              · rename_i r' hl
                have hs' := static_commit E w cmds v r'.1 cs gc csId r'.2.1 hvm hcm hs
                split at h
                · simp only [Except.ok.injEq] at h; subst h; exact hs'
                · split at h
                  · simp only [Except.ok.injEq] at h; subst h; exact hs'
                  · split at h
                    · exact ih _ _ _ _ _ _ _ _ hs' h
                    · exact ih _ _ _ _ _ _ _ _ hs' h

/-- the ranking at loop entry (empty `last_offer`) is at most `(n·M + 1)·A + n·M + n` when
`remaining ≤ R ≤ ε·A`, `R + 1 ≤ ε·M` and the queue has at most `n` entries -/
theorem csRank_init_le (eps R rem : α) (heps : 0 < eps) (hR : 0 ≤ R) (ids : List String) (n A M : Nat)
    (hn : ids.length ≤ n) (hrem : rem ≤ R) (hA : R ≤ eps * A) (hM : R + 1 ≤ eps * M) :
    csRank eps R ids rem [] ids.length ≤ (((n * M + 1) * A + n * M + n : Nat) : α) := by
  have hroom : offerRoom R ([] : List (String × α)) ids = (ids.length : α) * (R + 1) := by
    unfold offerRoom
    induction ids with
    | nil => simp
    | cons a rest ih =>
      have hn' : rest.length ≤ n := by simp only [List.length_cons] at hn; omega
      simp only [List.map_cons, List.sum_cons, List.length_cons, Nat.cast_add, Nat.cast_one]
      rw [ih hn']
      simp only [loGet, sdGet]
      ring
  unfold csRank
  rw [hroom]
  have hNn' : (ids.length : α) ≤ (n : α) := by exact_mod_cast hn
  set N : α := (ids.length : α)
  have hN0 : 0 ≤ N := Nat.cast_nonneg _
  have hNn : N ≤ (n : α) := hNn'
  have h1 : (R + 1) / eps ≤ (M : α) := by rw [div_le_iff₀ heps]; linarith
  have h1' : 0 ≤ (R + 1) / eps := by positivity
  have h2 : max rem 0 / eps ≤ (A : α) := by
    rw [div_le_iff₀ heps]
    exact max_le (by linarith) (by positivity)
  have h2' : 0 ≤ max rem 0 / eps := div_nonneg (le_max_right _ _) heps.le
  have h3 : N * (R + 1) / eps ≤ (n : α) * M := by
    rw [mul_div_assoc]
    exact mul_le_mul hNn h1 h1' (by positivity)
  have h3' : 0 ≤ N * (R + 1) / eps := by positivity
  have h4 : (N * (R + 1) / eps + 1) / eps * max rem 0 ≤ ((n : α) * M + 1) * A := by
    have : (N * (R + 1) / eps + 1) / eps * max rem 0 = (N * (R + 1) / eps + 1) * (max rem 0 / eps) := by
      field_simp
    rw [this]
    exact mul_le_mul (by linarith) h2 h2' (by positivity)
  push_cast
  linarith

theorem dcRemaining_nfi (ops : Ops α B) (hnf : NoFuel ops) (env : Env α) (w : SWorld α B) (st : CState α)
    (gc : GcS α) (target : α) :
    NFI (fun rem => rem ≤ gc.curMax - gc.currentLoad) (dcRemaining ops env w st gc target) := by
  unfold dcRemaining
  split
  · rename_i e he; exact nfi_err (mapM_ne_fuel _ (fun b => hnf.available _ _) _) he
  · apply nfi_ok
    rw [pymin_eq]; exact min_le_right _ _

theorem dcOnSchedule_nfi (ops : Ops α B) (law : Law ops) (hnf : NoFuel ops) (env : Env α) (heps : 0 < env.eps)
    (w : SWorld α B) (st : CState α) (p : α) (n A M : Nat)
    (hs : Static (env.eps * 2 ^ env.fuel) w) (hn : st.energyNeeded.length ≤ n)
    (hA : ∀ g ∈ w.gcs, g.curMax - g.currentLoad ≤ env.eps * A)
    (hM : ∀ g ∈ w.gcs, g.curMax - g.currentLoad + 1 ≤ env.eps * M) (hM1 : 1 ≤ env.eps * M)
    (hfuel : (n * M + 1) * A + n * M + n ≤ env.retryFuel) :
    NFI (fun r => Static (env.eps * 2 ^ env.fuel) r.1) (dcOnSchedule ops env w st p) := by
  unfold dcOnSchedule
  dsimp only
  split
  · rename_i e he; exact nfi_err (firstGcId_ne_fuel _) he
  · rename_i gid hgid
    split
    · rename_i e he; exact nfi_err (getGc_ne_fuel _ _) he
    · rename_i gc hgc
      have hgm := (getGc_ok _ _ _ hgc).1
      split
      · rename_i e he; exact nfi_err (getGx_ne_fuel _ _) he
      · rename_i x hx
        split
        · rename_i e he
          split at he
          · split at he
            · rename_i e' he'
              cases he
              exact nfi_err (mapM_ne_fuel _ (fun b => hnf.available _ _) _) he'
            · cases he; exact nfi_error (by simp)
          · exact nfi_err (dcRemaining_nfi ops hnf env w _ gc _).1 he
        · rename_i remaining hrem
          have hremle : remaining ≤ gc.curMax - gc.currentLoad := by
            split at hrem
            · split at hrem <;> cases hrem
            · exact (dcRemaining_nfi ops hnf env w _ gc _).2 _ hrem
          set vehicles := st.energyNeeded.mergeSort (fun a b => decide (a.2 ≤ b.2)) with hveh
          have hlen : vehicles.length ≤ n := by rw [hveh, List.length_mergeSort]; exact hn
          set R : α := max (gc.curMax - gc.currentLoad) 0 with hRdef
          have hR0 : 0 ≤ R := le_max_right _ _
          have hRA : R ≤ env.eps * A := max_le (hA gc hgm) (by positivity)
          have hRM : R + 1 ≤ env.eps * M := by
            rcases le_total (gc.curMax - gc.currentLoad) 0 with h | h
            · rw [hRdef, max_eq_right h]; linarith
            · rw [hRdef, max_eq_left h]; exact hM gc hgm
          have hremR : remaining ≤ R := le_trans hremle (le_max_left _ _)
          have hne := csLoop_ne_fuel ops law hnf env heps
            (if eqZero st.energyAvail then 0 else p / env.tsPerHour / st.energyAvail) vehicles.length gid
            (vehicles.map (·.1)) R hR0 env.retryFuel 0 vehicles [] 0 remaining w []
            (fun e he => List.mem_map_of_mem he) hremR
            (fun id => by simp only [loGet, sdGet]; exact ⟨le_refl _, by linarith⟩)
            (by
              have h1 := csRank_init_le env.eps R remaining heps hR0 (vehicles.map (·.1)) n A M
                (by simpa using hlen) hremR hRA hRM
              rw [List.length_map] at h1
              refine le_trans h1 ?_
              exact_mod_cast hfuel)
          split
          · rename_i e he; exact nfi_err hne he
          · rename_i r hr
            exact nfi_ok (csLoop_static ops env _ _ _ _ _ _ _ _ _ _ _ _ r hs hr)

theorem duringCst_nfi (ops : Ops α B) (law : Law ops) (hnf : NoFuel ops) (env : Env α) (heps : 0 < env.eps)
    (w : SWorld α B) (st : CState α) (n A M : Nat)
    (hdt : dtToEnd env ≠ .error .fuel)
    (hvx : ∀ id x, getVx env id = .ok x → x.curveMax ≤ env.eps * 2 ^ env.fuel)
    (hs : Static (env.eps * 2 ^ env.fuel) w) (hn : st.energyNeeded.length ≤ n)
    (hA : ∀ g ∈ w.gcs, g.curMax - g.currentLoad ≤ env.eps * A)
    (hM : ∀ g ∈ w.gcs, g.curMax - g.currentLoad + 1 ≤ env.eps * M) (hM1 : 1 ≤ env.eps * M)
    (hfuel : (n * M + 1) * A + n * M + n ≤ env.retryFuel) :
    NFI (fun r => Static (env.eps * 2 ^ env.fuel) r.1) (duringCst ops env w st) := by
  unfold duringCst
  split
  · rename_i e he; exact nfi_err hdt he
  · rename_i dtEnd hdtEnd
    dsimp only
    split
    · exact nfi_error (by simp)
    · rename_i p restP hp
      have h1 := dcExcess_nfi ops hnf env heps hvx w { st with powerPerTS := restP } dtEnd
        (st.powerPerTS.filter (fun p => decide (env.eps < p))).length hs
      have h2 := dcOnSchedule_nfi ops law hnf env heps w { st with powerPerTS := restP } p n A M hs hn hA hM hM1 hfuel
      split
      · rename_i e he
        split at he
        · exact nfi_err h1.1 he
        · exact nfi_err h2.1 he
      · rename_i r hr
        apply nfi_ok
        split at hr
        · exact h1.2 r hr
        · exact h2.2 r hr

/-! ### the V2G pass -/

theorem v2gSimLimit_ne_fuel (ops : Ops α B) (hnf : NoFuel ops) (env : Env α) (cs : StationS α) (v : VehicleS α B)
    (gcCurMax mdp dl : α) (connected : List Bool) (bat : B) :
    v2gSimLimit ops env cs v gcCurMax mdp dl connected bat ≠ .error .fuel := by
  unfold v2gSimLimit
  apply foldlM_ne_fuel
  intro b c
  split
  · exact bind_ne_fuel _ _ (hnf.load _ _ _ _ _) (fun _ _ => by simp [pure, Except.pure])
  · exact bind_ne_fuel _ _ (hnf.unload _ _ _ _ _) (fun _ _ => by simp [pure, Except.pure])

theorem v2gLimit_ne_fuel (ops : Ops α B) (hnf : NoFuel ops) (env : Env α) (heps : 0 < env.eps) (chargeNow : Bool)
    (cs : StationS α) (v : VehicleS α B) (gcCurMax mdp : α) (connected : List Bool) (wc : Nat) (prev : Option α)
    (hw : 1 - v.dischargeLimit ≤ env.eps * 2 ^ env.fuel) :
    v2gLimit ops env chargeNow cs v gcCurMax mdp connected wc prev ≠ .error .fuel := by
  unfold v2gLimit
  split
  · split
    · rename_i e he
      intro hc; cases hc
      rcases bisectM_no_fuel_error _ env.eps heps env.fuel v.dischargeLimit 1 none hw with h | ⟨a, ha⟩
      · exact h he
      · split at ha
        · rename_i e' he'
          cases ha
          exact v2gSimLimit_ne_fuel ops hnf env cs v gcCurMax mdp a connected v.bat he'
        · cases ha
    · simp
    · simp
  · split <;> simp

theorem v2gSimPower_ne_fuel (ops : Ops α B) (hnf : NoFuel ops) (env : Env α) (cs : StationS α) (v : VehicleS α B)
    (chargeNow : Bool) (mdp total desired : α) (dl : Option α) (n : Nat) (b : B) (suff : Bool) :
    v2gSimPower ops env cs v chargeNow mdp total desired dl n b suff ≠ .error .fuel := by
  induction n generalizing b suff with
  | zero => simp [v2gSimPower]
  | succ n ih =>
    rw [v2gSimPower]
    refine bind_ne_fuel _ _ ?_ (fun b' _ => ?_)
    · split
      · split
        · exact bind_ne_fuel _ _ (hnf.load _ _ _ _ _) (fun _ _ => by simp [pure, Except.pure])
        · exact bind_ne_fuel _ _ (hnf.unload _ _ _ _ _) (fun _ _ => by simp [pure, Except.pure])
      · simp [pure, Except.pure]
    · split
      · split
        · simp
        · exact ih _ _
      · split
        · simp
        · split
          · simp
          · exact ih _ _

/-- the power search of the V2G pass ends within `fuel` passes as soon as `max − min ≤ ε·2^fuel` -/
theorem v2gPowerLoop_ne_fuel (ops : Ops α B) (hnf : NoFuel ops) (env : Env α) (heps : 0 < env.eps)
    (cs : StationS α) (v : VehicleS α B) (chargeNow : Bool) (mdp desired : α) (dl : Option α) (dur : Nat)
    (bat0 : B) (fuel : Nat) (mn mx total : α) (sim : B) (hw : mx - mn ≤ env.eps * 2 ^ fuel) :
    v2gPowerLoop ops env cs v chargeNow mdp desired dl dur bat0 fuel mn mx total sim ≠ .error .fuel := by
  induction fuel generalizing mn mx total sim with
  | zero =>
    unfold v2gPowerLoop
    simp only [pow_zero, mul_one] at hw
    have : ¬ env.eps < mx - mn := not_lt.mpr hw
    simp [this]
  | succ f ih =>
    unfold v2gPowerLoop
    split
    · have hhalf : (mx - mn) / 2 ≤ env.eps * 2 ^ f := by
        rw [div_le_iff₀ (by norm_num)]
        calc mx - mn ≤ env.eps * 2 ^ (f + 1) := hw
          _ = env.eps * 2 ^ f * 2 := by ring
      have e1 : (mn + mx) / 2 - mn = (mx - mn) / 2 := by ring
      have e2 : mx - (mn + mx) / 2 = (mx - mn) / 2 := by ring
      dsimp only
      refine bind_ne_fuel _ _ (v2gSimPower_ne_fuel ops hnf env cs v chargeNow mdp _ desired dl dur bat0 _)
        (fun r _ => ?_)
      split
      · split
        · exact ih _ _ _ _ (by rw [e1]; exact hhalf)
        · exact ih _ _ _ _ (by rw [e2]; exact hhalf)
      · split
        · exact ih _ _ _ _ (by rw [e2]; exact hhalf)
        · exact ih _ _ _ _ (by rw [e1]; exact hhalf)
    · simp

theorem v2gTotal_ne_fuel (ops : Ops α B) (hnf : NoFuel ops) (env : Env α) (heps : 0 < env.eps) (chargeNow : Bool)
    (chargeWindow : List Bool) (cs : StationS α) (v : VehicleS α B) (mdp diff headNeg : α) (wc : Nat)
    (dl : Option α) (hw : cs.maxPower ≤ env.eps * 2 ^ env.fuel) :
    v2gTotal ops env chargeNow chargeWindow cs v mdp diff headNeg wc dl ≠ .error .fuel := by
  unfold v2gTotal
  dsimp only
  split
  · rename_i e he
    intro hc; cases hc
    split at he
    · cases he
    · split at he
      · cases he
      · split at he <;> cases he
  · apply v2gPowerLoop_ne_fuel ops hnf env heps
    rw [pymin_eq]
    have := min_le_left cs.maxPower (if chargeNow = true then pymax 0 diff else pymax 0 (pymin (pyabs diff) headNeg))
    linarith

theorem v2gApply_nfi (ops : Ops α B) (hnf : NoFuel ops) (env : Env α) (chargeNow : Bool) (E : α)
    (w : SWorld α B) (cmds : List (String × α)) (v : VehicleS α B) (cs : StationS α) (gc : GcS α)
    (csId : String) (mdp : α) (dl : Option α) (total : α) (hv : v ∈ w.vehicles) (hcs : cs ∈ w.stations)
    (hs : Static E w) :
    NFI (fun r => Static E r.1) (v2gApply ops env chargeNow w cmds v cs gc csId mdp dl total) := by
  unfold v2gApply
  have hstat : ∀ (b : B) (g : GcS α) (x : α), Static E
      (((w.setVehicle { v with bat := b }).setGc g).setStation { cs with currentPower := x }) :=
    fun b g x => static_setStation E _ _ (static_setGc E _ _ (static_setVehicle E w _ hs (hs.2 v hv))) (hs.1 cs hcs)
  split
  · split
    · rename_i e he
      split at he
      · cases he
      · split at he
        · rename_i e' he'; cases he; exact nfi_err (hnf.load _ _ _ _ _) he'
        · cases he
    · exact nfi_ok (hstat _ _ _)
  · split
    · rename_i e he
      split at he
      · cases he
      · split at he
        · rename_i e' he'; cases he; exact nfi_err (hnf.unload _ _ _ _ _) he'
        · cases he
    · exact nfi_ok (hstat _ _ _)

theorem v2gVehicle_nfi (ops : Ops α B) (hnf : NoFuel ops) (env : Env α) (heps : 0 < env.eps) (gid : String)
    (chargeNow : Bool) (chargeWindow : List Bool) (issues : List String)
    (st : SWorld α B × List (String × α) × Option α) (vid : String)
    (hs : Static (env.eps * 2 ^ env.fuel) st.1) :
    NFI (fun r => Static (env.eps * 2 ^ env.fuel) r.1) (v2gVehicle ops env gid chargeNow chargeWindow issues st vid) := by
  unfold v2gVehicle
  split
  · exact nfi_ok hs
  · split
    · rename_i e he; exact nfi_err (getVehicle_ne_fuel _ _) he
    · rename_i v hv
      have hvm := getVehicle_ok _ _ _ hv
      split
      · exact nfi_error (by simp)
      · rename_i csId hcs
        split
        · rename_i e he; exact nfi_err (getStation_ne_fuel _ _) he
        · rename_i cs hst
          have hcm := (getStation_ok _ _ _ hst).1
          split
          · exact nfi_error (by simp)
          · rename_i etd hetd
            dsimp only
            split
            · rename_i e he; exact nfi_err (getGc_ne_fuel _ _) he
            · rename_i gc hgc
              split
              · rename_i e he
                exact nfi_err (v2gLimit_ne_fuel ops hnf env heps chargeNow cs v _ _ _ _ _ (hs.2 v hvm).2) he
              · rename_i dl hdl
                split
                · rename_i e he
                  apply nfi_error
                  intro hfu; subst hfu
                  split at he
                  · rename_i e' he'
                    cases he
                    split at he'
                    · split at he' <;> cases he'
                    · cases he'
                  · cases he
                  · split at he
                    · rename_i e' he'; cases he; exact getGx_ne_fuel _ _ he'
                    · split at he <;> cases he
                · exact nfi_ok hs
                · rename_i target htarget
                  split
                  · rename_i e he
                    exact nfi_err (v2gTotal_ne_fuel ops hnf env heps chargeNow chargeWindow cs v _ _ _ _ _ (hs.1 cs hcm)) he
                  · rename_i total htotal
                    have := v2gApply_nfi ops hnf env chargeNow _ st.1 st.2.1 v cs gc csId
                      (ops.unloadMaxPower v.bat) dl total hvm hcm hs
                    split
                    · rename_i e he; exact nfi_err this.1 he
                    · rename_i r hr; exact nfi_ok (this.2 r hr)

theorem v2gCst_nfi (ops : Ops α B) (hnf : NoFuel ops) (env : Env α) (heps : 0 < env.eps) (w : SWorld α B)
    (st : CState α) (cmds : List (String × α)) (hs : Static (env.eps * 2 ^ env.fuel) w) :
    v2gCst ops env w st cmds ≠ .error .fuel := by
  unfold v2gCst
  refine bind_ne_fuel _ _ (firstGcId_ne_fuel _) (fun gid _ => ?_)
  dsimp only
  split
  · simp
  · rename_i chargeNow restW hcw
    refine bind_ne_fuel _ _ ?_ (fun _ _ => by simp)
    exact (nfi_foldlM (fun (r : SWorld α B × List (String × α) × Option α) => Static (env.eps * 2 ^ env.fuel) r.1)
      _ _ (fun s a _ hs' => v2gVehicle_nfi ops hnf env heps gid chargeNow st.chargeWindow _ s a hs')
      (w, cmds, none) hs).1

/-! ### outside the core standing time -/

theorem cvVehicle_nfi (ops : Ops α B) (hnf : NoFuel ops) (env : Env α) (gid : String) (E : α)
    (st : SWorld α B × List (String × α)) (kid : α × String) (hs : Static E st.1) :
    NFI (fun r => Static E r.1) (cvVehicle ops env gid st kid) := by
  unfold cvVehicle
  split
  · rename_i e he; exact nfi_err (getVehicle_ne_fuel _ _) he
  · rename_i v hv
    have hvm := getVehicle_ok _ _ _ hv
    split
    · exact nfi_error (by simp)
    · rename_i csId hcs
      split
      · rename_i e he; exact nfi_err (getStation_ne_fuel _ _) he
      · rename_i cs hst
        have hcm := (getStation_ok _ _ _ hst).1
        split
        · rename_i e he; exact nfi_err (getGc_ne_fuel _ _) he
        · rename_i gc hgc
          split
          · rename_i e he; exact nfi_err (hnf.load _ _ _ _ _) he
          · exact nfi_ok (static_commit E st.1 st.2 v _ cs gc csId _ hvm hcm hs)

theorem cvSorted_ne_fuel (ops : Ops α B) (w : SWorld α B) (vids : List String) :
    cvSorted ops w vids ≠ .error .fuel := by
  unfold cvSorted
  refine bind_ne_fuel _ _ (mapM_ne_fuel _ (fun id => ?_) _) (fun _ _ => by simp [pure, Except.pure])
  exact bind_ne_fuel _ _ (getVehicle_ne_fuel _ _) (fun _ _ => by simp [pure, Except.pure])

theorem cvGroup_nfi (ops : Ops α B) (hnf : NoFuel ops) (env : Env α) (E : α)
    (st : SWorld α B × List (String × α)) (grp : String × List String) (hs : Static E st.1) :
    NFI (fun r => Static E r.1) (cvGroup ops env st grp) := by
  unfold cvGroup
  split
  · rename_i e he; exact nfi_err (getGc_ne_fuel _ _) he
  · split
    · rename_i e he; exact nfi_err (getGx_ne_fuel _ _) he
    · split
      · exact nfi_error (by simp)
      · split
        · rename_i e he; exact nfi_err (cvSorted_ne_fuel _ _ _) he
        · split
          · exact nfi_ok hs
          · exact nfi_foldlM _ _ _ (fun s a _ hs' => cvVehicle_nfi ops hnf env _ E s a hs') _ hs

theorem cvGroups_ne_fuel (w : SWorld α B) : cvGroups w ≠ .error .fuel := by
  unfold cvGroups
  apply foldlM_ne_fuel
  intro groups v
  split
  · simp
  · refine bind_ne_fuel _ _ (getStation_ne_fuel _ _) (fun cs _ => ?_)
    split <;> simp [pure, Except.pure]

theorem chargeVehicles_nfi (ops : Ops α B) (hnf : NoFuel ops) (env : Env α) (E : α) (w : SWorld α B)
    (hs : Static E w) : NFI (fun r => Static E r.1) (chargeVehicles ops env w) := by
  unfold chargeVehicles
  split
  · rename_i e he; exact nfi_err (cvGroups_ne_fuel _) he
  · exact nfi_foldlM (fun (r : SWorld α B × List (String × α)) => Static E r.1) _ _
      (fun s a _ hs' => cvGroup_nfi ops hnf env E s a hs') (w, []) hs

theorem acVehicle_nfi (ops : Ops α B) (hnf : NoFuel ops) (env : Env α) (heps : 0 < env.eps) (gid : String)
    (hvx : ∀ id x, getVx env id = .ok x → x.curveMax ≤ env.eps * 2 ^ env.fuel)
    (s : SWorld α B × List (String × α)) (v0 : VehicleS α B) (hs : Static (env.eps * 2 ^ env.fuel) s.1) :
    NFI (fun r => Static (env.eps * 2 ^ env.fuel) r.1) (acVehicle ops env gid s v0) := by
  unfold acVehicle
  split
  · exact nfi_ok hs
  · rename_i v hv
    have hvm : v ∈ s.1.vehicles := List.mem_of_find?_eq_some hv
    split
    · exact nfi_ok hs
    · rename_i csId hcs
      split
      · rename_i e he; exact nfi_err (getStation_ne_fuel _ _) he
      · rename_i cs hst
        have hcm := (getStation_ok _ _ _ hst).1
        split
        · exact nfi_error (by simp)
        · split
          · rename_i e he; exact nfi_err (getGc_ne_fuel _ _) he
          · rename_i gc hgc
            split
            · rename_i e he; exact nfi_err (getVx_ne_fuel _ _) he
            · rename_i x hx
              split
              · rename_i e he
                exact nfi_err (simBalanced_ne_fuel ops hnf env heps cs v x _ _ none (hs.2 v hvm).1 (hvx _ x hx)) he
              · split
                · rename_i e he; exact nfi_err (hnf.load _ _ _ _ _) he
                · exact nfi_ok (static_commit _ s.1 s.2 v _ cs gc csId _ hvm hcm hs)

theorem afterCst_ne_fuel (ops : Ops α B) (hnf : NoFuel ops) (env : Env α) (heps : 0 < env.eps)
    (hvx : ∀ id x, getVx env id = .ok x → x.curveMax ≤ env.eps * 2 ^ env.fuel)
    (w : SWorld α B) (st : CState α) (cmds : List (String × α)) (hs : Static (env.eps * 2 ^ env.fuel) w) :
    afterCst ops env w st cmds ≠ .error .fuel := by
  unfold afterCst
  split
  · rename_i e he; intro hc; cases hc; exact firstGcId_ne_fuel _ he
  · rename_i gid hgid
    split
    · rename_i e he; intro hc; cases hc; exact getGc_ne_fuel _ _ he
    · dsimp only
      split
      · simp
      · split
        · simp
        · have := (nfi_foldlM (fun (r : SWorld α B × List (String × α)) => Static (env.eps * 2 ^ env.fuel) r.1)
            (acVehicle ops env gid) w.vehicles (fun s a _ hs' => acVehicle_nfi ops hnf env heps gid hvx s a hs') (w, cmds) hs).1
          split
          · rename_i e he; intro hc; cases hc; exact this he
          · simp

/-! ### the end-of-core-standing-time scan (repaired: at most eight days of minutes) -/

theorem dtWithin_ne_fuel (dt : DateTime) (cst : Option CoreStandingTime) (hwf : CoreWF cst) :
    ∃ b, dtWithinCoreStandingTime dt cst = .ok b := by
  cases cst with
  | none => exact ⟨true, rfl⟩
  | some c =>
    obtain ⟨b, hb, -⟩ := dtWithinCore_ok dt c hwf
    exact ⟨b, hb⟩

/-- the scan returns a whole number of minutes between the start value and start + `n` -/
theorem dtToEndScan_ok (cur : DateTime) (cst : Option CoreStandingTime) (hwf : CoreWF cst) (n : Nat) (j : Nat) :
    ∃ k : Nat, j ≤ k ∧ k ≤ j + n ∧ dtToEndScan cur cst n ((j : Int) * usPerMinute) = .ok ((k : Int) * usPerMinute) ∧
      (∀ i : Nat, j ≤ i → i < k → dtWithinCoreStandingTime (cur.add ((i : Int) * usPerMinute)) cst = .ok true) ∧
      (k < j + n → dtWithinCoreStandingTime (cur.add ((k : Int) * usPerMinute)) cst = .ok false) := by
  induction n generalizing j with
  | zero => exact ⟨j, le_refl _, le_refl _, rfl, fun i h1 h2 => by omega, fun h => by omega⟩
  | succ n ih =>
    rw [dtToEndScan]
    obtain ⟨b, hb⟩ := dtWithin_ne_fuel (cur.add ((j : Int) * usPerMinute)) cst hwf
    simp only [hb, bind, Except.bind]
    cases b with
    | true =>
      simp only [if_true]
      obtain ⟨k, h1, h2, h3, h4, h5⟩ := ih (j + 1)
      have hcast : ((j : Int) * usPerMinute + usPerMinute) = (((j + 1 : Nat) : Int) * usPerMinute) := by
        push_cast; ring
      rw [hcast]
      refine ⟨k, by omega, by omega, h3, fun i hi1 hi2 => ?_, fun hk => h5 (by omega)⟩
      rcases Nat.eq_or_lt_of_le hi1 with rfl | hlt
      · exact hb
      · exact h4 i (by omega) hi2
    | false =>
      simp only [Bool.false_eq_true, if_false]
      exact ⟨j, le_refl _, by omega, rfl, fun i h1 h2 => by omega, fun _ => hb⟩

/-- **the repaired scan always ends**: at most `8·1440` passes, for every core standing time with well-formed windows —
including the ones that cover the whole week -/
theorem dtToEnd_ne_fuel (env : Env α) (hwf : CoreWF env.cst) : dtToEnd env ≠ .error .fuel := by
  unfold dtToEnd
  obtain ⟨k, -, -, h, -, -⟩ := dtToEndScan_ok env.now env.cst hwf dtToEndMinutes 0
  simp only [Nat.cast_zero, zero_mul] at h
  rw [h]; simp

/-! ### the whole step -/

/-- **`Schedule.step` never answers `FUEL`** when the environment's fuel parameters reach the bounds of its loops:
`E = ε·2^fuel` covers every bisection bracket (station maxima, charging-curve maxima, `1 − discharge_limit`),
`retryFuel ≥ (n·M+1)·A + n·M + n` covers the collective retry loop (`n` queue entries, connector headroom
`≤ ε·A`, headroom + 1 `≤ ε·M`); the end-of-core-standing-time scan always ends (repair H4: eight days). -/
theorem step_ne_fuel (ops : Ops α B) (law : Law ops) (hnf : NoFuel ops) (env : Env α) (heps : 0 < env.eps)
    (hint : 0 < env.interval) (w : SWorld α B) (st : CState α) (n A M : Nat)
    (hcst : CoreWF env.cst)
    (hvx : ∀ id x, getVx env id = .ok x → x.curveMax ≤ env.eps * 2 ^ env.fuel)
    (hs : Static (env.eps * 2 ^ env.fuel) w)
    (hn : st.energyNeeded.length ≤ n) (hnv : w.vehicles.length ≤ n)
    (hA : ∀ g ∈ w.gcs, g.curMax - g.currentLoad ≤ env.eps * A)
    (hM : ∀ g ∈ w.gcs, g.curMax - g.currentLoad + 1 ≤ env.eps * M) (hM1 : 1 ≤ env.eps * M)
    (hfuel : (n * M + 1) * A + n * M + n ≤ env.retryFuel) :
    step ops env w st ≠ .error .fuel := by
  unfold step
  dsimp only
  have hs0 := static_reset _ w hs
  refine bind_ne_fuel _ _ ?_ (fun r _ => ?_)
  · split
    · rename_i hcoll
      have hdt' := dtToEnd_ne_fuel env hcst
      have hwithin : dtWithinCoreStandingTime env.now env.cst ≠ .error .fuel := by
        cases hc : env.cst with
        | none => simp [dtWithinCoreStandingTime, pure, Except.pure]
        | some c =>
          rw [hc] at hcst
          obtain ⟨b, hb, -⟩ := dtWithinCore_ok env.now c hcst
          rw [hb]; simp
      refine bind_ne_fuel _ _ hwithin (fun b _ => ?_)
      split
      · -- inside the core standing time
        have hev : NFI (fun st' : CState α => st'.energyNeeded.length ≤ n)
            (if st.inCst = true then pure st else evaluate ops env (resetStations w) st) := by
          split
          · exact nfi_ok hn
          · exact (evaluate_nfi ops hnf env (resetStations w) st hdt').mono (fun r hr => le_trans hr hnv)
        refine bind_ne_fuel _ _ hev.1 (fun st' hst' => ?_)
        have hdc := duringCst_nfi ops law hnf env heps (resetStations w) st' n A M hdt' hvx hs0
          (hev.2 st' hst') hA hM hM1 hfuel
        refine bind_ne_fuel _ _ hdc.1 (fun r hr => ?_)
        split
        · exact v2gCst_nfi ops hnf env heps r.1 r.2.1 r.2.2 (hdc.2 r hr)
        · simp [pure, Except.pure]
      · -- outside
        have hcv := chargeVehicles_nfi ops hnf env _ (resetStations w) hs0
        refine bind_ne_fuel _ _ hcv.1 (fun r hr => ?_)
        split
        · exact afterCst_ne_fuel ops hnf env heps hvx r.1 st r.2 (hcv.2 r hr)
        · simp [pure, Except.pure]
    · have hci := chargeIndividually_nfi ops hnf env heps hint (resetStations w) hs0
      exact bind_ne_fuel _ _ hci.1 (fun _ _ => by simp [pure, Except.pure])
  · exact bind_ne_fuel _ _ (utilizeBatteries_ne_fuel ops hnf env _) (fun _ _ => by simp [pure, Except.pure])

/-- the toy battery of Proofs/StratSchedule.lean never answers `FUEL` -/
theorem toyNoFuel : NoFuel toyOps :=
  ⟨fun _ _ _ _ _ => by simp [toyOps], fun _ _ _ _ _ => by simp [toyOps], fun _ _ => by simp [toyOps]⟩

/-! ### more fuel never changes a result: the fuel-guarded loop IS the unbounded loop wherever it ends -/

theorem csLoop_fuel_succ (ops : Ops α B) (env : Env α) (fraction : α) (nVeh : Nat) (gid : String)
    (f i : Nat) (q lo : List (String × α)) (extra rem : α) (w : SWorld α B) (cmds : List (String × α)) :
    csLoop ops env fraction nVeh gid f i q lo extra rem w cmds ≠ .error .fuel →
    csLoop ops env fraction nVeh gid (f + 1) i q lo extra rem w cmds =
      csLoop ops env fraction nVeh gid f i q lo extra rem w cmds := by
  fun_induction csLoop ops env fraction nVeh gid f i q lo extra rem w cmds <;> intro h
  all_goals (try (exact absurd rfl h))
  all_goals (try (rw [csLoop]))
  all_goals (try (simp +zetaDelta only at *))
  all_goals (try (simp only [*]))
  all_goals (try (first | rfl | (rename_i ih; exact ih h)))

theorem csLoop_fuel_mono (ops : Ops α B) (env : Env α) (fraction : α) (nVeh : Nat) (gid : String)
    (f k i : Nat) (q lo : List (String × α)) (extra rem : α) (w : SWorld α B) (cmds : List (String × α))
    (h : csLoop ops env fraction nVeh gid f i q lo extra rem w cmds ≠ .error .fuel) :
    csLoop ops env fraction nVeh gid (f + k) i q lo extra rem w cmds =
      csLoop ops env fraction nVeh gid f i q lo extra rem w cmds := by
  induction k with
  | zero => rfl
  | succ k ih =>
    have := csLoop_fuel_succ ops env fraction nVeh gid (f + k) i q lo extra rem w cmds (by rw [ih]; exact h)
    rw [← Nat.add_assoc, this, ih]

end SpiceEv.Sched
