/-
Model of `BalancedMarket` (spice_ev/strategies/balanced_market.py): `__init__`'s signal-time rule,
`step`, `step_gc` with everything it does — look-ahead over `world_state.future_events`
(`timesteps`), `GridConnector.get_avg_fixed_load`, per-vehicle price-ordered planning with its
in-place simulations on a deep copy of the vehicle, the power bisection, the V2G back-tracking
search, the bookkeeping of the forecast, the surplus pass and the stationary-battery block with
its bisection — transliterated statement by statement.  The battery is a parameter (`Ops`, an
extension of `BatOps` by "assign the SoC" and builtin `sum`): the executable instance is the
battery model (Model/Battery.lean), the theorems use the abstract contract `BatLaw`.
Python dicts are insertion-ordered association lists; times are `Int` microseconds (UTC instant).

The model is the behaviour of the repaired tree (fixes H2, M1, D5 are in the file that is tied) with the two
repairs fixes/BM1.diff (`if 0 in same_price_ts and power[0]:`; pinned: `start_idx == 0`) and fixes/BM2.diff (the
battery block caps the forecast of the current timestep by the connector's real headroom) applied.
-/
import SpiceEv.Py
import SpiceEv.Time
import SpiceEv.Model.StrategyUtil
import SpiceEv.Model.Strategies
import SpiceEv.Model.Battery
namespace SpiceEv.BalancedMarket
open SpiceEv

/-- one element of the list `timesteps` of `step_gc` -/
structure TS (α : Type) where
  power : α
  maxPower : α
  /-- `cost` dict (`{}` is modelled as `none`: `get_cost` raises KeyError on it) -/
  cost : Option (GcCost α)

/-- what `step_gc` reads of an element of `world_state.future_events` -/
inductive FEvent (α : Type) where
  /-- `GridOperatorSignal`; `cost = none`: attribute is None, `some none`: `{}` -/
  | signal (start : Int) (gc : String) (maxPower : Option α) (cost : Option (Option (GcCost α)))
  /-- `LocalEnergyGeneration` -/
  | gen (start : Int) (gc : String) (name : String) (value : α)
  /-- any other event (vehicle event, fixed load): only its `start_time` is read -/
  | other (start : Int)

def FEvent.start {α : Type} : FEvent α → Int
  | .signal s _ _ _ => s
  | .gen s _ _ _ => s
  | .other s => s

/-- options / clock / look-ahead inputs of the strategy object -/
structure Env (α : Type) where
  eps : α                            -- self.EPS
  priceThreshold : α                 -- self.PRICE_THRESHOLD
  now : Int                          -- self.current_time (µs, UTC instant)
  interval : Int                     -- self.interval (µs)
  horizon : Int                      -- timedelta(hours=self.HORIZON) (µs)
  tzOffset : Int                     -- current_time.utcoffset() (µs), 0 for a naive clock
  events : List (FEvent α)           -- world_state.future_events (sorted by the base class)
  /-- `gc.avg_fixed_load` per connector id (absent = None): 7 weekdays × slots per day -/
  avgFixed : List (String × List (List α))

/-- battery operations: `BatOps` + `battery.soc = x` + builtin `sum` of the number type -/
structure Ops (α B : Type) extends BatOps α B where
  setSoc : B → α → B
  sum : List α → α

/-- `BalancedMarket.__init__`, per price/limit event:
`signal_time = max(min(signal_time, start_time - HORIZON), scenario start)` (times as instants) -/
def initSignalTime (signal start horizon scenarioStart : Int) : Int :=
  pymax (pymin signal (start - horizon)) scenarioStart

/-- `changed += event.signal_time < old_signal_time` -/
def initChanged (horizon scenarioStart : Int) (evs : List (Int × Int)) : Nat :=
  (evs.filter (fun e => decide (initSignalTime e.1 e.2 horizon scenarioStart < e.1))).length

/-- `list[i]` for a non-negative index; IndexError when out of range -/
def lget {β : Type} (l : List β) (i : Nat) : Py β :=
  match l[i]? with
  | some v => .ok v
  | none => .error .indexError

/-- `list[:n]` with Python's rule for a negative bound -/
def sliceTo {β : Type} (l : List β) (n : Int) : List β :=
  if 0 ≤ n then l.take n.toNat else l.take (l.length - (-n).toNat)

/-- builtin `sorted` (a stable sort) as a structural insertion sort, so that the model also evaluates
inside the kernel; for the keys used here (distinct second components) the result of any correct
sort is the same list -/
def insertSorted {β : Type} (le : β → β → Bool) (x : β) : List β → List β
  | [] => [x]
  | y :: ys => if le x y then x :: y :: ys else y :: insertSorted le x ys

def isort {β : Type} (le : β → β → Bool) : List β → List β
  | [] => []
  | x :: xs => insertSorted le x (isort le xs)

section
variable {α B : Type} [Add α] [Sub α] [Mul α] [Div α] [Neg α] [LT α] [LE α]
  [DecidableLT α] [DecidableLE α] [OfNat α 0] [OfNat α 1] [NatCast α] [IntCast α]

/-- `gc.get_current_load(exclude)` (a `+=` loop from 0 in dict order) -/
def currentLoadExcl (g : GcS α) (excl : List String) : α :=
  g.loads.foldl (fun a kv => if excl.contains kv.1 then a else a + kv.2) 0

/-- `gc.get_avg_fixed_load(dt, interval)`; `localUs` = wall-clock µs of `dt` since 1970-01-01 local -/
def getAvgFixedLoad (table : Option (List (List α))) (localUs interval : Int) : Py α :=
  match table with
  | none => .ok 0
  | some t =>
    let weekday := (localUs / usPerDay + 3) % 7          -- 1970-01-01 was a Thursday
    let tod := localUs % usPerDay
    let hm := (tod / usPerMinute) * usPerMinute          -- dt - dt.replace(hour=0, minute=0)
    let slot := hm / interval                            -- int(timedelta / timedelta)
    match t[weekday.toNat]? with
    | none => .error .indexError
    | some row =>
      match row[slot.toNat]? with
      | none => .error .indexError
      | some v => .ok v

/-- running forecast state of the look-ahead loop: `cur_max_power`, `cur_cost`, `cur_local_generation` -/
structure Fore (α : Type) where
  curMax : α
  curCost : Option (GcCost α)
  gen : List (String × α)

/-- effect of one peeked event on the forecast of connector `gcId` -/
def applyEvent (gcId : String) (f : Fore α) : FEvent α → Fore α
  | .signal _ g mp c =>
    if g != gcId then f
    else
      let f := match mp with
        | some m => { f with curMax := m }
        | none => f
      match c with
      | some c' => { f with curCost := c' }
      | none => f
  | .gen _ g name value => if g != gcId then f else { f with gen := sdSet f.gen name value }
  | .other _ => f

/-- the `while True:` peek loop: consumes the events with `start_time <= cur_time` -/
def peekEvents (gcId : String) (curTime : Int) : List (FEvent α) → Fore α → List (FEvent α) × Fore α
  | [], f => ([], f)
  | e :: rest, f =>
    if curTime < e.start then (e :: rest, f)
    else peekEvents gcId curTime rest (applyEvent gcId f e)

/-- `for timestep_idx in range(timesteps_ahead)`: `n` iterations left, index `idx`, `curTime` is the
time of this iteration -/
def buildTimesteps (ops : Ops α B) (env : Env α) (gc : GcS α) (table : Option (List (List α))) :
    Nat → Nat → Int → List (FEvent α) → Fore α → List (TS α) → Py (List (TS α))
  | 0, _, _, _, _, acc => .ok acc
  | n + 1, idx, curTime, evs, f, acc => do
    let (evs, f) := peekEvents gc.id curTime evs f
    let fixedLoad ← (if idx == 0 then (.ok gc.currentLoad : Py α)
      else do
        let a ← getAvgFixedLoad table (curTime + env.tzOffset) env.interval
        pure (a - ops.sum (f.gen.map (·.2))))
    buildTimesteps ops env gc table n (idx + 1) (curTime + env.interval) evs f
      (acc ++ [{ power := f.curMax - fixedLoad, maxPower := f.curMax, cost := f.curCost }])

/-- the block "GET NEXT EVENTS" of `step_gc` -/
def timestepsOf (ops : Ops α B) (env : Env α) (gc : GcS α) : Py (List (TS α)) :=
  let gen := (gc.loads.filter (fun kv => decide (kv.2 < 0))).map (fun kv => (kv.1, -kv.2))
  let ahead := (env.horizon / env.interval).toNat
  buildTimesteps ops env gc (sdGet env.avgFixed gc.id) ahead 0 env.now env.events
    ⟨gc.curMax, gc.cost, gen⟩ []

/-- `util.get_cost(1, cost)` (KeyError on `{}`) -/
def cost1 (c : Option (GcCost α)) : Py α :=
  match c with
  | none => .error .keyError
  | some c => .ok (getCost 1 c)

/-- `sorted((get_cost(1, e["cost"]), idx) for idx, e in enumerate(vehicle_ts))` -/
def sortedTs (vts : List (TS α)) : Py (List (α × Nat)) := do
  let costs ← vts.mapM (fun t => cost1 t.cost)
  let pairs := costs.zipIdx
  .ok (isort (fun a b => decide (a.1 < b.1) || (!(decide (b.1 < a.1)) && decide (a.2 ≤ b.2))) pairs)

/-- per-vehicle working state of `step_gc` -/
structure VSt (α B : Type) where
  gc : GcS α                         -- the connector (its `current_loads`)
  cs : StationS α                    -- the vehicle's station
  bat : B                            -- `vehicle.battery`
  sim : B                            -- `sim_vehicle.battery`
  power : List α
  sortedIdx : Nat
  cmds : List (String × α)           -- `charging_stations`
  dis : List String                  -- `discharging_stations`

/-- `charging_stations[cs_id] = gc.add_load(cs_id, avg_power); cs.current_power += avg_power` -/
def VSt.book (st : VSt α B) (avg : α) : VSt α B :=
  let (gc', val) := st.gc.addLoad st.cs.id avg
  { st with gc := gc', cs := { st.cs with currentPower := st.cs.currentPower + avg },
            cmds := sdSet st.cmds st.cs.id val }

def clampV (cs : StationS α) (vmin p : α) : α :=
  clampPower p cs.currentPower cs.maxPower cs.minPower vmin

/-- `for cur_idx, cur_power in enumerate(power)`: simulate charging / discharging on `sim` -/
def simulate (ops : Ops α B) (dischargeLimit : α) : List α → B → Py B
  | [], sim => .ok sim
  | p :: rest, sim =>
    if 0 < p then do
      let (sim', _) ← ops.load sim none none (some p)
      simulate ops dischargeLimit rest sim'
    else if p < 0 then do
      let (sim', _) ← ops.unload sim (some (-p)) (some dischargeLimit) none
      simulate ops dischargeLimit rest sim'
    else simulate ops dischargeLimit rest sim

/-- naive pass: `for ts_idx in same_price_ts: … sim.load(interval, max_power=p)` -/
def naivePass (ops : Ops α B) (cs : StationS α) (vmin : α) (ts : List (TS α)) (same : List Nat)
    (power : List α) (sim : B) : Py (List α × B) :=
  same.foldlM (fun (st : List α × B) i => do
    let t ← lget ts i
    let p := clampV cs vmin t.power
    let (sim', _) ← ops.load st.2 (some p) none none
    pure (st.1.set i p, sim')) (power, sim)

/-- bisection pass: `for ts_idx in same_price_ts: p = min(ts.power, cur_power) … load(target_power=p)` -/
def bisectPass (ops : Ops α B) (cs : StationS α) (vmin : α) (ts : List (TS α)) (same : List Nat)
    (cur : α) (power : List α) (sim : B) : Py (List α × B) :=
  same.foldlM (fun (st : List α × B) i => do
    let t ← lget ts i
    let p := clampV cs vmin (pymin t.power cur)
    let (sim', _) ← ops.load st.2 none none (some p)
    pure (st.1.set i p, sim')) (power, sim)

/-- `while not safe or max_power - min_power > self.EPS:` (fuel: see `bisectFuel`) -/
def bisect (ops : Ops α B) (eps : α) (cs : StationS α) (vmin : α) (ts : List (TS α))
    (same : List Nat) (oldSoc desired : α) :
    Nat → α → α → Bool → List α → B → Py (List α × B)
  | 0, _, _, _, _, _ => .error .fuel
  | fuel + 1, minP, maxP, safe, power, sim =>
    if !safe || decide (eps < maxP - minP) then do
      let sim := ops.setSoc sim oldSoc
      let cur := if maxP - minP ≤ eps then maxP else (maxP + minP) / ((2 : Nat) : α)
      let (power, sim) ← bisectPass ops cs vmin ts same cur power sim
      let safe := decide (desired ≤ ops.soc sim)
      if !safe then bisect ops eps cs vmin ts same oldSoc desired fuel cur maxP safe power sim
      else bisect ops eps cs vmin ts same oldSoc desired fuel minP cur safe power sim
    else .ok (power, sim)

/-- iterations granted to the two bisections: halving any double down to below any positive double
takes fewer than 2200 steps (the Python loops have no bound; a hang there is a `FUEL` error here) -/
def bisectFuel : Nat := 2200

/-- `same_price_ts`: the timestep of `sorted_ts[sorted_idx]` and of the following entries as long as
`abs(next_cost - cost) < EPS or next_cost <= PRICE_THRESHOLD`; returns the list and the next index -/
def samePrice (env : Env α) (sorted : List (α × Nat)) (sortedIdx : Nat) (cost : α) (startIdx : Nat) :
    List Nat × Nat :=
  let more := (sorted.drop (sortedIdx + 1)).takeWhile
    (fun e => decide (pyabs (e.1 - cost) < env.eps) || decide (e.1 ≤ env.priceThreshold))
  (startIdx :: more.map (·.2), sortedIdx + 1 + more.length)

/-- the price-ordered charging loop `while sorted_idx < len(sorted_ts):` of one vehicle -/
def chargeLoop (ops : Ops α B) (env : Env α) (v : VehicleS α B) (ts : List (TS α))
    (sorted : List (α × Nat)) : Nat → VSt α B → Py (VSt α B)
  | 0, _ => .error .fuel
  | fuel + 1, st =>
    match sorted[st.sortedIdx]? with
    | none => .ok st                                            -- sorted_idx == len(sorted_ts)
    | some (cost, startIdx) =>
      let desired := (if cost < env.priceThreshold then 1 else v.desiredSoc) - env.eps
      if desired ≤ ops.soc st.sim then .ok { st with sortedIdx := 0 }
      else do
        let (same, next) := samePrice env sorted st.sortedIdx cost startIdx
        let oldSoc := ops.soc st.sim
        let (power, sim) ← naivePass ops st.cs v.minChargingPower ts same st.power st.sim
        let (power, sim) ← (if desired ≤ ops.soc sim then
            -- repaired (fixes/BM3.diff): `max_power = cs.max_power - min(cs.current_power, 0)` (pinned: `cs.max_power`)
            bisect ops env.eps st.cs v.minChargingPower ts same oldSoc desired bisectFuel 0
              (st.cs.maxPower - pymin st.cs.currentPower 0) false power sim
          else pure (power, sim))
        let st := { st with sortedIdx := next, power := power, sim := sim }
        match power.head? with
        | none => .error .indexError                              -- power[0] on an empty list
        | some p0 =>
          if same.contains 0 && !(isZero p0) then do                -- repaired (BM1): `0 in same_price_ts`
            let (bat', avg) ← ops.load st.bat none none (some p0)
            .ok ({ st with bat := bat' }.book avg)
          else chargeLoop ops env v ts sorted fuel st

/-- state of the inner `for (cost, ts_idx) in charging_ts:` of the V2G search -/
structure CompSt (α B : Type) where
  broke : Bool
  power : List α
  sortedIdx : Nat
  simPower : Option α
  sim : B

def compStep (ops : Ops α B) (v : VehicleS α B) (cs : StationS α) (ts : List (TS α))
    (realSoc v2gCost : α) (c : CompSt α B) (e : α × Nat) : Py (CompSt α B) :=
  if c.broke then .ok c
  else if v.desiredSoc - ops.soc c.sim ≤ 0 then .ok { c with broke := true }
  else if v2gCost ≤ e.1 then .ok c
  else do
    let t ← lget ts e.2
    let cur ← lget c.power e.2
    let p := clampV cs v.minChargingPower (t.power - cur)
    let power := c.power.set e.2 (cur + p)
    let simPower := if e.2 == 0 then some p else c.simPower
    let sim ← simulate ops v.dischargeLimit power (ops.setSoc c.sim realSoc)
    .ok { c with power := power, sortedIdx := c.sortedIdx + 1, simPower := simPower, sim := sim }

/-- "apply for real" of the V2G search -/
def applyV2g (ops : Ops α B) (v : VehicleS α B) (st : VSt α B) (sp : α) : Py (VSt α B) :=
  if 0 < sp then do
    let (bat', avg) ← ops.load st.bat none none (some sp)
    .ok ({ st with bat := bat' }.book avg)
  else if sp < 0 then do
    let (bat', avg) ← ops.unload st.bat (some (-sp)) (some v.dischargeLimit) none
    .ok ({ st with bat := bat', dis := st.dis ++ [st.cs.id] }.book (-avg))
  else .ok (st.book 0)

/-- `while vehicle.vehicle_type.v2g and v2g_sorted_idx > sorted_idx:`; the argument is
`v2g_sorted_idx` before the decrement -/
def v2gLoop (ops : Ops α B) (env : Env α) (v : VehicleS α B) (ts : List (TS α))
    (sorted : List (α × Nat)) : Nat → VSt α B → Py (VSt α B)
  | 0, st => .ok st
  | k + 1, st =>
    if !(decide (st.sortedIdx < k + 1)) then .ok st
    else do
      let (v2gCost, v2gTs) ← lget sorted k
      if v2gCost < env.priceThreshold then .ok st
      else do
        let t ← lget ts v2gTs
        let p0 := -(ops.unloadMaxPower st.bat)
        let gcLim := t.power - ((2 : Nat) : α) * t.maxPower
        let csLim := -(st.cs.maxPower + st.cs.currentPower)
        let p := pymin (pymax (pymax gcLim csLim) p0) 0
        let power := st.power.set v2gTs p
        let simPower := if v2gTs == 0 then some p else none
        let realSoc := ops.soc st.bat
        let sim ← simulate ops v.dischargeLimit power (ops.setSoc st.sim realSoc)
        let chargingTs := (sorted.take (k + 1)).drop st.sortedIdx
        let c ← chargingTs.foldlM (compStep ops v st.cs ts realSoc v2gCost)
          ⟨false, power, st.sortedIdx, simPower, sim⟩
        -- for … else: no break → reset
        let st' : VSt α B := if c.broke then { st with power := c.power, sortedIdx := c.sortedIdx, sim := c.sim }
          else { st with sim := c.sim }
        match (if c.broke then c.simPower else none) with
        | some sp => applyV2g ops v st' sp
        | none => v2gLoop ops env v ts sorted k st'

/-- "update timesteps info": replay `power` on the simulated battery from the original SoC and
adjust the forecast by the average powers -/
def updateTimesteps (ops : Ops α B) (dischargeLimit : α) :
    List α → List (TS α) → B → Py (List (TS α))
  | [], ts, _ => .ok ts
  | _ :: _, [], _ => .error .indexError
  | p :: rest, t :: ts, sim =>
    if 0 < p then do
      let (sim', avg) ← ops.load sim none none (some p)
      let r ← updateTimesteps ops dischargeLimit rest ts sim'
      .ok ({ t with power := t.power - avg } :: r)
    else if p < 0 then do
      let (sim', avg) ← ops.unload sim (some (-p)) (some dischargeLimit) none
      let r ← updateTimesteps ops dischargeLimit rest ts sim'
      .ok ({ t with power := t.power + avg } :: r)
    else do
      let r ← updateTimesteps ops dischargeLimit rest ts sim
      .ok (t :: r)

/-- state of `step_gc` across the vehicle loop -/
structure GSt (α B : Type) where
  w : SWorld α B
  gc : GcS α
  ts : List (TS α)
  cmds : List (String × α)
  dis : List String

/-- body of `for vid, vehicle in vehicles:` (planning, V2G, forecast update) -/
def vehicleBody (ops : Ops α B) (env : Env α) (g : GSt α B) (vid : String) : Py (GSt α B) :=
  match g.w.vehicle? vid with
  | none => .error .keyError
  | some v =>
    match v.cs with
    | none => .error .keyError
    | some csId =>
      match g.w.station? csId with
      | none => .error .keyError
      | some cs =>
        match v.etd with
        | none => .error .typeError                               -- None - datetime
        | some etd => do
          let originalSoc := ops.soc v.bat
          let tsLeave := ceilDiv (etd - env.now) env.interval
          let vts := sliceTo g.ts tsLeave
          let sorted ← sortedTs vts
          let st0 : VSt α B := ⟨g.gc, cs, v.bat, v.bat, List.replicate sorted.length 0, 0, g.cmds, g.dis⟩
          let st ← chargeLoop ops env v g.ts sorted (sorted.length + 1) st0
          let st ← (if v.v2g then v2gLoop ops env v g.ts sorted sorted.length st else pure st)
          let ts' ← updateTimesteps ops v.dischargeLimit st.power g.ts (ops.setSoc st.sim originalSoc)
          let w := (g.w.setVehicle { v with bat := st.bat }).setStation st.cs
          .ok ⟨w, st.gc, ts', st.cmds, st.dis⟩

/-- body of the surplus loop `for vid, vehicle in vehicles:` -/
def surplusBody (ops : Ops α B) (env : Env α) (g : GSt α B) (vid : String) : Py (GSt α B) :=
  match g.w.vehicle? vid with
  | none => .error .keyError
  | some v =>
    match v.cs with
    | none => .error .keyError
    | some csId =>
      match g.w.station? csId with
      | none => .error .keyError
      | some cs =>
        let avail := currentLoadExcl g.gc g.dis
        if avail < -env.eps ∧ !(g.dis.contains csId) then do
          let power := clampV cs v.minChargingPower (-avail)
          let (bat', avg) ← ops.load v.bat (some power) none none
          let (gc', val) := g.gc.addLoad csId avg
          let w := (g.w.setVehicle { v with bat := bat' }).setStation
            { cs with currentPower := cs.currentPower + avg }
          .ok { g with w := w, gc := gc', cmds := sdSet g.cmds csId val }
        else .ok g

/-- `for num_cheap_ts in range(len(timesteps)): if get_cost(1, …) > PRICE_THRESHOLD: break`
(the loop variable after the loop: the index of the first non-cheap timestep, or `len - 1` when all
are cheap; `none` for an empty list: the name is unbound) -/
def numCheapAux (thr : α) : List (TS α) → Nat → Py Nat
  | [], i => .ok (i - 1)
  | t :: rest, i => do
    let c ← cost1 t.cost
    if thr < c then .ok i else numCheapAux thr rest (i + 1)

def numCheap (thr : α) (ts : List (TS α)) : Py (Option Nat) :=
  match ts with
  | [] => .ok none
  | _ => (numCheapAux thr ts 0).map some

/-- `for i in range(num_cheap_ts)`: naive greedy pass on the stationary battery -/
def batNaive (ops : Ops α B) (minCh : α) : List (TS α) → Nat → B → α → Py (B × α)
  | [], _, bat, bp => .ok (bat, bp)
  | t :: rest, i, bat, bp => do
    let p := if t.power < minCh then 0 else t.power
    let (bat', _) ← ops.load bat (some p) none none
    batNaive ops minCh rest (i + 1) bat' (if i == 0 then p else bp)

/-- `for i in range(0, num_cheap_ts)` inside the battery bisection -/
def batPass (ops : Ops α B) (minCh power : α) : List (TS α) → Nat → B → α → Py (B × α)
  | [], _, bat, bp => .ok (bat, bp)
  | t :: rest, i, bat, bp => do
    let p := pymin t.power power
    let p := if p < minCh then 0 else p
    let (bat', _) ← ops.load bat none none (some p)
    batPass ops minCh power rest (i + 1) bat' (if i == 0 then p else bp)

/-- `while max_power - min_power > self.EPS:` of the battery block -/
def batBisect (ops : Ops α B) (eps : α) (minCh : α) (cheap : List (TS α)) (oldSoc : α) :
    Nat → α → α → B → α → Py (B × α)
  | 0, _, _, _, _ => .error .fuel
  | fuel + 1, minP, maxP, bat, bp =>
    if eps < maxP - minP then do
      let power := (minP + maxP) / ((2 : Nat) : α)
      let (bat', bp') ← batPass ops minCh power cheap 0 (ops.setSoc bat oldSoc) bp
      if (1 : α) - eps < ops.soc bat' then batBisect ops eps minCh cheap oldSoc fuel minP power bat' bp'
      else batBisect ops eps minCh cheap oldSoc fuel power maxP bat' bp'
    else .ok (bat, bp)

/-- repaired (BM2): `if num_cheap_ts > 0: timesteps[0]["power"] = min(timesteps[0]["power"],
gc.cur_max_power - gc.get_current_load())` — the forecast of the current timestep knows neither the
surplus pass nor other batteries; it is capped by what is left at the connector right now -/
def capTs (n : Nat) (ts : List (TS α)) (headroom : α) : List (TS α) :=
  if 0 < n then
    match ts with
    | [] => []
    | t0 :: rest => { t0 with power := pymin t0.power headroom } :: rest
  else ts

/-- body of `for bat_id, battery in self.world_state.batteries.items():` -/
def batteryBody (ops : Ops α B) (env : Env α) (nCheap : Option Nat) (g : GSt α B) (bid : String) :
    Py (GSt α B) :=
  match g.w.batteries.find? (·.id == bid) with
  | none => .error .keyError
  | some b =>
    if b.parent != g.gc.id then .ok g
    else
      match nCheap with
      | none => .error .exception          -- UnboundLocalError (empty `timesteps`); kind not in `PyErr`
      | some n => do
        let avail := currentLoadExcl g.gc g.dis
        let ts := capTs n g.ts (g.gc.curMax - g.gc.currentLoad)
        let oldSoc := ops.soc b.bat
        let cheap := ts.take n
        let (bat, bp) ← batNaive ops b.minChargingPower cheap 0 b.bat (pymax (-avail) 0)
        let (bat, bp) ← (if (1 : α) - env.eps < ops.soc bat then
            batBisect ops env.eps b.minChargingPower cheap oldSoc bisectFuel 0 g.gc.curMax bat 0
          else pure (bat, bp))
        let (bat, avg) ← ops.load (ops.setSoc bat oldSoc) none none (some bp)
        let gc := (g.gc.addLoad bid avg).1
        if 0 < avail ∧ n == 0 ∧ 0 < ops.soc bat then do
          let bp := pymin avail (gc.curMax + gc.currentLoad)
          let (bat, out) ← ops.unload bat none none (some bp)
          let gc := (gc.addLoad bid (-out)).1
          .ok { g with w := g.w.setBattery { b with bat := bat }, gc := gc, ts := ts, dis := g.dis ++ [bid] }
        else .ok { g with w := g.w.setBattery { b with bat := bat }, gc := gc, ts := ts }

/-- the vehicles charging at connector `gcId` (dict comprehension; KeyError for an unknown station) -/
def vehiclesAt (w : SWorld α B) (gcId : String) : Py (List (VehicleS α B)) :=
  w.vehicles.filterMapM (fun v =>
    match v.cs with
    | none => .ok none
    | some csId =>
      match w.station? csId with
      | none => .error .keyError
      | some cs => .ok (if cs.parent == gcId then some v else none))

/-- `sorted(…, key=lambda x: (x[1].estimated_time_of_departure, x[0]))`: TypeError when a `None`
departure time meets a datetime -/
def sortVehicles (vs : List (VehicleS α B)) : Py (List String) :=
  if vs.any (·.etd.isNone) && vs.any (·.etd.isSome) then .error .typeError
  else
    let keyed := vs.map (fun v => (v.etd.getD 0, v.id))
    .ok ((isort (fun a b => decide (a.1 < b.1) || (decide (a.1 = b.1) && decide (a.2 ≤ b.2))) keyed).map (·.2))

/-- `BalancedMarket.step_gc(gc_id, gc)` ↦ (world', charging_stations) -/
def stepGc (ops : Ops α B) (env : Env α) (w : SWorld α B) (gcId : String) :
    Py (SWorld α B × List (String × α)) :=
  match w.gc? gcId with
  | none => .error .keyError
  | some gc => do
    let vs ← vehiclesAt w gcId
    let vids ← sortVehicles vs
    let ts ← timestepsOf ops env gc
    let g ← vids.foldlM (vehicleBody ops env) ⟨w, gc, ts, [], []⟩
    let g ← vids.foldlM (surplusBody ops env) g
    let nCheap ← numCheap env.priceThreshold g.ts
    let g ← (w.batteries.map (·.id)).foldlM (batteryBody ops env nCheap) g
    .ok (g.w.setGc g.gc, g.cmds)

/-- `BalancedMarket.step()` ↦ (world', commands) -/
def step (ops : Ops α B) (env : Env α) (w : SWorld α B) : Py (SWorld α B × List (String × α)) :=
  (w.gcs.map (·.id)).foldlM (fun (st : SWorld α B × List (String × α)) gid => do
    let (w', c) ← stepGc ops env st.1 gid
    pure (w', sdUpdate st.2 c)) (resetStations w, [])

end
section
variable {α : Type} [Add α] [Sub α] [Mul α] [Div α] [Neg α] [LT α] [LE α]
  [DecidableLT α] [DecidableLE α] [OfNat α 0] [OfNat α 1] [BatNum α]

/-- the executable instance: the battery model (Model/Battery.lean) for one fixed interval `T` (hours);
`battery.soc = x` writes the field, builtin `sum` is the number type's (`BatNum.sum`) -/
def modelOps (T : α) : Ops α (Battery α) where
  soc b := b.soc
  capacity b := b.capacity
  efficiency b := b.efficiency
  unloadMaxPower b := b.unloadingCurve.maxPower
  load b mp ts tp := (b.load T mp ts tp).map (fun r => (r.1, r.2.1))
  unload b mp ts tp := (b.unload T mp ts tp).map (fun r => (r.1, r.2.1))
  available b := (b.getAvailablePower T).map (fun r => r.2)
  setSoc b s := { b with soc := s }
  sum := BatNum.sum
end

end SpiceEv.BalancedMarket
