/-
Service lemmas for the model of `peak_load_window`: on a constant charging curve, when the even power fits under
station, curve and connector headroom in every outside-window step of the standing time, the plan's simulated SoC
at departure is exactly the desired SoC.
-/
import SpiceEv.Proofs.StratPeakLoadWindow
import Mathlib.Tactic.FieldSimp
set_option linter.unusedSectionVars false
set_option linter.unusedSimpArgs false
set_option linter.unusedVariables false
namespace SpiceEv.PeakLoadWindow
open SpiceEv
variable {α B : Type} [Field α] [LinearOrder α] [IsStrictOrderedRing α]

/-- ideal battery with a constant charging power `P`: a target power `0 ≤ p ≤ P` that does not overfill the
battery is delivered exactly, the SoC rises by `p · efficiency / (capacity · ts_per_hour)` -/
structure IdealConst (ops : BatOps α B) (tsPerHour P : α) : Prop where
  load : ∀ b p, 0 ≤ p → p ≤ P → ops.soc b + p * ops.efficiency b / (ops.capacity b * tsPerHour) ≤ 1 →
    ∃ b', ops.load b none none (some p) = .ok (b', p) ∧
      ops.soc b' = ops.soc b + p * ops.efficiency b / (ops.capacity b * tsPerHour) ∧
      ops.capacity b' = ops.capacity b ∧ ops.efficiency b' = ops.efficiency b

theorem fdiv_ok (a : α) {b : α} (hb : b ≠ 0) : fdiv a b = .ok (a / b) := by
  unfold fdiv eqZero
  have : ¬ (b ≤ 0 ∧ 0 ≤ b) := fun h => hb (le_antisymm h.1 h.2)
  simp only [Bool.and_eq_true, decide_eq_true_eq, this, if_false, Bool.false_eq_true]

/-- the even power `bp` passes `charge_vehicle` unchanged in timestep `ts` -/
def Fits (cs : StationS α) (vmin bp : α) (ts : Ts α) : Prop :=
  clampPower bp cs.currentPower cs.maxPower cs.minPower vmin = bp ∧ bp ≤ ts.maxPower - ts.power

theorem constPass_reaches (ops : BatOps α B) (tsPerHour P : α) (ideal : IdealConst ops tsPerHour P)
    (htsph : 0 < tsPerHour) (cs : StationS α) (vmin desired bp : α) (hd1 : desired ≤ 1) (hbp0 : 0 ≤ bp)
    (hbpP : bp ≤ P) :
    ∀ (l : List (Ts α)) (i : Nat) (pl pl' : Plan α B) (m' : Int),
      0 < ops.capacity pl.bat → 0 < ops.efficiency pl.bat → ops.soc pl.bat ≤ desired →
      (∀ ts ∈ l, ts.window = false → Fits cs vmin bp ts) →
      (0 < (l.filter (fun ts => !ts.window)).length →
        bp = (desired - ops.soc pl.bat) * ops.capacity pl.bat * tsPerHour
          / (((l.filter (fun ts => !ts.window)).length : Nat) : α) / ops.efficiency pl.bat) →
      constPass ops tsPerHour cs vmin desired l i (pl, (((l.filter (fun ts => !ts.window)).length : Nat) : Int))
        = .ok (pl', m') →
      (0 < (l.filter (fun ts => !ts.window)).length → ops.soc pl'.bat = desired) ∧
      ((l.filter (fun ts => !ts.window)).length = 0 → ops.soc pl'.bat = ops.soc pl.bat) := by
  intro l
  induction l with
  | nil =>
    intro i pl pl' m' _ _ _ _ _ h
    simp only [constPass, Except.ok.injEq, Prod.mk.injEq] at h
    obtain ⟨rfl, _⟩ := h
    exact ⟨by simp, fun _ => rfl⟩
  | cons ts rest ih =>
    intro i pl pl' m' hcap heff hsoc hfit hbp h
    unfold constPass at h
    by_cases hw : ts.window = true
    · simp only [hw, if_true] at h
      have hf : (List.filter (fun ts => !ts.window) (ts :: rest)) = List.filter (fun ts => !ts.window) rest := by
        simp [List.filter_cons, hw]
      rw [hf] at h hbp ⊢
      exact ih _ _ _ _ hcap heff hsoc (fun t ht => hfit t (List.mem_cons_of_mem _ ht)) hbp h
    · have hw' : ts.window = false := by simpa using hw
      simp only [hw', Bool.false_eq_true, if_false] at h
      set k := (List.filter (fun ts => !ts.window) rest).length with hk
      have hf : (List.filter (fun ts => !ts.window) (ts :: rest)).length = k + 1 := by
        simp [List.filter_cons, hw', hk]
      rw [hf] at h hbp ⊢
      have hbp' := hbp (by omega)
      have hk1 : (((k + 1 : Nat) : Int) : α) = (k : α) + 1 := by push_cast; ring
      have hk1' : (((k + 1 : Nat)) : α) = (k : α) + 1 := by push_cast; ring
      have hkpos : (0 : α) < (k : α) + 1 := by positivity
      have hE : energyNeeded ops desired pl.bat = (desired - ops.soc pl.bat) * ops.capacity pl.bat := by
        unfold energyNeeded
        rw [pymax_eq, max_eq_left (by linarith)]
      rw [hE, hk1, fdiv_ok _ (ne_of_gt hkpos)] at h
      simp only [bind, Except.bind] at h
      rw [fdiv_ok _ (ne_of_gt heff)] at h
      simp only at h
      rw [hk1'] at hbp'
      rw [← hbp'] at h
      obtain ⟨f1, f2⟩ := hfit ts (by simp) hw'
      -- the SoC after this step
      have hroom : ops.soc pl.bat + bp * ops.efficiency pl.bat / (ops.capacity pl.bat * tsPerHour)
          = ops.soc pl.bat + (desired - ops.soc pl.bat) / ((k : α) + 1) := by
        rw [hbp']; field_simp
      have hle : ops.soc pl.bat + (desired - ops.soc pl.bat) / ((k : α) + 1) ≤ desired := by
        have : (desired - ops.soc pl.bat) / ((k : α) + 1) ≤ desired - ops.soc pl.bat := by
          apply div_le_self (by linarith)
          have : (0 : α) ≤ (k : α) := Nat.cast_nonneg k
          linarith
        linarith
      obtain ⟨b', hl, hs', hc', he'⟩ := ideal.load pl.bat bp hbp0 hbpP (by rw [hroom]; linarith)
      have hcv : chargeVehicle ops cs vmin pl.bat bp ts = .ok (b', bp, bp) := by
        unfold chargeVehicle
        simp only [f1, pymin_eq, min_eq_left f2, hl, bind, Except.bind]
      rw [hcv] at h
      simp only at h
      have hm : (((k + 1 : Nat) : Int) - 1) = ((k : Nat) : Int) := by push_cast; ring
      rw [hm] at h
      have hsoc' : ops.soc b' ≤ desired := by rw [hs', hroom]; exact hle
      have := ih (i + 1) _ pl' m' (by simpa [hc'] using hcap) (by simpa [he'] using heff) (by simpa using hsoc')
        (fun t ht => hfit t (List.mem_cons_of_mem _ ht))
        (by
          intro hkp
          simp only [hc', he', hs', hroom]
          have hk0 : (0 : α) < (k : α) := by exact_mod_cast hkp
          rw [hbp']
          field_simp
          ring) h
      obtain ⟨g1, g2⟩ := this
      refine ⟨fun _ => ?_, fun hz => by omega⟩
      rcases Nat.eq_zero_or_pos k with hk0 | hkp
      · rw [g2 hk0]
        simp only [hs', hroom, hk0, Nat.cast_zero, zero_add, div_one]
        ring
      · exact g1 hkp

/-- the outside-window stage on a constant curve: if the even power fits everywhere, the simulated SoC at
departure is the desired SoC -/
theorem planOutside_const_reaches (ops : BatOps α B) (P : α) (env : PEnv α)
    (ideal : IdealConst ops env.tsPerHour P) (htsph : 0 < env.tsPerHour) (cs : StationS α) (pv : PVeh α B)
    (connected : List (Ts α)) (n : Nat) (pl1 : Plan α B)
    (hconst : constantCurve pv.chargePowers = true)
    (hcap : 0 < ops.capacity pv.v.bat) (heff : 0 < ops.efficiency pv.v.bat)
    (hneed : ops.soc pv.v.bat < pv.v.desiredSoc) (hd1 : pv.v.desiredSoc ≤ 1)
    (hout : 0 < (connected.filter (fun ts => !ts.window)).length)
    (hbpP : (pv.v.desiredSoc - ops.soc pv.v.bat) * ops.capacity pv.v.bat * env.tsPerHour
        / (((connected.filter (fun ts => !ts.window)).length : Nat) : α) / ops.efficiency pv.v.bat ≤ P)
    (hfit : ∀ ts ∈ connected, ts.window = false → Fits cs pv.v.minChargingPower
      ((pv.v.desiredSoc - ops.soc pv.v.bat) * ops.capacity pv.v.bat * env.tsPerHour
        / (((connected.filter (fun ts => !ts.window)).length : Nat) : α) / ops.efficiency pv.v.bat) ts)
    (h : planOutside ops env cs pv connected n = .ok pl1) :
    ops.soc pl1.bat = pv.v.desiredSoc := by
  set k := (connected.filter (fun ts => !ts.window)).length with hk
  set bp := (pv.v.desiredSoc - ops.soc pv.v.bat) * ops.capacity pv.v.bat * env.tsPerHour / ((k : Nat) : α)
    / ops.efficiency pv.v.bat with hbp
  have hkpos : (0 : α) < ((k : Nat) : α) := by exact_mod_cast hout
  have hbppos : 0 < bp := by
    rw [hbp]
    apply div_pos _ heff
    apply div_pos _ hkpos
    apply mul_pos (mul_pos (by linarith) hcap) htsph
  have hE : energyNeeded ops pv.v.desiredSoc pv.v.bat = (pv.v.desiredSoc - ops.soc pv.v.bat) * ops.capacity pv.v.bat := by
    unfold energyNeeded
    rw [pymax_eq, max_eq_left (by linarith)]
  unfold planOutside at h
  simp only [← hk] at h
  have hkI : (0 : Int) < ((k : Nat) : Int) := by exact_mod_cast hout
  simp only [hkI, if_true, hE, Int.cast_natCast] at h
  rw [fdiv_ok _ (ne_of_gt hkpos)] at h
  simp only [bind, Except.bind] at h
  rw [fdiv_ok _ (ne_of_gt heff)] at h
  simp only [← hbp, hbppos, if_true, hconst, Bool.not_true, Bool.false_eq_true, if_false] at h
  split at h
  · cases h
  · rename_i r hr
    simp only [Except.ok.injEq] at h
    subst h
    obtain ⟨pl', m'⟩ := r
    have := constPass_reaches ops env.tsPerHour P ideal htsph cs pv.v.minChargingPower pv.v.desiredSoc bp hd1
      hbppos.le hbpP connected 0 _ pl' m' hcap heff hneed.le hfit (fun _ => by rw [hbp]) hr
    exact this.1 hout

/-- the example battery is ideal with constant power `pmax` (hourly steps) -/
theorem toyOps_ideal (cap pmax : ℚ) (hcap : 0 < cap) : IdealConst (toyOps cap pmax) 1 pmax := by
  constructor
  intro b p hp0 hpP hroom
  simp only [toyOps, mul_one, div_one] at hroom
  have hp : p ≤ (1 - b) * cap := by
    have : p / cap ≤ 1 - b := by linarith
    rwa [div_le_iff₀ hcap] at this
  have h1 : min (min p pmax) (min pmax ((1 - b) * cap)) = p := by
    rw [min_eq_left hpP]
    exact min_eq_left (le_min hpP hp)
  refine ⟨b + p / cap, ?_, ?_, rfl, rfl⟩
  · simp only [toyOps, Option.getD_some, Option.getD_none, h1, max_eq_right hp0]
  · simp only [toyOps, mul_one, div_one]

end SpiceEv.PeakLoadWindow
