/- driver commands for Model/StratDistributed.lean (`Distributed.__init__` / `Distributed.step` on the Float battery model) -/
import SpiceEv.Wire
import SpiceEv.Model.StratDistributed
import SpiceEv.Cmd.Strategies
import SpiceEv.Cmd.StratPeakShaving
import SpiceEv.Cmd.StratPeakLoadWindow
namespace SpiceEv.Cmd.StratDistributed
open SpiceEv SpiceEv.Distrib SpiceEv.Cmd.Strategies

def pCurve : P (Curve Float) := do
  let pts ← P.list pPoint; let m ← P.num Float
  pure ⟨pts, m⟩

def pRule : P Rule := do
  let r ← P.tok
  if r == "g" then pure Rule.greedy else if r == "b" then pure Rule.balanced else failure

def pKind : P Kind := do
  let r ← P.tok
  if r == "deps" then pure Kind.deps else if r == "opps" then pure Kind.opps else failure

def pSub : P (SubStrat Float) := do
  let rule ← pRule
  let eps ← P.num Float; let thr ← P.num Float; let tsph ← P.num Float; let interval ← P.int
  let ps ← P.opt (do let h ← P.int; let pf ← P.bool; let fuel ← P.nat; pure (⟨h, pf, fuel⟩ : PSCfg))
  let plw ← P.opt (do
    let start ← P.int; let stop ← P.int; let fuel ← P.nat
    let ops ← SpiceEv.Cmd.StratPeakLoadWindow.pOperators
    let table ← P.list (P.list SpiceEv.Cmd.StratPeakLoadWindow.pEv)
    pure (⟨start, stop, fuel, ops, table⟩ : PLWCfg Float))
  pure ⟨rule, eps, thr, tsph, interval, ps, plw⟩

def pVt : P (VirtVT Float) := do
  let cap ← P.num Float; let cc ← pCurve; let mc ← P.num Float; let eff ← P.num Float
  let v2g ← P.bool; let dl ← P.num Float; let dc ← pCurve
  pure ⟨cap, cc, mc, eff, v2g, dl, dc⟩

def pEvent : P (ArrivalEv Float) := do
  let start ← P.int; let vid ← P.tok; let cs ← P.opt P.tok
  let sd ← P.opt (P.num Float); let des ← P.opt (P.num Float); let etd ← P.bool
  pure ⟨start, vid, cs, sd, des, etd⟩

def pIds : P (List String) := P.list P.tok

/-- the battery operations of `Distributed` for one interval `T` (hours) -/
def floatDOps (T : Float) : DOps Float (Battery Float) where
  bat := floatOps T
  newBattery vt soc := Battery.new Cmd.Battery.e5 vt.capacity vt.chargingCurve soc vt.efficiency (some vt.dischargeCurve)
  setSoc b s := { b with soc := s }
  loadMaxPower b := b.loadingCurve.maxPower
  sum := floatSum

def rCurve (c : Curve Float) : String :=
  renderList (fun (p : Float × Float) => rNum p.1 ++ " " ++ rNum p.2) c.points ++ " " ++ rNum c.maxPower

def rVt (kv : String × VirtVT Float) : String :=
  let v := kv.2
  kv.1 ++ " " ++ rNum v.capacity ++ " " ++ rCurve v.chargingCurve ++ " " ++ rNum v.minChargingPower ++ " " ++
    rNum v.efficiency ++ " " ++ renderBool v.v2g ++ " " ++ rNum v.dischargeLimit ++ " " ++ rCurve v.dischargeCurve

def rCs (s : StationS Float) : String :=
  s.id ++ " " ++ s.parent ++ " " ++ rNum s.maxPower ++ " " ++ rNum s.minPower ++ " " ++ rNum s.currentPower

def rIdsKV (kv : String × List String) : String := kv.1 ++ " " ++ renderList id kv.2

def rInit (i : DInit Float) : String :=
  renderList (fun (kv : String × Kind) => kv.1 ++ " " ++ kv.2.name) i.strategies ++ " | " ++
  renderList rIdsKV i.gcBattery ++ " | " ++ renderList rVt i.virtualVt ++ " | " ++ renderList rCs i.virtualCs

def pInit : P (DInit Float) := do
  let strategies ← P.list (do let k ← P.tok; let v ← pKind; pure (k, v))
  let gcb ← P.list (do let k ← P.tok; let v ← pIds; pure (k, v))
  let vvt ← P.list (do let k ← P.tok; let v ← pVt; pure (k, v))
  let vcs ← P.list pCs
  pure { strategies := strategies, gcBattery := gcb, virtualVt := vvt, virtualCs := vcs }

def pBatC : P (StatBatS Float (Battery Float) × Curve Float) := do
  let b ← pBat; let c ← pCurve; pure (b, c)

/-- `init_distributed <gcs> <stations> <vehicles> <batteries + charging_curve>` →
`strategies | gc_battery | virtual_vt | virtual_cs | connected` or the exception -/
def cmdInit : P String := do
  let gcs ← P.list pGc; let css ← P.list pCs; let vs ← P.list pVeh; let bs ← P.list pBatC
  let ops := floatOps 1.0
  match init ops (bs.map (fun bc => (bc.1.id, bc.2))) ⟨gcs, css, vs, bs.map (·.1)⟩ with
  | .error e => pure (renderErr e)
  | .ok (ini, conn) => pure (rInit ini ++ " | " ++ renderList rIdsKV conn)

/-- `step_distributed eps threshold tsPerHour now interval <sub opps> <sub deps> <gcs> <number_cs> <stations> <vehicles>
<batteries> <connected> <init state> <events of a peak-shaving opps sub-strategy> <… deps …> <arrival events>
<all future events>` (sub = `rule eps threshold tsPerHour interval <N | S horizon perfect fuel>`) →
`commands | loads and limit per connector | station power | vehicle SoCs | battery SoCs | connected | virtual station power
| #events left in the opps / deps sub-strategy`
or the exception -/
def cmdStep : P String := do
  let eps ← P.num Float; let thr ← P.num Float; let tsph ← P.num Float
  let now ← P.int; let interval ← P.int
  let opps ← pSub; let deps ← pSub
  let gcs ← P.list pGc
  let ncs ← P.list (do let k ← P.tok; let v ← P.opt P.int; pure (k, v))
  let css ← P.list pCs; let vs ← P.list pVeh; let bs ← P.list pBat
  let conn ← P.list (do let k ← P.tok; let v ← pIds; pure (k, v))
  let ini ← pInit
  let oe ← P.list SpiceEv.PeakShaving.Cmd.pEv; let dEv ← P.list SpiceEv.PeakShaving.Cmd.pEv
  let ini := { ini with oppsEvents := oe, depsEvents := dEv }
  let evs ← P.list pEvent
  let fut ← P.list SpiceEv.PeakShaving.Cmd.pEv
  let nowDt ← Cmd.Util.pDateTime
  let plwGc ← P.list (do
    let k ← P.tok; let op ← P.tok; let lvl ← P.opt P.tok; let win ← P.opt P.bool; pure (k, op, lvl, win))
  let plwVeh ← P.list (do
    let k ← P.tok; let ps ← P.list (P.num Float); let sch ← P.opt (P.num Float); pure (k, ps, sch))
  let oPk ← P.list (do let k ← P.tok; let v ← P.num Float; pure (k, v))
  let dPk ← P.list (do let k ← P.tok; let v ← P.num Float; pure (k, v))
  let ini := { ini with oppsPeaks := oPk, depsPeaks := dPk }
  let T := Cmd.Battery.hoursOfMicros interval
  let de : DEnv Float := ⟨⟨eps, thr, tsph, now, interval⟩, T, opps, deps, fut, nowDt, plwGc, plwVeh⟩
  match step (floatDOps T) de ⟨⟨gcs, css, vs, bs⟩, ncs, conn, ini, evs⟩ with
  | .error e => pure (renderErr e)
  | .ok (s, cmds) =>
    let w := s.world
    pure (renderList rKV cmds ++ " | " ++
      " ; ".intercalate (w.gcs.map (fun g => g.id ++ " " ++ rNum g.curMax ++ " " ++ renderList rKV g.loads)) ++ " | " ++
      " ".intercalate (w.stations.map (fun s => rNum s.currentPower)) ++ " | " ++
      " ".intercalate (w.vehicles.map (fun v => rNum v.bat.soc)) ++ " | " ++
      " ".intercalate (w.batteries.map (fun b => rNum b.bat.soc)) ++ " | " ++
      renderList rIdsKV s.connected ++ " | " ++
      " ".intercalate (s.init.virtualCs.map (fun c => rNum c.currentPower)) ++ " | " ++
      toString s.init.oppsEvents.length ++ " " ++ toString s.init.depsEvents.length ++ " | " ++
      renderList rKV s.init.oppsPeaks ++ " | " ++ renderList rKV s.init.depsPeaks)

/-- `signal_distributed <n> (signal start)…` → the signal times after `__init__` -/
def cmdSignal : P String := do
  let evs ← P.list (do let a ← P.int; let b ← P.int; pure (a, b))
  pure (renderList (fun (e : Int × Int) => toString (adjustSignal e.1 e.2)) evs)

def handlers : List (String × Handler) :=
  [("signal_distributed", runP cmdSignal), ("init_distributed", runP cmdInit), ("step_distributed", runP cmdStep)]

end SpiceEv.Cmd.StratDistributed
