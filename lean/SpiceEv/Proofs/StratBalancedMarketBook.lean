/-
Bookkeeping lemmas for the `BalancedMarket` model: the world changes only through booked real
battery calls; the look-ahead simulations leave no trace.
-/
import SpiceEv.Proofs.StratBalancedMarketLimit
set_option linter.unusedSectionVars false
set_option linter.unusedSimpArgs false
set_option linter.unusedVariables false
namespace SpiceEv.BalancedMarket
open SpiceEv
variable {α B : Type} [Field α] [LinearOrder α] [IsStrictOrderedRing α]

/-- `gc.current_loads.get(k, 0)` -/
def loadAt (g : GcS α) (k : String) : α := (sdGet g.loads k).getD 0

theorem sdGet_sdSet_self' {β : Type} (l : List (String × β)) (k : String) (x : β) :
    sdGet (sdSet l k x) k = some x := by
  induction l with
  | nil => simp [sdSet, sdGet]
  | cons a rest ih =>
    obtain ⟨k', v'⟩ := a
    unfold sdSet
    by_cases h : (k' == k) = true
    · simp [h, sdGet]
    · simp only [h, Bool.false_eq_true, if_false, sdGet]
      exact ih

theorem sdGet_sdSet_ne' {β : Type} (l : List (String × β)) (k k' : String) (x : β) (h : k' ≠ k) :
    sdGet (sdSet l k x) k' = sdGet l k' := by
  induction l with
  | nil =>
    have : (k == k') = false := by simpa using (Ne.symm h)
    simp [sdSet, sdGet, this]
  | cons a rest ih =>
    obtain ⟨k0, v0⟩ := a
    unfold sdSet
    by_cases h0 : (k0 == k) = true
    · have hk : k0 = k := by simpa using h0
      have : (k0 == k') = false := by rw [hk]; simpa using (Ne.symm h)
      simp [h0, sdGet, this]
    · simp only [h0, Bool.false_eq_true, if_false, sdGet]
      rw [ih]

theorem sdGet_append' {β : Type} (l : List (String × β)) (k k' : String) (x : β) :
    sdGet (l ++ [(k, x)]) k' = match sdGet l k' with
      | some v => some v
      | none => if k == k' then some x else none := by
  induction l with
  | nil => simp [sdGet]
  | cons a rest ih =>
    obtain ⟨k0, v0⟩ := a
    simp only [List.cons_append, sdGet]
    by_cases h0 : (k0 == k') = true
    · simp [h0]
    · simp only [h0, Bool.false_eq_true, if_false]
      exact ih

theorem addLoad_loadAt_self (g : GcS α) (k : String) (v : α) :
    loadAt (g.addLoad k v).1 k = loadAt g k + v ∧ (g.addLoad k v).2 = loadAt (g.addLoad k v).1 k := by
  unfold GcS.addLoad loadAt
  cases h : sdGet g.loads k with
  | none =>
    simp only [sdGet_append', h, beq_self_eq_true, if_true, Option.getD_some, Option.getD_none, zero_add,
      and_self]
  | some old =>
    simp only [sdGet_sdSet_self', Option.getD_some, and_self]

theorem addLoad_loadAt_ne (g : GcS α) (k k' : String) (v : α) (h : k' ≠ k) :
    loadAt (g.addLoad k v).1 k' = loadAt g k' := by
  unfold GcS.addLoad loadAt
  cases h0 : sdGet g.loads k with
  | none =>
    simp only [sdGet_append']
    cases h1 : sdGet g.loads k' with
    | some v' => rfl
    | none =>
      have : (k == k') = false := by simpa using (Ne.symm h)
      simp [this]
  | some old =>
    simp only [sdGet_sdSet_ne' _ _ _ _ h]

/-- a real battery call on a vehicle's battery in the vehicle passes, with its signed average power `a`
(`none`: no call) -/
inductive VehCall (ops : Ops α B) (dl : α) (b b' : B) (a : α) : Prop
  | none (hb : b' = b) (ha : a = 0)
  | loadTarget (p : α) (h : ops.load b none none (some p) = .ok (b', a))
  | loadMax (p : α) (h : ops.load b (some p) none none = .ok (b', a))
  | unload (m out : α) (h : ops.unload b (some m) (some dl) none = .ok (b', out)) (ha : a = -out)

/-- "`st'` is `st` with the average power `a` booked on connector, station and commands (or nothing
booked when no call was made), and nothing else changed" -/
structure Booked (st st' : VSt α B) (a : α) : Prop where
  load : st'.gc.currentLoad = st.gc.currentLoad + a
  entry : loadAt st'.gc st.cs.id = loadAt st.gc st.cs.id + a
  others : ∀ k, k ≠ st.cs.id → loadAt st'.gc k = loadAt st.gc k
  curMax : st'.gc.curMax = st.gc.curMax
  gcid : st'.gc.id = st.gc.id
  cost : st'.gc.cost = st.gc.cost
  cs : st'.cs = { st.cs with currentPower := st.cs.currentPower + a }
  cmds : (st'.cmds = st.cmds ∧ st'.gc = st.gc) ∨ st'.cmds = sdSet st.cmds st.cs.id (loadAt st'.gc st.cs.id)

theorem cs_add_zero (cs : StationS α) : cs = { cs with currentPower := cs.currentPower + 0 } := by
  cases cs; simp

theorem Booked.refl (st st' : VSt α B) (hgc : st'.gc = st.gc) (hcs : st'.cs = st.cs)
    (hcm : st'.cmds = st.cmds) : Booked st st' 0 :=
  ⟨by rw [hgc, add_zero], by rw [hgc, add_zero], fun k _ => by rw [hgc], by rw [hgc], by rw [hgc],
   by rw [hgc], by rw [hcs]; exact cs_add_zero _, Or.inl ⟨hcm, hgc⟩⟩

theorem Booked.book (st : VSt α B) (a : α) : Booked st (st.book a) a := by
  obtain ⟨hc1, hc2, hc3, hc4⟩ := addLoad_currentLoad st.gc st.cs.id a
  obtain ⟨he1, he2⟩ := addLoad_loadAt_self st.gc st.cs.id a
  refine ⟨hc1, he1, fun k hk => addLoad_loadAt_ne st.gc st.cs.id k a hk, hc2, hc3, hc4, rfl, Or.inr ?_⟩
  show sdSet st.cmds st.cs.id (st.gc.addLoad st.cs.id a).2 = _
  rw [he2]; rfl

theorem Booked.book' (st0 st : VSt α B) (hgc : st.gc = st0.gc) (hcs : st.cs = st0.cs)
    (hcm : st.cmds = st0.cmds) (a : α) : Booked st0 (st.book a) a := by
  have h := Booked.book st a
  exact ⟨by rw [← hgc]; exact h.load, by rw [← hgc, ← hcs]; exact h.entry,
    fun k hk => by rw [← hgc]; exact h.others k (by rw [hcs]; exact hk), by rw [← hgc]; exact h.curMax,
    by rw [← hgc]; exact h.gcid, by rw [← hgc]; exact h.cost, by rw [← hcs]; exact h.cs,
    by rw [← hcm, ← hcs, ← hgc]; exact h.cmds⟩

/-- the planning loop: whatever it simulates, it books at most one real call
`load(target_power = power[0])` on the real battery -/
theorem chargeLoop_book (ops : Ops α B) (env : Env α) (v : VehicleS α B) (ts : List (TS α))
    (sorted : List (α × Nat)) :
    ∀ (fuel : Nat) (st st' : VSt α B), chargeLoop ops env v ts sorted fuel st = .ok st' →
      ∃ a, VehCall ops v.dischargeLimit st.bat st'.bat a ∧ Booked st st' a ∧ st'.dis = st.dis := by
  intro fuel
  induction fuel with
  | zero => intro st st' h; simp [chargeLoop] at h
  | succ n ih =>
    intro st st' h
    unfold chargeLoop at h
    split at h
    · simp only [Except.ok.injEq] at h; subst h
      exact ⟨0, .none rfl rfl, Booked.refl _ _ rfl rfl rfl, rfl⟩
    · rename_i cost startIdx hsorted
      simp only at h
      generalize ((if cost < env.priceThreshold then 1 else v.desiredSoc) - env.eps) = desired at h
      split at h
      · simp only [Except.ok.injEq] at h; subst h
        exact ⟨0, .none rfl rfl, Booked.refl _ _ rfl rfl rfl, rfl⟩
      · simp only [bind, Except.bind] at h
        split at h
        · cases h
        · rename_i r1 hr1
          obtain ⟨pw1, sm1⟩ := r1
          simp only at h
          split at h
          · cases h
          · rename_i r2 hr2
            obtain ⟨pw2, sm2⟩ := r2
            simp only at h
            split at h
            · cases h
            · rename_i p0 hp0
              split at h
              · split at h
                · cases h
                · rename_i r3 hr3
                  obtain ⟨bat', avg⟩ := r3
                  simp only [Except.ok.injEq] at h
                  subst h
                  refine ⟨avg, .loadTarget p0 hr3, ?_, rfl⟩
                  exact Booked.book' st { st with sortedIdx := (samePrice env sorted st.sortedIdx cost startIdx).2, power := pw2, sim := sm2, bat := bat' } rfl rfl rfl avg
              · obtain ⟨a, hc, hb, hd⟩ := ih { st with sortedIdx := (samePrice env sorted st.sortedIdx cost startIdx).2, power := pw2, sim := sm2 } st' h
                exact ⟨a, hc, ⟨hb.load, hb.entry, hb.others, hb.curMax, hb.gcid, hb.cost, hb.cs, hb.cmds⟩, hd⟩

theorem applyV2g_book (ops : Ops α B) (v : VehicleS α B) (st st' : VSt α B) (sp : α)
    (h : applyV2g ops v st sp = .ok st') :
    ∃ a, VehCall ops v.dischargeLimit st.bat st'.bat a ∧ Booked st st' a ∧
      (st'.dis = st.dis ∨ st'.dis = st.dis ++ [st.cs.id]) := by
  unfold applyV2g at h
  split at h
  · simp only [bind, Except.bind] at h
    split at h
    · cases h
    · rename_i r hr
      obtain ⟨bat', avg⟩ := r
      simp only [Except.ok.injEq] at h; subst h
      exact ⟨avg, .loadTarget sp hr, Booked.book' st { st with bat := bat' } rfl rfl rfl avg, Or.inl rfl⟩
  · split at h
    · simp only [bind, Except.bind] at h
      split at h
      · cases h
      · rename_i r hr
        obtain ⟨bat', out⟩ := r
        simp only [Except.ok.injEq] at h; subst h
        exact ⟨-out, .unload (-sp) out hr rfl, Booked.book' st { st with bat := bat', dis := st.dis ++ [st.cs.id] } rfl rfl rfl (-out), Or.inr rfl⟩
    · simp only [Except.ok.injEq] at h; subst h
      exact ⟨0, .none rfl rfl, Booked.book st 0, Or.inl rfl⟩

/-- the V2G search: whatever it simulates and back-tracks, it books at most one real call (a discharge
`unload(max_power, target_soc = discharge_limit)` or a compensating `load(target_power)`) -/
theorem v2gLoop_book (ops : Ops α B) (env : Env α) (v : VehicleS α B) (ts : List (TS α))
    (sorted : List (α × Nat)) :
    ∀ (k : Nat) (st st' : VSt α B), v2gLoop ops env v ts sorted k st = .ok st' →
      ∃ a, VehCall ops v.dischargeLimit st.bat st'.bat a ∧ Booked st st' a ∧
        (st'.dis = st.dis ∨ st'.dis = st.dis ++ [st.cs.id]) := by
  intro k
  induction k with
  | zero =>
    intro st st' h; simp only [v2gLoop, Except.ok.injEq] at h; subst h
    exact ⟨0, .none rfl rfl, Booked.refl _ _ rfl rfl rfl, Or.inl rfl⟩
  | succ k ih =>
    intro st st' h
    unfold v2gLoop at h
    split at h
    · simp only [Except.ok.injEq] at h; subst h
      exact ⟨0, .none rfl rfl, Booked.refl _ _ rfl rfl rfl, Or.inl rfl⟩
    · simp only [bind, Except.bind] at h
      split at h
      · cases h
      · rename_i r hr
        obtain ⟨v2gCost, v2gTs⟩ := r
        simp only at h
        split at h
        · simp only [Except.ok.injEq] at h; subst h
          exact ⟨0, .none rfl rfl, Booked.refl _ _ rfl rfl rfl, Or.inl rfl⟩
        · split at h
          · cases h
          · split at h
            · cases h
            · split at h
              · cases h
              · rename_i c hc
                split at h
                · obtain ⟨a, h1, h2, h3⟩ := applyV2g_book ops v _ st' _ h
                  refine ⟨a, ?_, ?_, ?_⟩
                  · split at h1 <;> exact h1
                  · split at h2 <;>
                      exact ⟨h2.load, h2.entry, h2.others, h2.curMax, h2.gcid, h2.cost, h2.cs, h2.cmds⟩
                  · split at h3 <;> exact h3
                · obtain ⟨a, h1, h2, h3⟩ := ih _ st' h
                  refine ⟨a, ?_, ?_, ?_⟩
                  · split at h1 <;> exact h1
                  · split at h2 <;>
                      exact ⟨h2.load, h2.entry, h2.others, h2.curMax, h2.gcid, h2.cost, h2.cs, h2.cmds⟩
                  · split at h3 <;> exact h3

/-- **one vehicle of the vehicle loop**: the new world is the old one with the vehicle's battery after at
most two real calls (planning pass, V2G apply) and the station's power raised by their signed average
powers; the connector's load and the station's entry in `current_loads` change by exactly that, every
other entry is untouched.  Nothing of the simulations (`sim`, `power`, `sorted_idx`) reaches the world. -/
theorem vehicleBody_book (ops : Ops α B) (env : Env α) (g g' : GSt α B) (vid : String)
    (h : vehicleBody ops env g vid = .ok g') :
    ∃ v cs bat1 bat2 a1 a2, g.w.vehicle? vid = some v ∧ v.cs = some cs.id ∧
      g.w.station? cs.id = some cs ∧
      VehCall ops v.dischargeLimit v.bat bat1 a1 ∧ VehCall ops v.dischargeLimit bat1 bat2 a2 ∧
      g'.w = (g.w.setVehicle { v with bat := bat2 }).setStation
        { cs with currentPower := cs.currentPower + a1 + a2 } ∧
      g'.gc.currentLoad = g.gc.currentLoad + a1 + a2 ∧
      loadAt g'.gc cs.id = loadAt g.gc cs.id + a1 + a2 ∧
      (∀ k, k ≠ cs.id → loadAt g'.gc k = loadAt g.gc k) ∧
      g'.gc.curMax = g.gc.curMax ∧ g'.gc.id = g.gc.id := by
  unfold vehicleBody at h
  split at h
  · cases h
  · rename_i v hv
    split at h
    · cases h
    · rename_i csId hcs
      split at h
      · cases h
      · rename_i cs hst
        obtain ⟨_, hcsid⟩ := station?_some _ _ cs hst
        subst hcsid
        split at h
        · cases h
        · simp only [bind, Except.bind] at h
          split at h
          · cases h
          · rename_i sorted hsorted
            split at h
            · cases h
            · rename_i st1 hch
              obtain ⟨a1, hc1, hb1, _⟩ := chargeLoop_book ops env v g.ts sorted _ _ st1 hch
              split at h
              · cases h
              · rename_i st2 hv2g
                have h2 : ∃ a2, VehCall ops v.dischargeLimit st1.bat st2.bat a2 ∧ Booked st1 st2 a2 := by
                  split at hv2g
                  · obtain ⟨a2, x1, x2, _⟩ := v2gLoop_book ops env v g.ts sorted _ st1 st2 hv2g
                    exact ⟨a2, x1, x2⟩
                  · simp only [pure, Except.pure, Except.ok.injEq] at hv2g
                    subst hv2g
                    exact ⟨0, .none rfl rfl, Booked.refl _ _ rfl rfl rfl⟩
                obtain ⟨a2, hc2, hb2⟩ := h2
                split at h
                · cases h
                · simp only [Except.ok.injEq] at h
                  subst h
                  have hid1 : st1.cs.id = cs.id := by rw [hb1.cs]
                  refine ⟨v, cs, st1.bat, st2.bat, a1, a2, hv, hcs, hst, hc1, hc2, ?_, ?_, ?_, ?_, ?_, ?_⟩
                  · show (g.w.setVehicle { v with bat := st2.bat }).setStation st2.cs = _
                    rw [hb2.cs, hb1.cs]
                  · show st2.gc.currentLoad = _
                    rw [hb2.load, hb1.load]
                  · show loadAt st2.gc cs.id = _
                    have := hb2.entry
                    rw [hid1] at this
                    rw [this, hb1.entry]
                  · intro k hk
                    show loadAt st2.gc k = _
                    rw [hb2.others k (by rw [hid1]; exact hk), hb1.others k hk]
                  · show st2.gc.curMax = _
                    rw [hb2.curMax, hb1.curMax]
                  · show st2.gc.id = _
                    rw [hb2.gcid, hb1.gcid]

/-- **the surplus pass for one vehicle**: nothing, or one real call `load(max_power = p)` booked -/
theorem surplusBody_book (ops : Ops α B) (env : Env α) (g g' : GSt α B) (vid : String)
    (h : surplusBody ops env g vid = .ok g') :
    g' = g ∨ ∃ v cs bat' a, g.w.vehicle? vid = some v ∧ v.cs = some cs.id ∧
      g.w.station? cs.id = some cs ∧ VehCall ops v.dischargeLimit v.bat bat' a ∧
      g'.w = (g.w.setVehicle { v with bat := bat' }).setStation
        { cs with currentPower := cs.currentPower + a } ∧
      g'.gc.currentLoad = g.gc.currentLoad + a ∧ loadAt g'.gc cs.id = loadAt g.gc cs.id + a ∧
      (∀ k, k ≠ cs.id → loadAt g'.gc k = loadAt g.gc k) ∧ g'.gc.curMax = g.gc.curMax ∧
      g'.cmds = sdSet g.cmds cs.id (loadAt g'.gc cs.id) ∧ g'.ts = g.ts ∧ g'.dis = g.dis := by
  unfold surplusBody at h
  split at h
  · cases h
  · rename_i v hv
    split at h
    · cases h
    · rename_i csId hcs
      split at h
      · cases h
      · rename_i cs hst
        obtain ⟨_, hcsid⟩ := station?_some _ _ cs hst
        subst hcsid
        simp only at h
        split at h
        · simp only [bind, Except.bind] at h
          split at h
          · cases h
          · rename_i r hr
            obtain ⟨bat', avg⟩ := r
            simp only [Except.ok.injEq] at h
            subst h
            obtain ⟨hc1, hc2, _, _⟩ := addLoad_currentLoad g.gc cs.id avg
            obtain ⟨he1, he2⟩ := addLoad_loadAt_self g.gc cs.id avg
            right
            refine ⟨v, cs, bat', avg, hv, hcs, hst, .loadMax _ hr, rfl, hc1, he1,
              fun k hk => addLoad_loadAt_ne g.gc cs.id k avg hk, hc2, ?_, rfl, rfl⟩
            show sdSet g.cmds cs.id (g.gc.addLoad cs.id avg).2 = _
            rw [he2]
        · simp only [Except.ok.injEq] at h
          left; exact h.symm

/-! ### the battery block: its simulations run on the battery object itself, with the SoC set back -/

theorem batNaive_R (ops : Ops α B) (R : B → B → Prop) (sl : SimLaw ops R) (b0 : B) (minCh : α) :
    ∀ (l : List (TS α)) (i : Nat) (bat bat' : B) (bp bp' : α), R b0 bat →
      batNaive ops minCh l i bat bp = .ok (bat', bp') → R b0 bat' := by
  intro l
  induction l with
  | nil => intro i bat bat' bp bp' hr h; simp only [batNaive, Except.ok.injEq, Prod.mk.injEq] at h; rw [← h.1]; exact hr
  | cons t rest ih =>
    intro i bat bat' bp bp' hr h
    unfold batNaive at h
    simp only [bind, Except.bind] at h
    split at h
    · cases h
    · rename_i r hr'
      exact ih _ _ _ _ _ (sl.load _ _ _ _ _ _ _ hr hr') h

theorem batPass_R (ops : Ops α B) (R : B → B → Prop) (sl : SimLaw ops R) (b0 : B) (minCh power : α) :
    ∀ (l : List (TS α)) (i : Nat) (bat bat' : B) (bp bp' : α), R b0 bat →
      batPass ops minCh power l i bat bp = .ok (bat', bp') → R b0 bat' := by
  intro l
  induction l with
  | nil => intro i bat bat' bp bp' hr h; simp only [batPass, Except.ok.injEq, Prod.mk.injEq] at h; rw [← h.1]; exact hr
  | cons t rest ih =>
    intro i bat bat' bp bp' hr h
    unfold batPass at h
    simp only [bind, Except.bind] at h
    split at h
    · cases h
    · rename_i r hr'
      exact ih _ _ _ _ _ (sl.load _ _ _ _ _ _ _ hr hr') h

theorem batBisect_R (ops : Ops α B) (R : B → B → Prop) (sl : SimLaw ops R) (b0 : B) (eps minCh : α)
    (cheap : List (TS α)) (oldSoc : α) :
    ∀ (fuel : Nat) (minP maxP : α) (bat bat' : B) (bp bp' : α), R b0 bat →
      batBisect ops eps minCh cheap oldSoc fuel minP maxP bat bp = .ok (bat', bp') → R b0 bat' := by
  intro fuel
  induction fuel with
  | zero => intro minP maxP bat bat' bp bp' _ h; simp [batBisect] at h
  | succ n ih =>
    intro minP maxP bat bat' bp bp' hr h
    unfold batBisect at h
    split at h
    · simp only [bind, Except.bind] at h
      split at h
      · cases h
      · rename_i r hr'
        obtain ⟨b1, bp1⟩ := r
        have h1 := batPass_R ops R sl b0 minCh _ cheap 0 _ b1 bp bp1 (sl.setSoc _ _ _ hr) hr'
        simp only at h
        split at h
        · exact ih _ _ _ _ _ _ h1 h
        · exact ih _ _ _ _ _ _ h1 h
    · simp only [Except.ok.injEq, Prod.mk.injEq] at h
      rw [← h.1]; exact hr

/-- **one stationary battery**: skipped (other connector), or the real call `load(target_power)` on the
battery as it was before the step, optionally followed by the support discharge
`unload(target_power)`; the battery's entry and the connector load change by exactly `avg − out`; the
naive passes and the bisection leave no trace (`SimLaw`) -/
theorem batteryBody_book (ops : Ops α B) (R : B → B → Prop) (sl : SimLaw ops R) (env : Env α)
    (nCheap : Option Nat) (g g' : GSt α B) (bid : String)
    (h : batteryBody ops env nCheap g bid = .ok g') :
    g' = g ∨ ∃ b bp bat1 avg bat2 out, g.w.batteries.find? (·.id == bid) = some b ∧
      ops.load b.bat none none (some bp) = .ok (bat1, avg) ∧
      ((bat2 = bat1 ∧ out = 0) ∨ ∃ x, ops.unload bat1 none none (some x) = .ok (bat2, out)) ∧
      g'.w = g.w.setBattery { b with bat := bat2 } ∧
      g'.gc.currentLoad = g.gc.currentLoad + avg - out ∧
      loadAt g'.gc bid = loadAt g.gc bid + avg - out ∧
      (∀ k, k ≠ bid → loadAt g'.gc k = loadAt g.gc k) ∧ g'.gc.curMax = g.gc.curMax ∧
      g'.cmds = g.cmds := by
  unfold batteryBody at h
  split at h
  · cases h
  · rename_i b hb
    split at h
    · simp only [Except.ok.injEq] at h; left; exact h.symm
    · split at h
      · cases h
      · rename_i n
        simp only [bind, Except.bind] at h
        split at h
        · cases h
        · rename_i r1 hr1
          obtain ⟨bat1', bp1⟩ := r1
          have hR1 := batNaive_R ops R sl b.bat b.minChargingPower _ 0 _ bat1' _ bp1 (sl.refl _) hr1
          simp only at h
          split at h
          · cases h
          · rename_i r2 hr2
            obtain ⟨bat2', bp2⟩ := r2
            have hR2 : R b.bat bat2' := by
              split at hr2
              · exact batBisect_R ops R sl b.bat env.eps b.minChargingPower _ _ _ _ _ _ bat2' _ bp2 hR1 hr2
              · simp only [pure, Except.pure, Except.ok.injEq, Prod.mk.injEq] at hr2
                rw [← hr2.1]; exact hR1
            simp only at h
            rw [sl.restore b.bat bat2' hR2] at h
            split at h
            · cases h
            · rename_i r3 hr3
              obtain ⟨bat3, avg⟩ := r3
              obtain ⟨hc1, hc2, _, _⟩ := addLoad_currentLoad g.gc bid avg
              obtain ⟨he1, _⟩ := addLoad_loadAt_self g.gc bid avg
              simp only at h
              right
              split at h
              · split at h
                · cases h
                · rename_i r4 hr4
                  obtain ⟨bat4, out⟩ := r4
                  simp only [Except.ok.injEq] at h
                  subst h
                  obtain ⟨hd1, hd2, _, _⟩ := addLoad_currentLoad (g.gc.addLoad bid avg).1 bid (-out)
                  obtain ⟨hf1, _⟩ := addLoad_loadAt_self (g.gc.addLoad bid avg).1 bid (-out)
                  refine ⟨b, bp2, bat3, avg, bat4, out, hb, hr3, Or.inr ⟨_, hr4⟩, rfl, ?_, ?_, ?_, ?_, rfl⟩
                  · show ((g.gc.addLoad bid avg).1.addLoad bid (-out)).1.currentLoad = _
                    rw [hd1, hc1]; ring
                  · show loadAt ((g.gc.addLoad bid avg).1.addLoad bid (-out)).1 bid = _
                    rw [hf1, he1]; ring
                  · intro k hk
                    show loadAt ((g.gc.addLoad bid avg).1.addLoad bid (-out)).1 k = _
                    rw [addLoad_loadAt_ne _ bid k _ hk, addLoad_loadAt_ne _ bid k _ hk]
                  · show ((g.gc.addLoad bid avg).1.addLoad bid (-out)).1.curMax = _
                    rw [hd2, hc2]
              · simp only [Except.ok.injEq] at h
                subst h
                refine ⟨b, bp2, bat3, avg, bat3, 0, hb, hr3, Or.inl ⟨rfl, rfl⟩, rfl, ?_, ?_, ?_, hc2, rfl⟩
                · show (g.gc.addLoad bid avg).1.currentLoad = _
                  rw [hc1]; ring
                · show loadAt (g.gc.addLoad bid avg).1 bid = _
                  rw [he1]; ring
                · intro k hk
                  exact addLoad_loadAt_ne _ bid k _ hk

end SpiceEv.BalancedMarket
