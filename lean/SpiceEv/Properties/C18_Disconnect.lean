/-
C18 — Reports are faithful to the simulation: the `disconnect` back-fill of `Scenario.run`.

Property theorems only; the loop invariant (`Inv`), the predicates `Away`, `AllAway`, `StartsAt`
and all helper lemmas live in SpiceEv/Proofs/Disconnect.lean.  All statements are about the
executable model SpiceEv/Model/ScenarioCtor.lean, section (b) (`colStep`, `colRun`: one vehicle's
column of the `socs` / `disconnect` / `connected` tables and its `departed_vehicles` entry),
instantiated at an arbitrary linearly ordered field.

Vocabulary (definitions in the proofs file, as are the example inputs `exDay`, `exOpenEnd` and the
projections `disOf`, `socsOf`, `connOf` used in the non-vacuity examples):
* `Away o`           : `o.station = none ∧ o.departed = true` (the vehicle is on a trip);
* `AllAway obs s0 j` : every observed step `t` with `s0 ≤ t < j` is an away step;
* `StartsAt obs s0`  : `s0 = 0`, or step `s0 - 1` is not an away step (a trip can start at `s0`).
Rows are addressed as `l[t]? = some v` (row `t` exists and holds `v`; `v : Option α`, `none` being
Python's `None`).
-/
import SpiceEv.Proofs.Disconnect
set_option linter.unusedSectionVars false
set_option linter.unusedSimpArgs false
set_option linter.unusedVariables false
namespace SpiceEv
open SpiceEv.ScenarioCtor
variable {α : Type} [Field α] [LinearOrder α] [IsStrictOrderedRing α]

/-- **The back-fill never raises.** For every series of observations of a vehicle the block runs
through: the slope's divisor `step_i - start_idx` is never zero (an entry of `departed_vehicles` is
only read in a later step than the one that created it). -/
theorem C18_disconnect_no_error (obs : List (VObs α)) : ∃ c, colRun obs = .ok c := by
  obtain ⟨c, h, _⟩ := colRun_inv obs
  exact ⟨c, h⟩

example : ∃ c, colRun exDay = .ok c ∧ c.dis.length = 4 := by
  obtain ⟨c, h⟩ := C18_disconnect_no_error exDay
  refine ⟨c, h, ?_⟩
  have : (disOf (colRun exDay)).length = 4 := by decide +kernel
  rw [h] at this; exact this

/-- **Shape.** Every table gets exactly one row per step. -/
theorem C18_disconnect_shape (obs : List (VObs α)) (c : Col α) (h : colRun obs = .ok c) :
    c.socs.length = obs.length ∧ c.dis.length = obs.length ∧ c.conn.length = obs.length := by
  have hinv := colRun_ok_inv obs c h
  exact ⟨hinv.lsocs, hinv.ldis, hinv.lconn⟩

example : (socsOf (colRun exDay)).length = 4 ∧ (disOf (colRun exDay)).length = 4 ∧
    (connOf (colRun exDay)).length = 4 := by decide +kernel

/-- **Linear interpolation between the SoC at departure and the SoC at arrival** (arithmetic of the
written values): with `m = (b - a) / (i - s0)` the value `m * k + a` of row `s0 + k`, `k ≤ i - s0`,
lies between `a` and `b`, is `a` in the departure row and would be `b` in row `i`.  (`b` is the SoC
the vehicle has *after* the trip consumption was applied: the observation is taken after the events
of the step were processed.) -/
theorem C18_disconnect_interp_between (a b : α) (s0 i k : Nat) (hi : s0 < i) (hk : k ≤ i - s0) :
    let m := (b - a) / (((i : Nat) : α) - ((s0 : Nat) : α))
    min a b ≤ m * (k : α) + a ∧ m * (k : α) + a ≤ max a b ∧
    m * ((0 : Nat) : α) + a = a ∧ m * ((i - s0 : Nat) : α) + a = b :=
  interp_arith' a b s0 i k hi hk

example :
    let m : ℚ := ((3/10 : ℚ) - 1/2) / (((3 : Nat) : ℚ) - ((1 : Nat) : ℚ))
    m * ((1 : Nat) : ℚ) + 1/2 = 2/5 ∧ min (1/2 : ℚ) (3/10) ≤ 2/5 ∧ (2/5 : ℚ) ≤ max (1/2) (3/10) := by
  decide +kernel

/-- **Rows of connected steps.** In a step in which the vehicle is connected to `cs`, the `socs`
row holds its SoC, the `connected` row holds `cs`, and the `disconnect` row holds `None` or the
SoC (the arrival row of a trip) — whatever happens later: no later back-fill rewrites these rows. -/
theorem C18_disconnect_connected_rows (obs : List (VObs α)) (c : Col α) (h : colRun obs = .ok c)
    (t : Nat) (o : VObs α) (cs : String) (ht : obs[t]? = some o) (hcs : o.station = some cs) :
    c.socs[t]? = some (some o.soc) ∧ c.conn[t]? = some (some cs) ∧
    (c.dis[t]? = some none ∨ c.dis[t]? = some (some o.soc)) := by
  have hinv := colRun_ok_inv obs c h
  have hlt : t < obs.length := by
    by_contra hn; rw [List.getElem?_eq_none (by omega)] at ht; cases ht
  have hs : o.station.isSome = true := by rw [hcs]; rfl
  refine ⟨hinv.socsConn t o hlt ht hs, ?_, hinv.disConn t o hlt ht hs⟩
  rw [hinv.conn t o hlt ht, hcs]

example : (socsOf (colRun exDay))[0]? = some (some (1/2)) ∧ (connOf (colRun exDay))[0]? = some (some "cs") ∧
    (disOf (colRun exDay))[0]? = some none ∧
    (socsOf (colRun exDay))[3]? = some (some (3/10)) ∧ (disOf (colRun exDay))[3]? = some (some (3/10)) := by
  decide +kernel

/-- **Rows of standing steps** (not connected, not yet departed): the `disconnect` row holds the
SoC, the `socs` row holds `None`, the `connected` row holds `None`; never rewritten. -/
theorem C18_disconnect_standing_rows (obs : List (VObs α)) (c : Col α) (h : colRun obs = .ok c)
    (t : Nat) (o : VObs α) (ht : obs[t]? = some o) (hst : o.station = none)
    (hdep : o.departed = false) :
    c.dis[t]? = some (some o.soc) ∧ c.socs[t]? = some none ∧ c.conn[t]? = some none := by
  have hinv := colRun_ok_inv obs c h
  have hlt : t < obs.length := by
    by_contra hn; rw [List.getElem?_eq_none (by omega)] at ht; cases ht
  refine ⟨hinv.disStand t o hlt ht hst hdep, hinv.socsStand t o hlt ht hst hdep, ?_⟩
  rw [hinv.conn t o hlt ht, hst]

example : (disOf (colRun exOpenEnd))[1]? = some (some (1/2)) ∧ (socsOf (colRun exOpenEnd))[1]? = some none ∧
    (connOf (colRun exOpenEnd))[1]? = some none := by
  decide +kernel

/-- **Interpolation over a completed trip.** If the steps `s0 … j-1` are exactly one away phase
(all away, `s0` is the first step or follows a non-away step, step `j` is not an away step) then
the final `disconnect` rows `t = s0 … j-1` hold the line from the SoC observed at `s0` to the SoC
observed at `j` (`m * (t - s0) + a` with the slope `m = (b - a) / (j - s0)`), and row `j` holds the
SoC observed at `j` (the SoC after the trip consumption). -/
theorem C18_disconnect_interpolation (obs : List (VObs α)) (c : Col α) (h : colRun obs = .ok c)
    (s0 j : Nat) (oa ob : VObs α) (hsj : s0 < j) (hoa : obs[s0]? = some oa) (hob : obs[j]? = some ob)
    (haway : AllAway obs s0 j) (hstart : StartsAt obs s0) (hend : ¬ Away ob) :
    (∀ t, s0 ≤ t → t < j →
      c.dis[t]? = some (some ((ob.soc - oa.soc) / (((j : Nat) : α) - ((s0 : Nat) : α))
                                * ((t - s0 : Nat) : α) + oa.soc))) ∧
    c.dis[j]? = some (some ob.soc) := by
  have hinv := colRun_ok_inv obs c h
  have hlt : j < obs.length := by
    by_contra hn; rw [List.getElem?_eq_none (by omega)] at hob; cases hob
  exact hinv.closed s0 j oa ob hsj hlt haway hstart hoa hob hend

example : (∀ t, 1 ≤ t → t < 3 → (disOf (colRun exDay))[t]? =
      some (some (((3/10 : ℚ) - 1/2) / (((3 : Nat) : ℚ) - ((1 : Nat) : ℚ)) * ((t - 1 : Nat) : ℚ) + 1/2))) ∧
    (disOf (colRun exDay))[3]? = some (some (3/10)) := by
  refine ⟨fun t h1 h2 => ?_, by decide +kernel⟩
  have : t = 1 ∨ t = 2 := by omega
  rcases this with rfl | rfl <;> decide +kernel

/-- the interpolated rows lie between the SoC at departure and the SoC at arrival -/
theorem C18_disconnect_interpolation_bounds (obs : List (VObs α)) (c : Col α)
    (h : colRun obs = .ok c)
    (s0 j : Nat) (oa ob : VObs α) (hsj : s0 < j) (hoa : obs[s0]? = some oa) (hob : obs[j]? = some ob)
    (haway : AllAway obs s0 j) (hstart : StartsAt obs s0) (hend : ¬ Away ob)
    (t : Nat) (h1 : s0 ≤ t) (h2 : t < j) :
    ∃ v, c.dis[t]? = some (some v) ∧ min oa.soc ob.soc ≤ v ∧ v ≤ max oa.soc ob.soc ∧
      (t = s0 → v = oa.soc) := by
  obtain ⟨r, _⟩ := C18_disconnect_interpolation obs c h s0 j oa ob hsj hoa hob haway hstart hend
  refine ⟨_, r t h1 h2, ?_⟩
  obtain ⟨b1, b2, b3, _⟩ := interp_arith' oa.soc ob.soc s0 j (t - s0) hsj (by omega)
  refine ⟨b1, b2, ?_⟩
  rintro rfl
  rw [Nat.sub_self]; exact b3

example : AllAway exDay 1 3 ∧ StartsAt exDay 1 ∧
    disOf (colRun exDay) = [none, some (1/2), some (2/5), some (3/10)] := by
  refine ⟨?_, ?_, by decide +kernel⟩
  · intro t o h1 h2 ht
    have : t = 1 ∨ t = 2 := by omega
    rcases this with rfl | rfl <;> (simp [exDay] at ht; subst ht; exact ⟨rfl, rfl⟩)
  · right; intro o ho
    simp [exDay] at ho; subst ho
    intro h; exact absurd h.1 (by simp)

/-- **Open trip.** An away phase that lasts until the end of the run is not back-filled: its first
row holds the SoC at departure, the later rows hold `None`, and the `departed_vehicles` entry is
still there. -/
theorem C18_disconnect_open_trip (obs : List (VObs α)) (c : Col α) (h : colRun obs = .ok c)
    (s0 : Nat) (oa : VObs α) (hoa : obs[s0]? = some oa)
    (haway : AllAway obs s0 obs.length) (hstart : StartsAt obs s0) :
    c.departed = some (s0, oa.soc) ∧ c.dis[s0]? = some (some oa.soc) ∧
    ∀ t, s0 < t → t < obs.length → c.dis[t]? = some none :=
  inv_open obs c (colRun_ok_inv obs c h) s0 oa hoa haway hstart

example : disOf (colRun exOpenEnd) = [none, some (1/2), some (2/5), none] := by decide +kernel

/-- **Arrival rows, exactly.** The `disconnect` row of a connected step holds the SoC iff the step
before it was an away step (the vehicle has just arrived); otherwise it holds `None`. -/
theorem C18_disconnect_arrival_row (obs : List (VObs α)) (c : Col α) (h : colRun obs = .ok c)
    (t : Nat) (o : VObs α) (cs : String) (ht : obs[t]? = some o) (hcs : o.station = some cs) :
    (StartsAt obs t → c.dis[t]? = some none) ∧
    (∀ o', 0 < t → obs[t - 1]? = some o' → Away o' → c.dis[t]? = some (some o.soc)) := by
  have h2 := colRun_ok_inv2 obs c h
  have hlt : t < obs.length := by
    by_contra hn; rw [List.getElem?_eq_none (by omega)] at ht; cases ht
  have hs : o.station.isSome = true := by rw [hcs]; rfl
  exact ⟨fun hst => h2.disNoArr t o hlt ht hs hst,
    fun o' ht0 hto' ha' => h2.disArr t o o' hlt ht0 ht hs hto' ha'⟩

example : StartsAt exDay 0 ∧ (disOf (colRun exDay))[0]? = some none ∧
    Away (⟨none, true, 1/2⟩ : VObs ℚ) ∧ exDay[3 - 1]? = some ⟨none, true, 1/2⟩ ∧
    (disOf (colRun exDay))[3]? = some (some (3/10)) :=
  ⟨Or.inl rfl, by decide +kernel, ⟨rfl, rfl⟩, rfl, by decide +kernel⟩

/-- **`socs` rows of away steps.** The row of an away step holds `None`, except the departure row
directly after a connected step, which holds the SoC ("continuous lines in the plot"). -/
theorem C18_disconnect_away_socs (obs : List (VObs α)) (c : Col α) (h : colRun obs = .ok c)
    (t : Nat) (o : VObs α) (ht : obs[t]? = some o) (ha : Away o) :
    (∀ o', 0 < t → obs[t - 1]? = some o' → o'.station.isSome = true →
      c.socs[t]? = some (some o.soc)) ∧
    ((t = 0 ∨ ∀ o', obs[t - 1]? = some o' → o'.station = none) → c.socs[t]? = some none) := by
  have h2 := colRun_ok_inv2 obs c h
  have hlt : t < obs.length := by
    by_contra hn; rw [List.getElem?_eq_none (by omega)] at ht; cases ht
  exact ⟨fun o' ht0 hto' hs' => h2.socsDep t o o' hlt ht0 ht ha hto' hs',
    fun hp => h2.socsAwayNone t o hlt ht ha hp⟩

example : socsOf (colRun exDay) = [some (1/2), some (1/2), none, some (3/10)] ∧
    socsOf (colRun exOpenEnd) = [some (1/2), none, none, none] := by decide +kernel

/-- **Every away row is covered**: an away step `t` lies in exactly one away phase `[s0, j)` that
starts at the first step or after a non-away step and ends at a non-away step `j` (then
`C18_disconnect_interpolation` gives the row) or at the end of the run (then
`C18_disconnect_open_trip` gives the row). -/
theorem C18_disconnect_trip_cover (obs : List (VObs α)) (t : Nat) (o : VObs α)
    (ht : obs[t]? = some o) (ha : Away o) :
    ∃ s0 j, s0 ≤ t ∧ t < j ∧ j ≤ obs.length ∧ StartsAt obs s0 ∧ AllAway obs s0 j ∧
      (j = obs.length ∨ ∃ ob, obs[j]? = some ob ∧ ¬ Away ob) := by
  have hlt : t < obs.length := by
    by_contra hn; rw [List.getElem?_eq_none (by omega)] at ht; cases ht
  have hta : AllAway obs t (t + 1) := by
    intro u o' h1 h2 hu
    have : u = t := by omega
    subst this
    rw [ht] at hu; injection hu with hu; subst hu; exact ha
  obtain ⟨s0, h1, h2, h3⟩ := trip_start_exists obs t hlt hta
  obtain ⟨j, j1, j2, j3, j4⟩ := trip_end_exists obs s0 (t + 1) (by omega) (by omega) h3
  exact ⟨s0, j, h1, by omega, j2, h2, j3, j4⟩

example : ∃ s0 j, s0 ≤ 2 ∧ 2 < j ∧ j ≤ exDay.length ∧ StartsAt exDay s0 ∧ AllAway exDay s0 j ∧
    (j = exDay.length ∨ ∃ ob, exDay[j]? = some ob ∧ ¬ Away ob) :=
  C18_disconnect_trip_cover exDay 2 ⟨none, true, 1/2⟩ rfl ⟨rfl, rfl⟩

/-- **All vehicles.** The whole block (`backfill`: every vehicle's column) never raises and yields
one column per vehicle, each the result of `colRun` on that vehicle's observations — so all the
statements above hold for every column. -/
theorem C18_disconnect_backfill (obs : List (List (VObs α))) :
    ∃ cols, backfill obs = .ok cols ∧ cols.length = obs.length ∧
      ∀ v (h : v < obs.length), ∃ c, cols[v]? = some c ∧ colRun obs[v] = .ok c :=
  backfill_ok obs

example : (match backfill [exDay, exOpenEnd] with
    | .ok cols => cols.map (·.dis) | .error _ => []) =
    [[none, some (1/2), some (2/5), some (3/10)], [none, some (1/2), some (2/5), none]] := by
  decide +kernel

end SpiceEv
