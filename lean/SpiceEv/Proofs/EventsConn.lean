/-
Helper lemmas for C07 (part 3): the effect of applied events on grid connectors.
-/
import SpiceEv.Proofs.Events
import SpiceEv.Proofs.Basic
set_option linter.unnecessarySeqFocus false
set_option linter.unusedSectionVars false
set_option linter.unusedSimpArgs false
set_option linter.unusedVariables false
namespace SpiceEv
variable {α : Type} [Field α] [LinearOrder α] [IsStrictOrderedRing α]

/-! ### connectors: the effect of applied events -/

/-- effect of one applied event on the connector named `g` (specification level) -/
def Connector.afterEvent (g : String) (c : Connector α) (ev : Event α) : Connector α :=
  match ev.kind with
  | .fixedLoad name gc v => if gc = g then { c with loads := alSet name v c.loads } else c
  | .localGen name gc v => if gc = g then { c with loads := alSet name (-v) c.loads } else c
  | .gridSignal gc mp cost target window =>
    if gc = g then c.applySignal mp cost target window else c
  | .vehicle _ _ _ => c

theorem applyFixedLoad_connector (s : Strat α) (name gc : String) (v : α) (g : String)
    (h : (applyFixedLoad s name gc v).2 = none) :
    alGet? g (applyFixedLoad s name gc v).1.world.connectors =
      (alGet? g s.world.connectors).map
        (fun c => if gc = g then { c with loads := alSet name v c.loads } else c) := by
  unfold applyFixedLoad at h ⊢
  cases hc : alGet? gc s.world.connectors with
  | none =>
    by_cases hg : gc = g
    · subst hg; simp [hc, alGet?_alSet]
    · simp [hg, alGet?_alSet]
  | some c =>
    simp only [hc] at h ⊢
    by_cases hcol : alHas name s.world.stations = true
    · simp [hcol] at h
    · simp only [hcol, if_false, setConnector_connectors, alGet?_alSet]
      by_cases hg : gc = g
      · subst hg; simp [hc, alGet?_alSet]
      · simp [hg, alGet?_alSet]

theorem applyLocalGen_connector (s : Strat α) (name gc : String) (v : α) (g : String)
    (h : (applyLocalGen s name gc v).2 = none) :
    alGet? g (applyLocalGen s name gc v).1.world.connectors =
      (alGet? g s.world.connectors).map
        (fun c => if gc = g then { c with loads := alSet name (-v) c.loads } else c) := by
  unfold applyLocalGen at h ⊢
  by_cases hcol : alHas name s.world.stations = true
  · simp [hcol] at h
  · simp only [hcol, if_false] at h ⊢
    cases hc : alGet? gc s.world.connectors with
    | none =>
      by_cases hg : gc = g
      · subst hg; simp [hc, alGet?_alSet]
      · simp [hg, alGet?_alSet]
    | some c =>
      simp only [setConnector_connectors, alGet?_alSet]
      by_cases hg : gc = g
      · subst hg; simp [hc, alGet?_alSet]
      · simp [hg, alGet?_alSet]

theorem applyGridSignal_connector (s : Strat α) (gc : String) (mp : Option α) (cost : Option (Cost α))
    (target : Option α) (window : Option Bool) (g : String) :
    alGet? g (applyGridSignal s gc mp cost target window).1.world.connectors =
      (alGet? g s.world.connectors).map
        (fun c => if gc = g then c.applySignal mp cost target window else c) := by
  unfold applyGridSignal
  split
  · rename_i hn
    by_cases hg : gc = g
    · subst hg; simp [hn]
    · simp [hg]
  · rename_i c hc
    simp only [setConnector_connectors, alGet?_alSet]
    by_cases hg : gc = g
    · subst hg; simp [hc, alGet?_alSet]
    · simp [hg, alGet?_alSet]

theorem arriveVehicle_connectors (cfg : Cfg α) (s : Strat α) (vid : String) (v : Vehicle α) :
    (arriveVehicle cfg s vid v).1.world.connectors = s.world.connectors := by
  unfold arriveVehicle
  split
  · simp
  · dsimp only
    split
    · split <;> simp
    · simp

theorem applyVehicleEvent_connectors (cfg : Cfg α) (s : Strat α) (t : Int) (vid : String)
    (k : VehKind) (u : VehUpdate α) :
    (applyVehicleEvent cfg s t vid k u).1.world.connectors = s.world.connectors := by
  unfold applyVehicleEvent
  split
  · rfl
  · dsimp only
    split
    · simp
    · exact arriveVehicle_connectors ..
    · simp

/-- an event applied without exception acts on every connector as `afterEvent` says -/
theorem applyEvent_connector (cfg : Cfg α) (s : Strat α) (ev : Event α) (g : String)
    (h : (applyEvent cfg s ev).2 = none) :
    alGet? g (applyEvent cfg s ev).1.world.connectors =
      (alGet? g s.world.connectors).map (fun c => c.afterEvent g ev) := by
  unfold applyEvent at h ⊢
  unfold Connector.afterEvent
  cases hk : ev.kind with
  | fixedLoad name gc v =>
    simp only [hk] at h ⊢; exact applyFixedLoad_connector s name gc v g h
  | localGen name gc v =>
    simp only [hk] at h ⊢; exact applyLocalGen_connector s name gc v g h
  | gridSignal gc mp cost target window =>
    simp only [hk] at h ⊢; exact applyGridSignal_connector ..
  | vehicle vid k u =>
    simp only [hk] at h ⊢
    rw [applyVehicleEvent_connectors]; simp

theorem applyAll_connector (cfg : Cfg α) (s : Strat α) (l : List (Event α)) (g : String)
    (h : (applyAll cfg s l).2 = none) :
    alGet? g (applyAll cfg s l).1.world.connectors =
      (alGet? g s.world.connectors).map (fun c => l.foldl (Connector.afterEvent g) c) := by
  induction l generalizing s with
  | nil => simp [applyAll]
  | cons ev l ih =>
    unfold applyAll at h ⊢
    cases hap : applyEvent cfg s ev with
    | mk s' oe =>
      cases oe with
      | some e => simp [hap] at h
      | none =>
        simp only [hap] at h ⊢
        rw [ih s' h]
        have := applyEvent_connector cfg s ev g (by rw [hap])
        rw [hap] at this
        rw [this]
        simp [Option.map_map, Function.comp_def]

/-! ### fields after a grid-operator signal -/

theorem applySignal_maxPower (c : Connector α) (mp : Option α) (cost : Option (Cost α))
    (t : Option α) (w : Option Bool) : (c.applySignal mp cost t w).maxPower = c.maxPower := by
  unfold Connector.applySignal
  cases cost <;> cases t <;> cases w <;> cases mp <;> by_cases hz : isZero c.maxPower = true <;>
    simp [hz]

theorem applySignal_loads (c : Connector α) (mp : Option α) (cost : Option (Cost α))
    (t : Option α) (w : Option Bool) : (c.applySignal mp cost t w).loads = c.loads := by
  unfold Connector.applySignal
  cases cost <;> cases t <;> cases w <;> cases mp <;> by_cases hz : isZero c.maxPower = true <;>
    simp [hz]

theorem applySignal_cost (c : Connector α) (mp : Option α) (cost : Option (Cost α))
    (t : Option α) (w : Option Bool) : (c.applySignal mp cost t w).cost = cost.getD c.cost := by
  unfold Connector.applySignal
  cases cost <;> cases t <;> cases w <;> cases mp <;> by_cases hz : isZero c.maxPower = true <;>
    simp [hz]

theorem applySignal_target (c : Connector α) (mp : Option α) (cost : Option (Cost α))
    (t : Option α) (w : Option Bool) :
    (c.applySignal mp cost t w).target = (t.map some).getD c.target := by
  unfold Connector.applySignal
  cases cost <;> cases t <;> cases w <;> cases mp <;> by_cases hz : isZero c.maxPower = true <;>
    simp [hz]

theorem applySignal_window (c : Connector α) (mp : Option α) (cost : Option (Cost α))
    (t : Option α) (w : Option Bool) :
    (c.applySignal mp cost t w).window = (w.map some).getD c.window := by
  unfold Connector.applySignal
  cases cost <;> cases t <;> cases w <;> cases mp <;> by_cases hz : isZero c.maxPower = true <;>
    simp [hz]

/-- the limit in force after a signal: with a rating that is set (non-zero) the minimum of rating
and announced limit (unchanged if the signal carries none); with an unset rating whatever the signal
carries, `None` included -/
theorem applySignal_curMaxPower (c : Connector α) (mp : Option α) (cost : Option (Cost α))
    (t : Option α) (w : Option Bool) :
    (c.applySignal mp cost t w).curMaxPower =
      if c.maxPower ≠ 0 then (mp.map (fun m => some (min c.maxPower m))).getD c.curMaxPower
      else mp := by
  unfold Connector.applySignal
  have hz0 : isZero (0 : α) = true := (isZero_iff 0).mpr rfl
  by_cases hz : c.maxPower = 0
  · have hz' : isZero c.maxPower = true := (isZero_iff _).mpr hz
    cases cost <;> cases t <;> cases w <;> cases mp <;> simp [hz', hz, hz0]
  · have hz' : isZero c.maxPower = false := by
      rw [Bool.eq_false_iff]; intro h; exact hz ((isZero_iff _).mp h)
    cases cost <;> cases t <;> cases w <;> cases mp <;> simp [hz', hz]

/-! ### agreement of connector records up to station / battery loads -/

structure ConnSame (isSB : String → Bool) (c c' : Connector α) : Prop where
  maxPower : c'.maxPower = c.maxPower
  curMaxPower : c'.curMaxPower = c.curMaxPower
  cost : c'.cost = c.cost
  target : c'.target = c.target
  window : c'.window = c.window
  loads : ∀ nm, isSB nm = false → alGet? nm c'.loads = alGet? nm c.loads

theorem ConnSame.refl (isSB : String → Bool) (c : Connector α) : ConnSame isSB c c :=
  ⟨rfl, rfl, rfl, rfl, rfl, fun _ _ => rfl⟩

theorem ConnSame.trans {isSB : String → Bool} {a b c : Connector α} (h1 : ConnSame isSB a b)
    (h2 : ConnSame isSB b c) : ConnSame isSB a c :=
  ⟨h2.maxPower.trans h1.maxPower, h2.curMaxPower.trans h1.curMaxPower, h2.cost.trans h1.cost,
   h2.target.trans h1.target, h2.window.trans h1.window,
   fun nm h => (h2.loads nm h).trans (h1.loads nm h)⟩

def optRel {β : Type} (R : β → β → Prop) : Option β → Option β → Prop
  | none, none => True
  | some a, some b => R a b
  | _, _ => False

theorem optRel_refl {β : Type} {R : β → β → Prop} (hR : ∀ a, R a a) (x : Option β) : optRel R x x := by
  cases x <;> simp [optRel, hR]

theorem optRel_trans {β : Type} {R : β → β → Prop} (hR : ∀ a b c, R a b → R b c → R a c)
    {x y z : Option β} (h1 : optRel R x y) (h2 : optRel R y z) : optRel R x z := by
  cases x <;> cases y <;> cases z <;> simp [optRel] at * <;> exact hR _ _ _ h1 h2

theorem optRel_map {β : Type} {R : β → β → Prop} (f : β → β) (hf : ∀ a b, R a b → R (f a) (f b))
    {x y : Option β} (h : optRel R x y) : optRel R (x.map f) (y.map f) := by
  cases x <;> cases y <;> simp [optRel] at * <;> exact hf _ _ h

theorem afterEvent_congr (isSB : String → Bool) (g : String) (ev : Event α) (c c' : Connector α)
    (h : ConnSame isSB c c') : ConnSame isSB (c.afterEvent g ev) (c'.afterEvent g ev) := by
  unfold Connector.afterEvent
  cases ev.kind with
  | fixedLoad name gc v =>
    dsimp only
    split
    · exact ⟨h.maxPower, h.curMaxPower, h.cost, h.target, h.window,
        fun nm hn => by simp only [alGet?_alSet, h.loads nm hn]⟩
    · exact h
  | localGen name gc v =>
    dsimp only
    split
    · exact ⟨h.maxPower, h.curMaxPower, h.cost, h.target, h.window,
        fun nm hn => by simp only [alGet?_alSet, h.loads nm hn]⟩
    · exact h
  | gridSignal gc mp cost t w =>
    dsimp only
    split
    · refine ⟨?_, ?_, ?_, ?_, ?_, ?_⟩
      · rw [applySignal_maxPower, applySignal_maxPower, h.maxPower]
      · rw [applySignal_curMaxPower, applySignal_curMaxPower, h.maxPower, h.curMaxPower]
      · rw [applySignal_cost, applySignal_cost, h.cost]
      · rw [applySignal_target, applySignal_target, h.target]
      · rw [applySignal_window, applySignal_window, h.window]
      · intro nm hn; rw [applySignal_loads, applySignal_loads, h.loads nm hn]
    · exact h
  | vehicle vid k u => exact h

theorem foldl_afterEvent_congr (isSB : String → Bool) (g : String) (l : List (Event α))
    (c c' : Connector α) (h : ConnSame isSB c c') :
    ConnSame isSB (l.foldl (Connector.afterEvent g) c) (l.foldl (Connector.afterEvent g) c') := by
  induction l generalizing c c' with
  | nil => exact h
  | cons ev l ih => exact ih _ _ (afterEvent_congr isSB g ev c c' h)

/-! ### the reset loop -/

theorem alGet?_filter_key {β : Type} (p : String → Bool) (nm : String) (hp : p nm = true)
    (l : List (String × β)) : alGet? nm (l.filter (fun q => p q.1)) = alGet? nm l := by
  induction l with
  | nil => rfl
  | cons q l ih =>
    obtain ⟨k, v⟩ := q
    by_cases hk : k = nm
    · subst hk; simp [List.filter_cons, hp, alGet?]
    · by_cases hpk : p k = true
      · simp [List.filter_cons, hpk, alGet?, hk, ih]
      · simp [List.filter_cons, hpk, alGet?, hk, ih]

theorem resetLoads_ok (isSt isBat : String → Bool) (l : List (String × α))
    (h : (resetLoads isSt isBat l).2 = none) :
    (resetLoads isSt isBat l).1 = l.filter (fun q => !(isSt q.1 || isBat q.1)) := by
  induction l with
  | nil => rfl
  | cons q l ih =>
    obtain ⟨k, v⟩ := q
    unfold resetLoads at h ⊢
    by_cases h1 : isSt k = true
    · by_cases h2 : isBat k = true
      · simp [h1, h2] at h
      · simp only [h1, h2, if_true, if_false] at h ⊢
        simp [List.filter_cons, h1, ih h]
    · by_cases h2 : isBat k = true
      · simp only [h1, h2, if_true, if_false] at h ⊢
        simp [List.filter_cons, h1, h2, ih h]
      · simp only [h1, h2, if_false] at h ⊢
        simp [List.filter_cons, h1, h2, ih h]

theorem resetConnectors_ok (isSt isBat : String → Bool) (cs : List (String × Connector α))
    (h : (resetConnectors isSt isBat cs).2 = none) (g : String) :
    optRel (ConnSame (fun k => isSt k || isBat k)) (alGet? g cs)
      (alGet? g (resetConnectors isSt isBat cs).1) := by
  induction cs with
  | nil => simp [resetConnectors, alGet?, optRel]
  | cons p cs ih =>
    obtain ⟨name, c⟩ := p
    unfold resetConnectors at h ⊢
    cases hl : resetLoads isSt isBat c.loads with
    | mk loads' e =>
      simp only [hl] at h ⊢
      cases e with
      | some err => simp at h
      | none =>
        simp only at h ⊢
        have hloads : loads' = c.loads.filter (fun q => !(isSt q.1 || isBat q.1)) := by
          have := resetLoads_ok isSt isBat c.loads (by rw [hl])
          rw [hl] at this; exact this
        split at h
        · simp at h
        · rename_i hck
          simp only [hck, Bool.false_eq_true, if_false]
          by_cases hg : name = g
          · subst hg
            simp only [alGet?, if_true, optRel]
            refine ⟨rfl, rfl, rfl, rfl, rfl, ?_⟩
            intro nm hn
            simp only [hloads]
            exact alGet?_filter_key (fun k => !(isSt k || isBat k)) nm (by simp [hn]) c.loads
          · simp only [alGet?, hg, if_false]
            exact ih h
/-! ### connectors across one step and across a run -/

/-- "is the name of a charging station or of a stationary battery" in state `s` -/
def isSBof (s : Strat α) : String → Bool :=
  fun k => alHas k s.world.stations || s.world.batteries.contains k

theorem isSBof_frame {s s' : Strat α} (h : SameFrame s s') : isSBof s' = isSBof s := by
  unfold isSBof; rw [h.stations, h.batteries]

theorem step_frame (cfg : Cfg α) (s : Strat α) (b : List (Event α)) :
    (s.step cfg b).strat.world.stations = s.world.stations ∧
    (s.step cfg b).strat.world.batteries = s.world.batteries := by
  have hf := processQueue_frame cfg (s.tick cfg) (sortByStart (s.world.queue ++ b))
  obtain ⟨-, -, -, f4, f5, -⟩ :=
    finishStep_proj (processQueue cfg (s.tick cfg) (sortByStart (s.world.queue ++ b)))
  unfold Strat.step
  exact ⟨f4.trans hf.stations, f5.trans hf.batteries⟩

theorem finishStep_connectors (r : QResult α) (h : (finishStep r).err = none) (g : String) :
    optRel (ConnSame (isSBof r.strat)) (alGet? g r.strat.world.connectors)
      (alGet? g (finishStep r).strat.world.connectors) := by
  unfold finishStep at h ⊢
  cases herr : r.err with
  | some e => simp [herr] at h
  | none =>
    simp only [herr] at h ⊢
    exact resetConnectors_ok (fun k => alHas k r.strat.world.stations)
      (fun k => r.strat.world.batteries.contains k) r.strat.world.connectors h g

/-- one step without exception: every connector is, up to station/battery loads, the old one with
the popped events applied in order -/
theorem step_connectors (cfg : Cfg α) (s : Strat α) (b : List (Event α))
    (h : (s.step cfg b).err = none) (g : String) :
    optRel (ConnSame (isSBof s))
      ((alGet? g s.world.connectors).map (fun c => (s.step cfg b).popped.foldl (Connector.afterEvent g) c))
      (alGet? g (s.step cfg b).strat.world.connectors) := by
  have hq := processQueue_spec cfg (s.tick cfg) (sortByStart (s.world.queue ++ b))
  have hf := processQueue_frame cfg (s.tick cfg) (sortByStart (s.world.queue ++ b))
  obtain ⟨p1, -, -, p4⟩ := step_proj cfg s b
  rw [p1]
  have herr := p4 h
  unfold Strat.step at h ⊢
  set r := processQueue cfg (s.tick cfg) (sortByStart (s.world.queue ++ b)) with hr
  have h3 := hq.2.2.1
  have hall : (applyAll cfg (s.tick cfg) r.popped).2 = none := by rw [← h3]; exact herr
  have hc := applyAll_connector cfg (s.tick cfg) r.popped g hall
  rw [← h3] at hc
  have hreset := finishStep_connectors r h g
  have hsb : isSBof r.strat = isSBof s := by
    unfold isSBof; rw [hf.stations, hf.batteries]; rfl
  rw [hsb] at hreset
  have : alGet? g (s.tick cfg).world.connectors = alGet? g s.world.connectors := rfl
  rw [this] at hc
  rw [← hc]
  exact hreset

/-- a strategy action that leaves the frame alone and every connector unchanged up to
station/battery loads -/
def KeepsConnectors (rest : Strat α → Strat α × Option PyErr) : Prop :=
  ∀ s, SameFrame s (rest s).1 ∧
    ∀ g, optRel (ConnSame (isSBof s)) (alGet? g s.world.connectors) (alGet? g (rest s).1.world.connectors)

theorem run_connectors (cfg : Cfg α) (rest : Strat α → Strat α × Option PyErr)
    (roe : Strat α → Strat α) (hrest : KeepsConnectors rest) (conns0 : List (String × Connector α))
    (isSB : String → Bool) :
    ∀ (B : List (List (Event α))) (s : Strat α) (log : List (Event α)),
      isSBof s = isSB →
      (∀ g, optRel (ConnSame isSB)
        ((alGet? g conns0).map (fun c => log.foldl (Connector.afterEvent g) c))
        (alGet? g s.world.connectors)) →
      ∀ (j : Nat) (r : StepResult α), (runLoop cfg rest roe s B).trace[j]? = some r → r.err = none →
        ∀ g, optRel (ConnSame isSB)
          ((alGet? g conns0).map (fun c =>
            (log ++ appliedLog (runLoop cfg rest roe s B).trace j).foldl (Connector.afterEvent g) c))
          (alGet? g r.strat.world.connectors) := by
  intro B
  induction B with
  | nil => intro s log _ _ j r h; simp [runLoop] at h
  | cons b B ih =>
    intro s log hsb hinv j r h herr g
    have hstep : (s.step cfg b).err = none →
        ∀ g, optRel (ConnSame isSB)
          ((alGet? g conns0).map (fun c =>
            (log ++ (s.step cfg b).popped).foldl (Connector.afterEvent g) c))
          (alGet? g (s.step cfg b).strat.world.connectors) := by
      intro he g
      have h1 := step_connectors cfg s b he g
      rw [hsb] at h1
      have h2 := optRel_map (fun c => (s.step cfg b).popped.foldl (Connector.afterEvent g) c)
        (fun a b hab => foldl_afterEvent_congr isSB g _ a b hab) (hinv g)
      rw [Option.map_map] at h2
      have h3 := optRel_trans (R := ConnSame isSB) (fun a b c h1 h2 => ConnSame.trans h1 h2) h2 h1
      simpa [List.foldl_append, Function.comp_def] using h3
    unfold runLoop at h ⊢
    dsimp only at h ⊢
    cases he : (s.step cfg b).err with
    | some e =>
      simp only [he] at h ⊢
      cases j with
      | zero =>
        simp at h; subst h
        rw [he] at herr; cases herr
      | succ j => simp at h
    | none =>
      simp only [he] at h ⊢
      cases hr : rest (s.step cfg b).strat with
      | mk s' oe =>
        cases oe with
        | some e =>
          simp only [hr] at h ⊢
          cases j with
          | zero =>
            simp at h; subst h
            simpa [appliedLog] using hstep he g
          | succ j => simp at h
        | none =>
          simp only [hr] at h ⊢
          cases j with
          | zero =>
            simp at h; subst h
            simpa [appliedLog] using hstep he g
          | succ j =>
            simp only [List.getElem?_cons_succ] at h
            obtain ⟨k1, k2⟩ := hrest (s.step cfg b).strat
            rw [hr] at k1 k2
            have hsf := step_frame cfg s b
            have hsb1 : isSBof (s.step cfg b).strat = isSB := by
              rw [← hsb]; unfold isSBof; rw [hsf.1, hsf.2]
            have hsb' : isSBof s' = isSB := by rw [isSBof_frame k1, hsb1]
            have hinv' : ∀ g, optRel (ConnSame isSB)
                ((alGet? g conns0).map (fun c =>
                  (log ++ (s.step cfg b).popped).foldl (Connector.afterEvent g) c))
                (alGet? g s'.world.connectors) := by
              intro g
              have := k2 g
              rw [hsb1] at this
              exact optRel_trans (R := ConnSame isSB) (fun a b c h1 h2 => ConnSame.trans h1 h2) (hstep he g) this
            have := ih s' (log ++ (s.step cfg b).popped) hsb' hinv' j r h herr g
            simpa [appliedLog, List.take_succ_cons, List.flatMap_cons, List.append_assoc] using this

/-! ### "the value of the last applied event that set it" -/

/-- value of an attribute after the events of `log` were applied in order: every event that sets the
attribute (`f e = some v`) overwrites it -/
def lastSet {β : Type} (f : Event α → Option β) (init : β) (log : List (Event α)) : β :=
  log.foldl (fun acc e => (f e).getD acc) init

def Event.setsCost (g : String) (ev : Event α) : Option (Cost α) :=
  match ev.kind with
  | .gridSignal gc _ cost _ _ => if gc = g then cost else none
  | _ => none

def Event.setsTarget (g : String) (ev : Event α) : Option (Option α) :=
  match ev.kind with
  | .gridSignal gc _ _ t _ => if gc = g then t.map some else none
  | _ => none

def Event.setsWindow (g : String) (ev : Event α) : Option (Option Bool) :=
  match ev.kind with
  | .gridSignal gc _ _ _ w => if gc = g then w.map some else none
  | _ => none

/-- fixed load `nm` at connector `g` := value; generation `nm` := −value -/
def Event.setsLoad (g nm : String) (ev : Event α) : Option (Option α) :=
  match ev.kind with
  | .fixedLoad name gc v => if gc = g ∧ name = nm then some (some v) else none
  | .localGen name gc v => if gc = g ∧ name = nm then some (some (-v)) else none
  | _ => none

/-- the limit a signal puts in force on a connector with rating `rating`: with a set (non-zero)
rating `min rating ℓ` if the signal carries a limit `ℓ`; with an unset rating whatever it carries -/
def Event.setsLimit (g : String) (rating : α) (ev : Event α) : Option (Option α) :=
  match ev.kind with
  | .gridSignal gc mp _ _ _ =>
    if gc = g then (if rating ≠ 0 then mp.map (fun m => some (min rating m)) else some mp) else none
  | _ => none

theorem foldl_attr {β : Type} (π : Connector α → β) (f : Event α → Option β) (g : String)
    (I : Connector α → Prop)
    (h : ∀ c ev, I c → π (c.afterEvent g ev) = (f ev).getD (π c) ∧ I (c.afterEvent g ev))
    (c : Connector α) (hc : I c) (l : List (Event α)) :
    π (l.foldl (Connector.afterEvent g) c) = lastSet f (π c) l ∧
      I (l.foldl (Connector.afterEvent g) c) := by
  induction l generalizing c with
  | nil => exact ⟨rfl, hc⟩
  | cons ev l ih =>
    obtain ⟨h1, h2⟩ := h c ev hc
    obtain ⟨i1, i2⟩ := ih (c.afterEvent g ev) h2
    refine ⟨?_, i2⟩
    simp only [List.foldl_cons, lastSet] at i1 ⊢
    rw [i1, h1]

theorem afterEvent_maxPower (g : String) (c : Connector α) (ev : Event α) :
    (c.afterEvent g ev).maxPower = c.maxPower := by
  unfold Connector.afterEvent
  cases ev.kind <;> dsimp only <;> (try split) <;> simp [applySignal_maxPower]

theorem afterEvent_cost (g : String) (c : Connector α) (ev : Event α) :
    (c.afterEvent g ev).cost = (ev.setsCost g).getD c.cost := by
  unfold Connector.afterEvent Event.setsCost
  cases ev.kind <;> dsimp only <;> (try split) <;> simp [applySignal_cost]

theorem afterEvent_target (g : String) (c : Connector α) (ev : Event α) :
    (c.afterEvent g ev).target = (ev.setsTarget g).getD c.target := by
  unfold Connector.afterEvent Event.setsTarget
  cases ev.kind <;> dsimp only <;> (try split) <;> simp [applySignal_target]

theorem afterEvent_window (g : String) (c : Connector α) (ev : Event α) :
    (c.afterEvent g ev).window = (ev.setsWindow g).getD c.window := by
  unfold Connector.afterEvent Event.setsWindow
  cases ev.kind <;> dsimp only <;> (try split) <;> simp [applySignal_window]

theorem afterEvent_curMaxPower (g : String) (c : Connector α) (ev : Event α) :
    (c.afterEvent g ev).curMaxPower = (ev.setsLimit g c.maxPower).getD c.curMaxPower := by
  unfold Connector.afterEvent Event.setsLimit
  cases ev.kind <;> dsimp only <;> (try split) <;> simp [applySignal_curMaxPower]
  all_goals (split <;> simp)

theorem afterEvent_load (g nm : String) (c : Connector α) (ev : Event α) :
    alGet? nm (c.afterEvent g ev).loads = (ev.setsLoad g nm).getD (alGet? nm c.loads) := by
  unfold Connector.afterEvent Event.setsLoad
  cases ev.kind with
  | fixedLoad name gc v =>
    dsimp only
    by_cases h1 : gc = g <;> by_cases h2 : name = nm <;> simp [h1, h2, alGet?_alSet]
  | localGen name gc v =>
    dsimp only
    by_cases h1 : gc = g <;> by_cases h2 : name = nm <;> simp [h1, h2, alGet?_alSet]
  | gridSignal gc mp cost t w =>
    dsimp only
    split <;> simp [applySignal_loads]
  | vehicle vid k u => simp

/-- all attribute read-outs of the specification-level connector `log.foldl afterEvent c0` -/
theorem foldl_afterEvent_attrs (g : String) (c0 : Connector α) (log : List (Event α)) :
    (log.foldl (Connector.afterEvent g) c0).maxPower = c0.maxPower ∧
    (log.foldl (Connector.afterEvent g) c0).cost = lastSet (Event.setsCost g) c0.cost log ∧
    (log.foldl (Connector.afterEvent g) c0).target = lastSet (Event.setsTarget g) c0.target log ∧
    (log.foldl (Connector.afterEvent g) c0).window = lastSet (Event.setsWindow g) c0.window log ∧
    (log.foldl (Connector.afterEvent g) c0).curMaxPower
      = lastSet (Event.setsLimit g c0.maxPower) c0.curMaxPower log ∧
    ∀ nm, alGet? nm (log.foldl (Connector.afterEvent g) c0).loads
      = lastSet (Event.setsLoad g nm) (alGet? nm c0.loads) log := by
  have hmp : ∀ l : List (Event α), ∀ c : Connector α,
      (l.foldl (Connector.afterEvent g) c).maxPower = c.maxPower := by
    intro l; induction l with
    | nil => intro c; rfl
    | cons ev l ih => intro c; simp only [List.foldl_cons]; rw [ih, afterEvent_maxPower]
  refine ⟨hmp log c0, ?_, ?_, ?_, ?_, ?_⟩
  · exact (foldl_attr (·.cost) (Event.setsCost g) g (fun _ => True)
      (fun c ev _ => ⟨afterEvent_cost g c ev, trivial⟩) c0 trivial log).1
  · exact (foldl_attr (·.target) (Event.setsTarget g) g (fun _ => True)
      (fun c ev _ => ⟨afterEvent_target g c ev, trivial⟩) c0 trivial log).1
  · exact (foldl_attr (·.window) (Event.setsWindow g) g (fun _ => True)
      (fun c ev _ => ⟨afterEvent_window g c ev, trivial⟩) c0 trivial log).1
  · exact (foldl_attr (·.curMaxPower) (Event.setsLimit g c0.maxPower) g
      (fun c => c.maxPower = c0.maxPower)
      (fun c ev hc => ⟨by rw [afterEvent_curMaxPower, hc], by rw [afterEvent_maxPower, hc]⟩)
      c0 rfl log).1
  · intro nm
    exact (foldl_attr (fun c => alGet? nm c.loads) (Event.setsLoad g nm) g (fun _ => True)
      (fun c ev _ => ⟨afterEvent_load g nm c ev, trivial⟩) c0 trivial log).1

/-- with a set rating the limit in force is always defined and never above the rating -/
theorem lastSet_limit_le (g : String) (rating : α) (hr : rating ≠ 0) (log : List (Event α))
    (x : α) (hx : x ≤ rating) :
    ∃ y, lastSet (Event.setsLimit g rating) (some x) log = some y ∧ y ≤ rating := by
  induction log generalizing x with
  | nil => exact ⟨x, rfl, hx⟩
  | cons ev log ih =>
    unfold lastSet
    simp only [List.foldl_cons]
    have : ∃ x', ((Event.setsLimit g rating ev).getD (some x)) = some x' ∧ x' ≤ rating := by
      unfold Event.setsLimit
      cases ev.kind with
      | gridSignal gc mp cost t w =>
        dsimp only
        by_cases hg : gc = g
        · cases mp with
          | none => simp [hg, hr]; exact hx
          | some m => simp [hg, hr]
        · simp [hg]; exact hx
      | _ => simp; exact hx
    obtain ⟨x', h1, h2⟩ := this
    rw [h1]
    exact ih x' h2

/-! ### the effect step, read as the property's sentence -/

theorem bucketOf_some (start : Int) (n : Nat) (Δ : Int) (e : Event α) (b : Nat)
    (h : bucketOf start n Δ e = some b) :
    (b : Int) = max 0 (bucketIndex start e.signal Δ) := by
  unfold bucketOf at h
  dsimp only at h
  split at h
  · simp at h; subst h; rename_i h0; simp; omega
  · split at h
    · simp at h
    · simp at h; subst h; rename_i h0 h1; omega

/-- `effectStep e = some k` says: `k` is the first step (index ≥ 0) whose time is at or after the
event's start time and not before its signal time -/
theorem effectStep_first (start : Int) (n : Nat) (Δ : Int) (hΔ : 0 < Δ) (e : Event α) (k : Nat)
    (h : effectStep start n Δ e = some k) :
    e.signal ≤ start + (k : Int) * Δ ∧ e.start ≤ start + (k : Int) * Δ ∧
    ∀ k' : Nat, k' < k → ¬ (e.signal ≤ start + (k' : Int) * Δ ∧ e.start ≤ start + (k' : Int) * Δ) := by
  unfold effectStep at h
  cases hb : bucketOf start n Δ e with
  | none => rw [hb] at h; simp at h
  | some b =>
    rw [hb] at h
    simp only [Option.map_some, Option.some.injEq] at h
    have hb' := bucketOf_some start n Δ e b hb
    refine ⟨?_, ?_, ?_⟩
    · rw [← le_bucketIndex_iff start e.signal Δ k hΔ]; omega
    · rw [start_le_iff start Δ hΔ e k]; omega
    · intro k' hk' ⟨h1, h2⟩
      rw [← le_bucketIndex_iff start e.signal Δ k' hΔ] at h1
      rw [start_le_iff start Δ hΔ e k'] at h2
      omega

/-- an event is dropped iff it is signalled after the last simulation step -/
theorem effectStep_none_iff (start : Int) (n : Nat) (Δ : Int) (hΔ : 0 < Δ) (hn : 0 < n) (e : Event α) :
    effectStep start n Δ e = none ↔ start + ((n : Int) - 1) * Δ < e.signal := by
  have key : start + ((n : Int) - 1) * Δ < e.signal ↔ (n : Int) ≤ bucketIndex start e.signal Δ := by
    rw [← not_le, ← le_bucketIndex_iff start e.signal Δ _ hΔ]; omega
  rw [key]
  unfold effectStep bucketOf
  dsimp only
  split
  · simp; omega
  · split
    · simp; omega
    · simp; omega

/-- the due list of step `j` of a run fed by `get_event_steps` is the stable sort, by start time,
of the events handed over so far whose effect step is `j` -/
theorem dueList_eq_filter (start : Int) (n : Nat) (Δ : Int) (hΔ : 0 < Δ) (hn : 0 < n)
    (all : List (Event α)) (j : Nat) (hj : j < n) :
    dueList Δ (start + (j : Int) * Δ) (((bucketsOf start n Δ all).take j).flatten)
        ((bucketsOf start n Δ all)[j]?.getD []) =
      sortByStart ((((bucketsOf start n Δ all).take (j + 1)).flatten).filter
        (fun e => effectStep start n Δ e == some j)) := by
  have hlen : j < (bucketsOf start n Δ all).length := by simp [bucketsOf, hj]
  have htake : ((bucketsOf start n Δ all).take (j + 1)).flatten
      = ((bucketsOf start n Δ all).take j).flatten ++ ((bucketsOf start n Δ all)[j]?.getD []) := by
    rw [List.take_add_one, List.flatten_append]
    simp [List.getElem?_eq_getElem hlen]
  unfold dueList
  rw [htake, List.filter_append]
  have h1 : start + (j : Int) * Δ - Δ = start + ((j : Int) - 1) * Δ := by ring
  congr 2
  · apply List.filter_congr
    intro e he
    obtain ⟨-, k, hk, hb⟩ := (mem_take_flatten_bucketsOf start n Δ hn all j e).mp he
    have h2 : start + ((j : Int) - 1) * Δ < e.start ↔ (j : Int) ≤ startIndex start Δ e := by
      rw [← not_le, start_le_iff start Δ hΔ e]; omega
    unfold effectStep
    rw [hb, h1]
    simp only [Option.map_some, beq_iff_eq, Option.some.injEq]
    rw [Bool.eq_iff_iff]
    simp only [Bool.and_eq_true, decide_eq_true_eq, beq_iff_eq, Option.some.injEq]
    rw [h2, start_le_iff start Δ hΔ e j]
    omega
  · rw [bucketsOf_getElem? start n Δ all j hj]
    simp only [Option.getD_some]
    apply List.filter_congr
    intro e he
    have hb : bucketOf start n Δ e = some j := by
      have := (List.mem_filter.mp he).2; simpa using this
    unfold effectStep
    rw [hb]
    simp only [Option.map_some, beq_iff_eq, Option.some.injEq]
    rw [Bool.eq_iff_iff]
    simp only [decide_eq_true_eq, beq_iff_eq, Option.some.injEq]
    rw [start_le_iff start Δ hΔ e j]
    omega

/-! ### the freshly constructed strategy object -/

theorem init_spec (w : World α) (start interval : Int) (conc : α) (s0 : Strat α)
    (h : Strat.init w start interval conc = .ok s0) :
    s0.now = start - interval ∧ s0.world.queue = [] ∧ s0.world.connectors = w.connectors ∧
    s0.world.vehicles = w.vehicles ∧ s0.world.batteries = w.batteries ∧
    s0.desiredCounter = 0 ∧ s0.marginCounter = 0 ∧ s0.tracker = [] ∧ interval ≠ 0 := by
  unfold Strat.init at h
  split at h
  · cases h
  · rename_i hi
    cases h
    exact ⟨rfl, rfl, rfl, rfl, rfl, rfl, rfl, rfl, hi⟩

/-! ### series -/

section Series
variable (l : ValuesList α) (name : String) (gen fs : Bool)

theorem eventsFrom_append (i : Nat) (xs ys : List α) :
    l.eventsFrom name gen fs i (xs ++ ys) =
      l.eventsFrom name gen fs i xs ++ l.eventsFrom name gen fs (i + xs.length) ys := by
  induction xs generalizing i with
  | nil => simp [ValuesList.eventsFrom]
  | cons x xs ih =>
    simp only [List.cons_append, ValuesList.eventsFrom, List.length_cons, ih (i + 1)]
    congr 3; omega

theorem mem_eventsFrom (i : Nat) (xs : List α) (e : Event α)
    (h : e ∈ l.eventsFrom name gen fs i xs) :
    ∃ k v, i ≤ k ∧ k < i + xs.length ∧ e = l.eventAt name gen fs k v := by
  induction xs generalizing i with
  | nil => simp [ValuesList.eventsFrom] at h
  | cons x xs ih =>
    simp only [ValuesList.eventsFrom, List.mem_cons] at h
    rcases h with rfl | h
    · exact ⟨i, x, le_refl _, by simp, rfl⟩
    · obtain ⟨k, v, h1, h2, h3⟩ := ih (i + 1) h
      exact ⟨k, v, by omega, by simp at h2 ⊢; omega, h3⟩
end Series

/-! ### the tail of a series is the last applied setter -/

theorem lastSet_append {β : Type} (f : Event α → Option β) (x : β) (A B : List (Event α)) :
    lastSet f x (A ++ B) = lastSet f (lastSet f x A) B := by
  unfold lastSet; rw [List.foldl_append]

theorem lastSet_no_setter {β : Type} (f : Event α → Option β) (x : β) (A : List (Event α))
    (h : ∀ e ∈ A, f e = none) : lastSet f x A = x := by
  induction A generalizing x with
  | nil => rfl
  | cons e A ih =>
    unfold lastSet
    rw [List.foldl_cons, h e (by simp)]
    exact ih x (fun e' he' => h e' (by simp [he']))

/-- in a list sorted by start time that contains an event `t` writing `z`, in which every other
writer either writes `z` too or starts strictly before `t`, the last writer writes `z` -/
theorem lastSet_sorted_tail {β : Type} (f : Event α → Option β) (z : β) (t : Event α)
    (ht : f t = some z) :
    ∀ (P : List (Event α)) (x : β), KeySorted Event.start P → t ∈ P →
      (∀ e ∈ P, f e = none ∨ f e = some z ∨ e.start < t.start) → lastSet f x P = z := by
  intro P
  induction P using List.reverseRecOn with
  | nil => intro x _ h; simp at h
  | append_singleton P e ih =>
    intro x hs hmem hset
    rw [lastSet_append]
    have hsP : KeySorted Event.start P := by
      unfold KeySorted at hs ⊢; exact (List.pairwise_append.mp hs).1
    have hle : ∀ a ∈ P, a.start ≤ e.start := by
      intro a ha
      unfold KeySorted at hs
      exact (List.pairwise_append.mp hs).2.2 a ha e (by simp)
    rcases hset e (by simp) with h | h | h
    · -- e writes nothing: t is in P
      have : t ∈ P := by
        rcases List.mem_append.mp hmem with h' | h'
        · exact h'
        · simp at h'; subst h'; rw [ht] at h; cases h
      simp only [lastSet, List.foldl_cons, List.foldl_nil, h, Option.getD_none]
      exact ih x hsP this (fun a ha => hset a (by simp [ha]))
    · simp only [lastSet, List.foldl_cons, List.foldl_nil, h, Option.getD_some]
    · -- e starts strictly before t: t cannot be in P (sorted) nor be e
      exfalso
      rcases List.mem_append.mp hmem with h' | h'
      · have := hle t h'; omega
      · simp at h'; subst h'; omega

theorem effectStep_le (start : Int) (n : Nat) (Δ : Int) (hΔ : 0 < Δ) (e : Event α) (k : Nat)
    (hk : k < n) (h1 : e.signal ≤ start + (k : Int) * Δ) (h2 : e.start ≤ start + (k : Int) * Δ) :
    ∃ k', k' ≤ k ∧ effectStep start n Δ e = some k' := by
  have b1 := (le_bucketIndex_iff start e.signal Δ k hΔ).mpr h1
  have b2 := (start_le_iff start Δ hΔ e k).mp h2
  unfold effectStep bucketOf
  dsimp only
  split
  · exact ⟨max 0 (startIndex start Δ e).toNat, by omega, by simp⟩
  · split
    · omega
    · exact ⟨max (bucketIndex start e.signal Δ).toNat (startIndex start Δ e).toNat, by omega, by simp⟩

/-- steps before an executed step raised nothing -/
theorem runLoop_earlier_ok (cfg : Cfg α) (rest : Strat α → Strat α × Option PyErr)
    (roe : Strat α → Strat α) (B : List (List (Event α))) (s : Strat α) (j : Nat) (r : StepResult α)
    (hr : (runLoop cfg rest roe s B).trace[j]? = some r) :
    ∀ j' r', j' < j → (runLoop cfg rest roe s B).trace[j']? = some r' → r'.err = none := by
  induction B generalizing s j with
  | nil => simp [runLoop] at hr
  | cons b B ih =>
    intro j' r' hlt hr'
    unfold runLoop at hr hr'
    dsimp only at hr hr'
    cases he : (s.step cfg b).err with
    | some e =>
      simp only [he] at hr hr'
      cases j with
      | zero => omega
      | succ j => simp at hr
    | none =>
      simp only [he] at hr hr'
      cases hrs : rest (s.step cfg b).strat with
      | mk s' oe =>
        simp only [hrs] at hr hr'
        cases oe with
        | some e =>
          simp only [] at hr hr'
          cases j with
          | zero => omega
          | succ j => simp at hr
        | none =>
          simp only [] at hr hr'
          cases j with
          | zero => omega
          | succ j =>
            cases j' with
            | zero => simp at hr'; subst hr'; exact he
            | succ j' =>
              simp only [List.getElem?_cons_succ] at hr hr'
              exact ih s' j hr j' r' (by omega) hr'

theorem keepsQueue_of_keepsConnectors (rest : Strat α → Strat α × Option PyErr)
    (h : KeepsConnectors rest) : KeepsQueue rest :=
  fun s => ⟨(h s).1.now, (h s).1.queue⟩


theorem runLoop_trace_length (cfg : Cfg α) (rest : Strat α → Strat α × Option PyErr)
    (roe : Strat α → Strat α) (B : List (List (Event α))) (s : Strat α) :
    (runLoop cfg rest roe s B).trace.length ≤ B.length := by
  induction B generalizing s with
  | nil => simp [runLoop]
  | cons b B ih =>
    unfold runLoop
    dsimp only
    split
    · simp
    · split
      · simp
      · simp; exact ih _


end SpiceEv
