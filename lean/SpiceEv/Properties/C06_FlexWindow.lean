/-
C06 — Bookkeeping, strategy flex_window (LOAD_STRAT balanced; Model/StratFlexWindow.lean).
-/
import SpiceEv.Proofs.StratFlexWindow
set_option linter.unusedSectionVars false
namespace SpiceEv
open SpiceEv.FlexWindow
variable {α B : Type} [Field α] [LinearOrder α] [IsStrictOrderedRing α]

/-- **Station power and connector load entries agree** (whole step, balanced): if before the step the
connector has no (non-zero) load entry for any station (`Strategy.step` deletes them) and no station id is a
battery id, then after the step there is still exactly one connector and, for every station, its entry in
`current_loads` equals `cs.current_power` — every pass adds the same average power to both
(`gc.add_load(cs_id, p)` / `cs.current_power += p`), the battery passes only touch battery keys. -/
theorem C06_flex_window_balanced_station_entries (ops : BatOps α B) (env : FEnv α)
    (hstrat : env.strat = .balanced)
    (w w' : SWorld α B) (window win' : Option Bool) (events : List (FEvent α))
    (cmds : List (String × α)) (g : GcS α) (hg : w.gcs = [g])
    (h0 : ∀ s ∈ w.stations, (sdGet g.loads s.id).getD 0 = 0)
    (hsb : ∀ s ∈ w.stations, ∀ b ∈ w.batteries, s.id ≠ b.id)
    (h : FlexWindow.step ops env w window events = .ok (w', win', cmds)) :
    ∃ g', w'.gcs = [g'] ∧ ∀ s ∈ w'.stations, (sdGet g'.loads s.id).getD 0 = s.currentPower := by
  obtain ⟨⟨g', hg'⟩, he, _, _⟩ := step_balanced_finv ops env hstrat w w' window win' events cmds g hg h0 hsb h
  exact ⟨g', hg', fun s hs => he g' hg' s hs⟩

/-- Non-vacuity: the example world satisfies the hypotheses; after the step the entry "CS" and the station power are
both ≈ 2 kW (the first component of `resLoads` is the sum 3 + 2). -/
example : resLoads (FlexWindow.step idealOps (exEnv .balanced) exWorld (some true) []) =
    some ([10485701 / 2097152], [4194245 / 2097152]) := by decide +kernel
example : ∀ s ∈ exWorld.stations, (sdGet [("load", (3 : ℚ))] s.id).getD 0 = 0 := by decide


/-- **Station power and connector load entries agree, LOAD_STRAT greedy / needy** (whole `step`, LOAD_STRAT ≠
balanced): same hypotheses and statement as `C06_flex_window_balanced_station_entries` — the command loop of
`distribute_peak_shaving_vehicles` (`gc.add_load(cs_id, power)` / `cs.current_power += …`, the `assert` makes both
values equal), the surplus pass of the base class, `distribute_peak_shaving_v2g` and the battery passes keep
entry = `current_power` for every station. -/
theorem C06_flex_window_greedy_needy_station_entries (ops : BatOps α B) (env : FEnv α)
    (hstrat : env.strat ≠ .balanced)
    (w w' : SWorld α B) (window win' : Option Bool) (events : List (FEvent α))
    (cmds : List (String × α)) (g : GcS α) (hg : w.gcs = [g])
    (h0 : ∀ s ∈ w.stations, (sdGet g.loads s.id).getD 0 = 0)
    (hsb : ∀ s ∈ w.stations, ∀ b ∈ w.batteries, s.id ≠ b.id)
    (h : FlexWindow.step ops env w window events = .ok (w', win', cmds)) :
    ∃ g', w'.gcs = [g'] ∧ ∀ s ∈ w'.stations, (sdGet g'.loads s.id).getD 0 = s.currentPower := by
  obtain ⟨⟨g', hg'⟩, he, _, _⟩ := step_ps_finv ops env hstrat w w' window win' events cmds g hg h0 hsb h
  exact ⟨g', hg', fun s hs => he g' hg' s hs⟩

/-- Non-vacuity (greedy): the V2G-capable vehicle of `exWorld5` charges 2 kW; connector entry and station power are
both 2 kW. -/
example : resLoads (FlexWindow.step idealOps (exEnv .greedy) exWorld5 (some true) []) = some ([2], [2]) := by
  decide +kernel

end SpiceEv
