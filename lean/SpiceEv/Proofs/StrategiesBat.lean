/-
Greedy/balanced with stationary-battery support: the connector limit still holds after the whole
step, provided a target-power request to `unload` delivers exactly `min target available`
(C02's target-power sentence).
-/
import SpiceEv.Proofs.Strategies
set_option linter.unusedSectionVars false
set_option linter.unusedSimpArgs false
set_option linter.unusedVariables false
namespace SpiceEv
variable {α B : Type} [Field α] [LinearOrder α] [IsStrictOrderedRing α]

/-- every connector of `w'` is a connector of `w` with a different load list only -/
def SameMeta (w w' : SWorld α B) : Prop :=
  ∀ g' ∈ w'.gcs, ∃ g ∈ w.gcs, g'.id = g.id ∧ g'.cost = g.cost ∧ g'.curMax = g.curMax

theorem SameMeta.refl (w : SWorld α B) : SameMeta w w := fun g hg => ⟨g, hg, rfl, rfl, rfl⟩

theorem SameMeta.trans {w1 w2 w3 : SWorld α B} (h12 : SameMeta w1 w2) (h23 : SameMeta w2 w3) :
    SameMeta w1 w3 := by
  intro g3 hg3
  obtain ⟨g2, hg2, a, b, c⟩ := h23 g3 hg3
  obtain ⟨g1, hg1, a', b', c'⟩ := h12 g2 hg2
  exact ⟨g1, hg1, a.trans a', b.trans b', c.trans c'⟩

/-- replacing a connector by the result of `addLoad` on it keeps the meta data -/
theorem sameMeta_setGc_addLoad (w : SWorld α B) (gc : GcS α) (hg : gc ∈ w.gcs) (k : String) (v : α) :
    SameMeta w (w.setGc (gc.addLoad k v).1) := by
  intro g' hg'
  rcases mem_setGc _ _ g' hg' with rfl | ⟨hm, _⟩
  · obtain ⟨_, h2, h3, h4⟩ := addLoad_currentLoad gc k v
    exact ⟨gc, hg, h3, h4, h2⟩
  · exact ⟨g', hm, rfl, rfl, rfl⟩

theorem sameMeta_of_gcs_eq {w w' : SWorld α B} (h : w'.gcs = w.gcs) : SameMeta w w' := by
  intro g hg; rw [h] at hg; exact ⟨g, hg, rfl, rfl, rfl⟩

theorem allocVehicle_sameMeta (rule : Rule) (ops : BatOps α B) (env : StratEnv α)
    (st st' : SWorld α B × List (String × α) × List (String × α)) (vid : String)
    (h : allocVehicle rule ops env st vid = .ok st') : SameMeta st.1 st'.1 := by
  unfold allocVehicle at h
  split at h
  · cases h
  · split at h
    · simp only [Except.ok.injEq] at h; subst h; exact SameMeta.refl _
    · split at h
      · cases h
      · split at h
        · cases h
        · rename_i gc hgc
          obtain ⟨hgm, _⟩ := gc?_some _ _ gc hgc
          simp only [bind, Except.bind] at h
          split at h
          · cases h
          · split at h
            · cases h
            · split at h
              · cases h
              · simp only [Except.ok.injEq] at h
                subst h
                intro g' hg'
                simp only [setStation_gcs] at hg'
                exact sameMeta_setGc_addLoad _ gc (by simpa using hgm) _ _ g' hg'

theorem allocFold_sameMeta (rule : Rule) (ops : BatOps α B) (env : StratEnv α) (ids : List String)
    (st st' : SWorld α B × List (String × α) × List (String × α))
    (h : ids.foldlM (allocVehicle rule ops env) st = .ok st') : SameMeta st.1 st'.1 := by
  induction ids generalizing st with
  | nil =>
    simp only [List.foldlM_nil, pure, Except.pure, Except.ok.injEq] at h
    subst h; exact SameMeta.refl _
  | cons id rest ih =>
    simp only [List.foldlM_cons, bind, Except.bind] at h
    split at h
    · cases h
    · rename_i st1 hs
      exact SameMeta.trans (allocVehicle_sameMeta rule ops env st st1 id hs) (ih st1 h)

theorem surplusVehicle_sameMeta (ops : BatOps α B) (env : StratEnv α) (cheap : List (String × Bool))
    (w w' : SWorld α B) (cmds cmds' : List (String × α)) (v : VehicleS α B)
    (h : surplusVehicle ops env cheap w cmds v = .ok (w', cmds')) : SameMeta w w' := by
  unfold surplusVehicle at h
  split at h
  · simp only [Except.ok.injEq, Prod.mk.injEq] at h; obtain ⟨rfl, _⟩ := h; exact SameMeta.refl _
  · split at h
    · cases h
    · split at h
      · cases h
      · rename_i gc hgc
        obtain ⟨hgm, _⟩ := gc?_some _ _ gc hgc
        simp only at h
        split at h
        · simp only [bind, Except.bind] at h
          split at h
          · cases h
          · simp only [Except.ok.injEq, Prod.mk.injEq] at h
            obtain ⟨rfl, _⟩ := h
            intro g' hg'
            simp only [setStation_gcs] at hg'
            exact sameMeta_setGc_addLoad _ gc (by simpa using hgm) _ _ g' hg'
        · split at h
          · simp only [bind, Except.bind] at h
            split at h
            · cases h
            · simp only [Except.ok.injEq, Prod.mk.injEq] at h
              obtain ⟨rfl, _⟩ := h
              intro g' hg'
              simp only [setStation_gcs] at hg'
              exact sameMeta_setGc_addLoad _ gc (by simpa using hgm) _ _ g' hg'
          · simp only [Except.ok.injEq, Prod.mk.injEq] at h; obtain ⟨rfl, _⟩ := h; exact SameMeta.refl _

theorem distributeSurplus_sameMeta (ops : BatOps α B) (env : StratEnv α) (w w' : SWorld α B)
    (cmds' : List (String × α)) (h : distributeSurplus ops env w = .ok (w', cmds')) :
    SameMeta w w' := by
  unfold distributeSurplus at h
  simp only [bind, Except.bind] at h
  split at h
  · cases h
  · rename_i cheap _
    have key : ∀ (vs : List (VehicleS α B)) (st st' : SWorld α B × List (String × α)),
        vs.foldlM (fun (st : SWorld α B × List (String × α)) v0 =>
          match st.1.vehicle? v0.id with
          | none => Except.ok st
          | some v => surplusVehicle ops env cheap st.1 st.2 v) st = .ok st' →
        SameMeta st.1 st'.1 := by
      intro vs
      induction vs with
      | nil =>
        intro st st' h3
        simp only [List.foldlM_nil, pure, Except.pure, Except.ok.injEq] at h3
        subst h3; exact SameMeta.refl _
      | cons v0 rest ih =>
        intro st st' h3
        simp only [List.foldlM_cons, bind, Except.bind] at h3
        split at h3
        · cases h3
        · rename_i st1 hst1
          split at hst1
          · simp only [Except.ok.injEq] at hst1
            subst hst1
            exact ih _ _ h3
          · obtain ⟨w1, c1⟩ := st1
            exact SameMeta.trans (surplusVehicle_sameMeta ops env cheap st.1 w1 st.2 c1 _ hst1)
              (ih _ _ h3)
    exact key w.vehicles (w, []) (w', cmds') h

end SpiceEv

namespace SpiceEv
variable {α B : Type} [Field α] [LinearOrder α] [IsStrictOrderedRing α]

theorem gcCheap_congr (env : StratEnv α) (g g' : GcS α) (h : g'.cost = g.cost) :
    gcCheap env g' = gcCheap env g := by
  unfold gcCheap; rw [h]

theorem planPower_cheap_unused (rule : Rule) (ops : BatOps α B) (env : StratEnv α)
    (left availGc : α) (cs : StationS α) (v : VehicleS α B) (p : α) (used : Bool)
    (h : planPower rule ops env true left availGc cs v = .ok (p, used)) : used = false := by
  unfold planPower at h
  simp only [if_true, Except.ok.injEq, Prod.mk.injEq] at h
  exact h.2.symm

/-- no battery support is reserved at a connector with cheap price -/
def CheapInv (A0 : String → α) (env : StratEnv α) (w : SWorld α B) (avail : List (String × α)) : Prop :=
  ∀ g ∈ w.gcs, gcCheap env g = .ok true → availOf avail g.id = A0 g.id

theorem allocVehicle_cheapInv (rule : Rule) (ops : BatOps α B) (env : StratEnv α) (A0 : String → α)
    (st st' : SWorld α B × List (String × α) × List (String × α)) (vid : String)
    (hinv : CheapInv A0 env st.1 st.2.2)
    (h : allocVehicle rule ops env st vid = .ok st') : CheapInv A0 env st'.1 st'.2.2 := by
  unfold allocVehicle at h
  split at h
  · cases h
  · split at h
    · simp only [Except.ok.injEq] at h; subst h; exact hinv
    · split at h
      · cases h
      · rename_i cs hst
        split at h
        · cases h
        · rename_i gc hgc
          obtain ⟨hgm, hgid⟩ := gc?_some _ _ gc hgc
          simp only [bind, Except.bind] at h
          split at h
          · cases h
          · rename_i cheap hch
            split at h
            · cases h
            · rename_i pu hpl
              obtain ⟨power, used⟩ := pu
              split at h
              · cases h
              · rename_i ba hcc
                obtain ⟨bat', avg⟩ := ba
                simp only [Except.ok.injEq] at h
                subst h
                intro g hg hcheap
                simp only [setStation_gcs] at hg
                rcases mem_setGc _ _ g hg with rfl | ⟨hgm', hne⟩
                · -- the charged connector
                  obtain ⟨_, _, hI, hC⟩ := addLoad_currentLoad gc _ avg
                  rw [gcCheap_congr env gc _ hC, hch] at hcheap
                  simp only [Except.ok.injEq] at hcheap
                  subst hcheap
                  have hu := planPower_cheap_unused rule ops env _ _ cs _ power used hpl
                  subst hu
                  simp only [Bool.false_eq_true, if_false, hI]
                  have := hinv gc hgm (by rw [hch])
                  exact this
                · simp only [setVehicle_gcs] at hgm'
                  have hne' : g.id ≠ cs.parent := by
                    rw [(addLoad_currentLoad gc _ avg).2.2.1] at hne; rw [← hgid]; exact hne
                  have hsame : availOf (if used = true then sdSet st.2.2 cs.parent
                      (pymax ((sdGet st.2.2 cs.parent).getD 0 - avg) 0) else st.2.2) g.id
                      = availOf st.2.2 g.id := by
                    cases used with
                    | false => simp
                    | true => simp only [if_true]; unfold availOf; rw [sdGet_alSet_ne _ _ _ _ hne']
                  show availOf _ g.id = A0 g.id
                  rw [hsame]
                  exact hinv g hgm' hcheap

theorem allocFold_cheapInv (rule : Rule) (ops : BatOps α B) (env : StratEnv α) (A0 : String → α)
    (ids : List String) (st st' : SWorld α B × List (String × α) × List (String × α))
    (hinv : CheapInv A0 env st.1 st.2.2)
    (h : ids.foldlM (allocVehicle rule ops env) st = .ok st') : CheapInv A0 env st'.1 st'.2.2 := by
  induction ids generalizing st with
  | nil =>
    simp only [List.foldlM_nil, pure, Except.pure, Except.ok.injEq] at h
    subst h; exact hinv
  | cons id rest ih =>
    simp only [List.foldlM_cons, bind, Except.bind] at h
    split at h
    · cases h
    · rename_i st1 hs
      exact ih st1 (allocVehicle_cheapInv rule ops env A0 st st1 id hinv hs) h

end SpiceEv

namespace SpiceEv
variable {α B : Type} [Field α] [LinearOrder α] [IsStrictOrderedRing α]

/-- support available at connector `gid` from the batteries of the list (`av` = what each can deliver) -/
def supR (av : String → α) (R : List (StatBatS α B)) (gid : String) : α :=
  ((R.filter (fun b => b.parent == gid)).map (fun b => av b.id)).sum

theorem supR_cons (av : String → α) (b : StatBatS α B) (R : List (StatBatS α B)) (gid : String) :
    supR av (b :: R) gid = (if b.parent == gid then av b.id else 0) + supR av R gid := by
  unfold supR
  by_cases h : (b.parent == gid) = true
  · simp [List.filter_cons, h]
  · simp [List.filter_cons, h]

theorem supR_nonneg (av : String → α) (hav : ∀ k, 0 ≤ av k) (R : List (StatBatS α B)) (gid : String) :
    0 ≤ supR av R gid := by
  induction R with
  | nil => simp [supR]
  | cons b R ih =>
    rw [supR_cons]
    split
    · exact add_nonneg (hav _) ih
    · simpa using ih

theorem availFold_eq (ops : BatOps α B) (av : String → α) (gid : String) (R : List (StatBatS α B))
    (hR : ∀ b ∈ R, ops.available b.bat = .ok (av b.id)) (acc : α) :
    R.foldlM (fun (acc : α) b =>
      if b.parent == gid then do let a ← ops.available b.bat; pure (acc + a) else pure acc) acc
      = (.ok (acc + supR av R gid) : Py α) := by
  induction R generalizing acc with
  | nil => simp [supR, pure, Except.pure]
  | cons b R ih =>
    simp only [List.foldlM_cons]
    have hb := hR b (by simp)
    have hR' : ∀ b' ∈ R, ops.available b'.bat = .ok (av b'.id) := fun b' hb' => hR b' (by simp [hb'])
    rw [supR_cons]
    have ih' := fun acc => ih hR' acc
    simp only [bind, Except.bind, pure, Except.pure] at ih' ⊢
    by_cases h : (b.parent == gid) = true
    · simp only [h, if_true, hb]
      rw [ih']; congr 1; ring
    · simp only [h, Bool.false_eq_true, if_false]
      rw [ih']; congr 1; ring

theorem availBatPower_eq (ops : BatOps α B) (av : String → α) (w : SWorld α B)
    (hR : ∀ b ∈ w.batteries, ops.available b.bat = .ok (av b.id)) :
    availBatPower ops w = .ok (w.gcs.map (fun g => (g.id, supR av w.batteries g.id))) := by
  unfold availBatPower
  have key : ∀ gs : List (GcS α), gs.mapM (fun g => do
      let p ← w.batteries.foldlM (fun (acc : α) b =>
        if b.parent == g.id then do let a ← ops.available b.bat; pure (acc + a) else pure acc) 0
      pure (g.id, p)) = (.ok (gs.map (fun g => (g.id, supR av w.batteries g.id))) : Py _) := by
    intro gs
    induction gs with
    | nil => rfl
    | cons g gs ih =>
      have hf := availFold_eq ops av g.id w.batteries hR 0
      simp only [List.mapM_cons, bind, Except.bind, pure, Except.pure, List.map_cons] at ih hf ⊢
      rw [hf]
      simp only [zero_add]
      rw [ih]
  exact key w.gcs

theorem availOf_map (f : String → α) (gs : List (GcS α)) (g : GcS α) (hg : g ∈ gs) :
    availOf (gs.map (fun g => (g.id, f g.id))) g.id = f g.id := by
  unfold availOf
  induction gs with
  | nil => simp at hg
  | cons x xs ih =>
    simp only [List.map_cons, sdGet]
    by_cases hx : (x.id == g.id) = true
    · have : x.id = g.id := by simpa using hx
      simp [hx, this]
    · simp only [hx, Bool.false_eq_true, if_false]
      rcases List.mem_cons.mp hg with h | h
      · subst h; simp at hx
      · exact ih h

end SpiceEv

namespace SpiceEv
variable {α B : Type} [Field α] [LinearOrder α] [IsStrictOrderedRing α]

/-- a target-power request to `unload` delivers exactly `min target available` (C02) -/
def UnloadExact (ops : BatOps α B) : Prop :=
  ∀ b a x b' avg, ops.available b = .ok a → 0 ≤ x →
    ops.unload b none none (some x) = .ok (b', avg) → avg = min x a

/-- invariant of the stationary-battery pass; `R` = batteries not processed yet -/
structure BInv (env : StratEnv α) (av af : String → α) (cheap : List (String × Bool))
    (R : List (StatBatS α B)) (w : SWorld α B) : Prop where
  curMax_nonneg : ∀ g ∈ w.gcs, 0 ≤ g.curMax
  cheapOK : ∀ g ∈ w.gcs, ∃ c, sdGet cheap g.id = some c ∧ gcCheap env g = .ok c
  gcNodup : (w.gcs.map (·.id)).Nodup
  cheapBound : ∀ g ∈ w.gcs, gcCheap env g = .ok true → g.currentLoad ≤ g.curMax
  dearBound : ∀ g ∈ w.gcs, gcCheap env g = .ok false →
    g.currentLoad ≤ max g.curMax (g.curMax + supR av R g.id - af g.id)
  pending : ∀ b ∈ R, w.batteries.find? (·.id == b.id) = some b
  af_nonneg : ∀ g ∈ w.gcs, 0 ≤ af g.id

theorem eq_of_id_eq_of_nodup (gs : List (GcS α)) (hnd : (gs.map (·.id)).Nodup) (a b : GcS α)
    (ha : a ∈ gs) (hb : b ∈ gs) (h : a.id = b.id) : a = b := by
  induction gs with
  | nil => simp at ha
  | cons x xs ih =>
    simp only [List.map_cons, List.nodup_cons, List.mem_map, not_exists, not_and] at hnd
    rcases List.mem_cons.mp ha with rfl | ha' <;> rcases List.mem_cons.mp hb with rfl | hb'
    · rfl
    · exact absurd h.symm (hnd.1 b hb')
    · exact absurd h (hnd.1 a ha')
    · exact ih hnd.2 ha' hb'

theorem setGc_ids (w : SWorld α B) (g' : GcS α) : (w.setGc g').gcs.map (·.id) = w.gcs.map (·.id) := by
  unfold SWorld.setGc
  simp only [List.map_map]
  apply List.map_congr_left
  intro x _
  simp only [Function.comp]
  by_cases h : (x.id == g'.id) = true
  · have : x.id = g'.id := by simpa using h
    rw [if_pos h, this]
  · rw [if_neg h]

theorem find_map_other (bs : List (StatBatS α B)) (b' b : StatBatS α B) (hne : b.id ≠ b'.id)
    (h : bs.find? (·.id == b.id) = some b) :
    (bs.map (fun x => if x.id == b'.id then b' else x)).find? (·.id == b.id) = some b := by
  induction bs with
  | nil => simp at h
  | cons x xs ih =>
    simp only [List.map_cons, List.find?_cons] at h ⊢
    by_cases hx : (x.id == b'.id) = true
    · have hxid : x.id = b'.id := by simpa using hx
      have hxb : (x.id == b.id) = false := by
        simp only [beq_eq_false_iff_ne, ne_eq]; rw [hxid]; exact fun e => hne e.symm
      have hb'b : (b'.id == b.id) = false := by
        simp only [beq_eq_false_iff_ne, ne_eq]; exact fun e => hne e.symm
      rw [if_pos hx]
      simp only [hb'b, hxb] at h ⊢
      exact ih h
    · rw [if_neg hx]
      by_cases hxb : (x.id == b.id) = true
      · simp only [hxb] at h ⊢; exact h
      · have hxb' : (x.id == b.id) = false := by simpa using hxb
        simp only [hxb'] at h ⊢; exact ih h

theorem find_setBattery_other (w : SWorld α B) (b' b : StatBatS α B) (hne : b.id ≠ b'.id)
    (h : w.batteries.find? (·.id == b.id) = some b) :
    (w.setBattery b').batteries.find? (·.id == b.id) = some b :=
  find_map_other w.batteries b' b hne h

end SpiceEv

namespace SpiceEv
variable {α B : Type} [Field α] [LinearOrder α] [IsStrictOrderedRing α]

theorem gcCheap_total (env : StratEnv α) (g : GcS α) (c : Bool) (h : gcCheap env g = .ok c) :
    gcCheap env g = .ok true ∨ gcCheap env g = .ok false := by
  cases c <;> simp [h]

/-- **one battery of the battery pass preserves the invariant** -/
theorem updateBattery_binv (ops : BatOps α B) (law : BatLaw ops) (hex : UnloadExact ops)
    (env : StratEnv α) (av af : String → α) (hav0 : ∀ k, 0 ≤ av k)
    (cheap : List (String × Bool)) (b0 : StatBatS α B) (R' : List (StatBatS α B))
    (hnd : ∀ b ∈ R', b.id ≠ b0.id) (havb : ops.available b0.bat = .ok (av b0.id))
    (hmin : 0 ≤ b0.minChargingPower) (w w' : SWorld α B)
    (hinv : BInv env av af cheap (b0 :: R') w)
    (h : updateBattery ops env cheap w b0 = .ok w') : BInv env av af cheap R' w' := by
  unfold updateBattery at h
  split at h
  · -- the battery's connector does not exist: nothing happens
    rename_i hnone
    simp only [Except.ok.injEq] at h
    subst h
    have hnoid : ∀ g ∈ w.gcs, (b0.parent == g.id) = false := by
      intro g hg
      by_contra hc
      have hc' : b0.parent = g.id := by simpa using hc
      unfold SWorld.gc? at hnone
      have := List.find?_eq_none.mp hnone g hg
      simp [hc'] at this
    refine ⟨hinv.curMax_nonneg, hinv.cheapOK, hinv.gcNodup, hinv.cheapBound, ?_, ?_, hinv.af_nonneg⟩
    · intro g hg hd
      have := hinv.dearBound g hg hd
      rw [supR_cons, hnoid g hg] at this
      simpa using this
    · intro b hb; exact hinv.pending b (by simp [hb])
  · rename_i gc hgc
    obtain ⟨hgm, hgid⟩ := gc?_some w b0.parent gc hgc
    simp only [bind, Except.bind] at h
    obtain ⟨c, hc1, hc2⟩ := hinv.cheapOK gc hgm
    rw [hgid] at hc1
    simp only [hc1] at h
    -- common facts about the resulting world
    have hpend : ∀ (bat' : B) (d : α) (b : StatBatS α B), b ∈ R' →
        ((w.setBattery { b0 with bat := bat' }).setGc (gc.addLoad b0.id d).1).batteries.find?
          (·.id == b.id) = some b := by
      intro bat' d b hb
      simp only [setGc_batteries]
      exact find_setBattery_other w _ b (hnd b hb) (hinv.pending b (by simp [hb]))
    have hother : ∀ g ∈ w.gcs, g.id ≠ gc.id → (b0.parent == g.id) = false := by
      intro g _ hne
      simp only [beq_eq_false_iff_ne, ne_eq]
      rw [← hgid]; exact fun e => hne e.symm
    -- generic closing argument: given the new load of `gc` satisfies its bound
    have close : ∀ (bat' : B) (d : α),
        (gcCheap env gc = .ok true → gc.currentLoad + d ≤ gc.curMax) →
        (gcCheap env gc = .ok false →
          gc.currentLoad + d ≤ max gc.curMax (gc.curMax + supR av R' gc.id - af gc.id)) →
        BInv env av af cheap R' ((w.setBattery { b0 with bat := bat' }).setGc (gc.addLoad b0.id d).1) := by
      intro bat' d hcb hdb
      obtain ⟨hL, hM, hI, hC⟩ := addLoad_currentLoad gc b0.id d
      have hsm : SameMeta w ((w.setBattery { b0 with bat := bat' }).setGc (gc.addLoad b0.id d).1) := by
        intro g' hg'
        rcases mem_setGc _ _ g' hg' with rfl | ⟨hm, _⟩
        · exact ⟨gc, hgm, hI, hC, hM⟩
        · exact ⟨g', by simpa using hm, rfl, rfl, rfl⟩
      refine ⟨?_, ?_, ?_, ?_, ?_, fun b hb => hpend bat' d b hb, ?_⟩
      rotate_right
      · intro g' hg'
        obtain ⟨g, hg, e1, _, _⟩ := hsm g' hg'
        rw [e1]; exact hinv.af_nonneg g hg
      · intro g' hg'
        obtain ⟨g, hg, _, _, e3⟩ := hsm g' hg'
        rw [e3]; exact hinv.curMax_nonneg g hg
      · intro g' hg'
        obtain ⟨g, hg, e1, e2, _⟩ := hsm g' hg'
        obtain ⟨c', h1, h2⟩ := hinv.cheapOK g hg
        exact ⟨c', by rw [e1]; exact h1, by rw [gcCheap_congr env g g' e2]; exact h2⟩
      · rw [setGc_ids]; exact hinv.gcNodup
      · intro g' hg' hch
        rcases mem_setGc _ _ g' hg' with rfl | ⟨hm, hne⟩
        · rw [hL, hM]; exact hcb (by rw [← gcCheap_congr env gc _ hC]; exact hch)
        · exact hinv.cheapBound g' (by simpa using hm) hch
      · intro g' hg' hch
        rcases mem_setGc _ _ g' hg' with rfl | ⟨hm, hne⟩
        · rw [hL, hM, hI]; exact hdb (by rw [← gcCheap_congr env gc _ hC]; exact hch)
        · have hm' : g' ∈ w.gcs := by simpa using hm
          have := hinv.dearBound g' hm' hch
          rw [supR_cons, hother g' hm' (by rw [hI] at hne; exact hne)] at this
          simpa using this
    have hdear := hinv.dearBound gc hgm
    rw [supR_cons] at hdear
    have hpar : (b0.parent == gc.id) = true := by simp [hgid]
    simp only [hpar, if_true] at hdear
    split at h
    · -- cheap price: charge with the headroom
      rename_i hct
      subst hct
      split at h
      · cases h
      · rename_i ba hl
        obtain ⟨bat', avg⟩ := ba
        simp only [Except.ok.injEq] at h
        subst h
        obtain ⟨ha0, hap⟩ := law.load_max _ _ _ _ hl
        have hb := hinv.cheapBound gc hgm hc2
        apply close bat' avg
        · intro _
          have hp : (if gc.curMax - gc.currentLoad < b0.minChargingPower then (0 : α)
              else gc.curMax - gc.currentLoad) ≤ gc.curMax - gc.currentLoad := by
            split
            · linarith
            · exact le_refl _
          have : avg ≤ max (gc.curMax - gc.currentLoad) 0 := le_trans hap (max_le_max hp (le_refl _))
          rw [max_eq_left (by linarith)] at this
          linarith
        · intro hd; rw [hc2] at hd; simp at hd
    · rename_i hcf
      have hcf' : c = false := by simpa using hcf
      subst hcf'
      have hd := hdear hc2
      split at h
      · -- surplus: charge, load stays ≤ 0
        rename_i hneg
        split at h
        · cases h
        · rename_i ba hl
          obtain ⟨bat', avg⟩ := ba
          simp only [Except.ok.injEq] at h
          subst h
          obtain ⟨ha0, hap⟩ := law.load_target _ _ _ _ hl
          have hp : (if -gc.currentLoad < b0.minChargingPower then (0 : α) else -gc.currentLoad)
              ≤ -gc.currentLoad := by
            split
            · linarith
            · exact le_refl _
          have hav : avg ≤ -gc.currentLoad := by
            have : avg ≤ max (-gc.currentLoad) 0 := le_trans hap (max_le_max hp (le_refl _))
            rwa [max_eq_left (by linarith)] at this
          apply close bat' avg
          · intro hct; rw [hc2] at hct; simp at hct
          · intro _
            have h0 := hinv.curMax_nonneg gc hgm
            exact le_trans (by linarith) (le_max_left _ _)
      · -- grid draw: discharge exactly min(load, available)
        rename_i hpos
        have hpos' : 0 ≤ gc.currentLoad := not_lt.mp hpos
        split at h
        · cases h
        · rename_i ba hl
          obtain ⟨bat', avg⟩ := ba
          simp only [Except.ok.injEq] at h
          subst h
          have hav := hex _ _ _ _ _ havb hpos' hl
          apply close bat' (-avg)
          · intro hct; rw [hc2] at hct; simp at hct
          · intro _
            have h0 := hinv.curMax_nonneg gc hgm
            have ha := hav0 b0.id
            rw [hav]
            rcases le_total gc.currentLoad (av b0.id) with hle | hle
            · rw [min_eq_left hle]
              exact le_trans (by linarith) (le_max_left _ _)
            · rw [min_eq_right hle]
              rcases le_total (gc.curMax + (av b0.id + supR av R' gc.id) - af gc.id) gc.curMax with hm | hm
              · rw [max_eq_left hm] at hd
                exact le_trans (by linarith) (le_max_left _ _)
              · rw [max_eq_right hm] at hd
                exact le_trans (by linarith) (le_max_right _ _)

end SpiceEv

namespace SpiceEv
variable {α B : Type} [Field α] [LinearOrder α] [IsStrictOrderedRing α]

/-- the whole battery pass: after it nothing is pending -/
theorem batteryFold_binv (ops : BatOps α B) (law : BatLaw ops) (hex : UnloadExact ops)
    (env : StratEnv α) (av af : String → α) (hav0 : ∀ k, 0 ≤ av k)
    (cheap : List (String × Bool)) (L : List (StatBatS α B)) (hnd : (L.map (·.id)).Nodup)
    (havb : ∀ b ∈ L, ops.available b.bat = .ok (av b.id)) (hmin : ∀ b ∈ L, 0 ≤ b.minChargingPower)
    (w w' : SWorld α B) (hinv : BInv env av af cheap L w)
    (h : L.foldlM (fun w b0 =>
      match w.batteries.find? (·.id == b0.id) with
      | none => Except.ok w
      | some b => updateBattery ops env cheap w b) w = .ok w') : BInv env av af cheap [] w' := by
  induction L generalizing w with
  | nil =>
    simp only [List.foldlM_nil, pure, Except.pure, Except.ok.injEq] at h
    subst h; exact hinv
  | cons b0 R' ih =>
    simp only [List.map_cons, List.nodup_cons, List.mem_map, not_exists, not_and] at hnd
    simp only [List.foldlM_cons, bind, Except.bind] at h
    have hfind := hinv.pending b0 (by simp)
    rw [hfind] at h
    simp only at h
    split at h
    · cases h
    · rename_i w1 hw1
      have hstep := updateBattery_binv ops law hex env av af hav0 cheap b0 R'
        (fun b hb e => hnd.1 b hb e) (havb b0 (by simp)) (hmin b0 (by simp)) w w1 hinv hw1
      exact ih hnd.2 (fun b hb => havb b (by simp [hb])) (fun b hb => hmin b (by simp [hb])) w1 hstep h

theorem find_self_of_nodup (bs : List (StatBatS α B)) (hnd : (bs.map (·.id)).Nodup)
    (b : StatBatS α B) (hb : b ∈ bs) : bs.find? (·.id == b.id) = some b := by
  induction bs with
  | nil => simp at hb
  | cons x xs ih =>
    simp only [List.map_cons, List.nodup_cons, List.mem_map, not_exists, not_and] at hnd
    simp only [List.find?_cons]
    rcases List.mem_cons.mp hb with rfl | hb'
    · simp
    · have : (x.id == b.id) = false := by
        simp only [beq_eq_false_iff_ne, ne_eq]
        exact fun e => hnd.1 b hb' e.symm
      simp only [this]
      exact ih hnd.2 hb'

theorem cheapList_lookup (env : StratEnv α) (gs : List (GcS α)) (hnd : (gs.map (·.id)).Nodup)
    (cheap : List (String × Bool))
    (h : gs.mapM (fun g => do let c ← gcCheap env g; pure (g.id, c)) = (.ok cheap : Py _))
    (g : GcS α) (hg : g ∈ gs) : ∃ c, sdGet cheap g.id = some c ∧ gcCheap env g = .ok c := by
  induction gs generalizing cheap with
  | nil => simp at hg
  | cons x xs ih =>
    simp only [List.map_cons, List.nodup_cons, List.mem_map, not_exists, not_and] at hnd
    simp only [List.mapM_cons, bind, Except.bind, pure, Except.pure] at h
    split at h
    · cases h
    · rename_i xc hxc
      split at hxc
      · cases hxc
      · rename_i c hc
        simp only [Except.ok.injEq] at hxc
        subst hxc
        split at h
        · cases h
        · rename_i rest hrest
          simp only [Except.ok.injEq] at h
          subst h
          rcases List.mem_cons.mp hg with rfl | hg'
          · exact ⟨c, by simp [sdGet], hc⟩
          · have hne : (x.id == g.id) = false := by
              simp only [beq_eq_false_iff_ne, ne_eq]
              exact fun e => hnd.1 g hg' e.symm
            obtain ⟨c', h1, h2⟩ := ih hnd.2 rest (by
              simp only [bind, Except.bind, pure, Except.pure]; exact hrest) hg'
            exact ⟨c', by simp [sdGet, hne, h1], h2⟩

/-! ids of the connectors are untouched by all three passes -/

theorem allocVehicle_gcIds (rule : Rule) (ops : BatOps α B) (env : StratEnv α)
    (st st' : SWorld α B × List (String × α) × List (String × α)) (vid : String)
    (h : allocVehicle rule ops env st vid = .ok st') :
    st'.1.gcs.map (·.id) = st.1.gcs.map (·.id) := by
  unfold allocVehicle at h
  split at h
  · cases h
  · split at h
    · simp only [Except.ok.injEq] at h; subst h; rfl
    · split at h
      · cases h
      · split at h
        · cases h
        · simp only [bind, Except.bind] at h
          split at h
          · cases h
          · split at h
            · cases h
            · split at h
              · cases h
              · simp only [Except.ok.injEq] at h
                subst h
                simp only [setStation_gcs]
                rw [setGc_ids]; rfl

theorem allocFold_gcIds (rule : Rule) (ops : BatOps α B) (env : StratEnv α) (ids : List String)
    (st st' : SWorld α B × List (String × α) × List (String × α))
    (h : ids.foldlM (allocVehicle rule ops env) st = .ok st') :
    st'.1.gcs.map (·.id) = st.1.gcs.map (·.id) := by
  induction ids generalizing st with
  | nil =>
    simp only [List.foldlM_nil, pure, Except.pure, Except.ok.injEq] at h
    subst h; rfl
  | cons id rest ih =>
    simp only [List.foldlM_cons, bind, Except.bind] at h
    split at h
    · cases h
    · rename_i st1 hs
      rw [ih st1 h, allocVehicle_gcIds rule ops env st st1 id hs]

theorem surplusVehicle_gcIds (ops : BatOps α B) (env : StratEnv α) (cheap : List (String × Bool))
    (w w' : SWorld α B) (cmds cmds' : List (String × α)) (v : VehicleS α B)
    (h : surplusVehicle ops env cheap w cmds v = .ok (w', cmds')) :
    w'.gcs.map (·.id) = w.gcs.map (·.id) := by
  unfold surplusVehicle at h
  split at h
  · simp only [Except.ok.injEq, Prod.mk.injEq] at h; obtain ⟨rfl, _⟩ := h; rfl
  · split at h
    · cases h
    · split at h
      · cases h
      · simp only at h
        split at h
        · simp only [bind, Except.bind] at h
          split at h
          · cases h
          · simp only [Except.ok.injEq, Prod.mk.injEq] at h
            obtain ⟨rfl, _⟩ := h
            simp only [setStation_gcs]; rw [setGc_ids]; rfl
        · split at h
          · simp only [bind, Except.bind] at h
            split at h
            · cases h
            · simp only [Except.ok.injEq, Prod.mk.injEq] at h
              obtain ⟨rfl, _⟩ := h
              simp only [setStation_gcs]; rw [setGc_ids]; rfl
          · simp only [Except.ok.injEq, Prod.mk.injEq] at h; obtain ⟨rfl, _⟩ := h; rfl

theorem distributeSurplus_gcIds (ops : BatOps α B) (env : StratEnv α) (w w' : SWorld α B)
    (cmds' : List (String × α)) (h : distributeSurplus ops env w = .ok (w', cmds')) :
    w'.gcs.map (·.id) = w.gcs.map (·.id) := by
  unfold distributeSurplus at h
  simp only [bind, Except.bind] at h
  split at h
  · cases h
  · rename_i cheap _
    have key : ∀ (vs : List (VehicleS α B)) (st st' : SWorld α B × List (String × α)),
        vs.foldlM (fun (st : SWorld α B × List (String × α)) v0 =>
          match st.1.vehicle? v0.id with
          | none => Except.ok st
          | some v => surplusVehicle ops env cheap st.1 st.2 v) st = .ok st' →
        st'.1.gcs.map (·.id) = st.1.gcs.map (·.id) := by
      intro vs
      induction vs with
      | nil =>
        intro st st' h3
        simp only [List.foldlM_nil, pure, Except.pure, Except.ok.injEq] at h3
        subst h3; rfl
      | cons v0 rest ih =>
        intro st st' h3
        simp only [List.foldlM_cons, bind, Except.bind] at h3
        split at h3
        · cases h3
        · rename_i st1 hst1
          split at hst1
          · simp only [Except.ok.injEq] at hst1
            subst hst1
            exact ih _ _ h3
          · obtain ⟨w1, c1⟩ := st1
            rw [ih _ _ h3]
            exact surplusVehicle_gcIds ops env cheap st.1 w1 st.2 c1 _ hst1
    exact key w.vehicles (w, []) (w', cmds') h

end SpiceEv
