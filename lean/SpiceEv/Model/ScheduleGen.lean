/-
Model of the grid-schedule generator and of the schedule reader (property C13):

  spice_ev/generate/generate_schedule.py   generate_schedule (everything after the flex band has been
                                           computed), its nested distribute_energy_balanced,
                                           aggressive_round, clamp_to_gc, the CSV row construction
  spice_ev/util.py                         read_grid_file (value handling) and the slicing/padding of
                                           the grid series in generate_schedule
  spice_ev/events.py                       get_schedule_from_csv (run-length encoding into events),
                                           Events.get_event_steps (bucket index) and the part of
                                           strategy.Strategy.step that applies schedule events

Statement-by-statement transliteration, generic in the number type (`Rat`, `Float`, ordered field).
NOT modelled: generate_flex_band / generate_individual_flex_band.  They simulate the fleet with the
real `Battery` through a `Strategy.step` loop; their result (the `flex` dict) is an INPUT of this
model, captured from the real run by the harness.  Only their last three statements per step
(`clamp_to_gc`) are modelled (`clampToGc`, `flexRow`).

Layout: the Python code keeps parallel lists of length `n_intervals` (schedule, avail["min"],
avail["max"], curtailment, residual_load, flex["min"], flex["max"], vehicle_schedule[vid]); the model
keeps ONE array of per-timestep records (`Cell`).  Index `i` of every Python list is field access on
`cells[i]`.  An out-of-range index raises `IndexError` in Python before anything is written
(the first statement of distribute_energy_balanced reads every index of the period); the model
checks the same condition up front.

The model contains the REPAIRED behaviour of three defects of the pinned commit (fixes/D7.diff,
fixes/D8.diff, fixes/D13.diff): charge flag from `curtailment[t]` (not the stale `curtailment[i]`);
row time computed for every row of the schedule file (not only on connector changes); the greedy
curtailment pass never applies a negative power.  Times are `Int` microseconds of local time (all
timestamps of one schedule file carry the same UTC offset: the writer derives them from
`s.start_time`).
-/
import SpiceEv.Py
namespace SpiceEv.ScheduleGen
open SpiceEv

/-- one timestep of the generator state (Python: index `i` of the parallel lists) -/
structure Cell (α : Type) where
  sched : α          -- schedule[i]
  availMin : α       -- avail["min"][i]
  availMax : α       -- avail["max"][i]
  curt : α           -- curtailment[i]
  resid : α          -- residual_load[i]
  flexMin : α        -- flex["min"][i]
  flexMax : α        -- flex["max"][i]
  oCurt : α          -- original_curtailment[i]
  oResid : α         -- original_residual_load[i]
  vs : List α        -- vehicle_schedule[vid][i] for vid in sorted(vehicle ids)
  deriving Repr

section
variable {α : Type} [Add α] [Sub α] [Mul α] [Div α] [Neg α] [LT α] [LE α]
  [DecidableLT α] [DecidableLE α] [OfNat α 0] [OfNat α 2] [NatCast α]

/-- filler for out-of-range reads (never reached: indices are checked before) -/
def Cell.zero : Cell α := ⟨0, 0, 0, 0, 0, 0, 0, 0, 0, []⟩

/-- Python `abs` (also maps -0.0 to 0.0, like CPython) -/
@[inline] def absNum (a : α) : α := if 0 < a then a else 0 - a

/-- `a != b` on numbers, via `<` only -/
@[inline] def numNe (a b : α) : Bool := decide (a < b) || decide (b < a)

/-- `clamp_to_gc(power)` of generate_flex_band: `min(max(power, -gc.max_power), gc.max_power)` -/
def clampToGc (gcMax power : α) : α := pymin (pymax power (-gcMax)) gcMax

/-- the three appended values of one step of generate_flex_band: base, min, max -/
def flexRow (gcMax baseFlex batDischarge v2gFlex vehicleFlex batCharge : α) : α × α × α :=
  (clampToGc gcMax baseFlex, clampToGc gcMax (baseFlex - batDischarge - v2gFlex),
   clampToGc gcMax (baseFlex + vehicleFlex + batCharge))

/-- `if vid: vehicle_schedule[vid][i] += power` -/
def bumpVs (vs : List α) (vid : Option Nat) (p : α) : List α :=
  match vid with
  | none => vs
  | some k => vs.modify k (fun x => x + p)

/-- body of `if curtailment[i] > EPS:` applied to cell `i` with the chosen power -/
def Cell.curtBump (c : Cell α) (vid : Option Nat) (p : α) : Cell α :=
  { c with sched := c.sched + p, availMin := c.availMin + p, availMax := c.availMax - p,
           vs := bumpVs c.vs vid p, curt := c.curt - p }

/-- body of the final `# apply power` loop applied to cell `i` -/
def Cell.apply (c : Cell α) (vid : Option Nat) (p : α) : Cell α :=
  let cp := pymax (pymin c.curt p) 0
  { c with sched := c.sched + p, vs := bumpVs c.vs vid p, curt := c.curt - cp,
           resid := c.resid + (p - cp), availMin := c.availMin + p, availMax := c.availMax - p }

/-- an entry of the period: timestep index, individual flex (lower, upper) -/
abbrev Entry (α : Type) := Nat × α × α

/-- greedy power of the curtailment-first pass (REPAIRED, fixes/D13.diff: never negative):
`max(min(curtailment[i], avail["max"][i], power_needed, ind_flex[idx][1]), 0)` -/
def curtPower (c : Cell α) (pn hi : α) : α :=
  pymax (pymin (pymin (pymin c.curt c.availMax) pn) hi) 0

/-- accumulator of the curtailment-first loop -/
structure CurtAcc (α : Type) where
  cells : Array (Cell α)
  pn : α               -- power_needed
  ed : α               -- energy_distributed
  pAvg : α
  out : List (Entry α) -- updated ind_flex, in period order

/-- one iteration of `for idx, i in enumerate(period)` (curtailment first) -/
def curtStep (eps tsph : α) (vid : Option Nat) (a : CurtAcc α) (e : Entry α) : CurtAcc α :=
  let c := a.cells.getD e.1 Cell.zero
  if eps < c.curt then
    let p := curtPower c a.pn e.2.2
    let c' := c.curtBump vid p
    { cells := a.cells.modify e.1 (fun c => c.curtBump vid p), pn := a.pn - p, ed := a.ed + p / tsph,
      pAvg := a.pAvg + (c'.resid - c'.curt), out := a.out ++ [(e.1, e.2.1 - p, e.2.2 - p)] }
  else
    { a with pAvg := a.pAvg + (c.resid - c.curt), out := a.out ++ [e] }

/-- power of one entry inside the bisection sweep: `(power[idx], amount subtracted from power_needed)` -/
def sweepPower (eps : α) (v2g : Bool) (newAvg : α) (c : Cell α) (lo hi : α) : α :=
  let delta := newAvg - (c.resid - c.curt)
  if 0 < delta then
    let d := pymin delta c.availMax
    pymin (pymin d hi) (c.flexMax - c.sched)
  else if v2g && decide (eps < c.resid) && decide (c.curt < eps) then
    let d := pymax delta (-c.availMin)
    pymax (pymax d lo) (c.flexMin - c.sched)
  else 0

/-- the inner `for` of the bisection: all powers for cutoff `newAvg`, and the remaining power_needed -/
def sweep (eps : α) (v2g : Bool) (cells : Array (Cell α)) (es : List (Entry α)) (newAvg pn : α) :
    List α × α :=
  es.foldl (fun (acc : List α × α) e =>
    let p := sweepPower eps v2g newAvg (cells.getD e.1 Cell.zero) e.2.1 e.2.2
    (acc.1 ++ [p], acc.2 - p)) ([], pn)

/-- `while (p_high - p_low) > EPS:` with fuel -/
def bisect (eps : α) (v2g : Bool) (cells : Array (Cell α)) (es : List (Entry α)) (pAvg pn0 : α) :
    Nat → α → α → α → List α → Py (List α)
  | fuel, pLow, pHigh, p, power =>
    if eps < pHigh - pLow then
      match fuel with
      | 0 => .error .fuel
      | fuel + 1 =>
        let r := sweep eps v2g cells es (pAvg + p) pn0
        if eps < r.2 then bisect eps v2g cells es pAvg pn0 fuel p pHigh ((p + pHigh) / 2) r.1
        else if r.2 < -eps then bisect eps v2g cells es pAvg pn0 fuel pLow p ((pLow + p) / 2) r.1
        else .ok r.1
    else .ok power

/-- the `# apply power` loop -/
def applyPowers (tsph : α) (vid : Option Nat) (cells : Array (Cell α)) (ed : α) :
    List (Entry α) → List α → Array (Cell α) × α
  | e :: es, p :: ps =>
    applyPowers tsph vid (cells.modify e.1 (fun c => c.apply vid p)) (ed + p / tsph) es ps
  | _, _ => (cells, ed)

def listMin (d : α) : List α → α
  | [] => d
  | x :: xs => xs.foldl pymin x
def listMax (d : α) : List α → α
  | [] => d
  | x :: xs => xs.foldl pymax x

/-- `distribute_energy_balanced(period, energy_needed, v2g, ind_flex, vid)`; `es` = period zipped with
ind_flex.  Returns the new state and `energy_distributed`. -/
def distribute (eps tsph : α) (fuel : Nat) (cells : Array (Cell α)) (es : List (Entry α))
    (energyNeeded : α) (v2g : Bool) (vid : Option Nat) : Py (Array (Cell α) × α) :=
  if es.isEmpty then .error .valueError                       -- min([]) raises ValueError
  else if !(es.all (fun e => decide (e.1 < cells.size))) then .error .indexError
  else
    let pn := energyNeeded * tsph
    let pLow := listMin 0 (es.map (fun e => pymax e.2.1 (-(cells.getD e.1 Cell.zero).availMin)))
    let pHigh := listMax 0 (es.map (fun e => pymin e.2.2 ((cells.getD e.1 Cell.zero).availMax)))
    let a := es.foldl (curtStep eps tsph vid) ⟨cells, pn, 0, 0, []⟩
    let pAvg := a.pAvg / (es.length : α)
    if decide (a.pn < eps) && !v2g then .ok (a.cells, a.ed)
    else do
      let p := pAvg + a.pn / (es.length : α)
      let power ← bisect eps v2g a.cells a.out pAvg a.pn fuel pLow pHigh p (es.map (fun _ => 0))
      .ok (applyPowers tsph vid a.cells a.ed a.out power)

/-! ### generate_schedule: everything around the distribution -/

/-- `min(max(v, flex["min"][i]), flex["max"][i])` and the base adjustment of curtailment / residual
load; avail is filled in afterwards (mode dependent) -/
def initCell (nVeh : Nat) (base fmin fmax resid curt : α) : Cell α :=
  let sched := pymin (pymax base fmin) fmax
  let cp := pymax (pymin curt base) 0
  { sched := sched, availMin := 0, availMax := 0, curt := curt - cp, resid := resid + (base - cp),
    flexMin := fmin, flexMax := fmax, oCurt := curt, oResid := resid,
    vs := List.replicate nVeh 0 }

/-- individual mode: avail from the band, then `flex["min"] = flex["max"] = schedule.copy()` -/
def Cell.availIndividual (c : Cell α) : Cell α :=
  { c with availMin := pymax (c.sched - c.flexMin) 0, availMax := pymax (c.flexMax - c.sched) 0,
           flexMin := c.sched, flexMax := c.sched }

/-- collective mode: avail from the connector rating -/
def Cell.availCollective (gcMax : α) (c : Cell α) : Cell α :=
  { c with availMin := pymax (c.sched + gcMax) 0, availMax := pymax (gcMax - c.sched) 0 }

/-- one arrival record of generate_individual_flex_band (`flex["vehicles"][i][k]`) -/
structure VInfo (α : Type) where
  vid : Nat            -- position of the vehicle id in sorted(vehicle ids)
  v2g : α
  pMax : α
  energy : α
  idxStart : Int
  idxEnd : Int
  seconds : α          -- (t_end - t_start).total_seconds()
  deriving Repr

structure Batteries (α : Type) where
  stored : α
  power : α
  efficiency : α
  initDischarge : α    -- individual mode only
  fullDischarge : α    -- individual mode only
  deriving Repr

/-- `for j in standing_range: flex["min"][j] -= v2g; flex["max"][j] += p_max` -/
def widen (cells : Array (Cell α)) (v2g pMax : α) : List Nat → Array (Cell α)
  | [] => cells
  | j :: js => widen (cells.modify j (fun c =>
      { c with flexMin := c.flexMin - v2g, flexMax := c.flexMax + pMax })) v2g pMax js

/-- `range(a, b)` for integers with `0 ≤ a` -/
def intRange (a b : Int) : List Nat :=
  (List.range (b - a).toNat).map (fun k => a.toNat + k)

/-- one vehicle of `for vinfo in vehicles_arriving:` -/
def individualVehicle (eps tsph : α) (fuel : Nat) (cells : Array (Cell α)) (v : VInfo α) :
    Py (Array (Cell α)) :=
  if v.idxStart ≥ v.idxEnd then .ok cells
  else if v.idxStart < 0 then .error .indexError     -- not produced by the flex-band function
  else do
    let rng := intRange v.idxStart v.idxEnd
    if !(rng.all (fun j => decide (j < cells.size))) then .error .indexError
    else
      let cells := widen cells v.v2g v.pMax rng
      let r ← distribute eps tsph fuel cells (rng.map (fun j => (j, -v.v2g, v.pMax))) v.energy
        (!(isZero v.v2g)) (some v.vid)
      .ok r.1

/-- sort key `-v["energy"] / (v["t_end"] - v["t_start"]).total_seconds()` -/
def sortKeys (vs : List (VInfo α)) : Py (List (α × VInfo α)) :=
  vs.mapM (fun v => do let k ← pydiv (-v.energy) v.seconds; pure (k, v))

/-- one iteration `for i in range(s.n_intervals)` of the individual branch -/
def individualStep (eps tsph : α) (fuel : Nat) (bat : Batteries α) (cells : Array (Cell α))
    (i : Nat) (arriving : List (VInfo α)) : Py (Array (Cell α)) := do
  let keyed ← sortKeys arriving
  let sorted := keyed.mergeSort (fun a b => decide (a.1 ≤ b.1))
  let cells ← sorted.foldlM (fun cs kv => individualVehicle eps tsph fuel cs kv.2) cells
  let dis := if i = 0 then bat.initDischarge else bat.fullDischarge
  let batFlex := bat.power * bat.efficiency / tsph
  .ok (cells.modify i (fun c => { c with flexMin := c.flexMin - dis, flexMax := c.flexMax + batFlex }))

def individualLoop (eps tsph : α) (fuel : Nat) (bat : Batteries α) :
    Array (Cell α) → Nat → List (List (VInfo α)) → Py (Array (Cell α))
  | cells, _, [] => .ok cells
  | cells, i, arr :: rest => do
    let cells ← individualStep eps tsph fuel bat cells i arr
    individualLoop eps tsph fuel bat cells (i + 1) rest

/-- one standing interval of the collective branch: `(needed, time)` -/
def collectiveInterval (eps tsph : α) (fuel : Nat) (v2g : Bool) (vmin vmax : Array α)
    (cells : Array (Cell α)) (iv : α × List Nat) : Py (Array (Cell α)) :=
  if iv.2.isEmpty then .ok cells
  else if !(iv.2.all (fun i => decide (i < vmin.size) && decide (i < vmax.size))) then .error .indexError
  else do
    let r ← distribute eps tsph fuel cells
      (iv.2.map (fun i => (i, vmin.getD i 0, vmax.getD i 0))) iv.1 v2g none
    .ok r.1

/-- `if batteries["power"]: distribute_energy_balanced(range(n), -stored*eff/ts_per_hour, True, …)` -/
def batteryPass (eps tsph : α) (fuel : Nat) (bat : Batteries α) (cells : Array (Cell α)) :
    Py (Array (Cell α)) :=
  if isZero bat.power then .ok cells
  else do
    let r ← distribute eps tsph fuel cells
      ((List.range cells.size).map (fun i => (i, -bat.power, bat.power)))
      (-bat.stored * bat.efficiency / tsph) true none
    .ok r.1

/-- `assert flex["min"][i] - EPS < v < flex["max"][i] + EPS` for every i -/
def checkBand (eps : α) (cells : Array (Cell α)) : Py Unit :=
  pyassert (cells.toList.all (fun c => decide (c.flexMin - eps < c.sched) && decide (c.sched < c.flexMax + eps)))

/-- `aggressive_round(f, 3)`; `rnd` is Python's `round(·, 3)` on the number type -/
def aggressiveRound (eps : α) (rnd : α → α) (f : α) : α :=
  if -eps < f ∧ f < eps then 0 else rnd f

/-- one written CSV row (without the timestamp, which is `start_time + t * interval`) -/
structure Row (α : Type) where
  sched : α
  flag : Bool
  oResid : α
  oCurt : α
  resid : α
  curt : α
  vs : List α
  deriving Repr

/-- the row of timestep `t` (REPAIRED, fixes/D7.diff: `curtailment[t]`) -/
def writeRow (eps : α) (rnd : α → α) (individual : Bool) (c : Cell α) : Row α :=
  { sched := aggressiveRound eps rnd c.sched,
    flag := decide (eps < c.curt) || decide (c.resid < -eps),
    oResid := rnd c.oResid, oCurt := rnd c.oCurt, resid := rnd c.resid, curt := rnd c.curt,
    vs := if individual then c.vs.map (aggressiveRound eps rnd) else [] }

def writeRows (eps : α) (rnd : α → α) (individual : Bool) (cells : Array (Cell α)) : List (Row α) :=
  cells.toList.map (writeRow eps rnd individual)

/-- mode specific part of the flex dict -/
inductive Mode (α : Type) where
  | individual (vehicles : List (List (VInfo α)))
  | collective (gcMax : α) (v2g : Bool) (vmin vmax : Array α) (intervals : List (α × List Nat))

/-- input of the modelled part of generate_schedule -/
structure GenInput (α : Type) where
  nVeh : Nat
  base : List α
  fmin : List α
  fmax : List α
  resid : List α       -- after slicing / padding
  curt : List α
  bat : Batteries α
  mode : Mode α

def zip5 : List α → List α → List α → List α → List α → List (α × α × α × α × α)
  | a :: as, b :: bs, c :: cs, d :: ds, e :: es => (a, b, c, d, e) :: zip5 as bs cs ds es
  | _, _, _, _, _ => []

/-- "default schedule" and the base adjustment for every timestep (avail not yet filled in) -/
def initCells (inp : GenInput α) : List (Cell α) :=
  (zip5 inp.base inp.fmin inp.fmax inp.resid inp.curt).map
    (fun t => initCell inp.nVeh t.1 t.2.1 t.2.2.1 t.2.2.2.1 t.2.2.2.2)

/-- the mode specific distribution loops -/
def runMode (eps tsph : α) (fuel : Nat) (inp : GenInput α) (cells0 : List (Cell α)) :
    Py (Array (Cell α)) :=
  match inp.mode with
  | .individual vehicles =>
    individualLoop eps tsph fuel inp.bat (cells0.map Cell.availIndividual).toArray 0
      (vehicles.take cells0.length)
  | .collective gcMax v2g vmin vmax intervals =>
    intervals.foldlM (collectiveInterval eps tsph fuel v2g vmin vmax)
      (cells0.map (Cell.availCollective gcMax)).toArray

/-- every list is indexed with `i in range(len(flex["base"]))`; a shorter list raises IndexError -/
def lensBad (inp : GenInput α) : Bool :=
  let n := inp.base.length
  let vehOk := match inp.mode with
    | .individual vehicles => decide (n ≤ vehicles.length)
    | .collective .. => true
  decide (inp.fmin.length < n) || decide (inp.fmax.length < n) || decide (inp.resid.length < n)
    || decide (inp.curt.length < n) || !vehOk

/-- generate_schedule from "default schedule" up to (excluding) the final assertion -/
def generateCore (eps tsph : α) (fuel : Nat) (inp : GenInput α) : Py (Array (Cell α)) :=
  if lensBad inp then .error .indexError
  else do
    let cells ← runMode eps tsph fuel inp (initCells inp)
    batteryPass eps tsph fuel inp.bat cells

/-- generate_schedule up to and including the final assertion `schedule within flex ± EPS` -/
def generateCells (eps tsph : α) (fuel : Nat) (inp : GenInput α) : Py (Array (Cell α)) := do
  let cells ← generateCore eps tsph fuel inp
  checkBand eps cells
  .ok cells

def isIndividual : Mode α → Bool
  | .individual _ => true
  | .collective .. => false

/-- the rows generate_schedule writes -/
def generateSchedule (eps tsph : α) (rnd : α → α) (fuel : Nat) (inp : GenInput α) : Py (List (Row α)) := do
  let cells ← generateCells eps tsph fuel inp
  .ok (writeRows eps rnd (isIndividual inp.mode) cells)

/-! ### grid situation file -/

/-- value handling of `util.read_grid_file`: `none` = non-numeric cell.  Residual load: previous value
(0 in the first row).  Curtailment: `abs`, with the assertion that not both signs occur. -/
def readResidual : List (Option α) → Option α → List α
  | [], _ => []
  | some v :: rest, _ => v :: readResidual rest (some v)
  | none :: rest, prev => (prev.getD 0) :: readResidual rest (some (prev.getD 0))

def readCurtailment : List (Option α) → Option α → Bool → Bool → Py (List α)
  | [], _, _, _ => .ok []
  | some v :: rest, _, neg, pos =>
    let neg := neg || decide (v < 0)
    let pos := pos || decide (0 < v)
    if neg && pos then .error .assertion
    else do
      let r ← readCurtailment rest (some (absNum v)) neg pos
      .ok (absNum v :: r)
  | none :: rest, prev, neg, pos => do
    let r ← readCurtailment rest (some (prev.getD 0)) neg pos
    .ok (prev.getD 0 :: r)

/-- slicing and zero padding in generate_schedule.  `offset = (s.start_time - grid_start_time) //
s.interval` (floor division, computed on integers by the caller: `sliceOffset`). -/
def sliceGrid (n : Nat) (offset : Int) (xs : List α) : List α :=
  let len := xs.length
  let idxStart : Nat := if 0 < offset ∧ offset < (len : Int) then offset.toNat else 0
  let idxEnd := Nat.min (idxStart + n) len
  let s := (xs.drop idxStart).take (idxEnd - idxStart)
  s ++ List.replicate (n - s.length) 0

/-- `(s.start_time.replace(tzinfo=None) - grid_start_time) // s.interval` -/
def sliceOffset (scenStart : Int) (gridStart : Option Int) (interval : Int) : Int :=
  match gridStart with
  | none => 0
  | some g => (scenStart - g) / interval

end

/-! ### schedule file reader (events.get_schedule_from_csv) and read-back -/

def DAY : Int := 86400000000
def HOUR : Int := 3600000000

/-- `dt.hour` for a local time in microseconds since a midnight -/
def hourOf (t : Int) : Int := (t % DAY) / HOUR

/-- `dt.replace(hour=9, minute=0, second=0)` (microseconds are kept, as in Python) -/
def atNine (t : Int) : Int := (t - t % DAY) + 9 * HOUR + (t % 1000000)

/-- signal time convention of get_schedule_from_csv -/
def signalTime (start startTime : Int) : Int :=
  let s := if hourOf startTime < 12 then startTime - 2 * DAY else startTime - DAY
  let s := atNine s
  -- max(start, signal_time)
  if start < s then s else start

/-- one data row of the schedule file as the reader sees it -/
structure FileRow (α : Type) where
  time : Option Int          -- parsed first column (none: could not be parsed)
  target : α
  window : Option Bool       -- none: no window column
  vs : List α                -- vehicle columns in header order (individual mode; else [])
  deriving Repr

inductive Payload (α : Type) where
  | gc (target : α) (window : Option Bool)
  | veh (k : Nat) (schedule : α)
  deriving Repr

structure Ev (α : Type) where
  start : Int
  signal : Int
  payload : Payload α
  deriving Repr

structure ReaderState (α : Type) where
  start : Option Int
  lastTarget : Option α
  lastWindow : Option Bool
  vlast : List (Option α)    -- vehicle_schedules (header order)

section
variable {α : Type} [LT α] [DecidableLT α]

@[inline] def numNe' (a b : α) : Bool := decide (a < b) || decide (b < a)

/-- vehicle events of one row: `for i, vid in enumerate(reversed(vehicle_names))`, i.e. last column
first.  `k` counts header positions. -/
def vehEvents (st sg : Int) : Nat → List α → List (Option α) → List (Ev α) × List (Option α)
  | _, [], _ => ([], [])
  | _, _, [] => ([], [])
  | k, v :: vs, l :: ls =>
    let r := vehEvents st sg (k + 1) vs ls
    let changed := match l with | none => true | some x => numNe' v x
    if changed then (r.1 ++ [⟨st, sg, .veh k v⟩], some v :: r.2) else (r.1, l :: r.2)

/-- start time of the row and the (possibly just defaulted) file start: the `try … except ValueError`
of the reader -/
def rowTimes (interval : Int) (start : Option Int) (idx : Nat) (time : Option Int) : Py (Int × Int) :=
  match time with
  | some t => .ok (t, start.getD t)                    -- start = start or start_time
  | none => match start with
    | some st => .ok ((idx : Int) * interval + st, st)
    | none => .error .typeError                        -- idx * interval + None

/-- `target != last_target or window != last_window` -/
def rowChanged (s : ReaderState α) (row : FileRow α) : Bool :=
  (match s.lastTarget with | none => true | some t => numNe' row.target t)
    || (row.window != s.lastWindow)

/-- the rest of the loop body once the row's time is known -/
def readRowAt (s : ReaderState α) (row : FileRow α) (startTime start : Int) :
    Py (List (Ev α) × ReaderState α) :=
  let sg := signalTime start startTime
  if sg ≤ startTime then
    -- a row shorter than the header raises IndexError on `row[-1 - i]`; longer rows are not produced
    if row.vs.length ≠ s.vlast.length then .error .indexError
    else
      let changed := rowChanged s row
      let gcEv : List (Ev α) := if changed then [⟨startTime, sg, .gc row.target row.window⟩] else []
      let ve := vehEvents startTime sg 0 row.vs s.vlast
      .ok (gcEv ++ ve.1,
        { start := some start,
          lastTarget := if changed then some row.target else s.lastTarget,
          lastWindow := if changed then row.window else s.lastWindow,
          vlast := ve.2 })
  else .error .assertion                                -- assert signal_time <= start_time

/-- one row of `for idx, row in enumerate(reader)` (REPAIRED, fixes/D8.diff: the row's start and
signal time are computed for every row, before the comparisons) -/
def readRow (interval : Int) (s : ReaderState α) (idx : Nat) (row : FileRow α) :
    Py (List (Ev α) × ReaderState α) :=
  match rowTimes interval s.start idx row.time with
  | .error e => .error e
  | .ok t => readRowAt s row t.1 t.2

def readRows (interval : Int) : ReaderState α → Nat → List (FileRow α) → Py (List (Ev α))
  | _, _, [] => .ok []
  | s, idx, row :: rest => do
    let r ← readRow interval s idx row
    let tl ← readRows interval r.2 (idx + 1) rest
    .ok (r.1 ++ tl)

/-- `get_schedule_from_csv` for `nVeh` vehicle columns and the `start_time` entry of the JSON -/
def getScheduleFromCsv (interval : Int) (start : Option Int) (nVeh : Nat) (rows : List (FileRow α)) :
    Py (List (Ev α)) :=
  readRows interval ⟨start, none, none, List.replicate nVeh none⟩ 0 rows

/-! read-back: what a strategy sees -/

structure Seen (α : Type) where
  target : Option α
  window : Option Bool
  vsched : List (Option α)
  deriving Repr

/-- the GridOperatorSignal / VehicleEvent("schedule") branches of `Strategy.step` -/
def applyEv (s : Seen α) (e : Ev α) : Seen α :=
  match e.payload with
  | .gc t w => { s with target := some t, window := match w with | none => s.window | some b => some b }
  | .veh k v => { s with vsched := s.vsched.set k (some v) }

/-- `Events.get_event_steps`: ceil index of the signal time; `none` = ignored (after the end) -/
def stepIndex (scenStart interval : Int) (n : Nat) (e : Ev α) : Option Nat :=
  let index := -((scenStart - e.signal) / interval)
  if index < 0 then some 0 else if index ≥ (n : Int) then none else some index.toNat

/-- operational read-back: the event queue of `Strategy.step` (append the step's events, stable sort
by start time, pop while `start_time <= current_time`), for steps `0 … n-1`; returns what is in force
after each step -/
def runQueue (scenStart interval : Int) (n : Nat) (evs : List (Ev α)) (init : Seen α) : List (Seen α) :=
  let rec go (t : Nat) (fuel : Nat) (queue : List (Ev α)) (s : Seen α) : List (Seen α) :=
    match fuel with
    | 0 => []
    | fuel + 1 =>
      let cur := scenStart + (t : Int) * interval
      let arriving := evs.filter (fun e => stepIndex scenStart interval n e == some t)
      let q := (queue ++ arriving).mergeSort (fun a b => decide (a.start ≤ b.start))
      let due := q.takeWhile (fun e => decide (e.start ≤ cur))
      let rest := q.dropWhile (fun e => decide (e.start ≤ cur))
      let s' := due.foldl applyEv s
      s' :: go (t + 1) fuel rest s'
  go 0 n [] init

/-- has the event been handed to the strategy by step `t` (its bucket index is `≤ t`)? -/
def arrivedBy (scenStart interval : Int) (n t : Nat) (e : Ev α) : Bool :=
  match stepIndex scenStart interval n e with
  | some k => decide (k ≤ t)
  | none => false

/-- declarative read-back: at step `t` every event that has been signalled (`stepIndex ≤ t`) and whose
start time has been reached is applied, in order of start time (stable) -/
def inForce (scenStart interval : Int) (n : Nat) (evs : List (Ev α)) (init : Seen α) (t : Nat) : Seen α :=
  let cur := scenStart + (t : Int) * interval
  let live := evs.filter (fun e => arrivedBy scenStart interval n t e && decide (e.start ≤ cur))
  (live.mergeSort (fun a b => decide (a.start ≤ b.start))).foldl applyEv init

end
end SpiceEv.ScheduleGen
