"""S_PEAK_SHAVING — step-level tie of the Lean model of `PeakShaving` (Model/StratPeakShaving.lean) to the real class.

Real `Scenario.run('peak_shaving')` on generated scenarios of harness/scen.py (all features of the grammar plus the
class's own options HORIZON and perfect_foresight); `PeakShaving.step` is wrapped at run time: the complete world
state before every step and the event list the strategy can see (`self.events` with perfect foresight, otherwise
`world_state.future_events`) are rendered as one protocol line (`step_peak_shaving`, Float battery model), the real
step runs, and commands / connector loads / station power / vehicle and battery SoCs after the step plus every return
value of `fast_charge` during the step are compared with the model's line by value (bit level).

The model is the REPAIRED class (fixes/PS1.diff, fixes/PS2.diff).  Oracle (independent of the model): the conclusions of
the theorems C04/C05/C06_peak_shaving_* are evaluated on the real step whenever their hypotheses hold on the state before
the step; every excess of a connector limit or station maximum is a violation (keyed by the mechanism `classify` finds).
"""
import contextlib
import datetime
import random

import engine
import scen
from wire import enc, dec
from c10 import us, f, r_battery, r_cost

engine.use_repo()

PID = "S_PEAK_SHAVING"
THEOREM_MODULES = ["C04_PeakShaving", "C05_PeakShaving", "C06_PeakShaving", "C17_PeakShaving"]
CHUNK = 1
RULE = ("scenarios from the grammar in harness/scen.py for strategy peak_shaving (fixed load, generation, one or two "
        "stationary batteries incl. unlimited capacity and losses, V2G types, limit/price/window signals on and off the "
        "step grid, CONCURRENCY, station/vehicle minimum power, one or two connectors) plus the class's options HORIZON "
        "(24 h default, 0.5-12 h) and perfect_foresight (True default / False); every strategy step of every run is one "
        "model evaluation; non-trivial = a run with a step in which a station or battery carries power; distinct = "
        "distinct (seed, index)")
ASSUMPTIONS = ["model vs implementation: floats compared by value (+0.0 == -0.0), no tolerance",
               "PeakShaving.__init__ (moving signal times, building self.events) is not modelled: the event list the real "
               "object holds is rendered at every step",
               "oracle tolerances: 1e-9 kW on sums that the code forms in a different order"]
UNPROVED = ["IEEE rounding: theorems are over ordered fields, the Float instance of the same definitions is tied bit for bit",
            "LoadSat (a positive target-power request is met exactly or the battery is saturated) is a hypothesis of the C04 "
            "vehicle theorems; the real battery may fall short of a request by its own EPS (C02 findings)"]
FUEL = 1200
TOL = 1e-9
EPS = 1e-5


def opt(x, r):
    return "N" if x is None else "S " + r(x)


def r_event(ev):
    from spice_ev import events as E
    t = type(ev)
    st = str(us(ev.start_time))
    if t is E.LocalEnergyGeneration:
        return "G %s %s %s %s" % (st, ev.grid_connector_id, ev.name, f(ev.value))
    if t is E.FixedLoad:
        return "L %s %s %s %s" % (st, ev.grid_connector_id, ev.name, f(ev.value))
    if t is E.GridOperatorSignal:
        return "S %s %s %s" % (st, ev.grid_connector_id, opt(ev.max_power, f))
    if t is E.VehicleEvent:
        if ev.event_type == "departure":
            return "D %s %s" % (st, ev.vehicle_id)
        u = ev.update
        if "estimated_time_of_departure" not in u:
            etd = "M"
        elif u["estimated_time_of_departure"] is None:
            etd = "N"
        else:
            etd = "S %d" % us(u["estimated_time_of_departure"])
        return "A %s %s %s %s %s %s" % (st, ev.vehicle_id, opt(u.get("connected_charging_station"), str),
                                        opt(u.get("desired_soc"), f), opt(u.get("soc_delta"), f), etd)
    return "O " + st


def visible_events(strat):
    return strat.events if strat.perfect_foresight else strat.world_state.future_events


def render_world(strat):
    ws = strat.world_state
    interval_us = strat.interval // datetime.timedelta(microseconds=1)
    horizon_us = strat.HORIZON // datetime.timedelta(microseconds=1)
    parts = ["step_peak_shaving", f(strat.EPS), f(strat.ts_per_hour), str(us(strat.current_time)), str(interval_us),
             str(horizon_us), "1" if strat.perfect_foresight else "0", str(FUEL)]
    parts.append(str(len(ws.grid_connectors)))
    for gid, gc in ws.grid_connectors.items():
        parts += [gid, f(gc.cur_max_power), r_cost(gc.cost), str(len(gc.current_loads))]
        for k, v in gc.current_loads.items():
            parts += [k, f(v)]
    parts.append(str(len(ws.charging_stations)))
    for cid, cs in ws.charging_stations.items():
        parts += [cid, cs.parent, f(cs.max_power), f(cs.min_power), f(cs.current_power)]
    parts.append(str(len(ws.vehicles)))
    for vid, v in ws.vehicles.items():
        etd = v.estimated_time_of_departure
        parts += [vid, "N" if v.connected_charging_station is None else "S " + v.connected_charging_station,
                  f(v.desired_soc), "N" if etd is None else "S %d" % us(etd),
                  f(v.vehicle_type.min_charging_power), "1" if v.vehicle_type.v2g else "0",
                  f(v.vehicle_type.discharge_limit), r_battery(v.battery)]
    parts.append(str(len(ws.batteries)))
    for bid, b in ws.batteries.items():
        parts += [bid, b.parent, f(b.min_charging_power), r_battery(b)]
    evs = visible_events(strat)
    parts.append(str(len(evs)))
    parts += [r_event(e) for e in evs]
    return " ".join(parts)


def render_result(strat, cmds, fc_log):
    ws = strat.world_state
    kv = lambda d: " ".join([str(len(d))] + ["%s %s" % (k, f(v)) for k, v in d.items()])
    return (kv(cmds) + " | " + " ; ".join("%s %s" % (gid, kv(gc.current_loads)) for gid, gc in ws.grid_connectors.items())
            + " | " + " ".join(f(cs.current_power) for cs in ws.charging_stations.values())
            + " | " + " ".join(f(v.battery.soc) for v in ws.vehicles.values())
            + " | " + " ".join(f(b.soc) for b in ws.batteries.values())
            + " | " + " ".join([str(len(fc_log))] + [f(x) for x in fc_log]))


# ---- oracle: the theorems' statements on the real step ---------------------------------------------

def snapshot(strat):
    ws = strat.world_state
    evs = list(visible_events(strat))
    if strat.perfect_foresight:
        while evs and evs[0].start_time <= strat.current_time:
            evs.pop(0)
    late = [e for e in evs if e.start_time <= strat.current_time]
    return {
        "events_not_ahead": ("%d visible events start at or before the present step" % len(late)) if late else None,
        "gc": {g: {"load": gc.get_current_load(), "max": gc.cur_max_power, "keys": list(gc.current_loads)}
               for g, gc in ws.grid_connectors.items()},
        "veh": {vid: {"soc": v.battery.soc, "cs": v.connected_charging_station} for vid, v in ws.vehicles.items()},
        "bat": {bid: {"soc": b.soc, "parent": b.parent} for bid, b in ws.batteries.items()},
    }


def classify(strat, before, cmds, peaks):
    """Mechanism of every limit / station-maximum excess of this step (the two known findings), from the recorded
    state only: world before the step (`before`), commands and connector loads after it, and the forecast peak
    `max(power_levels + [0])` of every battery (`peaks`, in the order the strategy visits connectors and batteries).
    Returns a list of (kind, gc or station id, mechanism, detail); mechanism is 'surplus' (D6), 'forecast_peak'
    or 'other' (= not explained by a known finding)."""
    out = []
    ws = strat.world_state
    pk = list(peaks)
    for gid, gc in ws.grid_connectors.items():
        b = before["gc"][gid]
        L0, mx = b["load"], b["max"]
        bats = [bid for bid, bb in ws.batteries.items() if bb.parent == gid]
        Ms = [pk.pop(0) if pk else None for _ in bats]
        if not (-mx - EPS <= L0 <= mx + EPS):
            continue        # fixed load and generation alone break the limit: C04 says nothing
        Lv = gc.get_current_load(exclude=bats)
        if Lv > mx + EPS:
            out.append(("limit", gid, "surplus" if L0 < 0 else "other", "vehicles: %r -> %r > %r" % (L0, Lv, mx)))
            continue
        cur = Lv
        for bid, M in zip(bats, Ms):
            after = cur + gc.current_loads.get(bid, 0)
            if after > mx + EPS and cur <= mx + EPS:
                out.append(("limit", gid, "forecast_peak" if (M is not None and M > mx) else "other",
                            "battery %s: %r -> %r > %r, forecast peak %r" % (bid, cur, after, mx, M)))
            if after < -mx - EPS and cur >= -mx - EPS:
                out.append(("limit", gid, "other", "battery %s discharges below -limit: %r -> %r" % (bid, cur, after)))
            cur = after
    for cid, p in cmds.items():
        cs = ws.charging_stations.get(cid)
        if cs is not None and abs(p) > cs.max_power + EPS:
            L0 = before["gc"][cs.parent]["load"]
            out.append(("station", cid, "surplus" if L0 < 0 and p > 0 else "other", "%r > %r" % (p, cs.max_power)))
    return out


def oracle(strat, before, cmds, ops, peaks):
    """conclusions of the C04/C05/C06_peak_shaving theorems, whenever their hypotheses hold before the step; every
    excess of a limit must be explained by one of the two known mechanisms (`classify`)"""
    out = []
    ws = strat.world_state
    t = strat.current_time
    stations_used = {}
    for vid, v in before["veh"].items():
        if v["cs"] is not None:
            stations_used.setdefault(v["cs"], []).append(vid)
    # repaired code (fixes/PS1.diff, PS2.diff): no excess of a connector limit or station maximum is explained any more;
    # the mechanism found by `classify` goes into the key (surplus / forecast_peak = a repair has been undone)
    for kind, where, mech, detail in classify(strat, before, cmds, peaks):
        out.append(("C04" if kind == "limit" else "C05",
                    "S_PEAK_SHAVING:%s_exceeded:%s" % (kind, mech), "%s %s: %s" % (t, where, detail)))
    # the theorems' hypothesis `EventsAhead`: after the pop of past events no visible event starts at or before now
    if before.get("events_not_ahead"):
        out.append(("hyp", "S_PEAK_SHAVING:hypothesis_events_ahead_does_not_hold", "%s: %s" % (t, before["events_not_ahead"])))
    pk = list(peaks)
    for gid, gc in ws.grid_connectors.items():
        b = before["gc"][gid]
        L0, mx = b["load"], b["max"]
        bats = [bid for bid, bb in ws.batteries.items() if bb.parent == gid]
        Ms = [pk.pop(0) if pk else None for _ in bats]
        Lv = gc.get_current_load(exclude=bats)
        # C04_peak_shaving_vehicles_partial (its vehicle-pass core): within the limit before => within it after, surplus
        # or not (with surplus the battery's EPS shortfall of a request is outside the theorem: tolerance EPS)
        if mx >= 0 and L0 <= mx:
            if Lv > mx + (TOL if L0 >= 0 else EPS):
                out.append(("C04", "S_PEAK_SHAVING:C04:vehicle_pass_breaks_limit_without_surplus",
                            "%s %s: %r > %r" % (t, gid, Lv, mx)))
            if Lv < L0 - TOL:
                out.append(("C04", "S_PEAK_SHAVING:C04:vehicle_pass_lowers_load", "%s %s: %r < %r" % (t, gid, Lv, L0)))
        # C04_peak_shaving_battery_partial, battery by battery
        cur = Lv
        for bid, M in zip(bats, Ms):
            after = cur + gc.current_loads.get(bid, 0)
            if after < min(cur, 0) - TOL:
                out.append(("C04", "S_PEAK_SHAVING:C04:battery_discharges_into_feed_in",
                            "%s %s %s: %r -> %r" % (t, gid, bid, cur, after)))
            if after > max(cur, mx) + TOL:      # C04_peak_shaving_battery, unconditional
                out.append(("C04", "S_PEAK_SHAVING:C04:battery_lifts_load_above_present_limit",
                            "%s %s %s: %r -> %r > %r (forecast peak %r)" % (t, gid, bid, cur, after, mx, M)))
            if M is not None and after > max(M, cur) + TOL:
                out.append(("C04", "S_PEAK_SHAVING:C04:battery_charges_above_forecast_peak",
                            "%s %s %s: %r -> %r, forecast peak %r" % (t, gid, bid, cur, after, M)))
            cur = after
    # C05_peak_shaving_station_partial / never_discharges: commands are non-negative, only stations with a connected
    # vehicle carry power, and (no surplus at the connector, one vehicle per station) within the station's headroom
    for cid, p in cmds.items():
        cs = ws.charging_stations.get(cid)
        if cs is None or cid not in stations_used:
            out.append(("C05", "S_PEAK_SHAVING:C05:command_for_station_without_vehicle", "%s %s" % (t, cid)))
            continue
        if p < 0:
            out.append(("C05", "S_PEAK_SHAVING:C05:negative_command", "%s %s: %r" % (t, cid, p)))
        b = before["gc"][cs.parent]
        if len(stations_used[cid]) == 1 and cid not in b["keys"]:     # C05_peak_shaving_commands (surplus or not)
            if p > max(cs.max_power - cs.current_power, 0) + TOL:
                out.append(("C05", "S_PEAK_SHAVING:C05:station_maximum_exceeded",
                            "%s %s: %r > %r" % (t, cid, p, cs.max_power)))
    # C06_peak_shaving_step_is_booked: every SoC change is one battery call whose average power is booked
    idv = {id(v.battery): vid for vid, v in ws.vehicles.items()}
    idb = {id(b): bid for bid, b in ws.batteries.items()}
    net_v, net_b = {}, {}
    for (kind, oid, s0, s1, avg) in ops:
        if abs(s1 - s0) == 0 and avg == 0:
            continue
        if oid in idv:
            net_v.setdefault(idv[oid], []).append((kind, s0, s1, avg))
        elif oid in idb:
            net_b.setdefault(idb[oid], []).append((kind, s0, s1, avg))
    for vid, calls in net_v.items():
        if len(calls) > 1:
            out.append(("C06", "S_PEAK_SHAVING:C06:vehicle_battery_called_more_than_once",
                        "%s %s: %d effective calls" % (t, vid, len(calls))))
    for vid, v in ws.vehicles.items():
        s0 = before["veh"][vid]["soc"]
        if v.battery.soc != s0:
            calls = [c for c in net_v.get(vid, []) if c[1] == s0 and c[2] == v.battery.soc and c[0] == "load"]
            cid = before["veh"][vid]["cs"]
            if not calls or cid is None or all(abs(cmds.get(cid, 0) - c[3]) > TOL for c in calls):
                out.append(("C06", "S_PEAK_SHAVING:C06:vehicle_soc_change_not_booked",
                            "%s %s: %r -> %r, command %r" % (t, vid, s0, v.battery.soc, cmds.get(cid))))
    for bid, b in ws.batteries.items():
        s0 = before["bat"][bid]["soc"]
        gc = ws.grid_connectors.get(b.parent)
        booked = gc.current_loads.get(bid, 0) if gc is not None else 0
        if b.soc != s0:
            calls = [c for c in net_b.get(bid, []) if c[1] == s0 and c[2] == b.soc]
            ok = any(abs(booked - (c[3] if c[0] == "load" else -c[3])) <= TOL for c in calls)
            if not ok:
                out.append(("C06", "S_PEAK_SHAVING:C06:battery_soc_change_not_booked",
                            "%s %s: %r -> %r, booked %r" % (t, bid, s0, b.soc, booked)))
        elif abs(booked) > 1e-5 and not any(c for c in net_b.get(bid, [])):
            out.append(("C06", "S_PEAK_SHAVING:C06:battery_power_without_soc_change",
                        "%s %s: booked %r" % (t, bid, booked)))
    return out


# ---- the tie ------------------------------------------------------------------------------------

@contextlib.contextmanager
def tie(full, with_oracle=True):
    """wrap the real class's `step` (and `fast_charge`) while a `scen.run_real(full)` runs; yields a record with
    `lines` (model requests), `impl` (implementation results), `violations`, `active` (steps with power)"""
    from spice_ev.strategies import peak_shaving as ps_mod
    from spice_ev import battery as bat_mod
    cls = ps_mod.PeakShaving
    orig_step, orig_fc = cls.step, cls.fast_charge
    rec = {"lines": [], "impl": [], "violations": [], "active": 0, "stats": set()}
    fc_log = []
    ops = []
    peaks = []
    import builtins

    def spy_max(*a, **k):
        r = builtins.max(*a, **k)
        if len(a) == 1 and isinstance(a[0], list) and not k:
            peaks.append(r)      # `max_power = max(power_levels + [0])`: the only single-list call in the module
        return r

    def fast_charge(self, v_info, timesteps):
        r = orig_fc(self, v_info, timesteps)
        fc_log.append(r)
        return r

    def wrapped(self):
        line = render_world(self)
        del fc_log[:]
        del peaks[:]
        before = snapshot(self)
        # battery calls of this step (the run-level wrapper of scen.run_real may or may not be installed)
        del ops[:]
        cur_load, cur_unload = bat_mod.Battery.load, bat_mod.Battery.unload

        def load(b, *a, **k):
            s0 = b.soc
            r = cur_load(b, *a, **k)
            ops.append(("load", id(b), s0, b.soc, r["avg_power"]))
            return r

        def unload(b, *a, **k):
            s0 = b.soc
            r = cur_unload(b, *a, **k)
            ops.append(("unload", id(b), s0, b.soc, r["avg_power"]))
            return r
        if with_oracle:
            bat_mod.Battery.load, bat_mod.Battery.unload = load, unload
        try:
            try:
                res = orig_step(self)
            finally:
                bat_mod.Battery.load, bat_mod.Battery.unload = cur_load, cur_unload
        except Exception as e:
            rec["lines"].append(line)
            rec["impl"].append("!" + type(e).__name__)
            rec["stats"].add("raises:" + type(e).__name__)
            raise
        rec["lines"].append(line)
        rec["impl"].append(render_result(self, res["commands"], fc_log))
        if with_oracle and len(rec["violations"]) < 5:
            rec["violations"] += oracle(self, before, res["commands"], ops, peaks)
        for kind, where, mech, detail in classify(self, before, res["commands"], peaks):
            rec["stats"].add("%s_exceeded:%s" % (kind, mech))
        ws = self.world_state
        if any(abs(x) > 1e-5 for x in res["commands"].values()):
            rec["active"] += 1
            rec["stats"].add("vehicle_charged")
        if any(abs(gc.current_loads.get(bid, 0)) > 1e-5 for gc in ws.grid_connectors.values() for bid in ws.batteries):
            rec["active"] += 1
            rec["stats"].add("battery_used")
        if any(gc.current_loads.get(bid, 0) < -1e-5 for gc in ws.grid_connectors.values() for bid in ws.batteries):
            rec["stats"].add("battery_discharged")
        if any(before["gc"][g]["load"] < 0 for g in before["gc"]):
            rec["stats"].add("surplus")
        if len(fc_log) > len(res["commands"]):
            rec["stats"].add("future_arrival_planned")
        return res
    orig_init = cls.__init__

    def init(self, components, start_time, **kwargs):
        """tie of `__init__` (perfect foresight): the raw event lists before, `self.events` after"""
        import io
        from spice_ev import events as E
        evobj = kwargs.get("events")
        line = None
        if kwargs.get("perfect_foresight", True) and evobj is not None:
            sig = lambda e: "%d %s" % (us(e.signal_time), r_event(e))
            lst = lambda l: " ".join([str(len(l))] + l)
            ves = [sig(e) for e in evobj.vehicle_events]
            sigs = [sig(e) for e in evobj.grid_operator_signals]
            loads = [lst([sig(e) for e in l.get_events(name, E.FixedLoad)])
                     for name, l in evobj.fixed_load_lists.items()]
            gens = [lst([sig(e) for e in l.get_events(name, E.LocalEnergyGeneration)])
                    for name, l in evobj.local_generation_lists.items()]
            horizon = datetime.timedelta(hours=kwargs.get("HORIZON", 24)) // datetime.timedelta(microseconds=1)
            line = " ".join(["init_peak_shaving", str(horizon), str(us(start_time)), lst(ves), lst(sigs), lst(loads),
                             lst(gens)])
        buf = io.StringIO()
        with contextlib.redirect_stdout(buf):
            orig_init(self, components, start_time, **kwargs)
        if line is not None:
            txt = buf.getvalue().split()
            changed = int(txt[0]) if txt and txt[0].isdigit() else 0
            rec["lines"].append(line)
            rec["impl"].append("%d | %s" % (changed, " ".join(
                [str(len(self.events))] + ["%d %s" % (us(e.signal_time), r_event(e)) for e in self.events])))
            rec["stats"].add("init_tied")
    cls.step, cls.fast_charge, cls.__init__ = wrapped, fast_charge, init
    ps_mod.max = spy_max
    try:
        yield rec
    finally:
        cls.step, cls.fast_charge, cls.__init__ = orig_step, orig_fc, orig_init
        del ps_mod.max


def gen_full(seed, i, max_steps=30):
    rng = random.Random("S_PEAK_SHAVING:%s:%s" % (seed, i))
    full = scen.gen_scenario(rng, strategy="peak_shaving", feasible=rng.random() < 0.85, max_steps=max_steps,
                             features={"battery": (True if i % 3 == 0 else None)})
    # the class's own options
    r = rng.random()
    if r < 0.45:
        full["options"]["HORIZON"] = rng.choice([0.5, 1, 2, 3, 6, 12])
    if rng.random() < 0.25:
        full["options"]["perfect_foresight"] = False
    # wrong estimates of the departure time (earlier than the departure event, at or before the arrival): the
    # "faulty arrival/departure" branch of step_gc and standing times of less than one step
    if rng.random() < 0.35:
        iv = full["scenario"]["scenario"]["interval"]
        parse = datetime.datetime.fromisoformat
        for ev in full["scenario"]["events"]["vehicle_events"]:
            if ev["event_type"] == "arrival" and rng.random() < 0.4:
                t = parse(ev["start_time"]) + datetime.timedelta(minutes=rng.choice([-iv, 0, 0, 1, iv // 2 or 1, iv]))
                ev["update"]["estimated_time_of_departure"] = t.isoformat()
        for v in full["scenario"]["components"]["vehicles"].values():
            if "estimated_time_of_departure" in v and rng.random() < 0.4:
                t = parse(full["scenario"]["scenario"]["start_time"]) + datetime.timedelta(
                    minutes=rng.choice([-iv, 0, 1, iv]))
                v["estimated_time_of_departure"] = t.isoformat()
        full["meta"]["bad_etd"] = True
    # boundary values on purpose: fixed load and generation on a coarse lattice (ties between power levels in
    # fast_charge, bisection midpoints that hit a level +- the battery's minimum power exactly)
    if rng.random() < 0.3:
        for series in list(full["scenario"]["events"]["fixed_load"].values()) + \
                list(full["scenario"]["events"]["local_generation"].values()):
            series["values"] = [float(rng.choice([0, 1, 2, 3, 4, 4, 6, 8])) for _ in series["values"]]
        for b in full["scenario"]["components"]["batteries"].values():
            b["min_charging_power"] = rng.choice([0, 1, 1, 2])
            b["efficiency"] = rng.choice([1.0, 1.0, 0.5])
        full["meta"]["lattice"] = True
    full["pid"] = PID
    return full


def gen_cases(tier, seed):
    n = 240 if tier == "quick" else 3000
    for i in range(n):
        yield {"seed": seed, "i": i, "pid": PID}


def eval_case(case):
    full = case if "scenario" in case else gen_full(case["seed"], case["i"])
    with tie(full) as rec:
        res = scen.run_real(full, timeout_s=300, collect_ops=False)
    stats = sorted(rec["stats"])
    if full["options"].get("perfect_foresight") is False:
        stats.append("no_foresight")
    if "HORIZON" in full["options"]:
        stats.append("horizon_%s" % full["options"]["HORIZON"])
    if full["meta"].get("lattice"):
        stats.append("lattice")
    if full["meta"].get("bad_etd"):
        stats.append("bad_etd")
    if res.get("timeout"):
        stats.append("timeout")
    if res.get("aborted"):
        stats.append("aborted")
    return {"lines": rec["lines"], "impl": rec["impl"], "violations": rec["violations"], "nontrivial": rec["active"] > 0,
            "stats": stats, "replay_case": full, "num": {"steps_compared": len(rec["lines"])}}


def compare(case, impl, model, tol=0.0):
    a, b = impl.split(), model.split()
    if len(a) != len(b):
        return "different shape (%d vs %d tokens): %s  //  %s" % (len(a), len(b), impl[:300], model[:300])
    for i, (x, y) in enumerate(zip(a, b)):
        if x == y:
            continue
        if x.startswith("x") and y.startswith("x"):
            fx, fy = dec(x), dec(y)
            if fx == fy or abs(fx - fy) <= tol * max(1.0, abs(fx), abs(fy)):
                continue
            return "token %d: impl %r model %r" % (i, fx, fy)
        return "token %d: impl %s model %s" % (i, x, y)
    return None
