/-
Connector-limit lemmas for the model of `BalancedMarket`: the forecast headroom of the current
timestep (`timesteps[0]["power"]`) never exceeds the real headroom of the connector during the
vehicle loop, provided the simulated battery is the real battery up to its SoC (`SimLaw`).
-/
import SpiceEv.Proofs.StratBalancedMarket
set_option linter.unusedSectionVars false
set_option linter.unusedSimpArgs false
set_option linter.unusedVariables false
namespace SpiceEv.BalancedMarket
open SpiceEv
variable {α B : Type} [Field α] [LinearOrder α] [IsStrictOrderedRing α]

/-- "`s` is a copy of `b` whose SoC may differ": what `deepcopy(vehicle)` followed by `load` /
`unload` / `battery.soc = x` on the copy preserves, and what makes the replay on the copy
(`sim_vehicle.battery.soc = original_soc`) the same call as the real one.  For the battery model
(`Battery α`, only `soc` is ever written) `R b s := { s with soc := b.soc } = b`. -/
structure SimLaw (ops : Ops α B) (R : B → B → Prop) : Prop where
  refl : ∀ b, R b b
  load : ∀ b s mp ts tp s' a, R b s → ops.load s mp ts tp = .ok (s', a) → R b s'
  unload : ∀ b s mp ts tp s' a, R b s → ops.unload s mp ts tp = .ok (s', a) → R b s'
  setSoc : ∀ b s x, R b s → R b (ops.setSoc s x)
  restore : ∀ b s, R b s → ops.setSoc s (ops.soc b) = b

theorem naivePass_R (ops : Ops α B) (R : B → B → Prop) (sl : SimLaw ops R) (b0 : B)
    (cs : StationS α) (vmin : α) (ts : List (TS α)) (same : List Nat) (power power' : List α)
    (sim sim' : B) (hr : R b0 sim)
    (h : naivePass ops cs vmin ts same power sim = .ok (power', sim')) : R b0 sim' := by
  unfold naivePass at h
  refine foldlM_inv _ (fun st => R b0 st.2) ?_ same (power, sim) (power', sim') hr h
  intro s i s' hs hstep
  simp only [bind, Except.bind] at hstep
  split at hstep
  · cases hstep
  · split at hstep
    · cases hstep
    · rename_i r hr'
      simp only [pure, Except.pure, Except.ok.injEq] at hstep
      subst hstep
      exact sl.load _ _ _ _ _ _ _ hs hr'

theorem bisectPass_R (ops : Ops α B) (R : B → B → Prop) (sl : SimLaw ops R) (b0 : B)
    (cs : StationS α) (vmin : α) (ts : List (TS α)) (same : List Nat) (cur : α)
    (power power' : List α) (sim sim' : B) (hr : R b0 sim)
    (h : bisectPass ops cs vmin ts same cur power sim = .ok (power', sim')) : R b0 sim' := by
  unfold bisectPass at h
  refine foldlM_inv _ (fun st => R b0 st.2) ?_ same (power, sim) (power', sim') hr h
  intro s i s' hs hstep
  simp only [bind, Except.bind] at hstep
  split at hstep
  · cases hstep
  · split at hstep
    · cases hstep
    · rename_i r hr'
      simp only [pure, Except.pure, Except.ok.injEq] at hstep
      subst hstep
      exact sl.load _ _ _ _ _ _ _ hs hr'

theorem bisect_R (ops : Ops α B) (R : B → B → Prop) (sl : SimLaw ops R) (b0 : B) (eps : α)
    (cs : StationS α) (vmin : α) (ts : List (TS α)) (same : List Nat) (oldSoc desired : α) :
    ∀ (fuel : Nat) (minP maxP : α) (safe : Bool) (power power' : List α) (sim sim' : B),
      R b0 sim →
      bisect ops eps cs vmin ts same oldSoc desired fuel minP maxP safe power sim = .ok (power', sim') →
      R b0 sim' := by
  intro fuel
  induction fuel with
  | zero => intro minP maxP safe power power' sim sim' hp h; simp [bisect] at h
  | succ n ih =>
    intro minP maxP safe power power' sim sim' hp h
    unfold bisect at h
    split at h
    · simp only [bind, Except.bind] at h
      split at h
      · cases h
      · rename_i r hr
        obtain ⟨pw, sm⟩ := r
        have hpw := bisectPass_R ops R sl b0 cs vmin ts same _ power pw _ sm (sl.setSoc _ _ _ hp) hr
        simp only at h
        split at h
        · exact ih _ _ _ pw power' sm sim' hpw h
        · exact ih _ _ _ pw power' sm sim' hpw h
    · simp only [Except.ok.injEq, Prod.mk.injEq] at h
      obtain ⟨_, rfl⟩ := h
      exact hp

/-- what the planning loop of one vehicle does, exactly: either nothing real, or one real charge
`load(target_power = power[0])` on the real battery, booked on connector, station and commands; the
simulated battery stays a copy of the real one -/
theorem chargeLoop_spec (ops : Ops α B) (R : B → B → Prop) (sl : SimLaw ops R) (env : Env α)
    (v : VehicleS α B) (ts : List (TS α)) (sorted : List (α × Nat)) (b0 : B) :
    ∀ (fuel : Nat) (st st' : VSt α B), R b0 st.sim →
      chargeLoop ops env v ts sorted fuel st = .ok st' →
      R b0 st'.sim ∧ st'.dis = st.dis ∧
      ((st'.bat = st.bat ∧ st'.gc = st.gc ∧ st'.cs = st.cs ∧ st'.cmds = st.cmds) ∨
       (∃ p0 bat' avg, st'.power.head? = some p0 ∧ p0 ≠ 0 ∧
          ops.load st.bat none none (some p0) = .ok (bat', avg) ∧ st'.bat = bat' ∧
          st'.gc = (st.gc.addLoad st.cs.id avg).1 ∧
          st'.cs = { st.cs with currentPower := st.cs.currentPower + avg })) := by
  intro fuel
  induction fuel with
  | zero => intro st st' _ h; simp [chargeLoop] at h
  | succ n ih =>
    intro st st' hr h
    unfold chargeLoop at h
    split at h
    · simp only [Except.ok.injEq] at h; subst h; exact ⟨hr, rfl, Or.inl ⟨rfl, rfl, rfl, rfl⟩⟩
    · rename_i cost startIdx hsorted
      simp only at h
      generalize ((if cost < env.priceThreshold then 1 else v.desiredSoc) - env.eps) = desired at h
      split at h
      · simp only [Except.ok.injEq] at h; subst h; exact ⟨hr, rfl, Or.inl ⟨rfl, rfl, rfl, rfl⟩⟩
      · simp only [bind, Except.bind] at h
        split at h
        · cases h
        · rename_i r1 hr1
          obtain ⟨pw1, sm1⟩ := r1
          have hR1 := naivePass_R ops R sl b0 st.cs v.minChargingPower ts _ st.power pw1 st.sim sm1 hr hr1
          simp only at h
          split at h
          · cases h
          · rename_i r2 hr2
            obtain ⟨pw2, sm2⟩ := r2
            have hR2 : R b0 sm2 := by
              split at hr2
              · exact bisect_R ops R sl b0 env.eps st.cs v.minChargingPower ts _ _ _ _ _ _ _ pw1 pw2 sm1 sm2 hR1 hr2
              · simp only [pure, Except.pure, Except.ok.injEq, Prod.mk.injEq] at hr2
                obtain ⟨_, rfl⟩ := hr2
                exact hR1
            simp only at h
            split at h
            · cases h
            · rename_i p0 hp0
              split at h
              · rename_i hcond
                split at h
                · cases h
                · rename_i r3 hr3
                  obtain ⟨bat', avg⟩ := r3
                  simp only [Except.ok.injEq] at h
                  subst h
                  simp only [Bool.and_eq_true, beq_iff_eq, Bool.not_eq_true'] at hcond
                  have hne : p0 ≠ 0 := by
                    intro h0
                    have := (isZero_iff p0).mpr h0
                    rw [this] at hcond
                    exact absurd hcond.2 (by simp)
                  refine ⟨hR2, rfl, Or.inr ⟨p0, bat', avg, hp0, hne, hr3, rfl, rfl, rfl⟩⟩
              · obtain ⟨h1, h2, h3⟩ := ih { st with sortedIdx := (samePrice env sorted st.sortedIdx cost startIdx).2, power := pw2, sim := sm2 } st' hR2 h
                exact ⟨h1, h2, h3⟩

/-! ### every planned power is an old entry or a clamped power -/

def ClampOrOld (cs : StationS α) (vmin : α) (old new : List α) : Prop :=
  ∀ x ∈ new, x ∈ old ∨ ∃ p, x = clampV cs vmin p

theorem ClampOrOld.refl (cs : StationS α) (vmin : α) (l : List α) : ClampOrOld cs vmin l l :=
  fun x hx => Or.inl hx

theorem ClampOrOld.trans {cs : StationS α} {vmin : α} {a b c : List α}
    (h1 : ClampOrOld cs vmin a b) (h2 : ClampOrOld cs vmin b c) : ClampOrOld cs vmin a c := by
  intro x hx
  rcases h2 x hx with h | h
  · exact h1 x h
  · exact Or.inr h

theorem ClampOrOld.set {cs : StationS α} {vmin : α} {a b : List α} (h : ClampOrOld cs vmin a b)
    (i : Nat) (p : α) : ClampOrOld cs vmin a (b.set i (clampV cs vmin p)) := by
  intro x hx
  rcases List.mem_or_eq_of_mem_set hx with hx | rfl
  · exact h x hx
  · exact Or.inr ⟨p, rfl⟩

theorem naivePass_clampOrOld (ops : Ops α B) (cs : StationS α) (vmin : α) (ts : List (TS α))
    (same : List Nat) (power0 power power' : List α) (sim sim' : B)
    (hp : ClampOrOld cs vmin power0 power)
    (h : naivePass ops cs vmin ts same power sim = .ok (power', sim')) :
    ClampOrOld cs vmin power0 power' := by
  unfold naivePass at h
  refine foldlM_inv _ (fun st => ClampOrOld cs vmin power0 st.1) ?_ same (power, sim) (power', sim') hp h
  intro s i s' hs hstep
  simp only [bind, Except.bind] at hstep
  split at hstep
  · cases hstep
  · split at hstep
    · cases hstep
    · simp only [pure, Except.pure, Except.ok.injEq] at hstep
      subst hstep
      exact hs.set i _

theorem bisectPass_clampOrOld (ops : Ops α B) (cs : StationS α) (vmin : α) (ts : List (TS α))
    (same : List Nat) (cur : α) (power0 power power' : List α) (sim sim' : B)
    (hp : ClampOrOld cs vmin power0 power)
    (h : bisectPass ops cs vmin ts same cur power sim = .ok (power', sim')) :
    ClampOrOld cs vmin power0 power' := by
  unfold bisectPass at h
  refine foldlM_inv _ (fun st => ClampOrOld cs vmin power0 st.1) ?_ same (power, sim) (power', sim') hp h
  intro s i s' hs hstep
  simp only [bind, Except.bind] at hstep
  split at hstep
  · cases hstep
  · split at hstep
    · cases hstep
    · simp only [pure, Except.pure, Except.ok.injEq] at hstep
      subst hstep
      exact hs.set i _

theorem bisect_clampOrOld (ops : Ops α B) (eps : α) (cs : StationS α) (vmin : α) (ts : List (TS α))
    (same : List Nat) (oldSoc desired : α) (power0 : List α) :
    ∀ (fuel : Nat) (minP maxP : α) (safe : Bool) (power power' : List α) (sim sim' : B),
      ClampOrOld cs vmin power0 power →
      bisect ops eps cs vmin ts same oldSoc desired fuel minP maxP safe power sim = .ok (power', sim') →
      ClampOrOld cs vmin power0 power' := by
  intro fuel
  induction fuel with
  | zero => intro minP maxP safe power power' sim sim' hp h; simp [bisect] at h
  | succ n ih =>
    intro minP maxP safe power power' sim sim' hp h
    unfold bisect at h
    split at h
    · simp only [bind, Except.bind] at h
      split at h
      · cases h
      · rename_i r hr
        obtain ⟨pw, sm⟩ := r
        have hpw := bisectPass_clampOrOld ops cs vmin ts same _ power0 power pw _ sm hp hr
        simp only at h
        split at h
        · exact ih _ _ _ pw power' sm sim' hpw h
        · exact ih _ _ _ pw power' sm sim' hpw h
    · simp only [Except.ok.injEq, Prod.mk.injEq] at h
      obtain ⟨rfl, _⟩ := h
      exact hp

/-- every entry of `power` after the planning loop is an entry from before or a clamped power (for
the station as it was before the loop) -/
theorem chargeLoop_clampOrOld (ops : Ops α B) (env : Env α) (v : VehicleS α B) (ts : List (TS α))
    (sorted : List (α × Nat)) (cs0 : StationS α) (power0 : List α) :
    ∀ (fuel : Nat) (st st' : VSt α B), st.cs = cs0 →
      ClampOrOld cs0 v.minChargingPower power0 st.power →
      chargeLoop ops env v ts sorted fuel st = .ok st' →
      ClampOrOld cs0 v.minChargingPower power0 st'.power := by
  intro fuel
  induction fuel with
  | zero => intro st st' _ _ h; simp [chargeLoop] at h
  | succ n ih =>
    intro st st' hcs hp h
    unfold chargeLoop at h
    split at h
    · simp only [Except.ok.injEq] at h; subst h; exact hp
    · rename_i cost startIdx hsorted
      simp only at h
      generalize ((if cost < env.priceThreshold then 1 else v.desiredSoc) - env.eps) = desired at h
      split at h
      · simp only [Except.ok.injEq] at h; subst h; exact hp
      · simp only [bind, Except.bind] at h
        split at h
        · cases h
        · rename_i r1 hr1
          obtain ⟨pw1, sm1⟩ := r1
          rw [hcs] at hr1
          have hp1 := naivePass_clampOrOld ops cs0 v.minChargingPower ts _ power0 st.power pw1 st.sim sm1 hp hr1
          simp only at h
          split at h
          · cases h
          · rename_i r2 hr2
            obtain ⟨pw2, sm2⟩ := r2
            have hp2 : ClampOrOld cs0 v.minChargingPower power0 pw2 := by
              split at hr2
              · rw [hcs] at hr2
                exact bisect_clampOrOld ops env.eps cs0 v.minChargingPower ts _ _ _ power0 _ _ _ _ pw1 pw2 sm1 sm2 hp1 hr2
              · simp only [pure, Except.pure, Except.ok.injEq, Prod.mk.injEq] at hr2
                obtain ⟨rfl, _⟩ := hr2
                exact hp1
            simp only at h
            split at h
            · cases h
            · rename_i p0 hp0
              split at h
              · split at h
                · cases h
                · simp only [Except.ok.injEq] at h
                  subst h
                  exact hp2
              · exact ih { st with sortedIdx := (samePrice env sorted st.sortedIdx cost startIdx).2, power := pw2, sim := sm2 } st' hcs hp2 h

/-! ### the forecast update -/

theorem updateTimesteps_nil (ops : Ops α B) (dl : α) (ts : List (TS α)) (sim : B) :
    updateTimesteps ops dl [] ts sim = .ok ts := by
  unfold updateTimesteps; rfl

/-- first entry of the updated forecast, for a positive planned power of the current timestep -/
theorem updateTimesteps_pos (ops : Ops α B) (dl : α) (p0 : α) (rest : List α) (ts ts' : List (TS α))
    (sim : B) (hp : 0 < p0) (h : updateTimesteps ops dl (p0 :: rest) ts sim = .ok ts') :
    ∃ t0 tss t0' tss' s a, ts = t0 :: tss ∧ ts' = t0' :: tss' ∧
      ops.load sim none none (some p0) = .ok (s, a) ∧ t0'.power = t0.power - a := by
  cases ts with
  | nil => simp [updateTimesteps] at h
  | cons t0 tss =>
    unfold updateTimesteps at h
    rw [if_pos hp] at h
    simp only [bind, Except.bind] at h
    split at h
    · cases h
    · rename_i r hr
      obtain ⟨s, a⟩ := r
      simp only at h
      split at h
      · cases h
      · rename_i r2 hr2
        simp only [Except.ok.injEq] at h
        exact ⟨t0, tss, _, r2, s, a, rfl, h.symm, hr, rfl⟩

/-- … and for a zero planned power: the first entry is unchanged -/
theorem updateTimesteps_zero (ops : Ops α B) (dl : α) (rest : List α) (ts ts' : List (TS α))
    (sim : B) (h : updateTimesteps ops dl ((0 : α) :: rest) ts sim = .ok ts') :
    ∃ t0 tss tss', ts = t0 :: tss ∧ ts' = t0 :: tss' := by
  cases ts with
  | nil => simp [updateTimesteps] at h
  | cons t0 tss =>
    unfold updateTimesteps at h
    rw [if_neg (lt_irrefl 0), if_neg (lt_irrefl 0)] at h
    simp only [bind, Except.bind] at h
    split at h
    · cases h
    · rename_i r2 hr2
      simp only [Except.ok.injEq] at h
      exact ⟨t0, tss, r2, rfl, h.symm⟩

/-! ### the vehicle loop keeps the forecast headroom below the real headroom -/

/-- invariant of `step_gc` across the vehicle loop and the surplus loop, for a connector without V2G
vehicles: limit `M`, load between the base load `L0` and `M`, forecast headroom of the current
timestep at most the real headroom, nobody discharging -/
structure GInv (M L0 : α) (gid : String) (g : GSt α B) : Prop where
  curMax : g.gc.curMax = M
  gcid : g.gc.id = gid
  lo : L0 ≤ g.gc.currentLoad
  hi : g.gc.currentLoad ≤ M
  fore : ∀ t0, g.ts[0]? = some t0 → t0.power ≤ M - g.gc.currentLoad
  dis : g.dis = []
  winv : WInv g.w
  nov2g : ∀ v ∈ g.w.vehicles, v.v2g = false

theorem vehicle?_mem (w : SWorld α B) (id : String) (v : VehicleS α B) (h : w.vehicle? id = some v) :
    v ∈ w.vehicles := by
  unfold SWorld.vehicle? at h
  exact List.mem_of_find?_eq_some h

theorem nov2g_set (w : SWorld α B) (v : VehicleS α B) (bat : B) (cs : StationS α)
    (h : ∀ u ∈ w.vehicles, u.v2g = false) (hv : v.v2g = false) :
    ∀ u ∈ ((w.setVehicle { v with bat := bat }).setStation cs).vehicles, u.v2g = false := by
  intro u hu
  unfold SWorld.setStation SWorld.setVehicle at hu
  simp only [List.mem_map] at hu
  obtain ⟨x, hx, rfl⟩ := hu
  split
  · exact hv
  · exact h x hx

theorem vehicleBody_GInv (ops : Ops α B) (law : BatLaw ops.toBatOps) (R : B → B → Prop)
    (sl : SimLaw ops R) (env : Env α) (M L0 : α) (gid : String)
    (g g' : GSt α B) (vid : String) (hinv : GInv M L0 gid g)
    (h : vehicleBody ops env g vid = .ok g') : GInv M L0 gid g' := by
  have hW := vehicleBody_WInv ops law env g g' vid hinv.winv h
  unfold vehicleBody at h
  split at h
  · cases h
  · rename_i v hv
    have hvmem := vehicle?_mem _ _ _ hv
    have hv2g := hinv.nov2g v hvmem
    split at h
    · cases h
    · rename_i csId hcs
      split at h
      · cases h
      · rename_i cs hst
        obtain ⟨hsm, _⟩ := station?_some _ _ cs hst
        split at h
        · cases h
        · rename_i etd hetd
          simp only [bind, Except.bind] at h
          split at h
          · cases h
          · rename_i sorted hsorted
            split at h
            · cases h
            · rename_i st1 hch
              split at h
              · cases h
              rename_i st2 hst2
              rw [if_neg (by rw [hv2g]; simp)] at hst2
              simp only [pure, Except.pure, Except.ok.injEq] at hst2
              subst hst2
              -- facts about the planning loop
              obtain ⟨hR, hdis, hcase⟩ := chargeLoop_spec ops R sl env v g.ts sorted v.bat _ _ st1
                (sl.refl v.bat) hch
              have hco := chargeLoop_clampOrOld ops env v g.ts sorted cs (List.replicate sorted.length 0)
                _ _ st1 rfl (ClampOrOld.refl _ _ _) hch
              have hnonneg : ∀ x ∈ st1.power, 0 ≤ x := by
                intro x hx
                rcases hco x hx with hx0 | ⟨p, rfl⟩
                · rw [List.eq_of_mem_replicate hx0]
                · exact (clampPower_bounds _ _ _ _ _).1
              have hrestore : ops.setSoc st1.sim (ops.soc v.bat) = v.bat := sl.restore _ _ hR
              rw [hrestore] at h
              split at h
              · cases h
              · rename_i ts' hts
                simp only [Except.ok.injEq] at h
                subst h
                have hnv := nov2g_set g.w v st1.bat st1.cs hinv.nov2g hv2g
                have hdis' : st1.dis = [] := by rw [hdis]; exact hinv.dis
                rcases hcase with ⟨hb, hgc, hcs', hcm⟩ | ⟨p0, bat', avg, hhead, hne, hload, hb, hgc, hcs'⟩
                · -- nothing booked: the forecast can only shrink
                  refine ⟨by rw [hgc]; exact hinv.curMax, by rw [hgc]; exact hinv.gcid,
                    by rw [hgc]; exact hinv.lo, by rw [hgc]; exact hinv.hi, ?_, hdis', hW, hnv⟩
                  intro t0' ht0'
                  show t0'.power ≤ M - st1.gc.currentLoad
                  rw [hgc]
                  cases hpw : st1.power with
                  | nil =>
                    rw [hpw, updateTimesteps_nil] at hts
                    simp only [Except.ok.injEq] at hts
                    subst hts
                    exact hinv.fore t0' ht0'
                  | cons p0 rest =>
                    rw [hpw] at hts
                    have hp0 : 0 ≤ p0 := hnonneg p0 (by rw [hpw]; exact List.mem_cons_self ..)
                    rcases lt_or_eq_of_le hp0 with hpos | hzero
                    · obtain ⟨t0, tss, t0'', tss', s, a, hts0, hts1, hl, hpow⟩ :=
                        updateTimesteps_pos ops v.dischargeLimit p0 rest g.ts ts' v.bat hpos hts
                      subst hts1
                      simp only [List.getElem?_cons_zero, Option.some.injEq] at ht0'
                      subst ht0'
                      have hf := hinv.fore t0 (by rw [hts0]; simp)
                      have ha := (law.load_target _ _ _ _ hl).1
                      rw [hpow]; linarith
                    · subst hzero
                      obtain ⟨t0, tss, tss', hts0, hts1⟩ :=
                        updateTimesteps_zero ops v.dischargeLimit rest g.ts ts' v.bat hts
                      subst hts1
                      simp only [List.getElem?_cons_zero, Option.some.injEq] at ht0'
                      subst ht0'
                      exact hinv.fore _ (by rw [hts0]; simp)
                · -- one real charge: the forecast is reduced by exactly the power booked
                  obtain ⟨hc1, hc2, hc3, _⟩ := addLoad_currentLoad g.gc cs.id avg
                  have hmem : p0 ∈ st1.power := List.mem_of_mem_head? hhead
                  have hp0 : 0 < p0 := lt_of_le_of_ne (hnonneg p0 hmem) (Ne.symm hne)
                  cases hpw : st1.power with
                  | nil => rw [hpw] at hhead; simp at hhead
                  | cons q rest =>
                    rw [hpw] at hhead hts
                    simp only [List.head?_cons, Option.some.injEq] at hhead
                    subst hhead
                    obtain ⟨t0, tss, t0'', tss', s, a, hts0, hts1, hl, hpow⟩ :=
                      updateTimesteps_pos ops v.dischargeLimit q rest g.ts ts' v.bat hp0 hts
                    rw [hload] at hl
                    simp only [Except.ok.injEq, Prod.mk.injEq] at hl
                    obtain ⟨_, rfl⟩ := hl
                    have hf := hinv.fore t0 (by rw [hts0]; simp)
                    have hav := law.load_target _ _ _ _ hload
                    -- the charged power is within the forecast headroom
                    have hhd := chargeLoop_headroom ops law env v g.ts t0 (by rw [hts0]; simp) sorted _ _ st1
                      (by intro p hp; cases hn : sorted.length with
                          | zero => simp [hn] at hp
                          | succ n =>
                            simp only [hn, List.replicate_succ, List.getElem?_cons_zero, Option.some.injEq] at hp
                            subst hp; exact le_max_left _ _) hch
                    simp only at hhd
                    refine ⟨by rw [hgc, hc2]; exact hinv.curMax, by rw [hgc, hc3]; exact hinv.gcid,
                      by rw [hgc, hc1]; linarith [hinv.lo, hav.1], ?_, ?_, hdis', hW, hnv⟩
                    · show st1.gc.currentLoad ≤ M
                      have := hhd.2.1
                      rcases le_total 0 t0.power with h0 | h0
                      · rw [max_eq_right h0] at this; linarith [hinv.hi]
                      · rw [max_eq_left h0] at this; linarith [hinv.hi]
                    · intro t0' ht0'
                      show t0'.power ≤ M - st1.gc.currentLoad
                      subst hts1
                      simp only [List.getElem?_cons_zero, Option.some.injEq] at ht0'
                      subst ht0'
                      rw [hgc, hc1, hpow]; linarith

/-! ### surplus loop, battery loop, forecast start -/

/-- invariant of the surplus loop (the forecast is no longer needed) -/
structure GInv2 (M L0 : α) (gid : String) (g : GSt α B) : Prop where
  curMax : g.gc.curMax = M
  gcid : g.gc.id = gid
  lo : L0 ≤ g.gc.currentLoad
  hi : g.gc.currentLoad ≤ M
  dis : g.dis = []
  winv : WInv g.w

theorem GInv.toGInv2 {M L0 : α} {gid : String} {g : GSt α B} (h : GInv M L0 gid g) :
    GInv2 M L0 gid g := ⟨h.curMax, h.gcid, h.lo, h.hi, h.dis, h.winv⟩

theorem currentLoadExcl_nil (g : GcS α) : currentLoadExcl g [] = g.currentLoad := by
  unfold currentLoadExcl GcS.currentLoad
  simp

theorem surplusBody_GInv2 (ops : Ops α B) (law : BatLaw ops.toBatOps) (env : Env α) (M L0 : α)
    (gid : String) (heps : 0 ≤ env.eps) (hM : 0 ≤ M) (g g' : GSt α B) (vid : String)
    (hinv : GInv2 M L0 gid g) (h : surplusBody ops env g vid = .ok g') : GInv2 M L0 gid g' := by
  have hW := surplusBody_WInv ops law env g g' vid hinv.winv h
  unfold surplusBody at h
  split at h
  · cases h
  · rename_i v hv
    split at h
    · cases h
    · rename_i csId hcs
      split at h
      · cases h
      · rename_i cs hst
        simp only at h
        split at h
        · rename_i hcond
          simp only [bind, Except.bind] at h
          split at h
          · cases h
          · rename_i r hr
            obtain ⟨bat', avg⟩ := r
            simp only [Except.ok.injEq] at h
            subst h
            rw [hinv.dis, currentLoadExcl_nil] at hcond hr
            obtain ⟨hc1, hc2, hc3, _⟩ := addLoad_currentLoad g.gc csId avg
            have hneg : g.gc.currentLoad < 0 := by linarith [hcond.1]
            have hcl := clampV_le cs v.minChargingPower (-g.gc.currentLoad)
            rw [max_eq_right (by linarith)] at hcl
            have hl := law.load_max _ _ _ _ hr
            have hpw : 0 ≤ clampV cs v.minChargingPower (-g.gc.currentLoad) :=
              (clampPower_bounds _ _ _ _ _).1
            rw [max_eq_left hpw] at hl
            refine ⟨by show (g.gc.addLoad csId avg).1.curMax = M; rw [hc2]; exact hinv.curMax,
              by show (g.gc.addLoad csId avg).1.id = gid; rw [hc3]; exact hinv.gcid,
              by show L0 ≤ (g.gc.addLoad csId avg).1.currentLoad; rw [hc1]; linarith [hinv.lo, hl.1],
              by show (g.gc.addLoad csId avg).1.currentLoad ≤ M; rw [hc1]; linarith [hl.2],
              hinv.dis, hW⟩
        · simp only [Except.ok.injEq] at h
          subst h; exact hinv

theorem batteryBody_noop (ops : Ops α B) (env : Env α) (nCheap : Option Nat) (g g' : GSt α B)
    (bid : String) (hno : ∀ b ∈ g.w.batteries, b.parent ≠ g.gc.id)
    (h : batteryBody ops env nCheap g bid = .ok g') : g' = g := by
  unfold batteryBody at h
  split at h
  · cases h
  · rename_i b hb
    have hbm : b ∈ g.w.batteries := List.mem_of_find?_eq_some hb
    have hne := hno b hbm
    rw [if_pos (by simpa using hne)] at h
    simp only [Except.ok.injEq] at h
    exact h.symm

theorem vehicleBody_batteries (ops : Ops α B) (env : Env α) (g g' : GSt α B) (vid : String)
    (h : vehicleBody ops env g vid = .ok g') : g'.w.batteries = g.w.batteries := by
  unfold vehicleBody at h
  split at h
  · cases h
  · split at h
    · cases h
    · split at h
      · cases h
      · split at h
        · cases h
        · simp only [bind, Except.bind] at h
          split at h
          · cases h
          · split at h
            · cases h
            · split at h
              · cases h
              · split at h
                · cases h
                · simp only [Except.ok.injEq] at h
                  subst h; rfl

theorem surplusBody_batteries (ops : Ops α B) (env : Env α) (g g' : GSt α B) (vid : String)
    (h : surplusBody ops env g vid = .ok g') : g'.w.batteries = g.w.batteries := by
  unfold surplusBody at h
  split at h
  · cases h
  · split at h
    · cases h
    · split at h
      · cases h
      · simp only at h
        split at h
        · simp only [bind, Except.bind] at h
          split at h
          · cases h
          · simp only [Except.ok.injEq] at h
            subst h; rfl
        · simp only [Except.ok.injEq] at h
          subst h; rfl

theorem peekEvents_future (gid : String) (now : Int) (evs : List (FEvent α)) (f : Fore α)
    (h : ∀ e ∈ evs, now < e.start) : peekEvents gid now evs f = (evs, f) := by
  cases evs with
  | nil => rfl
  | cons e rest =>
    unfold peekEvents
    rw [if_pos (h e (List.mem_cons_self ..))]

theorem buildTimesteps_prefix (ops : Ops α B) (env : Env α) (gc : GcS α)
    (table : Option (List (List α))) :
    ∀ (n idx : Nat) (cur : Int) (evs : List (FEvent α)) (f : Fore α) (acc ts : List (TS α)),
      buildTimesteps ops env gc table n idx cur evs f acc = .ok ts → ∃ more, ts = acc ++ more := by
  intro n
  induction n with
  | zero =>
    intro idx cur evs f acc ts h
    simp only [buildTimesteps, Except.ok.injEq] at h
    exact ⟨[], by simp [h]⟩
  | succ n ih =>
    intro idx cur evs f acc ts h
    unfold buildTimesteps at h
    simp only [bind, Except.bind] at h
    split at h
    · cases h
    · obtain ⟨more, hm⟩ := ih _ _ _ _ _ _ h
      rw [List.append_assoc] at hm
      exact ⟨_, hm⟩

/-- with all queued events in the future (the base class has consumed the due ones), the forecast of
the current timestep is `cur_max_power − current load` -/
theorem timestepsOf_head (ops : Ops α B) (env : Env α) (gc : GcS α) (ts : List (TS α))
    (hfut : ∀ e ∈ env.events, env.now < e.start) (h : timestepsOf ops env gc = .ok ts) :
    ∀ t0, ts[0]? = some t0 → t0.power = gc.curMax - gc.currentLoad := by
  unfold timestepsOf at h
  simp only at h
  cases hn : (env.horizon / env.interval).toNat with
  | zero =>
    rw [hn] at h
    simp only [buildTimesteps, Except.ok.injEq] at h
    subst h
    intro t0 ht0; simp at ht0
  | succ n =>
    rw [hn] at h
    unfold buildTimesteps at h
    rw [peekEvents_future gc.id env.now env.events _ hfut] at h
    simp only [bind, Except.bind, beq_self_eq_true, if_true] at h
    obtain ⟨more, hm⟩ := buildTimesteps_prefix ops env gc _ _ _ _ _ _ _ _ h
    intro t0 ht0
    rw [hm] at ht0
    simp only [List.nil_append, List.cons_append, List.getElem?_cons_zero, Option.some.injEq] at ht0
    subst ht0
    rfl

/-! ### `step_gc` for a connector without stationary battery and without V2G vehicles -/

theorem stepGc_limit (ops : Ops α B) (law : BatLaw ops.toBatOps) (R : B → B → Prop)
    (sl : SimLaw ops R) (env : Env α) (w w' : SWorld α B) (gcId : String)
    (cmds : List (String × α)) (gc : GcS α) (hgc : w.gc? gcId = some gc)
    (heps : 0 ≤ env.eps) (hM : 0 ≤ gc.curMax) (hbase : gc.currentLoad ≤ gc.curMax)
    (hfut : ∀ e ∈ env.events, env.now < e.start) (hW : WInv w)
    (hnov2g : ∀ v ∈ w.vehicles, v.v2g = false) (hnobat : ∀ b ∈ w.batteries, b.parent ≠ gcId)
    (h : stepGc ops env w gcId = .ok (w', cmds)) :
    ∀ g' ∈ w'.gcs, g'.id = gcId →
      gc.currentLoad ≤ g'.currentLoad ∧ g'.currentLoad ≤ gc.curMax ∧ g'.curMax = gc.curMax := by
  obtain ⟨_, hgid⟩ := gc?_some w gcId gc hgc
  unfold stepGc at h
  rw [hgc] at h
  simp only [bind, Except.bind] at h
  split at h
  · cases h
  · rename_i vs hvs
    split at h
    · cases h
    · rename_i vids hvids
      split at h
      · cases h
      · rename_i ts hts
        split at h
        · cases h
        · rename_i g1 hg1
          split at h
          · cases h
          · rename_i g2 hg2
            split at h
            · cases h
            · rename_i nCheap hn
              split at h
              · cases h
              · rename_i g3 hg3
                simp only [Except.ok.injEq, Prod.mk.injEq] at h
                obtain ⟨rfl, _⟩ := h
                have hhead := timestepsOf_head ops env gc ts hfut hts
                have h0 : GInv gc.curMax gc.currentLoad gcId (⟨w, gc, ts, [], []⟩ : GSt α B) ∧
                    (⟨w, gc, ts, [], []⟩ : GSt α B).w.batteries = w.batteries :=
                  ⟨⟨rfl, hgid, le_refl _, hbase, fun t0 ht0 => by rw [hhead t0 ht0], rfl, hW, hnov2g⟩, rfl⟩
                have h1 := foldlM_inv _
                  (fun g => GInv gc.curMax gc.currentLoad gcId g ∧ g.w.batteries = w.batteries)
                  (fun g vid g' hg hstep =>
                    ⟨vehicleBody_GInv ops law R sl env _ _ gcId g g' vid hg.1 hstep,
                     by rw [vehicleBody_batteries ops env g g' vid hstep]; exact hg.2⟩)
                  vids _ g1 h0 hg1
                have h2 := foldlM_inv _
                  (fun g => GInv2 gc.curMax gc.currentLoad gcId g ∧ g.w.batteries = w.batteries)
                  (fun g vid g' hg hstep =>
                    ⟨surplusBody_GInv2 ops law env _ _ gcId heps hM g g' vid hg.1 hstep,
                     by rw [surplusBody_batteries ops env g g' vid hstep]; exact hg.2⟩)
                  vids _ g2 ⟨h1.1.toGInv2, h1.2⟩ hg2
                have h3 : g3 = g2 :=
                  foldlM_inv _ (fun g => g = g2)
                    (fun g bid g' hg hstep => by
                      subst hg
                      refine batteryBody_noop ops env nCheap g g' bid ?_ hstep
                      intro b hb
                      rw [h2.2] at hb
                      rw [h2.1.gcid]
                      exact hnobat b hb)
                    _ _ g3 rfl hg3
                subst h3
                intro g' hg' hid
                unfold SWorld.setGc at hg'
                simp only [List.mem_map] at hg'
                obtain ⟨x, hx, rfl⟩ := hg'
                split at hid
                · rename_i hxid
                  rw [if_pos hxid]
                  exact ⟨h2.1.lo, h2.1.hi, h2.1.curMax⟩
                · rename_i hxid
                  exfalso
                  apply hxid
                  rw [h2.1.gcid]
                  simpa using hid

end SpiceEv.BalancedMarket
