/-
C11 — Signal-driven strategies follow their signal.

Proved here: the individual-schedule floor.  The power a vehicle gets under `schedule (individual)`
is `min (clamp (schedule + add)) headroom` with `add` taken from a bisection over `[0, station
maximum]`; since the bisection only returns points of its bracket (`add ≥ 0`) and the clamp is
monotone, the offered power is never below `min (clamp schedule) headroom`.  The bisection is a
terminating loop with the stated iteration bound (also used by C17).
Window/price following of peak_load_window, flex_window and balanced_market and the cost
comparison with greedy are decided by the oracle on real runs (harness/c11.py).
-/
import SpiceEv.Properties.C05
import SpiceEv.Model.Bisect
import Mathlib.Tactic.Positivity
set_option linter.unusedSectionVars false
namespace SpiceEv
variable {α : Type} [Field α] [LinearOrder α] [IsStrictOrderedRing α]

/-- the bisection only ever returns a point of its initial bracket -/
theorem C11_bisect_bracket (ok : α → Bool) (eps : α) (fuel : Nat) (lo hi : α) (last : Option α)
    (hle : lo ≤ hi) (hlast : ∀ x, last = some x → lo ≤ x ∧ x ≤ hi)
    (L H : α) (hL : L ≤ lo) (hH : hi ≤ H) (r : Option α)
    (h : bisect ok eps fuel lo hi last = some r) : ∀ x, r = some x → L ≤ x ∧ x ≤ H := by
  induction fuel generalizing lo hi last with
  | zero =>
    unfold bisect at h
    split at h
    · cases h
    · simp only [Option.some.injEq] at h
      subst h
      intro x hx
      obtain ⟨h1, h2⟩ := hlast x hx
      exact ⟨le_trans hL h1, le_trans h2 hH⟩
  | succ f ih =>
    unfold bisect at h
    split at h
    · have hmid1 : lo ≤ (hi + lo) / ((2 : Nat) : α) := by
        rw [le_div_iff₀ (by norm_num)]; push_cast; linarith
      have hmid2 : (hi + lo) / ((2 : Nat) : α) ≤ hi := by
        rw [div_le_iff₀ (by norm_num)]; push_cast; linarith
      simp only at h
      split at h
      · exact ih lo _ _ hmid1 (by intro x hx; cases hx; exact ⟨hmid1, le_refl _⟩) hL
          (le_trans hmid2 hH) h
      · exact ih _ hi _ hmid2 (by intro x hx; cases hx; exact ⟨le_refl _, hmid2⟩)
          (le_trans hL hmid1) hH h
    · simp only [Option.some.injEq] at h
      subst h
      intro x hx
      obtain ⟨h1, h2⟩ := hlast x hx
      exact ⟨le_trans hL h1, le_trans h2 hH⟩

/-- the bisection ends within `fuel` iterations as soon as `hi − lo ≤ ε·2^fuel`
(iteration bound of every `while max − min > EPS` loop; C17) -/
theorem C11_bisect_terminates (ok : α → Bool) (eps : α) (heps : 0 < eps) (fuel : Nat) (lo hi : α)
    (last : Option α) (hw : hi - lo ≤ eps * 2 ^ fuel) :
    bisect ok eps fuel lo hi last ≠ none := by
  induction fuel generalizing lo hi last with
  | zero =>
    unfold bisect
    simp only [pow_zero, mul_one] at hw
    simp [not_lt.mpr hw]
  | succ f ih =>
    unfold bisect
    split
    · simp only
      have hhalf : ∀ a b : α, b - a ≤ eps * 2 ^ (f + 1) → (b - a) / 2 ≤ eps * 2 ^ f := by
        intro a b hab
        rw [div_le_iff₀ (by norm_num)]
        calc b - a ≤ eps * 2 ^ (f + 1) := hab
          _ = eps * 2 ^ f * 2 := by ring
      split
      · apply ih
        have : (hi + lo) / ((2 : Nat) : α) - lo = (hi - lo) / 2 := by push_cast; ring
        rw [this]; exact hhalf lo hi hw
      · apply ih
        have : hi - (hi + lo) / ((2 : Nat) : α) = (hi - lo) / 2 := by push_cast; ring
        rw [this]; exact hhalf lo hi hw
    · simp

/-- **Individual-schedule floor.** With any additional power `add ≥ 0` (in particular the one
returned by the bisection over `[0, cs.max_power]`), the power offered to the vehicle is at least
the scheduled power as far as station limits and connector headroom allow. -/
theorem C11_individual_floor (schedule add left cur mx mn vmin : α) (hadd : 0 ≤ add) :
    min (clampPower schedule cur mx mn vmin) left ≤ individualPower schedule add left cur mx mn vmin := by
  unfold individualPower
  rw [pymin_eq]
  exact min_le_min (C05_clamp_mono schedule (schedule + add) cur mx mn vmin (by linarith)) (le_refl _)

/-- …and the additional power found by the bisection of `charge_individually` is non-negative and
at most the station maximum. -/
theorem C11_add_power_bracket (ok : α → Bool) (eps : α) (fuel : Nat) (csMax : α) (h0 : 0 ≤ csMax)
    (r : Option α) (h : bisect ok eps fuel 0 csMax none = some r) :
    ∀ add, r = some add → 0 ≤ add ∧ add ≤ csMax :=
  C11_bisect_bracket ok eps fuel 0 csMax none h0 (by intro x hx; cases hx) 0 csMax (le_refl _)
    (le_refl _) r h

/-- Non-vacuity: bisecting `x ≥ 3` on `[0, 8]` with ε = 1 ends after 3 iterations at 3. -/
example : bisect (fun x : ℚ => decide (3 ≤ x)) 1 3 0 8 none = some (some 3) := by decide +kernel

end SpiceEv
