/-
C17 — Every simulation terminates and fails loudly: the part of the property that lies in the
constructor and in front of the run loop (model: Model/ScenarioCtor.lean, tied to the real
`Scenario.__init__`, `strategy.class_from_str`, `Strategy.__init__` by the exact streams of
harness/s_ctor.py inside `./check C17`).

* the simulated time frame: with `n_intervals` the stop time is start + n·Δ; with `stop_time` the
  step count is ⌊(stop − start)/Δ⌋, i.e. the unique n with start + n·Δ ≤ stop < start + (n+1)·Δ;
  exactly one of the two keys must be given, otherwise the constructor raises AssertionError; a zero
  interval with `stop_time` raises ZeroDivisionError (never an endless loop);
* together with `C17_run_shape`: a run that is not labelled aborted reports exactly that many steps;
* `class_from_str` is total on the eight documented names (in any letter case) and raises otherwise;
* every option handed to `Strategy.__init__` becomes an attribute of the strategy object.
-/
import SpiceEv.Proofs.ScenarioCtor
import SpiceEv.Properties.C17
set_option linter.unusedSectionVars false
set_option linter.unusedSimpArgs false
namespace SpiceEv
open SpiceEv.ScenarioCtor

/-- **`n_intervals` given ⇒ stop = start + n·Δ** (wall-clock arithmetic, tzinfo kept), and the
configured count is taken over unchanged. Holds for every Δ, also zero or negative. -/
theorem C17_ctor_n_given (t : TimeIn) (o : TimeOut) (n : Int)
    (h : timeInit t = .ok o) (hn : t.nIntervals = some (.int n)) :
    o.n = n ∧ o.stop = o.start.add (o.interval * n) ∧
    o.stop.local = o.start.local + o.interval * n ∧ o.stop.offset = o.start.offset := by
  obtain ⟨sj, ij, n', td, _, _, _, _, _, _, hm, hadd, hon⟩ := timeInit_n_given h hn
  have hr := tdMul_int_ok hm
  injection hr with h1 h2
  subst h1 h2
  have ha := (dtAdd_ok hadd).1
  refine ⟨hon, ha, ?_, ?_⟩
  · rw [ha]; rfl
  · rw [ha]; rfl

/-- **`stop_time` given ⇒ n = ⌊(stop − start)/Δ⌋.** For Δ > 0 the count is the unique integer with
start + n·Δ ≤ stop < start + (n+1)·Δ; `span` is `stop − start` as Python computes it (UTC instants
for aware times, wall clock for naive ones; a mix is a TypeError and never gets here). -/
theorem C17_ctor_stop_given (t : TimeIn) (o : TimeOut)
    (h : timeInit t = .ok o) (hn : t.nIntervals = none) (hpos : 0 < o.interval) :
    ∃ span, o.stop.sub? o.start = some span ∧
      o.interval * o.n ≤ span ∧ span < o.interval * (o.n + 1) ∧
      ∀ m : Int, o.interval * m ≤ span → span < o.interval * (m + 1) → m = o.n := by
  obtain ⟨sj, ij, stj, delta, _, _, _, _, _, _, _, _, hd, hf⟩ := timeInit_stop_given h hn
  obtain ⟨_, hfd⟩ := tdFloorDiv_ok hf
  refine ⟨delta, dtSub_ok hd, ?_, ?_, ?_⟩
  · rw [hfd]; exact (floorDiv_bracket delta o.interval hpos).1
  · rw [hfd]; exact (floorDiv_bracket delta o.interval hpos).2
  · intro m h1 h2
    rw [hfd]; exact (floorDiv_unique delta o.interval m hpos h1 h2).symm

/-- `stop_time` given, any sign of Δ: the interval is not zero (else ZeroDivisionError, see
`C17_ctor_zero_interval_raises`) and the count is Python's floor division of the two timedeltas —
for a negative Δ or a stop before the start this is a count ≤ 0 and the loop body never runs
(`C17_ctor_step_count`). -/
theorem C17_ctor_stop_given_floor (t : TimeIn) (o : TimeOut)
    (h : timeInit t = .ok o) (hn : t.nIntervals = none) :
    o.interval ≠ 0 ∧ ∃ span, o.stop.sub? o.start = some span ∧ o.n = floorDiv span o.interval := by
  obtain ⟨sj, ij, stj, delta, _, _, _, _, _, _, _, _, hd, hf⟩ := timeInit_stop_given h hn
  obtain ⟨hne, hfd⟩ := tdFloorDiv_ok hf
  exact ⟨hne, delta, dtSub_ok hd, hfd⟩

/-- **Exactly one of the two keys.** A constructed scenario had exactly one of `stop_time` /
`n_intervals` present and not null. -/
theorem C17_ctor_exactly_one_key (t : TimeIn) (o : TimeOut) (h : timeInit t = .ok o) :
    (t.stopTime.isNone' = true ∧ t.nIntervals.isNone' = false) ∨
    (t.stopTime.isNone' = false ∧ t.nIntervals.isNone' = true) := by
  have hx : Bool.xor t.stopTime.isNone' t.nIntervals.isNone' = true := by
    cases hn : t.nIntervals with
    | none =>
      obtain ⟨_, _, _, _, _, _, _, _, _, hx, _⟩ := timeInit_stop_given h hn
      rw [hn] at hx; exact hx
    | some nj =>
      obtain ⟨_, _, _, _, _, _, _, _, _, hx, _⟩ := timeInit_n_given h hn
      rw [hn] at hx; exact hx
  revert hx
  cases t.stopTime.isNone' <;> cases t.nIntervals.isNone' <;> simp

/-- … and when both or neither are given (start time and interval being fine) the assertion fires:
the constructor raises AssertionError. -/
theorem C17_ctor_assertion_fires (t : TimeIn) (sj ij : J) (s : Option DateTime) (iv : Int)
    (hs : t.hasScenario = true) (hst : t.startTime = some sj) (hiso : isoOf t.startParsed sj = .ok s)
    (hiv : t.interval = some ij) (hint : intervalOf ij = .ok iv)
    (hboth : t.stopTime.isNone' = t.nIntervals.isNone') :
    timeInit t = .error .assertion := by
  unfold timeInit
  have hx : Bool.xor t.stopTime.isNone' t.nIntervals.isNone' = false := by
    rw [hboth]; cases t.nIntervals.isNone' <;> rfl
  simp [hs, hst, hiso, hiv, hint, hx, bind, Except.bind, pure, Except.pure]

/-- A zero interval together with `stop_time` raises ZeroDivisionError in the constructor (the
simulation is never started with a step that does not advance time). -/
theorem C17_ctor_zero_interval_raises (t : TimeIn) (sj ij stj : J) (s e : DateTime)
    (hs : t.hasScenario = true) (hst : t.startTime = some sj)
    (hiso : isoOf t.startParsed sj = .ok (some s))
    (hiv : t.interval = some ij) (hint : intervalOf ij = .ok 0)
    (hn : t.nIntervals = none) (hsp : t.stopTime = some stj) (hnn : Key.isNone' (some stj) = false)
    (hiso2 : isoOf t.stopParsed stj = .ok (some e)) (hcmp : e.offset.isSome = s.offset.isSome) :
    timeInit t = .error .zeroDivision := by
  unfold timeInit
  have hx : Bool.xor (Key.isNone' t.stopTime) (Key.isNone' t.nIntervals) = true := by
    rw [hsp, hn, hnn]; rfl
  have hsub : ∃ d, dtSub e s = .ok d := by
    unfold dtSub DateTime.sub?
    cases he : e.offset <;> cases hso : s.offset <;> simp_all
  obtain ⟨d, hd⟩ := hsub
  rw [hsp, hn] at hx
  simp [hs, hst, hiso, hiv, hint, hx, hn, hsp, hiso2, hd, tdFloorDiv, bind, Except.bind, pure,
    Except.pure]

/-- **Step count.** A run over the constructed frame that is not labelled aborted reports exactly
the configured number of steps: `n_intervals` (resp. the floor quotient) when it is ≥ 0, none when
it is negative (`range(n)` is empty). -/
theorem C17_ctor_step_count {α : Type} [Field α] [LinearOrder α] [IsStrictOrderedRing α]
    (t : TimeIn) (o : TimeOut) (_h : timeInit t = .ok o)
    (eps : α) (genKeys : List String) (obs : List (StepObs α))
    (hobs : rangeLen o.n ≤ obs.length)
    (hok : (run eps genKeys (rangeLen o.n) obs).aborted = false) :
    let out := run eps genKeys (rangeLen o.n) obs
    out.stepI = rangeLen o.n ∧ (0 ≤ o.n → (out.stepI : Int) = o.n) ∧ (o.n ≤ 0 → out.stepI = 0) := by
  intro out
  have hs := (C17_run_shape eps genKeys (rangeLen o.n) obs hobs).2.2.2.2 hok
  refine ⟨hs, ?_, ?_⟩
  · intro h0
    show ((run eps genKeys (rangeLen o.n) obs).stepI : Int) = o.n
    rw [hs]; unfold rangeLen; exact Int.toNat_of_nonneg h0
  · intro h0
    show (run eps genKeys (rangeLen o.n) obs).stepI = 0
    rw [hs]; unfold rangeLen; exact Int.toNat_eq_zero.mpr h0

/-- **`class_from_str` is total on the eight documented names** and returns the class of that
module … -/
theorem C17_class_from_str_documented :
    classFromStr "greedy" = .ok "Greedy" ∧ classFromStr "balanced" = .ok "Balanced" ∧
    classFromStr "balanced_market" = .ok "BalancedMarket" ∧
    classFromStr "distributed" = .ok "Distributed" ∧
    classFromStr "peak_load_window" = .ok "PeakLoadWindow" ∧
    classFromStr "peak_shaving" = .ok "PeakShaving" ∧
    classFromStr "flex_window" = .ok "FlexWindow" ∧ classFromStr "schedule" = .ok "Schedule" := by
  decide +kernel

/-- … and raises otherwise: a name that is accepted is, lower-cased, one of the eight module names,
and the class returned is the one that module defines. -/
theorem C17_class_from_str_only_documented (name cls : String) (h : classFromStr name = .ok cls) :
    (String.ofList (name.toList.map Char.toLower), cls) ∈
      [("greedy", "Greedy"), ("balanced", "Balanced"), ("balanced_market", "BalancedMarket"),
       ("distributed", "Distributed"), ("peak_load_window", "PeakLoadWindow"),
       ("peak_shaving", "PeakShaving"), ("flex_window", "FlexWindow"), ("schedule", "Schedule")] := by
  unfold classFromStr at h
  simp only at h
  split at h
  · cases h
  · rename_i c hl
    split at h
    · rename_i hc
      injection h with h
      subst h
      have hc' : c = some (String.ofList ((splitUnderscore name.toList).map capitalizePy).flatten) := by
        simpa using hc
      subst hc'
      generalize String.ofList (name.toList.map Char.toLower) = m at hl ⊢
      generalize String.ofList ((splitUnderscore name.toList).map capitalizePy).flatten = k at hl ⊢
      simp only [strategyModules, List.lookup] at hl
      repeat' split at hl
      all_goals first
        | (injection hl with hl; injection hl with hl; subst hl; simp_all)
        | (injection hl with hl; cases hl)
        | cases hl
    · cases h

/-- Letter case does not matter (examples of the case handling: `lower()` for the module,
`capitalize()` per `_`-separated part for the class). -/
theorem C17_class_from_str_case :
    classFromStr "GREEDY" = .ok "Greedy" ∧ classFromStr "Peak_Load_WINDOW" = .ok "PeakLoadWindow" ∧
    classFromStr "peakshaving" = .error .moduleNotFound ∧
    classFromStr "balanced__market" = .error .moduleNotFound ∧
    classFromStr "__init__" = .error .attribute ∧ classFromStr "" = .error .moduleNotFound := by
  decide +kernel

/-- **Legacy keys.** After the renaming block `fixed_load` is what `external_load` held (if present),
`local_generation` what `energy_feed_in` held (if present). -/
theorem C17_ctor_legacy_rename {β : Type} (ev : List (String × β)) :
    (∀ v, ev.lookup "external_load" = some v → (renameEvents ev).lookup "fixed_load" = some v) ∧
    (∀ v, ev.lookup "energy_feed_in" = some v → (renameEvents ev).lookup "local_generation" = some v) ∧
    (ev.lookup "external_load" = none → ev.lookup "energy_feed_in" = none → renameEvents ev = ev) := by
  refine ⟨?_, ?_, ?_⟩
  · intro v hv
    unfold renameEvents
    simp only [hv]
    split
    · rw [dictSet_lookup_ne _ _ _ _ (by decide)]; exact dictSet_lookup_self _ _ _
    · exact dictSet_lookup_self _ _ _
  · intro v hv
    unfold renameEvents
    have hkeep : ∀ d : List (String × β), d.lookup "energy_feed_in" = some v →
        (match d.lookup "energy_feed_in" with
          | some v => dictSet d "local_generation" v
          | none => d).lookup "local_generation" = some v := by
      intro d hd; simp only [hd]; exact dictSet_lookup_self _ _ _
    cases hx : ev.lookup "external_load" with
    | none => simp only; exact hkeep ev hv
    | some x =>
      simp only
      apply hkeep
      rw [dictSet_lookup_ne _ _ _ _ (by decide)]; exact hv
  · intro h1 h2
    unfold renameEvents
    simp only [h1, h2]

/-- **Options of `Strategy.__init__`.** Every option handed over becomes an attribute of the strategy
object with the value given (no option is dropped, renamed or rejected — unknown names included),
except the three attributes the constructor sets afterwards ("can not be set by user"); the
`CONCURRENCY` option (default 1) scales every station's maximum power. `hnd`: the options are a dict
(distinct keys). -/
theorem C17_strategy_init_options (startLocal iv : Int) (conc : Option Rat)
    (opts : List (String × String)) (stations : List Rat) (r : StratInit)
    (h : strategyInit startLocal (some iv) conc opts stations = .ok r)
    (hnd : (opts.map (·.1)).Nodup) :
    (∀ k v, (k, v) ∈ opts → k ≠ "interval" → k ≠ "negative_soc_tracker" → k ≠ "desired_counter" →
      k ≠ "margin_counter" → r.attrs.lookup k = some (.tok v)) ∧
    r.attrs.lookup "negative_soc_tracker" = some .empty ∧
    r.attrs.lookup "desired_counter" = some (.int 0) ∧
    r.attrs.lookup "margin_counter" = some (.int 0) ∧
    r.stationPower = stations.map (fun p => conc.getD 1 * p) ∧ iv ≠ 0 := by
  unfold strategyInit at h
  simp only [pure, Except.pure, bind, Except.bind] at h
  split at h
  · cases h
  · rename_i hiv
    injection h with h
    subst h
    refine ⟨?_, ?_, ?_, ?_, rfl, hiv⟩
    · intro k v hmem h1 h2 h3 h4
      simp only
      rw [dictSet_lookup_ne _ _ _ _ h4, dictSet_lookup_ne _ _ _ _ h3, dictSet_lookup_ne _ _ _ _ h2]
      exact optFold_lookup_mem iv opts _ k v hmem hnd h1
    · simp only
      rw [dictSet_lookup_ne _ _ _ _ (by decide), dictSet_lookup_ne _ _ _ _ (by decide)]
      exact dictSet_lookup_self _ _ _
    · simp only
      rw [dictSet_lookup_ne _ _ _ _ (by decide)]
      exact dictSet_lookup_self _ _ _
    · exact dictSet_lookup_self _ _ _

/-- A missing `interval` option is a TypeError, a zero interval a ZeroDivisionError
(`timedelta(hours=1) / self.interval`): the strategy is never constructed with a step that does not
advance time. -/
theorem C17_strategy_init_interval (startLocal : Int) (conc : Option Rat)
    (opts : List (String × String)) (stations : List Rat) :
    strategyInit startLocal none conc opts stations = .error .type ∧
    strategyInit startLocal (some 0) conc opts stations = .error .zeroDivision := by
  constructor <;> rfl

/-- **`simulate.simulate` starts a run only for a documented strategy name** (exact spelling, lower
case) and an existing input file; otherwise it raises (NotImplementedError / SystemExit / KeyError)
before any scenario is built. -/
theorem C17_simulate_only_documented (input : InputState) (args : List (String × J)) (name : String)
    (opts : List (String × J)) (h : simulateOptions input args = .ok (name, opts)) :
    input = .present ∧ name ∈ STRATEGIES ∧
    (args.lookup "strategy" = none → name = "greedy") := by
  unfold simulateOptions at h
  cases input <;> simp only at h <;> try cases h
  refine ⟨rfl, ?_⟩
  cases hS : simStrategy args with
  | error e => rw [hS] at h; cases h
  | ok nm =>
    rw [hS] at h
    cases hO : simOptions args with
    | error e => rw [hO] at h; cases h
    | ok o =>
      rw [hO] at h
      injection h with h; injection h with h1 h2
      subst h1
      unfold simStrategy at hS
      split at hS
      · injection hS with e; subst e; exact ⟨by decide, fun _ => rfl⟩
      · rename_i s0 hs0
        split at hS
        · rename_i hc
          injection hS with e; subst e
          exact ⟨by simpa using hc, fun hn => by rw [hn] at hs0; cases hs0⟩
        · cases hS
      · cases hS

/-- without strategy options the run gets exactly the eight fixed options, in this order -/
theorem C17_simulate_base_options (args : List (String × J)) (name : String)
    (opts : List (String × J)) (h : simulateOptions .present args = .ok (name, opts))
    (hso : args.lookup "strategy_option" = none) :
    opts.map (·.1) = ["cost_calculation", "margin", "save_timeseries", "save_soc", "save_results",
                      "testing", "timing", "visual"] := by
  unfold simulateOptions at h
  simp only at h
  cases hS : simStrategy args with
  | error e => rw [hS] at h; cases h
  | ok nm =>
    rw [hS] at h
    have hnull : argGet args "strategy_option" = .null := by
      unfold argGet; rw [hso]; rfl
    have hO : simOptions args = .ok (baseOptions args) := by
      unfold simOptions
      simp only [hnull, jTruthy, Bool.not_false, ↓reduceIte]
    rw [hO] at h
    injection h with h; injection h with h1 h2
    subst h2; rfl

/-- **`util.sanitize`**: the result contains none of the characters to be removed, keeps all other
characters in order, and sanitising twice changes nothing. -/
theorem C17_sanitize (s chars : List Char) :
    let bad := if chars.isEmpty then "</|\\>:\"?*".toList else chars
    (∀ c ∈ sanitize s chars, c ∉ bad) ∧ sanitize s chars = s.filter (fun c => !bad.contains c) ∧
    sanitize (sanitize s chars) chars = sanitize s chars ∧
    ((∀ c ∈ s, c ∉ bad) → sanitize s chars = s) := by
  intro bad
  have hdef : sanitize s chars = s.filter (fun c => !bad.contains c) := rfl
  have hdef2 : ∀ l, sanitize l chars = l.filter (fun c => !bad.contains c) := fun _ => rfl
  clear_value bad
  refine ⟨?_, hdef, ?_, ?_⟩
  · intro c hc
    rw [hdef, List.mem_filter] at hc
    simpa using hc.2
  · rw [hdef2 (sanitize s chars), hdef, List.filter_filter]
    congr 1
    funext c; simp
  · intro h
    rw [hdef, List.filter_eq_self]
    intro c hc
    simpa using h c hc

/-- **Config lines.** A line of a cfg file sets an option only if it has exactly one `=` and — when
the options are checked against the argument parser, as simulate.py does — its key is one of the
parser's options; comment lines and blank lines are skipped; anything else raises (ValueError for a
line that cannot be split, `Exception` for an unknown option, ArgumentError / ValueError / TypeError
for a value the option does not accept): a misspelt option is never silently ignored. -/
theorem C17_cfg_line (actions : Option (List Action)) (line : List Char) (parsed : Option J) :
    (((pyStrip line).head? = some '#' ∨ pyStrip line = []) → cfgLine actions line parsed = .ok none) ∧
    (∀ k v, cfgLine actions line parsed = .ok (some (k, v)) →
      (splitEq (pyStrip line)).length = 2 ∧
      (∀ acts, actions = some acts → ∃ a ∈ acts, a.dest = k)) := by
  constructor
  · intro h
    unfold cfgLine
    simp only [pure, Except.pure, bind, Except.bind]
    rcases h with h | h
    · simp [h]
    · simp [h]
  · intro k v h
    unfold cfgLine at h
    simp only [pure, Except.pure, bind, Except.bind] at h
    split at h
    · cases h
    · split at h
      · cases h
      · split at h
        · rename_i k0 v0 hsp
          refine ⟨by rw [hsp]; rfl, ?_⟩
          intro acts hacts
          subst hacts
          simp only at h
          split at h
          · cases h
          · rename_i a hfind
            split at h
            · cases h
            · injection h with h; injection h with h; injection h with h1 h2
              subst h1
              refine ⟨a, List.mem_of_find?_eq_some hfind, ?_⟩
              have := List.find?_some hfind
              simpa using this
        · cases h

/-! ### Non-vacuity -/

/-- 2020-01-01T00:00 naive, Δ = 15 min, `n_intervals` = 4 ⇒ stop = 01:00 -/
example :
    timeInit ⟨true, some (.dstr "s" true), ⟨63713520000000000, none⟩, some (.int 15), some (.int 4),
      none, default⟩ =
    .ok ⟨⟨63713520000000000, none⟩, 900000000, 4, ⟨63713523600000000, none⟩⟩ := by decide +kernel

/-- `stop_time` 01:01 ⇒ 4 steps (off-grid stop: floor) -/
example :
    timeInit ⟨true, some (.dstr "s" true), ⟨63713520000000000, none⟩, some (.int 15), none,
      some (.dstr "e" true), ⟨63713523660000000, none⟩⟩ =
    .ok ⟨⟨63713520000000000, none⟩, 900000000, 4, ⟨63713523660000000, none⟩⟩ := by decide +kernel

/-- both keys ⇒ AssertionError; zero interval with `stop_time` ⇒ ZeroDivisionError; missing interval ⇒ KeyError -/
example :
    timeInit ⟨true, some (.dstr "s" true), ⟨63713520000000000, none⟩, some (.int 15), some (.int 4),
      some (.dstr "e" true), ⟨63713523660000000, none⟩⟩ = .error .assertion ∧
    timeInit ⟨true, some (.dstr "s" true), ⟨63713520000000000, none⟩, some (.int 0), none,
      some (.dstr "e" true), ⟨63713523660000000, none⟩⟩ = .error .zeroDivision ∧
    timeInit ⟨true, some (.dstr "s" true), ⟨63713520000000000, none⟩, none, some (.int 4),
      none, default⟩ = .error .key := by decide +kernel

/-- the step-count theorem's hypotheses are satisfiable: a 2-step frame with two clean observations -/
example :
    let o1 : StepObs ℚ := ⟨false, false, [⟨"GC", 10, 10, [("load", some 4)]⟩], []⟩
    (run (1/100000 : ℚ) [] (rangeLen 2) [o1, o1]).aborted = false ∧
    (run (1/100000 : ℚ) [] (rangeLen 2) [o1, o1]).stepI = 2 := by decide +kernel

example : renameEvents [("external_load", 1), ("fixed_load", 2), ("energy_feed_in", 3)] =
    [("external_load", 1), ("fixed_load", 1), ("energy_feed_in", 3), ("local_generation", 3)] := by
  decide +kernel

example :
    (match simulateOptions .present [("strategy", .str "balanced"),
        ("strategy_option", .arr [.arr [.str "CONCURRENCY", .str "0.5"]])] with
      | .ok (n, o) => (n, o.map (·.1), match o.lookup "CONCURRENCY" with | some (.flt q) => some q | _ => none)
      | .error _ => ("", [], none)) =
    ("balanced", ["cost_calculation", "margin", "save_timeseries", "save_soc", "save_results", "testing",
      "timing", "visual", "CONCURRENCY"], some (1/2)) ∧
    (match simulateOptions .present [("strategy", .str "Greedy")] with
      | .error .notImplemented => true | _ => false) = true ∧
    (match simulateOptions .missing [] with | .error .systemExit => true | _ => false) = true := by
  decide +kernel

example :
    (match cfgLine (some simulateActions) "  strategy = balanced ".toList (some (.str "balanced")) with
      | .ok (some (k, .str v)) => k == "strategy" && v == "balanced" | _ => false) = true ∧
    (match cfgLine (some simulateActions) "# strategy = balanced".toList none with
      | .ok none => true | _ => false) = true ∧
    (match cfgLine (some simulateActions) "stategy = balanced".toList (some (.str "balanced")) with
      | .error .other => true | _ => false) = true ∧
    (match cfgLine (some simulateActions) "strategy = fastest".toList none with
      | .error .argument => true | _ => false) = true ∧
    (match cfgLine none "a = b = c".toList none with | .error .value => true | _ => false) = true := by
  decide +kernel

example : sanitize "a<b:c".toList [] = "abc".toList ∧ sanitize "abc".toList ['b'] = "ac".toList := by
  decide +kernel

example :
    (strategyInit 0 (some 900000000) (some (1/2)) [("HORIZON", "v"), ("margin", "w")] [11, 22]).map
      (fun r => (r.attrs.lookup "HORIZON", r.attrs.lookup "margin", r.stationPower)) =
    .ok (some (.tok "v"), some (.tok "w"), [11/2, 11]) := by decide +kernel

end SpiceEv
