/-
Feed-in side of the connector limit with V2G-capable vehicles (after repair BM1).
-/
import SpiceEv.Proofs.StratBalancedMarketBatLimitStep
import SpiceEv.Proofs.StratBalancedMarketBook
set_option linter.unusedSectionVars false
set_option linter.unusedSimpArgs false
set_option linter.unusedVariables false
namespace SpiceEv.BalancedMarket
open SpiceEv
variable {α B : Type} [Field α] [LinearOrder α] [IsStrictOrderedRing α]

/-- the power noted for the current timestep by the V2G search is at least the connector's discharge
limit `timesteps[0].power − 2·max_power` (or 0) -/
def SPL (t0 : TS α) (sp : Option α) : Prop :=
  ∀ x, sp = some x → min (t0.power - 2 * t0.maxPower) 0 ≤ x

theorem compStep_SPL (ops : Ops α B) (v : VehicleS α B) (cs : StationS α) (ts : List (TS α)) (t0 : TS α)
    (realSoc v2gCost : α) (c c' : CompSt α B) (e : α × Nat) (hc : SPL t0 c.simPower)
    (h : compStep ops v cs ts realSoc v2gCost c e = .ok c') : SPL t0 c'.simPower := by
  unfold compStep at h
  split at h
  · simp only [Except.ok.injEq] at h; subst h; exact hc
  · split at h
    · simp only [Except.ok.injEq] at h; subst h; exact hc
    · split at h
      · simp only [Except.ok.injEq] at h; subst h; exact hc
      · simp only [bind, Except.bind] at h
        split at h
        · cases h
        · rename_i t ht
          split at h
          · cases h
          · rename_i cur hcur
            split at h
            · cases h
            · simp only [Except.ok.injEq] at h
              subst h
              intro x hx
              simp only at hx
              split at hx
              · simp only [Option.some.injEq] at hx
                subst hx
                exact le_trans (min_le_right _ _) (clampPower_bounds _ _ _ _ _).1
              · exact hc x hx

theorem applyV2g_lower (ops : Ops α B) (law : BatLaw ops.toBatOps) (v : VehicleS α B)
    (st st' : VSt α B) (sp M : α) (hlo : -M ≤ st.gc.currentLoad)
    (hsp : -M - st.gc.currentLoad ≤ sp)
    (h : applyV2g ops v st sp = .ok st') :
    -M ≤ st'.gc.currentLoad ∧ st'.gc.curMax = st.gc.curMax := by
  obtain ⟨a, hcall, hb, _⟩ := applyV2g_book ops v st st' sp h
  refine ⟨?_, hb.curMax⟩
  rw [hb.load]
  unfold applyV2g at h
  split at h
  · rename_i hpos
    rcases hcall with ⟨_, ha⟩ | ⟨p, hl⟩ | ⟨p, hl⟩ | ⟨m, out, hu, ha⟩
    · rw [ha]; linarith
    · have := (law.load_target _ _ _ _ hl).1; linarith
    · have := (law.load_max _ _ _ _ hl).1; linarith
    · -- the call of this branch is a load: read it off the definition
      simp only [bind, Except.bind] at h
      split at h
      · cases h
      · rename_i r hr
        simp only [Except.ok.injEq] at h
        have hl := (law.load_target _ _ _ _ hr).1
        have : st'.gc.currentLoad = st.gc.currentLoad + r.2 := by
          rw [← h]
          exact (addLoad_currentLoad st.gc st.cs.id r.2).1
        rw [hb.load] at this
        linarith
  · split at h
    · rename_i hneg
      simp only [bind, Except.bind] at h
      split at h
      · cases h
      · rename_i r hr
        simp only [Except.ok.injEq] at h
        have hu := law.unload_max _ _ _ _ _ hr
        rw [max_eq_left (by linarith : (0 : α) ≤ -sp)] at hu
        have : st'.gc.currentLoad = st.gc.currentLoad + -r.2 := by
          rw [← h]
          exact (addLoad_currentLoad st.gc st.cs.id (-r.2)).1
        rw [hb.load] at this
        linarith [hu.2]
    · simp only [Except.ok.injEq] at h
      have : st'.gc.currentLoad = st.gc.currentLoad + 0 := by
        rw [← h]
        exact (addLoad_currentLoad st.gc st.cs.id 0).1
      rw [hb.load] at this
      linarith

/-- **the V2G search respects the feed-in limit** whenever the forecast of the current timestep is at
least the connector's real headroom (`max_power − load ≤ timesteps[0].power`) -/
theorem v2gLoop_lower (ops : Ops α B) (law : BatLaw ops.toBatOps) (env : Env α) (v : VehicleS α B)
    (ts : List (TS α)) (t0 : TS α) (h0 : ts[0]? = some t0) (sorted : List (α × Nat)) (M : α) (hM : 0 ≤ M)
    (htm : t0.maxPower = M) :
    ∀ (k : Nat) (st st' : VSt α B), -M ≤ st.gc.currentLoad → M - st.gc.currentLoad ≤ t0.power →
      v2gLoop ops env v ts sorted k st = .ok st' →
      -M ≤ st'.gc.currentLoad ∧ st'.gc.curMax = st.gc.curMax := by
  intro k
  induction k with
  | zero => intro st st' hlo _ h; simp only [v2gLoop, Except.ok.injEq] at h; subst h; exact ⟨hlo, rfl⟩
  | succ k ih =>
    intro st st' hlo hfore h
    unfold v2gLoop at h
    split at h
    · simp only [Except.ok.injEq] at h; subst h; exact ⟨hlo, rfl⟩
    · simp only [bind, Except.bind] at h
      split at h
      · cases h
      · rename_i r hr
        obtain ⟨v2gCost, v2gTs⟩ := r
        simp only at h
        split at h
        · simp only [Except.ok.injEq] at h; subst h; exact ⟨hlo, rfl⟩
        · split at h
          · cases h
          · rename_i t ht
            split at h
            · cases h
            · rename_i sim hsim
              split at h
              · cases h
              · rename_i c hc
                have h2 : ((2 : Nat) : α) = 2 := by norm_num
                have hinit : SPL t0 (if v2gTs == 0 then some (pymin (pymax (pymax
                    (t.power - ((2 : Nat) : α) * t.maxPower)
                    (-(st.cs.maxPower + st.cs.currentPower))) (-(ops.unloadMaxPower st.bat))) 0)
                    else none) := by
                  intro x hx
                  split at hx
                  · rename_i hz
                    have hz' : v2gTs = 0 := by simpa using hz
                    subst hz'
                    have htt : t = t0 := by
                      unfold lget at ht
                      rw [h0] at ht
                      simp only [Except.ok.injEq] at ht
                      exact ht.symm
                    subst htt
                    simp only [Option.some.injEq] at hx
                    subst hx
                    simp only [pymin_eq, pymax_eq, h2]
                    apply le_min
                    · exact le_trans (min_le_left _ _) (le_trans (le_max_left _ _) (le_max_left _ _))
                    · exact min_le_right _ _
                  · cases hx
                have hcinv : SPL t0 c.simPower :=
                  foldlM_inv _ (fun c => SPL t0 c.simPower)
                    (fun c e c' hc' hstep => compStep_SPL ops v st.cs ts t0 _ _ c c' e hc' hstep)
                    _ _ c hinit hc
                split at h
                · rename_i sp hsp
                  split at hsp
                  · rename_i hb
                    have hx := hcinv sp hsp
                    have hbound : -M - st.gc.currentLoad ≤ sp := by
                      refine le_trans ?_ hx
                      apply le_min
                      · rw [htm]; linarith
                      · linarith
                    have := applyV2g_lower ops law v _ st' sp M (by simp only [hb, if_true]; exact hlo)
                      (by simp only [hb, if_true]; exact hbound) h
                    simp only [hb, if_true] at this
                    exact this
                  · cases hsp
                · have := ih _ st' (by split <;> exact hlo) (by split <;> exact hfore) h
                  refine ⟨this.1, ?_⟩
                  rw [this.2]
                  split <;> rfl

end SpiceEv.BalancedMarket
