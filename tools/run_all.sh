#!/bin/bash
# tools/run_all.sh <quick|thorough> <seed> : every registered check once, one summary line each
tier=${1:-quick}; seed=${2:-0}
cd "$(dirname "$0")/.."
for i in $(seq -w 1 20); do
  VERIF_SEED=$seed timeout 7200 ./check C$i --tier $tier | grep -E "^VIOL|OK tier|FAIL tier|HARNESS"
  echo "C$i rc=${PIPESTATUS[0]}"
done
