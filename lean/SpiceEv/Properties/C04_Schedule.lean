/-
C04 (grid-connector power limit) for the charging strategy `schedule`
(spice_ev/strategies/schedule.py, model: Model/StratSchedule.lean).
-/
import SpiceEv.Proofs.StratSchedule
set_option linter.unusedSectionVars false
namespace SpiceEv
open SpiceEv.Sched
variable {α B : Type} [Field α] [LinearOrder α] [IsStrictOrderedRing α]

/-- **schedule (individual) never breaks the connector limit, in either direction.**
For any battery obeying `Sched.Law` (0 ≤ average power ≤ requested power — C01/C02), any number of
connectors, stations, vehicles and stationary batteries, any future events, schedules and targets:
if before the strategy step every connector's load (fixed load − generation) is within
`± cur_max_power`, then after the whole `Schedule.step` in the `individual` sub-strategy
(`charge_individually` with its look-ahead and additional power, then
`utilize_stationary_batteries`) it still is.  No well-formedness hypothesis is needed. -/
theorem C04_schedule_individual_limit (ops : Ops α B) (law : Law ops) (env : Env α)
    (heps : 0 ≤ env.eps) (hc : env.collective = false) (w w' : SWorld α B) (st st' : CState α)
    (cmds : List (String × α))
    (h0 : ∀ g ∈ w.gcs, -g.curMax ≤ g.currentLoad ∧ g.currentLoad ≤ g.curMax)
    (h : step ops env w st = .ok (w', st', cmds)) :
    ∀ g ∈ w'.gcs, -g.curMax ≤ g.currentLoad ∧ g.currentLoad ≤ g.curMax := by
  obtain ⟨w1, h1, h2, _⟩ := step_individual_ok ops env hc w w' st st' cmds h
  have hw0 : Within (resetStations w) := by intro g hg; exact h0 g (by simpa using hg)
  have hw1 := chargeIndividually_within ops law env _ w1 cmds hw0 h1
  exact utilizeBatteries_within ops law env heps w1 w' hw1 h2

/-- Non-vacuity: the example world satisfies the hypothesis, the step succeeds, the vehicle gets
3 kW schedule + 3 kW additional power found by the bisection (the connector is driven to its limit
of 10 kW up to the bisection's tolerance) and the stationary battery then brings the connector back to its 6 kW target. -/
example :
    (∀ g ∈ exWorld.gcs, -g.curMax ≤ g.currentLoad ∧ g.currentLoad ≤ g.curMax) ∧
    (match step toyOps exEnv exWorld exState with
     | .ok r => r.2.2.map (·.1) == ["CS1"] && r.2.2.all (fun kv => decide (kv.2 ≤ 6 ∧ 6 - 1/1000 ≤ kv.2)) &&
         r.1.gcs.all (fun g => decide (g.currentLoad ≤ 6 + 1/1000 ∧ 6 - 1/1000 ≤ g.currentLoad))
     | .error _ => false) = true := by
  refine ⟨?_, by decide +kernel⟩
  intro g hg
  simp only [exWorld, List.mem_singleton] at hg
  subst hg
  simp only [GcS.currentLoad, List.foldl]
  norm_num

/-- **schedule (collective) never breaks the connector limit outside the core standing time.**
For any battery obeying `Sched.Law`, any world: when the current time is outside the core standing
time, `Schedule.step` in the `collective` sub-strategy — `charge_vehicles` (surplus from local
generation only), `charge_vehicles_after_core_standing_time` if `overcharge_necessary` is set
(balanced charging off schedule; every vehicle is offered at most `cur_max_power − current load`),
then `utilize_stationary_batteries` — keeps every connector within `± cur_max_power`. -/
theorem C04_schedule_collective_outside_core (ops : Ops α B) (law : Law ops) (env : Env α)
    (heps : 0 ≤ env.eps) (hc : env.collective = true)
    (hout : dtWithinCoreStandingTime env.now env.cst = .ok false)
    (w w' : SWorld α B) (st st' : CState α) (cmds : List (String × α))
    (h0 : ∀ g ∈ w.gcs, -g.curMax ≤ g.currentLoad ∧ g.currentLoad ≤ g.curMax)
    (h : step ops env w st = .ok (w', st', cmds)) :
    ∀ g ∈ w'.gcs, -g.curMax ≤ g.currentLoad ∧ g.currentLoad ≤ g.curMax :=
  step_collective_outside_within ops law env heps hc hout w w' st st' cmds h0 h

/-- **schedule (collective) never breaks the connector limit inside the core standing time** (code
repaired by fixes/SCH2.diff, SCH3.diff, SCH4.diff).  For any battery obeying `Sched.Law` and a world
with one connector (asserted by the class for this sub-strategy): `Schedule.step` inside the core
standing time — with or without the evaluation at its first step, excess branch or on-schedule branch
with its retry loop, the V2G pass with any number of V2G-capable vehicles in charge and discharge
windows, then the battery pass; whatever target, schedule, forecast and battery reserve — keeps the
connector within `± cur_max_power`.  This replaces the former `…_core_partial` and
`…_core_draw_partial`: their last exclusion (feed-in by the V2G pass, mechanism C) is closed by SCH4,
which bounds a discharge window by `min(|target − load|, cur_max_power + load)`. -/
theorem C04_schedule_collective_core_limit (ops : Ops α B) (law : Law ops) (env : Env α)
    (heps : 0 ≤ env.eps) (hc : env.collective = true)
    (hin : dtWithinCoreStandingTime env.now env.cst = .ok true)
    (w w' : SWorld α B) (st st' : CState α) (cmds : List (String × α)) (g0 : GcS α)
    (hg : w.gcs = [g0])
    (h0 : ∀ g ∈ w.gcs, -g.curMax ≤ g.currentLoad ∧ g.currentLoad ≤ g.curMax)
    (h : step ops env w st = .ok (w', st', cmds)) :
    ∀ g ∈ w'.gcs, -g.curMax ≤ g.currentLoad ∧ g.currentLoad ≤ g.curMax :=
  step_collective_core_full ops law env heps hc hin w w' st st' cmds g0 hg h0 h

/-- **schedule (collective) never breaks the connector limit** — at any time, in either direction
(repaired code, one connector): the union of `C04_schedule_collective_outside_core` and
`C04_schedule_collective_core_limit`.  With `C04_schedule_individual_limit` this is the second
sentence of C04 for the strategy `schedule` in both sub-strategies. -/
theorem C04_schedule_collective_limit (ops : Ops α B) (law : Law ops) (env : Env α)
    (heps : 0 ≤ env.eps) (hc : env.collective = true) (inside : Bool)
    (hd : dtWithinCoreStandingTime env.now env.cst = .ok inside)
    (w w' : SWorld α B) (st st' : CState α) (cmds : List (String × α)) (g0 : GcS α)
    (hg : w.gcs = [g0])
    (h0 : ∀ g ∈ w.gcs, -g.curMax ≤ g.currentLoad ∧ g.currentLoad ≤ g.curMax)
    (h : step ops env w st = .ok (w', st', cmds)) :
    ∀ g ∈ w'.gcs, -g.curMax ≤ g.currentLoad ∧ g.currentLoad ≤ g.curMax := by
  cases inside with
  | true => exact step_collective_core_full ops law env heps hc hd w w' st st' cmds g0 hg h0 h
  | false => exact step_collective_outside_within ops law env heps hc hd w w' st st' cmds h0 h

/-- **Former witness of mechanism (C), now within the limit.**  Net load −8 kW (6 kW fixed load, 14 kW
generation) on the 10 kW connector, target 5 kW, a discharge window, a V2G-capable vehicle above its
desired SoC: before SCH4 the V2G pass discharged 4 kW (`|target − load| = 13 kW` allowed) and the
connector ended at −12 kW; the repaired pass discharges the 2 kW of feed-in headroom and the connector
ends at −10 kW (below its −8 kW base load, so the pass did discharge). -/
example :
    (∀ g ∈ exWorldFeed.gcs, -g.curMax ≤ g.currentLoad ∧ g.currentLoad ≤ g.curMax) ∧
    (match step toyOps (exEnvC 5) exWorldFeed exStateFeed with
     | .ok r => r.1.gcs.all (fun g => decide (-g.curMax ≤ g.currentLoad ∧ g.currentLoad < -g.curMax + 1/100))
     | .error _ => false) = true := by
  refine ⟨?_, by decide +kernel⟩
  intro g hg
  simp only [exWorldFeed, List.mem_singleton] at hg
  subst hg
  simp only [GcS.currentLoad, List.foldl]
  norm_num

/-- Non-vacuity with a V2G vehicle: target 6 kW, a V2G-capable vehicle above its desired SoC in a
charge window; the V2G pass runs (the vehicle is charged towards the target) and the connector ends
at most at its 10 kW limit, above its 4 kW fixed load. -/
example :
    (match step toyOps (exEnvC 6) exWorldV2G ⟨true, false, [2, 2], [true, true], 4, [("v1", 0)], [("v1", 0)], 0⟩ with
     | .ok r => r.1.gcs.all (fun g => decide (g.currentLoad ≤ g.curMax ∧ 4 < g.currentLoad)) &&
                r.1.vehicles.any (·.v2g)
     | .error _ => false) = true := by decide +kernel

/-- Non-vacuity, on-schedule branch: target 6 kW ≤ limit 10 kW, 2 kW allotted (6 − 4 kW fixed load);
the step succeeds and the connector ends at its 6 kW target. -/
example :
    (match step toyOps (exEnvC 6) exWorldC ⟨true, false, [2, 2], [true, true], 4, [("v1", 12)], [("v1", 0)], 0⟩ with
     | .ok r => r.1.gcs.all (fun g => decide (g.currentLoad ≤ 6 ∧ 6 - 1/1000 ≤ g.currentLoad))
     | .error _ => false) = true := by decide +kernel

/-- **Former witness, excess branch (mechanism A), now within the limit.**  Fixed load 4 kW on a 10 kW
connector, target 4 kW, nothing allotted to the first hour, the vehicle is expected to fall short by
0.3 SoC: before SCH2 the step ended at about 15 kW; the repaired excess branch charges the vehicle with
the connector headroom of 6 kW and the connector ends at its 10 kW limit (above its 4 kW base load, so
the branch did charge). -/
example :
    (∀ g ∈ exWorldC.gcs, -g.curMax ≤ g.currentLoad ∧ g.currentLoad ≤ g.curMax) ∧
    (match step toyOps (exEnvC 4) exWorldC exStateExcess with
     | .ok r => r.1.gcs.all (fun g => decide (g.currentLoad ≤ g.curMax ∧ g.curMax - 1/100 < g.currentLoad))
     | .error _ => false) = true := by
  refine ⟨?_, by decide +kernel⟩
  intro g hg
  simp only [exWorldC, exWorld, List.mem_singleton] at hg
  subst hg
  simp only [GcS.currentLoad, List.foldl]
  norm_num

/-- **Former witness, target above the limit (mechanism B), now within the limit.**  Same world with a
scheduled target of 12 kW on the 10 kW connector: before SCH3 the vehicle was given the 8 kW up to the
target (12 kW on the connector); now it is given the 6 kW headroom and the connector ends at 10 kW. -/
example :
    (match step toyOps (exEnvC 12) exWorldC exStateTarget with
     | .ok r => r.1.gcs.all (fun g => decide (g.currentLoad ≤ g.curMax ∧ g.curMax - 1/100 < g.currentLoad))
     | .error _ => false) = true := by decide +kernel

end SpiceEv
