/-
Small numeric helpers of the strategies: `util.clamp_power`, `util.get_cost`, and the per-battery
body of `Strategy.apply_battery_losses` (spice_ev/util.py, spice_ev/strategy.py).
-/
import SpiceEv.Py
namespace SpiceEv

section
variable {α : Type} [Add α] [Sub α] [Mul α] [Div α] [LT α] [LE α]
  [DecidableLT α] [DecidableLE α] [OfNat α 0] [OfNat α 1] [NatCast α]

/-- `util.clamp_power(power, vehicle, cs)`:
```
total_power = min(cs.current_power + power, cs.max_power)
if total_power < cs.min_power or total_power < vehicle.vehicle_type.min_charging_power: power = 0
else: power = max(min(power, cs.max_power - cs.current_power), 0)
``` -/
def clampPower (power csCurrent csMax csMin vehMin : α) : α :=
  let total := pymin (csCurrent + power) csMax
  if total < csMin ∨ total < vehMin then 0
  else pymax (pymin power (csMax - csCurrent)) 0

/-- cost description of a grid connector (`gc.cost`) -/
inductive GcCost (α : Type) where
  | fixed (value : α)
  | polynomial (coeffs : List α)
  deriving Repr

/-- `util.get_cost(x, cost_dict)` -/
def getCost (x : α) : GcCost α → α
  | .fixed v => v * x
  | .polynomial cs => (cs.foldl (fun (acc : α × α) c => (acc.1 + c * acc.2, acc.2 * x)) (0, 1)).1

/-- loss rates of a battery (`loss_rate` dict; missing keys are 0) -/
structure LossRate (α : Type) where
  relative : α
  fixedRelative : α
  fixedAbsolute : α

/-- body of `apply_battery_losses` for one battery with a truthy `loss_rate`:
`soc *= 1 - rel/100; soc -= fixed_rel/100; soc -= fixed_abs/capacity; soc = max(soc, 0)` -/
def applyLosses (soc capacity : α) (l : LossRate α) : α :=
  let s1 := soc * (1 - l.relative / ((100 : Nat) : α))
  let s2 := s1 - l.fixedRelative / ((100 : Nat) : α)
  let s3 := s2 - l.fixedAbsolute / capacity
  pymax s3 0

end
end SpiceEv
