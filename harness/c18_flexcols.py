"""C18, flex-band columns: the report of one connector with the band COMPUTED BY THE MODEL.

`report.generate_reports` calls `generate_flex_band(scenario, gcID)` (inside try/except Exception) before it
writes the four flex columns of the time series and the flex aggregates.  The `report` line of harness/c18.py
hands the real function's band to the report model as an input.  This module adds, for every connector with a
flex report, a second line `report_fb …` (lean/SpiceEv/Cmd/ReportFlex.lean): the report tokens followed by the
scenario state handed to the REAL `generate_flex_band` (rendered by `s_flexband.scenario_tokens` BEFORE the
call — the function steps a Strategy over the very components object, i.e. it mutates its input).  The model
computes the band itself (Float, Model/FlexBand.lean), converts every value to the exact rational of the
double, runs the report model on it, and prints the five report sections plus the band.  Compared:

* the five sections with the same implementation record as the `report` line (same comparator: flex cells
  `flex band min/base/max [kW]`, `max energy flex [kWh]`, avg flex per window, avg needed energy now come from
  the model's band),
* the band itself with the real function's return value, floats by value at the bit level (+0.0 == -0.0), the
  exception kind when the real function raised (`flex_bands[gc] = None` -> four integer zeros per row).
"""
import json
import warnings

import s_flexband
from wire import dec, err


def r_band(flex):
    return " | ".join([
        s_flexband.lst(flex["min"], s_flexband.f), s_flexband.lst(flex["base"], s_flexband.f),
        s_flexband.lst(flex["max"], s_flexband.f),
        s_flexband.lst(flex["intervals"], lambda iv: "%s %d" % (s_flexband.f(iv["needed"]),
                                                                iv["num_vehicles_present"]))])


def hook(obs):
    """wrap generate_schedule.generate_flex_band (generate_reports imports it from the module at call time);
    returns the restore function"""
    from spice_ev.generate import generate_schedule as gs
    orig = gs.generate_flex_band
    calls = obs.setdefault("flex_calls", {})

    def wrapped(scenario, gcID, core_standing_time=None):
        rec = {"tokens": None, "out": None}
        try:
            rec["tokens"] = s_flexband.scenario_tokens(scenario, gcID, core_standing_time, gs.EPS)
        except (ValueError, TypeError, AttributeError, KeyError, OverflowError) as e:
            rec["render_error"] = type(e).__name__     # state outside the flex-band protocol: no line
        calls[gcID] = rec
        try:
            flex = orig(scenario, gcID, core_standing_time)
        except Exception as e:
            rec["out"] = err(e)
            raise
        try:
            rec["out"] = r_band(flex)
        except (ValueError, TypeError, OverflowError) as e:
            rec["render_error"] = type(e).__name__
        return flex
    gs.generate_flex_band = wrapped

    def restore():
        gs.generate_flex_band = orig
    return restore


def add_line(obs, gc, report_line, im, lines, impl, stats):
    """append the `report_fb` line of connector gc (if the real function was called for it)"""
    rec = (obs.get("flex_calls") or {}).get(gc)
    if rec is None:
        return
    if rec.get("render_error") or rec["tokens"] is None or rec["out"] is None:
        stats.append("flexcols_not_rendered_" + str(rec.get("render_error")))
        return
    assert report_line.startswith("report q ")
    lines.append("report_fb q " + report_line[len("report q "):] + " " + rec["tokens"])
    im2 = dict(im)
    im2["fb"] = rec["out"]
    impl.append(json.dumps(im2))
    stats.append("flexcols_band_raised" if rec["out"].startswith("!") else "flexcols_band")


def compare_band(impl, model):
    if impl == model:
        return None
    a, b = impl.split(), model.split()
    if len(a) != len(b):
        return "flex band: different shape (%d vs %d tokens): %s // %s" % (len(a), len(b), impl[:200], model[:200])
    for i, (x, y) in enumerate(zip(a, b)):
        if x == y:
            continue
        if x.startswith("x") and y.startswith("x") and len(x) == 17 and len(y) == 17:
            if dec(x) == dec(y):
                continue
            return "flex band token %d: impl %r model %r" % (i, dec(x), dec(y))
        return "flex band token %d: impl %s model %s" % (i, x, y)
    return None


def compare(case, im, model, compare_report):
    secs = model.split(" || ")
    if len(secs) != 6:
        return "report_fb output malformed: %s" % model[:200]
    d = compare_band(im["fb"], secs[5])
    if d:
        return d
    rest = {k: v for k, v in im.items() if k != "fb"}
    d = compare_report(case, json.dumps(rest), " || ".join(secs[:5]))
    return ("with the model's flex band: " + d) if d else None
