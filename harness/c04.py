"""C04 — grid-connector power limit is never exceeded (see runcheck.py / runoracle.py)."""
import runcheck
import runoracle

PID = "C04"
CHUNK = 4
RULE = ("scenarios from the grammar in harness/scen.py (1-2 connectors, 1-6 vehicles, fixed load, generation, "
        "stationary batteries incl. unlimited, V2G, price/limit/window/schedule signals, on- and off-grid event "
        "times), every strategy; the real Scenario.run is executed with a run-time trace; non-trivial = the run "
        "reported at least one step; distinct = distinct (seed, index, strategy)")
ASSUMPTIONS = ["limit tolerance is the code's own EPS = 1e-5 kW",
               "sentence 2 is judged only at steps where fixed load and generation alone respect the limit"]
UNPROVED = ["C04(c) 'no strategy's decisions break the limit' has no theorem for the strategies whose allocation "
            "is not modelled in Lean; it is decided by the oracle on real runs of all eight strategies"]
compare = runcheck.compare


def gen_cases(tier, seed):
    return runcheck.gen_cases_for(PID, tier, seed, per_strategy_quick=250, per_strategy_thorough=2500)


def eval_case(case):
    return runcheck.eval_run(case, [runoracle.check_c04])
