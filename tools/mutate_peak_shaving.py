"""Mutation trial for the strategy model of peak_shaving (notes/S_PEAK_SHAVING.md, section 6).

usage: tools/mutate_peak_shaving.py <mutation name | all> [source repo (default $VERIF_REPO or /repo)]

The mutation texts are those of the REPAIRED file (fixes/PS1.diff, fixes/PS2.diff applied in the source repo).
Copies the repo to a temporary directory, applies ONE textual change to spice_ev/strategies/peak_shaving.py, runs
`./check S_PEAK_SHAVING` (quick, VERIF_SEED=0, VERIF_NPROC=3) against the copy and prints the verdict.  Every M* change
must be reported (exit 1), the refactors R1/R2 must stay quiet (exit 0; R2: dropping the `max(…, planned)` guard of PS1
is behaviour-preserving because `clamp_power` is monotone and idempotent and every plan is a `clamp_power` value).  Nothing outside the temporary copy is written
(apart from the check's own replays/ directory)."""
import os
import shutil
import subprocess
import sys
import tempfile

VERIF = os.path.dirname(os.path.dirname(os.path.abspath(__file__)))

MUTS = {
 "M1_faulty_ge_to_gt": ("if arrival_idx >= depart_idx:", "if arrival_idx > depart_idx:"),
 "M2_drop_clamp_fast_charge": ("            power = util.clamp_power(power, sim_vehicle, cs)\n            avg_power = sim_vehicle",
                               "            avg_power = sim_vehicle"),
 "M3_last_peak_off_by_one": ("last_peak_idx = timesteps_ahead - i\n", "last_peak_idx = timesteps_ahead - i - 1\n"),
 "M4_swap_forecast_weights": ('power_levels[i] = f*ts["cur_power"] + (1-f)*ts["fixed_load"]',
                              'power_levels[i] = (1-f)*ts["cur_power"] + f*ts["fixed_load"]'),
 "M5_depart_floor": ("                    depart_idx = -(-delta_t // self.interval)\n                vehicle_arrivals.append({\n                    \"vid\": vid,\n                    \"vehicle\": deepcopy(v),",
                     "                    depart_idx = delta_t // self.interval\n                vehicle_arrivals.append({\n                    \"vid\": vid,\n                    \"vehicle\": deepcopy(v),"),
 "M6_discharge_le_to_lt": ("elif delta_power <= -battery.min_charging_power:", "elif delta_power < -battery.min_charging_power:"),
 "M7_energy_eff_mul": ("energy /= self.ts_per_hour / eff", "energy /= self.ts_per_hour * eff"),
 "M8_no_soc_restore_loop2": ("                    max_power = charge_limit\n                battery.soc = old_soc\n", "                    max_power = charge_limit\n"),
 "M9_eps_boundary_levels": ("if power_levels[idx][0] - prev_power < self.EPS:", "if power_levels[idx][0] - prev_power <= 0:"),
 "M10_signal_other_gc": ("if event.grid_connector_id != gc_id or event.max_power is None:", "if event.max_power is None:"),
 "M11_surplus_sign": ('surplus = -min(timesteps[0]["cur_power"], 0) - used', 'surplus = -min(timesteps[0]["cur_power"], 0) + used'),
 "R2_offer_without_max_is_equivalent": ("                sim_vehicle.schedule = max(\n                    util.clamp_power(planned + surplus, sim_vehicle, cs), planned)",
                               "                sim_vehicle.schedule = util.clamp_power(planned + surplus, sim_vehicle, cs)"),
 "M14_used_not_booked": ("                used += max(avg_power - max(planned, 0), 0)\n", ""),
 "M15_battery_clamp_dropped": ("            cur_power = min(cur_power, max(gc.cur_max_power - gc.get_current_load(), 0))\n", ""),
 "M12_perfect_charge_dropped": ("                            sim_vehicles[event.vehicle_id].battery.soc = max(\n                                sim_vehicles[event.vehicle_id].battery.soc,\n                                sim_vehicles[event.vehicle_id].desired_soc)",
                                "                            pass"),
 "MI1_no_clamp_to_start": ("                event.signal_time = max(event.signal_time, start_time)\n", ""),
 "MI2_concat_order": ("all_events = self.events.vehicle_events + self.events.grid_operator_signals", "all_events = self.events.grid_operator_signals + self.events.vehicle_events"),
 "R1_refactor": None,
}
REFACTOR = [
 ("p = min(p, sim_vehicle.battery.loading_curve.max_power, cs.max_power)", "p = min(min(p, sim_vehicle.battery.loading_curve.max_power), cs.max_power)"),
 ("vehicles = sorted(vehicles,\n                          key=lambda v: min(v[\"depart_idx\"], timesteps_ahead) - v[\"arrival_idx\"])",
  "vehicles.sort(key=lambda w: -(w[\"arrival_idx\"] - min(timesteps_ahead, w[\"depart_idx\"])))"),
 ("target_power = (min_power + max_power) / 2", "target_power = 0.5 * (max_power + min_power)"),
 ("for i in range(arrival_idx, depart_idx)]", "for i in list(range(depart_idx))[arrival_idx:]]"),
]


def run(name, src_repo):
    tmp = tempfile.mkdtemp(prefix="mut_ps_")
    repo = os.path.join(tmp, "repo")
    shutil.copytree(src_repo, repo, symlinks=True)
    try:
        f = os.path.join(repo, "spice_ev", "strategies", "peak_shaving.py")
        s = open(f).read()
        if name == "R1_refactor":
            for a, b in REFACTOR:
                assert a in s, a
                s = s.replace(a, b)
        else:
            a, b = MUTS[name]
            assert s.count(a) == 1, (name, s.count(a))
            s = s.replace(a, b)
        open(f, "w").write(s)
        env = dict(os.environ, VERIF_REPO=repo, VERIF_NPROC="3", VERIF_SEED="0", VERIF_SEARCH_S="30")
        p = subprocess.run([os.path.join(VERIF, "check"), "S_PEAK_SHAVING"], capture_output=True, text=True, env=env)
        last = (p.stdout + p.stderr).strip().split("\n")[-1]
        want = 0 if name.startswith("R") else 1
        print("%-28s exit %d (%s)  %s" % (name, p.returncode, "as expected" if p.returncode == want else "UNEXPECTED",
                                          last[:200]))
        return p.returncode == want
    finally:
        shutil.rmtree(tmp, ignore_errors=True)


if __name__ == "__main__":
    which = sys.argv[1] if len(sys.argv) > 1 else "all"
    src = sys.argv[2] if len(sys.argv) > 2 else os.environ.get("VERIF_REPO", "/repo")
    names = list(MUTS) if which == "all" else [which]
    ok = all([run(n, src) for n in names])
    sys.exit(0 if ok else 1)
