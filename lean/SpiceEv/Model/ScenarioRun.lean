/-
Model of the simulation loop `Scenario.run` (spice_ev/scenario.py) from the point of view of its
safety monitor and bookkeeping.  The strategy (event processing, `strat.step()`, battery losses)
is NOT modelled here: its observable effect on the world state at each step is an *input*
(`StepObs`), so every statement proved about `run` holds for every strategy, including ones that
raise or write arbitrary loads.  The correspondence run feeds the observations recorded from the
real run and compares `stepI`, the abort flag and all per-step connector loads.
-/
import SpiceEv.Py
namespace SpiceEv

/-- a grid connector as the loop sees it after the strategy step -/
structure GcObs (α : Type) where
  id : String
  rating : α                      -- gc.max_power
  curMax : α                      -- gc.cur_max_power
  loads : List (String × Option α) -- gc.current_loads in insertion order; `none` = the int 0
  deriving Repr

/-- the charging station of a connected vehicle (vehicles in sorted-id order) -/
structure CsObs (α : Type) where
  id : String
  parent : String
  maxPower : α
  deriving Repr

structure StepObs (α : Type) where
  eventError : Bool               -- `Strategy.step(events)` raised
  stratError : Bool               -- the strategy's own `step()` raised (only called if no eventError)
  gcs : List (GcObs α)
  stations : List (CsObs α)
  deriving Repr

structure StepOut (α : Type) where
  loads : List α                  -- reported connector power (totalLoad), one per connector
  generation : List α             -- localGenerationPower, one per connector
  ok : Bool                       -- no error latched in this step
  deriving Repr

structure RunOut (α : Type) where
  stepI : Nat
  aborted : Bool
  steps : List (StepOut α)
  deriving Repr

section
variable {α : Type} [Add α] [Sub α] [Neg α] [LT α] [LE α] [DecidableLT α] [DecidableLE α] [OfNat α 0]

/-- CPython's `sum()` over a list whose items are floats or the int 0 (`none`), starting from the
int 0, specialised by the number interface: `sumTail` is the accumulation used once the running
result has become a float (Neumaier-compensated for `Float`, plain for exact types). -/
class PySum (α : Type) where
  sumTail : α → List (Option α) → α

def pysum [PySum α] : List (Option α) → Option α
  | [] => none
  | none :: rest => pysum rest          -- int 0 + int 0 stays the int 0
  | some x :: rest => some (PySum.sumTail x rest)   -- 0 + x = x, then the float path

def optVal (x : Option α) : α := x.getD 0

/-- `current_load += value` where either side may still be the int 0 (`none`) -/
def addOpt (acc v : Option α) : Option α :=
  match acc, v with
  | none, v => v
  | some a, none => some a
  | some a, some v => some (a + v)

/-- `gc.get_current_load(exclude)`: `current_load = 0; for …: current_load += value` -/
def currentLoad (exclude : List String) (loads : List (String × Option α)) : Option α :=
  loads.foldl (fun acc kv => if exclude.contains kv.1 then acc else addOpt acc kv.2) none

/-- `gc.current_loads.get(k, 0)` -/
def loadOf (loads : List (String × Option α)) (k : String) : Option α :=
  match loads.lookup k with
  | some v => v
  | none => none

/-- reported connector power and local generation for one connector -/
def gcReport [PySum α] (genKeys : List String) (g : GcObs α) : α × α :=
  let curGen : α := 0 - optVal (pysum (genKeys.map (loadOf g.loads)))
  let load := optVal (currentLoad genKeys g.loads)
  (pymax (-g.rating) (load - curGen), curGen)

/-- `-powerLimit <= gc_load <= powerLimit` with `powerLimit = cur_max_power + EPS` -/
def gcWithin (eps : α) (g : GcObs α) (load : α) : Bool :=
  decide (-(g.curMax + eps) ≤ load) && decide (load ≤ g.curMax + eps)

/-- `abs(cs_load) <= cs.max_power + EPS` for the stations of connected vehicles at this connector -/
def csWithin (eps : α) (g : GcObs α) (stations : List (CsObs α)) : Bool :=
  stations.all (fun c => !(c.parent == g.id) ||
    decide (pyabs (optVal (loadOf g.loads c.id)) ≤ c.maxPower + eps))

def stepReport [PySum α] (eps : α) (genKeys : List String) (o : StepObs α) : StepOut α :=
  let reps := o.gcs.map (fun g => (g, gcReport genKeys g))
  { loads := reps.map (fun r => r.2.1)
    generation := reps.map (fun r => r.2.2)
    ok := !o.eventError && !o.stratError &&
          reps.all (fun r => gcWithin eps r.1 r.2.1 && csWithin eps r.1 o.stations) }

/-- the `for step_i in range(n_intervals)` loop with its error latch and `break` -/
def simLoop [PySum α] (eps : α) (genKeys : List String) : Nat → List (StepObs α) → List (StepOut α)
  | 0, _ => []
  | _ + 1, [] => []                      -- no observation: cannot happen for a recorded run
  | n + 1, o :: rest =>
    let s := stepReport eps genKeys o
    if s.ok then s :: simLoop eps genKeys n rest else [s]

def run [PySum α] (eps : α) (genKeys : List String) (n : Nat) (obs : List (StepObs α)) : RunOut α :=
  let steps := simLoop eps genKeys n obs
  { stepI := steps.length
    aborted := steps.any (fun s => !s.ok)
    steps := steps }

end

instance : PySum Rat where
  sumTail x rest := rest.foldl (fun a v => a + v.getD 0) x

/-- Neumaier-compensated summation exactly as in CPython ≥ 3.12 `builtin_sum` (float path). -/
def neumaier (x : Float) (rest : List (Option Float)) : Float :=
  let (f, c) := rest.foldl (fun (fc : Float × Float) v =>
    match v with
    | none => (fc.1 + 0.0, fc.2)          -- PyLong item: f_result += (double)value
    | some x =>
      let t := fc.1 + x
      let c := if fc.1.abs ≥ x.abs then fc.2 + ((fc.1 - t) + x) else fc.2 + ((x - t) + fc.1)
      (t, c)) (x, 0.0)
  if c != 0.0 && c.isFinite then f + c else f

instance : PySum Float where
  sumTail := neumaier

end SpiceEv
