/-
The booking half of the contract (`SubNeg`) for a peak_shaving and a peak_load_window sub-strategy: under the premises
of `SubOK` (no entry under a station id at the connector, no battery id is a station id) the entries under station ids
at the connector are non-negative after the step — vehicles are only charged (`BatLaw`: averages ≥ 0), batteries book
under their own ids — and DIST2 copies these entries into the station powers, so no station ends with negative power.
-/
import SpiceEv.Proofs.StratDistributedConnPLW
set_option linter.unusedSectionVars false
set_option linter.unusedSimpArgs false
set_option linter.unusedVariables false
namespace SpiceEv.Distrib.Conn
open SpiceEv SpiceEv.Frame SpiceEv.Distrib
variable {α B : Type} [Field α] [LinearOrder α] [IsStrictOrderedRing α]

/-- the entries of a connector under the keys `P` are non-negative -/
def NonnegAt (P : String → Prop) (g : GcS α) : Prop := ∀ k, P k → 0 ≤ (sdGet g.loads k).getD 0

theorem nonnegAt_addLoad_nonneg (P : String → Prop) (g : GcS α) (k : String) (v : α) (hv : 0 ≤ v)
    (h : NonnegAt P g) : NonnegAt P (g.addLoad k v).1 := by
  intro k' hk'
  by_cases e : k' = k
  · subst e
    rw [(addLoad_entry g k' v).1]
    have := h k' hk'
    linarith
  · rw [addLoad_other g k k' v e]; exact h k' hk'

theorem nonnegAt_addLoad_other (P : String → Prop) (g : GcS α) (k : String) (v : α) (hk : ¬ P k)
    (h : NonnegAt P g) : NonnegAt P (g.addLoad k v).1 := by
  intro k' hk'
  have e : k' ≠ k := fun e => hk (e ▸ hk')
  rw [addLoad_other g k k' v e]; exact h k' hk'

/-- DIST2 on a one-connector world whose entries under the station ids are non-negative: no station is negative -/
theorem syncStations_nonneg (vw : SWorld α B) (g1 : GcS α) (hg : vw.gcs = [g1])
    (hE : NonnegAt (fun k => ∃ s ∈ vw.stations, s.id = k) g1) :
    ∀ s ∈ (syncStations vw).stations, 0 ≤ s.currentPower := by
  intro s hs
  simp only [syncStations, hg, List.mem_map] at hs
  obtain ⟨x, hx, rfl⟩ := hs
  exact hE x.id ⟨x, hx, rfl⟩

/-! ### peak_shaving -/

theorem ps_applyVehicles_neg (ops : PeakShaving.Ops α B) (law : BatLaw ops.bat) (P : String → Prop) (s0 : α) :
    ∀ (l : List (PeakShaving.VInfo α B)) (used : α) (acc acc' : PeakShaving.Acc α B),
      PeakShaving.applyVehicles ops s0 l used acc = .ok acc' → NonnegAt P acc.gc →
      acc'.world.stations = acc.world.stations ∧ acc'.world.gcs = acc.world.gcs ∧
      acc'.world.batteries = acc.world.batteries ∧ acc'.gc.id = acc.gc.id ∧ NonnegAt P acc'.gc := by
  intro l
  induction l with
  | nil =>
    intro used acc acc' h hE
    simp only [PeakShaving.applyVehicles, Except.ok.injEq] at h
    subst h; exact ⟨rfl, rfl, rfl, rfl, hE⟩
  | cons vi rest ih =>
    intro used acc acc' h hE
    rw [PeakShaving.applyVehicles] at h
    split at h
    · exact ih _ _ _ h hE
    · split at h
      · cases h
      · split at h
        · split at h
          · cases h
          · rename_i v hv
            split at h
            · cases h
            · rename_i bat' avg hload
              obtain ⟨a1, a2, a3, a4, a5⟩ := ih _ _ acc' h
                (nonnegAt_addLoad_nonneg P acc.gc _ avg (law.load_target _ _ _ _ hload).1 hE)
              exact ⟨a1, a2, a3, a4.trans (addLoad_id _ _ _), a5⟩
        · exact ih _ _ _ h hE

theorem mem_setBattery (w : SWorld α B) (b' x : StatBatS α B) (h : x ∈ (w.setBattery b').batteries) :
    x = b' ∨ x ∈ w.batteries := by
  unfold SWorld.setBattery at h
  simp only [List.mem_map] at h
  obtain ⟨y, hy, rfl⟩ := h
  split
  · exact Or.inl rfl
  · exact Or.inr hy

theorem ps_batteryStep_neg (ops : PeakShaving.Ops α B) (env : PeakShaving.Env α) (nAhead : Int) (gcId : String)
    (P : String → Prop) (st st' : PeakShaving.Acc α B × List (PeakShaving.TS α)) (b0 : StatBatS α B)
    (h : PeakShaving.batteryStep ops env nAhead gcId st b0 = .ok st')
    (hB : ∀ b ∈ st.1.world.batteries, ¬ P b.id) (hE : NonnegAt P st.1.gc) :
    st'.1.world.stations = st.1.world.stations ∧ st'.1.world.gcs = st.1.world.gcs ∧
    (∀ b ∈ st'.1.world.batteries, ¬ P b.id) ∧ st'.1.gc.id = st.1.gc.id ∧ NonnegAt P st'.1.gc := by
  unfold PeakShaving.batteryStep at h
  split at h
  · simp only [Except.ok.injEq] at h; subst h; exact ⟨rfl, rfl, hB, rfl, hE⟩
  · split at h
    · simp only [Except.ok.injEq] at h; subst h; exact ⟨rfl, rfl, hB, rfl, hE⟩
    · rename_i b hb
      have hbm : b ∈ st.1.world.batteries := List.mem_of_find?_eq_some hb
      split at h
      · cases h
      · dsimp only at h
        split at h
        · cases h
        · split at h
          · cases h
          · simp only [Except.ok.injEq] at h; subst h
            refine ⟨rfl, rfl, ?_, addLoad_id _ _ _, nonnegAt_addLoad_other P _ _ _ (hB b hbm) hE⟩
            intro x hx
            rcases mem_setBattery _ _ x hx with rfl | hx'
            · exact hB b hbm
            · exact hB x hx'

theorem ps_stepGc_neg (ops : PeakShaving.Ops α B) (law : BatLaw ops.bat) (env : PeakShaving.Env α)
    (events : List (PeakShaving.Ev α)) (P : String → Prop)
    (w w' : SWorld α B) (gc : GcS α) (cmds : List (String × α)) (fc : List α)
    (hB : ∀ b ∈ w.batteries, ¬ P b.id) (hE : NonnegAt P gc)
    (h : PeakShaving.stepGc ops env events w gc = .ok (w', cmds, fc)) :
    w'.stations = w.stations ∧ ∃ g1, g1.id = gc.id ∧ NonnegAt P g1 ∧ w'.gcs = (w.setGc g1).gcs := by
  unfold PeakShaving.stepGc at h
  split at h
  · cases h
  · split at h
    · cases h
    · split at h
      · cases h
      · split at h
        · cases h
        · rename_i acc1 hap
          split at h
          · cases h
          · rename_i acc2 ts2 hfold
            simp only [Except.ok.injEq, Prod.mk.injEq] at h
            obtain ⟨rfl, _, _⟩ := h
            have h1 : acc1.world.stations = w.stations ∧ acc1.world.gcs = w.gcs ∧
                acc1.world.batteries = w.batteries ∧ acc1.gc.id = gc.id ∧ NonnegAt P acc1.gc := by
              unfold PeakShaving.applyPass at hap
              split at hap
              · split at hap
                · cases hap
                · exact ps_applyVehicles_neg ops law P _ _ 0 ⟨w, gc, []⟩ acc1 hap hE
              · simp only [Except.ok.injEq] at hap
                subst hap; exact ⟨rfl, rfl, rfl, rfl, hE⟩
            obtain ⟨a1, a2, a3, a4, a5⟩ := h1
            have h2 := foldlM_inv (PeakShaving.batteryStep ops env _ gc.id)
                (fun (st : PeakShaving.Acc α B × List (PeakShaving.TS α)) =>
                  st.1.world.stations = w.stations ∧ st.1.world.gcs = w.gcs ∧
                  (∀ b ∈ st.1.world.batteries, ¬ P b.id) ∧ st.1.gc.id = gc.id ∧ NonnegAt P st.1.gc)
                (fun st b st' hi hs => by
                  obtain ⟨b1, b2, b3, b4, b5⟩ := ps_batteryStep_neg ops env _ gc.id P st st' b hs hi.2.2.1 hi.2.2.2.2
                  exact ⟨b1.trans hi.1, b2.trans hi.2.1, b3, b4.trans hi.2.2.2.1, b5⟩)
                w.batteries (acc1, _) (acc2, ts2) ⟨a1, a2, by rw [a3]; exact hB, a4, a5⟩ hfold
            obtain ⟨c1, c2, _, c4, c5⟩ := h2
            refine ⟨c1, acc2.gc, c4, c5, ?_⟩
            show (acc2.world.setGc acc2.gc).gcs = (w.setGc acc2.gc).gcs
            unfold SWorld.setGc
            simp only
            rw [c2]

/-- **a peak_shaving sub-strategy never leaves a station with negative power** (booking half of the contract) -/
theorem psRun_subNeg (dops : DOps α B) (law : BatLaw dops.bat) (sub : SubStrat α) (cfg : PSCfg) (now : Int)
    (events future : List (PeakShaving.Ev α)) : SubNeg (psRun dops sub cfg now events future) := by
  intro g ss vs bs vw' cmds h hkc hmax hpar hno hd
  unfold psRun psStep at h
  simp only [bind, Except.bind, Except.map] at h
  split at h
  · cases h
  · rename_i r hr
    split at hr
    · cases hr
    · rename_i r2 hr2
      obtain ⟨w2, c2, f2⟩ := r2
      simp only [Except.ok.injEq] at hr
      subst hr
      simp only [Except.ok.injEq, Prod.mk.injEq] at h
      obtain ⟨rfl, _⟩ := h
      unfold PeakShaving.step at hr2
      have hg : (⟨[g], ss, vs, bs⟩ : SWorld α B).gc? g.id = some g := by simp [SWorld.gc?]
      simp only [List.foldlM_cons, List.foldlM_nil, bind, Except.bind, pure, Except.pure, hg] at hr2
      split at hr2
      · cases hr2
      · rename_i r3 hr3
        split at hr3
        · cases hr3
        · rename_i r4 hr4
          obtain ⟨w4, c4, s4⟩ := r4
          simp only [Except.ok.injEq] at hr3
          subst hr3
          simp only [Except.ok.injEq, Prod.mk.injEq] at hr2
          obtain ⟨rfl, _, _⟩ := hr2
          obtain ⟨hst, g1, hid, hE, hgcs⟩ := ps_stepGc_neg (psOps dops) law _ _ (fun k => ∃ s ∈ ss, s.id = k)
            ⟨[g], ss, vs, bs⟩ w4 g c4 s4
            (fun b hb ⟨s, hs, e⟩ => hd s hs b hb e)
            (fun k ⟨s, hs, e⟩ => by rw [← e, hno s hs]) hr4
          have hgcs' : w4.gcs = [g1] := by
            rw [hgcs]
            simp [SWorld.setGc, hid]
          intro s hs hp
          have := syncStations_nonneg w4 g1 hgcs' (by rw [hst]; exact hE) s hs
          exact absurd hp (not_lt.mpr this)

/-! ### peak_load_window -/

theorem plw_chargeVehicles_neg (ops : BatOps α B) (law : BatLaw ops) (P : String → Prop) :
    ∀ (plans : List (PeakLoadWindow.PVeh α B × α)) (surplus : α)
      (st st' : PeakLoadWindow.PWorld α B × GcS α × List (String × α)),
      PeakLoadWindow.chargeVehicles ops plans surplus st = .ok st' → NonnegAt P st.2.1 →
      st'.1.gcs = st.1.gcs ∧ st'.2.1.id = st.2.1.id ∧ NonnegAt P st'.2.1 := by
  intro plans
  induction plans with
  | nil =>
    intro surplus st st' h hE
    simp only [PeakLoadWindow.chargeVehicles, Except.ok.injEq] at h
    subst h; exact ⟨rfl, rfl, hE⟩
  | cons q rest ih =>
    intro surplus st st' h hE
    obtain ⟨pv, planned⟩ := q
    obtain ⟨w, gc, cmds⟩ := st
    obtain ⟨csId, sched, hcs, hso, hcase⟩ :=
      PeakLoadWindow.chargeVehicles_cons ops pv planned rest surplus w gc cmds st' h
    rcases hcase with ⟨_, bat', p, hload, hrec⟩ | ⟨_, hrec⟩
    · obtain ⟨a1, a2, a3⟩ := ih _ _ st' hrec
        (nonnegAt_addLoad_nonneg P gc csId p (law.load_target _ _ _ _ hload).1 hE)
      exact ⟨a1, a2.trans (addLoad_id _ _ _), a3⟩
    · exact ih surplus (w.setVehicle { pv with schedule := some sched }, gc, cmds) st' hrec hE

theorem plw_applyBattery_neg (ops : BatOps α B) (env : PeakLoadWindow.PEnv α) (info : List (String × α))
    (P : String → Prop) (st st' : GcS α × List (String × α) × List (StatBatS α B)) (b : StatBatS α B)
    (h : PeakLoadWindow.applyBattery ops env info st b = .ok st') (hb : ¬ P b.id) (hE : NonnegAt P st.1) :
    st'.1.id = st.1.id ∧ NonnegAt P st'.1 := by
  obtain ⟨gc, gl, done⟩ := st
  unfold PeakLoadWindow.applyBattery at h
  simp only at h
  split at h
  · cases h
  · split at h
    · split at h
      · obtain ⟨r, _, h⟩ := PeakLoadWindow.bind_ok h
        simp only [Except.ok.injEq] at h
        subst h
        exact ⟨addLoad_id _ _ _, nonnegAt_addLoad_other P gc b.id _ hb hE⟩
      · simp only [Except.ok.injEq] at h
        subst h
        exact ⟨rfl, hE⟩
    · obtain ⟨r, _, h⟩ := PeakLoadWindow.bind_ok h
      simp only [Except.ok.injEq] at h
      subst h
      exact ⟨addLoad_id _ _ _, nonnegAt_addLoad_other P gc b.id _ hb hE⟩

theorem plw_foldl_setBattery_gcs (l : List (StatBatS α B)) (w : PeakLoadWindow.PWorld α B) :
    (l.foldl (fun (w : PeakLoadWindow.PWorld α B) b => w.setBattery b) w).gcs = w.gcs := by
  induction l generalizing w with
  | nil => rfl
  | cons x xs ih => simp only [List.foldl_cons]; rw [ih]; rfl

theorem plw_stepGc_neg (ops : BatOps α B) (law : BatLaw ops) (env : PeakLoadWindow.PEnv α) (P : String → Prop)
    (w : PeakLoadWindow.PWorld α B) (g : PeakLoadWindow.PGc α) (level : String) (w' : PeakLoadWindow.PWorld α B)
    (cmds : List (String × α)) (hw : w.gcs = [g]) (hB : ∀ b ∈ w.batteries, ¬ P b.id) (hE : NonnegAt P g.gc)
    (h : PeakLoadWindow.stepGc ops env w g level = .ok (w', cmds)) :
    ∃ gc2, NonnegAt P gc2 ∧ w'.gcs.map (·.gc) = [gc2] := by
  unfold PeakLoadWindow.stepGc at h
  simp only at h
  obtain ⟨r1, hg, h⟩ := PeakLoadWindow.bind_ok h
  obtain ⟨seasons, _, h⟩ := PeakLoadWindow.bind_ok h
  obtain ⟨r2, _, h⟩ := PeakLoadWindow.bind_ok h
  obtain ⟨r3, hp, h⟩ := PeakLoadWindow.bind_ok h
  obtain ⟨ts0, ht0, h⟩ := PeakLoadWindow.bind_ok h
  obtain ⟨r4, hch, h⟩ := PeakLoadWindow.bind_ok h
  obtain ⟨w1, gc1, cmds1⟩ := r4
  obtain ⟨r5, _, h⟩ := PeakLoadWindow.bind_ok h
  obtain ⟨r6, hab, h⟩ := PeakLoadWindow.bind_ok h
  obtain ⟨gc2, gl2, done⟩ := r6
  simp only [Except.ok.injEq, Prod.mk.injEq] at h
  obtain ⟨rfl, _⟩ := h
  obtain ⟨a1, a2, a3⟩ := plw_chargeVehicles_neg ops law P _ _ (w, g.gc, []) (w1, gc1, cmds1) hch hE
  have h2 := foldlM_inv_mem (PeakLoadWindow.applyBattery ops env r5.2)
    (fun (st : GcS α × List (String × α) × List (StatBatS α B)) => st.1.id = g.gc.id ∧ NonnegAt P st.1)
    _ (gc1, r5.1, []) (gc2, gl2, done)
    (fun st b st' hb hi hs => by
      obtain ⟨b1, b2⟩ := plw_applyBattery_neg ops env r5.2 P st st' b hs
        (hB b (List.mem_of_mem_filter hb)) hi.2
      exact ⟨b1.trans hi.1, b2⟩) ⟨a2, a3⟩ hab
  obtain ⟨c1, c2⟩ := h2
  refine ⟨gc2, c2, ?_⟩
  simp only [PeakLoadWindow.PWorld.setGc]
  rw [plw_foldl_setBattery_gcs]
  simp only at a1
  rw [a1, hw]
  simp [c1]
  rw [if_pos (by simpa using c1.symm)]

theorem plw_step_single (ops : BatOps α B) (law : BatLaw ops) (env : PeakLoadWindow.PEnv α) (P : String → Prop)
    (pg : PeakLoadWindow.PGc α) (ss : List (StationS α)) (pvs : List (PeakLoadWindow.PVeh α B))
    (bs : List (StatBatS α B)) (pw' : PeakLoadWindow.PWorld α B) (cmds : List (String × α))
    (hB : ∀ b ∈ bs, ¬ P b.id) (hE : NonnegAt P pg.gc)
    (h : PeakLoadWindow.step ops env ⟨[pg], ss, pvs, bs⟩ = .ok (pw', cmds)) :
    pw'.stations = ss ∧ ∃ gc2, NonnegAt P gc2 ∧ pw'.gcs.map (·.gc) = [gc2] := by
  unfold PeakLoadWindow.step at h
  simp only [List.foldlM_cons, List.foldlM_nil] at h
  obtain ⟨st1, h1, h⟩ := PeakLoadWindow.bind_ok h
  simp only [pure, Except.pure, Except.ok.injEq] at h
  subst h
  split at h1
  · cases h1
  · rename_i g' hfind
    have e : g' = pg := by
      simp only [List.find?_cons, beq_self_eq_true, Option.some.injEq] at hfind
      exact hfind.symm
    subst e
    split at h1
    · cases h1
    · rename_i level hl
      obtain ⟨r, hr, h1⟩ := PeakLoadWindow.bind_ok h1
      obtain ⟨w1, c1⟩ := r
      simp only [Except.ok.injEq, Prod.mk.injEq] at h1
      obtain ⟨rfl, _⟩ := h1
      exact ⟨PeakLoadWindow.stepGc_stations ops env _ g' level w1 c1 hr,
        plw_stepGc_neg ops law env P _ g' level w1 c1 rfl hB hE hr⟩

/-- **a peak_load_window sub-strategy never leaves a station with negative power** (booking half of the contract) -/
theorem plwRun_subNeg (dops : DOps α B) (law : BatLaw dops.bat) (sub : SubStrat α) (cfg : PLWCfg α) (de : DEnv α)
    (peaks : List (String × α)) (extra : List (String × List α × Option α)) :
    SubNeg (plwRun dops sub cfg de peaks extra) := by
  intro g ss vs bs vw' cmds h hkc hmax hpar hno hd
  unfold plwRun plwStep at h
  simp only [bind, Except.bind, Except.map] at h
  split at h
  · cases h
  · rename_i r hr
    split at hr
    · cases hr
    · rename_i r2 hr2
      obtain ⟨pw', c2⟩ := r2
      simp only [Except.ok.injEq] at hr
      subst hr
      simp only [Except.ok.injEq, Prod.mk.injEq] at h
      obtain ⟨rfl, _⟩ := h
      obtain ⟨hst, gc2, hE, hgcs⟩ := plw_step_single dops.bat law _ (fun k => ∃ s ∈ ss, s.id = k) _ ss _ bs pw' c2
        (fun b hb ⟨s, hs, e⟩ => hd s hs b hb e)
        (fun k ⟨s, hs, e⟩ => by
          show 0 ≤ (sdGet g.loads k).getD 0
          rw [← e, hno s hs]) hr2
      intro s hs hp
      have := syncStations_nonneg _ gc2 hgcs (by simp only; rw [hst]; exact hE) s hs
      exact absurd hp (not_lt.mpr this)

/-- **the booking half of the contract holds for every class of sub-strategy object** -/
theorem sideNeg (dops : DOps α B) (law : BatLaw dops.bat) (sub : SubStrat α) (de : DEnv α) :
    SideNeg dops sub de := by
  unfold SideNeg
  split
  · intro events future
    exact psRun_subNeg dops law sub _ de.env.now events future
  · split
    · intro peaks extra
      exact plwRun_subNeg dops law sub _ de peaks extra
    · trivial

/-- the complete contract `SideConn n` is a theorem for every class of sub-strategy object -/
theorem sideConn_all (n : Bool) (dops : DOps α B) (law : BatLaw dops.bat) (sub : SubStrat α) (de : DEnv α) :
    SideConn n dops sub de := by
  cases n with
  | false => exact sideConn_false dops law sub de
  | true => exact sideConn_true dops law sub de (sideNeg dops law sub de)

/-! ### concrete sub-strategy objects for the non-vacuity examples -/

/-- a depot connector's virtual world: one connector, one 11 kW station, one vehicle (not V2G-capable) that needs energy -/
def toyVw : SWorld ℚ ℚ :=
  ⟨[⟨"GC2", 20, some (.fixed (3/10)), []⟩], [⟨"CS_v2_deps", "GC2", 11, 0, 0⟩],
   [⟨"v2", some "CS_v2_deps", 4/5, some 7200000000, 0, false, 1/2, 1/5⟩], []⟩

def toyPSCfg : PSCfg := ⟨3600000000, false, 10⟩
/-- a peak_shaving object as sub-strategy -/
def toySubPS : SubStrat ℚ := { toyEnv.deps with ps := some toyPSCfg }

def toyPLWCfg : PLWCfg ℚ := ⟨epochShift, epochShift + 36000000000, 40, [("op", [])], [[], [], [], [], [], [], []]⟩
/-- a peak_load_window object as sub-strategy (one-hour steps) -/
def toySubPLW : SubStrat ℚ := ⟨.greedy, 1/100000, 0, 1, 3600000000, none, some toyPLWCfg⟩
/-- `toyEnv` at the epoch with the connector / vehicle attributes a peak_load_window sub-strategy reads -/
def toyEnvPLW : DEnv ℚ :=
  { toyEnv with nowDt := ⟨epochShift, some 0⟩, plwGc := [("GC2", "op", some "MV", none)],
                plwVeh := [("v2", [11, 11], none)] }

theorem toyVw_prem : KeyCons (toyVw.vehicles.map vkey) ∧ MaxOK toyVw.stations ∧
    (∀ s ∈ toyVw.stations, s.parent = "GC2") ∧
    (∀ s ∈ toyVw.stations, (sdGet ([] : List (String × ℚ)) s.id).getD 0 = 0) ∧
    (∀ s ∈ toyVw.stations, ∀ b ∈ toyVw.batteries, s.id ≠ b.id) := by
  refine ⟨?_, ?_, ?_, ?_, ?_⟩
  · intro a ha b hb _
    simp only [toyVw, List.map_cons, List.map_nil, List.mem_cons, List.not_mem_nil, or_false] at ha hb
    rw [ha, hb]
  · intro s hs
    simp only [toyVw, List.mem_cons, List.not_mem_nil, or_false] at hs
    subst hs; norm_num
  · intro s hs
    simp only [toyVw, List.mem_cons, List.not_mem_nil, or_false] at hs
    subst hs; rfl
  · intro s hs
    simp [sdGet]
  · intro s _ b hb
    simp [toyVw] at hb

end SpiceEv.Distrib.Conn
