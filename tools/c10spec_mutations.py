import subprocess, sys, os, re
R=os.environ.get('VERIF_REPO','/tmp/w3/c10spec/repo'); V=os.path.dirname(os.path.dirname(os.path.abspath(__file__)))  # scratch repo copy (never /repo), this framework
assert os.path.realpath(R) != '/repo', 'run on a scratch copy only (the script edits and restores the tree)'
MUTS=[
 ("M1 greedy: battery support dropped from the offer","spice_ev/strategies/greedy.py","power = min(power_needed, gc_power_left + avail_bat_power[gc_id])","power = min(power_needed, gc_power_left)"),
 ("M2 balanced: remaining steps rounded down","spice_ev/strategies/balanced.py","timesteps = -(dt // -self.interval)","timesteps = dt // self.interval"),
 ("M3 V2G support: station maximum dropped","spice_ev/strategy.py","-gc_surplus, vehicle.battery.unloading_curve.max_power, cs.max_power)","-gc_surplus, vehicle.battery.unloading_curve.max_power)"),
 ("M4 battery: min_charging_power cut-off dropped (surplus branch)","spice_ev/strategy.py","                power = -gc_current_load\n                power = 0 if power < battery.min_charging_power else power","                power = -gc_current_load"),
 ("M5 greedy: vehicles in dict order instead of sorted","spice_ev/strategies/greedy.py","for vehicle_id in sorted(self.world_state.vehicles):","for vehicle_id in self.world_state.vehicles:"),
 ("M6 clamp_power: cut-off comparison <= instead of <","spice_ev/util.py","if total_power < cs.min_power or","if total_power <= cs.min_power or"),
 ("M7 balanced: efficiency factor dropped","spice_ev/strategies/balanced.py","energy_needed = delta_soc * vehicle.battery.capacity / vehicle.battery.efficiency","energy_needed = delta_soc * vehicle.battery.capacity"),
 ("M8 surplus pass: surplus threshold > EPS -> >= 0","spice_ev/strategy.py","if gc_surplus > self.EPS:","if gc_surplus >= 0:"),
 ("M9 battery: discharge also at cheap price (branch order)","spice_ev/strategy.py","            if gc_cheap[battery.parent]:\n                # low price: charge with full power","            if gc_cheap[battery.parent] and gc_current_load < 0:\n                # low price: charge with full power"),
 ("R1 refactor greedy (inline power_needed, same op order; renamed locals)","spice_ev/strategies/greedy.py","                energy_needed = delta_soc * vehicle.battery.capacity / vehicle.battery.efficiency\n                power_needed = energy_needed * self.ts_per_hour\n","                bat = vehicle.battery\n                power_needed = (delta_soc * bat.capacity / bat.efficiency) * self.ts_per_hour\n"),
]
sel=sys.argv[1:]
for name,f,old,new in MUTS:
    if sel and name.split()[0] not in sel: continue
    p=os.path.join(R,f); s=open(p).read()
    assert s.count(old)==1,(name,s.count(old))
    open(p,'w').write(s.replace(old,new))
    try:
        r=subprocess.run([V+'/check','C10'],env=dict(os.environ,VERIF_REPO=R,VERIF_NPROC='3',VERIF_SEED='0'),capture_output=True,text=True)
        out=r.stdout+r.stderr
        lines=[l for l in out.split('\n') if re.search(r'VIOLATION|C10 (OK|FAIL)|disagree',l)]
        print('==',name,'exit',r.returncode); print('\n'.join(l[:400] for l in lines[:6]),flush=True)
    finally:
        subprocess.run(['git','-C',R,'checkout','--','.'])
