/-
C17 — termination, for the three data-dependent loops of `PeakLoadWindow.step_gc`
(model: Model/StratPeakLoadWindow.lean): the fuel the model gives each loop suffices, i.e. the model never
answers with its own "out of fuel" marker (`PyErr.fuel`) — the loops of the code terminate in exact arithmetic.
(In IEEE arithmetic the same fuel is exercised by `./check S_PEAK_LOAD_WINDOW`: a `!FUEL` answer would be a
disagreement.)
-/
import SpiceEv.Proofs.StratPeakLoadWindow
set_option linter.unusedSectionVars false
namespace SpiceEv
open SpiceEv.PeakLoadWindow
variable {α B : Type} [Field α] [LinearOrder α] [IsStrictOrderedRing α]

/-- **window-change scan** (`while within_window(cur_time) == gc.window and cur_time <= self.stop_time`): ends at
`stop_time` at the latest; the model's fuel (steps to `stop_time` + 2) suffices for every window table. -/
theorem C17_peak_load_window_scan_terminates (env : PEnv α) (seasons : List Season) (level : String)
    (win : Bool) (hi : 0 < env.interval) :
    ∃ m, windowScan env seasons level win (scanFuel env) (env.now.add env.interval) 1 = .ok m :=
  scan_fuel_suffices env seasons level win hi

/-- **search for the balanced power on varying curves** (`while balanced_power < max + step or first_run`): with
`step = (max − balanced) / 3` at most four passes are made; the model's fuel of 8 suffices. -/
theorem C17_peak_load_window_search_terminates (ops : BatOps α B) (hf : OpsNoFuel ops) (eps : α)
    (cs : StationS α) (vmin desired maxCv balanced : α) (bat0 : B) (connected : List (Ts α)) (pl : Plan α B) :
    searchLoop ops eps cs vmin desired maxCv ((maxCv - balanced) / ((3 : Nat) : α)) bat0 connected
      searchFuel balanced true pl ≠ .error .fuel :=
  search_fuel_suffices ops hf eps cs vmin desired maxCv balanced bat0 connected pl

/-- **bisection** (`while max_power - min_power > self.EPS`): the bracket halves in every pass, so `fuel` passes
suffice whenever `max − min ≤ 2^fuel · EPS` (the driver supplies 2200: enough for any pair of doubles). -/
theorem C17_peak_load_window_bisect_terminates (ops : BatOps α B) (hf : OpsNoFuel ops) (eps : α)
    (heps : 0 < eps) (cs : StationS α) (vmin desired : α) (bat0 : B) (copy : List α)
    (connected : List (Ts α)) (fuel : Nat) (lo hi : α) (pl : Plan α B) (h : hi - lo ≤ (2 : α) ^ fuel * eps) :
    bisectLoop ops eps cs vmin desired bat0 copy connected fuel lo hi pl ≠ .error .fuel :=
  bisect_fuel_suffices ops hf eps heps cs vmin desired bat0 copy connected fuel lo hi pl h

/-- non-vacuity: a bracket of 20 kW with EPS = 1e-5 needs 21 passes; 40 suffice -/
example : (20 : ℚ) - 0 ≤ (2 : ℚ) ^ 40 * (1 / 100000) ∧ OpsNoFuel (toyOps 10 11) ∧ (0 : Int) < exEnv.interval := by
  refine ⟨by norm_num, toyOps_noFuel 10 11, by decide⟩

end SpiceEv
