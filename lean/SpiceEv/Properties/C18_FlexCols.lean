/-
C18 — the flex-band columns of the time-series report ("columns equal the simulated quantities,
rounded to three decimals; one row per reported step").

Property theorems only (lemmas: SpiceEv/Proofs/ReportFlex.lean).  The statements are about the
COMPOSED model SpiceEv/Model/ReportFlex.lean: the run record whose `flex` field is what
`generate_reports` stores after calling `generate_flex_band` — the result of the flex-band model
(Model/FlexBand.lean) on the scenario state handed to the function, or `None` when it raised — fed to
the row writer of Model/Report.lean.  The driver runs exactly this composition (`report_fb`: band on
Float, bit-exact with the real function, then exact rationals) inside the C18 run stream against the
files written by the real `generate_reports`.
-/
import SpiceEv.Proofs.ReportFlex
set_option linter.unusedSectionVars false
set_option linter.unusedSimpArgs false
set_option linter.unusedVariables false
namespace SpiceEv
open SpiceEv.Report SpiceEv.ReportAgg SpiceEv.ReportFlex
variable {α : Type} [Field α] [LinearOrder α] [IsStrictOrderedRing α]
variable {β : Type}

/-- **Flex-band cells = rounded model band values of the same step.**  If the time series of the
composed report (flex report not skipped) is produced, then for every reported step `i` the row
contains, under the four header names `flex band min [kW]`, `flex band base [kW]`,
`flex band max [kW]`, `max energy flex [kWh]` and directly after the cells named in `namedRowPre`
(timestep … stored energy), the cells
`round(min[i]), round(base[i]), round(max[i]), round(max_flex_energy)` where `min/base/max` are the
lists returned by the flex-band model for this scenario and `max_flex_energy` is the Σ over the
vehicles plugged in at this connector of `max(1 − soc, 0) · capacity` at step `i`; and if the
flex-band function raised (any exception: `flex_bands[gc] = None`), four integer zeros. -/
theorem C18_flexcols_cells (rnd : α → α) (conv : β → α) (R : RunData α) (r : Py (FlexBand.Flex β))
    (header : List String) (rows : List (List (Cell α)))
    (h : timeseriesWithBand rnd conv R false r = .ok (header, rows)) :
    ∀ (i : Nat) (hi : i < R.steps.length), ∃ row bat flex mfe post,
      rows[i]? = some row ∧ maxFlexEnergy R R.steps[i] = .ok mfe ∧
      header.zip row = namedRowPre rnd (withBand conv R false r) (flagsOf (withBand conv R false r)) i
        R.steps[i] bat ++ flexNames.zip flex ++ post ∧
      ((∃ f a b c, r = .ok f ∧ f.min[i]? = some a ∧ f.base[i]? = some b ∧ f.max[i]? = some c ∧
          flex = [Cell.num (rnd (conv a)), Cell.num (rnd (conv b)), Cell.num (rnd (conv c)),
                  Cell.num (rnd mfe)]) ∨
       ((∃ e, r = .error e) ∧ flex = [Cell.int 0, Cell.int 0, Cell.int 0, Cell.int 0])) := by
  intro i hi
  unfold timeseriesWithBand at h
  obtain ⟨hlen, hrow⟩ := rows_at h
  obtain ⟨hh, _⟩ := aggregateTimeseries_ok h
  obtain ⟨row, hri, hrow⟩ := hrow i hi
  obtain ⟨bat, flex, hb, hf, rfl⟩ := tsRow_ok hrow
  have hflag := flagsOf_withBand_hasFlex conv R r
  obtain ⟨mfe, hm, hcase⟩ := flexCells_withBand hflag hf
  obtain ⟨post, hpost⟩ := namedRow_flex_segment rnd (withBand conv R false r)
    (flagsOf (withBand conv R false r)) (csIdsOf (withBand conv R false r))
    (csByUc (csIdsOf (withBand conv R false r))) i R.steps[i] bat flex hflag
  refine ⟨_, bat, flex, mfe, post, hri, hm, ?_, hcase⟩
  rw [hh, ← hpost]
  exact zip_header_row rnd _ _ _ _ i _ bat flex (batCells_length hb) (flexCells_length hf)

/-- **One row per reported step, also with the band columns**: the composed report (band present,
band failed, or flex report skipped) has exactly as many rows as steps were reported, every row is
as long as the header, and the header contains the four flex names when the flex report was not
skipped.  (No "iff": a charging station called `flex band min` yields a column of that name by the
`<station> [kW]` rule — the source does not exclude it.) -/
theorem C18_flexcols_row_count (rnd : α → α) (conv : β → α) (R : RunData α) (skip : Bool)
    (r : Py (FlexBand.Flex β)) (header : List String) (rows : List (List (Cell α)))
    (h : timeseriesWithBand rnd conv R skip r = .ok (header, rows)) :
    rows.length = R.steps.length ∧ (∀ row ∈ rows, row.length = header.length) ∧
    (skip = false → ∀ n ∈ flexNames, n ∈ header) := by
  unfold timeseriesWithBand at h
  obtain ⟨hlen, hrow⟩ := rows_at h
  obtain ⟨hh, _⟩ := aggregateTimeseries_ok h
  refine ⟨hlen, ?_, ?_⟩
  · intro row hr
    obtain ⟨i, hi, rfl⟩ := List.getElem_of_mem hr
    obtain ⟨row', hri, hrow'⟩ := hrow i (hlen ▸ hi)
    rw [List.getElem?_eq_getElem hi] at hri
    cases hri
    obtain ⟨bat, flex, hb, hf, e⟩ := tsRow_ok hrow'
    rw [e, hh]
    exact tsRowWith_length rnd _ _ _ _ i _ bat flex (batCells_length hb) (flexCells_length hf)
  · intro hs n hn
    subst hs
    have hflag := flagsOf_withBand_hasFlex conv R r
    rw [hh]; unfold tsHeader
    simp only [hflag, if_true, List.mem_append]
    left; left; left; left; left; left; left; left; left; left; right
    exact hn

/-- **The table with band columns is produced** whenever the band generated by the flex-band model
for a scenario of `n` intervals is used for a run of at most `n` reported steps (every completed or
aborted run: `Scenario.run` reports at most `n_intervals` steps; the model's band has exactly `n`
entries in each of its three lists), the band function raised, or the flex report is skipped — given
the band-independent shape conditions `WellShapedRest` (battery level series known and long enough,
one SoC entry per vehicle, plugged-in vehicles have a SoC).  No IndexError from `flex[...][idx]`. -/
theorem C18_flexcols_ok {B : Type} (rnd : α → α) (R : RunData α) (W : WellShapedRest R) (skip : Bool)
    (ops : FlexBand.Ops α B) (eps stratEps tsph : α) (sc : FlexBand.Scen α B) (gcId : String)
    (cst : Option CoreStandingTime) (hn : R.steps.length ≤ sc.n) :
    ∃ header rows,
      timeseriesWithBand rnd id R skip (FlexBand.generateFlexBand ops eps stratEps tsph sc gcId cst)
        = .ok (header, rows) ∧ rows.length = R.steps.length := by
  have hW := wellShapedTs_withBand (β := α) id W skip
    (FlexBand.generateFlexBand ops eps stratEps tsph sc gcId cst) (by
      intro f hf
      obtain ⟨a, b, c⟩ := band_lengths ops eps stratEps tsph sc gcId cst f hf
      omega)
  obtain ⟨⟨header, rows⟩, h⟩ := aggregateTimeseries_total rnd hW
  exact ⟨header, rows, h, (rows_at h).1⟩

/-- **Rounding to three decimals** (the driver's `round`: half-even at `p` decimals on the exact
value): the written value is within `1/(2·10^p)` (0.0005 for `p = 3`) of the band value, and rounding
a written value again does not change it. -/
theorem C18_flexcols_rounding (p : Nat) (x : ℚ) :
    |pyRoundRat p x - x| ≤ 1 / (2 * 10 ^ p) ∧ pyRoundRat p (pyRoundRat p x) = pyRoundRat p x :=
  ⟨pyRoundRat_close p x, pyRoundRat_idem p x⟩

/-! ## non-vacuity -/

/-- `C18_flexcols_cells` / `C18_flexcols_row_count` on the two-step example run with the example
band (min −1, −2; base 0, 0; max 3, 4): 23 columns, the second row carries −2, 0, 4 and the flex
energy (1 − 1/4)·50 = 37.5 under the four flex names; with a raising band function the cells are
integer zeros; with the flex report skipped there are 19 columns. -/
example :
    okAnd (timeseriesWithBand (pyRoundRat 3) id exRun false (.ok exBand)) (fun t =>
      decide (t.1.length = 23 ∧ t.2.map (·.length) = [23, 23] ∧
        (t.1.zip (t.2.getD 1 [])).lookup "flex band min [kW]" = some (Cell.num (-2)) ∧
        (t.1.zip (t.2.getD 1 [])).lookup "flex band base [kW]" = some (Cell.num 0) ∧
        (t.1.zip (t.2.getD 1 [])).lookup "flex band max [kW]" = some (Cell.num 4) ∧
        (t.1.zip (t.2.getD 1 [])).lookup "max energy flex [kWh]" = some (Cell.num (75 / 2)))) = true ∧
    okAnd (timeseriesWithBand (pyRoundRat 3) id exRun false
        (.error .zeroDivision : Py (FlexBand.Flex ℚ))) (fun t =>
      decide ((t.1.zip (t.2.getD 1 [])).lookup "flex band max [kW]" = some (Cell.int 0))) = true ∧
    okAnd (timeseriesWithBand (pyRoundRat 3) id exRun true (.ok exBand)) (fun t =>
      decide (t.1.length = 19)) = true := by
  decide +kernel

/-- `WellShapedRest` (hypothesis of `C18_flexcols_ok`) holds for the example run. -/
example : WellShapedRest exRun := by
  refine ⟨?_, by decide +kernel, by unfold SocsShaped; decide +kernel, ?_⟩
  · intro bl hbl
    have : bl = ("BAT", [5, 5]) := by simpa [exRun] using hbl
    subst this; exact ⟨_, rfl⟩
  · intro s hs i vid cs hv hc hst
    have : exRun.vehicles = [("car", 50, true)] := rfl
    have hi : i = 0 := by
      rcases i with _ | i
      · rfl
      · simp [this, sortedStr] at hv
    subst hi
    have hs' : s = exStep 0 11 12 3 2 0 (some 0) ∨ s = exStep 900000000 (-4) (-6) 1 5 (-2) (some (1 / 4)) := by
      simpa [exRun] using hs
    rcases hs' with rfl | rfl
    · exact ⟨0, rfl⟩
    · exact ⟨1 / 4, rfl⟩

/-- rounding: 0.0625 ↦ 0.062 stays 0.062; the distance is exactly the bound 0.0005 -/
example : pyRoundRat 3 (pyRoundRat 3 (1 / 16)) = pyRoundRat 3 (1 / 16) ∧
    |pyRoundRat 3 (1 / 16 : ℚ) - 1 / 16| ≤ 1 / (2 * 10 ^ 3) :=
  ⟨pyRoundRat_idem 3 _, pyRoundRat_close 3 _⟩

end SpiceEv
