/-
C10 — Greedy and balanced charging follow their documented rule exactly: the SPECIFICATION and the refinement.

`RuleSpec.specStep` (Model/RuleSpec.lean, 150 lines) is the documented rule written for a reader: price class per
connector, vehicles as records in ascending id order, one closed expression for the offered power per case, one
booking function.  `C10_ruleStep_refines_spec` proves that the transliterated step `ruleStep` — the model that is
compared bit for bit with the real `Greedy.step` / `Balanced.step` — computes exactly the specification's result
(world and commands, including every exception) on every well-formed world.  The sentences of the property are
then read off the specification (`C10_spec_*`); through the refinement they are statements about `ruleStep`.
The driver evaluates `specStep` (command `specstep`) on every step line of the C10 stream as a third party.
-/
import SpiceEv.Proofs.RuleSpec
set_option linter.unusedSectionVars false
set_option linter.unusedVariables false
namespace SpiceEv
open RuleSpec
variable {α B : Type} [Field α] [LinearOrder α] [IsStrictOrderedRing α]

/-- **Refinement.** On every well-formed world (connector, vehicle and battery ids unique; every connector has a
price) the transliterated step and the documented rule are the same function: same commands, connector loads,
station powers, vehicle and battery states, same exception.  (Dangling station / connector references need no
hypothesis: both sides raise KeyError at the same vehicle.) -/
theorem C10_ruleStep_refines_spec (rule : Rule) (ops : BatOps α B) (env : StratEnv α) (w : SWorld α B)
    (wf : WF w) : ruleStep rule ops env w = specStep rule ops env w :=
  ruleStep_eq_specStep rule ops env w wf

/-- non-vacuity: a well-formed world (two vehicles inserted in descending id order at one connector with fixed load
and a stationary battery, expensive price) on which greedy returns: v1 gets the station maximum 11 kW (needs 60,
headroom 16 + support 5), v2 the remaining 5 kW; balanced: v1 60 kW / 10 steps = 6 kW, v2 min(15, headroom 10) -/
example : WF (toyWorld (3/10) 4) ∧
    (ruleStep .greedy (toyOps 5) toyEnv (toyWorld (3/10) 4)).toOption.map (·.2) = some [("CS1", 11), ("CS2", 5)] ∧
    (specStep .balanced (toyOps 5) toyEnv (toyWorld (3/10) 4)).toOption.map (·.2) = some [("CS1", 6), ("CS2", 10)] :=
  ⟨toyWorld_wf _ _,
   by rw [C10_ruleStep_refines_spec _ _ _ _ (toyWorld_wf _ _)]; simp only [specStep, toyWorld_sorted]; decide +kernel,
   by simp only [specStep, toyWorld_sorted]; decide +kernel⟩

/-- the hypotheses are needed.  (i) `priced`: one unpriced connector and a stationary battery whose
`get_available_power` raises — the code (model) raises that error, the specification the KeyError of the missing price.
(ii) unique battery ids: two batteries with the same id — the code updates the FIRST object twice (and `setBattery`
overwrites both entries), the specification treats the two records one after the other. -/
example :
    ruleStep .greedy ({ toyOps 5 with available := fun _ => .error .valueError } : BatOps ℚ ℚ) toyEnv
        ⟨[⟨"GC", 20, none, []⟩], [], [], [⟨"BAT", "GC", 0, 1 / 2⟩]⟩ = .error .valueError ∧
    specStep .greedy ({ toyOps 5 with available := fun _ => .error .valueError } : BatOps ℚ ℚ) toyEnv
        ⟨[⟨"GC", 20, none, []⟩], [], [], [⟨"BAT", "GC", 0, 1 / 2⟩]⟩ = .error .keyError ∧
    (ruleStep .greedy (toyOps 5) toyEnv
        ⟨[⟨"GC", 20, some (.fixed (3/10)), [("fixed", 8)]⟩], [], [], [⟨"B", "GC", 0, 1 / 2⟩, ⟨"B", "GC", 0, 1 / 4⟩]⟩
      ).toOption.map (fun r => r.1.batteries.map (·.bat)) ≠
    (specStep .greedy (toyOps 5) toyEnv
        ⟨[⟨"GC", 20, some (.fixed (3/10)), [("fixed", 8)]⟩], [], [], [⟨"B", "GC", 0, 1 / 2⟩, ⟨"B", "GC", 0, 1 / 4⟩]⟩
      ).toOption.map (fun r => r.1.batteries.map (·.bat)) :=
  ⟨rfl, rfl, by decide +kernel⟩

/-- (iii) unique vehicle ids: two vehicles with the same id at two stations — the code looks the FIRST one up twice (one
command), the specification serves both records (two commands). -/
example : (ruleStep .greedy (toyOps 5) toyEnv dupWorld).toOption.map (·.2) = some [("CS1", 11)] ∧
    (specStep .greedy (toyOps 5) toyEnv dupWorld).toOption.map (·.2) = some [("CS1", 11), ("CS2", 9)] := by
  constructor
  · simp only [ruleStep, sortedVehicleIds, resetStations, dupWorld, List.map, mergeSort_pair]; decide +kernel
  · simp only [specStep, vehiclesById, resetStations, dupWorld, List.map, mergeSort_pair]; decide +kernel

/-- **Order.** The allocation pass visits the vehicle records in ascending id order, each exactly once, whatever
the insertion order of the fleet. -/
theorem C10_spec_order (w : SWorld α B) :
    (vehiclesById w).Perm w.vehicles ∧ (vehiclesById w).Pairwise (fun a b => a.id ≤ b.id) := by
  unfold vehiclesById
  refine ⟨List.mergeSort_perm _ _, ?_⟩
  have := List.pairwise_mergeSort (le := fun a b : VehicleS α B => decide (a.id ≤ b.id))
    (fun a b c h1 h2 => by simp only [decide_eq_true_eq] at *; exact le_trans h1 h2)
    (fun a b => by simp only [Bool.or_eq_true, decide_eq_true_eq]; exact le_total _ _) w.vehicles
  exact this.imp (by intro a b h; simpa using h)

example : (vehiclesById (resetStations (toyWorld (3/10) 4))).map (·.id) = ["v1", "v2"] := by
  rw [toyWorld_sorted]; rfl

/-- **Greedy.** Price above the threshold, vehicle below its desired SoC: the offer is the station clamp of
min(power that reaches the desired SoC within this step, headroom + battery support), i.e. either the minimum-power
cut-off (0) or EXACTLY the smallest of the three caps "needed", "headroom + support", "what the station has left";
it is handed to the battery as target power. -/
theorem C10_spec_greedy_offer (ops : BatOps α B) (env : StratEnv α) (head support : α) (cs : StationS α)
    (v : VehicleS α B) (hneed : needsCharge ops env v = true) :
    offered .greedy ops env false head support cs v
      = .ok (stationClamp cs v (min (powerNeeded ops env v) (head + support))) ∧
    (stationClamp cs v (min (powerNeeded ops env v) (head + support)) = 0 ∨
     stationClamp cs v (min (powerNeeded ops env v) (head + support))
       = max (min (min (powerNeeded ops env v) (head + support)) (cs.maxPower - cs.currentPower)) 0) ∧
    ∀ p, charge .greedy ops false true v p = ops.load v.bat none none (some p) := by
  refine ⟨?_, stationClamp_cases cs v _, fun p => rfl⟩
  unfold offered
  simp [hneed, pymin_eq]

example : offered .greedy (toyOps 5) toyEnv false 16 5 ⟨"CS1", "GC", 11, 0, 0⟩
    ⟨"v1", some "CS1", 8 / 10, some (10 * hourUs), 0, true, 1 / 2, 2 / 10⟩ = .ok 11 := by decide +kernel

/-- **Balanced.** Same situation with `n = ⌈(departure − now)/Δ⌉` remaining steps: for `n > 0` the offer is the
station clamp of min(needed / n, headroom) — the constant power whose `n`-fold is exactly the power needed now, i.e.
which reaches the desired SoC at the announced departure; for `n ≤ 0` (past the announced departure) the whole
clamped headroom.  No battery support is added; the offer is handed to the battery as target power. -/
theorem C10_spec_balanced_offer (ops : BatOps α B) (env : StratEnv α) (head support : α) (cs : StationS α)
    (v : VehicleS α B) (etd : Int) (hetd : v.etd = some etd) (hneed : needsCharge ops env v = true) :
    remainingSteps env v = .ok (ceilDiv (etd - env.now) env.interval) ∧
    offered .balanced ops env false head support cs v
      = .ok (stationClamp cs v
          (if 0 < ceilDiv (etd - env.now) env.interval
           then min (powerNeeded ops env v / ((ceilDiv (etd - env.now) env.interval : Int) : α)) head else head)) ∧
    (0 < ceilDiv (etd - env.now) env.interval →
      ((ceilDiv (etd - env.now) env.interval : Int) : α)
        * (powerNeeded ops env v / ((ceilDiv (etd - env.now) env.interval : Int) : α)) = powerNeeded ops env v) ∧
    ∀ cheap needs p, charge .balanced ops cheap needs v p = ops.load v.bat none none (some p) := by
  refine ⟨by simp [remainingSteps, hetd], ?_, ?_, fun cheap needs p => by cases cheap <;> cases needs <;> rfl⟩
  · unfold offered remainingSteps
    simp [hneed, hetd, bind, Except.bind, pymin_eq]
  · intro hpos
    have : ((ceilDiv (etd - env.now) env.interval : Int) : α) ≠ 0 := by
      have : (0 : α) < ((ceilDiv (etd - env.now) env.interval : Int) : α) := by exact_mod_cast hpos
      exact ne_of_gt this
    field_simp

example : offered .balanced (toyOps 5) toyEnv false 16 5 ⟨"CS1", "GC", 11, 0, 0⟩
    ⟨"v1", some "CS1", 8 / 10, some (10 * hourUs), 0, true, 1 / 2, 2 / 10⟩ = .ok 6 := by decide +kernel

/-- the remaining-steps count is the ceiling: `(n − 1)·Δ < departure − now ≤ n·Δ` (an off-grid departure keeps its
last, partial step) -/
theorem C10_spec_remaining_steps (env : StratEnv α) (v : VehicleS α B) (n : Int) (hΔ : 0 < env.interval)
    (h : remainingSteps env v = .ok n) :
    ∃ etd, v.etd = some etd ∧ etd - env.now ≤ n * env.interval ∧ (n - 1) * env.interval < etd - env.now := by
  unfold remainingSteps at h
  cases hetd : v.etd with
  | none => simp [hetd] at h
  | some etd =>
    simp only [hetd, Except.ok.injEq] at h
    subst h
    refine ⟨etd, rfl, ?_⟩
    generalize etd - env.now = a
    generalize env.interval = b at hΔ ⊢
    unfold ceilDiv
    rw [Int.fdiv_neg (ne_of_gt hΔ), Int.fdiv_eq_ediv_of_nonneg a hΔ.le]
    have h1 := Int.emod_add_mul_ediv a b
    have h2 := Int.emod_nonneg a (ne_of_gt hΔ)
    have h3 := Int.emod_lt_of_pos a hΔ
    by_cases hd : b ∣ a
    · have h4 : a % b = 0 := Int.emod_eq_zero_of_dvd hd
      simp only [hd, if_true]
      constructor <;> nlinarith
    · have h4 : a % b ≠ 0 := fun h => hd (Int.dvd_of_emod_eq_zero h)
      have h5 : 0 < a % b := lt_of_le_of_ne h2 (Ne.symm h4)
      simp only [hd, if_false]
      constructor <;> nlinarith

example : remainingSteps toyEnv (⟨"v", none, 0, some (5 * hourUs / 2), 0, false, 0, 0⟩ : VehicleS ℚ ℚ) = .ok 3 := by
  decide +kernel

/-- **Cheap price.** At or below the threshold both rules offer the whole clamped headroom — no battery support, no
look at the desired SoC — and greedy hands it over as a power LIMIT (no SoC target: up to a full battery). -/
theorem C10_spec_cheap_offer (rule : Rule) (ops : BatOps α B) (env : StratEnv α) (head support : α)
    (cs : StationS α) (v : VehicleS α B) :
    offered rule ops env true head support cs v = .ok (stationClamp cs v head) ∧
    ∀ needs p, charge .greedy ops true needs v p = ops.load v.bat (some p) none none := by
  constructor
  · unfold offered; simp
  · intro needs p; rfl

example : offered .greedy (toyOps 5) toyEnv true 16 5 ⟨"CS1", "GC", 11, 0, 0⟩
    ⟨"v1", some "CS1", 8 / 10, some (10 * hourUs), 0, true, 1 / 2, 9 / 10⟩ = .ok 11 := by decide +kernel

/-- **No charge beyond the desired SoC in the allocation pass.** Price above the threshold and the vehicle at/above
its desired SoC (within ε): the offer is 0 kW; greedy does not touch the battery, balanced's target-power-0 request
delivers nothing. -/
theorem C10_spec_no_overcharge (rule : Rule) (ops : BatOps α B) (law : BatLaw ops) (env : StratEnv α)
    (head support : α) (cs : StationS α) (v : VehicleS α B) (hsat : needsCharge ops env v = false) :
    offered rule ops env false head support cs v = .ok 0 ∧
    ∀ b' avg, charge rule ops false false v 0 = .ok (b', avg) → avg = 0 := by
  constructor
  · unfold offered; simp [hsat]
  · intro b' avg h
    cases rule with
    | greedy => simp only [charge, Except.ok.injEq, Prod.mk.injEq] at h; exact h.2.symm
    | balanced =>
      have := law.load_target _ _ _ _ h
      simp only [max_self] at this
      exact le_antisymm this.2 this.1

example : needsCharge (toyOps 5) toyEnv (⟨"v", none, 1 / 2, none, 0, false, 0, 1 / 2⟩ : VehicleS ℚ ℚ) = false := by
  decide +kernel

/-- **Surplus pass.** A vehicle is charged there only when its connector feeds in (load < −ε), with at most the
clamped surplus; it is discharged only when the connector draws (load > ε), the vehicle is above its desired SoC, V2G
capable, its station idle and the price not cheap — with at most min(draw, discharge-curve maximum, station maximum).
Nothing else happens. -/
theorem C10_spec_surplus_pass (ops : BatOps α B) (law : BatLaw ops) (env : StratEnv α)
    (price : List (String × Bool)) (st st' : SWorld α B × List (String × α)) (v : VehicleS α B)
    (h : surplusOrSupport ops env price st v = .ok st') :
    st' = st ∨ ∃ csId cs gc bat' p, site st.1 v = .ok (some (csId, cs, gc)) ∧ st' = book st csId cs gc v bat' p ∧
      ((env.eps < -gc.currentLoad ∧ 0 ≤ p ∧ p ≤ max (stationClamp cs v (-gc.currentLoad)) 0) ∨
       (env.eps < gc.currentLoad ∧ env.eps < ops.soc v.bat - v.desiredSoc ∧ v.v2g = true ∧
        cheapAt price cs.parent = false ∧ p ≤ 0 ∧
        -p ≤ max (min (min gc.currentLoad (ops.unloadMaxPower v.bat)) cs.maxPower) 0)) := by
  unfold surplusOrSupport at h
  cases hs : site st.1 v with
  | error e => simp [hs, bind, Except.bind] at h
  | ok o =>
    cases o with
    | none => simp only [hs, bind, Except.bind, Except.ok.injEq] at h; exact Or.inl h.symm
    | some t =>
      obtain ⟨csId, cs, gc⟩ := t
      simp only [hs, bind, Except.bind] at h
      split at h
      · rename_i hsur
        split at h
        · cases h
        · rename_i r hl
          simp only [Except.ok.injEq] at h
          obtain ⟨h0, h1⟩ := law.load_max _ _ _ _ hl
          exact Or.inr ⟨csId, cs, gc, r.1, r.2, rfl, h.symm, Or.inl ⟨hsur, h0, h1⟩⟩
      · split at h
        · rename_i hc
          obtain ⟨c1, c2, c3, _, c5⟩ := hc
          split at h
          · cases h
          · rename_i r hl
            simp only [Except.ok.injEq] at h
            obtain ⟨h0, h1⟩ := law.unload_max _ _ _ _ _ hl
            simp only [pymin_eq, neg_neg] at h1
            refine Or.inr ⟨csId, cs, gc, r.1, -r.2, rfl, h.symm, Or.inr ⟨by linarith, by linarith, c3, c5, by linarith, ?_⟩⟩
            simpa using h1
        · simp only [Except.ok.injEq] at h; exact Or.inl h.symm

/-- non-vacuity: with 30 kW of feed-in both vehicles are charged beyond what the allocation pass gave them -/
example : (specStep .balanced (toyOps 5) toyEnv (toyWorld (3/10) (-30))).toOption.map (·.2)
    = some [("CS1", 11), ("CS2", 11)] := by simp only [specStep, toyWorld_sorted]; decide +kernel

/-- **Stationary-battery policy.** The battery's entry `d` on its connector is a charge (`d ≥ 0`) only when the price is
cheap (then at most the headroom) or the connector has surplus (then at most the surplus: `load + d ≤ 0`); otherwise
the battery only discharges, and never further than to zero grid draw. -/
theorem C10_spec_battery_policy (ops : BatOps α B) (law : BatLaw ops) (price : List (String × Bool))
    (w w' : SWorld α B) (b : StatBatS α B) (gc : GcS α) (hgc : w.gc? b.parent = some gc)
    (h : batteryPolicy ops price w b = .ok w') :
    ∃ bat' d, w' = (w.setBattery { b with bat := bat' }).setGc (gc.addLoad b.id d).1 ∧
      (cheapAt price b.parent = true → 0 ≤ d ∧ d ≤ max (headroom gc) 0) ∧
      (cheapAt price b.parent = false → gc.currentLoad < 0 → 0 ≤ d ∧ gc.currentLoad + d ≤ 0) ∧
      (cheapAt price b.parent = false → 0 ≤ gc.currentLoad → d ≤ 0 ∧ 0 ≤ gc.currentLoad + d) := by
  unfold batteryPolicy at h
  simp only [hgc] at h
  split at h
  · rename_i hc
    obtain ⟨r, hr, hw⟩ := except_bind_ok _ _ _ h
    simp only [Except.ok.injEq] at hw
    obtain ⟨h0, h1⟩ := law.load_max _ _ _ _ hr
    have hp : (if headroom gc < b.minChargingPower then (0 : α) else headroom gc) ≤ max (headroom gc) 0 := by
      split
      · exact le_max_right _ _
      · exact le_max_left _ _
    exact ⟨r.1, r.2, hw.symm, fun _ => ⟨h0, le_trans h1 (max_le hp (le_max_right _ _))⟩, by simp [hc], by simp [hc]⟩
  · rename_i hc
    have hc' : cheapAt price b.parent = false := by simpa using hc
    split at h
    · rename_i hneg
      obtain ⟨r, hr, hw⟩ := except_bind_ok _ _ _ h
      simp only [Except.ok.injEq] at hw
      obtain ⟨h0, h1⟩ := law.load_target _ _ _ _ hr
      refine ⟨r.1, r.2, hw.symm, by simp [hc'], fun _ _ => ⟨h0, ?_⟩, fun _ hpos => absurd hneg (not_lt.mpr hpos)⟩
      have hp : (if -gc.currentLoad < b.minChargingPower then (0 : α) else -gc.currentLoad) ≤ -gc.currentLoad := by
        split
        · linarith
        · exact le_refl _
      have : r.2 ≤ max (-gc.currentLoad) 0 := le_trans h1 (max_le_max hp (le_refl _))
      rw [max_eq_left (by linarith)] at this
      linarith
    · rename_i hpos
      have hpos' : 0 ≤ gc.currentLoad := not_lt.mp hpos
      obtain ⟨r, hr, hw⟩ := except_bind_ok _ _ _ h
      simp only [Except.ok.injEq] at hw
      simp only [Functor.map, Except.map] at hr
      split at hr
      · cases hr
      · rename_i u hu
        simp only [Except.ok.injEq] at hr
        obtain ⟨h0, h1⟩ := law.unload_target _ _ _ _ hu
        rw [max_eq_left hpos'] at h1
        subst hr
        exact ⟨u.1, -u.2, hw.symm, by simp [hc'], fun _ hneg => absurd hneg hpos,
          fun _ _ => ⟨by linarith, by linarith⟩⟩

/-- non-vacuity: expensive power, the connector draws 20 kW after the vehicle passes: the battery covers 5 kW of it;
cheap power: it charges with the remaining headroom (0 here: the vehicles took everything) -/
example : (specStep .greedy (toyOps 5) toyEnv (toyWorld (3/10) 4)).toOption.map (fun r => r.1.gcs.map (·.loads))
    = some [[("fixed", 4), ("CS1", 11), ("CS2", 5), ("BAT", -5)]] := by
  simp only [specStep, toyWorld_sorted]; decide +kernel

end SpiceEv
