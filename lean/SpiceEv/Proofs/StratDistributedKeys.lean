/-
Key frame of the greedy / balanced step: it changes connector entries only under the ids of its own stations and
batteries, and keeps the list of station ids.  (Needed to carry "station entry = station power" through the write-back
of a connector's virtual world for the stations of that connector that are not in the virtual world.)
-/
import SpiceEv.Proofs.StratDistributedLoop
set_option linter.unusedSectionVars false
set_option linter.unusedSimpArgs false
set_option linter.unusedVariables false
namespace SpiceEv.Distrib
open SpiceEv SpiceEv.Frame
variable {α B : Type} [Field α] [LinearOrder α] [IsStrictOrderedRing α]

/-- every connector of `w'` is a connector of `w` (same id) whose entries under keys outside `K` are untouched -/
def KeyFrame (K : String → Prop) (w w' : SWorld α B) : Prop :=
  ∀ g' ∈ w'.gcs, ∃ g ∈ w.gcs, g'.id = g.id ∧ ∀ k, ¬ K k → sdGet g'.loads k = sdGet g.loads k

theorem KeyFrame.refl (K : String → Prop) (w : SWorld α B) : KeyFrame K w w :=
  fun g hg => ⟨g, hg, rfl, fun _ _ => rfl⟩

theorem KeyFrame.trans {K : String → Prop} {w1 w2 w3 : SWorld α B} (h12 : KeyFrame K w1 w2) (h23 : KeyFrame K w2 w3) :
    KeyFrame K w1 w3 := by
  intro g3 hg3
  obtain ⟨g2, hg2, e2, f2⟩ := h23 g3 hg3
  obtain ⟨g1, hg1, e1, f1⟩ := h12 g2 hg2
  exact ⟨g1, hg1, e2.trans e1, fun k hk => (f2 k hk).trans (f1 k hk)⟩

theorem keyFrame_of_gcs_eq {K : String → Prop} {w w' : SWorld α B} (h : w'.gcs = w.gcs) : KeyFrame K w w' := by
  intro g hg; rw [h] at hg; exact ⟨g, hg, rfl, fun _ _ => rfl⟩

/-- replacing a connector by `add_load(key, …)` on it, with `key ∈ K` -/
theorem keyFrame_setGc_addLoad (K : String → Prop) (w : SWorld α B) (gc : GcS α) (hg : gc ∈ w.gcs) (k : String) (v : α)
    (hk : K k) : KeyFrame K w (w.setGc (gc.addLoad k v).1) := by
  intro g' hg'
  rcases mem_setGc _ _ g' hg' with rfl | ⟨hm, _⟩
  · refine ⟨gc, hg, addLoad_id gc k v, ?_⟩
    intro k' hk'
    exact addLoad_other gc k k' v (fun e => hk' (e ▸ hk))
  · exact ⟨g', hm, rfl, fun _ _ => rfl⟩

theorem setStation_ids (w : SWorld α B) (s' : StationS α) :
    (w.setStation s').stations.map (·.id) = w.stations.map (·.id) := by
  unfold SWorld.setStation
  simp only [List.map_map]
  apply List.map_congr_left
  intro x _
  simp only [Function.comp]
  by_cases h : (x.id == s'.id) = true
  · have : x.id = s'.id := by simpa using h
    rw [if_pos h, this]
  · rw [if_neg h]

/-- the invariant of the three passes -/
def KInv (K : String → Prop) (w0 w : SWorld α B) : Prop :=
  KeyFrame K w0 w ∧ w.stations.map (·.id) = w0.stations.map (·.id) ∧ ∀ b ∈ w.batteries, K b.id

theorem kinv_book (K : String → Prop) (w0 w : SWorld α B) (hK0 : ∀ s ∈ w0.stations, K s.id)
    (v' : VehicleS α B) (csId : String) (cs : StationS α) (gc : GcS α) (d c : α)
    (hcs : w.station? csId = some cs) (hgc : w.gc? cs.parent = some gc) (h : KInv K w0 w) :
    KInv K w0 (((w.setVehicle v').setGc (gc.addLoad csId d).1).setStation { cs with currentPower := c }) := by
  obtain ⟨hcsm, hcsid⟩ := station?_some' _ _ _ hcs
  obtain ⟨hgcm, _⟩ := gc?_some' _ _ _ hgc
  have hKcs : K csId := by
    have : cs.id ∈ w.stations.map (·.id) := List.mem_map.mpr ⟨cs, hcsm, rfl⟩
    rw [h.2.1] at this
    obtain ⟨x, hx, e⟩ := List.mem_map.mp this
    rw [← hcsid, ← e]; exact hK0 x hx
  refine ⟨?_, ?_, ?_⟩
  · refine h.1.trans ?_
    have := keyFrame_setGc_addLoad K (w.setVehicle v') gc hgcm csId d hKcs
    intro g' hg'
    exact this g' (by simpa using hg')
  · rw [setStation_ids]; exact h.2.1
  · intro b hb; exact h.2.2 b (by simpa using hb)

theorem allocVehicle_kinv (K : String → Prop) (w0 : SWorld α B) (hK0 : ∀ s ∈ w0.stations, K s.id)
    (rule : Rule) (ops : BatOps α B) (env : StratEnv α)
    (st st' : SWorld α B × List (String × α) × List (String × α)) (vid : String)
    (hinv : KInv K w0 st.1) (h : allocVehicle rule ops env st vid = .ok st') : KInv K w0 st'.1 := by
  obtain ⟨v, hv, hc⟩ := allocVehicle_cases rule ops env st st' vid h
  rcases hc with ⟨_, he⟩ | ⟨csId, cs, gc, cheap, power, used, bat', avg, hcs, hst, hgc, _, _, _, he⟩
  · rw [he]; exact hinv
  · rw [he]; exact kinv_book K w0 st.1 hK0 _ csId cs gc avg _ hst hgc hinv

theorem surplusBody_kinv (K : String → Prop) (w0 : SWorld α B) (hK0 : ∀ s ∈ w0.stations, K s.id)
    (ops : BatOps α B) (env : StratEnv α) (cheap : List (String × Bool))
    (st st' : SWorld α B × List (String × α)) (v0 : VehicleS α B) (hinv : KInv K w0 st.1)
    (h : surplusBody ops env cheap st v0 = .ok st') : KInv K w0 st'.1 := by
  rcases surplusBody_cases ops env cheap st st' v0 h with ⟨_, he⟩ | ⟨v, hv, hc⟩
  · rw [he]; exact hinv
  · rcases hc with ⟨_, he⟩ | ⟨csId, cs, gc, r, hcs, hst, hgc, hloc, he⟩
    · rw [he]; exact hinv
    · rw [he]
      cases r with
      | none => exact hinv
      | some t =>
        obtain ⟨bat', d, cur'⟩ := t
        exact kinv_book K w0 st.1 hK0 _ csId cs gc d cur' hst hgc hinv

theorem batBody_kinv (K : String → Prop) (w0 : SWorld α B)
    (ops : BatOps α B) (env : StratEnv α) (cheap : List (String × Bool))
    (w w' : SWorld α B) (b0 : StatBatS α B) (hinv : KInv K w0 w)
    (h : batBody ops env cheap w b0 = .ok w') : KInv K w0 w' := by
  rcases batBody_cases ops env cheap w w' b0 h with ⟨_, rfl⟩ | ⟨b, hb, hc⟩
  · exact hinv
  · rcases hc with ⟨_, rfl⟩ | ⟨gc, isCheap, r, hgc, _, _, rfl⟩
    · exact hinv
    · have hbm : b ∈ w.batteries := List.mem_of_find?_eq_some hb
      refine ⟨?_, hinv.2.1, ?_⟩
      · refine hinv.1.trans ?_
        have := keyFrame_setGc_addLoad K (w.setBattery { b with bat := r.1 }) gc (gc?_some' _ _ _ hgc).1 b.id r.2
          (hinv.2.2 b hbm)
        intro g' hg'
        exact this g' hg'
      · intro b2 hb2
        have hb2' : b2 ∈ (w.setBattery { b with bat := r.1 }).batteries := by simpa using hb2
        unfold SWorld.setBattery at hb2'
        simp only [List.mem_map] at hb2'
        obtain ⟨x, hx, rfl⟩ := hb2'
        split
        · exact hinv.2.2 b hbm
        · exact hinv.2.2 x hx

/-- **Key frame of `Greedy.step` / `Balanced.step`**: with `K` containing the ids of the world's stations and batteries,
every connector keeps its id and its entries under keys outside `K`; the list of station ids is unchanged. -/
theorem ruleStep_keyFrame (K : String → Prop) (rule : Rule) (ops : BatOps α B) (env : StratEnv α) (w w' : SWorld α B)
    (cmds : List (String × α)) (hKs : ∀ s ∈ w.stations, K s.id) (hKb : ∀ b ∈ w.batteries, K b.id)
    (h : ruleStep rule ops env w = .ok (w', cmds)) :
    KeyFrame K w w' ∧ w'.stations.map (·.id) = w.stations.map (·.id) := by
  have hreset : (resetStations w).stations.map (·.id) = w.stations.map (·.id) := by
    unfold resetStations
    simp [List.map_map, Function.comp]
  have hK0 : ∀ s ∈ (resetStations w).stations, K s.id := by
    intro s hs
    have : s.id ∈ (resetStations w).stations.map (·.id) := List.mem_map.mpr ⟨s, hs, rfl⟩
    rw [hreset] at this
    obtain ⟨x, hx, e⟩ := List.mem_map.mp this
    rw [← e]; exact hKs x hx
  suffices hk : KInv K (resetStations w) w' by
    exact ⟨(keyFrame_of_gcs_eq (w := w) (w' := resetStations w) rfl).trans hk.1, hk.2.1.trans hreset⟩
  unfold ruleStep at h
  cases ha : availBatPower ops w with
  | error e => simp [ha, bind, Except.bind] at h
  | ok avail =>
    simp only [ha, bind, Except.bind] at h
    cases hf : (sortedVehicleIds (resetStations w)).foldlM (allocVehicle rule ops env)
        (resetStations w, [], avail) with
    | error e => simp [hf] at h
    | ok st1 =>
      obtain ⟨w1, c1, a1⟩ := st1
      simp only [hf] at h
      have h0 : KInv K (resetStations w) (resetStations w) := ⟨KeyFrame.refl _ _, rfl, fun b hb => hKb b hb⟩
      have h1 : KInv K (resetStations w) w1 :=
        foldlM_inv (allocVehicle rule ops env) (fun s => KInv K (resetStations w) s.1)
          (fun s x s' hi hs => allocVehicle_kinv K _ hK0 rule ops env s s' x hi hs) _ _ (w1, c1, a1) h0 hf
      cases hd : distributeSurplus ops env w1 with
      | error e => simp [hd] at h
      | ok r2 =>
        obtain ⟨w2, c2⟩ := r2
        simp only [hd] at h
        have h2 : KInv K (resetStations w) w2 := by
          rw [distributeSurplus_unfold] at hd
          cases hc : w1.gcs.mapM (cheapEntry env) with
          | error e => simp [hc, bind, Except.bind] at hd
          | ok cheap =>
            simp only [hc, bind, Except.bind] at hd
            exact foldlM_inv (surplusBody ops env cheap) (fun s => KInv K (resetStations w) s.1)
              (fun s x s' hi hs => surplusBody_kinv K _ hK0 ops env cheap s s' x hi hs)
              w1.vehicles (w1, []) (w2, c2) h1 hd
        cases hu : updateBatteries ops env w2 with
        | error e => simp [hu] at h
        | ok w3 =>
          simp only [hu, Except.ok.injEq, Prod.mk.injEq] at h
          obtain ⟨rfl, _⟩ := h
          rw [updateBatteries_unfold] at hu
          cases hc : w2.gcs.mapM (cheapEntry env) with
          | error e => simp [hc, bind, Except.bind] at hu
          | ok cheap =>
            simp only [hc, bind, Except.bind] at hu
            exact foldlM_inv (batBody ops env cheap) (fun s => KInv K (resetStations w) s)
              (fun s x s' hi hs => batBody_kinv K _ ops env cheap s s' x hi hs)
              w2.batteries w2 w3 h2 hu

/-! ### second contract of a sub-strategy's run: key frame, station ids, battery ids -/

theorem syncStations_ids (vw : SWorld α B) : (syncStations vw).stations.map (·.id) = vw.stations.map (·.id) := by
  unfold syncStations
  split
  · simp [List.map_map, Function.comp]
  · rfl

theorem ruleStep_batIds (rule : Rule) (ops : BatOps α B) (env : StratEnv α) (w w' : SWorld α B)
    (cmds : List (String × α)) (h : ruleStep rule ops env w = .ok (w', cmds)) :
    w'.batteries.map (·.id) = w.batteries.map (·.id) := by
  unfold ruleStep at h
  cases ha : availBatPower ops w with
  | error e => simp [ha, bind, Except.bind] at h
  | ok avail =>
    simp only [ha, bind, Except.bind] at h
    cases hf : (sortedVehicleIds (resetStations w)).foldlM (allocVehicle rule ops env)
        (resetStations w, [], avail) with
    | error e => simp [hf] at h
    | ok st1 =>
      obtain ⟨w1, c1, a1⟩ := st1
      simp only [hf] at h
      have b1 : w1.batteries = w.batteries := by
        have := allocFold_batteries rule ops env _ _ (w1, c1, a1) hf
        simpa using this
      cases hd : distributeSurplus ops env w1 with
      | error e => simp [hd] at h
      | ok r2 =>
        obtain ⟨w2, c2⟩ := r2
        simp only [hd] at h
        have b2 : w2.batteries = w1.batteries := distributeSurplus_batteries ops env w1 w2 c2 hd
        cases hu : updateBatteries ops env w2 with
        | error e => simp [hu] at h
        | ok w3 =>
          simp only [hu, Except.ok.injEq, Prod.mk.injEq] at h
          obtain ⟨rfl, _⟩ := h
          rw [updateBatteries_unfold] at hu
          cases hc : w2.gcs.mapM (cheapEntry env) with
          | error e => simp [hc, bind, Except.bind] at hu
          | ok cheap =>
            simp only [hc, bind, Except.bind] at hu
            have := foldlM_inv (batBody ops env cheap)
              (fun (s : SWorld α B) => s.batteries.map (·.id) = w2.batteries.map (·.id))
              (fun s x s' hi hs => by
                rcases batBody_cases ops env cheap s s' x hs with ⟨_, rfl⟩ | ⟨b, hb, hc'⟩
                · exact hi
                · rcases hc' with ⟨_, rfl⟩ | ⟨gc, isCheap, r, _, _, _, rfl⟩
                  · exact hi
                  · have hbid : b.id = x.id := by simpa using List.find?_some hb
                    show (s.setBattery { b with bat := r.1 }).batteries.map (·.id) = _
                    exact (map_replace_ids s.batteries { b with bat := r.1 }).trans hi)
              w2.batteries w2 w3 rfl hu
            rw [this, b2, b1]

/-- what carrying "station entry = station power" through the write-back needs from `strat.step()` on
`⟨[g], ss, vs, bs⟩`: the connector's entries under keys that are neither a station id nor a battery id of the virtual
world are untouched; the list of station ids and the set of battery ids are kept -/
def SubKF (run : SWorld α B → Py (SWorld α B × List (String × α))) : Prop :=
  ∀ (g : GcS α) (ss : List (StationS α)) (vs : List (VehicleS α B)) (bs : List (StatBatS α B))
    (vw' : SWorld α B) (cmds : List (String × α)), run ⟨[g], ss, vs, bs⟩ = .ok (vw', cmds) →
    (∀ g1, vw'.gcs = [g1] → ∀ k, (∀ s ∈ ss, s.id ≠ k) → (∀ b ∈ bs, b.id ≠ k) → sdGet g1.loads k = sdGet g.loads k) ∧
    vw'.stations.map (·.id) = ss.map (·.id) ∧ ∀ b' ∈ vw'.batteries, ∃ b ∈ bs, b'.id = b.id

theorem ruleStep_subKF (rule : Rule) (ops : BatOps α B) (env : StratEnv α) : SubKF (ruleStep rule ops env) := by
  intro g ss vs bs vw' cmds h
  obtain ⟨hkf, hids⟩ := ruleStep_keyFrame (fun k => (∃ s ∈ ss, s.id = k) ∨ (∃ b ∈ bs, b.id = k)) rule ops env
    ⟨[g], ss, vs, bs⟩ vw' cmds (fun s hs => Or.inl ⟨s, hs, rfl⟩) (fun b hb => Or.inr ⟨b, hb, rfl⟩) h
  refine ⟨?_, hids, ?_⟩
  · intro g1 hg1 k hks hkb
    obtain ⟨g0, hg0, _, f⟩ := hkf g1 (by rw [hg1]; simp)
    simp only [List.mem_cons, List.not_mem_nil, or_false] at hg0
    subst hg0
    apply f k
    rintro (⟨s, hs, e⟩ | ⟨b, hb, e⟩)
    · exact hks s hs e
    · exact hkb b hb e
  · intro b' hb'
    have hm := ruleStep_batIds rule ops env ⟨[g], ss, vs, bs⟩ vw' cmds h
    have : b'.id ∈ vw'.batteries.map (·.id) := List.mem_map.mpr ⟨b', hb', rfl⟩
    rw [hm] at this
    obtain ⟨b, hb, e⟩ := List.mem_map.mp this
    exact ⟨b, hb, e.symm⟩

/-- the second contract for the sub-strategy object of one side (`True` for greedy / balanced: proved) -/
def SideKF (dops : DOps α B) (sub : SubStrat α) (de : DEnv α) : Prop :=
  match sub.ps with
  | some cfg => ∀ events future, SubKF (psRun dops sub cfg de.env.now events future)
  | none =>
    match sub.plw with
    | some cfg => ∀ peaks extra, SubKF (plwRun dops sub cfg de peaks extra)
    | none => True

/-! ### the battery loop after the sub-strategy (opportunity station): key frame and battery ids -/

theorem sdGet_erase_other {β : Type} (l : List (String × β)) (k k' : String) (h : k' ≠ k) :
    sdGet (sdErase l k) k' = sdGet l k' := by
  induction l with
  | nil => rfl
  | cons x xs ih =>
    obtain ⟨xk, xv⟩ := x
    by_cases hk : (xk == k) = true
    · have hxk : xk = k := by simpa using hk
      have : (xk == k') = false := by
        simp only [beq_eq_false_iff_ne, ne_eq]; rw [hxk]; exact fun e => h e.symm
      simp [sdErase, hk, sdGet, this]
    · have hk' : (xk == k) = false := by simpa using hk
      simp only [sdErase, hk', Bool.false_eq_true, if_false, sdGet]
      rw [ih]

theorem oppsAfter_keys (dops : DOps α B) (saved : α) (avail : List (String × α)) (vveh : List (VehicleS α B))
    (st st' : OppsPost α B) (bId : String) (h : oppsAfter dops saved avail vveh st bId = .ok st') :
    (∀ k, k ≠ bId → k ≠ virtName bId → sdGet st'.gc.loads k = sdGet st.gc.loads k) ∧
    st'.bats.map (·.id) = st.bats.map (·.id) := by
  obtain ⟨b, hb, hc⟩ := oppsAfter_shape dops saved avail vveh st st' bId h
  have hbid : b.id = bId := by simpa using List.find?_some hb
  rcases hc with ⟨p, bat', avg, _, _, hg, _, hbs⟩ | ⟨_, _, rfl⟩ | ⟨val, vv, _, _, _, hg, _, hbs⟩
  · refine ⟨?_, ?_⟩
    · intro k hk _
      rw [hg]
      exact addLoad_other { st.gc with curMax := saved } bId k (-avg) hk
    · rw [hbs, ← hbid]
      exact map_replace_ids st.bats { b with bat := bat' }
  · exact ⟨fun _ _ _ => rfl, rfl⟩
  · refine ⟨?_, ?_⟩
    · intro k hk hk2
      rw [hg, addLoad_other { st.gc with loads := sdErase st.gc.loads (virtName bId) } bId k val hk]
      exact sdGet_erase_other st.gc.loads (virtName bId) k hk2
    · rw [hbs, ← hbid]
      exact map_replace_ids st.bats { b with bat := dops.setSoc b.bat (dops.bat.soc vv.bat) }

theorem oppsPost_keys (dops : DOps α B) (saved : α) (avail : List (String × α)) (vveh : List (VehicleS α B))
    (batIds : List String) (st st' : OppsPost α B)
    (h : batIds.foldlM (oppsAfter dops saved avail vveh) st = .ok st') :
    (∀ k, (∀ b ∈ batIds, k ≠ b ∧ k ≠ virtName b) → sdGet st'.gc.loads k = sdGet st.gc.loads k) ∧
    st'.bats.map (·.id) = st.bats.map (·.id) := by
  induction batIds generalizing st with
  | nil =>
    simp only [List.foldlM_nil, pure, Except.pure, Except.ok.injEq] at h
    subst h; exact ⟨fun _ _ => rfl, rfl⟩
  | cons b rest ih =>
    simp only [List.foldlM_cons, bind, Except.bind] at h
    split at h
    · cases h
    · rename_i st1 hst1
      obtain ⟨a1, a2⟩ := oppsAfter_keys dops saved avail vveh st st1 b hst1
      obtain ⟨b1, b2⟩ := ih st1 h
      refine ⟨?_, b2.trans a2⟩
      intro k hk
      rw [b1 k (fun x hx => hk x (by simp [hx])), a1 k (hk b (by simp)).1 (hk b (by simp)).2]

/-! ### "station entry = station power" through the connector loop -/

theorem writeBack_stations_strong (w sub : SWorld α B) (a b : List String) (s : StationS α)
    (h : s ∈ (writeBack w sub a b).stations) :
    (s ∈ w.stations ∧ ∀ x ∈ sub.stations, a.contains x.id = true → s.id ≠ x.id) ∨
    (s ∈ sub.stations ∧ a.contains s.id = true) := by
  unfold writeBack at h
  have h2 : ∀ (l : List (VehicleS α B)) (w : SWorld α B),
      (l.foldl (fun (w : SWorld α B) v => if b.contains v.id then w.setVehicle v else w) w).stations
        = w.stations := by
    intro l
    induction l with
    | nil => intro w; rfl
    | cons x xs ih => intro w; simp only [List.foldl_cons]; rw [ih]; split <;> rfl
  have h1 : ∀ (l : List (StationS α)) (w : SWorld α B), (∀ x ∈ l, x ∈ sub.stations) →
      ∀ s ∈ (l.foldl (fun (w : SWorld α B) s => if a.contains s.id then w.setStation s else w) w).stations,
        (s ∈ w.stations ∧ ∀ x ∈ l, a.contains x.id = true → s.id ≠ x.id) ∨
        (s ∈ sub.stations ∧ a.contains s.id = true) := by
    intro l
    induction l with
    | nil => intro w _ s hs; exact Or.inl ⟨hs, fun x hx => by simp at hx⟩
    | cons x xs ih =>
      intro w hl s hs
      simp only [List.foldl_cons] at hs
      rcases ih _ (fun y hy => hl y (by simp [hy])) s hs with ⟨h, hne⟩ | h
      · by_cases hc : a.contains x.id = true
        · rw [if_pos hc] at h
          rcases mem_setStation' _ _ s h with rfl | ⟨hm, hid⟩
          · exact Or.inr ⟨hl _ (by simp), hc⟩
          · refine Or.inl ⟨hm, ?_⟩
            intro y hy hcy
            rcases List.mem_cons.mp hy with rfl | hy'
            · exact hid
            · exact hne y hy' hcy
        · rw [if_neg hc] at h
          refine Or.inl ⟨h, ?_⟩
          intro y hy hcy
          rcases List.mem_cons.mp hy with rfl | hy'
          · exact absurd hcy hc
          · exact hne y hy' hcy
      · exact Or.inr h
  simp only [h2] at h
  exact h1 sub.stations w (fun x hx => hx) s h

theorem foldl_setBattery_mem (l : List (StatBatS α B)) (w : SWorld α B) (b : StatBatS α B)
    (h : b ∈ (l.foldl (fun (w : SWorld α B) b => w.setBattery b) w).batteries) : b ∈ w.batteries ∨ b ∈ l := by
  induction l generalizing w with
  | nil => exact Or.inl h
  | cons x xs ih =>
    simp only [List.foldl_cons] at h
    rcases ih _ h with h' | h'
    · unfold SWorld.setBattery at h'
      simp only [List.mem_map] at h'
      obtain ⟨y, hy, rfl⟩ := h'
      split
      · exact Or.inr (by simp)
      · exact Or.inl hy
    · exact Or.inr (by simp [h'])

/-- additional hypotheses at the beginning of the step (`KB` = ids of the stationary batteries of the world): no
station id is a battery id, no virtual station's name is a station id -/
structure LoopHyp2 (ini0 : DInit α) (K KB : List String) : Prop where
  disjB : ∀ k ∈ K, k ∉ KB
  noVirtName : ∀ g', ∀ b ∈ (sdGet ini0.gcBattery g').getD [], virtName b ∉ K

/-- the second part of the loop invariant -/
structure LoopInv2 (KB : List String) (st : SWorld α B × DInit α × List (String × α)) : Prop where
  booked : Booked st.1
  batK : ∀ b ∈ st.1.batteries, b.id ∈ KB

/-- a station of the world that the write-back did not replace has an id outside the written ids -/
theorem not_written (a : List String) (sub : List (StationS α)) (hids : sub.map (·.id) = a ++ [] ∨ ∀ k ∈ a, ∃ x ∈ sub, x.id = k)
    (s : StationS α) (hne : ∀ x ∈ sub, a.contains x.id = true → s.id ≠ x.id) : s.id ∉ a := by
  intro hs
  have hex : ∃ x ∈ sub, x.id = s.id := by
    rcases hids with h | h
    · have : s.id ∈ sub.map (·.id) := by rw [h]; simpa using hs
      obtain ⟨x, hx, e⟩ := List.mem_map.mp this
      exact ⟨x, hx, e⟩
    · exact h s.id hs
  obtain ⟨x, hx, e⟩ := hex
  exact hne x hx (by rw [e]; simpa using hs) e.symm

/-- the end of a depot's treatment keeps "entry = power" and the battery ids -/
theorem depsFinish2 (w0 : SWorld α B) (ini0 : DInit α) (K KB R : List String) (gcId : String)
    (hyp2 : LoopHyp2 ini0 K KB)
    (st : SWorld α B × DInit α × List (String × α)) (hinv : LoopInv w0 ini0 K (gcId :: R) st)
    (hinv2 : LoopInv2 KB st) (gc : GcS α) (hgm : gc ∈ st.1.gcs) (hgid : gc.id = gcId)
    (stations : List (StationS α)) (cvs : List (VehicleS α B))
    (hss : ∀ s ∈ stations, s ∈ st.1.stations ∧ s.parent = gcId)
    (bs : List (StatBatS α B)) (hbs : ∀ b ∈ bs, b ∈ st.1.batteries)
    (vw' : SWorld α B) (g1 : GcS α) (hg1 : vw'.gcs = [g1]) (hg1id : g1.id = gcId)
    (hvid : ∀ s' ∈ (syncStations vw').stations, ∃ s ∈ stations, s'.id = s.id ∧ s'.parent = s.parent)
    (hkf : ∀ k, (∀ s ∈ stations, s.id ≠ k) → (∀ b ∈ bs, b.id ≠ k) → sdGet g1.loads k = sdGet gc.loads k)
    (hids : vw'.stations.map (·.id) = stations.map (·.id))
    (hbid : ∀ b' ∈ vw'.batteries, ∃ b ∈ bs, b'.id = b.id)
    (ini' : DInit α) (acc' : List (String × α)) :
    LoopInv2 KB (mergeDeps st.1 (syncStations vw') stations cvs, ini', acc') := by
  have hgcs : ∀ g ∈ (mergeDeps st.1 (syncStations vw') stations cvs).gcs, g = g1 ∨ (g ∈ st.1.gcs ∧ g.id ≠ g1.id) := by
    intro g hg
    unfold mergeDeps at hg
    simp only [foldl_setBattery_gcs, syncStations_gcs, hg1] at hg
    rcases setGc_single_mem _ g1 g hg with h | ⟨h, h'⟩
    · exact Or.inl h
    · rw [writeBack_gcs] at h; exact Or.inr ⟨h, h'⟩
  have hst : ∀ s ∈ (mergeDeps st.1 (syncStations vw') stations cvs).stations,
      (s ∈ st.1.stations ∧ s.id ∉ stations.map (·.id)) ∨
      (s ∈ (syncStations vw').stations ∧ s.id ∈ stations.map (·.id)) := by
    intro s hs
    unfold mergeDeps at hs
    simp only [foldl_setBattery_stations, foldl_setGc_stations] at hs
    rcases writeBack_stations_strong _ _ _ _ s hs with ⟨h1, h2⟩ | ⟨h1, h2⟩
    · refine Or.inl ⟨h1, not_written (stations.map (·.id)) (syncStations vw').stations (Or.inl ?_) s h2⟩
      rw [syncStations_ids, hids]; simp
    · exact Or.inr ⟨h1, by simpa using h2⟩
  refine ⟨?_, ?_⟩
  · intro s hs g hg hid
    rcases hst s hs with ⟨hsm, hsid⟩ | ⟨hsm, hsid⟩
    · rcases hgcs g hg with rfl | ⟨hgm', _⟩
      · have hpar : gc.id = s.parent := hgid.trans (hg1id.symm.trans hid)
        rw [hkf s.id (fun x hx e => hsid (List.mem_map.mpr ⟨x, hx, e⟩))
          (fun b hb e => hyp2.disjB s.id (hinv.ids s hsm) (e ▸ hinv2.batK b (hbs b hb)))]
        exact hinv2.booked s hsm gc hgm hpar
      · exact hinv2.booked s hsm g hgm' hid
    · rcases hgcs g hg with rfl | ⟨_, hne⟩
      · exact syncStations_booked vw' g hg1 s hsm
      · obtain ⟨x, hx, _, e2⟩ := hvid s hsm
        exact absurd (hid.trans (e2.trans ((hss x hx).2.trans hg1id.symm))) hne
  · intro b hb
    unfold mergeDeps at hb
    rcases foldl_setBattery_mem _ _ b hb with h | h
    · have : b ∈ st.1.batteries := by
        have h' : b ∈ ((syncStations vw').gcs.foldl (fun (w : SWorld α B) g => w.setGc g)
            (writeBack st.1 (syncStations vw') (stations.map (·.id)) (cvs.map (·.id)))).batteries := h
        have e : ((syncStations vw').gcs.foldl (fun (w : SWorld α B) g => w.setGc g)
            (writeBack st.1 (syncStations vw') (stations.map (·.id)) (cvs.map (·.id)))).batteries = st.1.batteries := by
          rw [syncStations_gcs, hg1]; simp only [List.foldl_cons, List.foldl_nil]
          show (writeBack st.1 (syncStations vw') _ _).batteries = _
          exact writeBack_batteries _ _ _ _
        rw [e] at h'; exact h'
      exact hinv2.batK b this
    · rw [syncStations_batteries] at h
      obtain ⟨b0, hb0, e⟩ := hbid b h
      rw [e]; exact hinv2.batK b0 (hbs b0 hb0)

/-- the end of an opportunity station's treatment keeps "entry = power" and the battery ids -/
theorem oppsFinish2 (dops : DOps α B) (w0 : SWorld α B) (ini0 : DInit α) (K KB R : List String)
    (hyp : LoopHyp w0 ini0 K) (hyp2 : LoopHyp2 ini0 K KB) (gcId : String)
    (st : SWorld α B × DInit α × List (String × α)) (hinv : LoopInv w0 ini0 K (gcId :: R) st)
    (hinv2 : LoopInv2 KB st) (gc : GcS α) (hgm : gc ∈ st.1.gcs) (hgid : gc.id = gcId)
    (stations : List (StationS α)) (cvs : List (VehicleS α B)) (batIds : List String)
    (hbat : batIds = (sdGet ini0.gcBattery gcId).getD [])
    (hss : ∀ s ∈ stations, s ∈ st.1.stations ∧ s.parent = gcId)
    (vcs : List (StationS α)) (hvcs : ∀ s ∈ vcs, s ∈ st.2.1.virtualCs ∧ ∃ b ∈ batIds, s.id = virtName b)
    (hpar : ∀ s ∈ stations ++ vcs, s.parent = gcId)
    (pgc : GcS α) (hpl : pgc.loads = gc.loads)
    (vw' : SWorld α B) (g1 : GcS α) (hg1 : vw'.gcs = [g1]) (hg1id : g1.id = gcId)
    (hvid : ∀ s' ∈ (syncStations vw').stations, ∃ s ∈ stations ++ vcs, s'.id = s.id ∧ s'.parent = s.parent)
    (hkf : ∀ k, (∀ s ∈ stations ++ vcs, s.id ≠ k) → sdGet g1.loads k = sdGet pgc.loads k)
    (hids : vw'.stations.map (·.id) = (stations ++ vcs).map (·.id))
    (saved : α) (avail : List (String × α)) (vveh : List (VehicleS α B)) (cmds : List (String × α))
    (post : OppsPost α B)
    (hpost : batIds.foldlM (oppsAfter dops saved avail vveh)
      ⟨g1, cmds, (writeBack st.1 (syncStations vw') (stations.map (·.id)) (cvs.map (·.id))).batteries⟩ = .ok post)
    (ini' : DInit α) (acc' : List (String × α)) :
    LoopInv2 KB
      ({ ((writeBack st.1 (syncStations vw') (stations.map (·.id)) (cvs.map (·.id))).setGc post.gc) with
          batteries := post.bats }, ini', acc') := by
  have hpid : post.gc.id = g1.id :=
    foldlM_preserves _ (fun (a b : OppsPost α B) => b.gc.id = a.gc.id) (fun _ => rfl)
      (fun _ _ _ h1 h2 => h2.trans h1)
      (fun s i s' hs => oppsAfter_gcid dops _ _ _ s s' i hs) _ _ post hpost
  obtain ⟨htail, hbids⟩ := oppsPost_keys dops saved avail vveh batIds _ post hpost
  -- a station id is none of the keys the battery loop touches
  have hKkey : ∀ k ∈ K, ∀ b ∈ batIds, k ≠ b ∧ k ≠ virtName b := by
    intro k hk b hb
    have hb' : b ∈ (sdGet ini0.gcBattery gcId).getD [] := by rw [← hbat]; exact hb
    exact ⟨fun e => hyp.disj gcId b hb' (e ▸ hk), fun e => hyp2.noVirtName gcId b hb' (e ▸ hk)⟩
  have hvcsK : ∀ v ∈ vcs, v.id ∉ K := by
    intro v hv
    obtain ⟨_, b, hb, e⟩ := hvcs v hv
    rw [e]; exact hyp2.noVirtName gcId b (by rw [← hbat]; exact hb)
  have hst : ∀ s ∈ (writeBack st.1 (syncStations vw') (stations.map (·.id)) (cvs.map (·.id))).stations,
      (s ∈ st.1.stations ∧ s.id ∉ stations.map (·.id)) ∨
      (s ∈ (syncStations vw').stations ∧ s.id ∈ stations.map (·.id)) := by
    intro s hs
    rcases writeBack_stations_strong _ _ _ _ s hs with ⟨h1, h2⟩ | ⟨h1, h2⟩
    · refine Or.inl ⟨h1, not_written (stations.map (·.id)) (syncStations vw').stations (Or.inr ?_) s h2⟩
      intro k hk
      have : k ∈ (syncStations vw').stations.map (·.id) := by
        rw [syncStations_ids, hids]; simp only [List.map_append, List.mem_append]; exact Or.inl hk
      obtain ⟨x, hx, e⟩ := List.mem_map.mp this
      exact ⟨x, hx, e⟩
    · exact Or.inr ⟨h1, by simpa using h2⟩
  refine ⟨?_, ?_⟩
  · intro s hs g hg hid
    have hg' : g ∈ ((writeBack st.1 (syncStations vw') (stations.map (·.id)) (cvs.map (·.id))).setGc post.gc).gcs := hg
    have hgc : g = post.gc ∨ (g ∈ st.1.gcs ∧ g.id ≠ post.gc.id) := by
      rcases mem_setGc _ post.gc g hg' with h | ⟨hm, hne⟩
      · exact Or.inl h
      · rw [writeBack_gcs] at hm; exact Or.inr ⟨hm, hne⟩
    rcases hst s hs with ⟨hsm, hsid⟩ | ⟨hsm, hsid⟩
    · have hsK := hinv.ids s hsm
      rcases hgc with rfl | ⟨hgm', _⟩
      · have hpar' : gc.id = s.parent := hgid.trans (hg1id.symm.trans (hpid.symm.trans hid))
        rw [htail s.id (hKkey s.id hsK), hkf s.id (by
          intro x hx e
          rcases List.mem_append.mp hx with h | h
          · exact hsid (List.mem_map.mpr ⟨x, h, e⟩)
          · exact hvcsK x h (e ▸ hsK)), hpl]
        exact hinv2.booked s hsm gc hgm hpar'
      · exact hinv2.booked s hsm g hgm' hid
    · have hsK : s.id ∈ K := by
        obtain ⟨x, hx, e⟩ := List.mem_map.mp hsid
        rw [← e]; exact hinv.ids x (hss x hx).1
      rcases hgc with rfl | ⟨_, hne⟩
      · rw [htail s.id (hKkey s.id hsK)]
        exact syncStations_booked vw' g1 hg1 s hsm
      · obtain ⟨x, hx, _, e2⟩ := hvid s hsm
        exact absurd (hid.trans (e2.trans ((hpar x hx).trans (hg1id.symm.trans hpid.symm)))) hne
  · intro b hb
    have hb' : b ∈ post.bats := hb
    have : b.id ∈ post.bats.map (·.id) := List.mem_map.mpr ⟨b, hb', rfl⟩
    rw [hbids] at this
    have e : (writeBack st.1 (syncStations vw') (stations.map (·.id)) (cvs.map (·.id))).batteries = st.1.batteries :=
      writeBack_batteries _ _ _ _
    simp only [e] at this
    obtain ⟨y, hy, ey⟩ := List.mem_map.mp this
    rw [← ey]; exact hinv2.batK y hy

/-- **one connector's treatment preserves "station entry = station power"** (second part of the loop invariant) -/
theorem stepGc_loop2 (dops : DOps α B) (law : BatLaw dops.bat) (de : DEnv α)
    (hsd : SideOK dops de.deps de) (hso : SideOK dops de.opps de)
    (hkd : SideKF dops de.deps de) (hko : SideKF dops de.opps de)
    (ncs : List (String × Option Int)) (conn : List (String × List String)) (lk : Look α)
    (w0 : SWorld α B) (ini0 : DInit α) (K KB : List String) (hyp : LoopHyp w0 ini0 K) (hyp2 : LoopHyp2 ini0 K KB)
    (gcId : String) (R : List String) (hnot : gcId ∉ R)
    (st st' : SWorld α B × DInit α × List (String × α)) (hinv : LoopInv w0 ini0 K (gcId :: R) st)
    (hinv2 : LoopInv2 KB st)
    (h : stepGc dops de ncs conn lk st gcId = .ok st') : LoopInv2 KB st' := by
  have hkeep : LoopInv2 KB st := hinv2
  unfold stepGc at h
  split at h
  · cases h
  · rename_i gc hgc
    obtain ⟨hgm, hgid⟩ := gc?_some _ _ gc hgc
    have hgc0 : gc ∈ w0.gcs := hinv.fresh gc hgm (by rw [hgid]; simp)
    simp only [bind, Except.bind] at h
    split at h
    · cases h
    · split at h
      · cases h
      · rename_i cands _ _ cvs hcv
        split at h
        · simp only [Except.ok.injEq] at h; subst h; exact hkeep
        · split at h
          · cases h
          · rename_i kind _
            split at h
            · cases h
            · rename_i stations hst
              have hss := subStations_local st.1 gcId cvs stations (connectedAt_local st.1 gcId cands cvs hcv) hst
              have hbat : (sdGet st.2.1.gcBattery gcId).getD [] = (sdGet ini0.gcBattery gcId).getD [] := by
                rw [hinv.gcb]
              obtain ⟨w', ini', acc'⟩ := st'
              have hmaxS : MaxOK stations := fun s hs => (hinv.ok s (hss s hs).1).1
              have hnoS : ∀ s ∈ stations, (sdGet gc.loads s.id).getD 0 = 0 :=
                fun s hs => hyp.noEntry gc hgc0 s.id (hinv.ids s (hss s hs).1)
              cases kind with
              | deps =>
                -- the virtual world of a depot meets the premises of the contract
                have hprem : (∀ s ∈ stations, s.parent = gc.id) ∧
                    (∀ s ∈ stations, ∀ b ∈ depotBatteries st.1 ((sdGet st.2.1.gcBattery gcId).getD []), s.id ≠ b.id) := by
                  refine ⟨fun s hs => (hss s hs).2.trans hgid.symm, ?_⟩
                  intro s hs b hb e
                  have hbi := (depotBatteries_mem st.1 _ b hb).1
                  rw [hbat] at hbi
                  exact hyp.disj gcId b.id hbi (e ▸ hinv.ids s (hss s hs).1)
                unfold stepDeps at h
                rcases subClass de.deps with ⟨hps, hpl⟩ | ⟨cfg, hps⟩ | ⟨hps, cfg, hpl⟩
                · simp only [hps, hpl] at h
                  unfold stepDepsRule at h
                  simp only [bind, Except.bind] at h
                  split at h
                  · cases h
                  · rename_i r hr
                    obtain ⟨vw', cmds⟩ := r
                    simp only [Except.ok.injEq, Prod.mk.injEq] at h
                    obtain ⟨rfl, rfl, rfl⟩ := h
                    obtain ⟨⟨g1, hg1, hid⟩, hrest⟩ := ruleStep_subOK _ dops.bat law _ gc stations cvs _ vw' cmds hr
                    obtain ⟨hv, hvid⟩ := hrest hmaxS hprem.1 hnoS hprem.2
                    obtain ⟨hkfAll, hids, hbid⟩ := ruleStep_subKF _ dops.bat _ gc stations cvs _ vw' cmds hr
                    exact depsFinish2 w0 ini0 K KB R gcId hyp2 st hinv hinv2 gc hgm hgid stations cvs hss _
                      (fun b hb => List.mem_of_find?_eq_some (depotBatteries_mem st.1 _ b hb).2) vw' g1 hg1
                      (hid.trans hgid) hvid (hkfAll g1 hg1) hids hbid _ _
                · simp only [hps] at h
                  unfold stepDepsPS at h
                  simp only [bind, Except.bind] at h
                  split at h
                  · cases h
                  · rename_i r hr
                    obtain ⟨vw', cmds, evs'⟩ := r
                    simp only [Except.ok.injEq, Prod.mk.injEq] at h
                    obtain ⟨rfl, rfl, rfl⟩ := h
                    have hsub : SubOK (psRun dops de.deps cfg de.env.now st.2.1.depsEvents
                        (subFuture de.future gc.id cvs)) := by
                      simp only [SideOK, hps] at hsd
                      exact hsd _ _
                    obtain ⟨⟨g1, hg1, hid⟩, hrest⟩ := hsub gc stations cvs _ vw' cmds
                      (by unfold psRun; rw [hr]; rfl)
                    obtain ⟨hv, hvid⟩ := hrest hmaxS hprem.1 hnoS hprem.2
                    have hsubk : SubKF (psRun dops de.deps cfg de.env.now st.2.1.depsEvents
                        (subFuture de.future gc.id cvs)) := by
                      simp only [SideKF, hps] at hkd
                      exact hkd _ _
                    obtain ⟨hkfAll, hids, hbid⟩ := hsubk gc stations cvs _ vw' cmds (by unfold psRun; rw [hr]; rfl)
                    exact depsFinish2 w0 ini0 K KB R gcId hyp2 st hinv hinv2 gc hgm hgid stations cvs hss _
                      (fun b hb => List.mem_of_find?_eq_some (depotBatteries_mem st.1 _ b hb).2) vw' g1 hg1
                      (hid.trans hgid) hvid (hkfAll g1 hg1) hids hbid _ _
                · simp only [hps, hpl] at h
                  unfold stepDepsPLW at h
                  simp only [bind, Except.bind] at h
                  split at h
                  · cases h
                  · rename_i r hr
                    obtain ⟨vw', cmds, pk'⟩ := r
                    simp only [Except.ok.injEq, Prod.mk.injEq] at h
                    obtain ⟨rfl, rfl, rfl⟩ := h
                    have hsub : SubOK (plwRun dops de.deps cfg de st.2.1.depsPeaks []) := by
                      simp only [SideOK, hps, hpl] at hsd
                      exact hsd _ _
                    obtain ⟨⟨g1, hg1, hid⟩, hrest⟩ := hsub gc stations cvs _ vw' cmds
                      (by unfold plwRun; rw [hr]; rfl)
                    obtain ⟨hv, hvid⟩ := hrest hmaxS hprem.1 hnoS hprem.2
                    have hsubk : SubKF (plwRun dops de.deps cfg de st.2.1.depsPeaks []) := by
                      simp only [SideKF, hps, hpl] at hkd
                      exact hkd _ _
                    obtain ⟨hkfAll, hids, hbid⟩ := hsubk gc stations cvs _ vw' cmds (by unfold plwRun; rw [hr]; rfl)
                    exact depsFinish2 w0 ini0 K KB R gcId hyp2 st hinv hinv2 gc hgm hgid stations cvs hss _
                      (fun b hb => List.mem_of_find?_eq_some (depotBatteries_mem st.1 _ b hb).2) vw' g1 hg1
                      (hid.trans hgid) hvid (hkfAll g1 hg1) hids hbid _ _
              | opps =>
                unfold stepOpps at h
                -- facts about the battery preparation, common to both classes of sub-strategy
                have prepFacts : ∀ prep : OppsPrep α B,
                    ((sdGet st.2.1.gcBattery gcId).getD []).foldlM
                      (oppsBattery dops de st.2.1 lk st.1 (!cvs.isEmpty) gcId) ⟨gc, [], [], []⟩ = .ok prep →
                    prep.gc.loads = gc.loads ∧ prep.gc.id = gcId ∧
                    (∀ s ∈ prep.vcs, s ∈ st.2.1.virtualCs ∧
                      ∃ b ∈ (sdGet st.2.1.gcBattery gcId).getD [], s.id = virtName b) ∧
                    MaxOK (stations ++ prep.vcs) ∧ (∀ s ∈ stations ++ prep.vcs, s.parent = prep.gc.id) ∧
                    (∀ s ∈ stations ++ prep.vcs, (sdGet prep.gc.loads s.id).getD 0 = 0) := by
                  intro prep hprep
                  obtain ⟨p1, p2, p3⟩ := oppsPrep_facts dops de st.2.1 lk st.1 _ gcId _ ⟨gc, [], [], []⟩ prep rfl hprep
                  have p2' : prep.gc.id = gcId := p2.trans hgid
                  refine ⟨p1, p2', p3, ?_, ?_, ?_⟩
                  · intro s hs
                    rcases List.mem_append.mp hs with h' | h'
                    · exact hmaxS s h'
                    · exact (hinv.virt s (p3 s h').1).1
                  · intro s hs
                    rw [p2']
                    rcases List.mem_append.mp hs with h' | h'
                    · exact (hss s h').2
                    · obtain ⟨hm, b, hb, e⟩ := p3 s h'
                      obtain ⟨_, s0, hs0, e1, e2⟩ := hinv.virt s hm
                      rw [e2]
                      exact hyp.vpar gcId b (by rw [← hbat]; exact hb) s0 hs0 (e1.symm.trans e)
                  · intro s hs
                    rw [p1]
                    rcases List.mem_append.mp hs with h' | h'
                    · exact hnoS s h'
                    · obtain ⟨hm, _⟩ := p3 s h'
                      obtain ⟨_, s0, hs0, e1, _⟩ := hinv.virt s hm
                      rw [e1]; exact hyp.noVirt gc hgc0 s0 hs0
                rcases subClass de.opps with ⟨hps, hpl⟩ | ⟨cfg, hps⟩ | ⟨hps, cfg, hpl⟩
                · simp only [hps, hpl] at h
                  unfold stepOppsRule at h
                  simp only [bind, Except.bind] at h
                  split at h
                  · cases h
                  · rename_i prep hprep
                    obtain ⟨q0, q1, q2, q3, q4, q5⟩ := prepFacts prep hprep
                    split at h
                    · cases h
                    · rename_i r hr
                      obtain ⟨vw', cmds⟩ := r
                      obtain ⟨⟨g1, hg1, hid⟩, hrest⟩ := ruleStep_subOK _ dops.bat law _ prep.gc _ _ _ vw' cmds hr
                      obtain ⟨hv, hvid⟩ := hrest q3 q4 q5 (by intro s _ b hb; simp at hb)
                      simp only [hg1] at h
                      split at h
                      · cases h
                      · rename_i post hpost
                        simp only [Except.ok.injEq, Prod.mk.injEq] at h
                        obtain ⟨rfl, rfl, rfl⟩ := h
                        obtain ⟨hkfAll, hids, _⟩ := ruleStep_subKF _ dops.bat _ prep.gc _ _ _ vw' cmds hr
                        exact oppsFinish2 dops w0 ini0 K KB R hyp hyp2 gcId st hinv hinv2 gc hgm hgid stations cvs _
                          hbat hss prep.vcs q2 (fun s hs => (q4 s hs).trans q1) prep.gc q0 vw' g1 hg1 (hid.trans q1) hvid
                          (fun k hk => hkfAll g1 hg1 k hk (by intro b hb; simp at hb)) hids _ _ _ _ post hpost _ _
                · simp only [hps] at h
                  unfold stepOppsPS at h
                  simp only [bind, Except.bind] at h
                  split at h
                  · cases h
                  · rename_i prep hprep
                    obtain ⟨q0, q1, q2, q3, q4, q5⟩ := prepFacts prep hprep
                    split at h
                    · cases h
                    · rename_i r hr
                      obtain ⟨vw', cmds, evs'⟩ := r
                      have hsub : SubOK (psRun dops de.opps cfg de.env.now st.2.1.oppsEvents
                          (subFuture de.future gcId cvs)) := by
                        simp only [SideOK, hps] at hso
                        exact hso _ _
                      obtain ⟨⟨g1, hg1, hid⟩, hrest⟩ := hsub prep.gc _ _ _ vw' cmds
                        (by unfold psRun; rw [hr]; rfl)
                      obtain ⟨hv, hvid⟩ := hrest q3 q4 q5 (by intro s _ b hb; simp at hb)
                      simp only [hg1] at h
                      split at h
                      · cases h
                      · rename_i post hpost
                        simp only [Except.ok.injEq, Prod.mk.injEq] at h
                        obtain ⟨rfl, rfl, rfl⟩ := h
                        have hsubk : SubKF (psRun dops de.opps cfg de.env.now st.2.1.oppsEvents
                            (subFuture de.future gcId cvs)) := by
                          simp only [SideKF, hps] at hko
                          exact hko _ _
                        obtain ⟨hkfAll, hids, _⟩ := hsubk prep.gc _ _ _ vw' cmds (by unfold psRun; rw [hr]; rfl)
                        exact oppsFinish2 dops w0 ini0 K KB R hyp hyp2 gcId st hinv hinv2 gc hgm hgid stations cvs _
                          hbat hss prep.vcs q2 (fun s hs => (q4 s hs).trans q1) prep.gc q0 vw' g1 hg1 (hid.trans q1) hvid
                          (fun k hk => hkfAll g1 hg1 k hk (by intro b hb; simp at hb)) hids _ _ _ _ post hpost _ _

                · simp only [hps, hpl] at h
                  unfold stepOppsPLW at h
                  simp only [bind, Except.bind] at h
                  split at h
                  · cases h
                  · rename_i prep hprep
                    obtain ⟨q0, q1, q2, q3, q4, q5⟩ := prepFacts prep hprep
                    split at h
                    · cases h
                    · rename_i r hr
                      obtain ⟨vw', cmds, pk'⟩ := r
                      have hsub : SubOK (plwRun dops de.opps cfg de st.2.1.oppsPeaks
                          (prep.vveh.filterMap (fun v => (sdGet st.2.1.virtualVt (virtName v.id)).map
                            (fun vt => (v.id, vt.chargingCurve.points.map (·.2), (none : Option α)))))) := by
                        simp only [SideOK, hps, hpl] at hso
                        exact hso _ _
                      obtain ⟨⟨g1, hg1, hid⟩, hrest⟩ := hsub prep.gc _ _ _ vw' cmds
                        (by unfold plwRun; rw [hr]; rfl)
                      obtain ⟨hv, hvid⟩ := hrest q3 q4 q5 (by intro s _ b hb; simp at hb)
                      simp only [hg1] at h
                      split at h
                      · cases h
                      · rename_i post hpost
                        simp only [Except.ok.injEq, Prod.mk.injEq] at h
                        obtain ⟨rfl, rfl, rfl⟩ := h
                        have hsubk : SubKF (plwRun dops de.opps cfg de st.2.1.oppsPeaks
                            (prep.vveh.filterMap (fun v => (sdGet st.2.1.virtualVt (virtName v.id)).map
                              (fun vt => (v.id, vt.chargingCurve.points.map (·.2), (none : Option α)))))) := by
                          simp only [SideKF, hps, hpl] at hko
                          exact hko _ _
                        obtain ⟨hkfAll, hids, _⟩ := hsubk prep.gc _ _ _ vw' cmds (by unfold plwRun; rw [hr]; rfl)
                        exact oppsFinish2 dops w0 ini0 K KB R hyp hyp2 gcId st hinv hinv2 gc hgm hgid stations cvs _
                          hbat hss prep.vcs q2 (fun s hs => (q4 s hs).trans q1) prep.gc q0 vw' g1 hg1 (hid.trans q1) hvid
                          (fun k hk => hkfAll g1 hg1 k hk (by intro b hb; simp at hb)) hids _ _ _ _ post hpost _ _


theorem stepGc_loop_fold2 (dops : DOps α B) (law : BatLaw dops.bat) (de : DEnv α)
    (hsd : SideOK dops de.deps de) (hso : SideOK dops de.opps de)
    (hkd : SideKF dops de.deps de) (hko : SideKF dops de.opps de)
    (ncs : List (String × Option Int)) (conn : List (String × List String)) (lk : Look α)
    (w0 : SWorld α B) (ini0 : DInit α) (K KB : List String) (hyp : LoopHyp w0 ini0 K) (hyp2 : LoopHyp2 ini0 K KB)
    (ids : List String) (hnd : ids.Nodup)
    (st st' : SWorld α B × DInit α × List (String × α)) (hinv : LoopInv w0 ini0 K ids st) (hinv2 : LoopInv2 KB st)
    (h : ids.foldlM (stepGc dops de ncs conn lk) st = .ok st') : LoopInv w0 ini0 K [] st' ∧ LoopInv2 KB st' := by
  induction ids generalizing st with
  | nil =>
    simp only [List.foldlM_nil, pure, Except.pure, Except.ok.injEq] at h
    subst h; exact ⟨hinv, hinv2⟩
  | cons id rest ih =>
    simp only [List.nodup_cons] at hnd
    simp only [List.foldlM_cons, bind, Except.bind] at h
    split at h
    · cases h
    · rename_i st1 hst1
      exact ih hnd.2 st1
        (stepGc_loop dops law de hsd hso ncs conn lk w0 ini0 K hyp id rest hnd.1 st st1 hinv hst1)
        (stepGc_loop2 dops law de hsd hso hkd hko ncs conn lk w0 ini0 K KB hyp hyp2 id rest hnd.1 st st1 hinv hinv2
          hst1) h

/-- "entry = power" holds at the beginning of the loop (all station powers are 0, no station entries) -/
theorem loopInv2_init (w : SWorld α B) (ini : DInit α) (acc : List (String × α))
    (hyp : LoopHyp (resetStations w) ini (w.stations.map (·.id))) :
    LoopInv2 (w.batteries.map (·.id)) (resetStations w, ini, acc) := by
  refine ⟨?_, fun b hb => List.mem_map.mpr ⟨b, hb, rfl⟩⟩
  intro s hs g hg _
  unfold resetStations at hs
  simp only [List.mem_map] at hs
  obtain ⟨x, hx, rfl⟩ := hs
  exact hyp.noEntry g hg x.id (List.mem_map.mpr ⟨x, hx, rfl⟩)

/-- **after the complete step every station's entry at its connector equals the station's power** -/
theorem step_booked (dops : DOps α B) (law : BatLaw dops.bat) (de : DEnv α)
    (hsd : SideOK dops de.deps de) (hso : SideOK dops de.opps de)
    (hkd : SideKF dops de.deps de) (hko : SideKF dops de.opps de)
    (s s' : DState α B) (cmds : List (String × α))
    (hgnd : (s.world.gcs.map (·.id)).Nodup)
    (hmax : ∀ st ∈ s.world.stations, 0 ≤ st.maxPower) (hvirt : ∀ st ∈ s.init.virtualCs, 0 ≤ st.maxPower)
    (hyp : LoopHyp (resetStations s.world) s.init (s.world.stations.map (·.id)))
    (hyp2 : LoopHyp2 s.init (s.world.stations.map (·.id)) (s.world.batteries.map (·.id)))
    (h : step dops de s = .ok (s', cmds)) : Booked s'.world ∧ Disj s'.world := by
  unfold step at h
  simp only [bind, Except.bind] at h
  split at h
  · cases h
  · rename_i lk _
    split at h
    · cases h
    · rename_i connected _
      split at h
      · cases h
      · rename_i st1 hfold
        obtain ⟨w1, ini1, c1⟩ := st1
        simp only at h
        split at h
        · cases h
        · rename_i ids _
          split at h
          · cases h
          · rename_i r hsur
            obtain ⟨w2, c2⟩ := r
            simp only [Except.ok.injEq, Prod.mk.injEq] at h
            obtain ⟨rfl, _⟩ := h
            obtain ⟨i1, i2⟩ := stepGc_loop_fold2 dops law de hsd hso hkd hko s.numberCs connected lk
              (resetStations s.world) s.init (s.world.stations.map (·.id)) (s.world.batteries.map (·.id)) hyp hyp2 _ hgnd
              _ (w1, ini1, c1) (loopInv_init s.world s.init [] hmax hvirt _) (loopInv2_init s.world s.init [] hyp) hfold
            have hdisj : Disj w1 := fun st hst b hb e =>
              hyp2.disjB st.id (i1.ids st hst) (e ▸ i2.batK b hb)
            exact distributeSurplusOn_booked dops.bat law de.env w1 w2 ids c2 ⟨i2.booked, hdisj⟩ hsur

/-- `toyState` meets the additional premises -/
theorem toyState_loopHyp2 :
    LoopHyp2 toyState.init (toyState.world.stations.map (·.id)) (toyState.world.batteries.map (·.id)) := by
  refine ⟨?_, ?_⟩
  · intro k hk
    simp only [toyState, List.map_cons, List.map_nil, List.mem_cons, List.not_mem_nil, or_false] at hk ⊢
    rcases hk with rfl | rfl <;> decide
  · intro g' b hb
    simp only [toyState, sdGet] at hb
    split at hb
    · simp only [Option.getD_some, List.mem_cons, List.not_mem_nil, or_false] at hb
      subst hb; decide
    · simp at hb

end SpiceEv.Distrib
